/- Helper lemmas for C07 (naming half): the back end's distinct-names check implies that the
`EmbossReserved…` helper types of one structure are pairwise distinct; the namespace scanner
yields identifiers only. -/
import Emboss.Lemmas.EnumDistinct
import Emboss.Model.Names
namespace Emboss.Names
open Emboss.Enum (snakeToCamel distinctLoop distinctLoop_iff isSpace)

/-- The six `$`-names have six different C++ names. -/
theorem cppFieldName_dollar_inj (a b c : Name) (ha : isDollar a = true) (hb : isDollar b = true)
    (h1 : cppFieldName a = some c) (h2 : cppFieldName b = some c) : a = b := by
  have key : ∀ n x, isDollar n = true → cppFieldName n = some x →
      (n = s "$size_in_bits" ∧ x = s "IntrinsicSizeInBits") ∨
      (n = s "$size_in_bytes" ∧ x = s "IntrinsicSizeInBytes") ∨
      (n = s "$max_size_in_bits" ∧ x = s "MaxSizeInBits") ∨
      (n = s "$min_size_in_bits" ∧ x = s "MinSizeInBits") ∨
      (n = s "$max_size_in_bytes" ∧ x = s "MaxSizeInBytes") ∨
      (n = s "$min_size_in_bytes" ∧ x = s "MinSizeInBytes") := by
    intro n x hn hx
    unfold cppFieldName at hx
    split at hx
    · split at hx
      · rename_i h; cases hx; exact Or.inl ⟨h, rfl⟩
      · split at hx
        · rename_i h; cases hx; exact Or.inr (Or.inl ⟨h, rfl⟩)
        · split at hx
          · rename_i h; cases hx; exact Or.inr (Or.inr (Or.inl ⟨h, rfl⟩))
          · split at hx
            · rename_i h; cases hx; exact Or.inr (Or.inr (Or.inr (Or.inl ⟨h, rfl⟩)))
            · split at hx
              · rename_i h; cases hx; exact Or.inr (Or.inr (Or.inr (Or.inr (Or.inl ⟨h, rfl⟩))))
              · split at hx
                · rename_i h; cases hx; exact Or.inr (Or.inr (Or.inr (Or.inr (Or.inr ⟨h, rfl⟩))))
                · cases hx
    · rename_i hnd
      exfalso
      cases n with
      | nil => simp [isDollar] at hn
      | cons c cs =>
        by_cases hc : c = '$'
        · subst hc; exact hnd _ rfl
        · unfold isDollar at hn
          split at hn
          · rename_i heq; cases heq; exact hc rfl
          · cases hn
  have ka := key a c ha h1
  have kb := key b c hb h2
  rcases ka with ⟨rfl, rfl⟩ | ⟨rfl, rfl⟩ | ⟨rfl, rfl⟩ | ⟨rfl, rfl⟩ | ⟨rfl, rfl⟩ | ⟨rfl, rfl⟩ <;>
    rcases kb with ⟨rfl, hc⟩ | ⟨rfl, hc⟩ | ⟨rfl, hc⟩ | ⟨rfl, hc⟩ | ⟨rfl, hc⟩ | ⟨rfl, hc⟩ <;>
    first | (exfalso; simp [s] at hc; done) | rfl

theorem virtualViewName_dollar (n : Name) (h : isDollar n = true) (v : Name)
    (hv : virtualViewName n = some v) :
    ∃ c, cppFieldName n = some c ∧ v = s "EmbossReservedDollarVirtual" ++ c ++ s "View" := by
  cases n with
  | nil => simp [isDollar] at h
  | cons c cs =>
    simp only [isDollar] at h
    split at h
    · rename_i heq
      cases heq
      simp only [virtualViewName, Option.map_eq_some_iff] at hv
      obtain ⟨x, hx, rfl⟩ := hv
      exact ⟨x, hx, rfl⟩
    · cases h

theorem virtualViewName_plain (n : Name) (h : isDollar n = false) :
    virtualViewName n = some (s "EmbossReservedVirtual" ++ snakeToCamel n ++ s "View") := by
  unfold virtualViewName
  split
  · simp [isDollar] at h
  · rfl

/-- **The back end's check implies distinct helper type names**, `$`-fields included. -/
theorem reservedNames_nodup (fs : List Field)
    (hnames : (fs.map (·.name)).Nodup)
    (hdv : ∀ f ∈ fs, isDollar f.name = true → f.validator = false)
    (hchk : fieldNamesDistinct fs = true) : (reservedNames fs).Nodup := by
  simp only [fieldNamesDistinct, Bool.and_eq_true, distinctLoop_iff] at hchk
  obtain ⟨⟨hV, _⟩, ⟨hR, _⟩⟩ := hchk
  have hn : fs.Pairwise (fun a b => a.name ≠ b.name) := List.pairwise_map.mp hnames
  have hV' : fs.Pairwise (fun a b => (a.ownView && !isDollar a.name) = true →
      (b.ownView && !isDollar b.name) = true →
      s "EmbossReservedVirtual" ++ snakeToCamel a.name ++ s "View" ≠
        s "EmbossReservedVirtual" ++ snakeToCamel b.name ++ s "View") := by
    unfold checkedVirtualNames List.Nodup at hV
    exact List.pairwise_filter.mp (List.pairwise_map.mp hV)
  unfold reservedNames List.Nodup
  rw [List.pairwise_append]
  refine ⟨?_, ?_, ?_⟩
  · rw [List.pairwise_filterMap]
    refine (hn.and hV').imp ?_
    rintro a b ⟨hne, hvv⟩ x hx y hy
    by_cases hoa : a.ownView = true
    · by_cases hob : b.ownView = true
      · simp only [hoa, hob, if_true] at hx hy
        cases hda : isDollar a.name <;> cases hdb : isDollar b.name
        · rw [virtualViewName_plain _ hda] at hx
          rw [virtualViewName_plain _ hdb] at hy
          cases hx; cases hy
          exact hvv (by simp [hoa, hda]) (by simp [hob, hdb])
        · rw [virtualViewName_plain _ hda] at hx
          obtain ⟨c, _, rfl⟩ := virtualViewName_dollar _ hdb y hy
          cases hx
          intro h
          simp [s] at h
        · rw [virtualViewName_plain _ hdb] at hy
          obtain ⟨c, _, rfl⟩ := virtualViewName_dollar _ hda x hx
          cases hy
          intro h
          simp [s] at h
        · obtain ⟨ca, hca, rfl⟩ := virtualViewName_dollar _ hda x hx
          obtain ⟨cb, hcb, rfl⟩ := virtualViewName_dollar _ hdb y hy
          intro h
          have h1 := List.append_cancel_right h
          have h2 := List.append_cancel_left h1
          subst h2
          exact hne (cppFieldName_dollar_inj _ _ _ hda hdb hca hcb)
      · simp [hob] at hy
    · simp [hoa] at hx
  · rw [List.pairwise_map]
    have heq : fs.filter (fun f => f.validator) = fs.filter (fun f => f.validator && !isDollar f.name) := by
      apply List.filter_congr
      intro f hf
      cases hd : isDollar f.name
      · simp
      · simp [hdv f hf hd]
    rw [heq]
    unfold checkedValidatorNames List.Nodup at hR
    exact List.pairwise_map.mp hR
  · intro x hx y hy h
    obtain ⟨f, _, hfx⟩ := List.mem_filterMap.mp hx
    obtain ⟨g, _, rfl⟩ := List.mem_map.mp hy
    by_cases hof : f.ownView = true
    · simp only [hof, if_true] at hfx
      cases hd : isDollar f.name
      · rw [virtualViewName_plain _ hd] at hfx
        cases hfx
        simp [s, validatorName] at h
      · obtain ⟨c, _, rfl⟩ := virtualViewName_dollar _ hd x hfx
        simp [s, validatorName] at h
    · simp [hof] at hfx

/-! ## the namespace scanner -/

/-- A C++ identifier (`[a-zA-Z_][a-zA-Z0-9_]*`). -/
def IsIdent (n : Name) : Prop :=
  ∃ c cs, n = c :: cs ∧ isIdentStart c = true ∧ cs.all isIdentChar = true

theorem isIdent_snoc (n : Name) (c : Char) (h : IsIdent n) (hc : isIdentChar c = true) :
    IsIdent (n ++ [c]) := by
  obtain ⟨d, ds, rfl, h1, h2⟩ := h
  exact ⟨d, ds ++ [c], rfl, h1, by simp [List.all_append, h2, hc]⟩

/-- Whatever the scanner returns consists of identifiers, at least one. -/
theorem nsScan_sound (text : List Char) : ∀ (st : NsState) (acc cs : List Name),
    nsScan st acc text = some cs →
    (∀ a ∈ acc, IsIdent a) →
    (match st with
     | .ident cur => IsIdent cur.reverse
     | .trail => acc ≠ []
     | _ => True) →
    cs ≠ [] ∧ ∀ c ∈ cs, IsIdent c := by
  induction text with
  | nil =>
    intro st acc cs h hacc hst
    cases st with
    | ident cur =>
      simp only [nsScan, Option.some.injEq] at h
      subst h
      refine ⟨by simp, ?_⟩
      intro c hc
      simp only [List.reverse_cons, List.mem_append, List.mem_reverse, List.mem_singleton] at hc
      rcases hc with hc | rfl
      · exact hacc c hc
      · exact hst
    | trail =>
      simp only [nsScan, Option.some.injEq] at h
      subst h
      exact ⟨by simpa using hst, fun c hc => hacc c (List.mem_reverse.mp hc)⟩
    | lead => simp [nsScan] at h
    | colon1 => simp [nsScan] at h
    | sep => simp [nsScan] at h
  | cons c rest ih =>
    intro st acc cs h hacc hst
    have start : ∀ d, isIdentStart d = true → IsIdent [d].reverse := by
      intro d hd; exact ⟨d, [], rfl, hd, rfl⟩
    have push : ∀ cur : List Char, IsIdent cur.reverse → ∀ a ∈ cur.reverse :: acc, IsIdent a := by
      intro cur hcur a ha
      rcases List.mem_cons.mp ha with rfl | ha
      · exact hcur
      · exact hacc a ha
    cases st with
    | lead =>
      simp only [nsScan] at h
      split at h
      · exact ih _ _ _ h hacc trivial
      · split at h
        · exact ih _ _ _ h hacc trivial
        · split at h
          · rename_i hs; exact ih _ _ _ h hacc (start c hs)
          · cases h
    | colon1 =>
      simp only [nsScan] at h
      split at h
      · exact ih _ _ _ h hacc trivial
      · cases h
    | sep =>
      simp only [nsScan] at h
      split at h
      · exact ih _ _ _ h hacc trivial
      · split at h
        · rename_i hs; exact ih _ _ _ h hacc (start c hs)
        · cases h
    | ident cur =>
      simp only [nsScan] at h
      split at h
      · rename_i hc
        refine ih _ _ _ h hacc ?_
        show IsIdent (c :: cur).reverse
        rw [List.reverse_cons]
        exact isIdent_snoc _ _ hst hc
      · split at h
        · exact ih _ _ _ h (push cur hst) (by simp)
        · split at h
          · exact ih _ _ _ h (push cur hst) trivial
          · cases h
    | trail =>
      simp only [nsScan] at h
      split at h
      · exact ih _ _ _ h hacc hst
      · split at h
        · exact ih _ _ _ h hacc trivial
        · cases h

end Emboss.Names

/-! ## the clash relation, declaratively -/
namespace Emboss.Names

theorem clashes_eq_nil_iff (ds : List Decl) :
    clashes ds = [] ↔ ds.Pairwise (fun a b => compatible a b = true) := by
  induction ds with
  | nil => simp [clashes]
  | cons d ds ih =>
    simp only [clashes, List.append_eq_nil_iff, List.map_eq_nil_iff, List.filter_eq_nil_iff,
      List.pairwise_cons, ih, Bool.not_eq_true', Bool.not_eq_false]

theorem clean_iff (ds : List Decl) :
    clean ds = true ↔ ds.Pairwise (fun a b => compatible a b = true) := by
  unfold clean
  rw [List.isEmpty_iff]
  exact clashes_eq_nil_iff ds

/-- Two incompatible declarations anywhere in a scope make it ill-formed. -/
theorem not_clean_of_split (as bs : List Decl) (a b : Decl) (ha : a ∈ as) (hb : b ∈ bs)
    (h : compatible a b = false) : clean (as ++ bs) = false := by
  cases hc : clean (as ++ bs) with
  | false => rfl
  | true =>
    have hp := (clean_iff _).mp hc
    rw [List.pairwise_append] at hp
    have := hp.2.2 a ha b hb
    rw [h] at this
    cases this

theorem incompatible_of_ident (a b : Decl) (hi : a.ident = b.ident) (hg : a.group = none) :
    compatible a b = false := by
  simp [compatible, hi, hg]

end Emboss.Names

namespace Emboss.Names

theorem pairwise_mem_ne {α : Type} (R : α → α → Prop) (hs : ∀ a b, R a b → R b a) (l : List α)
    (h : l.Pairwise R) (a b : α) (ha : a ∈ l) (hb : b ∈ l) (hne : a ≠ b) : R a b := by
  induction l with
  | nil => cases ha
  | cons x xs ih =>
    rw [List.pairwise_cons] at h
    rcases List.mem_cons.mp ha with rfl | ha' <;> rcases List.mem_cons.mp hb with rfl | hb'
    · exact absurd rfl hne
    · exact h.1 b hb'
    · exact hs _ _ (h.1 a ha')
    · exact ih h.2 ha' hb'

theorem compatible_symm (a b : Decl) (h : compatible a b = true) : compatible b a = true := by
  unfold compatible at h ⊢
  cases ha : a.group <;> cases hb : b.group <;>
    simp only [ha, hb, Bool.or_false, Bool.or_eq_true, bne_iff_ne, ne_eq, beq_iff_eq] at h ⊢
  · exact fun e => h e.symm
  · exact fun e => h e.symm
  · exact fun e => h e.symm
  · rcases h with h | h
    · exact Or.inl (fun e => h e.symm)
    · exact Or.inr h.symm

/-- Two different incompatible declarations of one scope make it ill-formed. -/
theorem not_clean_of_mem (ds : List Decl) (a b : Decl) (ha : a ∈ ds) (hb : b ∈ ds) (hne : a ≠ b)
    (h : compatible a b = false) : clean ds = false := by
  cases hc : clean ds with
  | false => rfl
  | true =>
    have hp := (clean_iff _).mp hc
    have := pairwise_mem_ne _ compatible_symm ds hp a b ha hb hne
    rw [h] at this
    cases this

def scopeFixed (st : Struct) : List Decl :=
  (fixedMembers st).map (fun n => { ident := n, what := "fixed member" })
def scopeParams (st : Struct) : List Decl :=
  st.params.flatMap (fun p =>
    [{ ident := p, what := "parameter accessor" }, { ident := s "has_" ++ p, what := "parameter has_" },
     { ident := p ++ s "_", what := "parameter member" }])
def scopeFields (st : Struct) : List Decl :=
  st.fields.flatMap (fun f =>
    match cppFieldName f.name with
    | none => []
    | some c =>
      [{ ident := c, what := "field accessor" }, { ident := s "has_" ++ c, what := "field has_" }] ++
      (if f.ownView then
        match virtualViewName f.name with
        | some v => [{ ident := v, what := "virtual view class" }]
        | none => []
       else []))
def scopeEnums (st : Struct) : List Decl :=
  st.nestedEnums.map (fun e => { ident := e, what := "using <enum>" })

theorem classScope_eq (st : Struct) :
    classScope st = scopeFixed st ++ scopeParams st ++ scopeFields st ++ scopeEnums st := rfl

theorem cppFieldName_plain (n : Name) (h : isDollar n = false) : cppFieldName n = some n := by
  unfold cppFieldName
  split
  · simp [isDollar] at h
  · rfl

theorem accessor_mem (st : Struct) (f : Field) (hf : f ∈ st.fields) (hd : isDollar f.name = false) :
    ({ ident := f.name, what := "field accessor" } : Decl) ∈ scopeFields st ∧
    ({ ident := s "has_" ++ f.name, what := "field has_" } : Decl) ∈ scopeFields st := by
  unfold scopeFields
  constructor
  · refine List.mem_flatMap.mpr ⟨f, hf, ?_⟩
    simp [cppFieldName_plain _ hd]
  · refine List.mem_flatMap.mpr ⟨f, hf, ?_⟩
    simp [cppFieldName_plain _ hd]

end Emboss.Names

/-! ## membership in a namespace scope -/
namespace Emboss.Names

theorem incompatible_of_ident' (a b : Decl) (hi : a.ident = b.ident) (hg : b.group = none) :
    compatible a b = false := by
  cases ha : a.group <;> simp [compatible, hi, hg, ha]

theorem mem_zipIdx {α : Type} (l : List α) (a : α) (h : a ∈ l) : ∃ i, (a, i) ∈ zipIdx l := by
  unfold zipIdx
  obtain ⟨k, hk, rfl⟩ := List.mem_iff_getElem.mp h
  refine ⟨k, ?_⟩
  rw [List.mem_iff_getElem]
  exact ⟨k, by simpa using hk, by simp⟩

theorem structDecl_mem (sc : Scope) (n : Name) (hn : n ∈ sc.structs) :
    ∃ i, ∀ d ∈ structDecls n i, d ∈ namespaceScope sc := by
  obtain ⟨i, hi⟩ := mem_zipIdx sc.structs n hn
  refine ⟨i, fun d hd => ?_⟩
  unfold namespaceScope
  exact List.mem_append_left _ (List.mem_append_left _ (List.mem_append_left _ (List.mem_flatMap.mpr ⟨(n, i), hi, hd⟩)))

theorem enumDecl_mem (sc : Scope) (e : Name) (he : e ∈ sc.enums) :
    ∀ d ∈ enumDecls e sc.traits, d ∈ namespaceScope sc := by
  intro d hd
  unfold namespaceScope
  exact List.mem_append_left _ (List.mem_append_left _ (List.mem_append_right _ (List.mem_flatMap.mpr ⟨e, he, hd⟩)))

end Emboss.Names
