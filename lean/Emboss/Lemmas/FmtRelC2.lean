/-
C11 helper lemmas, part 15: blocks related column-wise; `_should_add_blank_lines` and
`_columnize` respect the relation (trailing blanks of a header's last column never reach
a column width that is used).
-/
import Emboss.Lemmas.FmtRelC
namespace Emboss.Fmt

/-- The number of header columns of each kind of block. -/
def ncols : RowName → Nat
  | .field => 7
  | .enumValue => 6
  | .virtualField => 1
  | _ => 0

structure BlockRel (b b' : Block) : Prop where
  pre : RowsRel b.pre b'.pre
  header : RowRel b.header b'.header
  body : RowsRel b.body b'.body
  nc : b.header.columns.length = ncols b.header.name

abbrev BlocksRel := All₂ BlockRel

theorem All₂.map₂ {α β : Type} {R : α → α → Prop} {S : β → β → Prop} (f g : α → β)
    (hf : ∀ a b, R a b → S (f a) (g b)) {l l' : List α} (h : All₂ R l l') : All₂ S (l.map f) (l'.map g) := by
  induction h with
  | nil => exact All₂.nil
  | cons hab _ ih => exact All₂.cons (hf _ _ hab) ih

theorem BlockRel.indentBlock {b b' : Block} (h : BlockRel b b') : BlockRel (indentBlock b) (indentBlock b') :=
  ⟨h.pre.indentRows, h.header.indentRow, h.body.indentRows, h.nc⟩

theorem BlocksRel.indentBlocks {l l' : List Block} (h : BlocksRel l l') : BlocksRel (indentBlocks l) (indentBlocks l') :=
  All₂.map indentBlock (fun _ _ hab => BlockRel.indentBlock hab) h

/-! ### `_should_add_blank_lines` -/

theorem BlockRel.nonEmptyLines {b b' : Block} (h : BlockRel b b') : nonEmptyLines b = nonEmptyLines b' := by
  unfold Emboss.Fmt.nonEmptyLines
  exact All₂.filter_length _ (fun _ _ hr => by rw [hr.colsEmpty]) (h.body.append h.pre)

theorem BlocksRel.map_nonEmptyLines {l l' : List Block} (h : BlocksRel l l') :
    l.map nonEmptyLines = l'.map nonEmptyLines := by
  induction h with
  | nil => rfl
  | cons hab _ ih => simp only [List.map_cons, hab.nonEmptyLines, ih]

theorem shouldAddBlankLines_eq (l : List Block) :
    shouldAddBlankLines l =
      decide (((l.map nonEmptyLines).length : Int) ≤ ((l.map nonEmptyLines).sum : Int) -
        (((l.map nonEmptyLines).getLast?.getD 0 : Nat) : Int)) := by
  unfold shouldAddBlankLines
  simp only [List.length_map, List.getLast?_map]
  cases l.getLast? <;> rfl

theorem BlocksRel.shouldAddBlankLines {l l' : List Block} (h : BlocksRel l l') :
    shouldAddBlankLines l = Emboss.Fmt.shouldAddBlankLines l' := by
  rw [shouldAddBlankLines_eq, shouldAddBlankLines_eq, h.map_nonEmptyLines]

/-! ### `_columnize` -/

theorem ColsRel.getElem?_eq : ∀ {cs cs' : List Str}, ColsRel cs cs' → ∀ i, i + 1 < cs.length → cs[i]? = cs'[i]?
  | [], [], _, i, hi => by simp at hi
  | [_], [_], _, i, hi => by simp at hi
  | c :: d :: cs, c' :: d' :: cs', h, i, hi => by
    obtain ⟨rfl, h2⟩ := h
    cases i with
    | zero => rfl
    | succ j =>
      simp only [List.getElem?_cons_succ]
      exact ColsRel.getElem?_eq (cs := d :: cs) (cs' := d' :: cs') h2 j (by simp only [List.length_cons] at hi ⊢; omega)
  | [], _ :: _, h, _, _ => by simp [ColsRel] at h
  | _ :: _, [], h, _, _ => by simp [ColsRel] at h
  | [_], _ :: _ :: _, h, _, _ => by simp [ColsRel] at h
  | _ :: _ :: _, [_], h, _, _ => by simp [ColsRel] at h

theorem colWidth_foldl_eq (iw ic : Nat) (name : RowName) (i : Nat) (hi : i + 1 < ncols name) :
    ∀ {l l' : List Block}, BlocksRel l l' → ∀ m : Nat,
      l.foldl (fun m b =>
        if b.header.name = name then
          match b.header.columns[i]? with
          | some c => max m (c.length + (if i + 1 = ic then b.header.indent * iw else 0))
          | none => m
        else m) m =
      l'.foldl (fun m b =>
        if b.header.name = name then
          match b.header.columns[i]? with
          | some c => max m (c.length + (if i + 1 = ic then b.header.indent * iw else 0))
          | none => m
        else m) m := by
  intro l l' h
  induction h with
  | nil => intro m; rfl
  | @cons b b' rest rest' hb _ ih =>
    intro m
    simp only [List.foldl_cons]
    have hstep : (if b.header.name = name then
          match b.header.columns[i]? with
          | some c => max m (c.length + (if i + 1 = ic then b.header.indent * iw else 0))
          | none => m
        else m) = (if b'.header.name = name then
          match b'.header.columns[i]? with
          | some c => max m (c.length + (if i + 1 = ic then b'.header.indent * iw else 0))
          | none => m
        else m) := by
      rw [← hb.header.name, ← hb.header.indent]
      by_cases hn : b.header.name = name
      · have : b.header.columns[i]? = b'.header.columns[i]? :=
          hb.header.cols.getElem?_eq i (by rw [hb.nc, hn]; exact hi)
        simp only [hn, if_true, this]
      · simp only [hn, if_false]
    rw [hstep]
    exact ih _

theorem colWidth_eq {l l' : List Block} (h : BlocksRel l l') (iw ic : Nat) (name : RowName) (i : Nat)
    (hi : i + 1 < ncols name) : colWidth l iw ic name i = colWidth l' iw ic name i :=
  colWidth_foldl_eq iw ic name i hi h 0

theorem ljust_eq (c : Str) (n : Int) : ljust c n = c ++ spaces (n.toNat - c.length) := rfl

/-- The width a cell of column `i` is padded to (the `let`s of `padCols`). -/
def padWidth (blocks : List Block) (iw ic : Nat) (h : Row) (i : Nat) : Int :=
  let w : Int := colWidth blocks iw ic h.name i
  if w = 0 then 0
  else
    let w1 := if i + 1 = ic then w - (h.indent * iw : Nat) else w
    if singleWidthSep h.name i then w1 + 1 else w1 + 2

theorem padCols_cons (blocks : List Block) (iw ic : Nat) (h : Row) (i : Nat) (c : Str) (rest : List Str) :
    padCols blocks iw ic h i (c :: rest) =
      ljust c (padWidth blocks iw ic h i) :: padCols blocks iw ic h (i + 1) rest := rfl

theorem padCols_rel {l l' : List Block} (hb : BlocksRel l l') (iw ic : Nat) (h h' : Row)
    (hn : h.name = h'.name) (hi : h.indent = h'.indent) :
    ∀ (cs cs' : List Str), ColsRel cs cs' → ∀ (i : Nat), i + cs.length = ncols h.name → ∀ p : Str,
      rstrip (p ++ (padCols l iw ic h i cs).flatten) = rstrip (p ++ (padCols l' iw ic h' i cs').flatten)
  | [], [], _, _, _, _ => rfl
  | [c], [c'], hc, i, _, p => by
    rw [padCols_cons, padCols_cons]
    simp only [padCols, List.flatten_cons, List.flatten_nil, List.append_nil, ljust_eq]
    rw [← List.append_assoc, ← List.append_assoc, rstrip_append_spaces, rstrip_append_spaces]
    exact rstrip_append_congr p hc.1
  | c :: d :: cs, c' :: d' :: cs', hc, i, hlen, p => by
    obtain ⟨rfl, h2⟩ := hc
    have hw : colWidth l iw ic h.name i = colWidth l' iw ic h'.name i := by
      rw [← hn]
      exact colWidth_eq hb iw ic h.name i (by simp only [List.length_cons] at hlen; omega)
    have ih := padCols_rel hb iw ic h h' hn hi (d :: cs) (d' :: cs') h2 (i + 1)
      (by simp only [List.length_cons] at hlen ⊢; omega)
    have hpw : padWidth l iw ic h i = padWidth l' iw ic h' i := by
      unfold padWidth
      rw [hw, hn, hi]
    rw [padCols_cons l iw ic h i c (d :: cs), padCols_cons l' iw ic h' i c (d' :: cs'), hpw]
    simp only [List.flatten_cons]
    rw [← List.append_assoc, ← List.append_assoc]
    exact ih _
  | [], _ :: _, h, _, _, _ => by simp [ColsRel] at h
  | _ :: _, [], h, _, _, _ => by simp [ColsRel] at h
  | [_], _ :: _ :: _, h, _, _, _ => by simp [ColsRel] at h
  | _ :: _ :: _, [_], h, _, _, _ => by simp [ColsRel] at h

theorem columnizeBlock_rel {l l' : List Block} (hb : BlocksRel l l') (iw ic : Nat) {b b' : Block}
    (h : BlockRel b b') : RowsRel (columnizeBlock l iw ic b) (columnizeBlock l' iw ic b') := by
  unfold columnizeBlock
  have hcell : rstrip (padCols l iw ic b.header 0 b.header.columns).flatten =
      rstrip (padCols l' iw ic b'.header 0 b'.header.columns).flatten := by
    have := padCols_rel hb iw ic b.header b'.header h.header.name h.header.indent
      b.header.columns b'.header.columns h.header.cols 0 (by rw [h.nc]; omega) []
    simpa using this
  have hrow : RowRel
      { name := b.header.name, columns := [rstrip (padCols l iw ic b.header 0 b.header.columns).flatten],
        indent := b.header.indent }
      { name := b'.header.name, columns := [rstrip (padCols l' iw ic b'.header 0 b'.header.columns).flatten],
        indent := b'.header.indent } :=
    ⟨h.header.name, h.header.indent, by show ColsRel [_] [_]; rw [hcell]; exact CRel.refl _⟩
  exact (h.pre.append (All₂.cons hrow All₂.nil)).append h.body

theorem headerNames_rel {l l' : List Block} (h : BlocksRel l l') : headerNames l = headerNames l' := by
  induction h with
  | nil => rfl
  | cons hab _ ih => simp only [headerNames, ih, hab.header.name]

theorem columnize_rel {l l' : List Block} (h : BlocksRel l l') (iw ic : Nat) (secs : List (List Row))
    (hs : columnize l iw ic = some secs) :
    ∃ secs', columnize l' iw ic = some secs' ∧ All₂ RowsRel secs secs' := by
  unfold columnize at hs ⊢
  rw [← headerNames_rel h]
  split at hs
  · rename_i hlt
    cases hs
    simp only [hlt, if_true]
    exact ⟨_, rfl, All₂.map₂ _ _ (fun _ _ hab => columnizeBlock_rel h iw ic hab) h⟩
  · cases hs

end Emboss.Fmt
