/-
Helper lemmas for C06 (integer text codec): `DecodeInteger`'s loop computes exactly the
declarative value of the digits, or rejects when that value leaves the type's range.
-/
import Emboss.Spec.Text
namespace Emboss.Text
open Spec

theorem decodeDigit_ascii : ∀ n, n < 128 → decodeDigit (Char.ofNat n) = digitValue (Char.ofNat n) := by
  decide

theorem digitTable_keys : ∀ k ∈ digitTable.map (·.1), k.toNat < 128 := by decide

theorem decodeDigit_eq (c : Char) : decodeDigit c = digitValue c := by
  by_cases h : c.toNat < 128
  · have := decodeDigit_ascii c.toNat h
    rwa [Char.ofNat_toNat] at this
  · have h1 : decodeDigit c = none := by
      unfold decodeDigit
      simp only
      split
      · omega
      · split
        · omega
        · split
          · omega
          · rfl
    have h2 : digitValue c = none := by
      unfold digitValue
      rw [List.lookup_eq_none_iff]
      intro p hp
      have := digitTable_keys p.1 (List.mem_map_of_mem hp)
      simp only [bne_iff_ne, ne_eq]
      intro hc
      subst hc
      omega
    rw [h1, h2]

theorem pos_guard (hi acc : Int) (d b : Nat) (hb : b = 2 ∨ b = 10 ∨ b = 16) (hd : d < b)
    (hhi : 15 ≤ hi) :
    (acc > Int.tdiv (hi - (d : Int)) (b : Int)) ↔ (acc * (b : Int) + (d : Int) > hi) := by
  have h0 : 0 ≤ hi - (d : Int) := by rcases hb with rfl | rfl | rfl <;> omega
  rw [Int.tdiv_eq_ediv_of_nonneg h0]
  rcases hb with rfl | rfl | rfl <;> omega

theorem neg_guard (lo acc : Int) (d b : Nat) (hb : b = 2 ∨ b = 10 ∨ b = 16) (hd : d < b)
    (hlo : lo ≤ -16) :
    (acc < Int.tdiv (lo + (d : Int)) (b : Int)) ↔ (acc * (b : Int) - (d : Int) < lo) := by
  have h0 : 0 ≤ -(lo + (d : Int)) := by rcases hb with rfl | rfl | rfl <;> omega
  have h1 : Int.tdiv (lo + (d : Int)) (b : Int) = -((-(lo + (d : Int))) / (b : Int)) := by
    rw [← Int.tdiv_eq_ediv_of_nonneg h0, Int.neg_tdiv, Int.neg_neg]
  rw [h1]
  rcases hb with rfl | rfl | rfl <;> omega

theorem valueFrom_nil (b : Nat) (a : Int) : valueFrom b a [] = a := rfl
theorem valueFrom_cons (b : Nat) (a : Int) (d : Nat) (ds : List Nat) :
    valueFrom b a (d :: ds) = valueFrom b (a * (b : Int) + (d : Int)) ds := rfl

theorem valueFrom_ge (b : Nat) (hb : 1 ≤ b) : ∀ (ds : List Nat) (a : Int), 0 ≤ a → a ≤ valueFrom b a ds := by
  intro ds
  induction ds with
  | nil => intro a _; exact Int.le_refl _
  | cons d ds ih =>
    intro a ha
    rw [valueFrom_cons]
    have h1 : a * 1 ≤ a * (b : Int) := Int.mul_le_mul_of_nonneg_left (by omega) ha
    have h2 : 0 ≤ a * (b : Int) + (d : Int) := by omega
    have := ih _ h2
    omega

/-- What the positive loop computes, declaratively. -/
def posResult (hi : Int) (b : Nat) (acc : Int) (cs : List Char) : Option Int :=
  (digitsOf b cs).bind fun ds =>
    if valueFrom b acc ds ≤ hi then some (valueFrom b acc ds) else none

theorem decodeLoop_pos (lo hi : Int) (b : Nat) (hb : b = 2 ∨ b = 10 ∨ b = 16) (hhi : 15 ≤ hi) :
    ∀ (cs : List Char) (acc : Int) (st : Bool), 0 ≤ acc → acc ≤ hi →
      (st = true → cs.head? ≠ some '_') →
      decodeLoop lo hi false b st acc cs = posResult hi b acc cs := by
  have hb1 : 1 ≤ b := by omega
  intro cs
  induction cs with
  | nil =>
    intro acc st _ h2 _
    simp [decodeLoop, posResult, digitsOf, valueFrom_nil, h2]
  | cons c cs ih =>
    intro acc st h1 h2 hst
    by_cases hc : c = '_'
    · subst hc
      have : st = false := by
        cases st
        · rfl
        · exact absurd rfl (hst rfl)
      subst this
      have := ih acc false h1 h2 (by intro h; cases h)
      simp only [decodeLoop, posResult, digitsOf] at this ⊢
      simpa using this
    · unfold decodeLoop posResult digitsOf
      simp only [hc, if_false, decodeDigit_eq]
      cases hdv : digitValue c with
      | none => simp
      | some d =>
        simp only
        by_cases hd : b ≤ d
        · have : ¬ d < b := by omega
          simp [hd, this]
        · have hd' : d < b := by omega
          simp only [hd, hd', if_false, if_true, Bool.false_eq_true]
          by_cases hg : acc > Int.tdiv (hi - (d : Int)) (b : Int)
          · simp only [hg, if_true]
            have hgt := (pos_guard hi acc d b hb hd' hhi).mp hg
            cases hds : digitsOf b cs with
            | none => simp
            | some ds =>
              have hge := valueFrom_ge b hb1 ds (acc * (b : Int) + (d : Int)) (by
                have : 0 ≤ acc * (b : Int) := Int.mul_nonneg h1 (by omega)
                omega)
              have : ¬ valueFrom b acc (d :: ds) ≤ hi := by
                rw [valueFrom_cons]; omega
              simp [this]
          · simp only [hg, if_false]
            have hle : acc * (b : Int) + (d : Int) ≤ hi := by
              have : ¬ (acc * (b : Int) + (d : Int) > hi) := fun h => hg ((pos_guard hi acc d b hb hd' hhi).mpr h)
              omega
            have h0 : 0 ≤ acc * (b : Int) + (d : Int) := by
              have : 0 ≤ acc * (b : Int) := Int.mul_nonneg h1 (by omega)
              omega
            rw [ih _ false h0 hle (by intro h; cases h)]
            unfold posResult
            cases hds : digitsOf b cs with
            | none => simp
            | some ds =>
              simp only [Option.map_some, Option.bind_some, valueFrom_cons]
              split <;> rename_i h' <;> simp [h']

/-- What the negative loop computes, declaratively (`acc ≤ 0` is minus the magnitude so far). -/
def negResult (lo : Int) (b : Nat) (acc : Int) (cs : List Char) : Option Int :=
  (digitsOf b cs).bind fun ds =>
    if lo ≤ -(valueFrom b (-acc) ds) then some (-(valueFrom b (-acc) ds)) else none

theorem decodeLoop_neg (lo hi : Int) (b : Nat) (hb : b = 2 ∨ b = 10 ∨ b = 16) (hlo : lo ≤ -16) :
    ∀ (cs : List Char) (acc : Int) (st : Bool), acc ≤ 0 → lo ≤ acc →
      (st = true → cs.head? ≠ some '_') →
      decodeLoop lo hi true b st acc cs = negResult lo b acc cs := by
  have hb1 : 1 ≤ b := by omega
  intro cs
  induction cs with
  | nil =>
    intro acc st _ h2 _
    simp [decodeLoop, negResult, digitsOf, valueFrom_nil, h2]
  | cons c cs ih =>
    intro acc st h1 h2 hst
    by_cases hc : c = '_'
    · subst hc
      have : st = false := by
        cases st
        · rfl
        · exact absurd rfl (hst rfl)
      subst this
      have := ih acc false h1 h2 (by intro h; cases h)
      simp only [decodeLoop, negResult, digitsOf] at this ⊢
      simpa using this
    · unfold decodeLoop negResult digitsOf
      simp only [hc, if_false, decodeDigit_eq]
      cases hdv : digitValue c with
      | none => simp
      | some d =>
        simp only
        by_cases hd : b ≤ d
        · have : ¬ d < b := by omega
          simp [hd, this]
        · have hd' : d < b := by omega
          simp only [hd, hd', if_false, if_true]
          have hneg : -(acc * (b : Int) - (d : Int)) = -acc * (b : Int) + (d : Int) := by
            rw [Int.neg_sub, Int.neg_mul]; omega
          have hm : 0 ≤ -acc * (b : Int) := Int.mul_nonneg (by omega) (by omega)
          by_cases hg : acc < Int.tdiv (lo + (d : Int)) (b : Int)
          · simp only [hg, if_true]
            have hgt := (neg_guard lo acc d b hb hd' hlo).mp hg
            cases hds : digitsOf b cs with
            | none => simp
            | some ds =>
              have hge := valueFrom_ge b hb1 ds (-acc * (b : Int) + (d : Int)) (by omega)
              have : ¬ lo ≤ -(valueFrom b (-acc) (d :: ds)) := by
                rw [valueFrom_cons]; omega
              simp [this]
          · simp only [hg, if_false]
            have hle : lo ≤ acc * (b : Int) - (d : Int) := by
              have : ¬ (acc * (b : Int) - (d : Int) < lo) := fun h => hg ((neg_guard lo acc d b hb hd' hlo).mpr h)
              omega
            have h0 : acc * (b : Int) - (d : Int) ≤ 0 := by omega
            rw [ih _ false h0 hle (by intro h; cases h)]
            unfold negResult
            rw [hneg]
            cases hds : digitsOf b cs with
            | none => simp
            | some ds =>
              simp only [Option.map_some, Option.bind_some, valueFrom_cons]
              split <;> rename_i h' <;> simp [h']

theorem splitSign_eq (T : IntTy) (s : List Char) :
    splitSign T s = (signOf T.signed s, afterSign T.signed s) := by
  cases s with
  | nil => simp [splitSign, signOf, afterSign]
  | cons c r =>
    by_cases hc : c = '-'
    · subst hc
      cases hs : T.signed <;> simp [splitSign, signOf, afterSign, hs]
    · have : splitSign T (c :: r) = (false, c :: r) := by
        unfold splitSign
        split
        · rename_i h; cases h; exact absurd rfl hc
        · rfl
      rw [this]
      simp [signOf, afterSign, hc]

theorem splitBase_eq (s : List Char) :
    splitBase s = (baseOf s, bodyOf s, decide (baseOf s ≠ 10)) := by
  match s with
  | [] => simp [splitBase, baseOf, bodyOf]
  | [a] =>
    have : splitBase [a] = (10, [a], false) := by
      unfold splitBase; split
      · rename_i h; cases h
      · rfl
    rw [this]; simp [baseOf, bodyOf]
  | a :: c :: r =>
    by_cases ha : a = '0'
    · subst ha
      unfold splitBase
      by_cases h1 : c = 'x' ∨ c = 'X'
      · rcases h1 with rfl | rfl <;> simp [baseOf, bodyOf]
      · by_cases h2 : c = 'b' ∨ c = 'B'
        · rcases h2 with rfl | rfl <;> simp [baseOf, bodyOf]
        · have hx : c ≠ 'x' := fun h => h1 (Or.inl h)
          have hX : c ≠ 'X' := fun h => h1 (Or.inr h)
          have hb : c ≠ 'b' := fun h => h2 (Or.inl h)
          have hB : c ≠ 'B' := fun h => h2 (Or.inr h)
          simp [baseOf, bodyOf, h1, h2, hx, hX, hb, hB]
    · have : splitBase (a :: c :: r) = (10, a :: c :: r, false) := by
        unfold splitBase; split
        · rename_i h; cases h; exact absurd rfl ha
        · rfl
      rw [this]; simp [baseOf, bodyOf, ha]

theorem baseOf_cases (s : List Char) : baseOf s = 2 ∨ baseOf s = 10 ∨ baseOf s = 16 := by
  unfold baseOf; split
  · exact Or.inr (Or.inr rfl)
  · split
    · exact Or.inl rfl
    · exact Or.inr (Or.inl rfl)

theorem IntTy.maxVal_ge (T : IntTy) : 15 ≤ T.maxVal := by cases T <;> decide
theorem IntTy.minVal_le (T : IntTy) : T.minVal ≤ 0 := by cases T <;> decide
theorem IntTy.minVal_signed (T : IntTy) (h : T.signed = true) : T.minVal ≤ -16 := by
  cases T <;> first | decide | cases h

/-- Accept/reject filter of the declarative value. -/
def inRangeOnly (T : IntTy) (v : Int) : Option Int := if T.InRange v then some v else none

/-- Complete characterisation of `DecodeInteger`. -/
theorem decodeInt_eq (T : IntTy) (s : List Char) :
    decodeInt T s =
      if s.head? = some '_' then none else (textValue T.signed s).bind (inRangeOnly T) := by
  unfold decodeInt
  rw [splitSign_eq]
  simp only
  rw [splitBase_eq]
  simp only
  unfold textValue
  simp only
  have hb := baseOf_cases (afterSign T.signed s)
  by_cases hbody : bodyOf (afterSign T.signed s) = []
  · simp [hbody]
  · simp only [hbody, if_false]
    cases hneg : signOf T.signed s with
    | true =>
      have hs : T.signed = true ∧ s.head? = some '-' := by
        simpa [signOf] using hneg
      have hhead : ¬ s.head? = some '_' := by rw [hs.2]; decide
      simp only [hhead, if_false, Bool.not_true, Bool.false_and]
      rw [decodeLoop_neg _ _ _ hb (IntTy.minVal_signed T hs.1) _ 0 false (Int.le_refl _)
        (IntTy.minVal_le T) (by intro h; cases h)]
      unfold negResult
      cases hds : digitsOf (baseOf (afterSign T.signed s)) (bodyOf (afterSign T.signed s)) with
      | none => simp
      | some ds =>
        have hge := valueFrom_ge (baseOf (afterSign T.signed s)) (by omega) ds 0 (Int.le_refl _)
        have hhi := IntTy.maxVal_ge T
        simp only [Option.bind_some, Option.map_some, Int.neg_zero, if_true, inRangeOnly,
          IntTy.InRange]
        by_cases h : T.minVal ≤ -valueFrom (baseOf (afterSign T.signed s)) 0 ds
        · have h2 : -valueFrom (baseOf (afterSign T.signed s)) 0 ds ≤ T.maxVal := by omega
          simp [h, h2]
        · simp [h]
    | false =>
      have hs1 : afterSign T.signed s = s := by simp [afterSign, hneg]
      rw [hs1] at hb hbody ⊢
      simp only [Bool.not_false, Bool.true_and]
      by_cases hhead : s.head? = some '_'
      · simp only [hhead, if_true]
        cases s with
        | nil => simp at hhead
        | cons c r =>
          have hc : c = '_' := by simpa using hhead
          subst hc
          have h10 : baseOf ('_' :: r) = 10 := by
            cases r <;> simp [baseOf]
          simp [bodyOf, h10, decodeLoop]
      · simp only [hhead, if_false]
        rw [decodeLoop_pos _ _ _ hb (IntTy.maxVal_ge T) _ 0 _ (Int.le_refl _)
          (by have := IntTy.maxVal_ge T; omega)
          (by
            intro hst
            have h10 : baseOf s = 10 := by simpa using hst
            simpa [bodyOf, h10] using hhead)]
        unfold posResult
        cases hds : digitsOf (baseOf s) (bodyOf s) with
        | none => simp
        | some ds =>
          have hge := valueFrom_ge (baseOf s) (by omega) ds 0 (Int.le_refl _)
          have hlo := IntTy.minVal_le T
          simp only [Option.bind_some, Option.map_some, inRangeOnly, IntTy.InRange]
          by_cases h : valueFrom (baseOf s) 0 ds ≤ T.maxVal
          · have h2 : T.minVal ≤ valueFrom (baseOf s) 0 ds := by omega
            simp [h, h2]
          · simp [h]

end Emboss.Text
