/-
Helper lemmas for C06 (tokenizer): a well separated piece list is read back token for
token by `ReadToken` (`tokens_of_wellSep`).
-/
import Emboss.Spec.TextTok
namespace Emboss.Text

theorem discardWs_space (s R : List Char) (h : ∀ c ∈ s, isSpace c = true) :
    discardWs false (s ++ R) = discardWs false R := by
  induction s with
  | nil => rfl
  | cons c s ih =>
    have hc := h c (by simp)
    have hs : ∀ c ∈ s, isSpace c = true := fun c hc => h c (by simp [hc])
    have hne : c ≠ '#' := by
      intro h; subst h; simp [isSpace] at hc
    simp only [List.cons_append, discardWs]
    by_cases hn : c = '\r' ∨ c = '\n'
    · simp [hn, hc, ih hs]
    · simp [hn, hne, hc, ih hs]

theorem discardWs_newline (c : Char) (s R : List Char) (hc : c = '\n' ∨ c = '\r')
    (h : ∀ c ∈ s, isSpace c = true) :
    discardWs true (c :: s ++ R) = discardWs false R := by
  have hsp : isSpace c = true := by rcases hc with rfl | rfl <;> decide
  have hn : c = '\r' ∨ c = '\n' := by rcases hc with h | h <;> simp [h]
  simp only [List.cons_append, discardWs]
  simp [hn, hsp, discardWs_space s R h]

theorem discardWs_comment_body (b R : List Char) (h : ∀ c ∈ b, c ≠ '\n' ∧ c ≠ '\r') :
    discardWs true (b ++ R) = discardWs true R := by
  induction b with
  | nil => rfl
  | cons c b ih =>
    have hc := h c (by simp)
    have hb : ∀ c ∈ b, c ≠ '\n' ∧ c ≠ '\r' := fun c hc => h c (by simp [hc])
    simp only [List.cons_append, discardWs]
    have hn : ¬ (c = '\r' ∨ c = '\n') := by
      intro h; rcases h with h | h
      · exact hc.2 h
      · exact hc.1 h
    by_cases hh : c = '#'
    · simp [hn, hh, ih hb]
    · simp [hn, hh, ih hb]

theorem discardWs_comment (b R : List Char) (h : ∀ c ∈ b, c ≠ '\n' ∧ c ≠ '\r') :
    discardWs false ('#' :: b ++ R) = discardWs true R := by
  simp only [List.cons_append, discardWs]
  have : ¬ (('#' : Char) = '\r' ∨ ('#' : Char) = '\n') := by decide
  simp [this, discardWs_comment_body b R h]

/-- What may follow a word in the character stream. -/
def StartsDelim (R : List Char) : Prop := R = [] ∨ ∃ c R', R = c :: R' ∧ isDelim c = true

theorem tokenBody_word (w R : List Char) (hw : ∀ c ∈ w, isDelim c = false) (hR : StartsDelim R) :
    tokenBody (w ++ R) = (w, R) := by
  induction w with
  | nil =>
    rcases hR with rfl | ⟨c, R', rfl, hc⟩
    · rfl
    · simp only [List.nil_append, tokenBody]
      have : (isSpace c || decide (c = '#') || isPunct c) = true := by simpa [isDelim] using hc
      simp [this]
  | cons c w ih =>
    have hc := hw c (by simp)
    have hw' : ∀ c ∈ w, isDelim c = false := fun c hc => hw c (by simp [hc])
    simp only [List.cons_append, tokenBody]
    have : (isSpace c || decide (c = '#') || isPunct c) = false := by simpa [isDelim] using hc
    simp [this, ih hw']

theorem discardWs_nondelim (c : Char) (R : List Char) (hc : isSpace c = false) (hh : c ≠ '#') :
    discardWs false (c :: R) = c :: R := by
  simp only [discardWs]
  have hn : ¬ (c = '\r' ∨ c = '\n') := by
    intro h; rcases h with rfl | rfl <;> simp [isSpace] at hc
  simp [hn, hh, hc]

theorem readToken_word (w R : List Char) (hw : ValidWord w) (hR : StartsDelim R) :
    readTokenFrom false (w ++ R) = (w, R) := by
  obtain ⟨hne, hall⟩ := hw
  cases w with
  | nil => exact absurd rfl hne
  | cons c w =>
    have hc : isDelim c = false := hall c (by simp)
    have h1 : isSpace c = false := by
      simp only [isDelim, Bool.or_eq_false_iff] at hc; exact hc.1.1
    have h2 : c ≠ '#' := by
      simp only [isDelim, Bool.or_eq_false_iff] at hc; simpa using hc.1.2
    have h3 : isPunct c = false := by
      simp only [isDelim, Bool.or_eq_false_iff] at hc; exact hc.2
    unfold readTokenFrom
    rw [List.cons_append, discardWs_nondelim c _ h1 h2]
    simp only [h3]
    rw [tokenBody_word w R (fun c hc => hall c (by simp [hc])) hR]
    simp

theorem readToken_punct (c : Char) (R : List Char) (hc : isPunct c = true) :
    readTokenFrom false (c :: R) = ([c], R) := by
  have h1 : isSpace c = false := by
    simp only [isPunct, Bool.or_eq_true, decide_eq_true_eq] at hc
    rcases hc with ((((rfl | rfl) | rfl) | rfl) | rfl) | rfl <;> decide
  have h2 : c ≠ '#' := by
    intro h; subst h; simp [isPunct] at hc
  unfold readTokenFrom
  rw [discardWs_nondelim c R h1 h2]
  simp [hc]

theorem tokensAuxFrom_congr (ic ic' : Bool) (fuel : Nat) (s s' : List Char)
    (h : discardWs ic s = discardWs ic' s') :
    tokensAuxFrom ic fuel s = tokensAuxFrom ic' fuel s' := by
  cases fuel with
  | zero => rfl
  | succ n => simp only [tokensAuxFrom, readTokenFrom, h]

theorem startsDelim_of_wellSep (ps : List Piece) (h : WellSep .word ps) : StartsDelim (render ps) := by
  cases ps with
  | nil => exact Or.inl rfl
  | cons p ps =>
    obtain ⟨hv, hok, _⟩ := h
    cases p with
    | word w => exact absurd hok (by simp [OkAfter])
    | punct c =>
      refine Or.inr ⟨c, render ps, rfl, ?_⟩
      have : isPunct c = true := hv
      simp [isDelim, this]
    | comment b =>
      exact Or.inr ⟨'#', b ++ render ps, rfl, by simp [isDelim]⟩
    | space s =>
      cases s with
      | nil => exact absurd rfl hok
      | cons c s =>
        refine Or.inr ⟨c, s ++ render ps, rfl, ?_⟩
        have : isSpace c = true := hv c (by simp)
        simp [isDelim, this]

/-- Theorem A: a well separated piece list is read back token for token. -/
theorem tokens_of_wellSep : ∀ (ps : List Piece) (k : Kind) (fuel : Nat), WellSep k ps →
    (render ps).length < fuel →
    tokensAuxFrom (decide (k = .comment)) fuel (render ps) = some (toks ps) := by
  intro ps
  induction ps with
  | nil =>
    intro k fuel _ hf
    cases fuel with
    | zero => simp at hf
    | succ n => cases k <;> simp [render, toks, tokensAuxFrom, readTokenFrom, discardWs]
  | cons p ps ih =>
    intro k fuel hws hf
    obtain ⟨hv, hok, hrest⟩ := hws
    cases p with
    | space s =>
      have hsv : ∀ c ∈ s, isSpace c = true := hv
      have hlen : (render ps).length < fuel := by
        simp only [render, Piece.render, List.length_append] at hf; omega
      have key : discardWs (decide (k = .comment)) (s ++ render ps) = discardWs false (render ps) := by
        cases k with
        | comment =>
          cases s with
          | nil => exact absurd hok (by simp [OkAfter])
          | cons c s =>
            have hc : c = '\n' ∨ c = '\r' := hok
            simpa using discardWs_newline c s (render ps) hc (fun c hc => hsv c (by simp [hc]))
        | word => simpa using discardWs_space s (render ps) hsv
        | other => simpa using discardWs_space s (render ps) hsv
      have := ih .other fuel hrest hlen
      simp only [render, Piece.render, toks]
      rw [tokensAuxFrom_congr _ false fuel _ _ key]
      simpa using this
    | comment b =>
      have hbv : ∀ c ∈ b, c ≠ '\n' ∧ c ≠ '\r' := hv
      have hk : k ≠ .comment := by
        intro h; subst h; exact absurd hok (by simp [OkAfter])
      have hlen : (render ps).length < fuel := by
        simp only [render, Piece.render, List.length_append, List.length_cons] at hf; omega
      have key : discardWs (decide (k = .comment)) ('#' :: b ++ render ps) = discardWs true (render ps) := by
        simp only [hk, decide_false]
        exact discardWs_comment b (render ps) hbv
      have := ih .comment fuel hrest hlen
      simp only [render, Piece.render, toks]
      rw [tokensAuxFrom_congr _ true fuel _ _ key]
      simpa using this
    | word w =>
      have hk : k ≠ .comment := by
        intro h; subst h; exact absurd hok (by simp [OkAfter])
      have hwv : ValidWord w := hv
      cases fuel with
      | zero => simp at hf
      | succ n =>
        have hw1 : 1 ≤ w.length := by
          cases w with
          | nil => exact absurd rfl hwv.1
          | cons _ _ => simp
        have hlen : (render ps).length < n := by
          simp only [render, Piece.render, List.length_append] at hf; omega
        have hrd := readToken_word w (render ps) hwv (startsDelim_of_wellSep ps hrest)
        have := ih .word n hrest hlen
        simp only [render, Piece.render, toks, hk, decide_false, tokensAuxFrom, hrd]
        have hne : w ≠ [] := hwv.1
        cases w with
        | nil => exact absurd rfl hne
        | cons c w' =>
          simp only
          simpa using this
    | punct c =>
      have hk : k ≠ .comment := by
        intro h; subst h; exact absurd hok (by simp [OkAfter])
      have hcv : isPunct c = true := hv
      cases fuel with
      | zero => simp at hf
      | succ n =>
        have hlen : (render ps).length < n := by
          simp only [render, Piece.render, List.length_append, List.length_cons, List.length_nil] at hf; omega
        have hrd := readToken_punct c (render ps) hcv
        have := ih .other n hrest hlen
        simp only [render, Piece.render, toks, hk, decide_false, tokensAuxFrom, List.cons_append,
          List.nil_append, hrd]
        simpa using this

end Emboss.Text
