/-
C16 — helper lemmas for Emboss/Properties/C16.lean.
-/
import Emboss.Spec.Pipeline
namespace Emboss.Pipeline

/-! ### split_errors -/

theorem splitErrors_user (es : Errors) : ∀ g ∈ (splitErrors es).1, g.isSynthetic = false := by
  intro g hg
  simp only [splitErrors, List.mem_filter] at hg
  simpa using hg.2

theorem splitErrors_syn (es : Errors) : ∀ g ∈ (splitErrors es).2, g.isSynthetic = true := by
  intro g hg
  simp only [splitErrors, List.mem_filter] at hg
  exact hg.2

theorem splitErrors_sub1 (es : Errors) : ∀ g ∈ (splitErrors es).1, g ∈ es := by
  intro g hg
  simp only [splitErrors, List.mem_filter] at hg
  exact hg.1

theorem splitErrors_sub2 (es : Errors) : ∀ g ∈ (splitErrors es).2, g ∈ es := by
  intro g hg
  simp only [splitErrors, List.mem_filter] at hg
  exact hg.1

theorem splitErrors_user_empty (es : Errors) (h : (splitErrors es).1 = []) :
    ∀ g ∈ es, g.isSynthetic = true := by
  intro g hg
  cases hs : g.isSynthetic with
  | true => rfl
  | false =>
    have : g ∈ (splitErrors es).1 := by
      simp only [splitErrors, List.mem_filter]
      exact ⟨hg, by simp [hs]⟩
    rw [h] at this
    cases this

theorem isEmpty_false_ne_nil {l : List α} (h : (!l.isEmpty) = true) : l ≠ [] := by
  cases l with
  | nil => simp at h
  | cons a t => simp

/-! ### process_ir -/

/-- Everything the loop can report. -/
theorem processLoop_errors (stop : Option String) :
    ∀ (ps : List (Pass σ)) (s : σ) (deferred es : Errors),
      processLoop stop ps s deferred = .errors es →
      (∀ g ∈ deferred, g.isSynthetic = true) →
      es ≠ [] ∧
      ((∀ g ∈ es, g.isSynthetic = false) ∧ (∃ r ∈ results ps s, ∀ g ∈ es, g ∈ r) ∨
       (∀ g ∈ es, g.isSynthetic = true) ∧ (∀ r ∈ results ps s, ∀ g ∈ r, g.isSynthetic = true) ∧
         (∀ g ∈ es, g ∈ deferred ∨ ∃ r ∈ results ps s, g ∈ r)) := by
  intro ps
  induction ps with
  | nil =>
    intro s deferred es h hd
    simp only [processLoop] at h
    split at h
    · rename_i hne
      cases h
      refine ⟨isEmpty_false_ne_nil hne, Or.inr ⟨hd, ?_, ?_⟩⟩
      · intro r hr; simp [results] at hr
      · intro g hg; exact Or.inl hg
    · split at h <;> cases h
  | cons p ps ih =>
    intro s deferred es h hd
    simp only [processLoop] at h
    split at h
    · cases h
    · split at h
      · rename_i hne
        cases h
        refine ⟨isEmpty_false_ne_nil hne, Or.inl ⟨splitErrors_user _, ?_⟩⟩
        exact ⟨(p.run s).2, by simp [results], splitErrors_sub1 _⟩
      · rename_i hempty
        have hnil : (splitErrors (p.run s).2).1 = [] := by
          cases hx : (splitErrors (p.run s).2).1 with
          | nil => rfl
          | cons a t => simp [hx] at hempty
        have hd' : ∀ g ∈ deferred ++ (splitErrors (p.run s).2).2, g.isSynthetic = true := by
          intro g hg
          rcases List.mem_append.mp hg with h1 | h2
          · exact hd g h1
          · exact splitErrors_syn _ g h2
        obtain ⟨hne, hcase⟩ := ih _ _ _ h hd'
        refine ⟨hne, ?_⟩
        rcases hcase with ⟨hu, r, hr, hsub⟩ | ⟨hsyn, hall, hfrom⟩
        · exact Or.inl ⟨hu, r, by simp [results, hr], hsub⟩
        · refine Or.inr ⟨hsyn, ?_, ?_⟩
          · intro r hr
            simp only [results, List.mem_cons] at hr
            rcases hr with rfl | hr
            · exact splitErrors_user_empty _ hnil
            · exact hall r hr
          · intro g hg
            rcases hfrom g hg with h1 | ⟨r, hr, hgr⟩
            · rcases List.mem_append.mp h1 with h1 | h1
              · exact Or.inl h1
              · exact Or.inr ⟨(p.run s).2, by simp [results], splitErrors_sub2 _ g h1⟩
            · exact Or.inr ⟨r, by simp [results, hr], hgr⟩

/-- The late assertion is unreachable once the first one has passed. -/
theorem processLoop_no_crash (stop : Option String) :
    ∀ (ps : List (Pass σ)) (s : σ) (deferred : Errors) (c : Crash),
      (∀ n, stop = some n → n ∈ ps.map (·.name)) →
      processLoop stop ps s deferred ≠ .crash c := by
  intro ps
  induction ps with
  | nil =>
    intro s deferred c hstop h
    simp only [processLoop] at h
    split at h
    · cases h
    · split at h
      · rename_i hs
        cases hst : stop with
        | none => simp [hst] at hs
        | some n => have := hstop n hst; simp at this
      · cases h
  | cons p ps ih =>
    intro s deferred c hstop h
    simp only [processLoop] at h
    split at h
    · cases h
    · rename_i hne
      split at h
      · cases h
      · refine ih _ _ c ?_ h
        intro n hn
        have := hstop n hn
        simp only [List.map_cons, List.mem_cons] at this
        rcases this with rfl | h2
        · exact absurd hn hne
        · exact h2

/-! ### import queue -/

theorem enqueue_spec : ∀ (is q seen : List String),
    ∃ new, (enqueue is q seen).1 = q ++ new ∧ (enqueue is q seen).2 = seen ++ new ∧
      (seen.Nodup → (seen ++ new).Nodup) ∧ (∀ x ∈ new, x ∈ is) ∧
      (∀ x ∈ is, x ∈ seen ++ new) := by
  intro is
  induction is with
  | nil => intro q seen; exact ⟨[], by simp [enqueue]⟩
  | cons i is ih =>
    intro q seen
    simp only [enqueue]
    split
    · rename_i hc
      obtain ⟨new, h1, h2, h3, h4, h5⟩ := ih q seen
      refine ⟨new, h1, h2, h3, ?_, ?_⟩
      · intro x hx; exact List.mem_cons_of_mem _ (h4 x hx)
      · intro x hx
        rcases List.mem_cons.mp hx with rfl | hx
        · have : x ∈ seen := by simpa using hc
          exact List.mem_append_left _ this
        · exact h5 x hx
    · rename_i hc
      have hni : i ∉ seen := by simpa using hc
      obtain ⟨new, h1, h2, h3, h4, h5⟩ := ih (q ++ [i]) (seen ++ [i])
      refine ⟨i :: new, by simp [h1], by simp [h2], ?_, ?_, ?_⟩
      · intro hnd
        have : (seen ++ [i]).Nodup := by
          rw [List.nodup_append]
          refine ⟨hnd, by simp, ?_⟩
          intro a ha b hb
          simp at hb
          rintro rfl
          exact hni (hb ▸ ha)
        have := h3 this
        simpa using this
      · intro x hx
        rcases List.mem_cons.mp hx with rfl | hx
        · simp
        · exact List.mem_cons_of_mem _ (h4 x hx)
      · intro x hx
        rcases List.mem_cons.mp hx with rfl | hx
        · simp
        · have := h5 x hx
          simpa using this

theorem nodup_subset_length : ∀ (l u : List String), l.Nodup → (∀ x ∈ l, x ∈ u) → l.length ≤ u.length := by
  intro l
  induction l with
  | nil => intro u _ _; simp
  | cons a l ih =>
    intro u hnd hsub
    have ha : a ∈ u := hsub a (by simp)
    have hnd' := List.nodup_cons.mp hnd
    have := ih (u.erase a) hnd'.2 (by
      intro x hx
      have hxu := hsub x (List.mem_cons_of_mem _ hx)
      have hne : x ≠ a := by rintro rfl; exact hnd'.1 hx
      exact (List.mem_erase_of_ne hne).mpr hxu)
    have hl := List.length_erase_of_mem ha
    simp only [List.length_cons]
    have hpos : 0 < u.length := List.length_pos_of_mem ha
    omega

end Emboss.Pipeline
