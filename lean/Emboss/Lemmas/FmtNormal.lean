/-
C11 helper lemmas, part 9: the formatter does not look at what it may change.
`fold_equiv`: on equivalent trees (`equivT`: same productions, same tokens except for the
texts of layout tokens and trailing blanks of Documentation tokens) the fold yields the
same value at every node.
-/
import Emboss.Lemmas.FmtTree
namespace Emboss.Fmt

/-- `args` and `args'` have the same length and agree at every position (counted from `i`)
that is not in `d`. -/
def agreeOff (d : List Nat) : Nat → List Fmt → List Fmt → Prop
  | _, [], [] => True
  | i, a :: as, b :: bs => (i ∈ d ∨ a = b) ∧ agreeOff d (i + 1) as bs
  | _, _, _ => False

theorem agreeOff_cons {d : List Nat} {i : Nat} {a : Fmt} {as l : List Fmt}
    (h : agreeOff d i (a :: as) l) :
    ∃ b bs, l = b :: bs ∧ (i ∈ d ∨ a = b) ∧ agreeOff d (i + 1) as bs := by
  cases l with
  | nil => simp [agreeOff] at h
  | cons b bs => exact ⟨b, bs, rfl, h.1, h.2⟩

theorem agreeOff_nil {d : List Nat} {i : Nat} {l : List Fmt} (h : agreeOff d i [] l) : l = [] := by
  cases l with
  | nil => rfl
  | cons b bs => simp [agreeOff] at h

theorem agreeOff_empty : ∀ (as bs : List Fmt) (i : Nat), agreeOff [] i as bs → as = bs := by
  intro as
  induction as with
  | nil => intro bs i h; exact (agreeOff_nil h).symm
  | cons a as ih =>
    intro bs i h
    obtain ⟨b, bs', rfl, h0, h1⟩ := agreeOff_cons h
    simp at h0
    rw [h0, ih bs' (i + 1) h1]

/-- A handler does not look at the arguments it drops. -/
theorem run_agreeOff (iw : Nat) (h : Handler) (args args' : List Fmt) (ks : List Kind) (k : Kind)
    (ha : agreeOff h.dropped 0 args args') (hk : HasKinds args ks) (hs : h.sig ks = some k) :
    h.run iw args = h.run iw args' := by
  by_cases hd : h.dropped = []
  · rw [hd] at ha; rw [agreeOff_empty _ _ _ ha]
  cases h <;> first | exact absurd rfl hd | skip
  case structureBody =>
    simp only [Handler.sig] at hs
    obtain ⟨rfl, rfl⟩ := ite_some_eq hs
    obtain ⟨a, _, rfl, _, hk⟩ := hasKinds_cons hk
    obtain ⟨b, _, rfl, _, hk⟩ := hasKinds_cons hk
    obtain ⟨c, _, rfl, _, hk⟩ := hasKinds_cons hk
    obtain ⟨d, _, rfl, _, hk⟩ := hasKinds_cons hk
    obtain ⟨e, _, rfl, _, hk⟩ := hasKinds_cons hk
    obtain ⟨f, _, rfl, _, hk⟩ := hasKinds_cons hk
    cases hasKinds_nil hk
    obtain ⟨a', _, rfl, h0, ha⟩ := agreeOff_cons ha
    obtain ⟨b', _, rfl, h1, ha⟩ := agreeOff_cons ha
    obtain ⟨c', _, rfl, h2, ha⟩ := agreeOff_cons ha
    obtain ⟨d', _, rfl, h3, ha⟩ := agreeOff_cons ha
    obtain ⟨e', _, rfl, h4, ha⟩ := agreeOff_cons ha
    obtain ⟨f', _, rfl, h5, ha⟩ := agreeOff_cons ha
    cases agreeOff_nil ha
    simp [Handler.dropped] at h1 h2 h3 h4
    subst h1
    subst h2
    subst h3
    subst h4
    rfl
  case fieldBody =>
    simp only [Handler.sig] at hs
    obtain ⟨rfl, rfl⟩ := ite_some_eq hs
    obtain ⟨a, _, rfl, _, hk⟩ := hasKinds_cons hk
    obtain ⟨b, _, rfl, _, hk⟩ := hasKinds_cons hk
    obtain ⟨c, _, rfl, _, hk⟩ := hasKinds_cons hk
    obtain ⟨d, _, rfl, _, hk⟩ := hasKinds_cons hk
    cases hasKinds_nil hk
    obtain ⟨a', _, rfl, h0, ha⟩ := agreeOff_cons ha
    obtain ⟨b', _, rfl, h1, ha⟩ := agreeOff_cons ha
    obtain ⟨c', _, rfl, h2, ha⟩ := agreeOff_cons ha
    obtain ⟨d', _, rfl, h3, ha⟩ := agreeOff_cons ha
    cases agreeOff_nil ha
    simp [Handler.dropped] at h1 h2
    subst h1
    subst h2
    rfl
  case enumValueBody =>
    simp only [Handler.sig] at hs
    obtain ⟨rfl, rfl⟩ := ite_some_eq hs
    obtain ⟨a, _, rfl, _, hk⟩ := hasKinds_cons hk
    obtain ⟨b, _, rfl, _, hk⟩ := hasKinds_cons hk
    obtain ⟨c, _, rfl, _, hk⟩ := hasKinds_cons hk
    obtain ⟨d, _, rfl, _, hk⟩ := hasKinds_cons hk
    cases hasKinds_nil hk
    obtain ⟨a', _, rfl, h0, ha⟩ := agreeOff_cons ha
    obtain ⟨b', _, rfl, h1, ha⟩ := agreeOff_cons ha
    obtain ⟨c', _, rfl, h2, ha⟩ := agreeOff_cons ha
    obtain ⟨d', _, rfl, h3, ha⟩ := agreeOff_cons ha
    cases agreeOff_nil ha
    simp [Handler.dropped] at h1 h2
    subst h1
    subst h2
    rfl
  case externalBody =>
    simp only [Handler.sig] at hs
    obtain ⟨rfl, rfl⟩ := ite_some_eq hs
    obtain ⟨a, _, rfl, _, hk⟩ := hasKinds_cons hk
    obtain ⟨b, _, rfl, _, hk⟩ := hasKinds_cons hk
    obtain ⟨c, _, rfl, _, hk⟩ := hasKinds_cons hk
    obtain ⟨d, _, rfl, _, hk⟩ := hasKinds_cons hk
    cases hasKinds_nil hk
    obtain ⟨a', _, rfl, h0, ha⟩ := agreeOff_cons ha
    obtain ⟨b', _, rfl, h1, ha⟩ := agreeOff_cons ha
    obtain ⟨c', _, rfl, h2, ha⟩ := agreeOff_cons ha
    obtain ⟨d', _, rfl, h3, ha⟩ := agreeOff_cons ha
    cases agreeOff_nil ha
    simp [Handler.dropped] at h1 h2
    subst h1
    subst h2
    rfl
  case inlineBitsBody =>
    simp only [Handler.sig] at hs
    obtain ⟨rfl, rfl⟩ := ite_some_eq hs
    obtain ⟨a, _, rfl, _, hk⟩ := hasKinds_cons hk
    obtain ⟨b, _, rfl, _, hk⟩ := hasKinds_cons hk
    obtain ⟨c, _, rfl, _, hk⟩ := hasKinds_cons hk
    obtain ⟨d, _, rfl, _, hk⟩ := hasKinds_cons hk
    cases hasKinds_nil hk
    obtain ⟨a', _, rfl, h0, ha⟩ := agreeOff_cons ha
    obtain ⟨b', _, rfl, h1, ha⟩ := agreeOff_cons ha
    obtain ⟨c', _, rfl, h2, ha⟩ := agreeOff_cons ha
    obtain ⟨d', _, rfl, h3, ha⟩ := agreeOff_cons ha
    cases agreeOff_nil ha
    simp [Handler.dropped] at h1 h2
    subst h1
    subst h2
    rfl
  case conditionalField =>
    simp only [Handler.sig] at hs
    obtain ⟨rfl, rfl⟩ := ite_some_eq hs
    obtain ⟨a, _, rfl, _, hk⟩ := hasKinds_cons hk
    obtain ⟨b, _, rfl, _, hk⟩ := hasKinds_cons hk
    obtain ⟨c, _, rfl, _, hk⟩ := hasKinds_cons hk
    obtain ⟨d, _, rfl, _, hk⟩ := hasKinds_cons hk
    obtain ⟨e, _, rfl, _, hk⟩ := hasKinds_cons hk
    obtain ⟨f, _, rfl, _, hk⟩ := hasKinds_cons hk
    obtain ⟨g, _, rfl, _, hk⟩ := hasKinds_cons hk
    obtain ⟨h, _, rfl, _, hk⟩ := hasKinds_cons hk
    cases hasKinds_nil hk
    obtain ⟨a', _, rfl, h0, ha⟩ := agreeOff_cons ha
    obtain ⟨b', _, rfl, h1, ha⟩ := agreeOff_cons ha
    obtain ⟨c', _, rfl, h2, ha⟩ := agreeOff_cons ha
    obtain ⟨d', _, rfl, h3, ha⟩ := agreeOff_cons ha
    obtain ⟨e', _, rfl, h4, ha⟩ := agreeOff_cons ha
    obtain ⟨f', _, rfl, h5, ha⟩ := agreeOff_cons ha
    obtain ⟨g', _, rfl, h6, ha⟩ := agreeOff_cons ha
    obtain ⟨h', _, rfl, h7, ha⟩ := agreeOff_cons ha
    cases agreeOff_nil ha
    simp [Handler.dropped] at h0 h1 h2 h3 h4 h6
    subst h0
    subst h1
    subst h2
    subst h3
    subst h4
    subst h6
    rfl
  case enumBody =>
    simp only [Handler.sig] at hs
    obtain ⟨rfl, rfl⟩ := ite_some_eq hs
    obtain ⟨a, _, rfl, _, hk⟩ := hasKinds_cons hk
    obtain ⟨b, _, rfl, _, hk⟩ := hasKinds_cons hk
    obtain ⟨c, _, rfl, _, hk⟩ := hasKinds_cons hk
    obtain ⟨d, _, rfl, _, hk⟩ := hasKinds_cons hk
    obtain ⟨e, _, rfl, _, hk⟩ := hasKinds_cons hk
    cases hasKinds_nil hk
    obtain ⟨a', _, rfl, h0, ha⟩ := agreeOff_cons ha
    obtain ⟨b', _, rfl, h1, ha⟩ := agreeOff_cons ha
    obtain ⟨c', _, rfl, h2, ha⟩ := agreeOff_cons ha
    obtain ⟨d', _, rfl, h3, ha⟩ := agreeOff_cons ha
    obtain ⟨e', _, rfl, h4, ha⟩ := agreeOff_cons ha
    cases agreeOff_nil ha
    simp [Handler.dropped] at h1 h2 h3
    subst h1
    subst h2
    subst h3
    rfl
  case commentLine =>
    simp only [Handler.sig] at hs
    obtain ⟨rfl, rfl⟩ := ite_some_eq hs
    obtain ⟨a, _, rfl, _, hk⟩ := hasKinds_cons hk
    obtain ⟨b, _, rfl, _, hk⟩ := hasKinds_cons hk
    cases hasKinds_nil hk
    obtain ⟨a', _, rfl, h0, ha⟩ := agreeOff_cons ha
    obtain ⟨b', _, rfl, h1, ha⟩ := agreeOff_cons ha
    cases agreeOff_nil ha
    simp [Handler.dropped] at h0
    subst h0
    rfl
  case eol =>
    simp only [Handler.sig] at hs
    obtain ⟨rfl, rfl⟩ := ite_some_eq hs
    obtain ⟨a, _, rfl, _, hk⟩ := hasKinds_cons hk
    obtain ⟨b, _, rfl, _, hk⟩ := hasKinds_cons hk
    cases hasKinds_nil hk
    obtain ⟨a', _, rfl, h0, ha⟩ := agreeOff_cons ha
    obtain ⟨b', _, rfl, h1, ha⟩ := agreeOff_cons ha
    cases agreeOff_nil ha
    simp [Handler.dropped] at h1
    subst h1
    rfl

/-- Values of two equivalent trees: anything at a layout token, strings equal up to
trailing blanks at a Documentation token, equal otherwise. -/
def Res : Tree → Fmt → Fmt → Prop
  | .tok s _, v, v' =>
    if isLayoutSym s = true then True
    else if s = docSym then ∃ x x', v = .str x ∧ v' = .str x' ∧ rstrip x = rstrip x'
    else v = v'
  | .node _ _, v, v' => v = v'

def ResL : List Tree → List Fmt → List Fmt → Prop
  | [], [], [] => True
  | t :: ts, v :: vs, v' :: vs' => Res t v v' ∧ ResL ts vs vs'
  | _, _, _ => False

theorem resL_agreeOff (tbl : Table) (h : Handler) (hdoc : (h == Handler.docRstrip) = false) :
    ∀ (cs : List Tree) (args args' : List Fmt) (i : Nat),
      normPos h i (cs.map (rootSym tbl)) = true → ResL cs args args' →
      agreeOff h.dropped i args args' := by
  intro cs
  induction cs with
  | nil =>
    intro args args' i _ hr
    cases args <;> cases args' <;> simp [ResL] at hr
    trivial
  | cons c cs ih =>
    intro args args' i hn hr
    cases args with
    | nil => simp [ResL] at hr
    | cons a as =>
      cases args' with
      | nil => simp [ResL] at hr
      | cons a' as' =>
        simp only [ResL] at hr
        simp only [List.map_cons, normPos, Bool.and_eq_true, Bool.or_eq_true, Bool.not_eq_true',
          List.contains_iff_mem, bne_iff_ne, ne_eq, hdoc, Bool.false_eq_true, or_false] at hn
        refine ⟨?_, ih as as' (i + 1) hn.2 hr.2⟩
        cases c with
        | tok s x =>
          simp only [rootSym] at hn
          have hr1 := hr.1
          simp only [Res] at hr1
          rcases hn.1.1 with hl | hm
          · right
            simp only [hl, Bool.false_eq_true, if_false, hn.1.2] at hr1
            exact hr1
          · left; exact hm
        | node p cs0 => right; exact hr.1

/-- A handler yields the same value on the values of equivalent children. -/
theorem run_congr (tbl : Table) (iw : Nat) (h : Handler) (cs : List Tree) (args args' : List Fmt)
    (ks : List Kind) (k : Kind)
    (hn : normPos h 0 (cs.map (rootSym tbl)) = true) (hr : ResL cs args args')
    (hk : HasKinds args ks) (hs : h.sig ks = some k) :
    h.run iw args = h.run iw args' := by
  cases hdoc : (h == Handler.docRstrip) with
  | false => exact run_agreeOff iw h args args' ks k (resL_agreeOff tbl h hdoc cs args args' 0 hn hr) hk hs
  | true =>
    have : h = .docRstrip := by simpa using hdoc
    subst this
    simp only [Handler.sig] at hs
    obtain ⟨rfl, rfl⟩ := ite_some_eq hs
    obtain ⟨a, _, rfl, hka, hk⟩ := hasKinds_cons hk
    cases hasKinds_nil hk
    cases cs with
    | nil => simp [ResL] at hr
    | cons c cs =>
      cases args' with
      | nil => simp [ResL] at hr
      | cons a' as' =>
        simp only [ResL] at hr
        cases cs with
        | cons _ _ => cases as' <;> simp [ResL] at hr
        | nil =>
          cases as' with
          | cons _ _ => simp [ResL] at hr
          | nil =>
            cases c with
            | node p cs0 => rw [hr.1]
            | tok s x =>
              simp only [List.map_cons, rootSym, normPos, Handler.dropped, List.contains_nil, Bool.or_false,
                Bool.and_eq_true, Bool.not_eq_true'] at hn
              have hr1 := hr.1
              simp only [Res, hn.1.1, Bool.false_eq_true, if_false] at hr1
              split at hr1
              · obtain ⟨y, y', rfl, rfl, hyy⟩ := hr1
                simp only [Handler.run, hDocRstrip, asStr, Option.pure_def, Option.bind_eq_bind,
                  Option.bind_some, hyy]
              · rw [hr1]

theorem equivL_nil_left {cs' : List Tree} (h : equivL [] cs' = true) : cs' = [] := by
  cases cs' with
  | nil => rfl
  | cons _ _ => simp [equivL] at h

mutual
  theorem fold_equiv (tbl : Table) (iw : Nat) (ht : tableTyped tbl = true) (hn : tableNormal tbl = true) :
      ∀ (t t' : Tree), wf tbl t = true → equivT t t' = true →
        ∀ v, fold tbl iw t = some v → ∃ v', fold tbl iw t' = some v' ∧ Res t v v'
    | .tok s x, .tok s' x', _, he, v, hv => by
      simp only [equivT, Bool.and_eq_true, beq_iff_eq] at he
      obtain ⟨rfl, hte⟩ := he
      simp only [fold, Option.some.injEq] at hv
      subst hv
      refine ⟨.str x', rfl, ?_⟩
      simp only [Res]
      simp only [tokEquiv, Bool.or_eq_true] at hte
      split
      · trivial
      · rename_i hl
        rcases hte with hte | hte
        · exact absurd hte hl
        · split
          · rename_i hd
            simp only [hd, beq_self_eq_true, if_true, beq_iff_eq] at hte
            exact ⟨x, x', rfl, rfl, hte⟩
          · rename_i hd
            have : (s == docSym) = false := by simpa using hd
            simp only [this, Bool.false_eq_true, if_false, beq_iff_eq] at hte
            rw [hte]
    | .tok _ _, .node _ _, _, he, _, _ => by simp [equivT] at he
    | .node _ _, .tok _ _, _, he, _, _ => by simp [equivT] at he
    | .node p cs, .node p' cs', hw, he, v, hv => by
      simp only [equivT, Bool.and_eq_true, beq_iff_eq] at he
      obtain ⟨rfl, hel⟩ := he
      simp only [wf] at hw
      split at hw
      · cases hw
      · rename_i e he
        simp only [Bool.and_eq_true, beq_iff_eq] at hw
        obtain ⟨⟨hrhs, hwl⟩, hdoc⟩ := hw
        obtain ⟨hce, _, _⟩ := tableTyped_entry ht he
        have hno : normOK e = true := by
          simp only [tableNormal, List.all_eq_true] at hn
          exact hn e (List.mem_of_getElem? he)
        obtain ⟨args, hargs, hkinds, _⟩ := foldList_ok tbl iw ht cs hwl
        obtain ⟨args', hargs', hres⟩ := foldList_equiv tbl iw ht hn cs cs' hwl hel args hargs
        cases hres' : resolve e with
        | none => simp [hres'] at hdoc
        | some h =>
          have hfold : fold tbl iw (.node p cs) = h.run iw args := by
            simp only [fold, he, hres', hargs]
          have hfold' : fold tbl iw (.node p cs') = h.run iw args' := by
            simp only [fold, he, hres', hargs']
          have hkinds' : HasKinds args (e.2.1.map kindOf) := by
            rw [← hrhs, List.map_map]; exact hkinds
          simp only [normOK, normCore, hres'] at hno
          rw [← hrhs] at hno
          simp only [Res]
          by_cases hel' : h = .emptyList
          · subst hel'
            simp only [checkEntry, checkCore, hres', Bool.and_eq_true, List.isEmpty_iff] at hce
            have hcs : cs = [] := map_eq_nil_of (hrhs.trans (map_eq_nil_of hce.1))
            subst hcs
            cases equivL_nil_left hel
            exact ⟨v, hv, rfl⟩
          · have hce' : ∃ k, h.sig (e.2.1.map kindOf) = some k := by
              simp only [checkEntry, checkCore, hres'] at hce
              cases h <;> first | exact absurd rfl hel' | (
                split at hce
                · rename_i k hk; exact ⟨k, hk⟩
                · cases hce)
            obtain ⟨k, hsig⟩ := hce'
            have hrun := run_congr tbl iw h cs args args' _ k hno hres hkinds' hsig
            exact ⟨v, by rw [hfold', ← hrun, ← hfold]; exact hv, rfl⟩
  theorem foldList_equiv (tbl : Table) (iw : Nat) (ht : tableTyped tbl = true) (hn : tableNormal tbl = true) :
      ∀ (ts ts' : List Tree), wfList tbl ts = true → equivL ts ts' = true →
        ∀ vs, foldList tbl iw ts = some vs → ∃ vs', foldList tbl iw ts' = some vs' ∧ ResL ts vs vs'
    | [], [], _, _, vs, hvs => by
      simp only [foldList, Option.some.injEq] at hvs
      subst hvs
      exact ⟨[], rfl, trivial⟩
    | [], _ :: _, _, he, _, _ => by simp [equivL] at he
    | _ :: _, [], _, he, _, _ => by simp [equivL] at he
    | t :: ts, t' :: ts', hw, he, vs, hvs => by
      simp only [wfList, Bool.and_eq_true] at hw
      simp only [equivL, Bool.and_eq_true] at he
      simp only [foldList] at hvs
      split at hvs
      · cases hvs
      · rename_i v hv
        split at hvs
        · cases hvs
        · rename_i vr hvr
          cases hvs
          obtain ⟨v', hv', hr⟩ := fold_equiv tbl iw ht hn t t' hw.1 he.1 v hv
          obtain ⟨vr', hvr', hrr⟩ := foldList_equiv tbl iw ht hn ts ts' hw.2 he.2 vr hvr
          exact ⟨v' :: vr', by simp only [foldList, hv', hvr'], hr, hrr⟩
end

end Emboss.Fmt
