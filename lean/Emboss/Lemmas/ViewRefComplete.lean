/-
Completeness of the generated-code model `G` w.r.t. the reference `RFact`: every fact of R is
reported by `G` once the fuel statically covers the path (`need`).
-/
import Emboss.Lemmas.ViewRef
namespace Emboss.ViewRef
open Emboss.View

/-- `ρ1` is below `ρ2` on the references of an expression (and on parameters and `this`). -/
structure LeOn (refs : List (List String)) (ρ1 ρ2 : Env) : Prop where
  read : ∀ p ∈ refs, OLe (ρ1.read p) (ρ2.read p)
  has : ∀ p ∈ refs, OLe (ρ1.has p) (ρ2.has p)
  param : ∀ n, OLe (ρ1.param n) (ρ2.param n)
  lv : OLe ρ1.lv ρ2.lv

theorem LeOn.mono {r1 r2 : List (List String)} {ρ1 ρ2 : Env} (h : LeOn r2 ρ1 ρ2)
    (hs : ∀ p ∈ r1, p ∈ r2) : LeOn r1 ρ1 ρ2 :=
  ⟨fun p hp => h.read p (hs p hp), fun p hp => h.has p (hs p hp), h.param, h.lv⟩

mutual
  theorem eval_le_on {ρ1 ρ2 : Env} : ∀ e : Expr, LeOn (exprRefs e) ρ1 ρ2 → OLe (eval ρ1 e) (eval ρ2 e)
    | .const v, _ => by simp only [eval]; exact OLe.refl _
    | .fold v _, _ => by simp only [eval]; exact OLe.refl _
    | .ref p, h => by simp only [eval]; exact h.read p (by simp [exprRefs])
    | .param n, h => by simp only [eval]; exact h.param n
    | .has p, h => by simp only [eval]; exact OLe.map _ (h.has p (by simp [exprRefs]))
    | .lv, h => by simp only [eval]; exact h.lv
    | .op f args, h => by
      simp only [eval]
      exact applyFn_mono f (evalList_le_on args (by simpa only [exprRefs] using h))
  theorem evalList_le_on {ρ1 ρ2 : Env} :
      ∀ es : Exprs, LeOn (exprsRefs es) ρ1 ρ2 → LLe (evalList ρ1 es) (evalList ρ2 es)
    | .nil, _ => by simp only [evalList]; exact LLe.nil
    | .cons e es, h => by
      simp only [evalList]
      exact LLe.cons
        (eval_le_on e (h.mono (by intro p hp; simp only [exprsRefs, List.mem_append]; exact Or.inl hp)))
        (evalList_le_on es (h.mono (by intro p hp; simp only [exprsRefs, List.mem_append]; exact Or.inr hp)))
end

theorem evalArgs_le_on {ρ1 ρ2 : Env} : ∀ (es : Exprs) (vs : List Val), LeOn (exprsRefs es) ρ1 ρ2 →
    evalArgs ρ1 es = some vs → evalArgs ρ2 es = some vs
  | .nil, vs, _, h => by simpa only [evalArgs] using h
  | .cons e es, vs, hle, h => by
    simp only [evalArgs] at h ⊢
    cases h1 : eval ρ1 e with
    | none => rw [h1] at h; simp at h
    | some v =>
      cases h2 : evalArgs ρ1 es with
      | none => rw [h1, h2] at h; simp at h
      | some vs' =>
        rw [h1, h2] at h
        have e1 := eval_le_on e (hle.mono (by
          intro p hp; simp only [exprsRefs, List.mem_append]; exact Or.inl hp)) _ h1
        have e2 := evalArgs_le_on es vs' (hle.mono (by
          intro p hp; simp only [exprsRefs, List.mem_append]; exact Or.inr hp)) h2
        rw [e1, e2]; exact h

theorem reqLocal_of_find {m : Module} (hm : reqLocalModule m = true) {name : String} {sd : StructDef}
    (h : m.find name = some sd) : reqLocal sd = true := by
  unfold reqLocalModule at hm
  simp only [List.all_eq_true] at hm
  exact hm sd (find_mem h)

theorem reqLocal_of_field {sd : StructDef} (hloc : reqLocal sd = true) {x : String} {f : Field}
    (hf : sd.field x = some f) : reqLocalField f = true := by
  unfold reqLocal at hloc
  simp only [List.all_eq_true] at hloc
  exact hloc f (field_mem hf)

theorem need_refs {m : Module} {n : Nat} {sd : StructDef} {x : String} {rest : List String} {f : Field}
    (hf : sd.field x = some f) (h : need m (n + 1) sd (x :: rest) = true) :
    ∀ r ∈ fieldRefs f, need m n sd r = true := by
  simp only [need, hf, Bool.and_eq_true, List.all_eq_true] at h
  exact h.1

theorem need_struct {m : Module} {n : Nat} {sd sd' : StructDef} {x : String} {rest : List String} {f : Field}
    (hf : sd.field x = some f) {start size : Expr} {name : String} {bits : Nat} {args : Exprs} {bo : ByteOrder}
    (hk : f.kind = .phys start size (.struct name bits args) bo) (hfind : m.find name = some sd')
    (h : need m (n + 1) sd (x :: rest) = true) : need m n sd' rest = true := by
  simp only [need, hf, hk, Bool.and_eq_true, List.all_eq_true, ptypeStructs, List.mem_singleton,
    forall_eq, hfind] at h
  exact h.2

theorem need_alias {m : Module} {n : Nat} {sd : StructDef} {x : String} {rest : List String} {f : Field}
    (hf : sd.field x = some f) {t : List String} (hk : f.kind = .alias t)
    (h : need m (n + 1) sd (x :: rest) = true) : need m n sd (t ++ rest) = true := by
  simp only [need, hf, hk, Bool.and_eq_true, List.all_eq_true] at h
  exact h.2

theorem valueIsOk_of_requiresOk {o : Oracle} {w : SView} {ρ : Env} {req : Option Expr} {v : Val}
    (hff : foldFreeOpt req = true) (hloc : (optRefs req).isEmpty = true)
    (hp : ∀ n x, ρ.param n = some x → w.param n = some x) (hl : ρ.lv = none)
    (h : requiresOk ρ req v) : valueIsOk o w req v = true := by
  cases req with
  | none => rfl
  | some r =>
    simp only [foldFreeOpt] at hff
    simp only [optRefs, List.isEmpty_iff] at hloc
    have h1 := h r rfl
    rw [evalR_eq_eval _ _ hff] at h1
    have hle : LeOn (exprRefs r) { ρ with lv := some v } (envOf o w (some v)) := by
      rw [hloc]
      exact ⟨fun p hq => (by cases hq), fun p hq => (by cases hq), fun n x hx => hp n x hx, OLe.refl _⟩
    have h2 := eval_le_on r hle _ h1
    simp only [valueIsOk, evalBool, h2, beq_self_eq_true]

theorem evalInt_of_eval {env : Env} {e : Expr} {i : Int} (h : eval env e = some (.int i)) :
    evalInt env e = some i := by
  simp only [evalInt, h]

/-- the view a structure-typed accessor returns is above the null view of its type -/
theorem subView_ge_null {o : Oracle} {m : Module} {w : SView} {f : Field} {start size : Expr}
    {name : String} {bits : Nat} {args : Exprs} {bo : ByteOrder} {sd' : StructDef}
    (hfind : m.find name = some sd') :
    ∃ w'', subView o m w f start size name bits args bo = some w'' ∧ VLe (nullView sd') w'' := by
  unfold subView
  rw [hfind]
  cases evalArgs (envOf o w none) args with
  | none => exact ⟨_, rfl, VLe.refl _⟩
  | some vs =>
    cases physStorage o w f start size with
    | none => exact ⟨_, rfl, VLe.refl _⟩
    | some st => exact ⟨_, rfl, nullView_le sd' _ rfl⟩

theorem val_path_ne_nil {m : Module} {w : SView} {v : Val} (h : RFact m w (.val [] v)) : False := by
  cases h with
  | sub ρ hf hk hfind hpres hr hh hp hl hs hz hs0 hz0 hargs hsub hout =>
    rename_i inner
    cases inner <;> simp [Fact.under] at hout
  | nullsub hf hk hfind hsub hout =>
    rename_i inner
    cases inner <;> simp [Fact.under] at hout

theorem pres_path_ne_nil {m : Module} {w : SView} {b : Bool} (h : RFact m w (.pres [] b)) : False := by
  cases h with
  | sub ρ hf hk hfind hpres hr hh hp hl hs hz hs0 hz0 hargs hsub hout =>
    rename_i inner
    cases inner <;> simp [Fact.under] at hout
  | nullsub hf hk hfind hsub hout =>
    rename_i inner
    cases inner <;> simp [Fact.under] at hout

/-- what completeness says about one fact -/
def Reported (m : Module) (n : Nat) (w : SView) : Fact → Prop
  | .val p v => need m n w.sd p = true → (G m n).read w p = some v
  | .pres p b => need m n w.sd p = true → (G m n).has w p = some b
  | _ => True

/-- **Completeness of `G` w.r.t. the reference**: every value / presence fact of R about a view
of the fragment is reported by `G` at every fuel that statically covers the path (`need`, the
bound `fuelOK` is built from). -/
theorem G_complete (m : Module) {P : StructDef → Prop} (hm : Closed m P) (hwfm : moduleWF m = true) :
    ∀ n (w : SView) (fact : Fact), RFact m w fact → P w.sd → viewWF w = true → Reported m n w fact
  | 0, w, fact, _, _, _ => by cases fact <;> simp [Reported, need]
  | n + 1, w, fact, hfact, hP, hwf => by
    have ih := G_complete m hm hwfm n
    have href := hm.ref _ hP
    have hloc := hm.loc _ hP
    -- an assignment made of facts is below the model's environment at fuel `n` on covered refs
    have hle : ∀ (ρ : Env) (refs : List (List String)),
        (∀ p v, ρ.read p = some v → RFact m w (.val p v)) →
        (∀ p c, ρ.has p = some c → RFact m w (.pres p c)) →
        (∀ k v, ρ.param k = some v → w.param k = some v) → ρ.lv = none →
        (∀ r ∈ refs, need m n w.sd r = true) →
        LeOn refs ρ (envOf (G m n) w none) := by
      intro ρ refs hr hh hp hl hn
      refine ⟨?_, ?_, ?_, ?_⟩
      · intro p hp' v hv
        exact ih w _ (hr p v hv) hP hwf (hn p hp')
      · intro p hp' c hc
        exact ih w _ (hh p c hc) hP hwf (hn p hp')
      · intro k v hv
        exact hp k v hv
      · rw [hl]; exact OLe.none _
    -- presence
    have hpresence : ∀ x f b, w.sd.field x = some f → RFact m w (.pres [x] b) →
        (∀ r ∈ exprRefs f.cond, need m n w.sd r = true) →
        hasField (G m n) w f = some b := by
      intro x f b hf hfact hn
      cases hfact with
      | pres ρ hf' hr hh hp hl he =>
        rw [hf] at hf'; cases hf'
        have hff := ref_of_field href hf
        unfold refField at hff
        simp only [Bool.and_eq_true] at hff
        rw [evalR_eq_eval _ _ hff.1] at he
        have := eval_le_on f.cond (hle ρ _ hr hh hp hl hn) _ he
        simp only [hasField, evalBool, this]
      | sub ρ hf' hk hfind hpres hr hh hp hl hs hz hs0 hz0 hargs hsub hout =>
        rename_i inner
        cases inner with
        | pres p c =>
          simp only [Fact.under, Option.some.injEq, Fact.pres.injEq, List.cons.injEq] at hout
          obtain ⟨⟨_, hp'⟩, _⟩ := hout
          subst hp'
          exact (pres_path_ne_nil hsub).elim
        | _ => simp [Fact.under] at hout
      | nullsub hf' hk hfind hsub hout =>
        rename_i inner
        cases inner with
        | pres p c =>
          simp only [Fact.under, Option.some.injEq, Fact.pres.injEq, List.cons.injEq] at hout
          obtain ⟨⟨_, hp'⟩, _⟩ := hout
          subst hp'
          exact (pres_path_ne_nil hsub).elim
        | _ => simp [Fact.under] at hout
    have condRefs : ∀ {x f rest}, w.sd.field x = some f → need m (n + 1) w.sd (x :: rest) = true →
        ∀ r ∈ exprRefs f.cond, need m n w.sd r = true := by
      intro x f rest hf hneed r hr'
      exact need_refs hf hneed r (by simp only [fieldRefs, List.mem_append]; exact Or.inl hr')
    cases hfact with
    | count => trivial
    | elem => trivial
    | pres ρ hf hr hh hp hl he =>
      rename_i x f b
      intro hneed
      have := hpresence x f b hf (RFact.pres ρ hf hr hh hp hl he) (condRefs hf hneed)
      simp only [G]
      rw [step_has_nil m _ w hf]
      exact this
    | virt ρ hf hk hr hh hp hl hv hreq =>
      rename_i x f value req v
      intro hneed
      have hrefs := need_refs hf hneed
      have hff := ref_of_field href hf
      unfold refField at hff
      rw [hk] at hff
      simp only [Bool.and_eq_true] at hff
      have hlf := reqLocal_of_field hloc hf
      unfold reqLocalField at hlf
      rw [hk] at hlf
      rw [evalR_eq_eval _ _ hff.2.1] at hv
      have hv' := eval_le_on value (hle ρ _ hr hh hp hl
        (fun r hr' => hrefs r (by simp only [fieldRefs, hk, List.mem_append]; exact Or.inr hr'))) _ hv
      have hok : valueIsOk (G m n) w req v = true :=
        valueIsOk_of_requiresOk hff.2.2 hlf (fun k y hy => hp k y hy) hl hreq
      simp only [G]
      rw [step_read_virt m _ w hf hk]
      simp only [virtRead, hv', hok, ↓reduceIte]
    | scalar ρ hf hk hpres hr hh hp hl hs hz hs0 hz0 hraw hv hreq =>
      rename_i x f start size k bits req bo s z raw v
      intro hneed
      have hrefs := need_refs hf hneed
      have hff := ref_of_field href hf
      unfold refField at hff
      rw [hk] at hff
      simp only [Bool.and_eq_true] at hff
      obtain ⟨hcond, ⟨⟨hkk, hfstart⟩, hfreq⟩, hsz⟩ := hff
      have hlf := reqLocal_of_field hloc hf
      unfold reqLocalField at hlf
      rw [hk] at hlf
      obtain ⟨z', hzl, hz0', hbits, h8, h1⟩ := sizeIsBits_inv hsz
      subst hzl
      have hzz : z' = z := by
        simp only [evalR, Option.some.injEq, Val.int.injEq] at hz; exact hz
      subst hzz
      rw [evalR_eq_eval _ _ hfstart] at hs
      have hs' := eval_le_on start (hle ρ _ hr hh hp hl
        (fun r hr' => hrefs r (by
          simp only [fieldRefs, hk, List.mem_append]; exact Or.inr (Or.inl (Or.inl hr'))))) _ hs
      have hhas := hpresence x f true hf hpres (condRefs hf hneed)
      have hok : valueIsOk (G m n) w req v = true :=
        valueIsOk_of_requiresOk hfreq hlf (fun k y hy => hp k y hy) hl hreq
      have hst : physStorage (G m n) w f start (.const (.int z')) =
          some (w.st.sub s.toNat z'.toNat) :=
        physStorage_of hhas (by simp [evalInt, eval]) (evalInt_of_eval hs') hz0 hs0
      rw [specDecode_eq k bits _ hkk hbits] at hv
      simp only [G]
      rw [step_read_scalar m _ w hf hk, hst]
      simp only
      rw [leaf_bridge hwf hbits z'.toNat h8 h1 bo s.toNat, hraw]
      exact leafRead_of (leafSizeOk_self k bits hbits) hv hok
    | aliasVal hf hk hpres ht =>
      rename_i x f t rest v
      intro hneed
      have hhas := hpresence x f true hf hpres (condRefs hf hneed)
      have := ih w _ ht hP hwf (need_alias hf hk hneed)
      simp only [G]
      rw [step_read_alias m _ w hf hk, if_pos hhas]
      exact this
    | aliasPres hf hk hpres ht =>
      rename_i x f t y ys c
      intro hneed
      have hhas := hpresence x f true hf hpres (condRefs hf hneed)
      have := ih w _ ht hP hwf (need_alias hf hk hneed)
      simp only [G]
      rw [step_has_alias m _ w hf hk, if_pos hhas]
      exact this
    | nullsub hf hk hfind hsub hout =>
      rename_i x f start size name bits args bo sd' inner
      obtain ⟨w'', hsv, hle''⟩ := subView_ge_null (o := G m n) (w := w) (f := f) (start := start)
        (size := size) (bits := bits) (args := args) (bo := bo) hfind
      have hwf' := find_wf hwfm hfind
      have hmono := G_mono hwfm n (nullView sd') w'' hle'' hwf'
      cases inner with
      | count => simp [Fact.under] at hout
      | elem => simp [Fact.under] at hout
      | val p v =>
        simp only [Fact.under, Option.some.injEq] at hout
        subst hout
        intro hneed
        cases p with
        | nil => exact (val_path_ne_nil hsub).elim
        | cons y ys =>
          have := ih (nullView sd') _ hsub (hm.step _ hP x f hf _ _ _ _ _ _ _ hk hfind)
            (viewWF_null sd') (need_struct hf hk hfind hneed)
          simp only [G]
          rw [step_read_struct m _ w hf hk, hsv]
          exact hmono.1 _ _ this
      | pres p c =>
        simp only [Fact.under, Option.some.injEq] at hout
        subst hout
        intro hneed
        cases p with
        | nil => exact (pres_path_ne_nil hsub).elim
        | cons y ys =>
          have := ih (nullView sd') _ hsub (hm.step _ hP x f hf _ _ _ _ _ _ _ hk hfind)
            (viewWF_null sd') (need_struct hf hk hfind hneed)
          simp only [G]
          rw [step_has_struct m _ w hf hk, hsv]
          exact hmono.2 _ _ this
    | sub ρ hf hk hfind hpres hr hh hp hl hs hz hs0 hz0 hargs hsub hout =>
      rename_i x f start size name bits args bo sd' s z vs inner
      have hff := ref_of_field href hf
      unfold refField at hff
      rw [hk] at hff
      simp only [Bool.and_eq_true] at hff
      obtain ⟨hcond, ⟨⟨hfstart, hfsize⟩, hfargs⟩, hchild⟩ := hff
      rw [hfind] at hchild
      simp only at hchild
      -- what the accessor computes once the field's references are covered
      have hview : ∀ rest, need m (n + 1) w.sd (x :: rest) = true →
          subView (G m n) m w f start size name bits args bo =
            some { sd := sd', params := some vs,
                   st := window w.st (sd'.unit != 8) bo s.toNat z.toNat bits } ∧
          viewWF { sd := sd', params := some vs,
                   st := window w.st (sd'.unit != 8) bo s.toNat z.toNat bits } = true := by
        intro rest hneed
        have hrefs := need_refs hf hneed
        rw [evalR_eq_eval _ _ hfstart] at hs
        rw [evalR_eq_eval _ _ hfsize] at hz
        rw [evalArgsR_eq _ _ hfargs] at hargs
        have hs' := eval_le_on start (hle ρ _ hr hh hp hl
          (fun r hr' => hrefs r (by
            simp only [fieldRefs, hk, List.mem_append]; exact Or.inr (Or.inl (Or.inl hr'))))) _ hs
        have hz' := eval_le_on size (hle ρ _ hr hh hp hl
          (fun r hr' => hrefs r (by
            simp only [fieldRefs, hk, List.mem_append]; exact Or.inr (Or.inl (Or.inr hr'))))) _ hz
        have hargs' := evalArgs_le_on args vs (hle ρ _ hr hh hp hl
          (fun r hr' => hrefs r (by
            simp only [fieldRefs, hk, ptypeRefs, List.mem_append]; exact Or.inr (Or.inr hr')))) hargs
        have hhas := hpresence x f true hf hpres (condRefs hf hneed)
        have hst := physStorage_of hhas (evalInt_of_eval hz') (evalInt_of_eval hs') hz0 hs0
        have hlit : ∀ zl, size = .const (.int zl) → zl.toNat = z.toNat := by
          intro zl hzl; subst hzl
          simp only [eval, Option.some.injEq, Val.int.injEq] at hz
          rw [hz]
        obtain ⟨hwin, hwf'⟩ := window_bridge hwf hchild bo s.toNat z.toNat hlit (some vs)
        refine ⟨?_, hwf'⟩
        simp only [subView, hfind, hargs', hst, hwin]
      cases inner with
      | count => simp [Fact.under] at hout
      | elem => simp [Fact.under] at hout
      | val p v =>
        simp only [Fact.under, Option.some.injEq] at hout
        subst hout
        intro hneed
        cases p with
        | nil => exact (val_path_ne_nil hsub).elim
        | cons y ys =>
          obtain ⟨hsv, hwf'⟩ := hview _ hneed
          have := ih _ _ hsub (hm.step _ hP x f hf _ _ _ _ _ _ _ hk hfind) hwf'
            (need_struct hf hk hfind hneed)
          simp only [G]
          rw [step_read_struct m _ w hf hk, hsv]
          exact this
      | pres p c =>
        simp only [Fact.under, Option.some.injEq] at hout
        subst hout
        intro hneed
        cases p with
        | nil => exact (pres_path_ne_nil hsub).elim
        | cons y ys =>
          obtain ⟨hsv, hwf'⟩ := hview _ hneed
          have := ih _ _ hsub (hm.step _ hP x f hf _ _ _ _ _ _ _ hk hfind) hwf'
            (need_struct hf hk hfind hneed)
          simp only [G]
          rw [step_has_struct m _ w hf hk, hsv]
          exact this

end Emboss.ViewRef
