/-
C11 helper lemmas, part 17: the structural handlers respect `VRel`; `run_rel`: every
handler, at every signature, maps related arguments to related results.
-/
import Emboss.Lemmas.FmtRelC3
import Emboss.Spec.FmtEquivC
namespace Emboss.Fmt

theorem vrel_inline {h : List Row} {f : List Block} {a' : Fmt} (hr : VRel (.inlineBody h f) a') :
    ∃ h' f', a' = .inlineBody h' f' ∧ RowsRel h h' ∧ BlocksRel f f' := by
  cases a' <;> simp only [VRel] at hr
  exact ⟨_, _, rfl, hr.1, hr.2⟩

/-! ### structural handlers -/

theorem hTypeDefinitions_rel {a a' b b' : Fmt} {la la' : List Row} {lb lb' : List (List Row)}
    (ha : asRows a = some la) (ha' : asRows a' = some la') (hr : RowsRel la la')
    (hb : asSections b = some lb) (hb' : asSections b' = some lb') (hs : All₂ RowsRel lb lb') :
    ∃ v v', hTypeDefinitions [a, b] = some v ∧ hTypeDefinitions [a', b'] = some v' ∧ VRel v v' := by
  refine ⟨_, _, by simp [hTypeDefinitions, ha, hb]; rfl, by simp [hTypeDefinitions, ha', hb']; rfl, ?_⟩
  exact All₂.cons hr hs

theorem hFieldBody_rel {i i' d d' b b' c c' : Fmt} {lb lb' lc lc' : List Row}
    (hb : asRows b = some lb) (hb' : asRows b' = some lb') (hrb : RowsRel lb lb')
    (hc : asRows c = some lc) (hc' : asRows c' = some lc') (hrc : RowsRel lc lc') :
    ∃ v v', hFieldBody [i, b, c, d] = some v ∧ hFieldBody [i', b', c', d'] = some v' ∧ VRel v v' := by
  refine ⟨_, _, by simp [hFieldBody, hb, hc]; rfl, by simp [hFieldBody, hb', hc']; rfl, ?_⟩
  exact RowsRel.indentRows (hrb.append hrc)

theorem hExternalBody_rel {i i' d d' b b' c c' : Fmt} {lb lb' lc lc' : List Row}
    (hb : asRows b = some lb) (hb' : asRows b' = some lb') (hrb : RowsRel lb lb')
    (hc : asRows c = some lc) (hc' : asRows c' = some lc') (hrc : RowsRel lc lc') :
    ∃ v v', hExternalBody [i, b, c, d] = some v ∧ hExternalBody [i', b', c', d'] = some v' ∧ VRel v v' := by
  refine ⟨_, _, by simp [hExternalBody, hb, hc]; rfl, by simp [hExternalBody, hb', hc']; rfl, ?_⟩
  exact RowsRel.indentRows (RowsRel.intersperse _ (All₂.cons hrb (All₂.cons hrc All₂.nil)))

theorem hInlineBitsBody_rel {i i' d d' b b' c c' : Fmt} {lb lb' : List Row} {lc lc' : List Block}
    (hb : asRows b = some lb) (hb' : asRows b' = some lb') (hrb : RowsRel lb lb')
    (hc : asBlocks c = some lc) (hc' : asBlocks c' = some lc') (hrc : BlocksRel lc lc') :
    ∃ v v', hInlineBitsBody [i, b, c, d] = some v ∧ hInlineBitsBody [i', b', c', d'] = some v' ∧ VRel v v' := by
  refine ⟨_, _, by simp [hInlineBitsBody, hb, hc]; rfl, by simp [hInlineBitsBody, hb', hc']; rfl, ?_⟩
  exact ⟨RowsRel.indentRows hrb, hrc.indentBlocks⟩

theorem hEol_rel {i i' b b' : Fmt} {lb lb' : List Row}
    (hb : asRows b = some lb) (hb' : asRows b' = some lb') (hrb : RowsRel lb lb') :
    ∃ v v', hEol [i, b] = some v ∧ hEol [i', b'] = some v' ∧ VRel v v' := by
  refine ⟨_, _, by simp [hEol, hb]; rfl, by simp [hEol, hb']; rfl, ?_⟩
  exact RowsRel.stripEmpty hrb

theorem hStructureBody_rel (iw : Nat) {i i' d d' a a' b b' c c' f f' : Fmt} {la la' lb lb' : List Row}
    {lc lc' : List (List Row)} {lf lf' : List Block}
    (ha : asRows a = some la) (ha' : asRows a' = some la') (hra : RowsRel la la')
    (hb : asRows b = some lb) (hb' : asRows b' = some lb') (hrb : RowsRel lb lb')
    (hc : asSections c = some lc) (hc' : asSections c' = some lc') (hrc : All₂ RowsRel lc lc')
    (hf : asBlocks f = some lf) (hf' : asBlocks f' = some lf') (hrf : BlocksRel lf lf') {v : Fmt}
    (hv : hStructureBody iw [i, a, b, c, f, d] = some v) :
    ∃ v', hStructureBody iw [i', a', b', c', f', d'] = some v' ∧ VRel v v' := by
  simp only [hStructureBody, ha, hb, hc, hf, Option.pure_def, Option.bind_eq_bind, Option.bind_some] at hv
  cases hcol : columnize lf iw 2 with
  | none => simp [hcol] at hv
  | some secs =>
    obtain ⟨secs', hcol', hsr⟩ := columnize_rel hrf iw 2 secs hcol
    simp only [hcol, Option.bind_some, Option.some.injEq] at hv
    subst hv
    refine ⟨_, by simp only [hStructureBody, ha', hb', hc', hf', Option.pure_def, Option.bind_eq_bind,
      Option.bind_some, hcol', ← hrf.shouldAddBlankLines]; rfl, ?_⟩
    exact RowsRel.indentRows (RowsRel.intersperse _ (((All₂.cons hra (All₂.cons hrb All₂.nil)).append hrc).append hsr))

theorem hEnumBody_rel (iw : Nat) {i i' d d' a a' b b' f f' : Fmt} {la la' lb lb' : List Row}
    {lf lf' : List Block}
    (ha : asRows a = some la) (ha' : asRows a' = some la') (hra : RowsRel la la')
    (hb : asRows b = some lb) (hb' : asRows b' = some lb') (hrb : RowsRel lb lb')
    (hf : asBlocks f = some lf) (hf' : asBlocks f' = some lf') (hrf : BlocksRel lf lf') {v : Fmt}
    (hv : hEnumBody iw [i, a, b, f, d] = some v) :
    ∃ v', hEnumBody iw [i', a', b', f', d'] = some v' ∧ VRel v v' := by
  simp only [hEnumBody, ha, hb, hf, Option.pure_def, Option.bind_eq_bind, Option.bind_some] at hv
  cases hcol : columnize lf iw 1 with
  | none => simp [hcol] at hv
  | some secs =>
    obtain ⟨secs', hcol', hsr⟩ := columnize_rel hrf iw 1 secs hcol
    simp only [hcol, Option.bind_some, Option.some.injEq] at hv
    subst hv
    refine ⟨_, by simp only [hEnumBody, ha', hb', hf', Option.pure_def, Option.bind_eq_bind,
      Option.bind_some, hcol', ← hrf.shouldAddBlankLines]; rfl, ?_⟩
    exact RowsRel.indentRows (RowsRel.intersperse _ ((All₂.cons hra (All₂.cons hrb All₂.nil)).append hsr))

theorem hModule_rel (iw : Nat) {a a' b b' c c' d d' t t' : Fmt} {la la' lb lb' lc lc' ld ld' : List Row}
    {lt lt' : List (List Row)}
    (ha : asRows a = some la) (ha' : asRows a' = some la') (hra : RowsRel la la')
    (hb : asRows b = some lb) (hb' : asRows b' = some lb') (hrb : RowsRel lb lb')
    (hc : asRows c = some lc) (hc' : asRows c' = some lc') (hrc : RowsRel lc lc')
    (hd : asRows d = some ld) (hd' : asRows d' = some ld') (hrd : RowsRel ld ld')
    (ht : asSections t = some lt) (ht' : asSections t' = some lt') (hrt : All₂ RowsRel lt lt') {v : Fmt}
    (hv : hModule iw [a, b, c, d, t] = some v) :
    ∃ v', hModule iw [a', b', c', d', t'] = some v' ∧ VRel v v' := by
  have hrows : RowsRel
      (addBlankRowsOnDedent (indentBlanksAndComments (intersperse
        [{ name := .topTypeSeparator }, { name := .topTypeSeparator }]
        (intersperse [{ name := .sectionBreak }] [stripEmptyRows la, lb, lc, ld] :: lt))))
      (addBlankRowsOnDedent (indentBlanksAndComments (intersperse
        [{ name := .topTypeSeparator }, { name := .topTypeSeparator }]
        (intersperse [{ name := .sectionBreak }] [stripEmptyRows la', lb', lc', ld'] :: lt')))) := by
    apply RowsRel.addBlankRowsAux
    apply RowsRel.indentBlanksAndComments
    apply RowsRel.intersperse
    refine All₂.cons (RowsRel.intersperse _ ?_) hrt
    exact All₂.cons hra.stripEmpty (All₂.cons hrb (All₂.cons hrc (All₂.cons hrd All₂.nil)))
  have hren := RowsRel.renderRows iw hrows
  simp only [hModule, ha, hb, hc, hd, ht, Option.pure_def, Option.bind_eq_bind, Option.bind_some] at hv
  refine ⟨v, ?_, ?_⟩
  · simp only [hModule, ha', hb', hc', hd', ht', Option.pure_def, Option.bind_eq_bind, Option.bind_some,
      ← hren]
    exact hv
  · cases hr : renderRows iw (addBlankRowsOnDedent (indentBlanksAndComments (intersperse
        [{ name := .topTypeSeparator }, { name := .topTypeSeparator }]
        (intersperse [{ name := .sectionBreak }] [stripEmptyRows la, lb, lc, ld] :: lt)))) with
    | none => simp [hr] at hv
    | some txt =>
      simp only [hr, Option.bind_some, Option.some.injEq] at hv
      subst hv
      exact rfl

theorem pyAdd_rel {a a' b b' : Fmt} (ha : VRel a a') (hb : VRel b b') {v : Fmt} (hv : pyAdd a b = some v) :
    ∃ v', pyAdd a' b' = some v' ∧ VRel v v' := by
  cases a <;> cases a' <;> simp only [VRel] at ha <;>
    cases b <;> cases b' <;> simp only [VRel] at hb <;>
    simp only [pyAdd, Option.some.injEq] at hv <;>
    first
    | (subst hv
       refine ⟨_, rfl, ?_⟩
       first
       | exact ha.append hb
       | exact ha
       | exact hb
       | trivial
       | (cases ha; cases hb; exact rfl)
       | (cases ha; exact rfl)
       | (cases hb; exact rfl))
    | cases hv

/-! ### all handlers -/

def ArgRel (h : Handler) (i : Nat) (v v' : Fmt) : Prop :=
  if i ∈ h.dropped then True else if i ∈ h.commentPos then CArg v v' else VRel v v'

def ArgsRel (h : Handler) : Nat → List Fmt → List Fmt → Prop
  | _, [], [] => True
  | i, a :: as, b :: bs => ArgRel h i a b ∧ ArgsRel h (i + 1) as bs
  | _, _, _ => False

theorem argsRel_cons {h : Handler} {i : Nat} {a : Fmt} {as l : List Fmt} (hr : ArgsRel h i (a :: as) l) :
    ∃ b bs, l = b :: bs ∧ ArgRel h i a b ∧ ArgsRel h (i + 1) as bs := by
  cases l with
  | nil => simp [ArgsRel] at hr
  | cons b bs => exact ⟨b, bs, rfl, hr.1, hr.2⟩

theorem argsRel_nil {h : Handler} {i : Nat} {l : List Fmt} (hr : ArgsRel h i [] l) : l = [] := by
  cases l with
  | nil => rfl
  | cons b bs => simp [ArgsRel] at hr

/-- Handlers that only take strings and ignore nothing: related arguments are equal. -/
theorem argsRel_eq_of_str (h : Handler) (hd : h.dropped = []) (hc : h.commentPos = []) :
    ∀ (args args' : List Fmt) (ks : List Kind) (i : Nat), ArgsRel h i args args' → HasKinds args ks →
      ks.all (· == .str) = true → args' = args := by
  intro args
  induction args with
  | nil => intro args' ks i hr _ _; exact argsRel_nil hr
  | cons a as ih =>
    intro args' ks i hr hk hall
    obtain ⟨b, bs, rfl, h0, h1⟩ := argsRel_cons hr
    cases ks with
    | nil => simp [HasKinds] at hk
    | cons k ks =>
      simp only [List.all_cons, Bool.and_eq_true, beq_iff_eq] at hall
      obtain ⟨rfl, hall⟩ := hall
      simp only [ArgRel, hd, hc, List.not_mem_nil, if_false] at h0
      obtain ⟨s, rfl, rfl⟩ := vrel_str hk.1 h0
      rw [ih bs ks (i + 1) h1 hk.2 hall]

theorem run_rel (iw : Nat) (h : Handler) (args args' : List Fmt) (ks : List Kind) (k : Kind)
    (hne : h ≠ .identity) (ha : ArgsRel h 0 args args') (hk : HasKinds args ks) (hs : h.sig ks = some k)
    {v : Fmt} (hv : h.run iw args = some v) :
    ∃ v', h.run iw args' = some v' ∧ VRel v v' := by
  cases h
  case identity => exact absurd rfl hne
  case module =>
    simp only [Handler.sig] at hs
    obtain ⟨rfl, rfl⟩ := ite_some_eq hs
    obtain ⟨a, _, rfl, k0, hk⟩ := hasKinds_cons hk
    obtain ⟨b, _, rfl, k1, hk⟩ := hasKinds_cons hk
    obtain ⟨c, _, rfl, k2, hk⟩ := hasKinds_cons hk
    obtain ⟨d, _, rfl, k3, hk⟩ := hasKinds_cons hk
    obtain ⟨e, _, rfl, k4, hk⟩ := hasKinds_cons hk
    cases hasKinds_nil hk
    obtain ⟨a', _, rfl, r0, ha⟩ := argsRel_cons ha
    obtain ⟨b', _, rfl, r1, ha⟩ := argsRel_cons ha
    obtain ⟨c', _, rfl, r2, ha⟩ := argsRel_cons ha
    obtain ⟨d', _, rfl, r3, ha⟩ := argsRel_cons ha
    obtain ⟨e', _, rfl, r4, ha⟩ := argsRel_cons ha
    cases argsRel_nil ha
    simp only [Handler.run] at hv ⊢
    simp [ArgRel, Handler.dropped, Handler.commentPos] at r0 r1 r2 r3 r4
    obtain ⟨l0, e0, _⟩ := k0
    obtain ⟨l0', e0', hr0⟩ := vrel_rows e0 r0
    obtain ⟨l1, e1, _⟩ := k1
    obtain ⟨l1', e1', hr1⟩ := vrel_rows e1 r1
    obtain ⟨l2, e2, _⟩ := k2
    obtain ⟨l2', e2', hr2⟩ := vrel_rows e2 r2
    obtain ⟨l3, e3, _⟩ := k3
    obtain ⟨l3', e3', hr3⟩ := vrel_rows e3 r3
    obtain ⟨l4, e4, _⟩ := k4
    obtain ⟨l4', e4', hr4⟩ := vrel_sections e4 r4
    exact hModule_rel iw e0 e0' hr0 e1 e1' hr1 e2 e2' hr2 e3 e3' hr3 e4 e4' hr4 hv
  case docLine =>
    simp only [Handler.sig] at hs
    obtain ⟨rfl, rfl⟩ := ite_some_eq hs
    obtain ⟨a, _, rfl, k0, hk⟩ := hasKinds_cons hk
    obtain ⟨b, _, rfl, k1, hk⟩ := hasKinds_cons hk
    obtain ⟨c, _, rfl, k2, hk⟩ := hasKinds_cons hk
    cases hasKinds_nil hk
    obtain ⟨a', _, rfl, r0, ha⟩ := argsRel_cons ha
    obtain ⟨b', _, rfl, r1, ha⟩ := argsRel_cons ha
    obtain ⟨c', _, rfl, r2, ha⟩ := argsRel_cons ha
    cases argsRel_nil ha
    simp only [Handler.run] at hv ⊢
    simp [ArgRel, Handler.dropped, Handler.commentPos] at r0 r1 r2
    obtain ⟨s0, rfl, rfl⟩ := vrel_str k0 r0
    obtain ⟨c1, c1', rfl, rfl, hc1⟩ := r1
    obtain ⟨l2, e2, _⟩ := k2
    obtain ⟨l2', e2', hr2⟩ := vrel_rows e2 r2
    exact hDocLine_rel hc1 e2 e2' hr2 hv
  case importLine =>
    simp only [Handler.sig] at hs
    obtain ⟨rfl, rfl⟩ := ite_some_eq hs
    obtain ⟨a, _, rfl, k0, hk⟩ := hasKinds_cons hk
    obtain ⟨b, _, rfl, k1, hk⟩ := hasKinds_cons hk
    obtain ⟨c, _, rfl, k2, hk⟩ := hasKinds_cons hk
    obtain ⟨d, _, rfl, k3, hk⟩ := hasKinds_cons hk
    obtain ⟨e, _, rfl, k4, hk⟩ := hasKinds_cons hk
    obtain ⟨f, _, rfl, k5, hk⟩ := hasKinds_cons hk
    cases hasKinds_nil hk
    obtain ⟨a', _, rfl, r0, ha⟩ := argsRel_cons ha
    obtain ⟨b', _, rfl, r1, ha⟩ := argsRel_cons ha
    obtain ⟨c', _, rfl, r2, ha⟩ := argsRel_cons ha
    obtain ⟨d', _, rfl, r3, ha⟩ := argsRel_cons ha
    obtain ⟨e', _, rfl, r4, ha⟩ := argsRel_cons ha
    obtain ⟨f', _, rfl, r5, ha⟩ := argsRel_cons ha
    cases argsRel_nil ha
    simp only [Handler.run] at hv ⊢
    simp [ArgRel, Handler.dropped, Handler.commentPos] at r0 r1 r2 r3 r4 r5
    obtain ⟨s0, rfl, rfl⟩ := vrel_str k0 r0
    obtain ⟨s1, rfl, rfl⟩ := vrel_str k1 r1
    obtain ⟨s2, rfl, rfl⟩ := vrel_str k2 r2
    obtain ⟨s3, rfl, rfl⟩ := vrel_str k3 r3
    obtain ⟨c4, c4', rfl, rfl, hc4⟩ := r4
    obtain ⟨l5, e5, _⟩ := k5
    obtain ⟨l5', e5', hr5⟩ := vrel_rows e5 r5
    obtain ⟨w, w', e1, e2, hw⟩ := hImportLine_rel hc4 e5 e5' hr5
    have : w = v := Option.some.inj (e1.symm.trans hv)
    subst this
    exact ⟨w', e2, hw⟩
  case attributeLine =>
    simp only [Handler.sig] at hs
    obtain ⟨rfl, rfl⟩ := ite_some_eq hs
    obtain ⟨a, _, rfl, k0, hk⟩ := hasKinds_cons hk
    obtain ⟨b, _, rfl, k1, hk⟩ := hasKinds_cons hk
    obtain ⟨c, _, rfl, k2, hk⟩ := hasKinds_cons hk
    cases hasKinds_nil hk
    obtain ⟨a', _, rfl, r0, ha⟩ := argsRel_cons ha
    obtain ⟨b', _, rfl, r1, ha⟩ := argsRel_cons ha
    obtain ⟨c', _, rfl, r2, ha⟩ := argsRel_cons ha
    cases argsRel_nil ha
    simp only [Handler.run] at hv ⊢
    simp [ArgRel, Handler.dropped, Handler.commentPos] at r0 r1 r2
    obtain ⟨s0, rfl, rfl⟩ := vrel_str k0 r0
    obtain ⟨c1, c1', rfl, rfl, hc1⟩ := r1
    obtain ⟨l2, e2, _⟩ := k2
    obtain ⟨l2', e2', hr2⟩ := vrel_rows e2 r2
    obtain ⟨w, w', e1, e2, hw⟩ := hAttributeLine_rel hc1 e2 e2' hr2
    have : w = v := Option.some.inj (e1.symm.trans hv)
    subst this
    exact ⟨w', e2, hw⟩
  case typeDefinitions =>
    simp only [Handler.sig] at hs
    obtain ⟨rfl, rfl⟩ := ite_some_eq hs
    obtain ⟨a, _, rfl, k0, hk⟩ := hasKinds_cons hk
    obtain ⟨b, _, rfl, k1, hk⟩ := hasKinds_cons hk
    cases hasKinds_nil hk
    obtain ⟨a', _, rfl, r0, ha⟩ := argsRel_cons ha
    obtain ⟨b', _, rfl, r1, ha⟩ := argsRel_cons ha
    cases argsRel_nil ha
    simp only [Handler.run] at hv ⊢
    simp [ArgRel, Handler.dropped, Handler.commentPos] at r0 r1
    obtain ⟨l0, e0, _⟩ := k0
    obtain ⟨l0', e0', hr0⟩ := vrel_rows e0 r0
    obtain ⟨l1, e1, _⟩ := k1
    obtain ⟨l1', e1', hr1⟩ := vrel_sections e1 r1
    obtain ⟨w, w', e1, e2, hw⟩ := hTypeDefinitions_rel e0 e0' hr0 e1 e1' hr1
    have : w = v := Option.some.inj (e1.symm.trans hv)
    subst this
    exact ⟨w', e2, hw⟩
  case structureType =>
    simp only [Handler.sig] at hs
    obtain ⟨rfl, rfl⟩ := ite_some_eq hs
    obtain ⟨a, _, rfl, k0, hk⟩ := hasKinds_cons hk
    obtain ⟨b, _, rfl, k1, hk⟩ := hasKinds_cons hk
    obtain ⟨c, _, rfl, k2, hk⟩ := hasKinds_cons hk
    obtain ⟨d, _, rfl, k3, hk⟩ := hasKinds_cons hk
    obtain ⟨e, _, rfl, k4, hk⟩ := hasKinds_cons hk
    obtain ⟨f, _, rfl, k5, hk⟩ := hasKinds_cons hk
    obtain ⟨g, _, rfl, k6, hk⟩ := hasKinds_cons hk
    cases hasKinds_nil hk
    obtain ⟨a', _, rfl, r0, ha⟩ := argsRel_cons ha
    obtain ⟨b', _, rfl, r1, ha⟩ := argsRel_cons ha
    obtain ⟨c', _, rfl, r2, ha⟩ := argsRel_cons ha
    obtain ⟨d', _, rfl, r3, ha⟩ := argsRel_cons ha
    obtain ⟨e', _, rfl, r4, ha⟩ := argsRel_cons ha
    obtain ⟨f', _, rfl, r5, ha⟩ := argsRel_cons ha
    obtain ⟨g', _, rfl, r6, ha⟩ := argsRel_cons ha
    cases argsRel_nil ha
    simp only [Handler.run] at hv ⊢
    simp [ArgRel, Handler.dropped, Handler.commentPos] at r0 r1 r2 r3 r4 r5 r6
    obtain ⟨s0, rfl, rfl⟩ := vrel_str k0 r0
    obtain ⟨s1, rfl, rfl⟩ := vrel_str k1 r1
    obtain ⟨s2, rfl, rfl⟩ := vrel_str k2 r2
    obtain ⟨s3, rfl, rfl⟩ := vrel_str k3 r3
    obtain ⟨c4, c4', rfl, rfl, hc4⟩ := r4
    obtain ⟨l5, e5, _⟩ := k5
    obtain ⟨l5', e5', hr5⟩ := vrel_rows e5 r5
    obtain ⟨l6, e6, _⟩ := k6
    obtain ⟨l6', e6', hr6⟩ := vrel_rows e6 r6
    obtain ⟨w, w', e1, e2, hw⟩ := hStructureType_rel hc4 e5 e5' hr5 e6 e6' hr6
    have : w = v := Option.some.inj (e1.symm.trans hv)
    subst this
    exact ⟨w', e2, hw⟩
  case type_ =>
    simp only [Handler.sig] at hs
    obtain ⟨rfl, rfl⟩ := ite_some_eq hs
    obtain ⟨a, _, rfl, k0, hk⟩ := hasKinds_cons hk
    obtain ⟨b, _, rfl, k1, hk⟩ := hasKinds_cons hk
    obtain ⟨c, _, rfl, k2, hk⟩ := hasKinds_cons hk
    obtain ⟨d, _, rfl, k3, hk⟩ := hasKinds_cons hk
    obtain ⟨e, _, rfl, k4, hk⟩ := hasKinds_cons hk
    obtain ⟨f, _, rfl, k5, hk⟩ := hasKinds_cons hk
    cases hasKinds_nil hk
    obtain ⟨a', _, rfl, r0, ha⟩ := argsRel_cons ha
    obtain ⟨b', _, rfl, r1, ha⟩ := argsRel_cons ha
    obtain ⟨c', _, rfl, r2, ha⟩ := argsRel_cons ha
    obtain ⟨d', _, rfl, r3, ha⟩ := argsRel_cons ha
    obtain ⟨e', _, rfl, r4, ha⟩ := argsRel_cons ha
    obtain ⟨f', _, rfl, r5, ha⟩ := argsRel_cons ha
    cases argsRel_nil ha
    simp only [Handler.run] at hv ⊢
    simp [ArgRel, Handler.dropped, Handler.commentPos] at r0 r1 r2 r3 r4 r5
    obtain ⟨s0, rfl, rfl⟩ := vrel_str k0 r0
    obtain ⟨s1, rfl, rfl⟩ := vrel_str k1 r1
    obtain ⟨s2, rfl, rfl⟩ := vrel_str k2 r2
    obtain ⟨c3, c3', rfl, rfl, hc3⟩ := r3
    obtain ⟨l4, e4, _⟩ := k4
    obtain ⟨l4', e4', hr4⟩ := vrel_rows e4 r4
    obtain ⟨l5, e5, _⟩ := k5
    obtain ⟨l5', e5', hr5⟩ := vrel_rows e5 r5
    obtain ⟨w, w', e1, e2, hw⟩ := hType_rel hc3 e4 e4' hr4 e5 e5' hr5
    have : w = v := Option.some.inj (e1.symm.trans hv)
    subst this
    exact ⟨w', e2, hw⟩
  case structureBody =>
    simp only [Handler.sig] at hs
    obtain ⟨rfl, rfl⟩ := ite_some_eq hs
    obtain ⟨a, _, rfl, k0, hk⟩ := hasKinds_cons hk
    obtain ⟨b, _, rfl, k1, hk⟩ := hasKinds_cons hk
    obtain ⟨c, _, rfl, k2, hk⟩ := hasKinds_cons hk
    obtain ⟨d, _, rfl, k3, hk⟩ := hasKinds_cons hk
    obtain ⟨e, _, rfl, k4, hk⟩ := hasKinds_cons hk
    obtain ⟨f, _, rfl, k5, hk⟩ := hasKinds_cons hk
    cases hasKinds_nil hk
    obtain ⟨a', _, rfl, r0, ha⟩ := argsRel_cons ha
    obtain ⟨b', _, rfl, r1, ha⟩ := argsRel_cons ha
    obtain ⟨c', _, rfl, r2, ha⟩ := argsRel_cons ha
    obtain ⟨d', _, rfl, r3, ha⟩ := argsRel_cons ha
    obtain ⟨e', _, rfl, r4, ha⟩ := argsRel_cons ha
    obtain ⟨f', _, rfl, r5, ha⟩ := argsRel_cons ha
    cases argsRel_nil ha
    simp only [Handler.run] at hv ⊢
    simp [ArgRel, Handler.dropped, Handler.commentPos] at r0 r1 r2 r3 r4 r5
    obtain ⟨l1, e1, _⟩ := k1
    obtain ⟨l1', e1', hr1⟩ := vrel_rows e1 r1
    obtain ⟨l2, e2, _⟩ := k2
    obtain ⟨l2', e2', hr2⟩ := vrel_rows e2 r2
    obtain ⟨l3, e3, _⟩ := k3
    obtain ⟨l3', e3', hr3⟩ := vrel_sections e3 r3
    obtain ⟨l4, e4, _⟩ := k4
    obtain ⟨l4', e4', hr4⟩ := vrel_blocks e4 r4
    exact hStructureBody_rel iw e1 e1' hr1 e2 e2' hr2 e3 e3' hr3 e4 e4' hr4 hv
  case virtualField =>
    simp only [Handler.sig] at hs
    obtain ⟨rfl, rfl⟩ := ite_some_eq hs
    obtain ⟨a, _, rfl, k0, hk⟩ := hasKinds_cons hk
    obtain ⟨b, _, rfl, k1, hk⟩ := hasKinds_cons hk
    obtain ⟨c, _, rfl, k2, hk⟩ := hasKinds_cons hk
    obtain ⟨d, _, rfl, k3, hk⟩ := hasKinds_cons hk
    obtain ⟨e, _, rfl, k4, hk⟩ := hasKinds_cons hk
    obtain ⟨f, _, rfl, k5, hk⟩ := hasKinds_cons hk
    obtain ⟨g, _, rfl, k6, hk⟩ := hasKinds_cons hk
    cases hasKinds_nil hk
    obtain ⟨a', _, rfl, r0, ha⟩ := argsRel_cons ha
    obtain ⟨b', _, rfl, r1, ha⟩ := argsRel_cons ha
    obtain ⟨c', _, rfl, r2, ha⟩ := argsRel_cons ha
    obtain ⟨d', _, rfl, r3, ha⟩ := argsRel_cons ha
    obtain ⟨e', _, rfl, r4, ha⟩ := argsRel_cons ha
    obtain ⟨f', _, rfl, r5, ha⟩ := argsRel_cons ha
    obtain ⟨g', _, rfl, r6, ha⟩ := argsRel_cons ha
    cases argsRel_nil ha
    simp only [Handler.run] at hv ⊢
    simp [ArgRel, Handler.dropped, Handler.commentPos] at r0 r1 r2 r3 r4 r5 r6
    obtain ⟨s0, rfl, rfl⟩ := vrel_str k0 r0
    obtain ⟨s1, rfl, rfl⟩ := vrel_str k1 r1
    obtain ⟨s2, rfl, rfl⟩ := vrel_str k2 r2
    obtain ⟨s3, rfl, rfl⟩ := vrel_str k3 r3
    obtain ⟨c4, c4', rfl, rfl, hc4⟩ := r4
    obtain ⟨l5, e5, _⟩ := k5
    obtain ⟨l5', e5', hr5⟩ := vrel_rows e5 r5
    obtain ⟨l6, e6, _⟩ := k6
    obtain ⟨l6', e6', hr6⟩ := vrel_rows e6 r6
    obtain ⟨w, w', e1, e2, hw⟩ := hVirtualField_rel hc4 e5 e5' hr5 e6 e6' hr6
    have : w = v := Option.some.inj (e1.symm.trans hv)
    subst this
    exact ⟨w', e2, hw⟩
  case unconditionalField =>
    simp only [Handler.sig] at hs
    obtain ⟨rfl, rfl⟩ := ite_some_eq hs
    obtain ⟨a, _, rfl, k0, hk⟩ := hasKinds_cons hk
    obtain ⟨b, _, rfl, k1, hk⟩ := hasKinds_cons hk
    obtain ⟨c, _, rfl, k2, hk⟩ := hasKinds_cons hk
    obtain ⟨d, _, rfl, k3, hk⟩ := hasKinds_cons hk
    obtain ⟨e, _, rfl, k4, hk⟩ := hasKinds_cons hk
    obtain ⟨f, _, rfl, k5, hk⟩ := hasKinds_cons hk
    obtain ⟨g, _, rfl, k6, hk⟩ := hasKinds_cons hk
    obtain ⟨h, _, rfl, k7, hk⟩ := hasKinds_cons hk
    obtain ⟨i, _, rfl, k8, hk⟩ := hasKinds_cons hk
    cases hasKinds_nil hk
    obtain ⟨a', _, rfl, r0, ha⟩ := argsRel_cons ha
    obtain ⟨b', _, rfl, r1, ha⟩ := argsRel_cons ha
    obtain ⟨c', _, rfl, r2, ha⟩ := argsRel_cons ha
    obtain ⟨d', _, rfl, r3, ha⟩ := argsRel_cons ha
    obtain ⟨e', _, rfl, r4, ha⟩ := argsRel_cons ha
    obtain ⟨f', _, rfl, r5, ha⟩ := argsRel_cons ha
    obtain ⟨g', _, rfl, r6, ha⟩ := argsRel_cons ha
    obtain ⟨h', _, rfl, r7, ha⟩ := argsRel_cons ha
    obtain ⟨i', _, rfl, r8, ha⟩ := argsRel_cons ha
    cases argsRel_nil ha
    simp only [Handler.run] at hv ⊢
    simp [ArgRel, Handler.dropped, Handler.commentPos] at r0 r1 r2 r3 r4 r5 r6 r7 r8
    obtain ⟨x0, y0, rfl, rfl⟩ := vrel_strs2 k0 r0
    obtain ⟨s1, rfl, rfl⟩ := vrel_str k1 r1
    obtain ⟨s2, rfl, rfl⟩ := vrel_str k2 r2
    obtain ⟨s3, rfl, rfl⟩ := vrel_str k3 r3
    obtain ⟨s4, rfl, rfl⟩ := vrel_str k4 r4
    obtain ⟨s5, rfl, rfl⟩ := vrel_str k5 r5
    obtain ⟨c6, c6', rfl, rfl, hc6⟩ := r6
    obtain ⟨l7, e7, _⟩ := k7
    obtain ⟨l7', e7', hr7⟩ := vrel_rows e7 r7
    obtain ⟨l8, e8, _⟩ := k8
    obtain ⟨l8', e8', hr8⟩ := vrel_rows e8 r8
    obtain ⟨w, w', e1, e2, hw⟩ := hUnconditionalField_rel hc6 e7 e7' hr7 e8 e8' hr8
    have : w = v := Option.some.inj (e1.symm.trans hv)
    subst this
    exact ⟨w', e2, hw⟩
  case fieldBody =>
    simp only [Handler.sig] at hs
    obtain ⟨rfl, rfl⟩ := ite_some_eq hs
    obtain ⟨a, _, rfl, k0, hk⟩ := hasKinds_cons hk
    obtain ⟨b, _, rfl, k1, hk⟩ := hasKinds_cons hk
    obtain ⟨c, _, rfl, k2, hk⟩ := hasKinds_cons hk
    obtain ⟨d, _, rfl, k3, hk⟩ := hasKinds_cons hk
    cases hasKinds_nil hk
    obtain ⟨a', _, rfl, r0, ha⟩ := argsRel_cons ha
    obtain ⟨b', _, rfl, r1, ha⟩ := argsRel_cons ha
    obtain ⟨c', _, rfl, r2, ha⟩ := argsRel_cons ha
    obtain ⟨d', _, rfl, r3, ha⟩ := argsRel_cons ha
    cases argsRel_nil ha
    simp only [Handler.run] at hv ⊢
    simp [ArgRel, Handler.dropped, Handler.commentPos] at r0 r1 r2 r3
    obtain ⟨l1, e1, _⟩ := k1
    obtain ⟨l1', e1', hr1⟩ := vrel_rows e1 r1
    obtain ⟨l2, e2, _⟩ := k2
    obtain ⟨l2', e2', hr2⟩ := vrel_rows e2 r2
    obtain ⟨w, w', e1, e2, hw⟩ := hFieldBody_rel e1 e1' hr1 e2 e2' hr2
    have : w = v := Option.some.inj (e1.symm.trans hv)
    subst this
    exact ⟨w', e2, hw⟩
  case inlineBits =>
    simp only [Handler.sig] at hs
    obtain ⟨rfl, rfl⟩ := ite_some_eq hs
    obtain ⟨a, _, rfl, k0, hk⟩ := hasKinds_cons hk
    obtain ⟨b, _, rfl, k1, hk⟩ := hasKinds_cons hk
    obtain ⟨c, _, rfl, k2, hk⟩ := hasKinds_cons hk
    obtain ⟨d, _, rfl, k3, hk⟩ := hasKinds_cons hk
    obtain ⟨e, _, rfl, k4, hk⟩ := hasKinds_cons hk
    obtain ⟨f, _, rfl, k5, hk⟩ := hasKinds_cons hk
    cases hasKinds_nil hk
    obtain ⟨a', _, rfl, r0, ha⟩ := argsRel_cons ha
    obtain ⟨b', _, rfl, r1, ha⟩ := argsRel_cons ha
    obtain ⟨c', _, rfl, r2, ha⟩ := argsRel_cons ha
    obtain ⟨d', _, rfl, r3, ha⟩ := argsRel_cons ha
    obtain ⟨e', _, rfl, r4, ha⟩ := argsRel_cons ha
    obtain ⟨f', _, rfl, r5, ha⟩ := argsRel_cons ha
    cases argsRel_nil ha
    simp only [Handler.run] at hv ⊢
    simp [ArgRel, Handler.dropped, Handler.commentPos] at r0 r1 r2 r3 r4 r5
    obtain ⟨x0, y0, rfl, rfl⟩ := vrel_strs2 k0 r0
    obtain ⟨s1, rfl, rfl⟩ := vrel_str k1 r1
    obtain ⟨s2, rfl, rfl⟩ := vrel_str k2 r2
    obtain ⟨c3, c3', rfl, rfl, hc3⟩ := r3
    obtain ⟨l4, e4, _⟩ := k4
    obtain ⟨l4', e4', hr4⟩ := vrel_rows e4 r4
    obtain ⟨hh5_, ff5_, rfl, _, _⟩ := k5
    obtain ⟨hh5', ff5', rfl, hh5, hf5⟩ := vrel_inline r5
    obtain ⟨w, w', e1, e2, hw⟩ := hInlineBits_rel hc3 e4 e4' hr4 hh5 hf5
    have : w = v := Option.some.inj (e1.symm.trans hv)
    subst this
    exact ⟨w', e2, hw⟩
  case inlineType =>
    simp only [Handler.sig] at hs
    obtain ⟨rfl, rfl⟩ := ite_some_eq hs
    obtain ⟨a, _, rfl, k0, hk⟩ := hasKinds_cons hk
    obtain ⟨b, _, rfl, k1, hk⟩ := hasKinds_cons hk
    obtain ⟨c, _, rfl, k2, hk⟩ := hasKinds_cons hk
    obtain ⟨d, _, rfl, k3, hk⟩ := hasKinds_cons hk
    obtain ⟨e, _, rfl, k4, hk⟩ := hasKinds_cons hk
    obtain ⟨f, _, rfl, k5, hk⟩ := hasKinds_cons hk
    obtain ⟨g, _, rfl, k6, hk⟩ := hasKinds_cons hk
    obtain ⟨h, _, rfl, k7, hk⟩ := hasKinds_cons hk
    cases hasKinds_nil hk
    obtain ⟨a', _, rfl, r0, ha⟩ := argsRel_cons ha
    obtain ⟨b', _, rfl, r1, ha⟩ := argsRel_cons ha
    obtain ⟨c', _, rfl, r2, ha⟩ := argsRel_cons ha
    obtain ⟨d', _, rfl, r3, ha⟩ := argsRel_cons ha
    obtain ⟨e', _, rfl, r4, ha⟩ := argsRel_cons ha
    obtain ⟨f', _, rfl, r5, ha⟩ := argsRel_cons ha
    obtain ⟨g', _, rfl, r6, ha⟩ := argsRel_cons ha
    obtain ⟨h', _, rfl, r7, ha⟩ := argsRel_cons ha
    cases argsRel_nil ha
    simp only [Handler.run] at hv ⊢
    simp [ArgRel, Handler.dropped, Handler.commentPos] at r0 r1 r2 r3 r4 r5 r6 r7
    obtain ⟨x0, y0, rfl, rfl⟩ := vrel_strs2 k0 r0
    obtain ⟨s1, rfl, rfl⟩ := vrel_str k1 r1
    obtain ⟨s2, rfl, rfl⟩ := vrel_str k2 r2
    obtain ⟨s3, rfl, rfl⟩ := vrel_str k3 r3
    obtain ⟨s4, rfl, rfl⟩ := vrel_str k4 r4
    obtain ⟨c5, c5', rfl, rfl, hc5⟩ := r5
    obtain ⟨l6, e6, _⟩ := k6
    obtain ⟨l6', e6', hr6⟩ := vrel_rows e6 r6
    obtain ⟨l7, e7, _⟩ := k7
    obtain ⟨l7', e7', hr7⟩ := vrel_rows e7 r7
    obtain ⟨w, w', e1, e2, hw⟩ := hInlineType_rel hc5 e6 e6' hr6 e7 e7' hr7
    have : w = v := Option.some.inj (e1.symm.trans hv)
    subst this
    exact ⟨w', e2, hw⟩
  case conditionalField =>
    simp only [Handler.sig] at hs
    obtain ⟨rfl, rfl⟩ := ite_some_eq hs
    obtain ⟨a, _, rfl, k0, hk⟩ := hasKinds_cons hk
    obtain ⟨b, _, rfl, k1, hk⟩ := hasKinds_cons hk
    obtain ⟨c, _, rfl, k2, hk⟩ := hasKinds_cons hk
    obtain ⟨d, _, rfl, k3, hk⟩ := hasKinds_cons hk
    obtain ⟨e, _, rfl, k4, hk⟩ := hasKinds_cons hk
    obtain ⟨f, _, rfl, k5, hk⟩ := hasKinds_cons hk
    obtain ⟨g, _, rfl, k6, hk⟩ := hasKinds_cons hk
    obtain ⟨h, _, rfl, k7, hk⟩ := hasKinds_cons hk
    cases hasKinds_nil hk
    obtain ⟨a', _, rfl, r0, ha⟩ := argsRel_cons ha
    obtain ⟨b', _, rfl, r1, ha⟩ := argsRel_cons ha
    obtain ⟨c', _, rfl, r2, ha⟩ := argsRel_cons ha
    obtain ⟨d', _, rfl, r3, ha⟩ := argsRel_cons ha
    obtain ⟨e', _, rfl, r4, ha⟩ := argsRel_cons ha
    obtain ⟨f', _, rfl, r5, ha⟩ := argsRel_cons ha
    obtain ⟨g', _, rfl, r6, ha⟩ := argsRel_cons ha
    obtain ⟨h', _, rfl, r7, ha⟩ := argsRel_cons ha
    cases argsRel_nil ha
    simp only [Handler.run] at hv ⊢
    simp [ArgRel, Handler.dropped, Handler.commentPos] at r0 r1 r2 r3 r4 r5 r6 r7
    obtain ⟨s0, rfl, rfl⟩ := vrel_str k0 r0
    obtain ⟨s1, rfl, rfl⟩ := vrel_str k1 r1
    obtain ⟨s2, rfl, rfl⟩ := vrel_str k2 r2
    obtain ⟨c3, c3', rfl, rfl, hc3⟩ := r3
    obtain ⟨l4, e4, _⟩ := k4
    obtain ⟨l4', e4', hr4⟩ := vrel_rows e4 r4
    obtain ⟨l6, e6, _, _⟩ := k6
    obtain ⟨l6', e6', hr6⟩ := vrel_blocks e6 r6
    exact hConditionalField_rel hc3 e4 e4' hr4 e6 e6' hr6 hv
  case inlineBitsBody =>
    simp only [Handler.sig] at hs
    obtain ⟨rfl, rfl⟩ := ite_some_eq hs
    obtain ⟨a, _, rfl, k0, hk⟩ := hasKinds_cons hk
    obtain ⟨b, _, rfl, k1, hk⟩ := hasKinds_cons hk
    obtain ⟨c, _, rfl, k2, hk⟩ := hasKinds_cons hk
    obtain ⟨d, _, rfl, k3, hk⟩ := hasKinds_cons hk
    cases hasKinds_nil hk
    obtain ⟨a', _, rfl, r0, ha⟩ := argsRel_cons ha
    obtain ⟨b', _, rfl, r1, ha⟩ := argsRel_cons ha
    obtain ⟨c', _, rfl, r2, ha⟩ := argsRel_cons ha
    obtain ⟨d', _, rfl, r3, ha⟩ := argsRel_cons ha
    cases argsRel_nil ha
    simp only [Handler.run] at hv ⊢
    simp [ArgRel, Handler.dropped, Handler.commentPos] at r0 r1 r2 r3
    obtain ⟨l1, e1, _⟩ := k1
    obtain ⟨l1', e1', hr1⟩ := vrel_rows e1 r1
    obtain ⟨l2, e2, _⟩ := k2
    obtain ⟨l2', e2', hr2⟩ := vrel_blocks e2 r2
    obtain ⟨w, w', e1, e2, hw⟩ := hInlineBitsBody_rel e1 e1' hr1 e2 e2' hr2
    have : w = v := Option.some.inj (e1.symm.trans hv)
    subst this
    exact ⟨w', e2, hw⟩
  case enumBody =>
    simp only [Handler.sig] at hs
    obtain ⟨rfl, rfl⟩ := ite_some_eq hs
    obtain ⟨a, _, rfl, k0, hk⟩ := hasKinds_cons hk
    obtain ⟨b, _, rfl, k1, hk⟩ := hasKinds_cons hk
    obtain ⟨c, _, rfl, k2, hk⟩ := hasKinds_cons hk
    obtain ⟨d, _, rfl, k3, hk⟩ := hasKinds_cons hk
    obtain ⟨e, _, rfl, k4, hk⟩ := hasKinds_cons hk
    cases hasKinds_nil hk
    obtain ⟨a', _, rfl, r0, ha⟩ := argsRel_cons ha
    obtain ⟨b', _, rfl, r1, ha⟩ := argsRel_cons ha
    obtain ⟨c', _, rfl, r2, ha⟩ := argsRel_cons ha
    obtain ⟨d', _, rfl, r3, ha⟩ := argsRel_cons ha
    obtain ⟨e', _, rfl, r4, ha⟩ := argsRel_cons ha
    cases argsRel_nil ha
    simp only [Handler.run] at hv ⊢
    simp [ArgRel, Handler.dropped, Handler.commentPos] at r0 r1 r2 r3 r4
    obtain ⟨l1, e1, _⟩ := k1
    obtain ⟨l1', e1', hr1⟩ := vrel_rows e1 r1
    obtain ⟨l2, e2, _⟩ := k2
    obtain ⟨l2', e2', hr2⟩ := vrel_rows e2 r2
    obtain ⟨l3, e3, _⟩ := k3
    obtain ⟨l3', e3', hr3⟩ := vrel_blocks e3 r3
    exact hEnumBody_rel iw e1 e1' hr1 e2 e2' hr2 e3 e3' hr3 hv
  case enumValue =>
    simp only [Handler.sig] at hs
    obtain ⟨rfl, rfl⟩ := ite_some_eq hs
    obtain ⟨a, _, rfl, k0, hk⟩ := hasKinds_cons hk
    obtain ⟨b, _, rfl, k1, hk⟩ := hasKinds_cons hk
    obtain ⟨c, _, rfl, k2, hk⟩ := hasKinds_cons hk
    obtain ⟨d, _, rfl, k3, hk⟩ := hasKinds_cons hk
    obtain ⟨e, _, rfl, k4, hk⟩ := hasKinds_cons hk
    obtain ⟨f, _, rfl, k5, hk⟩ := hasKinds_cons hk
    obtain ⟨g, _, rfl, k6, hk⟩ := hasKinds_cons hk
    obtain ⟨h, _, rfl, k7, hk⟩ := hasKinds_cons hk
    cases hasKinds_nil hk
    obtain ⟨a', _, rfl, r0, ha⟩ := argsRel_cons ha
    obtain ⟨b', _, rfl, r1, ha⟩ := argsRel_cons ha
    obtain ⟨c', _, rfl, r2, ha⟩ := argsRel_cons ha
    obtain ⟨d', _, rfl, r3, ha⟩ := argsRel_cons ha
    obtain ⟨e', _, rfl, r4, ha⟩ := argsRel_cons ha
    obtain ⟨f', _, rfl, r5, ha⟩ := argsRel_cons ha
    obtain ⟨g', _, rfl, r6, ha⟩ := argsRel_cons ha
    obtain ⟨h', _, rfl, r7, ha⟩ := argsRel_cons ha
    cases argsRel_nil ha
    simp only [Handler.run] at hv ⊢
    simp [ArgRel, Handler.dropped, Handler.commentPos] at r0 r1 r2 r3 r4 r5 r6 r7
    obtain ⟨s0, rfl, rfl⟩ := vrel_str k0 r0
    obtain ⟨s1, rfl, rfl⟩ := vrel_str k1 r1
    obtain ⟨s2, rfl, rfl⟩ := vrel_str k2 r2
    obtain ⟨s3, rfl, rfl⟩ := vrel_str k3 r3
    obtain ⟨s4, rfl, rfl⟩ := vrel_str k4 r4
    obtain ⟨c5, c5', rfl, rfl, hc5⟩ := r5
    obtain ⟨l6, e6, _⟩ := k6
    obtain ⟨l6', e6', hr6⟩ := vrel_rows e6 r6
    obtain ⟨l7, e7, _⟩ := k7
    obtain ⟨l7', e7', hr7⟩ := vrel_rows e7 r7
    obtain ⟨w, w', e1, e2, hw⟩ := hEnumValue_rel hc5 e6 e6' hr6 e7 e7' hr7
    have : w = v := Option.some.inj (e1.symm.trans hv)
    subst this
    exact ⟨w', e2, hw⟩
  case enumValueBody =>
    simp only [Handler.sig] at hs
    obtain ⟨rfl, rfl⟩ := ite_some_eq hs
    obtain ⟨a, _, rfl, k0, hk⟩ := hasKinds_cons hk
    obtain ⟨b, _, rfl, k1, hk⟩ := hasKinds_cons hk
    obtain ⟨c, _, rfl, k2, hk⟩ := hasKinds_cons hk
    obtain ⟨d, _, rfl, k3, hk⟩ := hasKinds_cons hk
    cases hasKinds_nil hk
    obtain ⟨a', _, rfl, r0, ha⟩ := argsRel_cons ha
    obtain ⟨b', _, rfl, r1, ha⟩ := argsRel_cons ha
    obtain ⟨c', _, rfl, r2, ha⟩ := argsRel_cons ha
    obtain ⟨d', _, rfl, r3, ha⟩ := argsRel_cons ha
    cases argsRel_nil ha
    simp only [Handler.run] at hv ⊢
    simp [ArgRel, Handler.dropped, Handler.commentPos] at r0 r1 r2 r3
    obtain ⟨l1, e1, _⟩ := k1
    obtain ⟨l1', e1', hr1⟩ := vrel_rows e1 r1
    obtain ⟨l2, e2, _⟩ := k2
    obtain ⟨l2', e2', hr2⟩ := vrel_rows e2 r2
    obtain ⟨w, w', e1, e2, hw⟩ := hFieldBody_rel e1 e1' hr1 e2 e2' hr2
    have : w = v := Option.some.inj (e1.symm.trans hv)
    subst this
    exact ⟨w', e2, hw⟩
  case externalBody =>
    simp only [Handler.sig] at hs
    obtain ⟨rfl, rfl⟩ := ite_some_eq hs
    obtain ⟨a, _, rfl, k0, hk⟩ := hasKinds_cons hk
    obtain ⟨b, _, rfl, k1, hk⟩ := hasKinds_cons hk
    obtain ⟨c, _, rfl, k2, hk⟩ := hasKinds_cons hk
    obtain ⟨d, _, rfl, k3, hk⟩ := hasKinds_cons hk
    cases hasKinds_nil hk
    obtain ⟨a', _, rfl, r0, ha⟩ := argsRel_cons ha
    obtain ⟨b', _, rfl, r1, ha⟩ := argsRel_cons ha
    obtain ⟨c', _, rfl, r2, ha⟩ := argsRel_cons ha
    obtain ⟨d', _, rfl, r3, ha⟩ := argsRel_cons ha
    cases argsRel_nil ha
    simp only [Handler.run] at hv ⊢
    simp [ArgRel, Handler.dropped, Handler.commentPos] at r0 r1 r2 r3
    obtain ⟨l1, e1, _⟩ := k1
    obtain ⟨l1', e1', hr1⟩ := vrel_rows e1 r1
    obtain ⟨l2, e2, _⟩ := k2
    obtain ⟨l2', e2', hr2⟩ := vrel_rows e2 r2
    obtain ⟨w, w', e1, e2, hw⟩ := hExternalBody_rel e1 e1' hr1 e2 e2' hr2
    have : w = v := Option.some.inj (e1.symm.trans hv)
    subst this
    exact ⟨w', e2, hw⟩
  case commentLine =>
    simp only [Handler.sig] at hs
    obtain ⟨rfl, rfl⟩ := ite_some_eq hs
    obtain ⟨a, _, rfl, k0, hk⟩ := hasKinds_cons hk
    obtain ⟨b, _, rfl, k1, hk⟩ := hasKinds_cons hk
    cases hasKinds_nil hk
    obtain ⟨a', _, rfl, r0, ha⟩ := argsRel_cons ha
    obtain ⟨b', _, rfl, r1, ha⟩ := argsRel_cons ha
    cases argsRel_nil ha
    simp only [Handler.run] at hv ⊢
    simp [ArgRel, Handler.dropped, Handler.commentPos] at r0 r1
    obtain ⟨c0, c0', rfl, rfl, hc0⟩ := r0
    obtain ⟨w, w', e1, e2, hw⟩ := hCommentLine_rel hc0
    have : w = v := Option.some.inj (e1.symm.trans hv)
    subst this
    exact ⟨w', e2, hw⟩
  case eol =>
    simp only [Handler.sig] at hs
    obtain ⟨rfl, rfl⟩ := ite_some_eq hs
    obtain ⟨a, _, rfl, k0, hk⟩ := hasKinds_cons hk
    obtain ⟨b, _, rfl, k1, hk⟩ := hasKinds_cons hk
    cases hasKinds_nil hk
    obtain ⟨a', _, rfl, r0, ha⟩ := argsRel_cons ha
    obtain ⟨b', _, rfl, r1, ha⟩ := argsRel_cons ha
    cases argsRel_nil ha
    simp only [Handler.run] at hv ⊢
    simp [ArgRel, Handler.dropped, Handler.commentPos] at r0 r1
    obtain ⟨l1, e1, _⟩ := k1
    obtain ⟨l1', e1', hr1⟩ := vrel_rows e1 r1
    obtain ⟨w, w', e1, e2, hw⟩ := hEol_rel e1 e1' hr1
    have : w = v := Option.some.inj (e1.symm.trans hv)
    subst this
    exact ⟨w', e2, hw⟩
  case emptyList =>
    simp only [Handler.sig] at hs
    obtain ⟨rfl, rfl⟩ := ite_some_eq hs
    cases hasKinds_nil hk
    cases argsRel_nil ha
    simp only [Handler.run, hEmptyList, Option.some.injEq] at hv
    subst hv
    exact ⟨_, rfl, trivial⟩
  case emptyString =>
    simp only [Handler.sig] at hs
    obtain ⟨rfl, rfl⟩ := ite_some_eq hs
    cases hasKinds_nil hk
    cases argsRel_nil ha
    simp only [Handler.run, hEmptyString, Option.some.injEq] at hv
    subst hv
    exact ⟨_, rfl, rfl⟩
  case structureBlock =>
    simp only [Handler.sig] at hs
    split at hs
    · rename_i hks
      subst hks
      obtain ⟨a, _, rfl, k0, hk⟩ := hasKinds_cons hk
      obtain ⟨b, _, rfl, k1, hk⟩ := hasKinds_cons hk
      cases hasKinds_nil hk
      obtain ⟨a', _, rfl, r0, ha⟩ := argsRel_cons ha
      obtain ⟨b', _, rfl, r1, ha⟩ := argsRel_cons ha
      cases argsRel_nil ha
      simp [ArgRel, Handler.dropped, Handler.commentPos] at r0 r1
      exact pyAdd_rel r0 r1 hv
    · obtain ⟨rfl, rfl⟩ := ite_some_eq hs
      obtain ⟨a, _, rfl, k0, hk⟩ := hasKinds_cons hk
      obtain ⟨b, _, rfl, k1, hk⟩ := hasKinds_cons hk
      cases hasKinds_nil hk
      obtain ⟨a', _, rfl, r0, ha⟩ := argsRel_cons ha
      obtain ⟨b', _, rfl, r1, ha⟩ := argsRel_cons ha
      cases argsRel_nil ha
      simp [ArgRel, Handler.dropped, Handler.commentPos] at r0 r1
      exact pyAdd_rel r0 r1 hv
  case enumValues =>
    simp only [Handler.sig] at hs
    obtain ⟨rfl, rfl⟩ := ite_some_eq hs
    obtain ⟨a, _, rfl, k0, hk⟩ := hasKinds_cons hk
    obtain ⟨b, _, rfl, k1, hk⟩ := hasKinds_cons hk
    cases hasKinds_nil hk
    obtain ⟨a', _, rfl, r0, ha⟩ := argsRel_cons ha
    obtain ⟨b', _, rfl, r1, ha⟩ := argsRel_cons ha
    cases argsRel_nil ha
    simp only [Handler.run] at hv ⊢
    simp [ArgRel, Handler.dropped, Handler.commentPos] at r0 r1
    exact pyAdd_rel r0 r1 hv
  case concatenateLists =>
    simp only [Handler.sig] at hs
    obtain ⟨rfl, rfl⟩ := ite_some_eq hs
    obtain ⟨a, _, rfl, k0, hk⟩ := hasKinds_cons hk
    obtain ⟨b, _, rfl, k1, hk⟩ := hasKinds_cons hk
    cases hasKinds_nil hk
    obtain ⟨a', _, rfl, r0, ha⟩ := argsRel_cons ha
    obtain ⟨b', _, rfl, r1, ha⟩ := argsRel_cons ha
    cases argsRel_nil ha
    simp only [Handler.run] at hv ⊢
    simp [ArgRel, Handler.dropped, Handler.commentPos] at r0 r1
    exact pyAdd_rel r0 r1 hv
  all_goals
    -- handlers that only take strings
    have hall : ks.all (· == .str) = true := by
      simp only [Handler.sig] at hs
      first
      | exact (ite_some_eq hs).1
      | (obtain ⟨rfl, _⟩ := ite_some_eq hs; rfl)
    have := argsRel_eq_of_str _ rfl rfl args args' ks 0 ha hk hall
    subst this
    obtain ⟨v0, hv0, hk0, _⟩ := run_ok iw _ _ ks k (by decide) hk hs
    have : v0 = v := Option.some.inj (hv0.symm.trans hv)
    subst this
    refine ⟨v0, hv, ?_⟩
    simp only [Handler.sig] at hs
    obtain ⟨_, rfl⟩ := ite_some_eq hs
    first
    | (obtain ⟨s, rfl⟩ := hk0; exact rfl)
    | (obtain ⟨x, y, rfl⟩ := hk0; exact rfl)

end Emboss.Fmt
