/-
C06: the syntactic dependency check on leaf descriptions implies the semantic `DepOk`.
-/
import Emboss.Model.TextLayout
import Emboss.Lemmas.TextStruct
namespace Emboss.Text

theorem byteVal_congr (b b' : Buf) (k : Nat) (h : ∀ i, i < 8 → b' (8 * k + i) = b (8 * k + i)) :
    byteVal b' k = byteVal b k := by
  have h0 := h 0 (by omega)
  simp only [Nat.add_zero] at h0
  simp only [byteVal, bitVal, h0, h 1 (by omega), h 2 (by omega), h 3 (by omega), h 4 (by omega),
    h 5 (by omega), h 6 (by omega), h 7 (by omega)]

theorem eval_congr (b b' : Buf) : ∀ (e : LExpr), (∀ k ∈ e.reads, byteVal b' k = byteVal b k) →
    e.eval b' = e.eval b := by
  intro e
  induction e with
  | const n => intro _; rfl
  | byte k => intro h; exact h k (by simp [LExpr.reads])
  | add x y ihx ihy =>
    intro h
    simp only [LExpr.reads, List.mem_append] at h
    simp only [LExpr.eval, ihx (fun k hk => h k (Or.inl hk)), ihy (fun k hk => h k (Or.inr hk))]
  | mul x y ihx ihy =>
    intro h
    simp only [LExpr.reads, List.mem_append] at h
    simp only [LExpr.eval, ihx (fun k hk => h k (Or.inl hk)), ihy (fun k hk => h k (Or.inr hk))]
  | gt x y ihx ihy =>
    intro h
    simp only [LExpr.reads, List.mem_append] at h
    simp only [LExpr.eval, ihx (fun k hk => h k (Or.inl hk)), ihy (fun k hk => h k (Or.inr hk))]
  | eq x y ihx ihy =>
    intro h
    simp only [LExpr.reads, List.mem_append] at h
    simp only [LExpr.eval, ihx (fun k hk => h k (Or.inl hk)), ihy (fun k hk => h k (Or.inr hk))]
  | and x y ihx ihy =>
    intro h
    simp only [LExpr.reads, List.mem_append] at h
    simp only [LExpr.eval, ihx (fun k hk => h k (Or.inl hk)), ihy (fun k hk => h k (Or.inr hk))]
  | not x ihx =>
    intro h
    simp only [LExpr.reads] at h
    simp only [LExpr.eval, ihx h]

/-- An establishing leaf pins the byte: buffers that agree on the emitted fields agree on it. -/
theorem establishes_byte (size : Nat) (p : Leaf) (k : Nat) (h : p.establishes size k = true)
    (pre : List Leaf) (hp : p ∈ pre) (b b' : Buf)
    (hag : AgreeOn (pre.map (Leaf.sem size)) b b') : byteVal b' k = byteVal b k := by
  unfold Leaf.establishes at h
  cases hpr : p.present <;> rw [hpr] at h <;> simp at h
  rename_i c
  cases hof : p.offset <;> rw [hof] at h <;> simp at h
  rename_i o
  obtain ⟨hem, ⟨⟨⟨hc, h1⟩, h2⟩, h3⟩⟩ := h
  apply byteVal_congr
  intro i hi
  have hloc : (Leaf.sem size p).loc b = some ((List.range p.width).map (· + o)) := by
    simp [Leaf.sem, Leaf.loc, hpr, hof, LExpr.eval, hc, h3]
  refine hag (Leaf.sem size p) (List.mem_map_of_mem hp) (by simpa [Leaf.sem] using hem) _ hloc _ ?_
  simp only [List.mem_map, List.mem_range]
  exact ⟨8 * k + i - o, by omega, by omega⟩

theorem depCheck_sound (size : Nat) : ∀ (rest pre : List Leaf), depCheck size pre rest = true →
    DepOk (pre.map (Leaf.sem size)) (rest.map (Leaf.sem size)) := by
  intro rest
  induction rest with
  | nil => intro _ _; trivial
  | cons l rest ih =>
    intro pre h
    simp only [depCheck, Bool.and_eq_true, Bool.or_eq_true, Bool.not_eq_true', List.all_eq_true,
      List.any_eq_true, List.mem_append] at h
    obtain ⟨hl, hrest⟩ := h
    refine ⟨?_, ?_⟩
    · intro hem b b' hag
      have hem' : l.emitted = true := by simpa [Leaf.sem] using hem
      rcases hl with hl | hl
      · rw [hem'] at hl; cases hl
      · have hp : l.present.eval b' = l.present.eval b := by
          apply eval_congr
          intro k hk
          obtain ⟨p, hpm, hpe⟩ := hl k (Or.inl hk)
          exact establishes_byte size p k hpe pre hpm b b' hag
        have ho : l.offset.eval b' = l.offset.eval b := by
          apply eval_congr
          intro k hk
          obtain ⟨p, hpm, hpe⟩ := hl k (Or.inr hk)
          exact establishes_byte size p k hpe pre hpm b b' hag
        simp only [Leaf.sem, Leaf.loc, hp, ho]
    · have := ih (pre ++ [l]) hrest
      simpa using this

end Emboss.Text
