/-
C11 (round 3): kernel evaluations for the non-vacuity example of `C11_retokenize_partial`
(in a file of their own: the tokenizer model is evaluated in the kernel).
-/
import Emboss.Lemmas.FmtRetokCols
namespace Emboss.Fmt
open Emboss.FmtTok Emboss.Tok Emboss.Generated

def exRows : List (Row × List Leaf) := [
  ({ name := .typeHeader, columns := ["struct Foo:".toList] },
   [("\"struct\"", "struct".toList), ("CamelWord", "Foo".toList), ("\":\"", ":".toList)]),
  ({ name := .field, columns := ["0  [+1]  UInt  x".toList], indent := 1 },
   [("Number", "0".toList), ("\"[\"", "[".toList), ("\"+\"", "+".toList), ("Number", "1".toList),
    ("\"]\"", "]".toList), ("CamelWord", "UInt".toList), ("SnakeWord", "x".toList)])]

theorem exRows_ok : ∀ x ∈ exRows, x.1.columns.length < 2 ∧ LineToks (rowText x.1) x.2 := by
  intro x hx
  simp only [exRows, List.mem_cons, List.not_mem_nil, or_false] at hx
  rcases hx with rfl | rfl
  · exact ⟨by decide, LineToks.of_evalLeaves (by decide +kernel) (by decide +kernel) (by decide +kernel)
      (by decide +kernel)⟩
  · exact ⟨by decide, LineToks.of_evalLeaves (by decide +kernel) (by decide +kernel) (by decide +kernel)
      (by decide +kernel)⟩

def exLeaves : List Leaf :=
  [("\"struct\"", "struct".toList), ("CamelWord", "Foo".toList), ("\":\"", ":".toList), nlLeaf,
   ("Indent", "   ".toList),
   ("Number", "0".toList), ("\"[\"", "[".toList), ("\"+\"", "+".toList), ("Number", "1".toList),
   ("\"]\"", "]".toList), ("CamelWord", "UInt".toList), ("SnakeWord", "x".toList), nlLeaf,
   dedentLeaf]

theorem exRows_module : exRows.map Prod.fst = moduleRows [] [] [] [] [exRows.map Prod.fst] := by
  decide +kernel

theorem exRows_expect : expectLeaves 3 0 [] (exRows.map (fun x => (x.1.indent, x.2))) = some exLeaves := by
  decide +kernel

theorem exRows_text :
    Handler.run 3 .module [.rows [], .rows [], .rows [], .rows [], .sections [exRows.map Prod.fst]] =
      some (.str "struct Foo:\n   0  [+1]  UInt  x\n".toList) := by decide +kernel

/-! A block for `C11_columnize_retokenizes_partial`. -/

def exBlock : Block :=
  { pre := [], header := { name := .field, columns := ["0".toList, "[+1]".toList, "UInt".toList, "x".toList] },
    body := [] }

def exCellLeaves : List (List Leaf) :=
  [[("Number", "0".toList)],
   [("\"[\"", "[".toList), ("\"+\"", "+".toList), ("Number", "1".toList), ("\"]\"", "]".toList)],
   [("CamelWord", "UInt".toList)], [("SnakeWord", "x".toList)]]

theorem exBlock_cells : ∀ x ∈ colCells [exBlock] 2 2 exBlock.header 0 exBlock.header.columns exCellLeaves,
    (x.1 = [] ∧ x.2.2 = []) ∨ (x.1 ≠ [] ∧ LineToks x.1 x.2.2) := by
  intro x hx
  simp only [exBlock, exCellLeaves, colCells, List.headD, List.tail, List.mem_cons, List.not_mem_nil,
    or_false] at hx
  rcases hx with rfl | rfl | rfl | rfl
  all_goals
    right
    exact ⟨by decide, LineToks.of_evalLeaves (by decide +kernel) (by decide +kernel) (by decide +kernel)
      (by decide +kernel)⟩

theorem exBlock_open : OpenLast (colCells [exBlock] 2 2 exBlock.header 0 exBlock.header.columns exCellLeaves) := by
  simp only [exBlock, exCellLeaves, colCells, OpenLast, List.headD, List.tail, OpenEnded]
  decide

end Emboss.Fmt
