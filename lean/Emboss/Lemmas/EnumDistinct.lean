/- Helper lemmas for C19/C07: when are the enumerator identifiers pairwise distinct? -/
import Emboss.Lemmas.EnumGen
namespace Emboss.Enum
open Emboss.CppInt

theorem mapM_option_mem {α β : Type} (f : α → Option β) (l : List α) (r : List β)
    (h : l.mapM f = some r) : ∀ y ∈ r, ∃ a ∈ l, f a = some y := by
  induction l generalizing r with
  | nil => simp at h; subst h; intro y hy; cases hy
  | cons a as ih =>
    simp only [List.mapM_cons] at h
    cases hf : f a with
    | none => simp [hf] at h
    | some b =>
      cases hr : as.mapM f with
      | none => simp [hf, hr] at h
      | some bs =>
        simp [hf, hr] at h
        subst h
        intro y hy
        rcases List.mem_cons.mp hy with rfl | hy'
        · exact ⟨a, List.mem_cons_self .., hf⟩
        · obtain ⟨c, hc, hfc⟩ := ih bs hr y hy'
          exact ⟨c, List.mem_cons_of_mem _ hc, hfc⟩

/-- Every spelling is the Emboss name itself or `k` + its CamelCase form. -/
theorem namesOf_mem (d : Def) (v : Value) (x : Name) (hx : x ∈ namesOf d v) :
    x = v.name ∨ x = 'k' :: snakeToCamel v.name := by
  unfold namesOf at hx
  cases he : enumeratorNames v.name (effectiveCase v.attrs (defaultsOf d.levels)) with
  | none => simp [he] at hx
  | some l =>
    simp only [he] at hx
    cases hc : effectiveCase v.attrs (defaultsOf d.levels) with
    | crash => simp [hc, enumeratorNames] at he
    | unset =>
      simp [hc, enumeratorNames] at he
      subst he
      simp at hx
      exact Or.inl hx
    | cases t =>
      simp only [hc, enumeratorNames] at he
      obtain ⟨c, _, hfc⟩ := mapM_option_mem _ _ _ he x hx
      cases hp : parseCase c with
      | none => simp [hp] at hfc
      | some k =>
        simp [hp] at hfc
        cases k with
        | shouty => exact Or.inl hfc.symm
        | kCamel => exact Or.inr hfc.symm

theorem enumerator_names_nodup (d : Def)
    (hnames : (d.values.map (·.name)).Nodup)
    (hshape : ∀ v ∈ d.values, ∃ c cs, v.name = c :: cs ∧ c ≠ 'k')
    (hspell : ∀ v ∈ d.values, (namesOf d v).Nodup)
    (hcamel : d.values.Pairwise (fun a b => snakeToCamel a.name ≠ snakeToCamel b.name)) :
    ((enumsOf (namesOf d) d.values).map (·.1)).Nodup := by
  have e : (enumsOf (namesOf d) d.values).map (·.1) = d.values.flatMap (namesOf d) := by
    simp [enumsOf, List.map_flatMap, Function.comp_def]
  rw [e]
  unfold List.Nodup
  rw [List.pairwise_flatMap]
  refine ⟨hspell, ?_⟩
  have hn : d.values.Pairwise (fun a b => a.name ≠ b.name) := List.pairwise_map.mp hnames
  have hboth := hn.and hcamel
  -- membership facts are needed too: strengthen with `Pairwise` over elements of the list
  refine (List.Pairwise.and_mem.mp hboth).imp ?_
  rintro a b ⟨ha, hb, hne, hcm⟩ x hx y hy hxy
  subst hxy
  obtain ⟨ca, csa, hsa, hka⟩ := hshape a ha
  obtain ⟨cb, csb, hsb, hkb⟩ := hshape b hb
  rcases namesOf_mem d a x hx with h1 | h1 <;> rcases namesOf_mem d b x hy with h2 | h2
  · exact hne (h1.symm.trans h2)
  · rw [h1, hsa] at h2; simp at h2; exact hka h2.1
  · rw [h2, hsb] at h1; simp at h1; exact hkb h1.1
  · rw [h1] at h2; simp at h2; exact hcm h2

end Emboss.Enum

namespace Emboss.Enum

theorem mapM_option_nodup {α β : Type} (f : α → Option β)
    (hinj : ∀ a b y, f a = some y → f b = some y → a = b) (l : List α) (r : List β)
    (h : l.mapM f = some r) (hn : l.Nodup) : r.Nodup := by
  induction l generalizing r with
  | nil => simp at h; subst h; exact List.nodup_nil
  | cons a as ih =>
    simp only [List.mapM_cons] at h
    cases hf : f a with
    | none => simp [hf] at h
    | some b =>
      cases hr : as.mapM f with
      | none => simp [hf, hr] at h
      | some bs =>
        simp [hf, hr] at h
        subst h
        have hn' := List.nodup_cons.mp hn
        refine List.nodup_cons.mpr ⟨?_, ih bs hr hn'.2⟩
        intro hb
        obtain ⟨c, hc, hfc⟩ := mapM_option_mem f as bs hr b hb
        have := hinj a c b hf hfc
        subst this
        exact hn'.1 hc

theorem parseCase_inj (c c' : List Char) (k : Case) (h : parseCase c = some k)
    (h' : parseCase c' = some k) : c = c' := by
  have hne : shoutyText ≠ kCamelText := by decide
  unfold parseCase at h h'
  by_cases h1 : c = shoutyText
  · by_cases h2 : c' = shoutyText
    · rw [h1, h2]
    · simp only [h1, if_true, Option.some.injEq] at h
      simp only [h2, if_false] at h'
      by_cases h4 : c' = kCamelText
      · simp only [h4, if_true, Option.some.injEq] at h'
        rw [← h] at h'; cases h'
      · simp [h4] at h'
  · simp only [h1, if_false] at h
    by_cases h3 : c = kCamelText
    · simp only [h3, if_true, Option.some.injEq] at h
      by_cases h2 : c' = shoutyText
      · simp only [h2, if_true, Option.some.injEq] at h'
        rw [← h] at h'; cases h'
      · simp only [h2, if_false] at h'
        by_cases h4 : c' = kCamelText
        · rw [h3, h4]
        · simp [h4] at h'
    · simp [h3] at h

/-- A verified `enum_case` text yields pairwise distinct spellings of a SHOUTY name. -/
theorem spellings_nodup (d : Def) (v : Value)
    (hshape : ∃ c cs, v.name = c :: cs ∧ c ≠ 'k')
    (hver : ∀ t, effectiveCase v.attrs (defaultsOf d.levels) = .cases t → verifyCases t = true) :
    (namesOf d v).Nodup := by
  unfold namesOf
  cases he : enumeratorNames v.name (effectiveCase v.attrs (defaultsOf d.levels)) with
  | none => exact List.nodup_nil
  | some l =>
    simp only
    cases hc : effectiveCase v.attrs (defaultsOf d.levels) with
    | crash => simp [hc, enumeratorNames] at he
    | unset => simp [hc, enumeratorNames] at he; subst he; simp
    | cases t =>
      have hv := hver t hc
      simp only [verifyCases, Bool.and_eq_true, decide_eq_true_eq] at hv
      simp only [hc, enumeratorNames] at he
      refine mapM_option_nodup _ ?_ _ _ he hv.1.2
      intro a b y ha hb
      obtain ⟨c, cs, hs, hk⟩ := hshape
      cases hpa : parseCase a with
      | none => simp [hpa] at ha
      | some ka =>
        cases hpb : parseCase b with
        | none => simp [hpb] at hb
        | some kb =>
          simp [hpa] at ha
          simp [hpb] at hb
          have : ka = kb := by
            cases ka <;> cases kb <;> simp [convertCase] at ha hb
            · rfl
            · rw [← ha, hs] at hb; simp at hb; exact absurd hb.1.symm hk
            · rw [← hb, hs] at ha; simp at ha; exact absurd ha.1.symm hk
            · rfl
          subst this
          exact parseCase_inj a b ka hpa hpb

end Emboss.Enum

/-! ## the back end's own check (`_verify_generated_enum_value_names_are_distinct`) -/
namespace Emboss.Enum

theorem distinctLoop_iff (seen l : List Name) :
    distinctLoop seen l = true ↔ l.Nodup ∧ ∀ x ∈ l, x ∉ seen := by
  induction l generalizing seen with
  | nil => simp [distinctLoop]
  | cons a as ih =>
    simp only [distinctLoop, Bool.and_eq_true, Bool.not_eq_true', List.contains_eq_mem,
      decide_eq_false_iff_not, ih, List.nodup_cons, List.mem_cons, forall_eq_or_imp]
    constructor
    · rintro ⟨h1, h2, h3⟩
      refine ⟨⟨fun ha => (h3 a ha) (Or.inl rfl), h2⟩, h1, fun x hx hs => h3 x hx (Or.inr hs)⟩
    · rintro ⟨⟨h1, h2⟩, h3, h4⟩
      refine ⟨h3, h2, ?_⟩
      intro x hx hs
      rcases hs with rfl | hs
      · exact h1 hx
      · exact h4 x hx hs

theorem mapM_option_eq_map {α β : Type} (f : α → Option β) (g : α → β) (l : List α)
    (h : ∀ a ∈ l, f a = some (g a)) : l.mapM f = some (l.map g) := by
  induction l with
  | nil => rfl
  | cons a as ih =>
    simp only [List.mapM_cons, h a (List.mem_cons_self ..)]
    rw [ih (fun b hb => h b (List.mem_cons_of_mem _ hb))]
    rfl

/-- When `generate` succeeds every value has its spellings (no crash). -/
theorem generate_spellings (d : Def) (g : Gen) (h : generate d = some g) :
    d.values.mapM d.spellings = some (d.values.map (namesOf d)) := by
  apply mapM_option_eq_map
  intro v hv
  unfold generate at h
  cases hty : cppTypeForEnum d.maxBits d.isSigned with
  | none => simp [hty] at h
  | some ty =>
    simp only [hty] at h
    cases hst : stepValues (defaultsOf d.levels) ⟨{ ty := ty }, []⟩ d.values with
    | none => simp [hst] at h
    | some st =>
      obtain ⟨l, hl⟩ := stepValues_some _ _ _ _ hst v hv
      simp [Def.spellings, namesOf, hl]

/-- The back end's check is exact: for a generated enum it passes iff the enumerator
identifiers are pairwise distinct. -/
theorem namesDistinct_iff (d : Def) (g : Gen) (hgen : generate d = some g) :
    d.namesDistinct = true ↔ (g.enumerators.map (·.1)).Nodup := by
  obtain ⟨_, _, he, _, _, _⟩ := generate_spec d g hgen
  have e : (enumsOf (namesOf d) d.values).map (·.1) = (d.values.map (namesOf d)).flatten := by
    simp [enumsOf, List.map_flatMap, Function.comp_def, List.flatMap_def]
  rw [he, e]
  simp only [Def.namesDistinct, generate_spellings d g hgen, distinctLoop_iff]
  simp

end Emboss.Enum

namespace Emboss.Enum

theorem enumerators_nodup_of_accepts (d : Def) (g : Gen) (hgen : generate d = some g)
    (hacc : d.backAccepts = true) : (g.enumerators.map (·.1)).Nodup := by
  simp only [Def.backAccepts, Bool.and_eq_true] at hacc
  exact (namesDistinct_iff d g hgen).mp hacc.2

theorem gatherDefault_mem (inh : Option (List Char)) (attrs : List Attr) (t : List Char)
    (h : gatherDefault inh attrs = some t) :
    inh = some t ∨ ∃ a ∈ attrs, a.isCpp = true ∧ a.text = t := by
  unfold gatherDefault at h
  induction attrs generalizing inh with
  | nil => exact Or.inl h
  | cons a as ih =>
    simp only [List.foldl_cons] at h
    rcases ih _ h with h1 | ⟨b, hb, hbc, hbt⟩
    · by_cases hd : (a.isDefault && a.isCpp) = true
      · simp only [hd, if_true, Option.some.injEq] at h1
        simp only [Bool.and_eq_true] at hd
        exact Or.inr ⟨a, List.mem_cons_self .., hd.2, h1⟩
      · simp only [hd] at h1
        exact Or.inl (by simpa using h1)
    · exact Or.inr ⟨b, List.mem_cons_of_mem _ hb, hbc, hbt⟩

theorem defaultsOf_mem (levels : List (List Attr)) (t : List Char)
    (h : defaultsOf levels = some t) : ∃ a ∈ levels.flatten, a.isCpp = true ∧ a.text = t := by
  unfold defaultsOf at h
  have key : ∀ (inh : Option (List Char)) (ls : List (List Attr)),
      ls.foldl gatherDefault inh = some t →
        inh = some t ∨ ∃ a ∈ ls.flatten, a.isCpp = true ∧ a.text = t := by
    intro inh ls
    induction ls generalizing inh with
    | nil => intro h; exact Or.inl h
    | cons l ls ih =>
      intro h
      simp only [List.foldl_cons] at h
      rcases ih _ h with h1 | ⟨a, ha, hac, hat⟩
      · rcases gatherDefault_mem inh l t h1 with h2 | ⟨a, ha, hac, hat⟩
        · exact Or.inl h2
        · exact Or.inr ⟨a, by simp [ha], hac, hat⟩
      · exact Or.inr ⟨a, by simp only [List.flatten_cons, List.mem_append]; exact Or.inr ha, hac, hat⟩
  rcases key none levels h with h1 | h1
  · cases h1
  · exact h1

/-- Every `enum_case` text that takes effect at a value was verified. -/
theorem effective_verified (d : Def) (hver : d.attrsVerified = true) (v : Value) (hv : v ∈ d.values)
    (t : List Char) (ht : effectiveCase v.attrs (defaultsOf d.levels) = .cases t) :
    verifyCases t = true := by
  simp only [Def.attrsVerified, List.all_eq_true, List.mem_append, List.mem_flatMap] at hver
  unfold effectiveCase at ht
  split at ht
  · split at ht
    · cases ht
    · rename_i t' hd
      cases ht
      obtain ⟨a, ha, hac, hat⟩ := defaultsOf_mem _ _ hd
      rw [← hat]
      have := hver a (Or.inl ha)
      simpa [hac] using this
  · rename_i a hf
    cases ht
    have : a ∈ v.attrs.filter (fun a => !a.isDefault && a.isCpp) := by
      rw [hf]; exact List.mem_cons_self ..
    have hm := List.mem_filter.mp this
    have hac : a.isCpp = true := by
      have := hm.2; simp only [Bool.and_eq_true] at this; exact this.2
    have := hver a (Or.inr ⟨v, hv, hm.1⟩)
    simpa [hac] using this
  · cases ht

end Emboss.Enum
