/- Helper lemmas for C19/C07: when are the enumerator identifiers pairwise distinct? -/
import Emboss.Lemmas.EnumGen
namespace Emboss.Enum
open Emboss.CppInt

theorem mapM_option_mem {α β : Type} (f : α → Option β) (l : List α) (r : List β)
    (h : l.mapM f = some r) : ∀ y ∈ r, ∃ a ∈ l, f a = some y := by
  induction l generalizing r with
  | nil => simp at h; subst h; intro y hy; cases hy
  | cons a as ih =>
    simp only [List.mapM_cons] at h
    cases hf : f a with
    | none => simp [hf] at h
    | some b =>
      cases hr : as.mapM f with
      | none => simp [hf, hr] at h
      | some bs =>
        simp [hf, hr] at h
        subst h
        intro y hy
        rcases List.mem_cons.mp hy with rfl | hy'
        · exact ⟨a, List.mem_cons_self .., hf⟩
        · obtain ⟨c, hc, hfc⟩ := ih bs hr y hy'
          exact ⟨c, List.mem_cons_of_mem _ hc, hfc⟩

/-- Every spelling is the Emboss name itself or `k` + its CamelCase form. -/
theorem namesOf_mem (d : Def) (v : Value) (x : Name) (hx : x ∈ namesOf d v) :
    x = v.name ∨ x = 'k' :: snakeToCamel v.name := by
  unfold namesOf at hx
  cases he : enumeratorNames v.name (effectiveCase v.attrs (defaultsOf d.levels)) with
  | none => simp [he] at hx
  | some l =>
    simp only [he] at hx
    cases hc : effectiveCase v.attrs (defaultsOf d.levels) with
    | crash => simp [hc, enumeratorNames] at he
    | unset =>
      simp [hc, enumeratorNames] at he
      subst he
      simp at hx
      exact Or.inl hx
    | cases t =>
      simp only [hc, enumeratorNames] at he
      obtain ⟨c, _, hfc⟩ := mapM_option_mem _ _ _ he x hx
      cases hp : parseCase c with
      | none => simp [hp] at hfc
      | some k =>
        simp [hp] at hfc
        cases k with
        | shouty => exact Or.inl hfc.symm
        | kCamel => exact Or.inr hfc.symm

theorem enumerator_names_nodup (d : Def)
    (hnames : (d.values.map (·.name)).Nodup)
    (hshape : ∀ v ∈ d.values, ∃ c cs, v.name = c :: cs ∧ c ≠ 'k')
    (hspell : ∀ v ∈ d.values, (namesOf d v).Nodup)
    (hcamel : d.values.Pairwise (fun a b => snakeToCamel a.name ≠ snakeToCamel b.name)) :
    ((enumsOf (namesOf d) d.values).map (·.1)).Nodup := by
  have e : (enumsOf (namesOf d) d.values).map (·.1) = d.values.flatMap (namesOf d) := by
    simp [enumsOf, List.map_flatMap, Function.comp_def]
  rw [e]
  unfold List.Nodup
  rw [List.pairwise_flatMap]
  refine ⟨hspell, ?_⟩
  have hn : d.values.Pairwise (fun a b => a.name ≠ b.name) := List.pairwise_map.mp hnames
  have hboth := hn.and hcamel
  -- membership facts are needed too: strengthen with `Pairwise` over elements of the list
  refine (List.Pairwise.and_mem.mp hboth).imp ?_
  rintro a b ⟨ha, hb, hne, hcm⟩ x hx y hy hxy
  subst hxy
  obtain ⟨ca, csa, hsa, hka⟩ := hshape a ha
  obtain ⟨cb, csb, hsb, hkb⟩ := hshape b hb
  rcases namesOf_mem d a x hx with h1 | h1 <;> rcases namesOf_mem d b x hy with h2 | h2
  · exact hne (h1.symm.trans h2)
  · rw [h1, hsa] at h2; simp at h2; exact hka h2.1
  · rw [h2, hsb] at h1; simp at h1; exact hkb h1.1
  · rw [h1] at h2; simp at h2; exact hcm h2

end Emboss.Enum

namespace Emboss.Enum

theorem mapM_option_nodup {α β : Type} (f : α → Option β)
    (hinj : ∀ a b y, f a = some y → f b = some y → a = b) (l : List α) (r : List β)
    (h : l.mapM f = some r) (hn : l.Nodup) : r.Nodup := by
  induction l generalizing r with
  | nil => simp at h; subst h; exact List.nodup_nil
  | cons a as ih =>
    simp only [List.mapM_cons] at h
    cases hf : f a with
    | none => simp [hf] at h
    | some b =>
      cases hr : as.mapM f with
      | none => simp [hf, hr] at h
      | some bs =>
        simp [hf, hr] at h
        subst h
        have hn' := List.nodup_cons.mp hn
        refine List.nodup_cons.mpr ⟨?_, ih bs hr hn'.2⟩
        intro hb
        obtain ⟨c, hc, hfc⟩ := mapM_option_mem f as bs hr b hb
        have := hinj a c b hf hfc
        subst this
        exact hn'.1 hc

theorem parseCase_inj (c c' : List Char) (k : Case) (h : parseCase c = some k)
    (h' : parseCase c' = some k) : c = c' := by
  have hne : shoutyText ≠ kCamelText := by decide
  unfold parseCase at h h'
  by_cases h1 : c = shoutyText
  · by_cases h2 : c' = shoutyText
    · rw [h1, h2]
    · simp only [h1, if_true, Option.some.injEq] at h
      simp only [h2, if_false] at h'
      by_cases h4 : c' = kCamelText
      · simp only [h4, if_true, Option.some.injEq] at h'
        rw [← h] at h'; cases h'
      · simp [h4] at h'
  · simp only [h1, if_false] at h
    by_cases h3 : c = kCamelText
    · simp only [h3, if_true, Option.some.injEq] at h
      by_cases h2 : c' = shoutyText
      · simp only [h2, if_true, Option.some.injEq] at h'
        rw [← h] at h'; cases h'
      · simp only [h2, if_false] at h'
        by_cases h4 : c' = kCamelText
        · rw [h3, h4]
        · simp [h4] at h'
    · simp [h3] at h

/-- A verified `enum_case` text yields pairwise distinct spellings of a SHOUTY name. -/
theorem spellings_nodup (d : Def) (v : Value)
    (hshape : ∃ c cs, v.name = c :: cs ∧ c ≠ 'k')
    (hver : ∀ t, effectiveCase v.attrs (defaultsOf d.levels) = .cases t → verifyCases t = true) :
    (namesOf d v).Nodup := by
  unfold namesOf
  cases he : enumeratorNames v.name (effectiveCase v.attrs (defaultsOf d.levels)) with
  | none => exact List.nodup_nil
  | some l =>
    simp only
    cases hc : effectiveCase v.attrs (defaultsOf d.levels) with
    | crash => simp [hc, enumeratorNames] at he
    | unset => simp [hc, enumeratorNames] at he; subst he; simp
    | cases t =>
      have hv := hver t hc
      simp only [verifyCases, Bool.and_eq_true, decide_eq_true_eq] at hv
      simp only [hc, enumeratorNames] at he
      refine mapM_option_nodup _ ?_ _ _ he hv.1.2
      intro a b y ha hb
      obtain ⟨c, cs, hs, hk⟩ := hshape
      cases hpa : parseCase a with
      | none => simp [hpa] at ha
      | some ka =>
        cases hpb : parseCase b with
        | none => simp [hpb] at hb
        | some kb =>
          simp [hpa] at ha
          simp [hpb] at hb
          have : ka = kb := by
            cases ka <;> cases kb <;> simp [convertCase] at ha hb
            · rfl
            · rw [← ha, hs] at hb; simp at hb; exact absurd hb.1.symm hk
            · rw [← hb, hs] at ha; simp at ha; exact absurd ha.1.symm hk
            · rfl
          subst this
          exact parseCase_inj a b ka hpa hpb

end Emboss.Enum
