/-
C11 helper lemmas, part 11: the interned copy of the audited list of terminal pairs
decodes, position by position, to `allowedGlued`; pair codes are injective on small numbers.
-/
import Emboss.Spec.FmtGlueCert
namespace Emboss.Fmt

theorem alignedOK_sound (syms : List String) : ∀ (qs : List (String × String)) (ns : List (Option (Nat × Nat))),
    alignedOK syms qs ns = true → ∀ p, some p ∈ ns →
      ∃ a b, syms[p.1]? = some a ∧ syms[p.2]? = some b ∧ (a, b) ∈ qs := by
  intro qs
  induction qs with
  | nil =>
    intro ns h p hp
    cases ns with
    | nil => cases hp
    | cons n ns => cases n <;> simp [alignedOK] at h
  | cons q qs ih =>
    intro ns h p hp
    cases ns with
    | nil => cases hp
    | cons n ns =>
      cases n with
      | none =>
        simp only [alignedOK] at h
        have hp' : some p ∈ ns := by simpa using hp
        obtain ⟨a, b, ha, hb, hm⟩ := ih ns h p hp'
        exact ⟨a, b, ha, hb, List.mem_cons_of_mem _ hm⟩
      | some p0 =>
        simp only [alignedOK, Bool.and_eq_true, beq_iff_eq] at h
        rcases List.mem_cons.1 hp with hp' | hp'
        · cases hp'
          exact ⟨q.1, q.2, h.1.1, h.1.2, by simp⟩
        · obtain ⟨a, b, ha, hb, hm⟩ := ih ns h.2 p hp'
          exact ⟨a, b, ha, hb, List.mem_cons_of_mem _ hm⟩

/-- A pair whose code is among the codes of pairs with small second components is one of them. -/
theorem pairCode_mem (allowed : List (Nat × Nat)) (hsmall : ∀ q ∈ allowed, q.2 < 65536)
    (p : Nat × Nat) (hp : p.2 < 65536) (h : (allowed.map pairCode).contains (pairCode p) = true) :
    p ∈ allowed := by
  simp only [List.contains_iff_mem, List.mem_map] at h
  obtain ⟨q, hq, hc⟩ := h
  have h2 := hsmall q hq
  have : q = p := by
    unfold pairCode at hc
    have h1 : q.1 = p.1 := by omega
    have h3 : q.2 = p.2 := by omega
    exact Prod.ext h1 h3
  rw [← this]; exact hq

end Emboss.Fmt
