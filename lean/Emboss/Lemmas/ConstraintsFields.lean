/-
C14 lemmas, part 2: the per-field checks of `_verify_attributes_on_ir` and
`check_constraints` against `PhysFieldOK`.
-/
import Emboss.Lemmas.ConstraintsAttrs
namespace Emboss.Constraints
open Emboss.Generated

theorem mayNull_iff (p : Program) (t : TypeInfo) (f : Field) :
    mayNull p t f = true ↔ OneUnit p t f := by
  simp [mayNull, OneUnit]

theorem mayNull_false_iff (p : Program) (t : TypeInfo) (f : Field) :
    mayNull p t f = false ↔ ¬ OneUnit p t f := by
  rw [← mayNull_iff]; simp

theorem verifyByteOrder_nil (p : Program) (d : Option AVal) (t : TypeInfo) (f : Field)
    (rt : TypeInfo) (hv : f.isVirtual = false) (hrt : findType p f.ty.leaf.1 = some rt) :
    verifyByteOrder p d t f = [] ↔
      ((effUnit rt = effUnit t → getAttr f.attrs "byte_order" = none) ∧
       (effUnit rt ≠ effUnit t →
        (∃ v, getAttr f.attrs "byte_order" = some v ∧ (v = .str "Null" → OneUnit p t f)) ∨
        (getAttr f.attrs "byte_order" = none ∧ ∃ v, d = some v ∧ (v = .str "Null" → OneUnit p t f)) ∨
        (getAttr f.attrs "byte_order" = none ∧ d = none ∧ OneUnit p t f))) := by
  have hn : needsByteOrder p t f = some (decide (effUnit rt ≠ effUnit t)) := by
    simp [needsByteOrder, hv, hrt]
  unfold verifyByteOrder
  rw [hn]
  simp only [effByteOrder, hn]
  by_cases hu : effUnit rt = effUnit t
  · cases ho : getAttr f.attrs "byte_order" <;> simp [hu]
  · cases ho : getAttr f.attrs "byte_order" with
    | some v =>
      by_cases h1 : OneUnit p t f
      · simp [hu, (mayNull_iff p t f).2 h1, h1]
      · simp [hu, (mayNull_false_iff p t f).2 h1, h1]
    | none =>
      cases d with
      | some v =>
        by_cases h1 : OneUnit p t f
        · simp [hu, (mayNull_iff p t f).2 h1, h1]
        · simp [hu, (mayNull_false_iff p t f).2 h1, h1]
      | none =>
        by_cases h1 : OneUnit p t f
        · simp [hu, (mayNull_iff p t f).2 h1, h1]
        · simp [hu, (mayNull_false_iff p t f).2 h1, h1]

theorem verifyRequires_phys_nil (p : Program) (f : Field) (rt : TypeInfo)
    (hv : f.isVirtual = false) (hrt : findType p f.ty.leaf.1 = some rt) :
    verifyRequires p f = [] ↔
      (getAttr f.attrs "requires" ≠ none → f.ty.isAtomic = true ∧ physKind rt ≠ .other) := by
  unfold verifyRequires
  cases ho : getAttr f.attrs "requires" with
  | none => simp
  | some v =>
    simp only [hv, Bool.false_eq_true, ↓reduceIte]
    cases hty : f.ty with
    | array b l => simp [Ty.isAtomic]
    | atomic r s =>
      have : findType p r = some rt := by simpa [hty, Ty.leaf] using hrt
      simp [this, Ty.isAtomic]

theorem verifyRequires_virt_nil (p : Program) (f : Field) (hv : f.isVirtual = true) :
    verifyRequires p f = [] ↔ (getAttr f.attrs "requires" ≠ none → f.vkind ≠ .other) := by
  unfold verifyRequires
  cases ho : getAttr f.attrs "requires" <;> simp [hv]

theorem allowedInBits_nil (p : Program) (t : TypeInfo) (f : Field) (rt : TypeInfo)
    (hrt : findType p f.ty.leaf.1 = some rt) :
    allowedInBits p t f = [] ↔ (effUnit rt ≠ .none ∧ (effUnit t = .bit → effUnit rt ≠ .byte)) := by
  unfold allowedInBits
  simp only [hrt]
  generalize effUnit rt = u1
  generalize effUnit t = u2
  cases u1 <;> cases u2 <;> simp [AUnit.bits]

theorem physReq_nil (rt : TypeInfo) (size : Option Int) :
    physReq rt size = [] ↔ WidthOK rt size := by
  unfold physReq WidthOK
  cases hk : rt.kind with
  | enum vs =>
    cases size with
    | none => simp
    | some s =>
      by_cases hr : s < 1 ∨ s > effMaxBits rt
      · simp only [hr, ↓reduceIte]
        simp
        intro h1 h2
        omega
      · simp only [hr, ↓reduceIte]
        have hr' : 1 ≤ s ∧ s ≤ effMaxBits rt := by omega
        cases ha : getAttr rt.attrs "static_requirements" with
        | none => simp [hr']
        | some v => cases v <;> simp [hr']
  | external =>
    cases ha : getAttr rt.attrs "static_requirements" with
    | none => simp
    | some v => cases v <;> simp
  | «structure» fs =>
    cases ha : getAttr rt.attrs "static_requirements" with
    | none => simp
    | some v => cases v <;> simp

theorem arrayChecks_nil (p : Program) (t : TypeInfo) : ∀ (ty : Ty) (outer : Bool),
    arrayChecks p t outer ty = [] ↔
      ((ty.isAtomic = false →
          ∃ sz, leafFixedSize p ty.leaf = some sz ∧ sz % (effUnit t).bits = 0) ∧
       (∀ l ∈ (if outer then ty.dims.tail else ty.dims), l.isConst)) := by
  intro ty
  induction ty with
  | atomic r s => intro outer; simp [arrayChecks, Ty.isAtomic, Ty.dims]
  | array base len ih =>
    intro outer
    cases base with
    | atomic r s =>
      cases hl : leafFixedSize p (r, s) <;> cases outer <;> cases len <;>
        simp [arrayChecks, Ty.isAtomic, Ty.leaf, Ty.dims, Len.isConst, hl]
    | array b' l' =>
      have ih' := ih false
      simp only [Ty.isAtomic, forall_const, Bool.false_eq_true, ↓reduceIte] at ih'
      unfold arrayChecks
      simp only [List.append_eq_nil_iff, ih', Ty.isAtomic, Ty.leaf, forall_const]
      cases outer <;> cases len <;> simp [Ty.dims, Len.isConst]

theorem fitsChain (a b e : Int) (anon : Bool) (X : List EK) (Q W : Prop) (hq : Q ↔ a = b)
    (hX : X = [] ↔ W) :
    (if b = a ∧ (b < e ∨ e < a ∧ anon = false) then [EK.fixedWrongField]
      else if b < e then [EK.fieldTooSmall] else X) = [] ↔
    ((e ≤ b ∧ (Q → anon = false → e = b)) ∧ W) := by
  rw [hq, ← hX]
  by_cases h1 : b = a ∧ (b < e ∨ e < a ∧ anon = false)
  · rw [if_pos h1]
    constructor
    · intro h; cases h
    · rintro ⟨⟨h2, h3⟩, _⟩
      exfalso
      rcases h1 with ⟨h1, h4 | ⟨h4, h5⟩⟩
      · omega
      · have := h3 h1.symm h5; omega
  · rw [if_neg h1]
    by_cases h2 : b < e
    · rw [if_pos h2]
      constructor
      · intro h; cases h
      · rintro ⟨⟨h3, _⟩, _⟩; omega
    · rw [if_neg h2]
      constructor
      · intro hx
        refine ⟨⟨by omega, fun hab han => ?_⟩, hx⟩
        by_cases h3 : e < a
        · exact absurd ⟨hab.symm, Or.inr ⟨h3, han⟩⟩ h1
        · omega
      · exact fun h => h.2

theorem typeReq_nil_atomic (p : Program) (t : TypeInfo) (f : Field) (rt : TypeInfo) (r : Nat) (s : Option Int)
    (hty : f.ty = .atomic r s)
    (hrt : findType p r = some rt)
    (hu : effUnit t = .bit ∨ effUnit t = .byte)
    (mn mx : Int) (hmn : f.sizeMin = .fin mn) (hmx : f.sizeMax = .fin mx) :
    typeReq p t f = [] ↔
      ((∀ e ts, s = some e → effFixedSize rt = some ts → e = ts) ∧
       (∀ e, (s = some e ∨ (s = none ∧ effFixedSize rt = some e)) →
          e ≤ mx * (effUnit t).bits ∧ (mn = mx → rt.anonymous = false → e = mx * (effUnit t).bits)) ∧
       WidthOK rt (staticElemSize t rt f)) := by
  unfold typeReq staticElemSize
  simp only [hty, Ty.leaf, hrt, Ty.isAtomic, ↓reduceIte, hmn, hmx, Bound.fin?]
  have h8 : mn = mx ↔ mn * 8 = mx * 8 := by omega
  have h1 : mn = mx ↔ mn = mx := Iff.rfl
  rcases hu with hu | hu <;> simp only [hu, AUnit.bits] <;>
  cases s <;> cases hts : effFixedSize rt <;> simp [physReq_nil]
  · exact fitsChain mn mx _ _ _ _ _ h1 (physReq_nil _ _)
  · exact fitsChain mn mx _ _ _ _ _ h1 (physReq_nil _ _)
  · rename_i e ts
    by_cases he : e = ts
    · simp only [he, ↓reduceIte, true_and]; exact fitsChain mn mx _ _ _ _ _ h1 (physReq_nil _ _)
    · simp [he]
  · have : (mn * 8 = mx * 8) = (mn = mx) := by rw [h8]
    simp only [this]
  · exact fitsChain (mn * 8) (mx * 8) _ _ _ _ _ h8 (physReq_nil _ _)
  · exact fitsChain (mn * 8) (mx * 8) _ _ _ _ _ h8 (physReq_nil _ _)
  · rename_i e ts
    by_cases he : e = ts
    · simp only [he, ↓reduceIte, true_and]; exact fitsChain (mn * 8) (mx * 8) _ _ _ _ _ h8 (physReq_nil _ _)
    · simp [he]

theorem typeReq_nil_array (p : Program) (t : TypeInfo) (f : Field) (rt : TypeInfo)
    (hty : f.ty.isAtomic = false) (hrt : findType p f.ty.leaf.1 = some rt) :
    typeReq p t f = [] ↔
      ((∀ e ts, f.ty.leaf.2 = some e → effFixedSize rt = some ts → e = ts) ∧
       WidthOK rt (staticElemSize t rt f)) := by
  unfold typeReq staticElemSize
  simp only [hrt, hty, Bool.false_eq_true, ↓reduceIte]
  cases hs : f.ty.leaf.2 <;> cases hts : effFixedSize rt <;> simp [physReq_nil]
  rename_i e ts
  by_cases he : e = ts <;> simp [he, physReq_nil]

theorem physField_iff (p : Program) (d : Option AVal) (t : TypeInfo) (f : Field) (rt : TypeInfo)
    (hv : f.isVirtual = false) (hrt : findType p f.ty.leaf.1 = some rt)
    (hu : effUnit t = .bit ∨ effUnit t = .byte)
    (hb : f.ty.isAtomic = true → ∃ mn mx, f.sizeMin = .fin mn ∧ f.sizeMax = .fin mx) :
    (verifyByteOrder p d t f = [] ∧ verifyRequires p f = [] ∧ allowedInBits p t f = [] ∧
      arrayChecks p t true f.ty = [] ∧ typeReq p t f = []) ↔ PhysFieldOK p d t f rt := by
  rw [verifyByteOrder_nil p d t f rt hv hrt, verifyRequires_phys_nil p f rt hv hrt,
    allowedInBits_nil p t f rt hrt, arrayChecks_nil]
  simp only [↓reduceIte]
  cases hty : f.ty with
  | atomic r s =>
    obtain ⟨mn, mx, hmn, hmx⟩ := hb (by simp [hty, Ty.isAtomic])
    have hrt' : findType p r = some rt := by simpa [hty, Ty.leaf] using hrt
    rw [typeReq_nil_atomic p t f rt r s hty hrt' hu mn mx hmn hmx]
    constructor
    · rintro ⟨⟨b1, b2⟩, rq, ⟨u1, u2⟩, ⟨_, a2⟩, e1, e2, w⟩
      refine ⟨u1, u2, ?_, ?_, ?_, ?_, w, b1, b2, ?_⟩
      · simp [hty, Ty.isAtomic]
      · simpa [hty] using a2
      · intro e ts h1 h2; exact e1 e ts (by simpa [hty, Ty.leaf] using h1) h2
      · intro _ mn' mx' e h1 h2 h3
        have : mn' = mn := by rw [hmn] at h1; cases h1; rfl
        have : mx' = mx := by rw [hmx] at h2; cases h2; rfl
        subst_vars
        exact e2 e (by simpa [hty, Ty.leaf] using h3)
      · simpa [hty] using rq
    · intro h
      refine ⟨⟨h.noByteOrder, h.byteOrder⟩, ?_, ⟨h.hasUnit, h.noByteInBits⟩, ⟨?_, ?_⟩, ?_, ?_, h.width⟩
      · simpa [hty] using h.requiresPlace
      · simp [Ty.isAtomic]
      · simpa [hty] using h.innerConst
      · intro e ts h1 h2; exact h.explicitMatches e ts (by simpa [hty, Ty.leaf] using h1) h2
      · intro e h1
        exact h.fits (by simp [hty, Ty.isAtomic]) mn mx e hmn hmx (by simpa [hty, Ty.leaf] using h1)
  | array b l =>
    have hat : f.ty.isAtomic = false := by simp [hty, Ty.isAtomic]
    rw [typeReq_nil_array p t f rt hat hrt]
    constructor
    · rintro ⟨⟨b1, b2⟩, rq, ⟨u1, u2⟩, ⟨a1, a2⟩, e1, w⟩
      refine ⟨u1, u2, ?_, ?_, e1, ?_, w, b1, b2, ?_⟩
      · intro _; simpa [hty] using a1 (by simp [Ty.isAtomic])
      · simpa [hty] using a2
      · intro h; rw [hat] at h; cases h
      · simpa [hty] using rq
    · intro h
      refine ⟨⟨h.noByteOrder, h.byteOrder⟩, ?_, ⟨h.hasUnit, h.noByteInBits⟩, ⟨?_, ?_⟩,
        h.explicitMatches, h.width⟩
      · simpa [hty] using h.requiresPlace
      · intro _; simpa [hty] using h.elemFixed hat
      · simpa [hty] using h.innerConst

end Emboss.Constraints
