/-
C18 (round 2) helper lemmas for the JSON text layer, part 1: leaves.
`parseStrBody` inverts `renderStr`; `parseIntPrefix` inverts `intChars` in front of a
non-number character.
-/
import Emboss.Model.JsonText
import Emboss.Lemmas.JsonLoc
namespace Emboss.Json

/-! ## hex digits -/

theorem hexVal_hexDigit : ∀ n : Fin 16, hexVal (hexDigit n.val) = some n.val := by decide

theorem hex4_digits (n : Nat) (h : n < 65536) :
    hex4 (hexDigit (n / 4096 % 16)) (hexDigit (n / 256 % 16)) (hexDigit (n / 16 % 16))
      (hexDigit (n % 16)) = some n := by
  have e (k : Nat) (hk : k < 16) : hexVal (hexDigit k) = some k := hexVal_hexDigit ⟨k, hk⟩
  have e1 := e (n / 4096 % 16) (Nat.mod_lt _ (by decide))
  have e2 := e (n / 256 % 16) (Nat.mod_lt _ (by decide))
  have e3 := e (n / 16 % 16) (Nat.mod_lt _ (by decide))
  have e4 := e (n % 16) (Nat.mod_lt _ (by decide))
  simp only [hex4, e1, e2, e3, e4]
  congr 1
  omega

/-! ## scanning one rendered character -/

/-- UTF-16 code units `json.dumps(ensure_ascii=True)` writes for `c` (code point itself in the BMP). -/
def unitsOf (c : Char) : List Nat :=
  if c.toNat < 65536 then [c.toNat]
  else [55296 + (c.toNat - 65536) / 1024 % 1024, 56320 + (c.toNat - 65536) % 1024]

theorem scanStr_u (a b c d : Char) (tail : List Char) :
    scanStr ('\\' :: 'u' :: a :: b :: c :: d :: tail) =
      match hex4 a b c d with
      | some n => consUnit n (scanStr tail)
      | none => none := by
  rw [scanStr.eq_def]
  simp only [Char.reduceEq, if_false, if_true, reduceIte]
  cases hex4 a b c d <;> rfl

theorem scanStr_esc (e : Char) (tail : List Char) (n : Nat) (he : e ≠ 'u')
    (h : simpleEsc e = some n) : scanStr ('\\' :: e :: tail) = consUnit n (scanStr tail) := by
  rw [scanStr.eq_def]
  simp [he, h]

theorem scanStr_plain (c : Char) (tail : List Char) (h1 : c ≠ '"') (h2 : c ≠ '\\')
    (h3 : 32 ≤ c.toNat) : scanStr (c :: tail) = consUnit c.toNat (scanStr tail) := by
  have h4 : ¬ c.toNat < 32 := by omega
  rw [scanStr.eq_def]
  simp [h1, h2, h4]

theorem scanStr_u4 (n : Nat) (h : n < 65536) (tail : List Char) :
    scanStr (u4 n ++ tail) = consUnit n (scanStr tail) := by
  simp only [u4, List.cons_append, List.nil_append, scanStr_u, hex4_digits n h]

theorem scanStr_escChar (c : Char) (tail : List Char) :
    scanStr (escChar c ++ tail) = (unitsOf c).foldr consUnit (scanStr tail) := by
  unfold escChar
  split
  · next h => subst h; exact scanStr_esc _ _ _ (by decide) (by decide)
  split
  · next h => subst h; exact scanStr_esc _ _ _ (by decide) (by decide)
  split
  · next h => subst h; exact scanStr_esc _ _ _ (by decide) (by decide)
  split
  · next h => subst h; exact scanStr_esc _ _ _ (by decide) (by decide)
  split
  · next h => subst h; exact scanStr_esc _ _ _ (by decide) (by decide)
  split
  · next h =>
    have : unitsOf c = [8] := by simp [unitsOf, h]
    rw [this]
    exact scanStr_esc _ _ _ (by decide) (by decide)
  split
  · next h =>
    have : unitsOf c = [12] := by simp [unitsOf, h]
    rw [this]
    exact scanStr_esc _ _ _ (by decide) (by decide)
  split
  · next h1 h2 _ _ _ _ _ h =>
    simp only [Bool.and_eq_true, decide_eq_true_eq] at h
    have : unitsOf c = [c.toNat] := by
      have : c.toNat < 65536 := by omega
      simp [unitsOf, this]
    rw [this]
    exact scanStr_plain c tail h1 h2 h.1
  split
  · next h =>
    have : unitsOf c = [c.toNat] := by simp [unitsOf, h]
    rw [this]
    exact scanStr_u4 _ h tail
  · next h =>
    have hu : unitsOf c = [55296 + (c.toNat - 65536) / 1024 % 1024, 56320 + (c.toNat - 65536) % 1024] := by
      simp [unitsOf, h]
    rw [hu]
    simp only [List.append_assoc, List.foldr_cons, List.foldr_nil]
    rw [scanStr_u4 _ (by omega), scanStr_u4 _ (by omega)]

theorem foldr_consUnit (us xs : List Nat) (rest : List Char) :
    us.foldr consUnit (some (xs, rest)) = some (us ++ xs, rest) := by
  induction us with
  | nil => rfl
  | cons u us ih => simp [List.foldr_cons, ih, consUnit]

theorem scanStr_render (l : List Char) (rest : List Char) :
    scanStr (l.flatMap escChar ++ '"' :: rest) = some (l.flatMap unitsOf, rest) := by
  induction l with
  | nil =>
    rw [List.flatMap_nil, List.nil_append, scanStr.eq_def]
    simp
  | cons c l ih =>
    rw [List.flatMap_cons, List.append_assoc, scanStr_escChar, ih, foldr_consUnit, List.flatMap_cons]

/-! ## joining the units -/

theorem char_range (c : Char) : c.toNat < 55296 ∨ (57343 < c.toNat ∧ c.toNat < 1114112) := by
  have h : c.val.toNat.isValidChar := c.valid
  unfold Nat.isValidChar at h
  exact h

theorem consChar_some (n : Nat) (cs : List Char) : consChar n (some cs) = some (Char.ofNat n :: cs) := rfl

theorem joinUnits_unitsOf (c : Char) (us : List Nat) (cs : List Char) (h : joinUnits us = some cs) :
    joinUnits (unitsOf c ++ us) = some (c :: cs) := by
  have hr := char_range c
  unfold unitsOf
  split
  · next hlt =>
    have a1 : ¬ (55296 ≤ c.toNat ∧ c.toNat < 56320) := by omega
    have a2 : ¬ (56320 ≤ c.toNat ∧ c.toNat < 57344) := by omega
    have a3 : c.toNat < 1114112 := by omega
    rw [List.singleton_append, joinUnits.eq_def]
    simp [a1, a2, a3, h, consChar, Char.ofNat_toNat]
  · next hge =>
    have b1 : 55296 ≤ 55296 + (c.toNat - 65536) / 1024 % 1024 ∧
        55296 + (c.toNat - 65536) / 1024 % 1024 < 56320 := by omega
    have b2 : 56320 ≤ 56320 + (c.toNat - 65536) % 1024 ∧ 56320 + (c.toNat - 65536) % 1024 < 57344 := by omega
    have b3 : 65536 + (c.toNat - 65536) / 1024 % 1024 * 1024 + (c.toNat - 65536) % 1024 = c.toNat := by omega
    rw [List.cons_append, List.singleton_append, joinUnits.eq_def]
    simp [b1, b2, b3, h, consChar, Char.ofNat_toNat]

theorem joinUnits_render (l : List Char) : joinUnits (l.flatMap unitsOf) = some l := by
  induction l with
  | nil => rfl
  | cons c l ih =>
    simp only [List.flatMap_cons]
    exact joinUnits_unitsOf c _ _ ih

theorem parseStrBody_render (s : String) (rest : List Char) :
    parseStrBody (s.toList.flatMap escChar ++ '"' :: rest) = some (s, rest) := by
  simp [parseStrBody, scanStr_render, joinUnits_render]

/-! ## integers -/

theorem intCh_of_mem_intChars {i : Int} {c : Char} (h : c ∈ intChars i) : intCh c = true := by
  cases i with
  | ofNat n =>
    simp only [intChars] at h
    simp [intCh, isDigit_of_mem_natChars h]
  | negSucc n =>
    simp only [intChars, List.mem_cons] at h
    rcases h with h | h
    · subst h; decide
    · simp [intCh, isDigit_of_mem_natChars h]

theorem intChars_ne_nil (i : Int) : intChars i ≠ [] := by
  cases i with
  | ofNat n => exact natChars_ne_nil n
  | negSucc n => simp [intChars]

/-- What may follow a value in a rendered text: nothing, `,`, `]` or `}` — in particular
no character a number could continue with. -/
def Stop (rest : List Char) : Prop := ∀ c ∈ rest.head?, intCh c = false

theorem takeWhile_intChars (i : Int) (rest : List Char) (h : Stop rest) :
    (intChars i ++ rest).takeWhile intCh = intChars i ∧ (intChars i ++ rest).dropWhile intCh = rest := by
  have hall : ∀ c ∈ intChars i, intCh c = true := fun c hc => intCh_of_mem_intChars hc
  have hr : rest.takeWhile intCh = [] ∧ rest.dropWhile intCh = rest := by
    cases rest with
    | nil => simp
    | cons r rs =>
      have : intCh r = false := h r (by simp)
      simp [this]
  constructor
  · rw [List.takeWhile_append_of_pos hall, hr.1, List.append_nil]
  · rw [List.dropWhile_append_of_pos hall, hr.2]

theorem parseIntPrefix_render (i : Int) (rest : List Char) (h : Stop rest) :
    parseIntPrefix (intChars i ++ rest) = some (i, rest) := by
  obtain ⟨h1, h2⟩ := takeWhile_intChars i rest h
  simp [parseIntPrefix, h1, h2, parseInt_intChars]

end Emboss.Json
