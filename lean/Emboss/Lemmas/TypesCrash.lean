import Emboss.Lemmas.TypesIff
namespace Emboss.Types

theorem orCrash_some {a b : Option Crash} {c : Crash} (h : orCrash a b = some c) : a = some c ∨ b = some c := by
  cases a <;> simp_all [orCrash]

theorem bin_crash {l op a b} {c : Crash} (h : (tc (.bin l op a b)).crash = some c) :
    (∃ k, (tc a).crash = some k) ∨ (∃ k, (tc b).crash = some k) ∨
      (op.isCmp = true ∧ ((tc a).ty = .absent ∨ (tc b).ty = .absent)) := by
  simp only [tc] at h
  repeat' split at h
  all_goals simp only at h
  all_goals (have h' := orCrash_some h)
  all_goals (try (rcases h' with h' | h'))
  all_goals (try (have h'' := orCrash_some h'))
  all_goals grind

theorem choice_crash {l c t f} {k : Crash} (h : (tc (.choice l c t f)).crash = some k) :
    (∃ k, (tc c).crash = some k) ∨ (∃ k, (tc t).crash = some k) ∨ (∃ k, (tc f).crash = some k) ∨
      ((tc c).ty = .absent ∨ (tc t).ty = .absent ∨ (tc f).ty = .absent) := by
  simp only [tc] at h
  repeat' split at h
  all_goals simp only at h
  all_goals (have h' := orCrash_some h)
  all_goals (try (rcases h' with h' | h'))
  all_goals (try (have h'' := orCrash_some h'))
  all_goals (try (rcases h'' with h'' | h''))
  all_goals (try (have h3 := orCrash_some h''))
  all_goals grind

mutual
theorem tc_crash (e : Expr) : ∀ k, (tc e).crash = some k → CrashForm e :=
  match e with
  | .num _ | .boolc _ | .enumv _ _ | .cphys _ _ | .lparam _ _ | .lphys _ _ | .builtin _ _ => by
    intro k h; simp [tc, Res.pure] at h
  | .cother _ => fun _ _ => .cother
  | .lparamArr _ => fun _ _ => .lparamArr
  | .cvirt l d => by
    intro k h; simp only [tc] at h; exact .cvirt (tc_crash d k h)
  | .lvirt l d => by
    intro k h; simp only [tc] at h; exact .lvirt (tc_crash d k h)
  | .bin l op a b => by
    intro k h
    rcases bin_crash h with ⟨k', h'⟩ | ⟨k', h'⟩ | ⟨hc, h' | h'⟩
    · exact .binL (tc_crash a k' h')
    · exact .binR (tc_crash b k' h')
    · exact .cmpAbsentL hc h'
    · exact .cmpAbsentR hc h'
  | .choice l c t f => by
    intro k h
    rcases choice_crash h with ⟨k', h'⟩ | ⟨k', h'⟩ | ⟨k', h'⟩ | h'
    · exact .chC (tc_crash c k' h')
    · exact .chT (tc_crash t k' h')
    · exact .chF (tc_crash f k' h')
    · exact .chAbsent h'
  | .fn l f args => by
    intro k h
    simp only [tc] at h
    obtain ⟨a, ha, h'⟩ := tcList_crash args k h
    exact .arg ha h'
theorem tcList_crash (es : List Expr) : ∀ k, (tcList es).crash = some k →
    ∃ a ∈ es, CrashForm a :=
  match es with
  | [] => by intro k h; simp [tcList] at h
  | e :: es => by
    intro k h
    simp only [tcList] at h
    rcases orCrash_some h with h | h
    · exact ⟨e, by simp, tc_crash e k h⟩
    · obtain ⟨a, ha, h'⟩ := tcList_crash es k h
      exact ⟨a, by simp [ha], h'⟩
end

end Emboss.Types
