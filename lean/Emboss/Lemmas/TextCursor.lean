/-
Helper lemmas for C06 (reader ∘ writer): a *cursor* `At r k ps` says that the reader, positioned
at the character list `r`, sees exactly the well separated piece list `ps` (written after a piece
of kind `k`) — up to the white space and comments `DiscardWhitespace` drops.  Every entry point
of the reader model (`readToken`, the peeks of `readElems`) starts with `discardWs false`, so
a cursor is all a reader function needs to know.  Step lemmas: skipping non-token pieces,
reading a word, reading a punctuation character.
-/
import Emboss.Lemmas.TextWrite
namespace Emboss.Text

structure At (r : List Char) (k : Kind) (ps : List Piece) : Prop where
  ws : WellSep k ps
  sees : discardWs false r = discardWs (decide (k = .comment)) (render ps)

theorem discardWs_idem : ∀ (s : List Char) (ic : Bool),
    discardWs false (discardWs ic s) = discardWs ic s := by
  intro s
  induction s with
  | nil => intro ic; rfl
  | cons c cs ih =>
    intro ic
    by_cases hn : c = '\r' ∨ c = '\n'
    · have hsp : isSpace c = true := by rcases hn with rfl | rfl <;> decide
      simp only [discardWs, hn, if_true, hsp, Bool.or_true]
      exact ih false
    · by_cases hh : c = '#'
      · subst hh
        simp only [discardWs, hn, if_false, if_true, Bool.true_or]
        exact ih true
      · cases ic with
        | true =>
          simp only [discardWs, hn, hh, if_false, Bool.true_or, if_true]
          exact ih true
        | false =>
          by_cases hsp : isSpace c = true
          · simp only [discardWs, hn, hh, if_false, hsp, Bool.or_true, if_true]
            exact ih false
          · have hsp' : isSpace c = false := by simpa using hsp
            have : discardWs false (c :: cs) = c :: cs := discardWs_nondelim c cs hsp' hh
            rw [this, this]

theorem At.of_discard {r : List Char} {k : Kind} {ps : List Piece} (h : At r k ps) :
    At (discardWs false r) k ps :=
  ⟨h.ws, by rw [discardWs_idem]; exact h.sees⟩

theorem At.start {k : Kind} {ps : List Piece} (h : WellSep k ps) (hk : k ≠ .comment) :
    At (render ps) k ps := ⟨h, by simp [hk]⟩

theorem At.skip_space {r : List Char} {k : Kind} {s : List Char} {ps : List Piece}
    (h : At r k (.space s :: ps)) : At r .other ps := by
  obtain ⟨⟨hv, hok, hrest⟩, hs⟩ := h
  refine ⟨hrest, ?_⟩
  have hsv : ∀ c ∈ s, isSpace c = true := hv
  rw [hs]
  simp only [render, Piece.render]
  cases k with
  | comment =>
    cases s with
    | nil => exact absurd hok (by simp [OkAfter])
    | cons c s =>
      have hc : c = '\n' ∨ c = '\r' := hok
      simpa using discardWs_newline c s (render ps) hc (fun c hc => hsv c (by simp [hc]))
  | word => simpa using discardWs_space s (render ps) hsv
  | other => simpa using discardWs_space s (render ps) hsv

theorem At.skip_comment {r : List Char} {k : Kind} {b : List Char} {ps : List Piece}
    (h : At r k (.comment b :: ps)) : At r .comment ps := by
  obtain ⟨⟨hv, hok, hrest⟩, hs⟩ := h
  refine ⟨hrest, ?_⟩
  have hbv : ∀ c ∈ b, c ≠ '\n' ∧ c ≠ '\r' := hv
  have hk : k ≠ .comment := by
    intro h; subst h; exact absurd hok (by simp [OkAfter])
  rw [hs]
  simp only [render, Piece.render, hk, decide_false]
  simpa using discardWs_comment b (render ps) hbv

/-- Skipping a run of white space / comment pieces. -/
theorem At.skip {r : List Char} : ∀ (a : List Piece) {k : Kind} {ps : List Piece}, toks a = [] →
    At r k (a ++ ps) → At r (lastKind k a) ps := by
  intro a
  induction a with
  | nil => intro k ps _ h; exact h
  | cons p a ih =>
    intro k ps ht h
    cases p with
    | word w => simp [toks] at ht
    | punct c => simp [toks] at ht
    | space s =>
      have := ih (k := .other) (ps := ps) (by simpa [toks] using ht) h.skip_space
      simpa [lastKind, Piece.kind] using this
    | comment b =>
      have := ih (k := .comment) (ps := ps) (by simpa [toks] using ht) h.skip_comment
      simpa [lastKind, Piece.kind] using this

theorem readToken_congr (r s : List Char) (ic : Bool) (h : discardWs false r = discardWs ic s) :
    readToken r = readTokenFrom ic s := by
  simp only [readToken, readTokenFrom, h]

/-- Reading a punctuation piece. -/
theorem At.punct {r : List Char} {k : Kind} {c : Char} {ps : List Piece}
    (h : At r k (.punct c :: ps)) :
    readToken r = ([c], render ps) ∧ discardWs false r = c :: render ps ∧ At (render ps) .other ps := by
  obtain ⟨⟨hv, hok, hrest⟩, hs⟩ := h
  have hk : k ≠ .comment := by
    intro h; subst h; exact absurd hok (by simp [OkAfter])
  have hcv : isPunct c = true := hv
  have h1 : isSpace c = false := by
    simp only [isPunct, Bool.or_eq_true, decide_eq_true_eq] at hcv
    rcases hcv with ((((rfl | rfl) | rfl) | rfl) | rfl) | rfl <;> decide
  have h2 : c ≠ '#' := by
    intro h; subst h; simp [isPunct] at hcv
  simp only [hk, decide_false, render, Piece.render, List.singleton_append] at hs
  refine ⟨?_, ?_, At.start hrest (by simp)⟩
  · rw [readToken_congr r _ false hs]; exact readToken_punct c (render ps) hcv
  · rw [hs]; exact discardWs_nondelim c _ h1 h2

/-- Reading a word piece. -/
theorem At.word {r : List Char} {k : Kind} {w : List Char} {ps : List Piece}
    (h : At r k (.word w :: ps)) :
    readToken r = (w, render ps) ∧ discardWs false r = w ++ render ps ∧ At (render ps) .word ps := by
  obtain ⟨⟨hv, hok, hrest⟩, hs⟩ := h
  have hk : k ≠ .comment := by
    intro h; subst h; exact absurd hok (by simp [OkAfter])
  have hwv : ValidWord w := hv
  simp only [hk, decide_false, render, Piece.render] at hs
  refine ⟨?_, ?_, At.start hrest (by simp)⟩
  · rw [readToken_congr r _ false hs]
    exact readToken_word w (render ps) hwv (startsDelim_of_wellSep ps hrest)
  · rw [hs]
    obtain ⟨hne, hall⟩ := hwv
    cases w with
    | nil => exact absurd rfl hne
    | cons c w =>
      have hc : isDelim c = false := hall c (by simp)
      have h1 : isSpace c = false := by
        simp only [isDelim, Bool.or_eq_false_iff] at hc; exact hc.1.1
      have h2 : c ≠ '#' := by
        simp only [isDelim, Bool.or_eq_false_iff] at hc; simpa using hc.1.2
      exact discardWs_nondelim c _ h1 h2

/-- Splitting a cursor's well-separation at an append. -/
theorem At.ws_left {r : List Char} {k : Kind} {a b : List Piece} (h : At r k (a ++ b)) :
    WellSep k a ∧ WellSep (lastKind k a) b := (wellSep_append a b k).mp h.ws

end Emboss.Text
