/-
C11 helper lemmas (round 3): the header row `_columnize` builds for a block re-tokenizes to
its cells' tokens — `padCols` (the `ljust` loop) is an instance of `cellsText`, and the
column widths leave at least one blank after every non-empty cell.
-/
import Emboss.Lemmas.FmtRetokCells
import Emboss.Lemmas.FmtPasses
namespace Emboss.FmtTok
open Emboss.Tok Emboss.Generated

/-- The width `_columnize` pads column `i` of header `h` to (`0`: the column is empty in
every block). -/
def padWidth (blocks : List Fmt.Block) (iw ic : Nat) (h : Fmt.Row) (i : Nat) : Int :=
  let w : Int := Fmt.colWidth blocks iw ic h.name i
  if w = 0 then 0
  else
    let w1 := if i + 1 = ic then w - (h.indent * iw : Nat) else w
    if Fmt.singleWidthSep h.name i then w1 + 1 else w1 + 2

theorem padCols_cons (blocks : List Fmt.Block) (iw ic : Nat) (h : Fmt.Row) (i : Nat) (c : Fmt.Str)
    (rest : List Fmt.Str) :
    Fmt.padCols blocks iw ic h i (c :: rest) =
      Fmt.ljust c (padWidth blocks iw ic h i) :: Fmt.padCols blocks iw ic h (i + 1) rest := rfl

/-- The cells of a header: text, blanks `ljust` appends, leaves. -/
def colCells (blocks : List Fmt.Block) (iw ic : Nat) (h : Fmt.Row) :
    Nat → List Fmt.Str → List (List Leaf) → List (List Char × Nat × List Leaf)
  | _, [], _ => []
  | i, c :: rest, Ls =>
    (c, (padWidth blocks iw ic h i).toNat - c.length, Ls.headD []) ::
      colCells blocks iw ic h (i + 1) rest Ls.tail

theorem padCols_flatten (blocks : List Fmt.Block) (iw ic : Nat) (h : Fmt.Row) :
    ∀ (cols : List Fmt.Str) (i : Nat) (Ls : List (List Leaf)),
      (Fmt.padCols blocks iw ic h i cols).flatten = cellsText (colCells blocks iw ic h i cols Ls) := by
  intro cols
  induction cols with
  | nil => intro i Ls; rfl
  | cons c rest ih =>
    intro i Ls
    rw [padCols_cons]
    simp only [List.flatten_cons, colCells, cellsText, Fmt.ljust, ih (i + 1) Ls.tail]

/-! ### Column widths -/

def widthStep (iw ic : Nat) (name : Fmt.RowName) (i : Nat) (m : Nat) (b : Fmt.Block) : Nat :=
  if b.header.name = name then
    match b.header.columns[i]? with
    | some c => max m (c.length + (if i + 1 = ic then b.header.indent * iw else 0))
    | none => m
  else m

theorem colWidth_eq_foldl (blocks : List Fmt.Block) (iw ic : Nat) (name : Fmt.RowName) (i : Nat) :
    Fmt.colWidth blocks iw ic name i = blocks.foldl (widthStep iw ic name i) 0 := rfl

theorem widthStep_ge (iw ic : Nat) (name : Fmt.RowName) (i m : Nat) (b : Fmt.Block) :
    m ≤ widthStep iw ic name i m b := by
  simp only [widthStep]
  split
  · split
    · exact Nat.le_max_left _ _
    · exact Nat.le_refl _
  · exact Nat.le_refl _

theorem foldl_widthStep_ge (iw ic : Nat) (name : Fmt.RowName) (i : Nat) :
    ∀ (blocks : List Fmt.Block) (m : Nat), m ≤ blocks.foldl (widthStep iw ic name i) m := by
  intro blocks
  induction blocks with
  | nil => intro m; exact Nat.le_refl _
  | cons b rest ih =>
    intro m
    exact Nat.le_trans (widthStep_ge iw ic name i m b) (ih _)

theorem foldl_widthStep_mem (iw ic : Nat) (i : Nat) :
    ∀ (blocks : List Fmt.Block) (m : Nat) (b : Fmt.Block), b ∈ blocks → ∀ c, b.header.columns[i]? = some c →
      c.length + (if i + 1 = ic then b.header.indent * iw else 0) ≤
        blocks.foldl (widthStep iw ic b.header.name i) m := by
  intro blocks
  induction blocks with
  | nil => intro m b hb; cases hb
  | cons b0 rest ih =>
    intro m b hb c hc
    rcases List.mem_cons.mp hb with rfl | hb
    · refine Nat.le_trans ?_ (foldl_widthStep_ge iw ic _ i rest _)
      simp only [widthStep, if_true, hc]
      exact Nat.le_max_right _ _
    · exact ih _ b hb c hc

/-- A column is at least as wide as every cell in it. -/
theorem colWidth_ge (blocks : List Fmt.Block) (iw ic : Nat) (b : Fmt.Block) (hb : b ∈ blocks) (i : Nat)
    (c : Fmt.Str) (hc : b.header.columns[i]? = some c) :
    c.length + (if i + 1 = ic then b.header.indent * iw else 0) ≤
      Fmt.colWidth blocks iw ic b.header.name i := by
  rw [colWidth_eq_foldl]
  exact foldl_widthStep_mem iw ic i blocks 0 b hb c hc

/-- `ljust` leaves at least one blank after a non-empty cell. -/
theorem pad_pos (blocks : List Fmt.Block) (iw ic : Nat) (b : Fmt.Block) (hb : b ∈ blocks) (i : Nat)
    (c : Fmt.Str) (hc : b.header.columns[i]? = some c) (hne : c ≠ []) :
    0 < (padWidth blocks iw ic b.header i).toNat - c.length := by
  have hge := colWidth_ge blocks iw ic b hb i c hc
  have hpos : 0 < c.length := List.length_pos_iff.mpr hne
  simp only [padWidth]
  generalize Fmt.colWidth blocks iw ic b.header.name i = W at hge
  by_cases hi : i + 1 = ic
  · simp only [hi, if_true] at hge ⊢
    have hW : ¬ ((W : Int) = 0) := by omega
    simp only [hW, if_false]
    split <;> omega
  · simp only [hi, if_false, Nat.add_zero] at hge ⊢
    have hW : ¬ ((W : Int) = 0) := by omega
    simp only [hW, if_false]
    split <;> omega

theorem colCells_pad (blocks : List Fmt.Block) (iw ic : Nat) (b : Fmt.Block) (hb : b ∈ blocks) :
    ∀ (cols : List Fmt.Str) (i : Nat) (Ls : List (List Leaf)),
      (∀ j c, cols[j]? = some c → b.header.columns[i + j]? = some c) →
      ∀ x ∈ colCells blocks iw ic b.header i cols Ls, x.1 ≠ [] → 0 < x.2.1 := by
  intro cols
  induction cols with
  | nil => intro i Ls _ x hx; cases hx
  | cons c rest ih =>
    intro i Ls h x hx hne
    simp only [colCells, List.mem_cons] at hx
    rcases hx with rfl | hx
    · exact pad_pos blocks iw ic b hb i c (by simpa using h 0 c rfl) hne
    · refine ih (i + 1) Ls.tail (fun j c' hj => ?_) x hx hne
      have := h (j + 1) c' (by simpa using hj)
      rw [show i + 1 + j = i + (j + 1) by omega]; exact this

/-- **The header row `_columnize` builds re-tokenizes to its cells' tokens.**  `b` one of the
blocks; every cell of its header is empty (and has no leaves) or tokenizes to its leaves;
only the last non-empty cell carries a comment / documentation token; the first cell is
not empty.  Then the columnized block is `prefix ++ [hdr] ++ body` where `hdr` has one
column, the indentation of the header, and its content tokenizes to the concatenation of
the cells' leaves. -/
theorem columnize_header_lineToks (blocks : List Fmt.Block) (iw ic : Nat) (b : Fmt.Block)
    (hb : b ∈ blocks) (Ls : List (List Leaf))
    (hcell : ∀ x ∈ colCells blocks iw ic b.header 0 b.header.columns Ls,
      (x.1 = [] ∧ x.2.2 = []) ∨ (x.1 ≠ [] ∧ LineToks x.1 x.2.2))
    (hopen : OpenLast (colCells blocks iw ic b.header 0 b.header.columns Ls))
    (hfirst : ∃ c rest, b.header.columns = c :: rest ∧ c ≠ []) :
    ∃ hdr : Fmt.Row, Fmt.columnizeBlock blocks iw ic b = b.pre ++ [hdr] ++ b.body ∧
      hdr.columns.length < 2 ∧ hdr.indent = b.header.indent ∧ hdr.name = b.header.name ∧
      LineToks (rowText hdr) (cellsLeaves (colCells blocks iw ic b.header 0 b.header.columns Ls)) := by
  refine ⟨_, rfl, by simp, rfl, rfl, ?_⟩
  have hpad := colCells_pad blocks iw ic b hb b.header.columns 0 Ls (fun j c h => by simpa using h)
  have hok : ∀ x ∈ colCells blocks iw ic b.header 0 b.header.columns Ls, CellOK x := by
    intro x hx
    rcases hcell x hx with h | ⟨h1, h2⟩
    · exact Or.inl h
    · exact Or.inr ⟨h1, hpad x hx h1, h2⟩
  simp only [rowText, List.flatten_cons, List.flatten_nil, List.append_nil, Fmt.rstrip_idem,
    padCols_flatten blocks iw ic b.header b.header.columns 0 Ls]
  obtain ⟨c, rest, hcols, hcne⟩ := hfirst
  rcases cells_lineToks _ hok hopen with ⟨h1, _⟩ | ⟨k, s, h1, _, h3, h4⟩
  · exfalso
    have hc : LineToks c (Ls.headD []) := by
      have hx : (c, (padWidth blocks iw ic b.header 0).toNat - c.length, Ls.headD []) ∈
          colCells blocks iw ic b.header 0 b.header.columns Ls := by
        rw [hcols]; simp [colCells]
      rcases hcell _ hx with ⟨h, _⟩ | ⟨_, h⟩
      · exact absurd h hcne
      · exact h
    rw [hcols] at h1
    simp only [colCells, cellsText, List.append_assoc] at h1
    rw [rstrip_append] at h1
    split at h1
    · rw [rstrip_of_last hc.last] at h1; exact hcne h1
    · exact hcne (List.append_eq_nil_iff.mp h1).1
  · have hk : k = 0 := by
      rw [hcols] at h4
      exact h4 (c, (padWidth blocks iw ic b.header 0).toNat - c.length, Ls.headD [])
        (colCells blocks iw ic b.header (0 + 1) rest Ls.tail) rfl hcne
    subst hk
    rw [h1]
    simpa [Fmt.spaces] using h3

/-! ### The global passes only add rows without columns and change indentation -/

theorem mem_stripEmptyRows {l : List Fmt.Row} {r : Fmt.Row} (h : r ∈ Fmt.stripEmptyRows l) : r ∈ l := by
  unfold Fmt.stripEmptyRows at h
  rw [List.mem_reverse] at h
  have h1 := (List.dropWhile_sublist (fun r : Fmt.Row => r.columns.isEmpty)).subset h
  rw [List.mem_reverse] at h1
  exact (List.dropWhile_sublist _).subset h1

theorem mem_intersperseAux (sep : List Fmt.Row) : ∀ (secs : List (List Fmt.Row)) (acc : List Fmt.Row)
    (r : Fmt.Row), r ∈ Fmt.intersperseAux sep acc secs → r ∈ acc ∨ r ∈ sep ∨ ∃ s ∈ secs, r ∈ s := by
  intro secs
  induction secs with
  | nil => intro acc r h; exact Or.inl h
  | cons s rest ih =>
    intro acc r h
    simp only [Fmt.intersperseAux] at h
    split at h
    · rcases ih _ r h with h | h | ⟨s', hs', hr⟩
      · exact Or.inl h
      · exact Or.inr (Or.inl h)
      · exact Or.inr (Or.inr ⟨s', by simp [hs'], hr⟩)
    · split at h
      · rcases ih _ r h with h | h | ⟨s', hs', hr⟩
        · rcases List.mem_append.mp h with h | h
          · exact Or.inl h
          · exact Or.inr (Or.inr ⟨s, by simp, h⟩)
        · exact Or.inr (Or.inl h)
        · exact Or.inr (Or.inr ⟨s', by simp [hs'], hr⟩)
      · rcases ih _ r h with h | h | ⟨s', hs', hr⟩
        · rcases List.mem_append.mp h with h | h
          · rcases List.mem_append.mp h with h | h
            · exact Or.inl h
            · exact Or.inr (Or.inl h)
          · exact Or.inr (Or.inr ⟨s, by simp, h⟩)
        · exact Or.inr (Or.inl h)
        · exact Or.inr (Or.inr ⟨s', by simp [hs'], hr⟩)

theorem mem_intersperse {sep : List Fmt.Row} {secs : List (List Fmt.Row)} {r : Fmt.Row}
    (h : r ∈ Fmt.intersperse sep secs) : r ∈ sep ∨ ∃ s ∈ secs, r ∈ s := by
  rcases mem_intersperseAux sep secs [] r h with h | h
  · cases h
  · exact h

theorem mem_addBlankRowsAux : ∀ (l : List Fmt.Row) (p : Nat) (b : Bool) (r : Fmt.Row),
    r ∈ Fmt.addBlankRowsAux p b l → r.columns = [] ∨ r ∈ l := by
  intro l
  induction l with
  | nil => intro p b r h; cases h
  | cons x rest ih =>
    intro p b r h
    unfold Fmt.addBlankRowsAux at h
    simp only [] at h
    split at h
    · rcases List.mem_cons.mp h with rfl | h
      · exact Or.inl rfl
      · rcases List.mem_cons.mp h with rfl | h
        · exact Or.inr (by simp)
        · rcases ih _ _ r h with h | h
          · exact Or.inl h
          · exact Or.inr (by simp [h])
    · rcases List.mem_cons.mp h with rfl | h
      · exact Or.inr (by simp)
      · rcases ih _ _ r h with h | h
        · exact Or.inl h
        · exact Or.inr (by simp [h])

/-- Every row `_module` renders has no columns (a separator, a blank) or the columns of a
row one of the module's parts delivered. -/
theorem moduleRows_columns (c d i a : List Fmt.Row) (ty : List (List Fmt.Row)) :
    ∀ r ∈ moduleRows c d i a ty, r.columns = [] ∨
      ∃ r' ∈ c ++ d ++ i ++ a ++ ty.flatten, r'.columns = r.columns := by
  intro r hr
  simp only [moduleRows, Fmt.addBlankRowsOnDedent] at hr
  rcases mem_addBlankRowsAux _ _ _ r hr with h | h
  · exact Or.inl h
  · have hc : r.columns ∈ (Fmt.indentBlanksAndComments _).map (·.columns) := List.mem_map_of_mem h
    rw [Fmt.indentBlanksAndComments_columns] at hc
    obtain ⟨r1, hr1, hcols⟩ := List.mem_map.mp hc
    rcases mem_intersperse hr1 with h | ⟨s, hs, hrs⟩
    · left
      rw [← hcols]
      simp only [List.mem_cons, List.not_mem_nil, or_false] at h
      rcases h with rfl | rfl <;> rfl
    · rcases List.mem_cons.mp hs with rfl | hs
      · rcases mem_intersperse hrs with h | ⟨s', hs', hrs'⟩
        · left
          rw [← hcols]
          simp only [List.mem_cons, List.not_mem_nil, or_false] at h
          rw [h]
        · right
          refine ⟨r1, ?_, hcols⟩
          simp only [List.mem_cons, List.not_mem_nil, or_false] at hs'
          simp only [List.mem_append]
          rcases hs' with rfl | rfl | rfl | rfl
          · exact Or.inl (Or.inl (Or.inl (Or.inl (mem_stripEmptyRows hrs'))))
          · exact Or.inl (Or.inl (Or.inl (Or.inr hrs')))
          · exact Or.inl (Or.inl (Or.inr hrs'))
          · exact Or.inl (Or.inr hrs')
      · right
        exact ⟨r1, List.mem_append.mpr (Or.inr (List.mem_flatten.mpr ⟨s, hs, hrs⟩)), hcols⟩

theorem rowText_congr {r r' : Fmt.Row} (h : r'.columns = r.columns) : rowText r' = rowText r := by
  simp only [rowText, h]

/-- `tokenize_renderRows` with the hypothesis on the rows the module's parts deliver: `lv`
assigns leaves to column lists. -/
theorem tokenize_moduleRows (iw : Nat) (hiw : 0 < iw) (c d i a : List Fmt.Row) (ty : List (List Fmt.Row))
    (lv : List Fmt.Str → List Leaf) (hnil : lv [] = [])
    (hin : ∀ r ∈ c ++ d ++ i ++ a ++ ty.flatten, r.columns.length < 2 ∧ LineToks (rowText r) (lv r.columns))
    (E : List Leaf)
    (hE : expectLeaves iw 0 [] ((moduleRows c d i a ty).map (fun r => (r.indent, lv r.columns))) = some E) :
    ∃ text toks, Fmt.Handler.run iw .module [.rows c, .rows d, .rows i, .rows a, .sections ty] =
        some (.str text) ∧
      tokenize tokTable.pats text = .ok toks ∧ toks.map leafOf = E := by
  have hrows : ∀ x ∈ (moduleRows c d i a ty).map (fun r => (r, lv r.columns)),
      x.1.columns.length < 2 ∧ LineToks (rowText x.1) x.2 := by
    intro x hx
    obtain ⟨r, hr, rfl⟩ := List.mem_map.mp hx
    rcases moduleRows_columns c d i a ty r hr with h | ⟨r', hr', hcols⟩
    · simp only [h, List.length_nil, hnil, rowText, List.flatten_nil]
      exact ⟨by decide, LineToks.nil⟩
    · have := hin r' hr'
      rw [hcols, rowText_congr hcols] at this
      exact this
  obtain ⟨text, toks, h1, h2, h3⟩ := tokenize_renderRows iw hiw _ hrows E (by
    simpa [List.map_map, Function.comp_def] using hE)
  refine ⟨text, toks, ?_, h2, h3⟩
  rw [hModule_eq]
  simp only [List.map_map, Function.comp_def, List.map_id'] at h1
  rw [h1]; rfl

end Emboss.FmtTok
