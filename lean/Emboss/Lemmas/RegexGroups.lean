/-
Closed form for the digit-group patterns `D{1,first}(?:_D{len})*` of the tokenizer table
(C10): what the backtracking matcher returns, and when that is the whole run.
-/
import Emboss.Lemmas.RegexShapes
namespace Emboss.Regex

/-- `D{n}`: exactly `n` characters of the class, no choice. -/
theorem rep_exact (c : CClass) (k : List Char → MRes) : ∀ (n : Nat) (s : List Char),
    matchK (.rep (.chr c) n (some n)) s k = if n ≤ span c s then k (s.drop n) else .fail := by
  intro n
  induction n with
  | zero => intro s; rw [matchK_rep]; simp
  | succ n ih =>
    intro s
    cases s with
    | nil => rw [rep_chr_nil]; simp
    | cons x t =>
      rw [rep_chr_cons_succ, span_cons]
      by_cases hc : c.mem x = true
      · simp only [ne_eq, Option.some.injEq, Nat.add_eq_zero_iff, Nat.succ_ne_self, and_false,
          not_false_eq_true, hc, and_self, if_true, Option.map_some, Nat.add_sub_cancel, ih,
          Nat.add_le_add_iff_right, List.drop_succ_cons]
      · simp [hc]

/-- One `_D{len}` group. -/
def groupRe (c : CClass) (len : Nat) : Regex := .seq (.chr (litC '_')) (.rep (.chr c) len (some len))

/-- Does `s` start with a `_` followed by at least `len` class characters? -/
def startsGroup (c : CClass) (len : Nat) : List Char → Bool
  | [] => false
  | x :: t => x == '_' && decide (len ≤ span c t)

theorem matchK_group (c : CClass) (len : Nat) (s : List Char) (k : List Char → MRes) :
    matchK (groupRe c len) s k = if startsGroup c len s then k (s.drop (len + 1)) else .fail := by
  cases s with
  | nil => simp [groupRe, startsGroup]
  | cons x t =>
    simp only [groupRe, matchK_seq, matchK_chr_cons, litC_mem, rep_exact, startsGroup, List.drop_succ_cons]
    by_cases hx : (x == '_') = true
    · simp [hx]
    · simp [hx]

/-- Number of characters taken by the greedy run of groups at the front of `s`. -/
def groupsLen (c : CClass) (len : Nat) : Nat → List Char → Nat
  | 0, _ => 0
  | f + 1, s => if startsGroup c len s then (len + 1) + groupsLen c len f (s.drop (len + 1)) else 0

theorem startsGroup_length {c : CClass} {len : Nat} {s : List Char} (h : startsGroup c len s = true) :
    len + 1 ≤ s.length := by
  cases s with
  | nil => simp [startsGroup] at h
  | cons x t =>
    simp only [startsGroup, Bool.and_eq_true, decide_eq_true_eq] at h
    have := span_le c t
    simp only [List.length_cons]; omega

theorem groupsLen_le (c : CClass) (len : Nat) : ∀ f s, groupsLen c len f s ≤ s.length := by
  intro f
  induction f with
  | zero => intro s; simp [groupsLen]
  | succ f ih =>
    intro s
    simp only [groupsLen]
    split
    · rename_i h
      have := startsGroup_length h
      have := ih (s.drop (len + 1))
      simp only [List.length_drop] at this
      omega
    · omega

/-- `(?:_D{len})*` in front of something that cannot fail takes every group it can. -/
theorem groups_star (c : CClass) (len : Nat) (kf : List Char → MRes) (hkf : ∀ t, kf t ≠ .fail) :
    ∀ (f : Nat) (s : List Char), s.length ≤ f →
      matchK (.rep (groupRe c len) 0 none) s kf = kf (s.drop (groupsLen c len f s)) := by
  intro f
  induction f with
  | zero =>
    intro s hs
    have : s = [] := List.eq_nil_of_length_eq_zero (by omega)
    subst this
    rw [matchK_rep]
    simp [matchK_group, startsGroup, groupsLen]
  | succ f ih =>
    intro s hs
    rw [matchK_rep, matchK_group]
    simp only [reduceCtorEq, if_false, Option.map_none, groupsLen]
    by_cases hg : startsGroup c len s = true
    · have hl := startsGroup_length hg
      simp only [hg, if_true, List.length_drop]
      have hlt : s.length - (len + 1) < s.length := by omega
      simp only [hlt, if_true]
      rw [ih (s.drop (len + 1)) (by simp only [List.length_drop]; omega)]
      rw [List.drop_drop]
      have := hkf (s.drop (len + 1 + groupsLen c len f (s.drop (len + 1))))
      split
      · rename_i hf; exact absurd hf this
      · rfl
    · simp [hg]

/-- The groups text: `_g₁_g₂…`. -/
def groupsText (gs : List (List Char)) : List Char := (gs.map (fun g => '_' :: g)).flatten

theorem take_span_all (c : CClass) : ∀ (s : List Char) (j : Nat), j ≤ span c s → (s.take j).all c.mem = true := by
  intro s
  induction s with
  | nil => intro j _; simp
  | cons x t ih =>
    intro j hj
    cases j with
    | zero => simp
    | succ j =>
      rw [span_cons] at hj
      by_cases hc : c.mem x = true
      · simp only [hc, if_true] at hj
        simp [hc, ih j (by omega)]
      · simp [hc] at hj

/-- What `groupsLen` strips really is a sequence of groups. -/
theorem groupsLen_text (c : CClass) (len : Nat) : ∀ (f : Nat) (s : List Char),
    ∃ gs, s.take (groupsLen c len f s) = groupsText gs ∧ ∀ g ∈ gs, g.length = len ∧ g.all c.mem = true := by
  intro f
  induction f with
  | zero => intro s; exact ⟨[], by simp [groupsLen, groupsText], by simp⟩
  | succ f ih =>
    intro s
    simp only [groupsLen]
    by_cases hg : startsGroup c len s = true
    · simp only [hg, if_true]
      cases s with
      | nil => simp [startsGroup] at hg
      | cons x t =>
        simp only [startsGroup, Bool.and_eq_true, beq_iff_eq, decide_eq_true_eq] at hg
        obtain ⟨hx, hspan⟩ := hg
        subst hx
        obtain ⟨gs, h1, h2⟩ := ih (t.drop len)
        refine ⟨t.take len :: gs, ?_, ?_⟩
        · simp only [List.drop_succ_cons, groupsText, List.map_cons, List.flatten_cons, List.cons_append]
          rw [show len + 1 + groupsLen c len f (t.drop len) = (len + groupsLen c len f (t.drop len)) + 1 by omega,
            List.take_succ_cons, List.take_add]
          simp only [groupsText] at h1
          rw [h1]
        · intro g hg'
          rcases List.mem_cons.mp hg' with rfl | hg'
          · have := span_le c t
            exact ⟨by simp; omega, take_span_all c t len hspan⟩
          · exact h2 g hg'
    · exact ⟨[], by simp [hg, groupsText], by simp⟩

theorem span_ge_of_all (c : CClass) : ∀ (g r : List Char), g.all c.mem = true → g.length ≤ span c (g ++ r) := by
  intro g
  induction g with
  | nil => intro r _; simp
  | cons a g ih =>
    intro r h
    simp only [List.all_cons, Bool.and_eq_true] at h
    simp only [List.cons_append, span_cons, h.1, if_true, List.length_cons]
    have := ih r h.2
    omega

/-- Conversely, a sequence of groups followed by something that does not start with `_` is
stripped completely. -/
theorem groupsLen_of_text (c : CClass) (len : Nat) (rest : List Char)
    (hrest : ∀ x, rest.head? = some x → x ≠ '_') :
    ∀ (gs : List (List Char)) (f : Nat), (∀ g ∈ gs, g.length = len ∧ g.all c.mem = true) →
      (groupsText gs ++ rest).length ≤ f →
      groupsLen c len f (groupsText gs ++ rest) = (groupsText gs).length := by
  intro gs
  induction gs with
  | nil =>
    intro f _ _
    cases f with
    | zero => simp [groupsLen, groupsText]
    | succ f =>
      simp only [groupsText, List.map_nil, List.flatten_nil, List.nil_append, List.length_nil, groupsLen]
      cases rest with
      | nil => simp [startsGroup]
      | cons x t =>
        have : (x == '_') = false := by simpa using hrest x rfl
        simp [startsGroup, this]
  | cons g gs ih =>
    intro f hgs hf
    have hg := hgs g (List.mem_cons_self ..)
    cases f with
    | zero => simp [groupsText] at hf
    | succ f =>
      have htext : groupsText (g :: gs) ++ rest = '_' :: (g ++ (groupsText gs ++ rest)) := by
        simp [groupsText]
      rw [htext] at hf ⊢
      have hspan : len ≤ span c (g ++ (groupsText gs ++ rest)) := by
        rw [← hg.1]; exact span_ge_of_all c g _ hg.2
      simp only [groupsLen, startsGroup, beq_self_eq_true, hspan, decide_true, Bool.and_self, if_true,
        List.drop_succ_cons]
      have hd : (g ++ (groupsText gs ++ rest)).drop len = groupsText gs ++ rest := by
        rw [← hg.1]; simp
      rw [hd, ih f (fun g' h' => hgs g' (List.mem_cons_of_mem _ h'))]
      · simp only [groupsText, List.map_cons, List.flatten_cons, List.length_cons, List.length_append]
        omega
      · simp only [List.length_cons, List.length_append] at hf ⊢
        omega

/-- `D{1,first}(?:_D{len})*` -/
def groupedRe (c : CClass) (first len : Nat) : Regex :=
  .seq (.rep (.chr c) 1 (some first)) (.rep (groupRe c len) 0 none)

theorem grouped_value (c : CClass) (first len n : Nat) (hfirst : 1 ≤ first) (x : Char) (t : List Char) :
    matchK (groupedRe c first len) (x :: t) (kOff n (x :: t)) =
      if c.mem x then
        .ok (n + 1 + min (first - 1) (span c t) +
          groupsLen c len (t.drop (min (first - 1) (span c t))).length (t.drop (min (first - 1) (span c t))))
      else .fail := by
  simp only [groupedRe, matchK_seq]
  rw [rep_chr_cons_succ]
  by_cases hc : c.mem x = true
  · have h0 : (some first : Option Nat) ≠ some 0 := by simp; omega
    simp only [ne_eq, h0, not_false_eq_true, hc, and_self, if_true, Option.map_some]
    have hK : ∀ u, matchK (.rep (groupRe c len) 0 none) u (kOff n (x :: t)) ≠ .fail := by
      intro u
      rw [groups_star c len _ (kOff_ne_fail _ _) u.length u (Nat.le_refl _)]
      exact kOff_ne_fail _ _ _
    rw [rep_chr_zero_nofail c _ hK, takeUpTo]
    have hm : min (first - 1) (span c t) ≤ t.length := by have := span_le c t; omega
    rw [groups_star c len _ (kOff_ne_fail _ _) _ _ (Nat.le_refl _), kOff_cons,
      kOff_drop' (n + 1) t _ hm, kOff_drop _ _ _ (groupsLen_le _ _ _ _)]
  · simp [hc]

/-- The group pattern matches the whole of `b` (followed by `rest`, which neither continues
the digits nor starts with `_`) iff `b` has the documented grouped shape. -/
theorem grouped_full (c : CClass) (first len n : Nat) (hfirst : 1 ≤ first) (b rest : List Char)
    (hrc : ∀ x, rest.head? = some x → c.mem x = false) (hru : ∀ x, rest.head? = some x → x ≠ '_')
    (hus : c.mem '_' = false) :
    matchK (groupedRe c first len) (b ++ rest) (kOff n (b ++ rest)) = .ok (n + b.length) ↔
      ∃ (g0 : List Char) (gs : List (List Char)), b = g0 ++ groupsText gs ∧ 1 ≤ g0.length ∧
        g0.length ≤ first ∧ g0.all c.mem = true ∧ ∀ g ∈ gs, g.length = len ∧ g.all c.mem = true := by
  cases b with
  | nil =>
    constructor
    · intro h
      cases rest with
      | nil => simp [groupedRe, rep_chr_nil] at h
      | cons x t =>
        rw [List.nil_append, grouped_value c first len n hfirst, hrc x rfl] at h
        cases h
    · rintro ⟨g0, gs, hb, h1, _⟩
      have := congrArg List.length hb
      simp at this; omega
  | cons x b' =>
    rw [List.cons_append, grouped_value c first len n hfirst]
    by_cases hc : c.mem x = true
    · simp only [hc, if_true, MRes.ok.injEq, List.length_cons]
      constructor
      · intro h
        have hm : min (first - 1) (span c (b' ++ rest)) ≤ b'.length := by omega
        obtain ⟨gs, hgs, hall⟩ := groupsLen_text c len
          ((b' ++ rest).drop (min (first - 1) (span c (b' ++ rest)))).length
          ((b' ++ rest).drop (min (first - 1) (span c (b' ++ rest))))
        generalize hmm : min (first - 1) (span c (b' ++ rest)) = m at h hm hgs
        generalize hgl : groupsLen c len ((b' ++ rest).drop m).length ((b' ++ rest).drop m) = gl at h hgs
        have hmspan : m ≤ span c (b' ++ rest) := by omega
        refine ⟨x :: b'.take m, gs, ?_, by simp, ?_, ?_, hall⟩
        · rw [← hgs, List.drop_append_of_le_length hm, List.take_append_of_le_length (by simp; omega)]
          have : gl = (b'.drop m).length := by simp; omega
          rw [this, List.take_length]
          simp
        · simp only [List.length_cons, List.length_take]; omega
        · have := take_span_all c (b' ++ rest) m hmspan
          rw [List.take_append_of_le_length hm] at this
          simp [hc, this]
      · rintro ⟨g0, gs, hb, h1, h2, h3, h4⟩
        cases g0 with
        | nil => simp at h1
        | cons y g0' =>
          simp only [List.cons_append, List.cons.injEq] at hb
          obtain ⟨rfl, rfl⟩ := hb
          simp only [List.all_cons, Bool.and_eq_true] at h3
          have hspan : span c (g0' ++ groupsText gs ++ rest) = g0'.length := by
            rw [List.append_assoc, span_append_full]
            · exact h3.2
            · intro z hz
              cases gs with
              | nil => simp only [groupsText, List.map_nil, List.flatten_nil, List.nil_append] at hz; exact hrc z hz
              | cons g gs' =>
                simp only [groupsText, List.map_cons, List.flatten_cons, List.cons_append, List.head?_cons,
                  Option.some.injEq] at hz
                rw [← hz]; exact hus
          simp only [List.length_cons] at h2
          have hmin : min (first - 1) (span c (g0' ++ groupsText gs ++ rest)) = g0'.length := by omega
          rw [hmin]
          have hd : (g0' ++ groupsText gs ++ rest).drop g0'.length = groupsText gs ++ rest := by
            rw [List.append_assoc]; simp
          rw [hd, groupsLen_of_text c len rest hru gs _ h4 (Nat.le_refl _)]
          simp only [List.length_append]; omega
    · simp only [hc, Bool.false_eq_true, if_false, reduceCtorEq, false_iff]
      rintro ⟨g0, gs, hb, h1, _, h3, _⟩
      cases g0 with
      | nil => simp at h1
      | cons y g0' =>
        simp only [List.cons_append, List.cons.injEq] at hb
        simp only [List.all_cons, Bool.and_eq_true] at h3
        rw [← hb.1] at h3
        exact hc h3.1

end Emboss.Regex
