/-
C17 — connecting the state-machine lemmas to the specification's `View`s.
-/
import Emboss.Lemmas.PurityRename
import Emboss.Spec.Purity
namespace Emboss.Purity
open Spec

theorem pairs_map_eq {R : α → β → Prop} {l₁ : List α} {l₂ : List β} (g : β → γ) (h : α → γ)
    (hp : Pairs R l₁ l₂) (hz : ∀ p ∈ l₁.zip l₂, g p.2 = h p.1) : l₂.map g = l₁.map h := by
  induction hp with
  | nil => rfl
  | cons _ _ ih =>
    simp only [List.map_cons, List.zip_cons_cons, List.mem_cons, forall_eq_or_imp] at hz ⊢
    rw [hz.1, ih hz.2]

theorem pairs_mem_left {R : α → β → Prop} {l₁ : List α} {l₂ : List β} (hp : Pairs R l₁ l₂) :
    ∀ a ∈ l₁, ∃ b, (a, b) ∈ l₁.zip l₂ := by
  induction hp with
  | nil => intro a ha; cases ha
  | @cons a' b' _ _ _ _ ih =>
    intro a ha
    rcases List.mem_cons.1 ha with rfl | ha
    · exact ⟨b', by simp⟩
    · obtain ⟨b, hb⟩ := ih a ha
      exact ⟨b, by simp [hb]⟩

theorem mem_anonsOf_atoms (m : ModIR) (a : Nat) :
    a ∈ anonsOf m.atoms ↔ ∃ i, Tok.hole i ∈ m.skel.body ∧ a = m.base + 1 + i := by
  unfold anonsOf ModIR.atoms
  simp only [List.mem_filterMap, List.mem_map]
  constructor
  · rintro ⟨at', ⟨tok, htok, rfl⟩, hat⟩
    cases tok with
    | lit s => simp [number] at hat
    | hole i => simp only [number, Option.some.injEq] at hat; exact ⟨i, htok, hat.symm⟩
  · rintro ⟨i, hi, rfl⟩
    exact ⟨_, ⟨_, hi, rfl⟩, by simp [number]⟩

/-- Main bridge: similar outcomes whose modules sit in numbered caches are equal up to an
injective, per-module translating renaming. -/
theorem view_renaming (σ₀ σ : St) (hn₀ : Numbered σ₀) (hn : Numbered σ) (ms₀ ms : List ModIR)
    (hsim : Pairs Similar ms₀ ms) (hc₀ : ∀ m ∈ ms₀, InCache σ₀ m) (hc : ∀ m ∈ ms, InCache σ m) :
    ∃ ρ : Nat → Nat,
      (∀ a ∈ anons (Outcome.ok ms₀).view, ∀ b ∈ anons (Outcome.ok ms₀).view, ρ a = ρ b → a = b) ∧
      (Outcome.ok ms).view = rename ρ (Outcome.ok ms₀).view ∧
      TranslationPerModule ρ (Outcome.ok ms₀).view := by
  have hcons := consistent_of_numbered σ₀ σ hn₀ hn ms₀ ms hsim hc₀ hc
  refine ⟨renameOf (ms₀.zip ms), ?_, ?_, ?_⟩
  · -- injective on the numbers that occur
    intro a ha b hb hab
    simp only [Outcome.view, anons, List.mem_flatMap, List.mem_map] at ha hb
    obtain ⟨_, ⟨ma, hma, rfl⟩, ha⟩ := ha
    obtain ⟨_, ⟨mb, hmb, rfl⟩, hb⟩ := hb
    simp only at ha hb
    obtain ⟨i, hi, rfl⟩ := (mem_anonsOf_atoms ma a).1 ha
    obtain ⟨j, hj, rfl⟩ := (mem_anonsOf_atoms mb b).1 hb
    obtain ⟨ma', hpa⟩ := pairs_mem_left hsim ma hma
    obtain ⟨mb', hpb⟩ := pairs_mem_left hsim mb hmb
    have hi' := hole_lt_anon _ _ hi
    have hj' := hole_lt_anon _ _ hj
    rw [renameOf_spec _ hcons _ hpa i hi', renameOf_spec _ hcons _ hpb j hj'] at hab
    exact (hcons _ hpa _ hpb i hi' j hj').2 hab
  · -- the view is the renamed view
    simp only [Outcome.view, rename, List.map_map]
    congr 1
    apply pairs_map_eq _ _ hsim
    intro p hp
    have hs := pairs_zip hsim p hp
    simp only [Function.comp]
    rw [atoms_rename _ hcons p hp hs, hs.1, hs.2.1]
  · -- translation inside each module
    simp only [Outcome.view, TranslationPerModule, List.mem_map]
    rintro _ ⟨m₀, hm₀, rfl⟩ a ha b hb hab
    simp only at ha hb
    obtain ⟨i, hi, rfl⟩ := (mem_anonsOf_atoms m₀ a).1 ha
    obtain ⟨j, hj, rfl⟩ := (mem_anonsOf_atoms m₀ b).1 hb
    obtain ⟨m, hp⟩ := pairs_mem_left hsim m₀ hm₀
    rw [renameOf_spec _ hcons _ hp i (hole_lt_anon _ _ hi),
        renameOf_spec _ hcons _ hp j (hole_lt_anon _ _ hj)]
    simp only; omega

/-! ### import directories -/

theorem findInDirs_some (fs : String → String → Option String) (f : String) :
    ∀ (dirs : List String) (t : String), findInDirs fs f dirs = some t → ∃ d ∈ dirs, fs d f = some t
  | [], _, h => by cases h
  | d :: r, t, h => by
    simp only [findInDirs] at h
    cases hd : fs d f with
    | some t' => rw [hd] at h; cases h; exact ⟨d, List.mem_cons_self, hd⟩
    | none =>
      rw [hd] at h
      obtain ⟨d', hd', h'⟩ := findInDirs_some fs f r t h
      exact ⟨d', List.mem_cons_of_mem _ hd', h'⟩

theorem findInDirs_none (fs : String → String → Option String) (f : String) :
    ∀ (dirs : List String), findInDirs fs f dirs = none → ∀ d ∈ dirs, fs d f = none
  | [], _, d, hd => by cases hd
  | d' :: r, h, d, hd => by
    simp only [findInDirs] at h
    cases hd' : fs d' f with
    | some t' => rw [hd'] at h; cases h
    | none =>
      rw [hd'] at h
      rcases List.mem_cons.1 hd with rfl | hd
      · exact hd'
      · exact findInDirs_none fs f r h d hd

end Emboss.Purity
