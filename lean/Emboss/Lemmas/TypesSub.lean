import Emboss.Lemmas.TypesIff
namespace Emboss.Types

/-! Sub-expressions: whatever the checker reports for a part of an expression it also
reports for the whole (so the parts of an accepted expression are accepted), and an
expression left without a type always comes with an error. -/

theorem DTy.toTy_ne_none (t : DTy) : t.toTy ≠ .none := by cases t <;> simp [DTy.toTy]

/-- an expression the checker leaves untyped has been reported -/
theorem tc_none_err (e : Expr) : ∀ (file : FileId), (tc file e).ty = .none → (tc file e).errs ≠ [] :=
  match e with
  | .num _ | .boolc _ | .enumv _ _ | .lparamArr _ => by
    intro file h; simp [tc, Res.pure] at h
  | .lparam _ t | .lphys _ t => by
    intro file h; simp [tc, Res.pure, DTy.toTy_ne_none] at h
  | .cother _ | .cphys _ _ _ => by
    intro file _; simp [tc]
  | .builtin _ b => by
    intro file h; cases b <;> simp [tc, Res.pure] at h ⊢
  | .cvirt _ df d => by
    intro file h; simp only [tc] at h ⊢; exact tc_none_err d df h
  | .lvirt _ df d => by
    intro file h; simp only [tc] at h ⊢; exact tc_none_err d df h
  | .bin _ op _ _ => by
    intro file h
    simp only [tc] at h ⊢
    repeat' split
    all_goals (try simp)
    all_goals (simp_all; try (cases op <;> simp_all [BinOp.mono]))
  | .choice _ _ _ _ => by
    intro file h
    simp only [tc] at h ⊢
    repeat' split
    all_goals (try simp)
    all_goals simp_all [Ty.isValue]
  | .fn _ f _ => by
    intro file h; cases f <;> simp [tc, Fn.result] at h

theorem bin_sub_errs {file l op a b} {er : Err}
    (h : er ∈ (tc file a).errs ∨ er ∈ (tc file b).errs) : er ∈ (tc file (.bin l op a b)).errs := by
  simp only [tc]
  repeat' split
  all_goals simp only [List.mem_append]
  all_goals grind

theorem choice_sub_errs {file l c t f} {er : Err}
    (h : er ∈ (tc file c).errs ∨ er ∈ (tc file t).errs ∨ er ∈ (tc file f).errs) :
    er ∈ (tc file (.choice l c t f)).errs := by
  simp only [tc]
  repeat' split
  all_goals simp only [List.mem_append]
  all_goals grind

mutual
theorem parts_errs (e : Expr) : ∀ (file : FileId), ∀ p ∈ parts file e, ∀ er ∈ (tc p.1 p.2).errs,
    er ∈ (tc file e).errs :=
  match e with
  | .num _ | .boolc _ | .enumv _ _ | .lparamArr _ | .lparam _ _ | .lphys _ _ | .cother _
  | .cphys _ _ _ | .builtin _ _ => by
    intro file p hp er her
    simp only [parts, List.mem_singleton] at hp
    subst hp; exact her
  | .cvirt l df d => by
    intro file p hp er her
    simp only [parts, List.mem_cons] at hp
    rcases hp with rfl | hp
    · exact her
    · simp only [tc]; exact parts_errs d df p hp er her
  | .lvirt l df d => by
    intro file p hp er her
    simp only [parts, List.mem_cons] at hp
    rcases hp with rfl | hp
    · exact her
    · simp only [tc]; exact parts_errs d df p hp er her
  | .bin l op a b => by
    intro file p hp er her
    simp only [parts, List.mem_cons, List.mem_append] at hp
    rcases hp with rfl | hp | hp
    · exact her
    · exact bin_sub_errs (.inl (parts_errs a file p hp er her))
    · exact bin_sub_errs (.inr (parts_errs b file p hp er her))
  | .choice l c t f => by
    intro file p hp er her
    simp only [parts, List.mem_cons, List.mem_append] at hp
    rcases hp with rfl | hp | hp | hp
    · exact her
    · exact choice_sub_errs (.inl (parts_errs c file p hp er her))
    · exact choice_sub_errs (.inr (.inl (parts_errs t file p hp er her)))
    · exact choice_sub_errs (.inr (.inr (parts_errs f file p hp er her)))
  | .fn l f args => by
    intro file p hp er her
    simp only [parts, List.mem_cons] at hp
    rcases hp with rfl | hp
    · exact her
    · simp only [tc, List.mem_append]
      exact .inl (.inl (partsList_errs args file p hp er her))
theorem partsList_errs (es : List Expr) : ∀ (file : FileId), ∀ p ∈ partsList file es,
    ∀ er ∈ (tc p.1 p.2).errs, er ∈ (tcList file es).errs :=
  match es with
  | [] => by intro file p hp; simp [partsList] at hp
  | e :: es => by
    intro file p hp er her
    simp only [partsList, List.mem_append] at hp
    simp only [tcList, List.mem_append]
    rcases hp with hp | hp
    · exact .inl (parts_errs e file p hp er her)
    · exact .inr (partsList_errs es file p hp er her)
end

mutual
/-- constancy is hereditary: every part of a closed expression (through references as well) is closed -/
theorem parts_closed (e : Expr) : ∀ (file : FileId), closed e = true → ∀ p ∈ parts file e, closed p.2 = true :=
  match e with
  | .num _ | .boolc _ | .enumv _ _ | .lparamArr _ | .lparam _ _ | .lphys _ _ | .cother _
  | .cphys _ _ _ | .builtin _ _ => by
    intro file h p hp
    simp only [parts, List.mem_singleton] at hp
    subst hp; exact h
  | .cvirt l df d => by
    intro file h p hp
    simp only [parts, List.mem_cons] at hp
    rcases hp with rfl | hp
    · exact h
    · simp only [closed] at h; exact parts_closed d df h p hp
  | .lvirt l df d => by
    intro file h p hp
    simp only [parts, List.mem_cons] at hp
    rcases hp with rfl | hp
    · exact h
    · simp only [closed] at h; exact parts_closed d df h p hp
  | .bin l op a b => by
    intro file h p hp
    simp only [parts, List.mem_cons, List.mem_append] at hp
    rcases hp with rfl | hp | hp
    · exact h
    · simp only [closed, Bool.and_eq_true] at h; exact parts_closed a file h.1 p hp
    · simp only [closed, Bool.and_eq_true] at h; exact parts_closed b file h.2 p hp
  | .choice l c t f => by
    intro file h p hp
    simp only [parts, List.mem_cons, List.mem_append] at hp
    rcases hp with rfl | hp | hp | hp
    · exact h
    · simp only [closed, Bool.and_eq_true] at h; exact parts_closed c file h.1 p hp
    · simp only [closed, Bool.and_eq_true] at h; exact parts_closed t file h.2.1 p hp
    · simp only [closed, Bool.and_eq_true] at h; exact parts_closed f file h.2.2 p hp
  | .fn l f args => by
    intro file h p hp
    simp only [parts, List.mem_cons] at hp
    rcases hp with rfl | hp
    · exact h
    · simp only [closed] at h; exact partsList_closed args file h p hp
theorem partsList_closed (es : List Expr) : ∀ (file : FileId), closedList es = true →
    ∀ p ∈ partsList file es, closed p.2 = true :=
  match es with
  | [] => by intro file _ p hp; simp [partsList] at hp
  | e :: es => by
    intro file h p hp
    simp only [partsList, List.mem_append] at hp
    simp only [closedList, Bool.and_eq_true] at h
    rcases hp with hp | hp
    · exact parts_closed e file h.1 p hp
    · exact partsList_closed es file h.2 p hp
end

/-- what a closed expression cannot be -/
theorem closed_not_ref {e : Expr} (h : closed e = true) :
    (∀ l t, e ≠ .lphys l t) ∧ (∀ l t, e ≠ .lparam l t) ∧ (∀ l, e ≠ .lparamArr l) ∧ (∀ l b, e ≠ .builtin l b) := by
  refine ⟨?_, ?_, ?_, ?_⟩ <;> intros <;> intro he <;> subst he <;> simp [closed] at h

/-- the expression is one of its own parts -/
theorem self_mem_parts (file : FileId) (e : Expr) : (file, e) ∈ parts file e := by
  cases e <;> simp [parts]

end Emboss.Types
