/-
Helper lemmas for C06: the hypothesis `noMultilineArray` of the text-level round trip is exact.
In multi-line mode, as soon as the value tree holds an array with two or more elements the
reader model *fails* on the writer model's text: everything before that array is read back
(`read_val` & co), the first element of the array is read back, and then `afterElem` finds the
`[` of the next index marker where `ReadArrayFromTextStream` wants `,` or `}`; the enclosing
readers hand the failure up.
-/
import Emboss.Lemmas.TextRoundFuel
namespace Emboss.Text

theorem afterElem_bracket {r : List Char} {k : Kind} {X : List Piece} (h : At r k (.punct '[' :: X)) :
    afterElem r = none := by
  obtain ⟨_, hpeek, _⟩ := h.punct
  simp [afterElem, hpeek]

/-- If some element is still to be written, the next token of the multi-line element list is
the `[` of its index marker. -/
theorem elemsML_next_bracket (o : Opts) : ∀ (vs : TVals) (j : Nat), 1 ≤ vs.written →
    ∃ a X, writeElemsML o j vs = a ++ .punct '[' :: X ∧ toks a = []
  | .nil, j, h => by simp [TVals.written] at h
  | .cons v vs, j, _ => by
    rw [writeElemsML]
    exact ⟨[.space ('\n' :: o.plusOne.current)],
      .word (writeInt .u64 j o.base o.grouping) :: .punct ']' :: .punct ':' :: .space [' '] ::
        (writeVal o.plusOne v ++ writeElemsML o (j + 1) vs), by simp [indexMarker], rfl⟩
  | .skip vs, j, h => by
    obtain ⟨a, X, hs, ha⟩ := elemsML_next_bracket o vs (j + 1) h
    rw [writeElemsML, hs]
    refine ⟨_ ++ a, X, (List.append_assoc _ _ _).symm, ?_⟩
    by_cases hc : o.comments = true <;> simp [hc, toks, ha]

mutual
theorem neg_val : ∀ (v : TVal) (s : RShape) (o : Opts) (path r : List Char) (fuel : Nat) (k : Kind)
    (R : List Piece), o.Rereadable → o.multiline = true → v.WF → Matches s v → ¬ v.SmallArrays →
    needVal v ≤ fuel → At r k (writeVal o v ++ R) → readVal fuel s path r = .fail
  | .scalar sc, s, o, path, r, fuel, k, R, ho, hml, hv, hm, hbad, hf, h => absurd trivial hbad
  | .arr a vs, s, o, path, r, fuel, k, R, ho, hml, hv, hm, hbad, hf, h => by
    cases s with
    | arr count elem =>
      obtain ⟨hlen, hcnt, hall⟩ : vs.length = count ∧ count < 2 ^ 64 ∧ MatchesAll elem vs := by
        simpa [Matches] using hm
      have hvs : vs.WF := hv
      obtain ⟨f, rfl, hf'⟩ := fuel_succ (n := needElems vs) (by simpa [needVal] using hf)
      have hbad' : 2 ≤ vs.written ∨ ¬ vs.SmallArrays := by
        by_cases h2 : 2 ≤ vs.written
        · exact Or.inl h2
        · exact Or.inr (fun hs => hbad ⟨by omega, hs⟩)
      rw [writeVal] at h
      simp only [hml, if_true, List.cons_append, List.append_assoc, List.nil_append] at h
      obtain ⟨hread, _, h1⟩ := h.punct
      have h2 := At.skip _ (by split <;> first | rfl | exact toks_asciiLines _ _ _) h1
      have := neg_elemsML vs elem o path _ f 0 0 count _ _ R ho hml hvs hall (by omega) hcnt hbad' hf' h2
      simp only [readVal, hread]; exact this
    | scalar _ => exact absurd hm (by simp [Matches])
    | struct _ => exact absurd hm (by simp [Matches])
  | .struct fs, s, o, path, r, fuel, k, R, ho, hml, hv, hm, hbad, hf, h => by
    cases s with
    | struct rfs =>
      have hmf : MatchesFields rfs fs := by simpa [Matches] using hm
      have hfs : fs.WF := hv
      obtain ⟨f, rfl, hf'⟩ := fuel_succ (n := needFields fs) (by simpa [needVal] using hf)
      rw [writeVal] at h
      simp only [hml, if_true, List.cons_append, List.append_assoc, List.nil_append] at h
      obtain ⟨hread, _, h1⟩ := h.punct
      have := neg_fields fs rfs o false path _ f _ _ R ho hml hfs hmf hbad hf' h1.skip_space
      simp only [readVal, hread]; exact this
    | scalar _ => exact absurd hm (by simp [Matches])
    | arr _ _ => exact absurd hm (by simp [Matches])

theorem neg_elemsML : ∀ (vs : TVals) (elem : RShape) (o : Opts) (path r : List Char)
    (fuel i idx count : Nat) (k : Kind) (sp : List Char) (R : List Piece), o.Rereadable →
    o.multiline = true → vs.WF → MatchesAll elem vs → i + vs.length = count → count < 2 ^ 64 →
    (2 ≤ vs.written ∨ ¬ vs.SmallArrays) →
    needElems vs ≤ fuel → At r k (writeElemsML o i vs ++ (.space sp :: .punct '}' :: R)) →
    readElems fuel count elem path idx r = .fail
  | .nil, elem, o, path, r, fuel, i, idx, count, k, sp, R, ho, hml, hvs, hall, hcount, hc64, hbad, hf, h => by
    rcases hbad with hb | hb
    · exact absurd hb (by simp [TVals.written])
    · exact absurd trivial hb
  | .skip vs, elem, o, path, r, fuel, i, idx, count, k, sp, R, ho, hml, hvs, hall, hcount, hc64, hbad,
      hf, h => by
    have hvs' : vs.WF := hvs
    have hall' : MatchesAll elem vs := hall
    have hlen : i + (vs.length + 1) = count := hcount
    have hbad' : 2 ≤ vs.written ∨ ¬ vs.SmallArrays := hbad
    have hf' : needElems vs ≤ fuel := hf
    rw [writeElemsML] at h
    by_cases hc : o.comments = true
    · simp only [hc, if_true, List.cons_append, List.nil_append] at h
      exact neg_elemsML vs elem o path r fuel (i + 1) idx count _ sp R ho hml hvs' hall' (by omega)
        hc64 hbad' hf' h.skip_space.skip_comment
    · simp only [hc, if_false, List.nil_append] at h
      exact neg_elemsML vs elem o path r fuel (i + 1) idx count _ sp R ho hml hvs' hall' (by omega)
        hc64 hbad' hf' h
  | .cons v vs, elem, o, path, r, fuel, i, idx, count, k, sp, R, ho, hml, hvs, hall, hcount, hc64, hbad,
      hf, h => by
    obtain ⟨hv, hvs'⟩ : v.WF ∧ vs.WF := hvs
    obtain ⟨hmv, _⟩ : Matches elem v ∧ MatchesAll elem vs := hall
    have hf2 : 1 + (needVal v + needElems vs) ≤ fuel := by simp only [needElems] at hf; omega
    obtain ⟨f, rfl, hf'⟩ := fuel_succ hf2
    have hlen : i + (vs.length + 1) = count := hcount
    rw [writeElemsML] at h
    simp only [List.cons_append, List.append_assoc] at h
    obtain ⟨rest, r2, hpeek, hmk, h2⟩ := read_marker o i _ (by omega) h.skip_space
    have hlt : ¬ i ≥ count := by omega
    by_cases hsv : v.SmallArrays
    · obtain ⟨r', hr', h3⟩ := read_val v elem o.plusOne (pathIdx path i) r2 f .other _ ho.plusOne hv hmv
        (fun _ => hsv) (by omega) h2
      by_cases hw0 : vs.written = 0
      · exfalso
        rcases hbad with hb | hb
        · simp only [TVals.written] at hb; omega
        · exact hb ⟨hsv, smallArrays_unwritten vs hw0⟩
      · obtain ⟨a, X, hsplit, hta⟩ := elemsML_next_bracket o vs (i + 1) (by omega)
        rw [hsplit, List.append_assoc, List.cons_append] at h3
        have ha : afterElem r' = none := afterElem_bracket (At.skip a hta h3)
        simp only [pathIdx] at hr'
        rw [readElems]
        simp only [hpeek, hmk, hlt, hr', ha, if_true, if_false]
        simp
    · have hfail := neg_val v elem o.plusOne (pathIdx path i) r2 f .other _ ho.plusOne hml hv hmv hsv
        (by omega) h2
      simp only [pathIdx] at hfail
      rw [readElems]
      simp only [hpeek, hmk, hlt, hfail, if_true, if_false]
      simp

theorem neg_fields : ∀ (fs : TFields) (rfs : RFields) (o : Opts) (wrote : Bool) (path r : List Char)
    (fuel : Nat) (k : Kind) (sp : List Char) (R : List Piece), o.Rereadable → o.multiline = true →
    fs.WF → MatchesFields rfs fs → ¬ fs.SmallArrays → needFields fs ≤ fuel →
    At r k (writeFields o wrote fs ++ (.space sp :: .punct '}' :: R)) →
    readFields fuel rfs path r = .fail
  | .nil, rfs, o, wrote, path, r, fuel, k, sp, R, ho, hml, hfs, hm, hbad, hf, h => absurd trivial hbad
  | .cons name false v fs, rfs, o, wrote, path, r, fuel, k, sp, R, ho, hml, hfs, hm, hbad, hf, h => by
    obtain ⟨hname, _, hv, hfs'⟩ : ValidWord name ∧ _ ∧ v.WF ∧ fs.WF := hfs
    obtain ⟨⟨s, hfind, hmv⟩, hm'⟩ :
      (∃ s, findField rfs name = some s ∧ Matches s v) ∧ MatchesFields rfs fs := hm
    have hf2 : 1 + (needVal v + needFields fs) ≤ fuel := by simp only [needFields] at hf; omega
    obtain ⟨f, rfl, hf'⟩ := fuel_succ hf2
    rw [writeFields] at h
    simp only [hml, if_true, List.cons_append, List.append_assoc, List.nil_append] at h
    obtain ⟨hn, h1⟩ := readFieldName_word h.skip_space
    obtain ⟨hcol, _, h2⟩ := h1.punct
    have hne : name ≠ ['}'] := validWord_ne_punct hname '}' (by decide)
    by_cases hsv : v.SmallArrays
    · obtain ⟨r', hr', h4⟩ := read_val v s o.plusOne (pathField path name) _ f .other _ ho.plusOne
        hv hmv (fun _ => hsv) (by omega) h2.skip_space
      have hbad' : ¬ fs.SmallArrays := fun hs => hbad ⟨hsv, hs⟩
      have hfail := neg_fields fs rfs o true path r' f _ sp R ho hml hfs' hm' hbad' (by omega)
        h4.skip_space
      simp only [pathField] at hr'
      simp [readFields, hn, hne, hcol, hfind, hr', hfail]
    · have hfail := neg_val v s o.plusOne (pathField path name) _ f .other _ ho.plusOne hml hv hmv hsv
        (by omega) h2.skip_space
      simp only [pathField] at hfail
      simp [readFields, hn, hne, hcol, hfind, hfail]
  | .cons name true v fs, rfs, o, wrote, path, r, fuel, k, sp, R, ho, hml, hfs, hm, hbad, hf, h => by
    obtain ⟨_, hro, _, hfs'⟩ : ValidWord name ∧ (true = true → ∃ s, v = .scalar s) ∧ v.WF ∧ fs.WF := hfs
    obtain ⟨sc, rfl⟩ := hro rfl
    have hm' : MatchesFields rfs fs := hm
    have hbad' : ¬ fs.SmallArrays := fun hs => hbad ⟨trivial, hs⟩
    have hf' : needFields fs ≤ fuel := hf
    rw [writeFields] at h
    by_cases hc : o.comments = true
    · simp only [hc, if_true, List.cons_append, List.append_assoc, List.nil_append] at h
      exact neg_fields fs rfs o wrote path r fuel _ sp R ho hml hfs' hm' hbad' hf'
        h.skip_space.skip_comment.skip_space
    · simp only [hc, if_false, List.nil_append] at h
      exact neg_fields fs rfs o wrote path r fuel _ sp R ho hml hfs' hm' hbad' hf' h
  | .skip name fs, rfs, o, wrote, path, r, fuel, k, sp, R, ho, hml, hfs, hm, hbad, hf, h => by
    obtain ⟨_, hfs'⟩ : ValidWord name ∧ fs.WF := hfs
    have hm' : MatchesFields rfs fs := hm
    have hbad' : ¬ fs.SmallArrays := hbad
    have hf' : needFields fs ≤ fuel := hf
    rw [writeFields] at h
    by_cases hc : o.comments = true
    · simp only [hc, hml, if_true, List.cons_append, List.append_assoc, List.nil_append] at h
      exact neg_fields fs rfs o wrote path r fuel _ sp R ho hml hfs' hm' hbad' hf'
        h.skip_space.skip_comment.skip_space
    · simp only [hc, if_false, List.nil_append] at h
      exact neg_fields fs rfs o wrote path r fuel _ sp R ho hml hfs' hm' hbad' hf' h
end

/-- Outside `noMultilineArray` the reader model rejects the writer model's text. -/
theorem updateFromText_writeToString_fail (o : Opts) (v : TVal) (s : RShape) (ho : o.Rereadable)
    (hv : v.WF) (hm : Matches s v) (hml : ¬ noMultilineArray o v) :
    updateFromText s (writeToString o v) = .fail := by
  have hml' : o.multiline = true ∧ ¬ v.SmallArrays := by
    by_cases h1 : o.multiline = true
    · exact ⟨h1, fun h2 => hml (fun _ => h2)⟩
    · exact absurd (fun h => absurd h h1) hml
  have hws := (wellSep_val v o ho hv).1
  have hat : At (render (writeVal o v)) .other (writeVal o v ++ []) := by
    simpa using At.start hws (by decide)
  have hfuel : needVal v ≤ 2 * (writeToString o v).length + 8 := by
    have := need_val v o hv
    simp only [writeToString]; omega
  exact neg_val v s o [] _ _ .other [] ho hml'.1 hv hm hml'.2 hfuel hat

end Emboss.Text
