/-
MemoryAccessor lemmas: both code paths of the little- and big-endian loads and stores compute
the documented container value.
-/
import Emboss.Lemmas.Bits
import Emboss.Spec.Scalar
namespace Emboss.Scalar
open Emboss.Bits Emboss.Scalar.Spec

/-- Every element is a byte. -/
def Bytes (l : List Nat) : Prop := ∀ b ∈ l, b < 256

theorem Bytes.tail {b : Nat} {l : List Nat} (h : Bytes (b :: l)) : Bytes l :=
  fun x hx => h x (List.mem_cons_of_mem _ hx)

theorem Bytes.head {b : Nat} {l : List Nat} (h : Bytes (b :: l)) : b < 256 :=
  h b (List.mem_cons_self)

theorem Bytes.append {l₁ l₂ : List Nat} (h₁ : Bytes l₁) (h₂ : Bytes l₂) : Bytes (l₁ ++ l₂) := by
  intro b hb; rcases List.mem_append.mp hb with h | h
  · exact h₁ b h
  · exact h₂ b h

theorem Bytes.reverse {l : List Nat} (h : Bytes l) : Bytes l.reverse :=
  fun b hb => h b (List.mem_reverse.mp hb)

theorem bytes_replicate_zero (n : Nat) : Bytes (List.replicate n 0) := by
  intro b hb; rw [(List.mem_replicate.mp hb).2]; decide

theorem nativeLoad_eq_leValue (l : List Nat) : nativeLoad l = leValue l := by
  induction l with
  | nil => rfl
  | cons b bs ih => simp [nativeLoad, leValue, ih]

theorem pow8_succ (i : Nat) : 2 ^ (8 * (i + 1)) = 2 ^ (8 * i) * 256 := by
  rw [Nat.mul_add, Nat.pow_add]

theorem leValue_lt {l : List Nat} (h : Bytes l) : leValue l < 2 ^ (8 * l.length) := by
  induction l with
  | nil => simp [leValue]
  | cons b bs ih =>
    have := ih h.tail
    have hb := h.head
    simp only [leValue, List.length_cons, pow8_succ]
    omega

theorem leValue_append (l₁ l₂ : List Nat) :
    leValue (l₁ ++ l₂) = leValue l₁ + 2 ^ (8 * l₁.length) * leValue l₂ := by
  induction l₁ with
  | nil => simp [leValue]
  | cons b bs ih =>
    simp only [List.cons_append, leValue, ih, List.length_cons, pow8_succ]
    rw [Nat.mul_add, Nat.mul_comm (2 ^ (8 * bs.length)) 256, Nat.mul_assoc, Nat.add_assoc]

theorem leValue_replicate_zero (n : Nat) : leValue (List.replicate n 0) = 0 := by
  induction n with
  | zero => rfl
  | succ n ih => simp [List.replicate_succ, leValue, ih]

/-! ### Byte loops -/

theorem readLEAux_eq (W : Nat) (bs : List Nat) (i r : Nat) (hb : Bytes bs)
    (hr : r < 2 ^ (8 * i)) (hW : 8 * (i + bs.length) ≤ W) :
    readLEAux W bs i r = r + 2 ^ (8 * i) * leValue bs := by
  induction bs generalizing i r with
  | nil => simp [readLEAux, leValue]
  | cons b bs ih =>
    have hb0 := hb.head
    simp only [List.length_cons] at hW
    have hlt : r + b * 2 ^ (8 * i) < 2 ^ (8 * (i + 1)) := by
      rw [pow8_succ]
      have : b * 2 ^ (8 * i) ≤ 255 * 2 ^ (8 * i) := Nat.mul_le_mul_right _ (by omega)
      omega
    have hW' : 2 ^ (8 * (i + 1)) ≤ 2 ^ W := pow_le_pow (by omega)
    have hsh : shl (arithW W) b (i * 8) = b * 2 ^ (8 * i) := by
      rw [Nat.mul_comm i 8]
      apply shl_eq
      have : 2 ^ W ≤ 2 ^ arithW W := pow_le_pow (le_arithW W)
      omega
    simp only [readLEAux, hsh, or_eq_add_shift hr, wrap_of_lt (Nat.lt_of_lt_of_le hlt hW')]
    rw [ih (i + 1) _ hb.tail hlt (by omega)]
    simp only [leValue, pow8_succ]
    rw [Nat.mul_add, Nat.mul_comm b, Nat.mul_assoc, Nat.add_assoc]

theorem readLELoop_eq {kBits : Nat} {bytes : List Nat} (hb : Bytes bytes)
    (hlen : bytes.length * 8 = kBits) (hk : kBits ≤ 64) :
    readLELoop kBits bytes = leValue bytes := by
  unfold readLELoop
  rw [readLEAux_eq _ _ 0 0 hb (by simp) (by have := le_leastWidth hk; omega)]
  simp

/-- Big-endian value, most significant byte first. -/
def beValue : List Nat → Nat
  | [] => 0
  | b :: bs => b * 2 ^ (8 * bs.length) + beValue bs

theorem beValue_lt {l : List Nat} (h : Bytes l) : beValue l < 2 ^ (8 * l.length) := by
  induction l with
  | nil => simp [beValue]
  | cons b bs ih =>
    have := ih h.tail
    have hb := h.head
    simp only [beValue, List.length_cons, pow8_succ]
    have : b * 2 ^ (8 * bs.length) ≤ 255 * 2 ^ (8 * bs.length) := Nat.mul_le_mul_right _ (by omega)
    omega

theorem beValue_eq_leValue_reverse (l : List Nat) : beValue l = leValue l.reverse := by
  induction l with
  | nil => rfl
  | cons b bs ih =>
    simp only [beValue, List.reverse_cons, leValue_append, List.length_reverse, leValue, ih]
    rw [Nat.mul_zero, Nat.add_zero, Nat.mul_comm, Nat.add_comm]

theorem readBEAux_eq (W kBits : Nat) (bs : List Nat) (i r : Nat) (hb : Bytes bs)
    (hk : kBits = 8 * (i + bs.length)) (hr : ∃ a, r = 2 ^ (8 * bs.length) * a)
    (hrlt : r < 2 ^ kBits) (hW : kBits ≤ W) :
    readBEAux W kBits bs i r = r + beValue bs := by
  induction bs generalizing i r with
  | nil => simp [readBEAux, beValue]
  | cons b bs ih =>
    have hb0 := hb.head
    obtain ⟨a, ha⟩ := hr
    simp only [List.length_cons] at hk ha
    have hsh_amt : kBits - 8 - i * 8 = 8 * bs.length := by omega
    have hblt : b * 2 ^ (8 * bs.length) < 2 ^ (8 * (bs.length + 1)) := by
      rw [pow8_succ]
      have : b * 2 ^ (8 * bs.length) ≤ 255 * 2 ^ (8 * bs.length) := Nat.mul_le_mul_right _ (by omega)
      have := two_pow_pos' (8 * bs.length)
      omega
    have hsh : shl (arithW W) b (kBits - 8 - i * 8) = b * 2 ^ (8 * bs.length) := by
      rw [hsh_amt]; apply shl_eq
      have h1 : 2 ^ (8 * (bs.length + 1)) ≤ 2 ^ kBits := pow_le_pow (by omega)
      have h2 : 2 ^ kBits ≤ 2 ^ arithW W := pow_le_pow (Nat.le_trans hW (le_arithW W))
      omega
    -- r is a multiple of 2^(8(len+1)), the new byte lands below it
    have hor : r ||| b * 2 ^ (8 * bs.length) = r + b * 2 ^ (8 * bs.length) := by
      rw [ha, ← Nat.two_pow_add_eq_or_of_lt hblt]
    -- r + b·2^(8 len) < 2^kBits : r ≤ 2^kBits − 2^(8(len+1))
    have hsum : r + b * 2 ^ (8 * bs.length) < 2 ^ kBits := by
      have hk' : 2 ^ kBits = 2 ^ (8 * (bs.length + 1)) * 2 ^ (8 * i) := by
        rw [← Nat.pow_add]; congr 1; omega
      rw [ha, hk'] at hrlt
      have ha' : a < 2 ^ (8 * i) := Nat.lt_of_mul_lt_mul_left hrlt
      rw [ha, hk']
      calc 2 ^ (8 * (bs.length + 1)) * a + b * 2 ^ (8 * bs.length)
          < 2 ^ (8 * (bs.length + 1)) * a + 2 ^ (8 * (bs.length + 1)) := by omega
        _ = 2 ^ (8 * (bs.length + 1)) * (a + 1) := (Nat.mul_succ _ _).symm
        _ ≤ 2 ^ (8 * (bs.length + 1)) * 2 ^ (8 * i) := Nat.mul_le_mul_left _ ha'
    simp only [readBEAux, hsh, hor, wrap_of_lt (lt_pow_of_lt_of_le hsum hW)]
    rw [ih (i + 1) _ hb.tail (by omega) ?_ hsum]
    · simp only [beValue]; omega
    · refine ⟨256 * a + b, ?_⟩
      rw [ha, pow8_succ, Nat.mul_add, Nat.mul_comm b]
      rw [Nat.mul_assoc]

theorem readBELoop_eq {kBits : Nat} {bytes : List Nat} (hb : Bytes bytes)
    (hlen : bytes.length * 8 = kBits) (hk : kBits ≤ 64) :
    readBELoop kBits bytes = leValue bytes.reverse := by
  unfold readBELoop
  rw [readBEAux_eq _ kBits bytes 0 0 hb (by omega) ⟨0, by simp⟩ (two_pow_pos' _)
    (le_leastWidth hk)]
  simp [beValue_eq_leValue_reverse]

/-! ### memcpy paths -/

theorem readLEMemcpy_eq (kBits : Nat) (bytes : List Nat) :
    readLEMemcpy kBits bytes = leValue bytes := by
  unfold readLEMemcpy
  rw [nativeLoad_eq_leValue, leValue_append, leValue_replicate_zero]; simp

theorem byteSwap16_eq {x : Nat} (h : x < 2 ^ 16) : byteSwap16 x = x % 256 * 256 + x / 256 := by
  unfold byteSwap16
  have h1 : shl 32 x 8 = 2 ^ 8 * x := by
    rw [shl_eq (by omega)]; exact Nat.mul_comm _ _
  have h2 : x >>> 8 = x / 256 := by rw [Nat.shiftRight_eq_div_pow]
  rw [h1, h2, ← Nat.two_pow_add_eq_or_of_lt (by omega)]
  unfold wrap; omega

theorem byteSwap16_lt (x : Nat) : byteSwap16 x < 2 ^ 16 := wrap_lt _ _

theorem byteSwap32_eq {x : Nat} (h : x < 2 ^ 32) :
    byteSwap32 x = byteSwap16 (x % 65536) * 65536 + byteSwap16 (x / 65536) := by
  unfold byteSwap32
  have hw1 : wrap 16 x = x % 65536 := rfl
  have hw2 : wrap 16 (x >>> 16) = x / 65536 := by
    rw [Nat.shiftRight_eq_div_pow]; exact wrap_of_lt (by omega)
  rw [hw1, hw2]
  have := byteSwap16_lt (x % 65536)
  have := byteSwap16_lt (x / 65536)
  rw [shl_eq (by omega), Nat.mul_comm _ (2 ^ 16), ← Nat.two_pow_add_eq_or_of_lt (by omega)]

theorem byteSwap32_lt {x : Nat} (h : x < 2 ^ 32) : byteSwap32 x < 2 ^ 32 := by
  rw [byteSwap32_eq h]
  have := byteSwap16_lt (x % 65536)
  have := byteSwap16_lt (x / 65536)
  omega

theorem byteSwap64_eq {x : Nat} (h : x < 2 ^ 64) :
    byteSwap64 x = byteSwap32 (x % 4294967296) * 4294967296 + byteSwap32 (x / 4294967296) := by
  unfold byteSwap64
  have hw1 : wrap 32 x = x % 4294967296 := rfl
  have hw2 : wrap 32 (x >>> 32) = x / 4294967296 := by
    rw [Nat.shiftRight_eq_div_pow]; exact wrap_of_lt (by omega)
  rw [hw1, hw2]
  have := byteSwap32_lt (x := x % 4294967296) (by omega)
  have := byteSwap32_lt (x := x / 4294967296) (by omega)
  rw [shl_eq (by omega), Nat.mul_comm _ (2 ^ 32), ← Nat.two_pow_add_eq_or_of_lt (by omega)]

theorem leValue_split {l₁ l₂ : List Nat} (h₁ : Bytes l₁) :
    leValue (l₁ ++ l₂) % 2 ^ (8 * l₁.length) = leValue l₁ ∧
    leValue (l₁ ++ l₂) / 2 ^ (8 * l₁.length) = leValue l₂ := by
  rw [leValue_append]
  have h := leValue_lt h₁
  have hp := two_pow_pos' (8 * l₁.length)
  constructor
  · rw [Nat.add_mul_mod_self_left]; exact Nat.mod_eq_of_lt h
  · rw [Nat.add_mul_div_left _ _ hp, Nat.div_eq_of_lt h, Nat.zero_add]

theorem halves {n : Nat} {mem : List Nat} (h : mem.length = n + n) :
    ∃ l₁ l₂, mem = l₁ ++ l₂ ∧ l₁.length = n ∧ l₂.length = n :=
  ⟨mem.take n, mem.drop n, (List.take_append_drop n mem).symm, by simp [h], by simp [h]⟩

theorem byteSwap16_leValue {mem : List Nat} (hlen : mem.length = 2) (hb : Bytes mem) :
    byteSwap16 (leValue mem) = leValue mem.reverse := by
  match mem, hlen, hb with
  | [a, b], _, hb =>
    have ha := hb a (by simp); have hb' := hb b (by simp)
    simp only [leValue, List.reverse_cons, List.reverse_nil, List.nil_append, List.cons_append]
    rw [byteSwap16_eq (by omega)]; omega

theorem byteSwap32_leValue {mem : List Nat} (hlen : mem.length = 4) (hb : Bytes mem) :
    byteSwap32 (leValue mem) = leValue mem.reverse := by
  obtain ⟨l₁, l₂, rfl, h₁, h₂⟩ := halves (n := 2) hlen
  have hb₁ : Bytes l₁ := fun x hx => hb x (List.mem_append_left _ hx)
  have hb₂ : Bytes l₂ := fun x hx => hb x (List.mem_append_right _ hx)
  have hlt := leValue_lt hb
  simp only [List.length_append, h₁, h₂] at hlt
  obtain ⟨hm, hd⟩ := leValue_split (l₂ := l₂) hb₁
  rw [h₁] at hm hd
  rw [byteSwap32_eq (by simpa using hlt)]
  rw [show (65536 : Nat) = 2 ^ (8 * 2) by decide, hm, hd, byteSwap16_leValue h₁ hb₁,
    byteSwap16_leValue h₂ hb₂, List.reverse_append, leValue_append, List.length_reverse, h₂]
  omega

theorem byteSwap64_leValue {mem : List Nat} (hlen : mem.length = 8) (hb : Bytes mem) :
    byteSwap64 (leValue mem) = leValue mem.reverse := by
  obtain ⟨l₁, l₂, rfl, h₁, h₂⟩ := halves (n := 4) hlen
  have hb₁ : Bytes l₁ := fun x hx => hb x (List.mem_append_left _ hx)
  have hb₂ : Bytes l₂ := fun x hx => hb x (List.mem_append_right _ hx)
  have hlt := leValue_lt hb
  simp only [List.length_append, h₁, h₂] at hlt
  obtain ⟨hm, hd⟩ := leValue_split (l₂ := l₂) hb₁
  rw [h₁] at hm hd
  rw [byteSwap64_eq (by simpa using hlt)]
  rw [show (4294967296 : Nat) = 2 ^ (8 * 4) by decide, hm, hd, byteSwap32_leValue h₁ hb₁,
    byteSwap32_leValue h₂ hb₂, List.reverse_append, leValue_append, List.length_reverse, h₂]
  omega

/-- `ByteSwap` reverses the object representation. -/
theorem byteSwap_nativeLoad {W : Nat} {mem : List Nat} (hW : W = 8 ∨ W = 16 ∨ W = 32 ∨ W = 64)
    (hlen : mem.length * 8 = W) (hb : Bytes mem) :
    byteSwap W (nativeLoad mem) = nativeLoad mem.reverse := by
  simp only [nativeLoad_eq_leValue]
  rcases hW with rfl | rfl | rfl | rfl
  · have h1 : mem.length = 1 := by omega
    match mem, h1 with
    | [a], _ => simp [byteSwap]
  · simp only [byteSwap, if_true]; exact byteSwap16_leValue (by omega) hb
  · simp only [byteSwap, show (32 : Nat) = 16 ↔ False by decide, if_false, if_true]
    exact byteSwap32_leValue (by omega) hb
  · simp only [byteSwap, show (64 : Nat) = 16 ↔ False by decide,
      show (64 : Nat) = 32 ↔ False by decide, if_false, if_true]
    exact byteSwap64_leValue (by omega) hb

theorem readBEMemcpy_eq {kBits : Nat} {bytes : List Nat} (hb : Bytes bytes)
    (hlen : bytes.length * 8 = kBits) (hk : kBits ≤ 64) :
    readBEMemcpy kBits bytes = leValue bytes.reverse := by
  unfold readBEMemcpy
  have hle := le_leastWidth hk
  have hW := leastWidth_cases kBits
  rw [byteSwap_nativeLoad hW ?_ ((bytes_replicate_zero _).append hb)]
  · rw [nativeLoad_eq_leValue, List.reverse_append, leValue_append, List.reverse_replicate,
      leValue_replicate_zero]; simp
  · simp only [List.length_append, List.length_replicate]
    rcases hW with h | h | h | h <;> rw [h] at hle ⊢ <;> omega

/-- **Both code paths of the loads agree** with each other and with the documented
container value. -/
theorem loadLE_eq (p : Path) {kBits : Nat} {bytes : List Nat} (hb : Bytes bytes)
    (hlen : bytes.length * 8 = kBits) (hk : kBits ≤ 64) :
    loadLE p kBits bytes = leValue bytes := by
  cases p
  · exact readLEMemcpy_eq _ _
  · exact readLELoop_eq hb hlen hk

theorem loadBE_eq (p : Path) {kBits : Nat} {bytes : List Nat} (hb : Bytes bytes)
    (hlen : bytes.length * 8 = kBits) (hk : kBits ≤ 64) :
    loadBE p kBits bytes = leValue bytes.reverse := by
  cases p
  · exact readBEMemcpy_eq hb hlen hk
  · exact readBELoop_eq hb hlen hk

/-! ### Stores -/

theorem writeLELoop_eq_nativeStore (n v : Nat) : writeLELoop n v = nativeStore n v := by
  induction n generalizing v with
  | zero => rfl
  | succ n ih =>
    simp only [writeLELoop, nativeStore, ih, wrap, Nat.shiftRight_eq_div_pow]

theorem nativeStore_length (n v : Nat) : (nativeStore n v).length = n := by
  induction n generalizing v with
  | zero => rfl
  | succ n ih => simp [nativeStore, ih]

theorem nativeStore_bytes (n v : Nat) : Bytes (nativeStore n v) := by
  induction n generalizing v with
  | zero => intro b hb; simp [nativeStore] at hb
  | succ n ih =>
    intro b hb
    simp only [nativeStore, List.mem_cons] at hb
    rcases hb with rfl | hb
    · exact Nat.mod_lt _ (by decide)
    · exact ih _ b hb

theorem leValue_nativeStore (n v : Nat) : leValue (nativeStore n v) = v % 2 ^ (8 * n) := by
  induction n generalizing v with
  | zero => simp [nativeStore, leValue, Nat.mod_one]
  | succ n ih =>
    simp only [nativeStore, leValue, ih, pow8_succ]
    rw [Nat.mul_comm (2 ^ (8 * n)) 256, Nat.mod_mul]

theorem nativeStore_take {k n : Nat} (h : k ≤ n) (v : Nat) :
    (nativeStore n v).take k = nativeStore k v := by
  induction k generalizing n v with
  | zero => simp [nativeStore]
  | succ k ih =>
    obtain ⟨m, rfl⟩ : ∃ m, n = m + 1 := ⟨n - 1, by omega⟩
    simp only [nativeStore, List.take_succ_cons, ih (by omega : k ≤ m)]

theorem nativeStore_leValue {mem : List Nat} (hb : Bytes mem) :
    nativeStore mem.length (leValue mem) = mem := by
  induction mem with
  | nil => rfl
  | cons b bs ih =>
    have hb0 := hb.head
    simp only [List.length_cons, nativeStore, leValue]
    have h1 : (b + 256 * leValue bs) % 256 = b := by omega
    have h2 : (b + 256 * leValue bs) / 256 = leValue bs := by omega
    rw [h1, h2, ih hb.tail]

theorem storeLE_eq (p : Path) {kBits : Nat} (hk : kBits ≤ 64) (v : Nat) :
    storeLE p kBits v = nativeStore (kBits / 8) v := by
  cases p
  · simp only [storeLE, writeLEMemcpy]
    apply nativeStore_take
    have := le_leastWidth hk
    exact Nat.div_le_div_right this
  · exact writeLELoop_eq_nativeStore _ _

theorem storeBE_eq (p : Path) {kBits : Nat} (hk : kBits ≤ 64) (hm : kBits % 8 = 0) {v : Nat}
    (hv : v < 2 ^ kBits) : storeBE p kBits v = (nativeStore (kBits / 8) v).reverse := by
  cases p
  · simp only [storeBE, writeBEMemcpy]
    have hle := le_leastWidth hk
    have hW := leastWidth_cases kBits
    have hWm : leastWidth kBits / 8 * 8 = leastWidth kBits := by
      rcases hW with h | h | h | h <;> rw [h]
    have hvW : v < 2 ^ (8 * (leastWidth kBits / 8)) := by
      rw [Nat.mul_comm, hWm]; exact lt_pow_of_lt_of_le hv hle
    have hv' : v = nativeLoad (nativeStore (leastWidth kBits / 8) v) := by
      rw [nativeLoad_eq_leValue, leValue_nativeStore, Nat.mod_eq_of_lt hvW]
    have hsw : byteSwap (leastWidth kBits) v =
        leValue (nativeStore (leastWidth kBits / 8) v).reverse := by
      conv => lhs; rw [hv']
      rw [byteSwap_nativeLoad hW (by rw [nativeStore_length]; exact hWm) (nativeStore_bytes _ _),
        nativeLoad_eq_leValue]
    have hst : nativeStore (leastWidth kBits / 8) (byteSwap (leastWidth kBits) v) =
        (nativeStore (leastWidth kBits / 8) v).reverse := by
      rw [hsw]
      have := nativeStore_leValue (nativeStore_bytes (leastWidth kBits / 8) v).reverse
      rw [List.length_reverse, nativeStore_length] at this
      exact this
    rw [hst, List.drop_reverse, nativeStore_length]
    have hkle : kBits / 8 ≤ leastWidth kBits / 8 := Nat.div_le_div_right hle
    rw [show leastWidth kBits / 8 - (leastWidth kBits / 8 - kBits / 8) = kBits / 8 by omega,
      nativeStore_take hkle]
  · simp only [storeBE, writeBELoop, writeLELoop_eq_nativeStore]

end Emboss.Scalar
