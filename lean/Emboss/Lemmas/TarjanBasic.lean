import Emboss.Spec.Cycles
namespace Emboss.Deps

/-! ### Reachability -/

theorem Reach.trans {g : Graph} {a b c : Nat} (h1 : Reach g a b) (h2 : Reach g b c) : Reach g a c := by
  induction h1 with
  | refl => exact h2
  | step e _ ih => exact .step e (ih h2)

theorem Reach.single {g : Graph} {a b : Nat} (e : Edge g a b) : Reach g a b := .step e (.refl _)

theorem ReachP.toReach {g : Graph} {a b : Nat} (h : ReachP g a b) : Reach g a b := by
  induction h with
  | single e => exact .single e
  | step e _ ih => exact .step e ih

theorem ReachP.of_edge_reach {g : Graph} {a b c : Nat} (e : Edge g a b) (h : Reach g b c) : ReachP g a c := by
  induction h generalizing a with
  | refl => exact .single e
  | step e' _ ih => exact .step e (ih e')

theorem ReachP.head {g : Graph} {a c : Nat} (h : ReachP g a c) : ∃ b, Edge g a b ∧ Reach g b c := by
  cases h with
  | single e => exact ⟨_, e, .refl _⟩
  | step e h => exact ⟨_, e, h.toReach⟩

theorem Reach.cases_ne {g : Graph} {a b : Nat} (h : Reach g a b) (hne : a ≠ b) : ReachP g a b := by
  cases h with
  | refl => exact absurd rfl hne
  | step e h => exact .of_edge_reach e h

theorem ReachP.trans_reach {g : Graph} {a b c : Nat} (h1 : ReachP g a b) (h2 : Reach g b c) : ReachP g a c := by
  obtain ⟨x, e, h⟩ := h1.head
  exact .of_edge_reach e (h.trans h2)

theorem Mutual.refl (g : Graph) (a : Nat) : Mutual g a a := ⟨.refl _, .refl _⟩
theorem Mutual.symm {g : Graph} {a b : Nat} (h : Mutual g a b) : Mutual g b a := ⟨h.2, h.1⟩
theorem Mutual.trans {g : Graph} {a b c : Nat} (h1 : Mutual g a b) (h2 : Mutual g b c) : Mutual g a c :=
  ⟨h1.1.trans h2.1, h2.2.trans h1.2⟩

theorem cyclic_of_mutual_ne {g : Graph} {a b : Nat} (h : Mutual g a b) (hne : a ≠ b) : cyclic g a :=
  (h.1.cases_ne hne).trans_reach h.2

/-- A set closed under edges is closed under reachability. -/
theorem Reach.closed {g : Graph} {S : Nat → Prop} (hS : ∀ a b, S a → Edge g a b → S b)
    {a b : Nat} (h : Reach g a b) (ha : S a) : S b := by
  induction h with
  | refl => exact ha
  | step e _ ih => exact ih (hS _ _ ha e)

/-! ### Maps -/

theorem getN_cons (m : List (Nat × Nat)) (k x k' : Nat) :
    getN ((k, x) :: m) k' = if k' = k then x else getN m k' := by
  unfold getN
  by_cases h : k' = k
  · subst h; simp [List.lookup]
  · have : (k' == k) = false := by simpa using h
    simp [List.lookup, this, h]

theorem lookup_cons_isSome (m : List (Nat × Nat)) (k x k' : Nat) :
    (((k, x) :: m).lookup k').isSome = (k' == k || (m.lookup k').isSome) := by
  by_cases h : k' = k
  · subst h; simp [List.lookup]
  · have : (k' == k) = false := by simpa using h
    simp [List.lookup, this]

/-- `ix s w` = `node_indices[w]`, `lw s w` = `node_lowlinks[w]` (syntactic sugar). -/
scoped macro "ix " s:term:max w:term:max : term => `(getN (TState.idx $s) $w)
@[inherit_doc «termIx__»] scoped macro "lw " s:term:max w:term:max : term => `(getN (TState.low $s) $w)

@[simp] theorem indexed_push (v : Nat) (s : TState) (w : Nat) :
    indexed (push v s) w = (w == v || indexed s w) := by
  simp [indexed, push, lookup_cons_isSome]
@[simp] theorem ix_push (v : Nat) (s : TState) (w : Nat) :
    getN (push v s).idx w = if w = v then s.next else getN s.idx w := by
  simp [push, getN_cons]
@[simp] theorem lw_push (v : Nat) (s : TState) (w : Nat) :
    getN (push v s).low w = if w = v then s.next else getN s.low w := by
  simp [push, getN_cons]
@[simp] theorem stack_push (v : Nat) (s : TState) : (push v s).stack = v :: s.stack := rfl
@[simp] theorem onStack_push (v : Nat) (s : TState) : (push v s).onStack = v :: s.onStack := rfl
@[simp] theorem next_push (v : Nat) (s : TState) : (push v s).next = s.next + 1 := rfl
@[simp] theorem comps_push (v : Nat) (s : TState) : (push v s).comps = s.comps := rfl
@[simp] theorem oof_push (v : Nat) (s : TState) : (push v s).oof = s.oof := rfl

@[simp] theorem indexed_setLow (v x : Nat) (s : TState) (w : Nat) :
    indexed (setLow v x s) w = indexed s w := rfl
@[simp] theorem ix_setLow (v x : Nat) (s : TState) : (setLow v x s).idx = s.idx := rfl
@[simp] theorem lw_setLow (v x : Nat) (s : TState) (w : Nat) :
    getN (setLow v x s).low w = if w = v then x else getN s.low w := by
  simp [setLow, getN_cons]
@[simp] theorem stack_setLow (v x : Nat) (s : TState) : (setLow v x s).stack = s.stack := rfl
@[simp] theorem onStack_setLow (v x : Nat) (s : TState) : (setLow v x s).onStack = s.onStack := rfl
@[simp] theorem next_setLow (v x : Nat) (s : TState) : (setLow v x s).next = s.next := rfl
@[simp] theorem comps_setLow (v x : Nat) (s : TState) : (setLow v x s).comps = s.comps := rfl
@[simp] theorem oof_setLow (v x : Nat) (s : TState) : (setLow v x s).oof = s.oof := rfl

/-! ### Popping -/

theorem popUntil_append (v : Nat) (seg old : List Nat) (h : v ∉ seg) :
    popUntil v (seg ++ v :: old) = (seg ++ [v], old) := by
  induction seg with
  | nil => simp [popUntil]
  | cons x xs ih =>
    have hx : x ≠ v := fun e => h (by simp [e])
    have hv : v ∉ xs := fun e => h (by simp [e])
    simp [popUntil, hx, ih hv]

theorem foldl_erase_append (c r : List Nat) : c.foldl List.erase (c ++ r) = r := by
  induction c with
  | nil => rfl
  | cons x xs ih => simp [ih]

/-! ### The fuel measure: keys not yet indexed -/

def unvisited (g : Graph) (s : TState) : Nat := (keys g).countP (fun k => !indexed s k)

theorem countP_le_of_imp {p q : Nat → Bool} (l : List Nat) (h : ∀ x, p x = true → q x = true) :
    l.countP p ≤ l.countP q := by
  induction l with
  | nil => simp
  | cons a t ih =>
    simp only [List.countP_cons]
    by_cases hp : p a = true
    · simp [hp, h a hp]; exact ih
    · simp [hp]; split <;> omega

theorem countP_lt_of_imp {p q : Nat → Bool} (l : List Nat) (h : ∀ x, p x = true → q x = true)
    (v : Nat) (hv : v ∈ l) (hpv : p v = false) (hqv : q v = true) :
    l.countP p < l.countP q := by
  induction l with
  | nil => simp at hv
  | cons a t ih =>
    simp only [List.countP_cons]
    rcases List.mem_cons.mp hv with rfl | hv
    · have := countP_le_of_imp t h
      simp [hpv, hqv]; omega
    · have := ih hv
      by_cases hp : p a = true
      · simp [hp, h a hp]; exact this
      · simp [hp]; split <;> omega

theorem unvisited_mono (g : Graph) {s t : TState} (h : ∀ w, indexed s w = true → indexed t w = true) :
    unvisited g t ≤ unvisited g s := by
  apply countP_le_of_imp
  intro x hx
  cases hs : indexed s x
  · rfl
  · simp [h x hs] at hx

theorem unvisited_lt (g : Graph) {s t : TState} (h : ∀ w, indexed s w = true → indexed t w = true)
    (v : Nat) (hv : v ∈ keys g) (hs : indexed s v = false) (ht : indexed t v = true) :
    unvisited g t < unvisited g s := by
  apply countP_lt_of_imp _ _ v hv
  · simp [ht]
  · simp [hs]
  · intro x hx
    cases hs : indexed s x
    · rfl
    · simp [h x hs] at hx

end Emboss.Deps
