/- Bridges between `find?` over the value list and the declarative spec of C19. -/
import Emboss.Lemmas.EnumGen
import Emboss.Spec.Enum
namespace Emboss.Enum
open Emboss.CppInt

theorem first_iff (vs : List Value) (x : Int) (n : Name) :
    (vs.find? (fun v => v.value == x)).map (·.name) = some n ↔
      Spec.FirstNameOf (vs.map (fun v => (v.name, v.value))) x n := by
  induction vs with
  | nil =>
    simp only [List.find?_nil, Option.map_none, List.map_nil]
    constructor
    · intro h; cases h
    · rintro ⟨pre, post, h, _⟩
      cases pre <;> cases h
  | cons v vs ih =>
    simp only [List.find?_cons, List.map_cons]
    by_cases hv : v.value = x
    · have : (v.value == x) = true := by simpa using hv
      simp only [this, Option.map_some, Option.some.injEq]
      constructor
      · intro h; subst h; subst hv
        exact ⟨[], _, rfl, by simp⟩
      · rintro ⟨pre, post, h, hp⟩
        cases pre with
        | nil =>
          simp only [List.nil_append, List.cons.injEq, Prod.mk.injEq] at h
          exact h.1.1
        | cons p pre =>
          simp only [List.cons_append, List.cons.injEq] at h
          have := hp p (List.mem_cons_self ..)
          rw [← h.1] at this
          exact absurd hv this
    · have : (v.value == x) = false := by simpa using hv
      simp only [this]
      rw [ih]
      constructor
      · rintro ⟨pre, post, h, hp⟩
        refine ⟨(v.name, v.value) :: pre, post, by simp [h], ?_⟩
        intro p hpm
        rcases List.mem_cons.mp hpm with rfl | h'
        · exact hv
        · exact hp p h'
      · rintro ⟨pre, post, h, hp⟩
        cases pre with
        | nil =>
          simp only [List.nil_append, List.cons.injEq, Prod.mk.injEq] at h
          exact absurd h.1.2 hv
        | cons p pre =>
          simp only [List.cons_append, List.cons.injEq] at h
          exact ⟨pre, post, h.2, fun q hq => hp q (List.mem_cons_of_mem _ hq)⟩

theorem find_name_iff (vs : List Value) (hn : (vs.map (·.name)).Nodup) (n : Name) (x : Int) :
    (vs.find? (fun v => v.name == n)).map (·.value) = some x ↔
      (n, x) ∈ vs.map (fun v => (v.name, v.value)) := by
  induction vs with
  | nil => simp
  | cons v vs ih =>
    simp only [List.map_cons, List.nodup_cons] at hn
    simp only [List.find?_cons, List.map_cons, List.mem_cons]
    by_cases hv : v.name = n
    · have : (v.name == n) = true := by simpa using hv
      simp only [this, Option.map_some, Option.some.injEq]
      constructor
      · intro h; left; rw [← hv, ← h]
      · rintro (h | h)
        · simp only [Prod.mk.injEq] at h; exact h.2.symm
        · exfalso
          apply hn.1
          obtain ⟨w, hw, he⟩ := List.mem_map.mp h
          simp only [Prod.mk.injEq] at he
          rw [hv, ← he.1]
          exact List.mem_map.mpr ⟨w, hw, rfl⟩
    · have : (v.name == n) = false := by simpa using hv
      simp only [this]
      rw [ih hn.2]
      constructor
      · exact Or.inr
      · rintro (h | h)
        · simp only [Prod.mk.injEq] at h; exact absurd h.1.symm hv
        · exact h

end Emboss.Enum
