/-
Tightness of `?:` whose condition is independent of the branches: the branches are in the
single-occurrence fragment and mention disjoint leaves, the condition mentions none of their
leaves, is not folded by the analysis, and can evaluate to `true` as well as to `false`.
Then both ends of the inferred hull are attained.
-/
import Emboss.Lemmas.BoundsTight
namespace Emboss.Bounds
open ExtInt

mutual
/-- evaluation reads only the integer leaves that occur, and the boolean / enum leaves -/
theorem eval_congr : (e : Expr) → ∀ ρ ρ' : Env,
    (∀ id ∈ ivars e, ρ.i id = ρ'.i id) → ρ.b = ρ'.b → ρ.e = ρ'.e →
    eval ρ e = eval ρ' e ∧ (EnvOk ρ e → EnvOk ρ' e)
  | .const _ => by intro ρ ρ' _ _ _; simp [eval, EnvOk]
  | .bconst _ => by intro ρ ρ' _ _ _; simp [eval, EnvOk]
  | .econst _ => by intro ρ ρ' _ _ _; simp [eval, EnvOk]
  | .ileaf id k size => by
    intro ρ ρ' h _ _
    have := h id (by simp [ivars])
    simp [eval, EnvOk, this]
  | .ssize id => by
    intro ρ ρ' h _ _
    have := h id (by simp [ivars])
    simp [eval, EnvOk, this]
  | .given id a => by
    intro ρ ρ' h _ _
    have := h id (by simp [ivars])
    simp [eval, EnvOk, this]
  | .bleaf id => by intro ρ ρ' _ hb _; simp [eval, EnvOk, hb]
  | .eleaf id => by intro ρ ρ' _ _ he; simp [eval, EnvOk, he]
  | .bin op l r => by
    intro ρ ρ' hag hb he
    have h1 := eval_congr l ρ ρ' (fun id hid => hag id (by simp [ivars, hid])) hb he
    have h2 := eval_congr r ρ ρ' (fun id hid => hag id (by simp [ivars, hid])) hb he
    refine ⟨by simp only [eval, h1.1, h2.1], ?_⟩
    intro hok
    simp only [EnvOk] at hok ⊢
    exact ⟨h1.2 hok.1, h2.2 hok.2⟩
  | .choice c t f => by
    intro ρ ρ' hag hb he
    have h1 := eval_congr c ρ ρ' (fun id hid => hag id (by simp [ivars, hid])) hb he
    have h2 := eval_congr t ρ ρ' (fun id hid => hag id (by simp [ivars, hid])) hb he
    have h3 := eval_congr f ρ ρ' (fun id hid => hag id (by simp [ivars, hid])) hb he
    refine ⟨by simp only [eval, h1.1, h2.1, h3.1], ?_⟩
    intro hok
    simp only [EnvOk] at hok ⊢
    exact ⟨h1.2 hok.1, h2.2 hok.2.1, h3.2 hok.2.2⟩
  | .max args => by
    intro ρ ρ' hag hb he
    have h1 := evalList_congr args ρ ρ' (fun id hid => hag id (by simpa [ivars] using hid)) hb he
    refine ⟨by simp only [eval, h1.1], ?_⟩
    intro hok
    simp only [EnvOk] at hok ⊢
    exact h1.2 hok
  | .upper e => by
    intro ρ ρ' hag hb he
    have h1 := eval_congr e ρ ρ' (fun id hid => hag id (by simpa [ivars] using hid)) hb he
    refine ⟨by simp only [eval], ?_⟩
    intro hok
    simp only [EnvOk] at hok ⊢
    exact h1.2 hok
  | .lower e => by
    intro ρ ρ' hag hb he
    have h1 := eval_congr e ρ ρ' (fun id hid => hag id (by simpa [ivars] using hid)) hb he
    refine ⟨by simp only [eval], ?_⟩
    intro hok
    simp only [EnvOk] at hok ⊢
    exact h1.2 hok
  | .cref e => by
    intro ρ ρ' hag hb he
    have h1 := eval_congr e ρ ρ' (fun id hid => hag id (by simpa [ivars] using hid)) hb he
    refine ⟨by simp only [eval, h1.1], ?_⟩
    intro hok
    simp only [EnvOk] at hok ⊢
    exact h1.2 hok
  | .vref e => by
    intro ρ ρ' hag hb he
    have h1 := eval_congr e ρ ρ' (fun id hid => hag id (by simpa [ivars] using hid)) hb he
    refine ⟨by simp only [eval, h1.1], ?_⟩
    intro hok
    simp only [EnvOk] at hok ⊢
    exact h1.2 hok
  | .present a c => by
    intro ρ ρ' hag hb he
    have h1 := eval_congr c ρ ρ' (fun id hid => hag id (by simpa [ivars] using hid)) hb he
    refine ⟨by simp only [eval, h1.1], ?_⟩
    intro hok
    simp only [EnvOk] at hok ⊢
    exact h1.2 hok
theorem evalList_congr : (es : List Expr) → ∀ ρ ρ' : Env,
    (∀ id ∈ ivarsList es, ρ.i id = ρ'.i id) → ρ.b = ρ'.b → ρ.e = ρ'.e →
    evalList ρ es = evalList ρ' es ∧ (EnvOkList ρ es → EnvOkList ρ' es)
  | [] => by intro ρ ρ' _ _ _; simp [evalList, EnvOkList]
  | e :: es => by
    intro ρ ρ' hag hb he
    have h1 := eval_congr e ρ ρ' (fun id hid => hag id (by simp [ivarsList, hid])) hb he
    have h2 := evalList_congr es ρ ρ' (fun id hid => hag id (by simp [ivarsList, hid])) hb he
    refine ⟨by simp only [evalList, h1.1, h2.1], ?_⟩
    intro hok
    simp only [EnvOkList] at hok ⊢
    exact ⟨h1.2 hok.1, h2.2 hok.2⟩
end

/-- witnesses for the two branches and for the condition, over pairwise disjoint leaves,
    combine into one environment -/
theorem merge_choice {c t f : Expr} (ht : LinOnce t = true) (hf : LinOnce f = true)
    (hdtf : disjoint (ivars t) (ivars f) = true)
    (hdtc : disjoint (ivars t) (ivars c) = true) (hdfc : disjoint (ivars f) (ivars c) = true)
    {ρt ρf ρc : Env} {x y : Int} {b : Bool}
    (okt : EnvOk ρt t) (evt : eval ρt t = some (.int x))
    (okf : EnvOk ρf f) (evf : eval ρf f = some (.int y))
    (okc : EnvOk ρc c) (evc : eval ρc c = some (.bool b)) :
    ∃ ρ, EnvOk ρ (.choice c t f) ∧ eval ρ (.choice c t f) = some (.int (if b then x else y)) := by
  let ρ := mergeEnv (ivars t) ρt (mergeEnv (ivars f) ρf ρc)
  have h1 := lin_congr t ht ρt ρ (fun id hid => (merge_left _ _ _ hid).symm)
  have h2 := lin_congr f hf ρf ρ (fun id hid => by
    have hnt : id ∉ ivars t := fun hin => disjoint_spec hdtf id hin hid
    show ρf.i id = (mergeEnv (ivars t) ρt (mergeEnv (ivars f) ρf ρc)).i id
    rw [merge_right _ _ _ hnt, merge_left _ _ _ hid])
  have h3 := eval_congr c ρc ρ (fun id hid => by
    have hnt : id ∉ ivars t := fun hin => disjoint_spec hdtc id hin hid
    have hnf : id ∉ ivars f := fun hin => disjoint_spec hdfc id hin hid
    show ρc.i id = (mergeEnv (ivars t) ρt (mergeEnv (ivars f) ρf ρc)).i id
    rw [merge_right _ _ _ hnt, merge_right _ _ _ hnf]) rfl rfl
  refine ⟨ρ, ⟨h3.2 okc, h1.2 okt, h2.2 okf⟩, ?_⟩
  simp only [eval, ← h1.1, ← h2.1, ← h3.1, evt, evf, evc]
  cases b <;> rfl

theorem choice_tight {c t f : Expr} (ht : LinOnce t = true) (hf : LinOnce f = true)
    (hdtf : disjoint (ivars t) (ivars f) = true)
    (hdtc : disjoint (ivars t) (ivars c) = true) (hdfc : disjoint (ivars f) (ivars c) = true)
    (hc : abs c = some (.bool none))
    (hT : ∃ ρ, EnvOk ρ c ∧ eval ρ c = some (.bool true))
    (hF : ∃ ρ, EnvOk ρ c ∧ eval ρ c = some (.bool false)) :
    ∃ a, abs (.choice c t f) = some (.int a) ∧ InvS a ∧ TightAt (.choice c t f) a := by
  obtain ⟨at', habt, hit, tlo, thi, htmin, htmax, ⟨ρt1, okt1, evt1⟩, ⟨ρt2, okt2, evt2⟩⟩ := tight_aux t ht
  obtain ⟨af, habf, hif, flo, fhi, hfmin, hfmax, ⟨ρf1, okf1, evf1⟩, ⟨ρf2, okf2, evf2⟩⟩ := tight_aux f hf
  obtain ⟨ρT, okT, evT⟩ := hT
  obtain ⟨ρF, okF, evF⟩ := hF
  obtain ⟨a, ha, hia⟩ := choiceHull_inv hit hif
  have habs : abs (.choice c t f) = some (.int a) := by
    simp [abs, hc, habt, habf, absChoice, ha]
  obtain ⟨hmn, hmx, _⟩ := choiceHull_shape ha
  rw [htmin, hfmin] at hmn
  rw [htmax, hfmax] at hmx
  have mg := fun (ρt ρf ρc : Env) (x y : Int) (b : Bool) =>
    merge_choice (c := c) ht hf hdtf hdtc hdfc (ρt := ρt) (ρf := ρf) (ρc := ρc) (x := x) (y := y) (b := b)
  refine ⟨a, habs, hia, if tlo ≤ flo then tlo else flo, if thi ≤ fhi then fhi else thi, ?_, ?_, ?_, ?_⟩
  · rw [hmn]; simp [eminL, emin2]
  · rw [hmx]; simp [emaxL, emax2]
  · by_cases h : tlo ≤ flo
    · obtain ⟨ρ, ok, ev⟩ := mg ρt1 ρf1 ρT tlo flo true okt1 evt1 okf1 evf1 okT evT
      exact ⟨ρ, ok, by simpa [h] using ev⟩
    · obtain ⟨ρ, ok, ev⟩ := mg ρt1 ρf1 ρF tlo flo false okt1 evt1 okf1 evf1 okF evF
      exact ⟨ρ, ok, by simpa [h] using ev⟩
  · by_cases h : thi ≤ fhi
    · obtain ⟨ρ, ok, ev⟩ := mg ρt2 ρf2 ρF thi fhi false okt2 evt2 okf2 evf2 okF evF
      exact ⟨ρ, ok, by simpa [h] using ev⟩
    · obtain ⟨ρ, ok, ev⟩ := mg ρt2 ρf2 ρT thi fhi true okt2 evt2 okf2 evf2 okT evT
      exact ⟨ρ, ok, by simpa [h] using ev⟩

end Emboss.Bounds
