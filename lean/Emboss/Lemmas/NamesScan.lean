/- Helper lemmas for C07: completeness of the namespace scanner (every text of the documented shape is
accepted, with exactly its identifiers). -/
import Emboss.Lemmas.Names
namespace Emboss.Names
open Emboss.Enum (isSpace)

theorem identChar_props (c : Char) (h : isIdentChar c = true) : isSpace c = false ∧ c ≠ ':' := by
  have hv : c.toNat = c.val.toNat := rfl
  simp only [isIdentChar, Char.isAlphanum, Char.isAlpha, Char.isUpper, Char.isLower, Char.isDigit,
    Bool.or_eq_true, Bool.and_eq_true, decide_eq_true_eq, beq_iff_eq, ge_iff_le, UInt32.le_iff_toNat_le] at h
  constructor
  · simp only [isSpace, hv]
    rcases h with (((h | h) | h) | h)
    all_goals (first | (have := h.1; have := h.2; simp at *; omega) | (subst h; decide))
  · rcases h with (((h | h) | h) | h)
    all_goals (first | (intro e; subst e; simp at h) | (subst h; decide))

theorem identStart_char (c : Char) (h : isIdentStart c = true) : isIdentChar c = true := by
  simp only [isIdentStart, isIdentChar, Char.isAlphanum, Bool.or_eq_true] at h ⊢
  rcases h with h | h
  · exact Or.inl (Or.inl h)
  · exact Or.inr h

theorem colon_not_space : isSpace ':' = false := by decide

/-- Whitespace is skipped in the three "between" states. -/
theorem nsScan_skip (w : List Char) (hw : w.all isSpace = true) (acc : List Name) (t : List Char) :
    nsScan .lead acc (w ++ t) = nsScan .lead acc t ∧
    nsScan .sep acc (w ++ t) = nsScan .sep acc t ∧
    nsScan .trail acc (w ++ t) = nsScan .trail acc t := by
  induction w with
  | nil => simp
  | cons c cs ih =>
    simp only [List.all_cons, Bool.and_eq_true] at hw
    obtain ⟨i1, i2, i3⟩ := ih hw.2
    simp only [List.cons_append, nsScan, hw.1, if_true]
    exact ⟨i1, i2, i3⟩

/-- Identifier characters are accumulated. -/
theorem nsScan_ident (xs : List Char) (hx : xs.all isIdentChar = true) (cur : List Char)
    (acc : List Name) (t : List Char) :
    nsScan (.ident cur) acc (xs ++ t) = nsScan (.ident (xs.reverse ++ cur)) acc t := by
  induction xs generalizing cur with
  | nil => simp
  | cons c cs ih =>
    simp only [List.all_cons, Bool.and_eq_true] at hx
    simp only [List.cons_append, nsScan, hx.1, if_true]
    rw [ih hx.2]
    simp

/-- An identifier read from a state where one may start. -/
theorem nsScan_start (n : Name) (hn : IsIdent n) (acc : List Name) (t : List Char) :
    nsScan .lead acc (n ++ t) = nsScan (.ident n.reverse) acc t ∧
    nsScan .sep acc (n ++ t) = nsScan (.ident n.reverse) acc t := by
  obtain ⟨c, cs, rfl, hc, hcs⟩ := hn
  have hp := identChar_props c (identStart_char c hc)
  have e : (c :: cs).reverse = cs.reverse ++ [c] := by simp
  simp only [List.cons_append, nsScan, hp.1, Bool.false_eq_true, if_false, hp.2, hc, if_true]
  rw [nsScan_ident cs hcs, e]
  exact ⟨rfl, rfl⟩

/-- After an identifier: blanks, then the end of the text or a `:`. -/
theorem nsScan_after (cur : List Char) (acc : List Name) (w t : List Char) (hw : w.all isSpace = true)
    (ht : t = [] ∨ ∃ t', t = ':' :: t') :
    nsScan (.ident cur) acc (w ++ t) = nsScan .trail (cur.reverse :: acc) t := by
  cases w with
  | nil =>
    rcases ht with rfl | ⟨t', rfl⟩
    · simp [nsScan]
    · have h1 : isIdentChar ':' = false := by decide
      simp [nsScan, h1, colon_not_space]
  | cons c cs =>
    simp only [List.all_cons, Bool.and_eq_true] at hw
    have hc : isIdentChar c = false := by
      cases h : isIdentChar c
      · rfl
      · have := (identChar_props c h).1; rw [hw.1] at this; cases this
    simp only [List.cons_append, nsScan, hc, Bool.false_eq_true, if_false, hw.1, if_true]
    exact (nsScan_skip cs hw.2 _ t).2.2

/-- One more component `:: ws ident ws`. -/
def nsTail : List (List Char × Name × List Char) → List Char
  | [] => []
  | (w1, n, w2) :: rest => ':' :: ':' :: (w1 ++ n ++ w2 ++ nsTail rest)

theorem nsTail_shape (rest : List (List Char × Name × List Char)) :
    nsTail rest = [] ∨ ∃ t', nsTail rest = ':' :: t' := by
  cases rest with
  | nil => exact Or.inl rfl
  | cons p ps => obtain ⟨w1, n, w2⟩ := p; exact Or.inr ⟨_, rfl⟩

theorem nsScan_tail (rest : List (List Char × Name × List Char))
    (hr : ∀ p ∈ rest, p.1.all isSpace = true ∧ IsIdent p.2.1 ∧ p.2.2.all isSpace = true)
    (acc : List Name) (hacc : acc ≠ []) :
    nsScan .trail acc (nsTail rest) = some (acc.reverse ++ rest.map (·.2.1)) := by
  induction rest generalizing acc with
  | nil => simp [nsTail, nsScan]
  | cons p ps ih =>
    obtain ⟨w1, n, w2⟩ := p
    obtain ⟨h1, h2, h3⟩ := hr (w1, n, w2) (List.mem_cons_self ..)
    simp only at h1 h2 h3
    simp only [nsTail, nsScan, colon_not_space, Bool.false_eq_true, if_false, if_true]
    rw [List.append_assoc, List.append_assoc, (nsScan_skip w1 h1 _ _).2.1, (nsScan_start n h2 _ _).2,
      nsScan_after _ _ w2 _ h3 (nsTail_shape ps), List.reverse_reverse,
      ih (fun q hq => hr q (List.mem_cons_of_mem _ hq)) _ (by simp)]
    simp

/-- The optional leading `::` (followed by blanks). -/
def nsLead : Option (List Char) → List Char
  | some w1 => ':' :: ':' :: w1
  | none => []

/-- **Completeness of the scanner**: every text of the documented shape
`ws [:: ws] ident ws (:: ws ident ws)*` is accepted, with exactly its identifiers. -/
theorem nsParse_complete (w0 : List Char) (lead : Option (List Char)) (n : Name) (w2 : List Char)
    (rest : List (List Char × Name × List Char))
    (h0 : w0.all isSpace = true) (hl : ∀ w1, lead = some w1 → w1.all isSpace = true)
    (hn : IsIdent n) (h2 : w2.all isSpace = true)
    (hr : ∀ p ∈ rest, p.1.all isSpace = true ∧ IsIdent p.2.1 ∧ p.2.2.all isSpace = true) :
    nsParse (w0 ++ nsLead lead ++ n ++ w2 ++ nsTail rest) =
      some (n :: rest.map (·.2.1)) := by
  unfold nsParse
  have fin : ∀ acc, nsScan (.ident n.reverse) acc (w2 ++ nsTail rest) =
      some ((n :: acc).reverse ++ rest.map (·.2.1)) := by
    intro acc
    rw [nsScan_after _ _ w2 _ h2 (nsTail_shape rest), List.reverse_reverse,
      nsScan_tail rest hr _ (by simp)]
  cases lead with
  | none =>
    simp only [nsLead, List.append_nil]
    rw [List.append_assoc, List.append_assoc, (nsScan_skip w0 h0 _ _).1, (nsScan_start n hn _ _).1, fin]
    simp
  | some w1 =>
    have hw1 := hl w1 rfl
    rw [List.append_assoc, List.append_assoc, List.append_assoc, (nsScan_skip w0 h0 _ _).1]
    simp only [nsLead, List.cons_append, nsScan, colon_not_space, Bool.false_eq_true, if_false, if_true]
    rw [(nsScan_skip w1 hw1 _ _).2.1, (nsScan_start n hn _ _).2, fin]
    simp

end Emboss.Names
