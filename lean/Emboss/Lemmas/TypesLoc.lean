import Emboss.Lemmas.TypesIff
namespace Emboss.Types

/-- `x` is the source location of `e` or of a sub-expression of `e` (looking through
references to virtual fields, whose definitions are re-checked through the reference). -/
inductive LocIn (x : Loc) : Expr → Prop
  | here {e} : x = e.loc → LocIn x e
  | cvirt {l d} : LocIn x d → LocIn x (.cvirt l d)
  | lvirt {l d} : LocIn x d → LocIn x (.lvirt l d)
  | binL {l op a b} : LocIn x a → LocIn x (.bin l op a b)
  | binR {l op a b} : LocIn x b → LocIn x (.bin l op a b)
  | chC {l c t f} : LocIn x c → LocIn x (.choice l c t f)
  | chT {l c t f} : LocIn x t → LocIn x (.choice l c t f)
  | chF {l c t f} : LocIn x f → LocIn x (.choice l c t f)
  | arg {l f args a} : a ∈ args → LocIn x a → LocIn x (.fn l f args)

theorem fnArgErrs_loc (f : Fn) : ∀ (i : Nat) (args : List Expr) (tys : List Ty),
    ∀ er ∈ fnArgErrs f i args tys, ∃ a ∈ args, er.l = a.loc
  | _, [], _, er, h => by simp [fnArgErrs] at h
  | _, _ :: _, [], er, h => by simp [fnArgErrs] at h
  | i, a :: as, t :: ts, er, h => by
    simp only [fnArgErrs, List.mem_append] at h
    rcases h with h | h
    · refine ⟨a, by simp, ?_⟩
      cases f <;> simp only [argErr] at h <;> split at h <;> simp_all [err]
    · obtain ⟨a', ha', h'⟩ := fnArgErrs_loc f (i + 1) as ts er h
      exact ⟨a', by simp [ha'], h'⟩

theorem bin_errs {l op a b} {er : Err} (h : er ∈ (tc (.bin l op a b)).errs) :
    er ∈ (tc a).errs ∨ er ∈ (tc b).errs ∨ er.l = a.loc ∨ er.l = b.loc ∨ er.l = l := by
  simp only [tc] at h
  repeat' split at h
  all_goals simp only [List.mem_append, List.mem_singleton, argErr, err] at h
  all_goals grind

theorem choice_errs {l c t f} {er : Err} (h : er ∈ (tc (.choice l c t f)).errs) :
    er ∈ (tc c).errs ∨ er ∈ (tc t).errs ∨ er ∈ (tc f).errs ∨ er.l = c.loc ∨ er.l = t.loc ∨ er.l = l := by
  simp only [tc] at h
  repeat' split at h
  all_goals simp only [List.mem_append, List.mem_singleton, err] at h
  all_goals grind

mutual
theorem tc_loc (e : Expr) : ∀ er ∈ (tc e).errs, LocIn er.l e :=
  match e with
  | .num _ | .boolc _ | .enumv _ _ | .cother _ | .lparam _ _ | .lparamArr _ | .lphys _ _ | .builtin _ _ => by
    intro er h; simp [tc, Res.pure] at h
  | .cphys l dl => by
    intro er h; simp [tc] at h; subst h; exact .here rfl
  | .cvirt l d => by
    intro er h; simp only [tc] at h; exact .cvirt (tc_loc d er h)
  | .lvirt l d => by
    intro er h
    simp only [tc] at h
    split at h
    · exact .lvirt (tc_loc d er h)
    · simp only [List.mem_map] at h
      obtain ⟨e0, h0, rfl⟩ := h
      exact .lvirt (tc_loc d e0 h0)
  | .bin l op a b => by
    intro er h
    rcases bin_errs h with h | h | h | h | h
    · exact .binL (tc_loc a _ h)
    · exact .binR (tc_loc b _ h)
    · exact .binL (.here h)
    · exact .binR (.here h)
    · exact .here h
  | .choice l c t f => by
    intro er h
    rcases choice_errs h with h | h | h | h | h | h
    · exact .chC (tc_loc c _ h)
    · exact .chT (tc_loc t _ h)
    · exact .chF (tc_loc f _ h)
    · exact .chC (.here h)
    · exact .chT (.here h)
    · exact .here h
  | .fn l f args => by
    intro er h
    have ih := tcList_loc args
    simp only [tc, List.mem_append] at h
    rcases h with (h | h) | h
    · obtain ⟨a, ha, h'⟩ := ih er h
      exact .arg ha h'
    · obtain ⟨a, ha, h'⟩ := fnArgErrs_loc f 0 args _ er h
      exact .arg ha (.here h')
    · split at h
      · simp at h
      · simp only [List.mem_singleton] at h; subst h; exact .here rfl
theorem tcList_loc (es : List Expr) : ∀ er ∈ (tcList es).errs, ∃ a ∈ es, LocIn er.l a :=
  match es with
  | [] => by intro er h; simp [tcList] at h
  | e :: es => by
    intro er h
    simp only [tcList, List.mem_append] at h
    rcases h with h | h
    · exact ⟨e, by simp, tc_loc e er h⟩
    · obtain ⟨a, ha, h'⟩ := tcList_loc es er h
      exact ⟨a, by simp [ha], h'⟩
end

end Emboss.Types
