import Emboss.Lemmas.TypesIff
namespace Emboss.Types

/-- `(x, xf)` — a source location and a file name — is where `e`, written in module
`file`, or one of the things `e` is built from is written: the location of a
sub-expression together with `file`, or (looking through a reference to a virtual field
of module `df`) a location inside that field's definition together with `df`. -/
inductive LocIn (x : Loc) (xf : FileId) : FileId → Expr → Prop
  | here {file e} : x = e.loc → xf = file → LocIn x xf file e
  | cvirt {file l df d} : LocIn x xf df d → LocIn x xf file (.cvirt l df d)
  | lvirt {file l df d} : LocIn x xf df d → LocIn x xf file (.lvirt l df d)
  | binL {file l op a b} : LocIn x xf file a → LocIn x xf file (.bin l op a b)
  | binR {file l op a b} : LocIn x xf file b → LocIn x xf file (.bin l op a b)
  | chC {file l c t f} : LocIn x xf file c → LocIn x xf file (.choice l c t f)
  | chT {file l c t f} : LocIn x xf file t → LocIn x xf file (.choice l c t f)
  | chF {file l c t f} : LocIn x xf file f → LocIn x xf file (.choice l c t f)
  | arg {file l f args a} : a ∈ args → LocIn x xf file a → LocIn x xf file (.fn l f args)

theorem fnArgErrs_loc (file : FileId) (f : Fn) : ∀ (i : Nat) (args : List Expr) (tys : List Ty),
    ∀ er ∈ fnArgErrs file f i args tys, ∃ a ∈ args, er.l = a.loc ∧ er.file = file ∧ er.notes = []
  | _, [], _, er, h => by simp [fnArgErrs] at h
  | _, _ :: _, [], er, h => by simp [fnArgErrs] at h
  | i, a :: as, t :: ts, er, h => by
    simp only [fnArgErrs, List.mem_append] at h
    rcases h with h | h
    · refine ⟨a, by simp, ?_⟩
      cases f <;> simp only [argErr] at h <;> split at h <;> simp_all [err]
    · obtain ⟨a', ha', h'⟩ := fnArgErrs_loc file f (i + 1) as ts er h
      exact ⟨a', by simp [ha'], h'⟩

theorem bin_errs {file l op a b} {er : Err} (h : er ∈ (tc file (.bin l op a b)).errs) :
    er ∈ (tc file a).errs ∨ er ∈ (tc file b).errs ∨
      (er.file = file ∧ er.notes = [] ∧ (er.l = a.loc ∨ er.l = b.loc ∨ er.l = l)) := by
  simp only [tc] at h
  repeat' split at h
  all_goals simp only [List.mem_append, List.mem_singleton, argErr, err] at h
  all_goals grind

theorem choice_errs {file l c t f} {er : Err} (h : er ∈ (tc file (.choice l c t f)).errs) :
    er ∈ (tc file c).errs ∨ er ∈ (tc file t).errs ∨ er ∈ (tc file f).errs ∨
      (er.file = file ∧ er.notes = [] ∧ (er.l = c.loc ∨ er.l = t.loc ∨ er.l = l)) := by
  simp only [tc] at h
  repeat' split at h
  all_goals simp only [List.mem_append, List.mem_singleton, err] at h
  all_goals grind

mutual
theorem tc_loc (e : Expr) : ∀ (file : FileId), ∀ er ∈ (tc file e).errs, LocIn er.l er.file file e :=
  match e with
  | .num _ | .boolc _ | .enumv _ _ | .lparam _ _ | .lparamArr _ | .lphys _ _ => by
    intro file er h; simp [tc, Res.pure] at h
  | .cother l => by
    intro file er h; simp [tc, err] at h; subst h; exact .here rfl rfl
  | .builtin l b => by
    intro file er h
    cases b <;> simp [tc, Res.pure, err] at h
    subst h; exact .here rfl rfl
  | .cphys l df dl => by
    intro file er h; simp [tc] at h; subst h; exact .here rfl rfl
  | .cvirt l df d => by
    intro file er h; simp only [tc] at h; exact .cvirt (tc_loc d df er h)
  | .lvirt l df d => by
    intro file er h; simp only [tc] at h; exact .lvirt (tc_loc d df er h)
  | .bin l op a b => by
    intro file er h
    rcases bin_errs h with h | h | ⟨hf, _, h | h | h⟩
    · exact .binL (tc_loc a file _ h)
    · exact .binR (tc_loc b file _ h)
    · exact .binL (.here h hf)
    · exact .binR (.here h hf)
    · exact .here h hf
  | .choice l c t f => by
    intro file er h
    rcases choice_errs h with h | h | h | ⟨hf, _, h | h | h⟩
    · exact .chC (tc_loc c file _ h)
    · exact .chT (tc_loc t file _ h)
    · exact .chF (tc_loc f file _ h)
    · exact .chC (.here h hf)
    · exact .chT (.here h hf)
    · exact .here h hf
  | .fn l f args => by
    intro file er h
    have ih := tcList_loc args file
    simp only [tc, List.mem_append] at h
    rcases h with (h | h) | h
    · obtain ⟨a, ha, h'⟩ := ih er h
      exact .arg ha h'
    · obtain ⟨a, ha, h', hf, _⟩ := fnArgErrs_loc file f 0 args _ er h
      exact .arg ha (.here h' hf)
    · split at h
      · simp at h
      · simp only [List.mem_singleton] at h; subst h; exact .here rfl rfl
theorem tcList_loc (es : List Expr) : ∀ (file : FileId), ∀ er ∈ (tcList file es).errs,
    ∃ a ∈ es, LocIn er.l er.file file a :=
  match es with
  | [] => by intro file er h; simp [tcList] at h
  | e :: es => by
    intro file er h
    simp only [tcList, List.mem_append] at h
    rcases h with h | h
    · exact ⟨e, by simp, tc_loc e file er h⟩
    · obtain ⟨a, ha, h'⟩ := tcList_loc es file er h
      exact ⟨a, by simp [ha], h'⟩
end

end Emboss.Types
