/-
C11 helper lemmas (round 3): one rendered row re-tokenizes to its cells' tokens.
`LineToks` is closed under the formatter's ways of putting texts side by side with blanks
between them: `a + " " * n + b` (`_concatenate_with_spaces`, `"  " + comment`), and padded
cells (`_columnize`: `ljust` to the column width, then `rstrip`).
-/
import Emboss.Lemmas.FmtRetok
namespace Emboss.FmtTok
open Emboss.Tok Emboss.Generated

theorem getLast?_append_ne {u v : List Char} (h : v ≠ []) : (u ++ v).getLast? = v.getLast? := by
  cases v with
  | nil => exact absurd rfl h
  | cons y t =>
    cases h' : (y :: t).getLast? with
    | none => simp at h'
    | some z => simp [List.getLast?_append, h']

/-- Two tokenizable texts with at least one blank between them. -/
theorem LineToks.join {a b : List Char} {La Lb : List Leaf} (n : Nat)
    (ha : LineToks a La) (hb : LineToks b Lb) (hane : a ≠ []) (hbne : b ≠ [])
    (hopen : ∀ l ∈ La, ¬ OpenEnded l.1) :
    LineToks (a ++ Fmt.spaces (n + 1) ++ b) (La ++ Lb) := by
  refine ⟨?_, ?_, ?_, ?_⟩
  · intro y hy
    rw [List.append_assoc, head_append_ne hane] at hy
    exact ha.head y hy
  · intro y hy
    rw [getLast?_append_ne hbne] at hy
    exact hb.last y hy
  · intro c hc
    simp only [List.mem_append] at hc
    rcases hc with (hc | hc) | hc
    · exact ha.nobreak c hc
    · simp only [Fmt.spaces, List.mem_replicate] at hc
      rw [hc.2]; exact space_not_break
    · exact hb.nobreak c hc
  · intro ln
    obtain ⟨ta, hta, hLa⟩ := ha.toks ln
    obtain ⟨tb, htb, hLb⟩ := hb.toks ln
    have h1 := tokLine_indented ln (n + 1) hb.head htb
    rw [spaces_succ] at h1
    simp only [List.cons_append] at h1
    have h2 := (tokLine_concat_blank ln a (Fmt.spaces n ++ b) ' ' ta hta
      (fun t ht => hopen (leafOf t) (by rw [← hLa]; exact List.mem_map_of_mem ht))
      ha.last space_blank).1 _ h1
    refine ⟨ta ++ List.map (Token.shift a.length) (List.map (Token.shift (n + 1)) tb), ?_, ?_⟩
    · have : a ++ Fmt.spaces (n + 1) ++ b = a ++ ' ' :: (Fmt.spaces n ++ b) := by
        rw [spaces_succ]; simp
      rw [this]; exact h2
    · simp only [List.map_append, map_leafOf_shift, hLa, hLb]

/-! ### `rstrip` -/

theorem rstrip_append (x y : List Char) :
    Fmt.rstrip (x ++ y) = if Fmt.rstrip y = [] then Fmt.rstrip x else x ++ Fmt.rstrip y := by
  simp only [Fmt.rstrip, List.reverse_append, dropWhile_append_ite, List.reverse_eq_nil_iff]
  by_cases h : y.reverse.dropWhile Fmt.isPySpace = []
  · simp only [h, if_true]
  · simp only [h, if_false, List.reverse_append, List.reverse_reverse]

theorem rstrip_spaces (n : Nat) : Fmt.rstrip (Fmt.spaces n) = [] := by
  have := rstrip_spaces_append n []
  simpa [Fmt.rstrip] using this

theorem rstrip_of_last {c : List Char} (h : ∀ y, c.getLast? = some y → isSpaceChar y = false) :
    Fmt.rstrip c = c := by
  simp only [Fmt.rstrip]
  cases hr : c.reverse with
  | nil => simp only [List.reverse_eq_nil_iff] at hr; subst hr; rfl
  | cons y t =>
    have hy : c.getLast? = some y := by
      rw [← List.head?_reverse, hr]; rfl
    have := h y hy
    rw [← isPySpace_eq] at this
    simp only [List.dropWhile_cons, this, Bool.false_eq_true, if_false]
    rw [← hr, List.reverse_reverse]

theorem spaces_add (a b : Nat) : Fmt.spaces a ++ Fmt.spaces b = Fmt.spaces (a + b) := by
  simp only [Fmt.spaces, List.replicate_append_replicate]

/-! ### Padded cells -/

/-- Cells (text, number of blanks appended, leaves), laid side by side. -/
def cellsText : List (List Char × Nat × List Leaf) → List Char
  | [] => []
  | x :: rest => x.1 ++ Fmt.spaces x.2.1 ++ cellsText rest

def cellsLeaves (cells : List (List Char × Nat × List Leaf)) : List Leaf :=
  (cells.map (fun x => x.2.2)).flatten

/-- A cell is empty, or tokenizes to its leaves and is followed by at least one blank. -/
def CellOK (x : List Char × Nat × List Leaf) : Prop :=
  (x.1 = [] ∧ x.2.2 = []) ∨ (x.1 ≠ [] ∧ 0 < x.2.1 ∧ LineToks x.1 x.2.2)

/-- A token that runs to the end of the line (comment, documentation) is only in the last
non-empty cell. -/
def OpenLast : List (List Char × Nat × List Leaf) → Prop
  | [] => True
  | x :: rest => ((∃ l ∈ x.2.2, OpenEnded l.1) → ∀ y ∈ rest, y.1 = []) ∧ OpenLast rest

theorem cellsText_all_empty : ∀ (cells : List (List Char × Nat × List Leaf)),
    (∀ x ∈ cells, x.1 = []) → Fmt.rstrip (cellsText cells) = [] := by
  intro cells
  induction cells with
  | nil => intro _; rfl
  | cons x rest ih =>
    intro h
    simp only [cellsText, h x (by simp), List.nil_append, rstrip_spaces_append,
      ih (fun y hy => h y (by simp [hy])), if_true]

/-- **Padded cells, right-stripped, tokenize to the cells' tokens** (after `k` leading
blanks when the first cells are empty). -/
theorem cells_lineToks : ∀ (cells : List (List Char × Nat × List Leaf)),
    (∀ x ∈ cells, CellOK x) → OpenLast cells →
    (Fmt.rstrip (cellsText cells) = [] ∧ cellsLeaves cells = []) ∨
    ∃ k s, Fmt.rstrip (cellsText cells) = Fmt.spaces k ++ s ∧ s ≠ [] ∧
      LineToks s (cellsLeaves cells) ∧ (∀ x rest, cells = x :: rest → x.1 ≠ [] → k = 0) := by
  intro cells
  induction cells with
  | nil => intro _ _; left; exact ⟨rfl, rfl⟩
  | cons x rest ih =>
    intro hok hopen
    obtain ⟨c, pad, L⟩ := x
    have hrest := ih (fun y hy => hok y (by simp [hy])) hopen.2
    rcases hok (c, pad, L) (by simp) with ⟨hc, hL⟩ | ⟨hc, hpad, hlt⟩
    · simp only at hc hL
      subst hc; subst hL
      simp only [cellsText, List.nil_append, rstrip_spaces_append, cellsLeaves, List.map_cons,
        List.flatten_cons]
      rcases hrest with ⟨h1, h2⟩ | ⟨k, s, h1, h2, h3, _⟩
      · left; simp only [h1, if_true, true_and]; exact h2
      · right
        have hne : Fmt.spaces k ++ s ≠ [] := by
          intro h; exact h2 (List.append_eq_nil_iff.mp h).2
        refine ⟨pad + k, s, ?_, h2, h3, ?_⟩
        · rw [h1]; simp only [hne, if_false, ← List.append_assoc, spaces_add]
        · intro x rest' he hx
          simp only [List.cons.injEq] at he
          rw [← he.1] at hx; exact absurd rfl hx
    · simp only at hc hpad hlt
      right
      simp only [cellsText, List.append_assoc, cellsLeaves, List.map_cons, List.flatten_cons]
      rw [rstrip_append, rstrip_spaces_append]
      rcases hrest with ⟨h1, h2⟩ | ⟨k, s, h1, h2, h3, _⟩
      · refine ⟨0, c, ?_, hc, ?_, fun _ _ _ _ => rfl⟩
        · simp only [h1, if_true, rstrip_of_last hlt.last]; rfl
        · simp only [cellsLeaves] at h2
          rw [h2, List.append_nil]; exact hlt
      · have hne : Fmt.spaces k ++ s ≠ [] := by
          intro h; exact h2 (List.append_eq_nil_iff.mp h).2
        have hne2 : Fmt.spaces pad ++ (Fmt.spaces k ++ s) ≠ [] := by
          intro h; exact hne (List.append_eq_nil_iff.mp h).2
        refine ⟨0, c ++ Fmt.spaces (pad + k - 1 + 1) ++ s, ?_, ?_, ?_, fun _ _ _ _ => rfl⟩
        · rw [h1]
          simp only [hne, hne2, if_false]
          rw [show pad + k - 1 + 1 = pad + k by omega, ← spaces_add]
          simp only [List.append_assoc]
          rfl
        · intro h
          exact hc (List.append_eq_nil_iff.mp (List.append_eq_nil_iff.mp h).1).1
        · refine LineToks.join (pad + k - 1) hlt h3 hc h2 ?_
          intro l hl ho
          have hall := hopen.1 ⟨l, hl, ho⟩
          have := cellsText_all_empty rest hall
          rw [h1] at this
          exact hne this

end Emboss.FmtTok
