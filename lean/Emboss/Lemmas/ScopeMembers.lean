/-
Helper lemmas for C12: `_resolve_field_reference` (the three mutually recursive, fuelled
functions `physical` / `members` / `resolveFRef` of the model) against the declarative member
rules `MemberRule` of the spec: soundness, fuel monotonicity, completeness.
-/
import Emboss.Spec.Scope
set_option linter.unusedSimpArgs false
namespace Emboss.Scope

/-! ### More fuel never changes a definite answer -/

theorem fuel_mono (E : FEnv) : ∀ fuel : Nat,
    (∀ fuel' o prev, fuel ≤ fuel' → physical E fuel o prev ≠ .inl .fuel →
      physical E fuel' o prev = physical E fuel o prev) ∧
    (∀ fuel' o prev rs acc, fuel ≤ fuel' → members E fuel o prev rs acc ≠ .fuel →
      members E fuel' o prev rs acc = members E fuel o prev rs acc) ∧
    (∀ fuel' i, fuel ≤ fuel' → resolveFRef E fuel i ≠ .fuel →
      resolveFRef E fuel' i = resolveFRef E fuel i) := by
  intro fuel
  induction fuel with
  | zero =>
    refine ⟨?_, ?_, ?_⟩
    · intro fuel' o prev _ h; simp [physical] at h
    · intro fuel' o prev rs acc _ h; simp [members] at h
    · intro fuel' i _ h; simp [resolveFRef] at h
  | succ fuel ih =>
    obtain ⟨P, M, R⟩ := ih
    refine ⟨?_, ?_, ?_⟩
    · intro fuel' o prev hle h
      obtain ⟨f', rfl⟩ : ∃ f', fuel' = f' + 1 := ⟨fuel' - 1, by omega⟩
      have hle' : fuel ≤ f' := by omega
      simp only [physical] at h ⊢
      cases hk : o.kind with
      | module => simp only [hk]
      | type => simp only [hk]
      | value => simp only [hk]
      | param => simp only [hk]
      | field sh =>
        cases sh with
        | atomic t => simp only [hk]
        | array => simp only [hk]
        | virtOther => simp only [hk]
        | virtAlias i =>
          simp only [hk] at h ⊢
          have hr : resolveFRef E fuel i ≠ .fuel := by
            intro hr; rw [hr] at h; exact h rfl
          rw [R f' i hle' hr]
          cases hres : resolveFRef E fuel i with
          | ok cs =>
            simp only [hres] at h ⊢
            cases hl : cs.getLast? with
            | none => simp only [hl]
            | some c =>
              simp only [hl] at h ⊢
              cases hf : findObject E.objs c with
              | none => simp only [hf]
              | some o' =>
                simp only [hf] at h ⊢
                exact P f' o' prev hle' h
          | err e => simp only [hres]
          | bail => simp only [hres]
          | crash => simp only [hres]
          | fuel => exact absurd hres hr
    · intro fuel' o prev rs acc hle h
      obtain ⟨f', rfl⟩ : ∃ f', fuel' = f' + 1 := ⟨fuel' - 1, by omega⟩
      have hle' : fuel ≤ f' := by omega
      cases rs with
      | nil => simp only [members]
      | cons r rest =>
        simp only [members] at h ⊢
        have hp : physical E fuel o prev ≠ .inl .fuel := by
          intro hp; rw [hp] at h; exact h rfl
        rw [P f' o prev hle' hp]
        cases hres : physical E fuel o prev with
        | inl res => simp only [hres]
        | inr o1 =>
          simp only [hres] at h ⊢
          cases hk : o1.kind with
          | module => simp only [hk]
          | type => simp only [hk]
          | value => simp only [hk]
          | param => simp only [hk]
          | field sh =>
            cases sh with
            | array => simp only [hk]
            | virtOther => simp only [hk]
            | virtAlias i => simp only [hk]
            | atomic t =>
              simp only [hk] at h ⊢
              cases ht : E.typeCanon t with
              | none => simp only [ht]
              | some tc =>
                simp only [ht] at h ⊢
                cases hf : findObject E.objs (tc ++ [r.name]) with
                | none => simp only [hf]
                | some o' =>
                  simp only [hf] at h ⊢
                  exact M f' o' r rest _ hle' h
    · intro fuel' i hle h
      obtain ⟨f', rfl⟩ : ∃ f', fuel' = f' + 1 := ⟨fuel' - 1, by omega⟩
      have hle' : fuel ≤ f' := by omega
      simp only [resolveFRef] at h ⊢
      cases hfr : E.frefs i with
      | none => simp only [hfr]
      | some fr =>
        cases hh : E.headCanon i with
        | none => simp only [hfr, hh]
        | some hd =>
          simp only [hfr, hh] at h ⊢
          cases hp : fr.path with
          | nil => simp only [hp]
          | cons p0 rest =>
            cases rest with
            | nil => simp only [hp]
            | cons r rest =>
              simp only [hp] at h ⊢
              cases hf : findObject E.objs hd with
              | none => simp only [hf]
              | some o =>
                simp only [hf] at h ⊢
                exact M f' o p0 (r :: rest) _ hle' h

theorem resolveFRef_mono (E : FEnv) (fuel fuel' i : Nat) (hle : fuel ≤ fuel')
    (h : resolveFRef E fuel i ≠ .fuel) : resolveFRef E fuel' i = resolveFRef E fuel i :=
  (fuel_mono E fuel).2.2 fuel' i hle h

/-! ### Soundness: what the functions bind is derivable by the rules -/

theorem member_sound (E : FEnv) : ∀ fuel : Nat,
    (∀ o prev p, physical E fuel o prev = .inr p → MemberRule E (.phys o p)) ∧
    (∀ o prev rs acc cs, members E fuel o prev rs acc = .ok cs →
      ∃ ms, cs = acc ++ ms ∧ MemberRule E (.mem o rs ms)) ∧
    (∀ i cs, resolveFRef E fuel i = .ok cs → MemberRule E (.path i cs)) := by
  intro fuel
  induction fuel with
  | zero =>
    refine ⟨?_, ?_, ?_⟩
    · intro o prev p h; simp [physical] at h
    · intro o prev rs acc cs h; simp [members] at h
    · intro i cs h; simp [resolveFRef] at h
  | succ fuel ih =>
    obtain ⟨P, M, R⟩ := ih
    refine ⟨?_, ?_, ?_⟩
    · intro o prev p h
      simp only [physical] at h
      cases hk : o.kind with
      | module => simp [hk] at h
      | type => simp [hk] at h
      | value => simp [hk] at h
      | param => simp [hk] at h
      | field sh =>
        cases sh with
        | atomic t =>
          simp only [hk, Sum.inr.injEq] at h
          subst h
          exact MemberRule.physAtomic hk
        | array =>
          simp only [hk, Sum.inr.injEq] at h
          subst h
          exact MemberRule.physArray hk
        | virtOther => simp [hk] at h
        | virtAlias i =>
          simp only [hk] at h
          cases hres : resolveFRef E fuel i with
          | ok cs =>
            simp only [hres] at h
            cases hl : cs.getLast? with
            | none => simp [hl] at h
            | some c =>
              simp only [hl] at h
              cases hf : findObject E.objs c with
              | none => simp [hf] at h
              | some o' =>
                simp only [hf] at h
                exact MemberRule.physAlias hk (R i cs hres) hl hf (P o' prev p h)
          | err e => simp [hres] at h
          | bail => simp [hres] at h
          | crash => simp [hres] at h
          | fuel => simp [hres] at h
    · intro o prev rs acc cs h
      cases rs with
      | nil =>
        simp only [members, FRes.ok.injEq] at h
        exact ⟨[], by simp [h], MemberRule.memNil⟩
      | cons r rest =>
        simp only [members] at h
        cases hres : physical E fuel o prev with
        | inl res =>
          simp only [hres] at h
          -- `physical` never answers `.inl (.ok _)`
          exfalso
          subst h
          clear P M R
          induction fuel generalizing o with
          | zero => simp [physical] at hres
          | succ fuel ih2 =>
            simp only [physical] at hres
            split at hres
            · split at hres
              · split at hres
                · cases hres
                · split at hres
                  · exact ih2 _ hres
                  · cases hres
              · cases hres
              · cases hres
              · cases hres
            · cases hres
            · cases hres
            · cases hres
        | inr o1 =>
          simp only [hres] at h
          cases hk : o1.kind with
          | module => simp [hk] at h
          | type => simp [hk] at h
          | value => simp [hk] at h
          | param => simp [hk] at h
          | field sh =>
            cases sh with
            | array => simp [hk] at h
            | virtOther => simp [hk] at h
            | virtAlias i => simp [hk] at h
            | atomic t =>
              simp only [hk] at h
              cases ht : E.typeCanon t with
              | none => simp [ht] at h
              | some tc =>
                simp only [ht] at h
                cases hf : findObject E.objs (tc ++ [r.name]) with
                | none => simp [hf] at h
                | some o' =>
                  simp only [hf] at h
                  obtain ⟨ms, hcs, hms⟩ := M o' r rest _ cs h
                  exact ⟨(tc ++ [r.name]) :: ms, by simp [hcs],
                    MemberRule.memCons (P o prev o1 hres) hk ht hf hms⟩
    · intro i cs h
      simp only [resolveFRef] at h
      cases hfr : E.frefs i with
      | none => simp [hfr] at h
      | some fr =>
        cases hh : E.headCanon i with
        | none => simp [hfr, hh] at h
        | some hd =>
          simp only [hfr, hh] at h
          cases hp : fr.path with
          | nil => simp [hp] at h
          | cons p0 rest =>
            cases rest with
            | nil =>
              simp only [hp, FRes.ok.injEq] at h
              subst h
              exact MemberRule.pathSingle hfr hh hp
            | cons r rest =>
              simp only [hp] at h
              cases hf : findObject E.objs hd with
              | none => simp [hf] at h
              | some o =>
                simp only [hf] at h
                obtain ⟨ms, hcs, hms⟩ := M o p0 (r :: rest) [hd] cs h
                subst hcs
                exact MemberRule.pathMulti hfr hh hp hf hms

/-! ### Completeness: whatever the rules derive, the functions compute (given enough fuel) -/

def Complete (E : FEnv) : MemberJudgement → Prop
  | .phys o p => ∀ prev, ∃ fuel, physical E fuel o prev = .inr p
  | .mem o rs ms => ∀ prev acc, ∃ fuel, members E fuel o prev rs acc = .ok (acc ++ ms)
  | .path i cs => ∃ fuel, resolveFRef E fuel i = .ok cs

theorem member_complete (E : FEnv) (j : MemberJudgement) (h : MemberRule E j) : Complete E j := by
  induction h with
  | physAtomic hk =>
    intro prev
    exact ⟨1, by simp only [physical, hk]⟩
  | physArray hk =>
    intro prev
    exact ⟨1, by simp only [physical, hk]⟩
  | @physAlias o i cs c o' p hk _ hl hf _ ih1 ih2 =>
    intro prev
    obtain ⟨f1, h1⟩ := ih1
    obtain ⟨f2, h2⟩ := ih2 prev
    refine ⟨max f1 f2 + 1, ?_⟩
    have h1' : resolveFRef E (max f1 f2) i = .ok cs := by
      rw [(fuel_mono E f1).2.2 _ i (Nat.le_max_left ..) (by rw [h1]; exact fun h => by cases h), h1]
    have h2' : physical E (max f1 f2) o' prev = .inr p := by
      rw [(fuel_mono E f2).1 _ o' prev (Nat.le_max_right ..) (by rw [h2]; exact fun h => by cases h), h2]
    simp only [physical, hk, h1', hl, hf, h2']
  | memNil =>
    intro prev acc
    exact ⟨1, by simp [members]⟩
  | @memCons o p t tc r o' rest cs _ hk ht hf _ ih1 ih2 =>
    intro prev acc
    obtain ⟨f1, h1⟩ := ih1 prev
    obtain ⟨f2, h2⟩ := ih2 r (acc ++ [tc ++ [r.name]])
    refine ⟨max f1 f2 + 1, ?_⟩
    have h1' : physical E (max f1 f2) o prev = .inr p := by
      rw [(fuel_mono E f1).1 _ o prev (Nat.le_max_left ..) (by rw [h1]; exact fun h => by cases h), h1]
    have h2' : members E (max f1 f2) o' r rest (acc ++ [tc ++ [r.name]]) =
        .ok (acc ++ [tc ++ [r.name]] ++ cs) := by
      rw [(fuel_mono E f2).2.1 _ o' r rest _ (Nat.le_max_right ..)
        (by rw [h2]; exact fun h => by cases h), h2]
    simp only [members, h1', hk, ht, hf, h2', List.append_assoc, List.singleton_append]
  | pathSingle hfr hh hp =>
    exact ⟨1, by simp only [resolveFRef, hfr, hh, hp]⟩
  | @pathMulti i fr hd p0 r rest o cs hfr hh hp hf _ ih =>
    obtain ⟨f, h⟩ := ih p0 [hd]
    exact ⟨f + 1, by simp only [resolveFRef, hfr, hh, hp, hf, h, List.singleton_append]⟩

/-! ### The errors: sound and complete against `MemberFails` -/

theorem member_fail_sound (E : FEnv) : ∀ fuel : Nat,
    (∀ o prev e, physical E fuel o prev = .inl (.err e) → MemberFails E (.phys o prev e)) ∧
    (∀ o prev rs acc e, members E fuel o prev rs acc = .err e → MemberFails E (.mem o prev rs e)) ∧
    (∀ i e, resolveFRef E fuel i = .err e → MemberFails E (.path i e)) := by
  intro fuel
  induction fuel with
  | zero =>
    refine ⟨?_, ?_, ?_⟩
    · intro o prev e h; simp [physical] at h
    · intro o prev rs acc e h; simp [members] at h
    · intro i e h; simp [resolveFRef] at h
  | succ fuel ih =>
    obtain ⟨P, M, R⟩ := ih
    obtain ⟨SP, SM, SR⟩ := member_sound E fuel
    refine ⟨?_, ?_, ?_⟩
    · intro o prev e h
      simp only [physical] at h
      cases hk : o.kind with
      | module =>
        simp only [hk, Sum.inl.injEq, FRes.err.injEq] at h; subst h
        exact MemberFails.physNonField (by intro sh; rw [hk]; exact fun h => by cases h)
      | type =>
        simp only [hk, Sum.inl.injEq, FRes.err.injEq] at h; subst h
        exact MemberFails.physNonField (by intro sh; rw [hk]; exact fun h => by cases h)
      | value =>
        simp only [hk, Sum.inl.injEq, FRes.err.injEq] at h; subst h
        exact MemberFails.physNonField (by intro sh; rw [hk]; exact fun h => by cases h)
      | param =>
        simp only [hk, Sum.inl.injEq, FRes.err.injEq] at h; subst h
        exact MemberFails.physNonField (by intro sh; rw [hk]; exact fun h => by cases h)
      | field sh =>
        cases sh with
        | atomic t => simp [hk] at h
        | array => simp [hk] at h
        | virtOther =>
          simp only [hk, Sum.inl.injEq, FRes.err.injEq] at h; subst h
          exact MemberFails.physOther hk
        | virtAlias i =>
          simp only [hk] at h
          cases hres : resolveFRef E fuel i with
          | ok cs =>
            simp only [hres] at h
            cases hl : cs.getLast? with
            | none => simp [hl] at h
            | some c =>
              simp only [hl] at h
              cases hf : findObject E.objs c with
              | none => simp [hf] at h
              | some o' =>
                simp only [hf] at h
                exact MemberFails.physAlias hk (SR i cs hres) hl hf (P o' prev e h)
          | err e' => simp [hres] at h
          | bail => simp [hres] at h
          | crash => simp [hres] at h
          | fuel => simp [hres] at h
    · intro o prev rs acc e h
      cases rs with
      | nil => simp [members] at h
      | cons r rest =>
        simp only [members] at h
        cases hres : physical E fuel o prev with
        | inl res =>
          simp only [hres] at h
          subst h
          exact MemberFails.memPhys (P o prev e hres)
        | inr o1 =>
          simp only [hres] at h
          have hph := SP o prev o1 hres
          cases hk : o1.kind with
          | module => simp [hk] at h
          | type => simp [hk] at h
          | value => simp [hk] at h
          | param => simp [hk] at h
          | field sh =>
            cases sh with
            | array =>
              simp only [hk, FRes.err.injEq] at h; subst h
              exact MemberFails.memArray hph hk
            | virtOther => simp [hk] at h
            | virtAlias i => simp [hk] at h
            | atomic t =>
              simp only [hk] at h
              cases ht : E.typeCanon t with
              | none => simp [ht] at h
              | some tc =>
                simp only [ht] at h
                cases hf : findObject E.objs (tc ++ [r.name]) with
                | none =>
                  simp only [hf, FRes.err.injEq] at h; subst h
                  exact MemberFails.memMissing hph hk ht hf
                | some o' =>
                  simp only [hf] at h
                  exact MemberFails.memLater hph hk ht hf (M o' r rest _ e h)
    · intro i e h
      simp only [resolveFRef] at h
      cases hfr : E.frefs i with
      | none => simp [hfr] at h
      | some fr =>
        cases hh : E.headCanon i with
        | none => simp [hfr, hh] at h
        | some hd =>
          simp only [hfr, hh] at h
          cases hp : fr.path with
          | nil => simp [hp] at h
          | cons p0 rest =>
            cases rest with
            | nil => simp [hp] at h
            | cons r rest =>
              simp only [hp] at h
              cases hf : findObject E.objs hd with
              | none =>
                simp only [hf, FRes.err.injEq] at h; subst h
                exact MemberFails.pathNoHead hfr hh hp hf
              | some o =>
                simp only [hf] at h
                exact MemberFails.pathMem hfr hh hp hf (M o p0 (r :: rest) [hd] e h)

def FailComplete (E : FEnv) : MemberFailJudgement → Prop
  | .phys o prev e => ∃ fuel, physical E fuel o prev = .inl (.err e)
  | .mem o prev rs e => ∀ acc, ∃ fuel, members E fuel o prev rs acc = .err e
  | .path i e => ∃ fuel, resolveFRef E fuel i = .err e

theorem member_fail_complete (E : FEnv) (j : MemberFailJudgement) (h : MemberFails E j) :
    FailComplete E j := by
  induction h with
  | @physNonField o prev hk =>
    refine ⟨1, ?_⟩
    simp only [physical]
    cases hk' : o.kind with
    | field sh => exact absurd hk' (hk sh)
    | module => rfl
    | type => rfl
    | value => rfl
    | param => rfl
  | physOther hk => exact ⟨1, by simp only [physical, hk]⟩
  | @physAlias o i cs c o' prev e hk hpath hl hf _ ih =>
    obtain ⟨f1, h1⟩ := member_complete E _ hpath
    obtain ⟨f2, h2⟩ := ih
    refine ⟨max f1 f2 + 1, ?_⟩
    have h1' : resolveFRef E (max f1 f2) i = .ok cs := by
      rw [(fuel_mono E f1).2.2 _ i (Nat.le_max_left ..) (by rw [h1]; exact fun h => by cases h), h1]
    have h2' : physical E (max f1 f2) o' prev = .inl (.err e) := by
      rw [(fuel_mono E f2).1 _ o' prev (Nat.le_max_right ..) (by rw [h2]; exact fun h => by cases h), h2]
    simp only [physical, hk, h1', hl, hf, h2']
  | @memPhys o prev r rest e _ ih =>
    intro acc
    obtain ⟨f, h⟩ := ih
    exact ⟨f + 1, by simp only [members, h]⟩
  | @memArray o p prev r rest hph hk =>
    intro acc
    obtain ⟨f, h⟩ := member_complete E _ hph prev
    exact ⟨f + 1, by simp only [members, h, hk]⟩
  | @memMissing o p t tc prev r rest hph hk ht hf =>
    intro acc
    obtain ⟨f, h⟩ := member_complete E _ hph prev
    exact ⟨f + 1, by simp only [members, h, hk, ht, hf]⟩
  | @memLater o p t tc prev r rest o' e hph hk ht hf _ ih =>
    intro acc
    obtain ⟨f1, h1⟩ := member_complete E _ hph prev
    obtain ⟨f2, h2⟩ := ih (acc ++ [tc ++ [r.name]])
    refine ⟨max f1 f2 + 1, ?_⟩
    have h1' : physical E (max f1 f2) o prev = .inr p := by
      rw [(fuel_mono E f1).1 _ o prev (Nat.le_max_left ..) (by rw [h1]; exact fun h => by cases h), h1]
    have h2' : members E (max f1 f2) o' r rest (acc ++ [tc ++ [r.name]]) = .err e := by
      rw [(fuel_mono E f2).2.1 _ o' r rest _ (Nat.le_max_right ..)
        (by rw [h2]; exact fun h => by cases h), h2]
    simp only [members, h1', hk, ht, hf, h2']
  | pathNoHead hfr hh hp hf =>
    exact ⟨1, by simp only [resolveFRef, hfr, hh, hp, hf]⟩
  | @pathMem i fr hd p0 r rest o e hfr hh hp hf _ ih =>
    obtain ⟨f, h⟩ := ih [hd]
    exact ⟨f + 1, by simp only [resolveFRef, hfr, hh, hp, hf, h]⟩

/-! ### Errors of the member loop are of the three documented kinds -/

def MemberErrKind : Err → Prop
  | .arrayMember _ _ => True
  | .noncomposite _ _ => True
  | .missing _ _ => True
  | _ => False

theorem member_err_kinds (E : FEnv) : ∀ fuel : Nat,
    (∀ o prev e, physical E fuel o prev = .inl (.err e) → e = Err.noncomposite prev.name prev.rloc) ∧
    (∀ o prev rs acc e, members E fuel o prev rs acc = .err e → MemberErrKind e) ∧
    (∀ i e, resolveFRef E fuel i = .err e → MemberErrKind e) := by
  intro fuel
  induction fuel with
  | zero =>
    refine ⟨?_, ?_, ?_⟩
    · intro o prev e h; simp [physical] at h
    · intro o prev rs acc e h; simp [members] at h
    · intro i e h; simp [resolveFRef] at h
  | succ fuel ih =>
    obtain ⟨P, M, R⟩ := ih
    refine ⟨?_, ?_, ?_⟩
    · intro o prev e h
      simp only [physical] at h
      split at h
      · split at h
        · split at h
          · cases h
          · split at h
            · exact P _ _ _ h
            · cases h
        · cases h
        · cases h
        · cases h
      · cases h; rfl
      · cases h
      · cases h; rfl
    · intro o prev rs acc e h
      cases rs with
      | nil => simp [members] at h
      | cons r rest =>
        simp only [members] at h
        split at h
        · rename_i res hres
          subst h
          rw [P o prev e hres]
          trivial
        · split at h
          · cases h; trivial
          · split at h
            · cases h
            · split at h
              · cases h; trivial
              · exact M _ _ _ _ _ h
          · cases h
    · intro i e h
      simp only [resolveFRef] at h
      split at h
      · split at h
        · cases h
        · cases h
        · split at h
          · cases h; trivial
          · exact M _ _ _ _ _ h
      · cases h

end Emboss.Scope
