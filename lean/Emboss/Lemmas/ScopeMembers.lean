/-
Helper lemmas for C12: `_resolve_field_reference` (the functions `physLoop` / `physical` /
`members` / `resolveFRef` of the model) against the declarative member rules `MemberRule` /
`MemberFails` of the spec: totality of the alias-following loop (the visited list of fix
22b80e8), monotonicity in the nesting budget, soundness, completeness.

The loops `physLoop` and `members` take the result of the nested call as a parameter `res`; the
lemmas about them are stated for an arbitrary `res` with the property needed, and instantiated
with `resolveFRef E depth` by induction on `depth`.
-/
import Emboss.Spec.Scope
set_option linter.unusedSimpArgs false
set_option linter.unusedVariables false
namespace Emboss.Scope

/-! ### Pigeonhole -/

theorem nodup_subset_length_le {α : Type} [DecidableEq α] :
    ∀ (l m : List α), l.Nodup → (∀ x ∈ l, x ∈ m) → l.length ≤ m.length := by
  intro l
  induction l with
  | nil => intro m _ _; simp
  | cons a l ih =>
    intro m hn hs
    have ha : a ∈ m := hs a (List.mem_cons_self ..)
    have hn' := List.nodup_cons.1 hn
    have h1 : l.length ≤ (m.erase a).length := by
      apply ih _ hn'.2
      intro x hx
      have hxa : x ≠ a := fun h => hn'.1 (h ▸ hx)
      exact (List.mem_erase_of_ne hxa).2 (hs x (List.mem_cons_of_mem _ hx))
    rw [List.length_erase_of_mem ha] at h1
    have : 0 < m.length := List.length_pos_of_mem ha
    simp only [List.length_cons]
    omega

theorem findObject_mem {os : List Obj} {c : Path} {o : Obj} (h : findObject os c = some o) :
    o ∈ os := List.mem_of_find?_eq_some h

/-- The invariant of the alias-following loop: the fields visited so far are pairwise distinct
definitions of the module and the remaining budget covers all the others. -/
structure LoopInv (objs : List Obj) (n : Nat) (vis : List Obj) : Prop where
  nodup : vis.Nodup
  sub : ∀ x ∈ vis, x ∈ objs
  budget : objs.length < n + vis.length

theorem LoopInv.pos {objs : List Obj} {n : Nat} {vis : List Obj} (h : LoopInv objs n vis) :
    0 < n := by
  have := nodup_subset_length_le vis objs h.nodup h.sub
  have := h.budget
  omega

theorem LoopInv.step {objs : List Obj} {n : Nat} {vis : List Obj} {o : Obj}
    (h : LoopInv objs (n + 1) vis) (ho : o ∈ objs) (hv : o ∉ vis) : LoopInv objs n (o :: vis) :=
  ⟨List.nodup_cons.2 ⟨hv, h.nodup⟩,
   by intro x hx
      rcases List.mem_cons.1 hx with rfl | hx
      · exact ho
      · exact h.sub x hx,
   by have := h.budget; simp only [List.length_cons]; omega⟩

theorem LoopInv.init (objs : List Obj) : LoopInv objs (objs.length + 1) [] :=
  { nodup := List.nodup_nil
    sub := fun x hx => nomatch hx
    budget := by simp }

/-! ### The loop budget is never used up (fix 22b80e8: the visited list) -/

theorem physLoop_ne_fuel (objs : List Obj) (res : Nat → FRes) (hres : ∀ i, res i ≠ .fuel) :
    ∀ (n : Nat) (o : Obj) (prev : PathElem) (vis : List Obj), LoopInv objs n vis → o ∈ objs →
      physLoop objs res n o prev vis ≠ .inl .fuel := by
  intro n
  induction n with
  | zero => intro o prev vis inv _; exact absurd inv.pos (by omega)
  | succ n ih =>
    intro o prev vis inv ho
    simp only [physLoop]
    split
    · rename_i i hk
      split
      · exact fun h => by cases h
      · rename_i hv
        split
        · split
          · exact fun h => by cases h
          · split
            · rename_i o' hf
              exact ih o' prev (o :: vis) (inv.step ho hv) (findObject_mem hf)
            · exact fun h => by cases h
        · rename_i h; exact absurd h (hres i)
        · exact fun h => by cases h
        · exact fun h => by cases h
        · exact fun h => by cases h
    · exact fun h => by cases h
    · exact fun h => by cases h
    · exact fun h => by cases h

theorem members_ne_fuel (E : FEnv) (res : Nat → FRes) (hres : ∀ i, res i ≠ .fuel) :
    ∀ (rs : List PathElem) (o : Obj) (prev : PathElem) (acc : List Path), o ∈ E.objs →
      members E res o prev rs acc ≠ .fuel := by
  intro rs
  induction rs with
  | nil => intro o prev acc _; simp [members]
  | cons r rest ih =>
    intro o prev acc ho
    simp only [members]
    split
    · rename_i x hx
      intro h
      subst h
      exact physLoop_ne_fuel E.objs res hres _ o prev [] (LoopInv.init _) ho hx
    · split
      · exact fun h => by cases h
      · split
        · exact fun h => by cases h
        · split
          · exact fun h => by cases h
          · rename_i o' hf
            exact ih o' r _ (findObject_mem hf)
      · exact fun h => by cases h

theorem resolveFRef_ne_fuel (E : FEnv) : ∀ (depth i : Nat), resolveFRef E depth i ≠ .fuel := by
  intro depth
  induction depth with
  | zero => intro i; simp [resolveFRef]
  | succ d ih =>
    intro i
    simp only [resolveFRef]
    split
    · split
      · exact fun h => by cases h
      · exact fun h => by cases h
      · split
        · exact fun h => by cases h
        · rename_i o hf
          exact members_ne_fuel E _ ih _ o _ _ (findObject_mem hf)
    · exact fun h => by cases h

/-! ### A deeper nesting budget never changes an answer that is not `recursion` -/

/-- `res'` answers like `res` wherever `res` does not run out of nesting budget -/
def Refines (res res' : Nat → FRes) : Prop := ∀ i, res i ≠ .recursion → res' i = res i

theorem physLoop_refines (objs : List Obj) (res res' : Nat → FRes) (hr : Refines res res') :
    ∀ (n : Nat) (o : Obj) (prev : PathElem) (vis : List Obj),
      physLoop objs res n o prev vis ≠ .inl .recursion →
      physLoop objs res' n o prev vis = physLoop objs res n o prev vis := by
  intro n
  induction n with
  | zero => intro o prev vis _; simp [physLoop]
  | succ n ih =>
    intro o prev vis h
    simp only [physLoop] at h ⊢
    cases hk : o.kind with
    | module => simp only [hk]
    | type => simp only [hk]
    | value => simp only [hk]
    | param => simp only [hk]
    | field sh =>
      cases sh with
      | atomic t => simp only [hk]
      | array => simp only [hk]
      | virtOther => simp only [hk]
      | virtAlias i =>
        simp only [hk] at h ⊢
        by_cases hv : o ∈ vis
        · simp only [hv, if_true]
        · simp only [hv, if_false] at h ⊢
          have hri : res i ≠ .recursion := by
            intro hri; rw [hri] at h; exact h rfl
          rw [hr i hri]
          cases hres : res i with
          | ok cs =>
            simp only [hres] at h ⊢
            cases hl : cs.getLast? with
            | none => simp only [hl]
            | some c =>
              simp only [hl] at h ⊢
              cases hf : findObject objs c with
              | none => simp only [hf]
              | some o' =>
                simp only [hf] at h ⊢
                exact ih o' prev _ h
          | err e => simp only [hres]
          | bail => simp only [hres]
          | crash => simp only [hres]
          | fuel => simp only [hres]
          | recursion => exact absurd hres hri

theorem members_refines (E : FEnv) (res res' : Nat → FRes) (hr : Refines res res') :
    ∀ (rs : List PathElem) (o : Obj) (prev : PathElem) (acc : List Path),
      members E res o prev rs acc ≠ .recursion →
      members E res' o prev rs acc = members E res o prev rs acc := by
  intro rs
  induction rs with
  | nil => intro o prev acc _; simp only [members]
  | cons r rest ih =>
    intro o prev acc h
    simp only [members, physical] at h ⊢
    have hp : physLoop E.objs res (E.objs.length + 1) o prev [] ≠ .inl .recursion := by
      intro hp; rw [hp] at h; exact h rfl
    rw [physLoop_refines E.objs res res' hr _ o prev [] hp]
    cases hres : physLoop E.objs res (E.objs.length + 1) o prev [] with
    | inl x => simp only [hres]
    | inr p =>
      simp only [hres] at h ⊢
      cases hk : p.kind with
      | module => simp only [hk]
      | type => simp only [hk]
      | value => simp only [hk]
      | param => simp only [hk]
      | field sh =>
        cases sh with
        | array => simp only [hk]
        | virtOther => simp only [hk]
        | virtAlias i => simp only [hk]
        | atomic t =>
          simp only [hk] at h ⊢
          cases ht : E.typeCanon t with
          | none => simp only [ht]
          | some tc =>
            simp only [ht] at h ⊢
            cases hf : findObject E.objs (tc ++ [r.name]) with
            | none => simp only [hf]
            | some o' =>
              simp only [hf] at h ⊢
              exact ih o' r _ h

theorem resolveFRef_mono (E : FEnv) : ∀ (depth depth' i : Nat), depth ≤ depth' →
    resolveFRef E depth i ≠ .recursion → resolveFRef E depth' i = resolveFRef E depth i := by
  intro depth
  induction depth with
  | zero => intro d' i _ h; simp [resolveFRef] at h
  | succ d ih =>
    intro d' i hle h
    obtain ⟨d'', rfl⟩ : ∃ d'', d' = d'' + 1 := ⟨d' - 1, by omega⟩
    have hr : Refines (resolveFRef E d) (resolveFRef E d'') :=
      fun j hj => ih d'' j (by omega) hj
    simp only [resolveFRef] at h ⊢
    cases hfr : E.frefs i with
    | none => simp only [hfr]
    | some fr =>
      cases hh : E.headCanon i with
      | none => simp only [hfr, hh]
      | some hd =>
        simp only [hfr, hh] at h ⊢
        cases hp : fr.path with
        | nil => simp only [hp]
        | cons p0 rest =>
          cases rest with
          | nil => simp only [hp]
          | cons r rest =>
            simp only [hp] at h ⊢
            cases hf : findObject E.objs hd with
            | none => simp only [hf]
            | some o =>
              simp only [hf] at h ⊢
              exact members_refines E _ _ hr _ o p0 _ h

/-! ### Soundness: what the functions bind / reject is derivable by the rules -/

theorem chain_snoc (E : FEnv) {o0 o o' : Obj} {via : List Obj}
    (h : MemberRule E (.chain o0 via o)) (hr : MemberRule E (.renames o o')) :
    MemberRule E (.chain o0 (via ++ [o]) o') := by
  generalize hj : MemberJudgement.chain o0 via o = j at h
  induction h generalizing o0 via with
  | chainNil => cases hj; exact MemberRule.chainCons hr MemberRule.chainNil
  | chainCons h1 _ _ ih2 => cases hj; exact MemberRule.chainCons h1 (ih2 rfl)
  | _ => cases hj

/-- `res` only binds what the rules derive -/
def ResSound (E : FEnv) (res : Nat → FRes) : Prop := ∀ i cs, res i = .ok cs → MemberRule E (.path i cs)

/-- The loop, started anywhere on a chain of renamings from `o0` whose passed fields are the
visited ones: a physical field it returns is the end of a chain through distinct fields, an
error it reports is one of the three ways the chain can end badly. -/
theorem physLoop_sound (E : FEnv) (res : Nat → FRes) (hs : ResSound E res) (o0 : Obj)
    (prev : PathElem) :
    ∀ (n : Nat) (o : Obj) (via vis : List Obj), MemberRule E (.chain o0 via o) → via.Nodup →
      (∀ x, x ∈ vis ↔ x ∈ via) →
      (∀ p, physLoop E.objs res n o prev vis = .inr p →
        ∃ via', MemberRule E (.chain o0 via' p) ∧ via'.Nodup ∧
          ∃ sh, p.kind = .field sh ∧ sh ≠ .virtOther ∧ ∀ i, sh ≠ .virtAlias i) ∧
      (∀ e, physLoop E.objs res n o prev vis = .inl (.err e) →
        MemberFails E (.phys o0 prev e)) := by
  intro n
  induction n with
  | zero =>
    intro o via vis _ _ _
    exact ⟨fun p h => by simp [physLoop] at h, fun e h => by simp [physLoop] at h⟩
  | succ n ih =>
    intro o via vis hc hn hv
    simp only [physLoop]
    cases hk : o.kind with
    | module =>
      refine ⟨fun p h => by simp at h, fun e h => ?_⟩
      simp only [Sum.inl.injEq, FRes.err.injEq] at h; subst h
      exact MemberFails.physNonField hc (by intro sh; rw [hk]; exact fun h => by cases h)
    | type =>
      refine ⟨fun p h => by simp at h, fun e h => ?_⟩
      simp only [Sum.inl.injEq, FRes.err.injEq] at h; subst h
      exact MemberFails.physNonField hc (by intro sh; rw [hk]; exact fun h => by cases h)
    | value =>
      refine ⟨fun p h => by simp at h, fun e h => ?_⟩
      simp only [Sum.inl.injEq, FRes.err.injEq] at h; subst h
      exact MemberFails.physNonField hc (by intro sh; rw [hk]; exact fun h => by cases h)
    | param =>
      refine ⟨fun p h => by simp at h, fun e h => ?_⟩
      simp only [Sum.inl.injEq, FRes.err.injEq] at h; subst h
      exact MemberFails.physNonField hc (by intro sh; rw [hk]; exact fun h => by cases h)
    | field sh =>
      cases sh with
      | atomic t =>
        refine ⟨fun p h => ?_, fun e h => by simp at h⟩
        simp only [Sum.inr.injEq] at h; subst h
        exact ⟨via, hc, hn, _, hk, by simp, by simp⟩
      | array =>
        refine ⟨fun p h => ?_, fun e h => by simp at h⟩
        simp only [Sum.inr.injEq] at h; subst h
        exact ⟨via, hc, hn, _, hk, by simp, by simp⟩
      | virtOther =>
        refine ⟨fun p h => by simp at h, fun e h => ?_⟩
        simp only [Sum.inl.injEq, FRes.err.injEq] at h; subst h
        exact MemberFails.physOther hc hk
      | virtAlias i =>
        by_cases hvis : o ∈ vis
        · simp only [hvis, if_true]
          refine ⟨fun p h => by simp at h, fun e h => ?_⟩
          simp only [Sum.inl.injEq, FRes.err.injEq] at h; subst h
          exact MemberFails.physCycle hc ((hv o).1 hvis)
        · simp only [hvis, if_false]
          cases hres : res i with
          | ok cs =>
            simp only []
            cases hl : cs.getLast? with
            | none => exact ⟨fun p h => by simp at h, fun e h => by simp at h⟩
            | some c =>
              simp only []
              cases hf : findObject E.objs c with
              | none => exact ⟨fun p h => by simp at h, fun e h => by simp at h⟩
              | some o' =>
                simp only []
                have hren : MemberRule E (.renames o o') :=
                  MemberRule.renames hk (hs i cs hres) hl hf
                have hnv : o ∉ via := fun h => hvis ((hv o).2 h)
                refine ih o' (via ++ [o]) (o :: vis) (chain_snoc E hc hren) ?_ ?_
                · rw [List.nodup_append]
                  refine ⟨hn, by simp, ?_⟩
                  intro a ha b hb
                  rw [List.mem_singleton] at hb
                  subst hb
                  exact fun h => hnv (h ▸ ha)
                · intro x
                  simp only [List.mem_cons, List.mem_append, List.not_mem_nil, or_false, hv x]
                  exact Or.comm
          | err e' => exact ⟨fun p h => by simp at h, fun e h => by simp at h⟩
          | bail => exact ⟨fun p h => by simp at h, fun e h => by simp at h⟩
          | crash => exact ⟨fun p h => by simp at h, fun e h => by simp at h⟩
          | fuel => exact ⟨fun p h => by simp at h, fun e h => by simp at h⟩
          | recursion => exact ⟨fun p h => by simp at h, fun e h => by simp at h⟩

theorem physical_sound (E : FEnv) (res : Nat → FRes) (hs : ResSound E res) (o : Obj)
    (prev : PathElem) :
    (∀ p, physical E res o prev = .inr p →
      ∃ via, MemberRule E (.chain o via p) ∧ via.Nodup ∧
        ∃ sh, p.kind = .field sh ∧ sh ≠ .virtOther ∧ ∀ i, sh ≠ .virtAlias i) ∧
    (∀ e, physical E res o prev = .inl (.err e) → MemberFails E (.phys o prev e)) :=
  physLoop_sound E res hs o prev _ o [] [] MemberRule.chainNil List.nodup_nil (fun x => Iff.rfl)

/-- `physLoop` never answers `.inl (.ok _)` -/
theorem physLoop_not_ok (objs : List Obj) (res : Nat → FRes) :
    ∀ (n : Nat) (o : Obj) (prev : PathElem) (vis : List Obj) (cs : List Path),
      physLoop objs res n o prev vis ≠ .inl (.ok cs) := by
  intro n
  induction n with
  | zero => intro o prev vis cs; simp [physLoop]
  | succ n ih =>
    intro o prev vis cs
    simp only [physLoop]
    split
    · split
      · exact fun h => by cases h
      · split
        · split
          · exact fun h => by cases h
          · split
            · exact ih _ _ _ _
            · exact fun h => by cases h
        · exact fun h => by cases h
        · exact fun h => by cases h
        · exact fun h => by cases h
        · exact fun h => by cases h
    · exact fun h => by cases h
    · exact fun h => by cases h
    · exact fun h => by cases h

theorem members_sound (E : FEnv) (res : Nat → FRes) (hs : ResSound E res) :
    ∀ (rs : List PathElem) (o : Obj) (prev : PathElem) (acc : List Path),
      (∀ cs, members E res o prev rs acc = .ok cs →
        ∃ ms, cs = acc ++ ms ∧ MemberRule E (.mem o rs ms)) ∧
      (∀ e, members E res o prev rs acc = .err e → MemberFails E (.mem o prev rs e)) := by
  intro rs
  induction rs with
  | nil =>
    intro o prev acc
    refine ⟨fun cs h => ?_, fun e h => by simp [members] at h⟩
    simp only [members, FRes.ok.injEq] at h
    exact ⟨[], by simp [h], MemberRule.memNil⟩
  | cons r rest ih =>
    intro o prev acc
    obtain ⟨SP, SE⟩ := physical_sound E res hs o prev
    simp only [members]
    cases hres : physical E res o prev with
    | inl x =>
      simp only []
      refine ⟨fun cs h => ?_, fun e h => ?_⟩
      · subst h
        exact absurd hres (physLoop_not_ok _ _ _ _ _ _ _)
      · subst h
        exact MemberFails.memPhys (SE e hres)
    | inr p =>
      simp only []
      obtain ⟨via, hc, hn, _⟩ := SP p hres
      cases hk : p.kind with
      | module => exact ⟨fun cs h => by simp at h, fun e h => by simp at h⟩
      | type => exact ⟨fun cs h => by simp at h, fun e h => by simp at h⟩
      | value => exact ⟨fun cs h => by simp at h, fun e h => by simp at h⟩
      | param => exact ⟨fun cs h => by simp at h, fun e h => by simp at h⟩
      | field sh =>
        cases sh with
        | array =>
          refine ⟨fun cs h => by simp at h, fun e h => ?_⟩
          simp only [FRes.err.injEq] at h; subst h
          exact MemberFails.memArray hc hn hk
        | virtOther => exact ⟨fun cs h => by simp at h, fun e h => by simp at h⟩
        | virtAlias i => exact ⟨fun cs h => by simp at h, fun e h => by simp at h⟩
        | atomic t =>
          simp only []
          cases ht : E.typeCanon t with
          | none => exact ⟨fun cs h => by simp at h, fun e h => by simp at h⟩
          | some tc =>
            simp only []
            cases hf : findObject E.objs (tc ++ [r.name]) with
            | none =>
              refine ⟨fun cs h => by simp at h, fun e h => ?_⟩
              simp only [FRes.err.injEq] at h; subst h
              exact MemberFails.memMissing hc hn hk ht hf
            | some o' =>
              simp only []
              obtain ⟨M1, M2⟩ := ih o' r (acc ++ [tc ++ [r.name]])
              refine ⟨fun cs h => ?_, fun e h => ?_⟩
              · obtain ⟨ms, hcs, hms⟩ := M1 cs h
                exact ⟨(tc ++ [r.name]) :: ms, by simp [hcs],
                  MemberRule.memCons hc hn hk ht hf hms⟩
              · exact MemberFails.memLater hc hn hk ht hf (M2 e h)

theorem resolveFRef_sound (E : FEnv) : ∀ depth : Nat,
    (∀ i cs, resolveFRef E depth i = .ok cs → MemberRule E (.path i cs)) ∧
    (∀ i e, resolveFRef E depth i = .err e → MemberFails E (.path i e)) := by
  intro depth
  induction depth with
  | zero => exact ⟨fun i cs h => by simp [resolveFRef] at h, fun i e h => by simp [resolveFRef] at h⟩
  | succ d ih =>
    have hs : ResSound E (resolveFRef E d) := ih.1
    refine ⟨fun i cs h => ?_, fun i e h => ?_⟩
    · simp only [resolveFRef] at h
      cases hfr : E.frefs i with
      | none => simp [hfr] at h
      | some fr =>
        cases hh : E.headCanon i with
        | none => simp [hfr, hh] at h
        | some hd =>
          simp only [hfr, hh] at h
          cases hp : fr.path with
          | nil => simp [hp] at h
          | cons p0 rest =>
            cases rest with
            | nil =>
              simp only [hp, FRes.ok.injEq] at h
              subst h
              exact MemberRule.pathSingle hfr hh hp
            | cons r rest =>
              simp only [hp] at h
              cases hf : findObject E.objs hd with
              | none => simp [hf] at h
              | some o =>
                simp only [hf] at h
                obtain ⟨ms, hcs, hms⟩ := (members_sound E _ hs (r :: rest) o p0 [hd]).1 cs h
                subst hcs
                exact MemberRule.pathMulti hfr hh hp hf hms
    · simp only [resolveFRef] at h
      cases hfr : E.frefs i with
      | none => simp [hfr] at h
      | some fr =>
        cases hh : E.headCanon i with
        | none => simp [hfr, hh] at h
        | some hd =>
          simp only [hfr, hh] at h
          cases hp : fr.path with
          | nil => simp [hp] at h
          | cons p0 rest =>
            cases rest with
            | nil => simp [hp] at h
            | cons r rest =>
              simp only [hp] at h
              cases hf : findObject E.objs hd with
              | none =>
                simp only [hf, FRes.err.injEq] at h; subst h
                exact MemberFails.pathNoHead hfr hh hp hf
              | some o =>
                simp only [hf] at h
                exact MemberFails.pathMem hfr hh hp hf
                  ((members_sound E _ hs (r :: rest) o p0 [hd]).2 e h)

/-! ### Completeness: whatever the rules derive, the functions compute (given enough nesting budget) -/

/-- a chain of renamings as the loop sees it: every step is an answer of the nested call -/
inductive Follows (objs : List Obj) (res : Nat → FRes) : Obj → List Obj → Obj → Prop
  | nil {o} : Follows objs res o [] o
  | cons {o i cs c o' via p} : o.kind = .field (.virtAlias i) → res i = .ok cs →
      cs.getLast? = some c → findObject objs c = some o' → Follows objs res o' via p →
      Follows objs res o (o :: via) p

theorem Follows.via_kind {objs : List Obj} {res : Nat → FRes} {o p : Obj} {via : List Obj}
    (h : Follows objs res o via p) : ∀ x ∈ via, ∃ i, x.kind = .field (.virtAlias i) := by
  induction h with
  | nil => intro x hx; cases hx
  | cons hk _ _ _ _ ih =>
    intro x hx
    rcases List.mem_cons.1 hx with rfl | hx
    · exact ⟨_, hk⟩
    · exact ih x hx

/-- Running the loop along a chain: either it reports the noncomposite error on the way (only
when the chain passes a field twice or a field already visited), or it arrives at the end of the
chain with every field of the chain visited. -/
theorem follows_run (objs : List Obj) (res : Nat → FRes) (prev : PathElem) {o p : Obj}
    {via : List Obj} (h : Follows objs res o via p) :
    ∀ (n : Nat) (vis : List Obj), LoopInv objs n vis → o ∈ objs →
      (physLoop objs res n o prev vis = .inl (.err (Err.noncomposite prev.name prev.rloc)) ∧
        ¬ (via.Nodup ∧ ∀ x ∈ via, x ∉ vis)) ∨
      (∃ n' vis', LoopInv objs n' vis' ∧ p ∈ objs ∧ (∀ x ∈ vis, x ∈ vis') ∧
        (∀ x ∈ via, x ∈ vis') ∧
        physLoop objs res n o prev vis = physLoop objs res n' p prev vis') := by
  induction h with
  | nil =>
    intro n vis inv ho
    exact Or.inr ⟨n, vis, inv, ho, fun x hx => hx, (fun x hx => nomatch hx), rfl⟩
  | @cons o i cs c o' via p hk hres hl hf _ ih =>
    intro n vis inv ho
    obtain ⟨n0, rfl⟩ : ∃ n0, n = n0 + 1 := ⟨n - 1, by have := inv.pos; omega⟩
    by_cases hv : o ∈ vis
    · left
      refine ⟨by simp only [physLoop, hk, hv, if_true], ?_⟩
      intro hh
      exact hh.2 o (List.mem_cons_self ..) hv
    · have hstep : physLoop objs res (n0 + 1) o prev vis = physLoop objs res n0 o' prev (o :: vis) := by
        simp only [physLoop, hk, hv, if_false, hres, hl, hf]
      rcases ih n0 (o :: vis) (inv.step ho hv) (findObject_mem hf) with ⟨he, hnot⟩ | ⟨n', vis', inv', hp, hsub, hvia, heq⟩
      · left
        refine ⟨by rw [hstep, he], ?_⟩
        intro hh
        have hnc := List.nodup_cons.1 hh.1
        apply hnot
        refine ⟨hnc.2, ?_⟩
        intro x hx hmem
        rcases List.mem_cons.1 hmem with rfl | hmem
        · exact hnc.1 hx
        · exact hh.2 x (List.mem_cons_of_mem _ hx) hmem
      · right
        refine ⟨n', vis', inv', hp, fun x hx => hsub x (List.mem_cons_of_mem _ hx), ?_, by rw [hstep, heq]⟩
        intro x hx
        rcases List.mem_cons.1 hx with rfl | hx
        · exact hsub _ (List.mem_cons_self ..)
        · exact hvia x hx

theorem physLoop_end_nonfield (objs : List Obj) (res : Nat → FRes) (prev : PathElem) {n : Nat}
    {vis : List Obj} {p : Obj} (inv : LoopInv objs n vis) (hk : ∀ sh, p.kind ≠ .field sh) :
    physLoop objs res n p prev vis = .inl (.err (Err.noncomposite prev.name prev.rloc)) := by
  obtain ⟨n0, rfl⟩ : ∃ n0, n = n0 + 1 := ⟨n - 1, by have := inv.pos; omega⟩
  simp only [physLoop]
  cases hk' : p.kind with
  | field sh => exact absurd hk' (hk sh)
  | module => rfl
  | type => rfl
  | value => rfl
  | param => rfl

/-- From the start of the loop (nothing visited) along a chain through distinct fields. -/
theorem physical_follows (E : FEnv) (res : Nat → FRes) (prev : PathElem) {o p : Obj}
    {via : List Obj} (h : Follows E.objs res o via p) (ho : o ∈ E.objs) (hn : via.Nodup) :
    ∃ n' vis', LoopInv E.objs n' vis' ∧ (∀ x ∈ via, x ∈ vis') ∧
      physical E res o prev = physLoop E.objs res n' p prev vis' := by
  rcases follows_run E.objs res prev h _ [] (LoopInv.init _) ho with ⟨_, hnot⟩ | ⟨n', vis', inv', _, _, hvia, heq⟩
  · exact absurd ⟨hn, (fun x _ hx => nomatch hx)⟩ hnot
  · exact ⟨n', vis', inv', hvia, heq⟩

theorem physical_follows_phys (E : FEnv) (res : Nat → FRes) (prev : PathElem) {o p : Obj}
    {via : List Obj} (h : Follows E.objs res o via p) (ho : o ∈ E.objs) (hn : via.Nodup)
    (hk : (∃ t, p.kind = .field (.atomic t)) ∨ p.kind = .field .array) :
    physical E res o prev = .inr p := by
  obtain ⟨n', vis', inv', _, heq⟩ := physical_follows E res prev h ho hn
  obtain ⟨n0, rfl⟩ : ∃ n0, n' = n0 + 1 := ⟨n' - 1, by have := inv'.pos; omega⟩
  rw [heq]
  rcases hk with ⟨t, hk⟩ | hk <;> simp only [physLoop, hk]

/-- Whatever way the chain ends badly — or passes a field twice —, the answer is the one
noncomposite error. -/
theorem physical_follows_err (E : FEnv) (res : Nat → FRes) (prev : PathElem) {o p : Obj}
    {via : List Obj} (h : Follows E.objs res o via p) (ho : o ∈ E.objs)
    (hk : (∀ sh, p.kind ≠ .field sh) ∨ p.kind = .field .virtOther ∨ p ∈ via) :
    physical E res o prev = .inl (.err (Err.noncomposite prev.name prev.rloc)) := by
  rcases follows_run E.objs res prev h _ [] (LoopInv.init _) ho with ⟨he, _⟩ | ⟨n', vis', inv', _, _, hvia, heq⟩
  · exact he
  · unfold physical
    rw [heq]
    rcases hk with hk | hk | hk
    · exact physLoop_end_nonfield _ _ _ inv' hk
    · obtain ⟨n0, rfl⟩ : ∃ n0, n' = n0 + 1 := ⟨n' - 1, by have := inv'.pos; omega⟩
      simp only [physLoop, hk]
    · obtain ⟨n0, rfl⟩ : ∃ n0, n' = n0 + 1 := ⟨n' - 1, by have := inv'.pos; omega⟩
      obtain ⟨i, hki⟩ := h.via_kind p hk
      simp only [physLoop, hki, hvia p hk, if_true]

def Complete (E : FEnv) : MemberJudgement → Prop
  | .renames o o' => ∃ d, ∀ d', d ≤ d' → ∃ i cs c, o.kind = .field (.virtAlias i) ∧
      resolveFRef E d' i = .ok cs ∧ cs.getLast? = some c ∧ findObject E.objs c = some o'
  | .chain o via p => ∃ d, ∀ d', d ≤ d' → Follows E.objs (resolveFRef E d') o via p
  | .mem o rs ms => ∃ d, ∀ d', d ≤ d' → ∀ prev acc, o ∈ E.objs →
      members E (resolveFRef E d') o prev rs acc = .ok (acc ++ ms)
  | .path i cs => ∃ d, ∀ d', d ≤ d' → resolveFRef E d' i = .ok cs

theorem member_complete (E : FEnv) (j : MemberJudgement) (h : MemberRule E j) : Complete E j := by
  induction h with
  | @renames o i cs c o' hk _ hl hf ih =>
    obtain ⟨d, hd⟩ := ih
    exact ⟨d, fun d' hle => ⟨i, cs, c, hk, hd d' hle, hl, hf⟩⟩
  | chainNil => exact ⟨0, fun _ _ => Follows.nil⟩
  | chainCons _ _ ih1 ih2 =>
    obtain ⟨d1, h1⟩ := ih1
    obtain ⟨d2, h2⟩ := ih2
    refine ⟨max d1 d2, fun d' hle => ?_⟩
    obtain ⟨i, cs, c, hk, hr, hl, hf⟩ := h1 d' (by omega)
    exact Follows.cons hk hr hl hf (h2 d' (by omega))
  | memNil => exact ⟨0, fun d' _ prev acc _ => by simp [members]⟩
  | @memCons o via p t tc r o' rest cs _ hn hk ht hf _ ih1 ih2 =>
    obtain ⟨d1, h1⟩ := ih1
    obtain ⟨d2, h2⟩ := ih2
    refine ⟨max d1 d2, fun d' hle prev acc ho => ?_⟩
    have hp := physical_follows_phys E _ prev (h1 d' (by omega)) ho hn (Or.inl ⟨t, hk⟩)
    have hm := h2 d' (by omega) r (acc ++ [tc ++ [r.name]]) (findObject_mem hf)
    simp only [members, hp, hk, ht, hf, hm, List.append_assoc, List.singleton_append]
  | pathSingle hfr hh hp =>
    refine ⟨1, fun d' hle => ?_⟩
    obtain ⟨d'', rfl⟩ : ∃ d'', d' = d'' + 1 := ⟨d' - 1, by omega⟩
    simp only [resolveFRef, hfr, hh, hp]
  | @pathMulti i fr hd p0 r rest o cs hfr hh hp hf _ ih =>
    obtain ⟨d, h⟩ := ih
    refine ⟨d + 1, fun d' hle => ?_⟩
    obtain ⟨d'', rfl⟩ : ∃ d'', d' = d'' + 1 := ⟨d' - 1, by omega⟩
    simp only [resolveFRef, hfr, hh, hp, hf, h d'' (by omega) p0 [hd] (findObject_mem hf),
      List.singleton_append]

def FailComplete (E : FEnv) : MemberFailJudgement → Prop
  | .phys o prev e => ∃ d, ∀ d', d ≤ d' → o ∈ E.objs →
      physical E (resolveFRef E d') o prev = .inl (.err e)
  | .mem o prev rs e => ∃ d, ∀ d', d ≤ d' → ∀ acc, o ∈ E.objs →
      members E (resolveFRef E d') o prev rs acc = .err e
  | .path i e => ∃ d, ∀ d', d ≤ d' → resolveFRef E d' i = .err e

theorem member_fail_complete (E : FEnv) (j : MemberFailJudgement) (h : MemberFails E j) :
    FailComplete E j := by
  induction h with
  | @physNonField o via p prev hc hk =>
    obtain ⟨d, hd⟩ := member_complete E _ hc
    exact ⟨d, fun d' hle ho => physical_follows_err E _ prev (hd d' hle) ho (Or.inl hk)⟩
  | @physOther o via p prev hc hk =>
    obtain ⟨d, hd⟩ := member_complete E _ hc
    exact ⟨d, fun d' hle ho => physical_follows_err E _ prev (hd d' hle) ho (Or.inr (Or.inl hk))⟩
  | @physCycle o via p prev hc hk =>
    obtain ⟨d, hd⟩ := member_complete E _ hc
    exact ⟨d, fun d' hle ho => physical_follows_err E _ prev (hd d' hle) ho (Or.inr (Or.inr hk))⟩
  | @memPhys o prev r rest e _ ih =>
    obtain ⟨d, hd⟩ := ih
    exact ⟨d, fun d' hle acc ho => by simp only [members, hd d' hle ho]⟩
  | @memArray o via p prev r rest hc hn hk =>
    obtain ⟨d, hd⟩ := member_complete E _ hc
    refine ⟨d, fun d' hle acc ho => ?_⟩
    have hp := physical_follows_phys E _ prev (hd d' hle) ho hn (Or.inr hk)
    simp only [members, hp, hk]
  | @memMissing o via p t tc prev r rest hc hn hk ht hf =>
    obtain ⟨d, hd⟩ := member_complete E _ hc
    refine ⟨d, fun d' hle acc ho => ?_⟩
    have hp := physical_follows_phys E _ prev (hd d' hle) ho hn (Or.inl ⟨t, hk⟩)
    simp only [members, hp, hk, ht, hf]
  | @memLater o via p t tc prev r rest o' e hc hn hk ht hf _ ih =>
    obtain ⟨d1, h1⟩ := member_complete E _ hc
    obtain ⟨d2, h2⟩ := ih
    refine ⟨max d1 d2, fun d' hle acc ho => ?_⟩
    have hp := physical_follows_phys E _ prev (h1 d' (by omega)) ho hn (Or.inl ⟨t, hk⟩)
    simp only [members, hp, hk, ht, hf, h2 d' (by omega) _ (findObject_mem hf)]
  | pathNoHead hfr hh hp hf =>
    refine ⟨1, fun d' hle => ?_⟩
    obtain ⟨d'', rfl⟩ : ∃ d'', d' = d'' + 1 := ⟨d' - 1, by omega⟩
    simp only [resolveFRef, hfr, hh, hp, hf]
  | @pathMem i fr hd p0 r rest o e hfr hh hp hf _ ih =>
    obtain ⟨d, h⟩ := ih
    refine ⟨d + 1, fun d' hle => ?_⟩
    obtain ⟨d'', rfl⟩ : ∃ d'', d' = d'' + 1 := ⟨d' - 1, by omega⟩
    simp only [resolveFRef, hfr, hh, hp, hf, h d'' (by omega) [hd] (findObject_mem hf)]

/-! ### Errors of the member loop are of the three documented kinds -/

def MemberErrKind : Err → Prop
  | .arrayMember _ _ => True
  | .noncomposite _ _ => True
  | .missing _ _ => True
  | _ => False

theorem member_err_kinds (E : FEnv) (depth i : Nat) (e : Err)
    (h : resolveFRef E depth i = .err e) : MemberErrKind e := by
  have hf := (resolveFRef_sound E depth).2 i e h
  generalize hj : MemberFailJudgement.path i e = j at hf
  have key : ∀ j, MemberFails E j →
      match j with
      | .phys _ _ e => MemberErrKind e
      | .mem _ _ _ e => MemberErrKind e
      | .path _ e => MemberErrKind e := by
    intro j hj
    induction hj with
    | physNonField => trivial
    | physOther => trivial
    | physCycle => trivial
    | memPhys _ ih => exact ih
    | memArray => trivial
    | memMissing => trivial
    | memLater _ _ _ _ _ _ ih => exact ih
    | pathNoHead => trivial
    | pathMem _ _ _ _ _ ih => exact ih
  have := key j hf
  subst hj
  exact this

end Emboss.Scope
