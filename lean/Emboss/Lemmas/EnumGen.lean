/-
Helper lemmas for C19: from `generate d = some g` to the declarative lists; underlying type;
enumerator values.
-/
import Emboss.Lemmas.EnumSem
import Emboss.Lemmas.CppInt
namespace Emboss.Enum
open Emboss.CppInt

/-- The spellings of a value as the back end computes them ([] if it would crash). -/
def namesOf (d : Def) (v : Value) : List Name :=
  match enumeratorNames v.name (effectiveCase v.attrs (defaultsOf d.levels)) with
  | some l => l
  | none => []

theorem stepValues_some (dflt : Option (List Char)) (vs : List Value) (st st' : LoopState)
    (h : stepValues dflt st vs = some st') :
    ∀ v ∈ vs, ∃ l, enumeratorNames v.name (effectiveCase v.attrs dflt) = some l := by
  induction vs generalizing st with
  | nil => intro v hv; cases hv
  | cons w ws ih =>
    intro v hv
    simp only [stepValues] at h
    cases hn : enumeratorNames w.name (effectiveCase w.attrs dflt) with
    | none => simp [hn] at h
    | some l =>
      simp only [hn] at h
      rcases List.mem_cons.mp hv with rfl | hv'
      · exact ⟨l, hn⟩
      · exact ih _ h v hv'

theorem splitComma_ne_nil (s : List Char) : splitComma s ≠ [] := by
  induction s with
  | nil => simp [splitComma]
  | cons c cs ih =>
    simp only [splitComma]
    split
    · simp
    · split <;> simp

theorem dropTrailingBlank_ne_nil (ps : List (List Char)) (h : ps ≠ []) : dropTrailingBlank ps ≠ [] := by
  unfold dropTrailingBlank
  split
  · split
    · simp
    · exact h
  · exact h

theorem splitCases_ne_nil (t : List Char) : splitCases t ≠ [] := by
  unfold splitCases
  intro h
  exact dropTrailingBlank_ne_nil _ (splitComma_ne_nil t) (List.map_eq_nil_iff.mp h)

theorem mapM_option_ne_nil {α β : Type} (f : α → Option β) (a : α) (as : List α) (l : List β)
    (h : (a :: as).mapM f = some l) : l ≠ [] := by
  simp only [List.mapM_cons] at h
  cases hf : f a with
  | none => simp [hf] at h
  | some b =>
    cases hr : as.mapM f with
    | none => simp [hf, hr] at h
    | some bs =>
      simp [hf, hr] at h
      subst h; simp

theorem enumeratorNames_ne_nil (n : Name) (e : Effective) (l : List Name)
    (h : enumeratorNames n e = some l) : l ≠ [] := by
  cases e with
  | crash => simp [enumeratorNames] at h
  | unset => simp [enumeratorNames] at h; subst h; simp
  | cases t =>
    simp only [enumeratorNames] at h
    cases hs : splitCases t with
    | nil => exact absurd hs (splitCases_ne_nil t)
    | cons c cs => rw [hs] at h; exact mapM_option_ne_nil _ _ _ _ h

/-- What `generate` returns, declaratively. -/
theorem generate_spec (d : Def) (g : Gen) (h : generate d = some g) :
    cppTypeForEnum d.maxBits d.isSigned = some g.ty ∧
    (∀ v ∈ d.values, namesOf d v ≠ []) ∧
    g.enumerators = enumsOf (namesOf d) d.values ∧
    g.fromName = fromOf (namesOf d) d.values ∧
    g.toName = toOf (namesOf d) [] d.values ∧
    g.known = (toOf (namesOf d) [] d.values).map (·.1) := by
  unfold generate at h
  cases hty : cppTypeForEnum d.maxBits d.isSigned with
  | none => simp [hty] at h
  | some ty =>
    simp only [hty] at h
    cases hst : stepValues (defaultsOf d.levels) ⟨{ ty := ty }, []⟩ d.values with
    | none => simp [hst] at h
    | some st =>
      simp only [hst, Option.map_some, Option.some.injEq] at h
      have hsome := stepValues_some _ _ _ _ hst
      have hnm : ∀ v ∈ d.values, enumeratorNames v.name (effectiveCase v.attrs (defaultsOf d.levels)) =
          some (namesOf d v) := by
        intro v hv
        obtain ⟨l, hl⟩ := hsome v hv
        simp [namesOf, hl]
      have hne : ∀ v ∈ d.values, namesOf d v ≠ [] := fun v hv =>
        enumeratorNames_ne_nil _ _ _ (hnm v hv)
      have hrun := stepValues_eq_runLoop _ (namesOf d) d.values ⟨{ ty := ty }, []⟩ hnm
      rw [hst] at hrun
      have hst' : st = runLoop (namesOf d) ⟨{ ty := ty }, []⟩ d.values := Option.some.inj hrun
      obtain ⟨h1, h2, h3, h4, h5⟩ := runLoop_spec (namesOf d) d.values hne { ty := ty } []
      subst h
      rw [hst']
      refine ⟨?_, hne, ?_, ?_, ?_, ?_⟩
      · rw [h1]
      · simpa using h2
      · simpa using h3
      · simpa using h4
      · simpa using h5

/-- `_cpp_integer_type_for_enum`: the declared signedness, wide enough, at most 64 bits. -/
theorem cppTypeForEnum_spec (mb : Int) (sg : Bool) (ty : IntTy) (h : cppTypeForEnum mb sg = some ty) :
    ty.signed = sg ∧ mb ≤ ty.bits ∧ (ty.bits = 8 ∨ ty.bits = 16 ∨ ty.bits = 32 ∨ ty.bits = 64) := by
  unfold cppTypeForEnum at h
  split at h
  · cases h; simp; omega
  · split at h
    · cases h; simp; omega
    · split at h
      · cases h; simp; omega
      · split at h
        · cases h; simp; omega
        · cases h

theorem holds_of_inRange (sg : Bool) (bits : Nat) (ty : IntTy) (v : Int) (hs : ty.signed = sg)
    (hb : bits ≤ ty.bits) (h1 : 1 ≤ bits) (h : inRange sg bits v = true) : ty.holds v = true := by
  unfold inRange at h
  unfold IntTy.holds IntTy.minVal IntTy.maxVal
  rw [hs]
  have m1 : pow2 (bits - 1) ≤ pow2 (ty.bits - 1) := pow2_mono (by omega)
  have m2 : pow2 bits ≤ pow2 ty.bits := pow2_mono hb
  cases sg with
  | true =>
    simp only [if_true, Bool.and_eq_true, decide_eq_true_eq] at h ⊢
    omega
  | false =>
    simp only [Bool.false_eq_true, if_false, Bool.and_eq_true, decide_eq_true_eq] at h ⊢
    omega

theorem enumeratorValue_exact (t : IntTy) (v : Int) (hb : t.bits ≤ 64) (h0 : 0 < t.bits)
    (h : t.holds v = true) : enumeratorValue t v = some v := by
  have hr : -9223372036854775808 ≤ v ∧ v ≤ 18446744073709551615 := by
    have m1 : pow2 (t.bits - 1) ≤ pow2 63 := pow2_mono (by omega)
    have m2 : pow2 t.bits ≤ pow2 64 := pow2_mono hb
    have p := pow2_pos (t.bits - 1)
    rw [pow2_63] at m1
    rw [pow2_64] at m2
    unfold IntTy.holds IntTy.minVal IntTy.maxVal at h
    cases hsg : t.signed with
    | true =>
      simp only [hsg, if_true, Bool.and_eq_true, decide_eq_true_eq] at h
      have hs : pow2 t.bits = 2 * pow2 (t.bits - 1) := by
        have : t.bits = (t.bits - 1) + 1 := by omega
        rw [this, pow2_succ]; simp
      omega
    | false =>
      simp only [hsg, Bool.false_eq_true, if_false, Bool.and_eq_true, decide_eq_true_eq] at h
      omega
  obtain ⟨r, hr1, hr2⟩ := render_eval v hr.1 hr.2
  simp [enumeratorValue, hr1, hr2, h]

theorem mapM_enumeratorValue (t : IntTy) (es : List (Name × Int))
    (h : ∀ p ∈ es, enumeratorValue t p.2 = some p.2) :
    es.mapM (fun p => (enumeratorValue t p.2).map (fun x => (p.1, x))) = some es := by
  induction es with
  | nil => rfl
  | cons e es ih =>
    simp only [List.mapM_cons, h e (List.mem_cons_self ..), Option.map_some]
    rw [ih (fun p hp => h p (List.mem_cons_of_mem _ hp))]
    rfl

end Emboss.Enum
