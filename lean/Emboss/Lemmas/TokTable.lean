/-
Lemmas about the regenerated pattern table (C10): the only pattern without a symbol is
`\\s+`, so skipped text is whitespace.
-/
import Emboss.Lemmas.TokNumberClass
namespace Emboss.Tok
open Emboss.Regex Emboss.Tok.Class Emboss.Generated

theorem lang_rep_chr {r pre rest} (h : Lang r pre rest) :
    ∀ c mn mx, r = .rep (.chr c) mn mx → pre.all c.mem = true := by
  induction h with
  | eps => intro c mn mx hr; cases hr
  | chr => intro c mn mx hr; cases hr
  | seq => intro c mn mx hr; cases hr
  | altL => intro c mn mx hr; cases hr
  | altR => intro c mn mx hr; cases hr
  | repStop => intro c mn mx _; rfl
  | repIter _ hu _ _ ihv =>
    intro c mn mx hr
    cases hr
    cases hu with
    | chr _ x _ hm =>
      simp only [List.cons_append, List.nil_append, List.all_cons, hm, Bool.true_and]
      exact ihv c _ _ rfl
  | eol => intro c mn mx hr; cases hr

theorem nosym_is_space : tokTable.pats.all (fun p => p.sym.isSome || p.re == reSpace) = true := by
  decide +kernel

/-- Text skipped between tokens was matched by `\\s+`: it is whitespace only. -/
theorem gap_is_whitespace {s : List Char} {n : Nat} (h : IsBest tokTable.pats s n none) :
    (s.take n).all isSpaceChar = true := by
  obtain ⟨pre, p, post, hp, hm, hs, _, _⟩ := h
  have hmem : p ∈ tokTable.pats := by rw [hp]; simp
  have := List.all_eq_true.mp nosym_is_space p hmem
  rw [hs] at this
  simp only [Option.isSome_none, Bool.false_or, beq_iff_eq] at this
  obtain ⟨_, hl⟩ := matchLen_sound _ _ _ hm
  rw [this] at hl
  have := lang_rep_chr hl cSpace 1 none rfl
  rw [List.all_eq_true] at this ⊢
  intro x hx
  have := this x hx
  simpa [cSpace, CClass.mem, CItem.mem, isSpaceChar] using this

/-- The chosen length is the maximum over all patterns, and some pattern attains it. -/
theorem IsBest.max {pats s n sy} (h : IsBest pats s n sy) :
    (∃ p ∈ pats, matchLen p.re s = .ok n) ∧ ∀ q ∈ pats, ∀ m, matchLen q.re s = .ok m → m ≤ n := by
  obtain ⟨pre, p, post, hp, hm, _, hpre, hpost⟩ := h
  refine ⟨⟨p, by rw [hp]; simp, hm⟩, ?_⟩
  intro q hq m hqm
  rw [hp, List.mem_append, List.mem_cons] at hq
  rcases hq with hq | rfl | hq
  · exact Nat.le_of_lt (hpre q hq m hqm)
  · rw [hm] at hqm; cases hqm; exact Nat.le_refl _
  · exact hpost q hq m hqm

/-- The pattern loop's choice is unique. -/
theorem IsBest.unique {pats s n sy n' sy'} (h : IsBest pats s n sy) (h' : IsBest pats s n' sy') :
    n = n' ∧ sy = sy' := by
  obtain ⟨⟨p, hp, hm⟩, hmax⟩ := h.max
  obtain ⟨⟨p', hp', hm'⟩, hmax'⟩ := h'.max
  have hn : n = n' := Nat.le_antisymm (hmax' p hp n hm) (hmax p' hp' n' hm')
  subst hn
  obtain ⟨q, hf, hs⟩ := h.find
  obtain ⟨q', hf', hs'⟩ := h'.find
  rw [hf] at hf'
  cases hf'
  exact ⟨rfl, hs.symm.trans hs'⟩

/-- Every token of a cover that starts where a maximal word run `w` starts *is* that run,
and its symbol is the one the pattern loop computes for the run. -/
theorem cover_word_token {ln : Nat} {line : List Char} {segs : List Seg}
    (h : Covers tokTable.pats ln line 0 segs) {t : Token} (ht : t ∈ tokensOf segs)
    {w rest : List Char} (hs : line.drop (t.sc - 1) = w ++ rest) (hr : WordRun w rest) :
    t.text = w ∧ bestMatch tokTable.pats (w ++ rest) 0 none = some (w.length, some t.sym) := by
  obtain ⟨_, _, _, _, h5, _, h7, h8⟩ := h.token_facts t ht
  simp only [Nat.sub_zero] at h7 h8
  rw [hs] at h7 h8
  obtain ⟨sy, hb, hbest⟩ := word_run_best hr
  obtain ⟨hn, hsy⟩ := h8.unique hbest
  refine ⟨?_, by rw [hb, hsy]⟩
  rw [h7, show t.ec - t.sc = t.text.length by omega, hn]
  simp

end Emboss.Tok
