/-
Lemmas about the regenerated pattern table (C10): the only pattern without a symbol is
`\\s+`, so skipped text is whitespace.
-/
import Emboss.Lemmas.TokNumberClass
namespace Emboss.Tok
open Emboss.Regex Emboss.Tok.Class Emboss.Generated

theorem lang_rep_chr {r pre rest} (h : Lang r pre rest) :
    ∀ c mn mx, r = .rep (.chr c) mn mx → pre.all c.mem = true := by
  induction h with
  | eps => intro c mn mx hr; cases hr
  | chr => intro c mn mx hr; cases hr
  | seq => intro c mn mx hr; cases hr
  | altL => intro c mn mx hr; cases hr
  | altR => intro c mn mx hr; cases hr
  | repStop => intro c mn mx _; rfl
  | repIter _ hu _ _ ihv =>
    intro c mn mx hr
    cases hr
    cases hu with
    | chr _ x _ hm =>
      simp only [List.cons_append, List.nil_append, List.all_cons, hm, Bool.true_and]
      exact ihv c _ _ rfl
  | eol => intro c mn mx hr; cases hr

theorem nosym_is_space : tokTable.pats.all (fun p => p.sym.isSome || p.re == reSpace) = true := by
  decide +kernel

/-- Text skipped between tokens was matched by `\\s+`: it is whitespace only. -/
theorem gap_is_whitespace {s : List Char} {n : Nat} (h : IsBest tokTable.pats s n none) :
    (s.take n).all isSpaceChar = true := by
  obtain ⟨pre, p, post, hp, hm, hs, _, _⟩ := h
  have hmem : p ∈ tokTable.pats := by rw [hp]; simp
  have := List.all_eq_true.mp nosym_is_space p hmem
  rw [hs] at this
  simp only [Option.isSome_none, Bool.false_or, beq_iff_eq] at this
  obtain ⟨_, hl⟩ := matchLen_sound _ _ _ hm
  rw [this] at hl
  have := lang_rep_chr hl cSpace 1 none rfl
  rw [List.all_eq_true] at this ⊢
  intro x hx
  have := this x hx
  simpa [cSpace, CClass.mem, CItem.mem, isSpaceChar] using this

end Emboss.Tok
