/-
Lemmas about the regenerated pattern table (C10): table-specific facts.
-/
import Emboss.Lemmas.TokFile
import Emboss.Generated.TokTable
namespace Emboss.Tok
open Emboss.Regex Emboss.Generated

end Emboss.Tok
