/-
C14 lemmas, part 5: the passes in the Python's reporting order (`Forest.walk` / `trav`) report
nothing exactly when the per-entity regrouping reports nothing.
-/
import Emboss.Spec.Constraints
namespace Emboss.Constraints
open Emboss.Generated

theorem walk_nil (pre post : Visit) (F : Forest) : ∀ d,
    F.walk pre post d = [] ↔ ∀ c ∈ F.ctxs d, pre c.1 c.2 = [] ∧ post c.1 c.2 = [] := by
  induction F with
  | nil => intro d; simp [Forest.walk, Forest.ctxs]
  | node t ch sib ihc ihs =>
    intro d
    simp only [Forest.walk, Forest.ctxs, List.append_eq_nil_iff, ihc, ihs, List.mem_cons,
      List.mem_append]
    constructor
    · rintro ⟨⟨⟨h1, h2⟩, h3⟩, h4⟩ c (rfl | hc | hc)
      · exact ⟨h1, h3⟩
      · exact h2 c hc
      · exact h4 c hc
    · intro h
      exact ⟨⟨⟨(h _ (Or.inl rfl)).1, fun c hc => h c (Or.inr (Or.inl hc))⟩, (h _ (Or.inl rfl)).2⟩,
        fun c hc => h c (Or.inr (Or.inr hc))⟩

theorem trav_nil (p : Program) (pre post : Visit) :
    trav p pre post = [] ↔ ∀ c ∈ allTypes p, pre c.1 c.2 = [] ∧ post c.1 c.2 = [] := by
  simp only [trav, allTypes, List.flatMap_eq_nil_iff, walk_nil, Module.ctxs, List.mem_flatMap]
  constructor
  · rintro h c ⟨m, hm, hc⟩; exact h m hm c hc
  · intro h m hm c hc; exact h c ⟨m, hm, hc⟩

theorem trav_pre_nil (p : Program) (pre : Visit) :
    trav p pre noVisit = [] ↔ ∀ c ∈ allTypes p, pre c.1 c.2 = [] := by
  rw [trav_nil]; simp [noVisit]

theorem trav_post_nil (p : Program) (post : Visit) :
    trav p noVisit post = [] ↔ ∀ c ∈ allTypes p, post c.1 c.2 = [] := by
  rw [trav_nil]; simp [noVisit]

/-- The three array traversals together are the per-field `arrayChecks`. -/
theorem arrayChecks_split (p : Program) (t : TypeInfo) : ∀ (ty : Ty) (outer : Bool),
    arrayChecks p t outer ty = [] ↔
      (elemFixed p ty = [] ∧ elemBytes p t ty = [] ∧ innerDims outer ty = []) := by
  intro ty
  induction ty with
  | atomic r s => intro outer; simp [arrayChecks, elemFixed, elemBytes, innerDims]
  | array base len ih =>
    intro outer
    simp only [arrayChecks, elemFixed, elemBytes, innerDims, List.append_eq_nil_iff, ih false]
    cases base with
    | atomic r s =>
      cases hl : leafFixedSize p (r, s) with
      | none => simp [hl, elemFixed, elemBytes, innerDims]
      | some sz =>
        by_cases hm : sz % (effUnit t).bits = 0 <;>
          simp [hl, hm, elemFixed, elemBytes, innerDims]
    | array b l => simp only [true_and]; constructor <;> (intro h; simp_all)

theorem onPhys_nil (t : TypeInfo) (g : Field → List EK) :
    onPhys t g = [] ↔ ∀ f ∈ t.fields, f.isVirtual = false → g f = [] := by
  simp only [onPhys, List.flatMap_eq_nil_iff]
  refine forall_congr' fun f => forall_congr' fun _ => ?_
  cases f.isVirtual <;> simp

theorem passEarly_nil (p : Program) : passEarly p = [] ↔ earlyByEntity p = [] := by
  simp only [passEarly, earlyByEntity, trav_post_nil, List.flatMap_eq_nil_iff]

theorem passAttrs_nil (p : Program) : passAttrs p = [] ↔ attrsByEntity p = [] := by
  simp only [passAttrs, attrsByEntity, attrsOfType, trav_pre_nil, List.append_eq_nil_iff,
    List.flatMap_eq_nil_iff]
  constructor
  · rintro ⟨⟨⟨hm, h1⟩, h2⟩, h3⟩
    exact ⟨hm, fun c hc => ⟨⟨h1 c hc, h2 c hc⟩, h3 c hc⟩⟩
  · rintro ⟨hm, h⟩
    exact ⟨⟨⟨hm, fun c hc => (h c hc).1.1⟩, fun c hc => (h c hc).1.2⟩, fun c hc => (h c hc).2⟩

theorem passVerify_nil (p : Program) : passVerify p = [] ↔ verifyByEntity p = [] := by
  simp only [passVerify, verifyByEntity, verifyOfType, trav_pre_nil, List.append_eq_nil_iff,
    List.flatMap_eq_nil_iff]
  constructor
  · rintro ⟨⟨⟨⟨hm, h1⟩, h2⟩, h3⟩, h4⟩
    exact ⟨hm, fun c hc => ⟨⟨⟨h1 c hc, h2 c hc⟩, h3 c hc⟩, h4 c hc⟩⟩
  · rintro ⟨hm, h⟩
    exact ⟨⟨⟨⟨hm, fun c hc => (h c hc).1.1.1⟩, fun c hc => (h c hc).1.1.2⟩,
      fun c hc => (h c hc).1.2⟩, fun c hc => (h c hc).2⟩

theorem fieldConstraints_nil (p : Program) (t : TypeInfo) (f : Field) :
    fieldConstraints p t f = [] ↔
      ((f.isVirtual = false → allowedInBits p t f = []) ∧
       (f.isVirtual = false → elemFixed p f.ty = []) ∧
       (f.isVirtual = false → elemBytes p t f.ty = []) ∧
       (f.isVirtual = false → innerDims true f.ty = []) ∧
       (f.isVirtual = false → typeReq p t f = []) ∧
       (if isReserved f.name = true then [EK.reservedField] else []) = []) := by
  unfold fieldConstraints
  cases hv : f.isVirtual with
  | true => simp
  | false =>
    simp only [Bool.false_eq_true, ↓reduceIte, List.append_eq_nil_iff, arrayChecks_split,
      forall_const]
    constructor
    · rintro ⟨⟨⟨a, b, c, d⟩, e⟩, r⟩; exact ⟨a, b, c, d, e, r⟩
    · rintro ⟨a, b, c, d, e, r⟩; exact ⟨⟨⟨a, b, c, d⟩, e⟩, r⟩

theorem constraintsOfType_nil (p : Program) (c : Option AVal × TypeInfo) :
    constraintsOfType p c = [] ↔
      ((∀ f ∈ c.2.fields, fieldConstraints p c.2 f = []) ∧ sizeOfBits c.2 = [] ∧
       (∀ v ∈ c.2.values, (if isReserved v.name = true then [EK.reservedEnum] else []) = []) ∧
       (if isReserved c.2.name = true then [EK.reservedType] else []) = [] ∧ enumValues c.2 = [] ∧
       (∀ q ∈ c.2.params, paramReq p q = [])) := by
  simp only [constraintsOfType, List.append_eq_nil_iff, List.flatMap_eq_nil_iff, and_assoc]

theorem passConstraints_nil (p : Program) :
    passConstraints p = [] ↔ constraintsByEntity p = [] := by
  simp only [passConstraints, constraintsByEntity, trav_pre_nil, trav_post_nil,
    List.append_eq_nil_iff, onPhys_nil, List.flatMap_eq_nil_iff, constraintsOfType_nil,
    fieldConstraints_nil]
  constructor
  · rintro ⟨⟨⟨⟨⟨⟨⟨⟨⟨⟨⟨⟨h1, h2⟩, h3⟩, h4⟩, h5⟩, h6⟩, h7⟩, h8⟩, h9⟩, hs⟩, h11⟩, hg⟩, h13⟩
    exact ⟨⟨fun c hc => ⟨fun f hf => ⟨h1 c hc f hf, h2 c hc f hf, h3 c hc f hf, h4 c hc f hf,
      h6 c hc f hf, h7 c hc f hf⟩, h5 c hc, h8 c hc, h9 c hc, h11 c hc, h13 c hc⟩, hs⟩, hg⟩
  · rintro ⟨⟨h, hs⟩, hg⟩
    exact ⟨⟨⟨⟨⟨⟨⟨⟨⟨⟨⟨⟨fun c hc f hf => ((h c hc).1 f hf).1,
      fun c hc f hf => ((h c hc).1 f hf).2.1⟩,
      fun c hc f hf => ((h c hc).1 f hf).2.2.1⟩,
      fun c hc f hf => ((h c hc).1 f hf).2.2.2.1⟩,
      fun c hc => (h c hc).2.1⟩,
      fun c hc f hf => ((h c hc).1 f hf).2.2.2.2.1⟩,
      fun c hc f hf => ((h c hc).1 f hf).2.2.2.2.2⟩,
      fun c hc => (h c hc).2.2.1⟩,
      fun c hc => (h c hc).2.2.2.1⟩, hs⟩,
      fun c hc => (h c hc).2.2.2.2.1⟩, hg⟩,
      fun c hc => (h c hc).2.2.2.2.2⟩

theorem gateErrs_nil (m : Module) :
    (gateErrs false m = [] ∧ gateErrs true m = []) ↔
      ∀ g ∈ m.gated, Emboss.Bounds.gate g.2 = some [] := by
  simp only [gateErrs, List.flatMap_eq_nil_iff]
  constructor
  · rintro ⟨h1, h2⟩ g hg
    have a := h1 g hg
    have b := h2 g hg
    cases hs : g.1 <;> cases hgt : Emboss.Bounds.gate g.2 <;> simp_all
  · intro h
    constructor <;> intro g hg <;> (have := h g hg; split <;> simp_all)

end Emboss.Constraints
