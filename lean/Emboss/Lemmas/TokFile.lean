/-
Lemmas for C10, file level: the line loop of `tokenize` produces a `FileCover`; what a
`FileCover` implies (balance, chain of strict prefixes, one end-of-line token per line).
-/
import Emboss.Lemmas.Tok
namespace Emboss.Tok
open Emboss.Regex

theorem dedentTo_spec (lw : List Char) :
    ∀ below k k' st', dedentTo lw below k = some (k', st') →
      ∃ popped, below = popped ++ st'.top :: st'.below ∧ st'.top = lw ∧ lw ∉ popped ∧
        k' = k + popped.length := by
  intro below
  induction below with
  | nil => intro k k' st' h; simp [dedentTo] at h
  | cons t below ih =>
    intro k k' st' h
    simp only [dedentTo] at h
    split at h
    · rename_i heq
      simp only [Option.some.injEq, Prod.mk.injEq] at h
      obtain ⟨rfl, rfl⟩ := h
      exact ⟨[], rfl, heq.symm, by simp, by simp⟩
    · rename_i hne
      obtain ⟨popped, h1, h2, h3, h4⟩ := ih _ _ _ h
      refine ⟨t :: popped, by simp [h1], h2, ?_, by simp [h4]; omega⟩
      simp only [List.mem_cons, not_or]
      exact ⟨hne, h3⟩

theorem lineStep_ok {pats ln line st em st'} (h : lineStep pats ln line st = .ok em st') :
    ∃ segs synth, Covers pats ln line 0 segs ∧ IndentStep ln line (tokensOf segs) st synth st' ∧
      em = synth ++ tokensOf segs ++ [newlineTok ln line.length] := by
  unfold lineStep at h
  split at h
  · cases h
  · cases h
  · rename_i lts hl
    obtain ⟨segs, hc, rfl⟩ := tokLine_covers _ _ _ _ _ _ hl
    refine ⟨segs, ?_⟩
    simp only at h
    split at h
    · rename_i hb
      simp only [StepRes.ok.injEq] at h
      obtain ⟨rfl, rfl⟩ := h
      exact ⟨[], hc, .blank hb, by simp⟩
    · rename_i hb
      have hb' : isBlankLine (tokensOf segs) = false := by simpa [isBlankLine] using hb
      split at h
      · rename_i heq
        simp only [StepRes.ok.injEq] at h
        obtain ⟨rfl, rfl⟩ := h
        exact ⟨[], hc, .same hb' heq, by simp⟩
      · rename_i hne
        split at h
        · rename_i hpre
          simp only [StepRes.ok.injEq] at h
          obtain ⟨rfl, rfl⟩ := h
          exact ⟨_, hc, .indent hb' hne (by simpa using hpre), by simp⟩
        · rename_i hpre
          split at h
          · cases h
          · rename_i k st'' hd
            simp only [StepRes.ok.injEq] at h
            obtain ⟨rfl, rfl⟩ := h
            obtain ⟨popped, h1, h2, h3, h4⟩ := dedentTo_spec _ _ _ _ _ hd
            have hstep := IndentStep.dedent (ln := ln) (line := line) (lts := tokensOf segs) (st := st)
              (st' := st'') (st.top :: popped) hb' hne (by simpa using hpre) (by simp [h1]) h2
              (by simp only [List.mem_cons, not_or]; exact ⟨hne, h3⟩)
            refine ⟨_, hc, hstep, ?_⟩
            simp [h4, Nat.add_comm]

theorem tokLines_cover (pats : List Pat) :
    ∀ lines ln st toks, tokLines pats lines ln st = .ok toks → FileCover pats lines ln st toks := by
  intro lines
  induction lines with
  | nil =>
    intro ln st toks h
    simp only [tokLines, TokRes.ok.injEq] at h
    subst h
    exact .done
  | cons line rest ih =>
    intro ln st toks h
    simp only [tokLines] at h
    split at h
    · cases h
    · cases h
    · rename_i em st' hs
      obtain ⟨segs, synth, hc, hi, rfl⟩ := lineStep_ok hs
      cases hr : tokLines pats rest (ln + 1) st' with
      | fuel => simp [hr, TokRes.prepend] at h
      | err => simp [hr, TokRes.prepend] at h
      | ok ts =>
        simp only [hr, TokRes.prepend, TokRes.ok.injEq] at h
        subst h
        exact .line hc hi (ih _ _ _ hr)

theorem lineStep_no_fuel (pats : List Pat) (ln line st) : lineStep pats ln line st ≠ .fuel := by
  unfold lineStep
  split
  · rename_i h; exact absurd h (tokLine_no_fuel _ _ _ _ _ (Nat.le_refl _))
  · simp
  · simp only
    repeat' split
    all_goals simp

theorem tokLines_no_fuel (pats : List Pat) :
    ∀ lines ln st, tokLines pats lines ln st ≠ .fuel := by
  intro lines
  induction lines with
  | nil => intro ln st; simp [tokLines]
  | cons line rest ih =>
    intro ln st
    simp only [tokLines]
    split
    · rename_i h; exact absurd h (lineStep_no_fuel _ _ _ _)
    · simp
    · rename_i em st' _
      have := ih (ln + 1) st'
      generalize tokLines pats rest (ln + 1) st' = r at this ⊢
      cases r <;> simp_all [TokRes.prepend]

/-! ### Consequences of `IndentStep` -/

theorem chainOk_suffix : ∀ (popped : List (List Char)) (x : List Char) (rest : List (List Char)),
    ChainOk (popped ++ x :: rest) → ChainOk (x :: rest) := by
  intro popped
  induction popped with
  | nil => intro x rest h; simpa using h
  | cons p popped ih =>
    intro x rest h
    cases popped with
    | nil => simp only [List.cons_append, List.nil_append, ChainOk] at h; exact h.2
    | cons q popped =>
      simp only [List.cons_append, ChainOk] at h
      exact ih x rest h.2

theorem IndentStep.chain {ln line lts st synth st'} (h : IndentStep ln line lts st synth st')
    (hok : st.Ok) : st'.Ok := by
  cases h with
  | blank => exact hok
  | same => exact hok
  | indent _ hne hpre =>
    simp only [IStack.Ok, ChainOk]
    exact ⟨⟨hpre, fun h => hne h.symm⟩, hok⟩
  | dedent popped _ _ _ heq _ _ =>
    simp only [IStack.Ok] at hok ⊢
    rw [heq] at hok
    exact chainOk_suffix _ _ _ hok

/-- After a line that takes part in indentation the stack top is its leading whitespace. -/
theorem IndentStep.top {ln line lts st synth st'} (h : IndentStep ln line lts st synth st')
    (hb : isBlankLine lts = false) : st'.top = leadingWs line := by
  cases h with
  | blank hb' => rw [hb] at hb'; cases hb'
  | same _ heq => exact heq.symm
  | indent => rfl
  | dedent _ _ _ _ _ htop _ => exact htop

theorem countSym_append (sym : String) (a b : List Token) :
    countSym sym (a ++ b) = countSym sym a + countSym sym b := by
  simp [countSym, List.countP_append]

theorem countSym_replicate_dedent (sym : String) (k ln col : Nat) :
    countSym sym (List.replicate k (dedentTok ln col)) = if sym = "Dedent" then k else 0 := by
  induction k with
  | zero => simp [countSym]
  | succ k ih =>
    simp only [List.replicate_succ, countSym, List.countP_cons] at ih ⊢
    rw [ih]
    by_cases h : sym = "Dedent"
    · subst h; simp [dedentTok]
    · have : ("Dedent" == sym) = false := by simp; exact fun h' => h h'.symm
      simp [h, dedentTok, this]

theorem countSym_singleton (sym : String) (t : Token) :
    countSym sym [t] = if t.sym == sym then 1 else 0 := by
  simp [countSym, List.countP_cons]

theorem IndentStep.balance {ln line lts st synth st'} (h : IndentStep ln line lts st synth st') :
    countSym "Indent" synth + st.depth = countSym "Dedent" synth + st'.depth ∧
    countSym nlSym synth = 0 := by
  cases h with
  | blank => simp [countSym]
  | same => simp [countSym]
  | indent =>
    have h1 : (("Indent" : String) == "Indent") = true := by decide
    have h2 : (("Indent" : String) == "Dedent") = false := by decide
    have h3 : (("Indent" : String) == nlSym) = false := by decide
    simp only [countSym_singleton, h1, h2, h3, IStack.depth, List.length_cons]
    simp; omega
  | dedent popped _ _ _ heq _ _ =>
    rw [countSym_replicate_dedent, countSym_replicate_dedent, countSym_replicate_dedent]
    have h1 : ¬ (("Indent" : String) = "Dedent") := by decide
    have h2 : ¬ (nlSym = "Dedent") := by decide
    simp only [h1, h2, if_false, if_true, IStack.depth]
    have := congrArg List.length heq
    simp only [List.length_cons, List.length_append] at this
    exact ⟨by omega, trivial⟩

/-! ### Symbols of cover tokens come from the table -/

theorem IsBest.sym_mem {pats s n sy} (h : IsBest pats s n sy) : ∃ p ∈ pats, p.sym = sy := by
  obtain ⟨pre, p, post, hp, _, hs, _⟩ := h
  exact ⟨p, by simp [hp], hs⟩

theorem Covers.syms {pats ln s off segs} (h : Covers pats ln s off segs) :
    ∀ t ∈ tokensOf segs, ∃ p ∈ pats, p.sym = some t.sym := by
  induction h with
  | nil => intro t ht; simp at ht
  | tok _ _ hb _ ih =>
    intro t ht
    simp only [tokensOf_tok, List.mem_cons] at ht
    rcases ht with rfl | ht
    · exact hb.sym_mem
    · exact ih t ht
  | gap _ _ _ _ ih => intro t ht; exact ih t (by simpa using ht)

theorem Covers.count_reserved {pats ln s off segs} (h : Covers pats ln s off segs)
    (hres : ReservedSyms pats) :
    countSym "Indent" (tokensOf segs) = 0 ∧ countSym "Dedent" (tokensOf segs) = 0 ∧
      countSym nlSym (tokensOf segs) = 0 := by
  have hs := h.syms
  have key : ∀ sym : String, (∀ p ∈ pats, p.sym ≠ some sym) → countSym sym (tokensOf segs) = 0 := by
    intro sym hno
    simp only [countSym, List.countP_eq_zero]
    intro t ht hc
    obtain ⟨p, hp, hps⟩ := hs t ht
    have : t.sym = sym := by simpa using hc
    exact hno p hp (by rw [hps, this])
  exact ⟨key _ fun p hp => (hres p hp).1, key _ fun p hp => (hres p hp).2.1,
    key _ fun p hp => (hres p hp).2.2⟩

/-! ### Consequences of `FileCover` -/

theorem FileCover.balance {pats lines ln st toks} (h : FileCover pats lines ln st toks)
    (hres : ReservedSyms pats) :
    countSym "Indent" toks + st.depth = countSym "Dedent" toks ∧
      countSym nlSym toks = lines.length := by
  induction h with
  | done =>
    rw [countSym_replicate_dedent, countSym_replicate_dedent, countSym_replicate_dedent]
    have h1 : ¬ (("Indent" : String) = "Dedent") := by decide
    have h2 : ¬ (nlSym = "Dedent") := by decide
    simp [h1, h2]
  | @line line rest ln st st' synth segs ts hc hi _ ih =>
    obtain ⟨c1, c2, c3⟩ := hc.count_reserved hres
    obtain ⟨b1, b2⟩ := hi.balance
    obtain ⟨i1, i2⟩ := ih
    have e1 : (nlSym == "Indent") = false := by decide
    have e2 : (nlSym == "Dedent") = false := by decide
    have e3 : (nlSym == nlSym) = true := by decide
    have n1 : countSym "Indent" [newlineTok ln line.length] = 0 := by
      simp [countSym_singleton, newlineTok, e1]
    have n2 : countSym "Dedent" [newlineTok ln line.length] = 0 := by
      simp [countSym_singleton, newlineTok, e2]
    have n3 : countSym nlSym [newlineTok ln line.length] = 1 := by
      simp [countSym_singleton, newlineTok]
    simp only [countSym_append, c1, c2, c3, n1, n2, n3, b2, List.length_cons]
    omega

/-- Cutting the run after any number of lines: the tokens so far balance up to the
current stack depth, the stack is still a chain, and the rest is a cover from there. -/
theorem FileCover.split {pats} (hres : ReservedSyms pats) :
    ∀ (l1 l2 : List (List Char)) ln st toks, FileCover pats (l1 ++ l2) ln st toks →
      ∃ t1 t2 stm, toks = t1 ++ t2 ∧ FileCover pats l2 (ln + l1.length) stm t2 ∧
        (st.Ok → stm.Ok) ∧
        countSym "Indent" t1 + st.depth = countSym "Dedent" t1 + stm.depth ∧
        countSym nlSym t1 = l1.length := by
  intro l1
  induction l1 with
  | nil =>
    intro l2 ln st toks h
    exact ⟨[], toks, st, rfl, by simpa using h, id, by simp [countSym], by simp [countSym]⟩
  | cons line l1 ih =>
    intro l2 ln st toks h
    simp only [List.cons_append] at h
    cases h with
    | @line _ _ _ _ st' synth segs ts hc hi hrest =>
      obtain ⟨t1, t2, stm, rfl, hcov, hok, hbal, hnl⟩ := ih l2 (ln + 1) st' ts hrest
      obtain ⟨c1, c2, c3⟩ := hc.count_reserved hres
      obtain ⟨b1, b2⟩ := hi.balance
      have e1 : (nlSym == "Indent") = false := by decide
      have e2 : (nlSym == "Dedent") = false := by decide
      have n1 : countSym "Indent" [newlineTok ln line.length] = 0 := by
        simp [countSym_singleton, newlineTok, e1]
      have n2 : countSym "Dedent" [newlineTok ln line.length] = 0 := by
        simp [countSym_singleton, newlineTok, e2]
      have n3 : countSym nlSym [newlineTok ln line.length] = 1 := by
        simp [countSym_singleton, newlineTok]
      refine ⟨synth ++ tokensOf segs ++ [newlineTok ln line.length] ++ t1, t2, stm, by simp,
        ?_, fun h => hok (hi.chain h), ?_, ?_⟩
      · rw [show ln + (line :: l1).length = ln + 1 + l1.length by simp; omega]; exact hcov
      · simp only [countSym_append, c1, c2, n1, n2]; omega
      · simp only [countSym_append, c3, n3, b2, hnl, List.length_cons]; omega

/-- The end-of-line token of every line is in the output, at column `len + 1`. -/
theorem FileCover.newline_mem {pats lines ln st toks} (h : FileCover pats lines ln st toks) :
    ∀ i (hi : i < lines.length), newlineTok (ln + i) (lines[i]).length ∈ toks := by
  induction h with
  | done => intro i hi; simp at hi
  | @line line rest ln st st' synth segs ts _ _ _ ih =>
    intro i hi
    cases i with
    | zero => simp
    | succ i =>
      have := ih i (by simpa using hi)
      simp only [List.getElem_cons_succ, List.mem_append]
      right
      rw [show ln + (i + 1) = ln + 1 + i by omega]
      exact this

/-- Line numbers never decrease along the token list and stay within
`ln … ln + #lines` (the last value only for the trailing Dedents). -/
theorem FileCover.line_numbers {pats lines ln st toks} (h : FileCover pats lines ln st toks) :
    (∀ t ∈ toks, ln ≤ t.sl ∧ t.sl ≤ ln + lines.length ∧ t.el = t.sl) ∧
      toks.Pairwise (fun a b => a.sl ≤ b.sl) := by
  induction h with
  | @done ln st =>
    constructor
    · intro t ht
      rw [List.mem_replicate] at ht
      rw [ht.2]; simp [dedentTok]
    · rw [List.pairwise_replicate]; simp
  | @line line rest ln st st' synth segs ts hc hi _ ih =>
    have hsy : ∀ t ∈ synth, t.sl = ln ∧ t.el = ln := by
      intro t ht
      cases hi with
      | blank => simp at ht
      | same => simp at ht
      | indent => simp only [List.mem_singleton] at ht; subst ht; exact ⟨rfl, rfl⟩
      | dedent popped => rw [List.mem_replicate] at ht; rw [ht.2]; exact ⟨rfl, rfl⟩
    have hcv : ∀ t ∈ tokensOf segs, t.sl = ln ∧ t.el = ln := fun t ht =>
      let f := hc.token_facts t ht; ⟨f.1, f.2.1⟩
    have hline : ∀ t ∈ synth ++ tokensOf segs ++ [newlineTok ln line.length], t.sl = ln ∧ t.el = ln := by
      intro t ht
      simp only [List.mem_append, List.mem_singleton] at ht
      rcases ht with (ht | ht) | ht
      · exact hsy t ht
      · exact hcv t ht
      · subst ht; exact ⟨rfl, rfl⟩
    constructor
    · intro t ht
      rw [List.mem_append] at ht
      rcases ht with ht | ht
      · obtain ⟨h1, h2⟩ := hline t ht
        simp only [List.length_cons]; omega
      · obtain ⟨h1, h2, h3⟩ := ih.1 t ht
        simp only [List.length_cons]; omega
    · rw [List.pairwise_append]
      refine ⟨?_, ih.2, ?_⟩
      · rw [List.pairwise_iff_forall_sublist]
        intro a b hab
        have ha := hline a (hab.subset (by simp))
        have hb := hline b (hab.subset (by simp))
        omega
      · intro a ha b hb
        have := hline a ha
        have := ih.1 b hb
        omega

end Emboss.Tok
