/-
Lemmas for C04_no_overflow: literals, casts and operations of the C++ evaluation model
succeed on values that lie in gate-accepted, sound annotations.
-/
import Emboss.Lemmas.BoundsGate
namespace Emboss.Bounds
open ExtInt

theorem annot_abs : ∀ {e : Expr} {t : ATree}, annot e = some t → abs e = some t.ty := by
  intro e t h
  cases e <;> simp only [annot] at h <;>
    (repeat' split at h) <;> first | (cases h; simp_all [ATree.ty, abs]) | simp_all [ATree.ty, abs]

theorem OwnOk.fits {a : AVal} {n : Int} (ho : OwnOk (.int a)) (hg : Gamma a n) :
    ∃ lo hi, rangeOf a = some (lo, hi) ∧ lo ≤ n ∧ n ≤ hi ∧ fitsAny64 lo hi = true := by
  obtain ⟨lo, hi, h1, h2, h3⟩ := ho a rfl
  obtain ⟨g1, g2, -⟩ := hg
  rw [h1] at g1; rw [h2] at g2
  exact ⟨lo, hi, by simp [rangeOf, h1, h2], g1, g2, h3⟩

theorem fitsAny64_sub {lo hi a b : Int} (h : fitsAny64 lo hi = true) (h1 : lo ≤ a) (h2 : b ≤ hi) :
    fitsAny64 a b = true := by
  simp only [fitsAny64, fitsU64, fitsI64, Bool.or_eq_true, Bool.and_eq_true, decide_eq_true_eq] at h ⊢
  omega

theorem cppLiteral_ok {ty : AType} {v : CVal} (hg : GammaT ty v) (hc : isConstType ty = true)
    (ho : OwnOk ty) : cppLiteral ty = .ok v := by
  cases ty with
  | int a =>
    obtain ⟨n, rfl, hn⟩ := GammaT_int_inv hg
    obtain ⟨lo, hi, -, h1, h2, h3⟩ := ho.fits hn
    obtain ⟨-, -, c, hmv, hd⟩ := hn
    have hm : a.modulus = .inf := by simpa [isConstType] using hc
    rw [hm] at hd
    have := zero_dvd_sub hd; subst this
    obtain ⟨t, ht⟩ := cppTypeForRange_exists (fitsAny64_sub h3 h1 h2)
    simp [cppLiteral, hmv, ht]
  | bool ob =>
    cases v <;> simp only [GammaT] at hg
    cases ob with
    | none => simp [isConstType] at hc
    | some b => rw [hg b rfl]; simp [cppLiteral]
  | enum ob =>
    cases v <;> simp only [GammaT] at hg
    cases ob with
    | none => simp [isConstType] at hc
    | some b => rw [hg b rfl]; simp [cppLiteral]

theorem fitsT_of {it : CType} {lo hi n : Int} (h : it.lo ≤ lo ∧ hi ≤ it.hi) (h1 : lo ≤ n) (h2 : n ≤ hi) :
    fitsT it n = true := by
  simp only [fitsT, Bool.and_eq_true, decide_eq_true_eq]; omega

theorem castResult_ok {ty : AType} {v : CVal} (hg : GammaT ty v) (ho : OwnOk ty) :
    castResult ty v = .ok v := by
  cases ty with
  | int a =>
    obtain ⟨n, rfl, hn⟩ := GammaT_int_inv hg
    obtain ⟨lo, hi, hr, h1, h2, h3⟩ := ho.fits hn
    obtain ⟨t, ht⟩ := cppTypeForRange_exists h3
    have := fitsT_of (cppTypeForRange_contains ht) h1 h2
    simp [castResult, hr, ht, this]
  | bool ob => cases v <;> simp_all [GammaT, castResult]
  | enum ob => cases v <;> simp_all [GammaT, castResult]

theorem intRanges_mem : ∀ {tys : List AType} {rs : List (Int × Int)} {a : AVal},
    intRanges tys = some rs → AType.int a ∈ tys → ∃ p ∈ rs, rangeOf a = some p
  | [], _, _, _, h => by cases h
  | ty :: r, rs, a, h, hm => by
    cases ty with
    | int b =>
      simp only [intRanges] at h
      split at h <;> try cases h
      rename_i p l hp hl
      rcases List.mem_cons.mp hm with he | hm'
      · cases he; exact ⟨p, List.mem_cons_self, hp⟩
      · obtain ⟨q, hq, e⟩ := intRanges_mem hl hm'
        exact ⟨q, List.mem_cons_of_mem _ hq, e⟩
    | bool _ =>
      simp only [intRanges] at h
      rcases List.mem_cons.mp hm with he | hm'
      · cases he
      · exact intRanges_mem h hm'
    | enum _ =>
      simp only [intRanges] at h
      rcases List.mem_cons.mp hm with he | hm'
      · cases he
      · exact intRanges_mem h hm'

/-- the one-type conclusion of the gate for a clause list -/
def OneType (tys : List AType) : Prop :=
  ∃ rs, intRanges tys = some rs ∧
    (hullOf rs = none ∨
     ∃ lo hi it, hullOf rs = some (lo, hi) ∧ cppTypeForRange lo hi = some it ∧
       ∀ p ∈ rs, it.lo ≤ p.1 ∧ p.2 ≤ it.hi)

theorem castOk_of {tys : List AType} {rs : List (Int × Int)} {it : CType} {ty : AType} {v : CVal}
    (hrs : intRanges tys = some rs) (hit : ∀ p ∈ rs, it.lo ≤ p.1 ∧ p.2 ≤ it.hi)
    (hm : ty ∈ tys) (ho : OwnOk ty) (hg : GammaT ty v) : castOk it v = true := by
  cases ty with
  | int a =>
    obtain ⟨n, rfl, hn⟩ := GammaT_int_inv hg
    obtain ⟨lo, hi, hr, h1, h2, -⟩ := ho.fits hn
    obtain ⟨p, hp, hr'⟩ := intRanges_mem hrs hm
    rw [hr] at hr'; cases hr'
    exact fitsT_of (hit _ hp) h1 h2
  | bool _ => cases v <;> simp_all [GammaT, castOk]
  | enum _ => cases v <;> simp_all [GammaT, castOk]

theorem all_castOk {tys : List AType} {rs : List (Int × Int)} {it : CType}
    (hrs : intRanges tys = some rs) (hit : ∀ p ∈ rs, it.lo ≤ p.1 ∧ p.2 ≤ it.hi) :
    ∀ {atys : List AType} {vs : List CVal}, Forall2 GammaT atys vs → (∀ t ∈ atys, t ∈ tys) →
      (∀ t ∈ atys, OwnOk t) → vs.all (castOk it) = true
  | _, _, .nil, _, _ => by simp
  | _, _, .cons hg rest, hsub, hown => by
    simp only [List.all_cons, Bool.and_eq_true]
    exact ⟨castOk_of hrs hit (hsub _ List.mem_cons_self) (hown _ List.mem_cons_self) hg,
      all_castOk hrs hit rest (fun t ht => hsub t (List.mem_cons_of_mem _ ht))
        (fun t ht => hown t (List.mem_cons_of_mem _ ht))⟩

theorem cppOp_ok {ty : AType} {atys : List AType} {vs : List CVal} {v : CVal}
    (h1 : OneType (ty :: atys)) (hown : ∀ t ∈ ty :: atys, OwnOk t)
    (hg : GammaT ty v) (hgs : Forall2 GammaT atys vs) :
    cppOp (ty :: atys) vs (some v) = .ok v := by
  obtain ⟨rs, hrs, hh⟩ := h1
  have hres := castResult_ok hg (hown ty List.mem_cons_self)
  simp only [cppOp, hrs]
  rcases hh with hh | ⟨lo, hi, it, hh, hit, hc⟩
  · simp [hh, hres]
  · have ha := all_castOk hrs hc hgs (fun t ht => List.mem_cons_of_mem _ ht)
      (fun t ht => hown t (List.mem_cons_of_mem _ ht))
    have hv := castOk_of hrs hc List.mem_cons_self (hown ty List.mem_cons_self) hg
    simp [hh, hit, ha, hv, hres]

theorem cppChoice_ok {ty : AType} {atys : List AType} {v : CVal}
    (h1 : OneType (ty :: atys)) (hown : OwnOk ty) (hg : GammaT ty v) :
    cppChoice (ty :: atys) v = .ok v ∨ cppChoice (ty :: atys) v = .staticAssert := by
  obtain ⟨rs, hrs, hh⟩ := h1
  have hres := castResult_ok hg hown
  simp only [cppChoice, hrs]
  rcases hh with hh | ⟨lo, hi, it, hh, hit, hc⟩
  · simp [hh, hres]
  · simp only [hh, hit]
    cases ty with
    | int a =>
      obtain ⟨n, rfl, hn⟩ := GammaT_int_inv hg
      obtain ⟨lo', hi', hr, -, -, h3⟩ := hown.fits hn
      obtain ⟨rt, hrt⟩ := cppTypeForRange_exists h3
      simp only [resultType, hr, hrt]
      by_cases he : it = rt
      · simp [he, hres]
      · simp [he]
    | bool _ => simp [resultType]
    | enum _ => simp [resultType]
end Emboss.Bounds
