/-
`_shared_modular_value`, `?:` and `$max` map arguments satisfying the invariant to a result
satisfying it (and never raise).
-/
import Emboss.Lemmas.BoundsInvOps
namespace Emboss.Bounds
open ExtInt

theorem emod_eq_of_dvd_sub {a b : Int} {k : Nat} (h : (k : Int) ∣ a - b) :
    a % (k : Int) = b % (k : Int) :=
  Int.emod_eq_emod_iff_emod_sub_eq_zero.mpr (Int.emod_eq_zero_of_dvd h)

/-- `_shared_modular_value` on two admissible (modulus, finite value) pairs -/
theorem shared_spec {m1 m2 : Modulus} {a b : Int} (h1 : m1.Pos) (h2 : m2.Pos) :
    (m1 = .inf ∧ m2 = .inf ∧ a = b ∧ shared (m1, .fin a) (m2, .fin b) = some (.inf, .fin a)) ∨
    (¬ (m1 = .inf ∧ m2 = .inf ∧ a = b) ∧ ∃ k : Nat, 0 < k ∧
      shared (m1, .fin a) (m2, .fin b) = some (.fin k, .fin (a % (k : Int)))) := by
  by_cases hc : m1 = .inf ∧ m2 = .inf ∧ a = b
  · left
    obtain ⟨rfl, rfl, rfl⟩ := hc
    exact ⟨rfl, rfl, rfl, by simp [shared, gcdM, ExtInt.toInt?]⟩
  · right
    refine ⟨hc, ?_⟩
    -- the outer gcd is a positive number dividing a - b
    have hnew : ∃ z, gcdM (gcdM m1 m2) (.fin (a - b).natAbs) = .fin z ∧ 0 < z := by
      rcases gcdM_cases h1 h2 with ⟨e1, e2, hg⟩ | ⟨c, hg, cpos⟩
      · have hab : a ≠ b := fun e => hc ⟨e1, e2, e⟩
        have hn : 0 < (a - b).natAbs := Int.natAbs_pos.mpr (by omega)
        obtain ⟨z, hz, zpos, _⟩ := gcdM_fin_right hn (gcdM m1 m2)
        exact ⟨z, hz, zpos⟩
      · rw [hg]
        obtain ⟨z, hz, zpos, _⟩ := gcdM_fin_left cpos (.fin (a - b).natAbs)
        exact ⟨z, hz, zpos⟩
    obtain ⟨z, hz, zpos⟩ := hnew
    have hzn : z ∣ (a - b).natAbs := by
      have := gcdM_toNat (gcdM m1 m2) (.fin (a - b).natAbs)
      rw [hz] at this
      simp only [Modulus.toNat] at this
      rw [this]; exact Nat.gcd_dvd_right _ _
    have hzd : (z : Int) ∣ a - b := Int.dvd_natAbs.mp (Int.ofNat_dvd.mpr hzn)
    have hmod := emod_eq_of_dvd_sub hzd
    have hz0 : z ≠ 0 := by omega
    refine ⟨z, zpos, ?_⟩
    simp [shared, ExtInt.toInt?, hz, hz0, hmod]

theorem choiceHull_shape {t f a : AVal} (h : choiceHull t f = some a) :
    a.min = eminL [t.min, f.min] ∧ a.max = emaxL [t.max, f.max] ∧
    shared (t.modulus, t.mv) (f.modulus, f.mv) = some (a.modulus, a.mv) := by
  unfold choiceHull at h
  split at h
  · cases h
  · rename_i m v hs
    cases h
    exact ⟨rfl, rfl, hs⟩

theorem choiceHull_inv {t f : AVal} (ht : InvS t) (hf : InvS f) :
    ∃ a, choiceHull t f = some a ∧ InvS a := by
  obtain ⟨tv, htv⟩ := ht.mv_fin
  obtain ⟨fv, hfv⟩ := hf.mv_fin
  rcases shared_spec (a := tv) (b := fv) ht.modPos hf.modPos with ⟨e1, e2, e3, hs⟩ | ⟨hc, k, kpos, hs⟩
  · -- the same constant on both sides
    subst e3
    have ht' : t = constRange tv := by
      rcases ht with ⟨c, rfl⟩ | ⟨m, v, h⟩
      · simp [constRange] at htv; rw [htv]
      · rw [h.hm] at e1; cases e1
    have hf' : f = constRange tv := by
      rcases hf with ⟨c, rfl⟩ | ⟨m, v, h⟩
      · simp [constRange] at hfv; rw [hfv]
      · rw [h.hm] at e2; cases e2
    subst ht' hf'
    refine ⟨constRange tv, ?_, Or.inl ⟨tv, rfl⟩⟩
    simp [choiceHull, shared, constRange, gcdM, ExtInt.toInt?, eminL, emaxL, emin2, emax2]
  · have hch : choiceHull t f =
        some ⟨eminL [t.min, f.min], emaxL [t.max, f.max], .fin k, .fin (tv % (k : Int))⟩ := by
      simp only [choiceHull, htv, hfv, hs]
    refine ⟨_, hch, ?_⟩
    apply InvS.of_parts
    · intro h; cases h
    · intro k' hk'
      cases hk'
      exact ⟨kpos, _, rfl, (emod_canon _ kpos).1, (emod_canon _ kpos).2⟩
    · intro x hx
      have hm := eminL_mem hx
      simp only [List.mem_cons, List.not_mem_nil, or_false] at hm
      rcases hm with hm | hm
      · exact (choiceHull_sound hch (Or.inl (ht.min_mem hm.symm))).2.2
      · exact (choiceHull_sound hch (Or.inr (hf.min_mem hm.symm))).2.2
    · intro x hx
      have hm := emaxL_mem hx
      simp only [List.mem_cons, List.not_mem_nil, or_false] at hm
      rcases hm with hm | hm
      · exact (choiceHull_sound hch (Or.inl (ht.max_mem hm.symm))).2.2
      · exact (choiceHull_sound hch (Or.inr (hf.max_mem hm.symm))).2.2
    · intro _ _
      rcases ht with ⟨c, rfl⟩ | ⟨m, v, h⟩
      · rcases hf with ⟨d, rfl⟩ | ⟨m, v, h⟩
        · -- two different constants
          simp [constRange] at htv hfv
          subst htv hfv
          have hne : c ≠ d := fun e => hc ⟨rfl, rfl, e⟩
          have gc := choiceHull_sound hch (Or.inl (gamma_const c))
          have gd := choiceHull_sound hch (Or.inr (gamma_const d))
          rcases Int.lt_or_gt_of_ne hne with hlt | hlt
          · exact ⟨c, d, hlt, gc.1, gd.2.1⟩
          · exact ⟨d, c, hlt, gd.1, gc.2.1⟩
        · obtain ⟨x1, x2, hlt, g1, g2⟩ := h.two
          exact ⟨x1, x2, hlt, (choiceHull_sound hch (Or.inr g1)).1,
            (choiceHull_sound hch (Or.inr g2)).2.1⟩
      · obtain ⟨x1, x2, hlt, g1, g2⟩ := h.two
        exact ⟨x1, x2, hlt, (choiceHull_sound hch (Or.inl g1)).1,
          (choiceHull_sound hch (Or.inl g2)).2.1⟩

/-! ### `$max` -/

theorem InvS.const_of_inf {a : AVal} (h : InvS a) (hm : a.modulus = .inf) {c : Int}
    (hv : a.mv = .fin c) : a = constRange c := by
  rcases h with ⟨d, rfl⟩ | ⟨m, v, h⟩
  · simp [constRange] at hv; rw [hv]
  · rw [h.hm] at hm; cases hm

theorem InvS.canon {a : AVal} (h : InvS a) {c : Int} (hv : a.mv = .fin c) :
    ∀ k, a.modulus = .fin k → 0 ≤ c ∧ c < (k : Int) := by
  intro k hk
  rcases h with ⟨d, rfl⟩ | ⟨m, v, h⟩
  · cases hk
  · rw [h.hm] at hk; cases hk
    rw [h.hv] at hv; cases hv
    exact ⟨h.v0, h.vlt⟩

theorem sharedFold_spec {l : List AVal} (hl : ∀ a ∈ l, InvS a) :
    ∀ {m0 : Modulus} {c : Int}, m0.Pos → (∀ k, m0 = .fin k → 0 ≤ c ∧ c < (k : Int)) →
    ∃ m v, sharedFold (m0, .fin c) l = some (m, .fin v) ∧
      (m = .inf → m0 = .inf ∧ ∀ a ∈ l, a = constRange c) ∧
      (∀ k, m = .fin k → 0 < k ∧ 0 ≤ v ∧ v < (k : Int)) := by
  induction l with
  | nil =>
    intro m0 c hp hcan
    refine ⟨m0, c, rfl, fun h => ⟨h, fun a ha => nomatch ha⟩, ?_⟩
    intro k hk
    subst hk
    exact ⟨hp, hcan k rfl⟩
  | cons a as ih =>
    intro m0 c hp hcan
    have ha : InvS a := hl a List.mem_cons_self
    have has : ∀ b ∈ as, InvS b := fun b hb => hl b (List.mem_cons_of_mem _ hb)
    obtain ⟨b, hb⟩ := ha.mv_fin
    rcases shared_spec (a := c) (b := b) hp ha.modPos with ⟨e1, e2, e3, hs⟩ | ⟨_, k, kpos, hs⟩
    · subst e1 e3
      obtain ⟨m, v, h1, h2, h3⟩ := ih has (m0 := .inf) (c := c) trivial (fun k hk => nomatch hk)
      refine ⟨m, v, ?_, ?_, h3⟩
      · simp only [sharedFold, hb, hs]; exact h1
      · intro hm
        obtain ⟨_, h4⟩ := h2 hm
        refine ⟨rfl, ?_⟩
        intro a' ha'
        rcases List.mem_cons.mp ha' with rfl | hm'
        · exact ha.const_of_inf e2 hb
        · exact h4 a' hm'
    · obtain ⟨m, v, h1, h2, h3⟩ := ih has (m0 := .fin k) (c := c % (k : Int)) kpos
        (fun k' hk' => by cases hk'; exact emod_canon _ kpos)
      refine ⟨m, v, ?_, ?_, h3⟩
      · simp only [sharedFold, hb, hs]; exact h1
      · intro hm
        obtain ⟨h4, _⟩ := h2 hm
        cases h4

theorem emax2_posInf {a b : ExtInt} (h : emax2 a b = .posInf) : a = .posInf ∨ b = .posInf := by
  cases a <;> cases b <;> simp [emax2] at h ⊢

theorem foldl_emax2_posInf (l : List ExtInt) (acc : ExtInt)
    (h : l.foldl emax2 acc = .posInf) : acc = .posInf ∨ .posInf ∈ l := by
  induction l generalizing acc with
  | nil => left; simpa using h
  | cons x xs ih =>
    simp only [List.foldl_cons] at h
    rcases ih _ h with h1 | h1
    · rcases emax2_posInf h1 with h2 | h2
      · left; exact h2
      · right; rw [h2]; exact List.mem_cons_self
    · right; exact List.mem_cons_of_mem _ h1

theorem emaxL_posInf {l : List ExtInt} (h : emaxL l = .posInf) : .posInf ∈ l := by
  rcases foldl_emax2_posInf l _ h with h1 | h1
  · cases h1
  · exact h1

theorem emaxL_const {l : List ExtInt} {c : Int} (hne : l ≠ []) (h : ∀ x ∈ l, x = .fin c) :
    emaxL l = .fin c := by
  have h1 : LowOk (emaxL l) c := emaxL_low (fun x hx => by rw [h x hx]; exact Int.le_refl c)
  obtain ⟨x, hx⟩ := List.exists_mem_of_ne_nil l hne
  have h2 : HighOk (emaxL l) c := emaxL_high hx (by rw [h x hx]; exact Int.le_refl c)
  cases he : emaxL l with
  | negInf => rw [he] at h2; exact h2.elim
  | posInf => rw [he] at h1; exact h1.elim
  | fin z =>
    rw [he] at h1 h2
    simp only [LowOk, HighOk] at h1 h2
    have : z = c := by omega
    rw [this]

theorem maxFn_inv {args : List AVal} (hne : args ≠ []) (h : ∀ a ∈ args, InvS a) :
    ∃ r, maxFn args = some r ∧ InvS r := by
  cases args with
  | nil => exact absurd rfl hne
  | cons a0 as =>
    have h0 : InvS a0 := h a0 List.mem_cons_self
    have has : ∀ b ∈ as, InvS b := fun b hb => h b (List.mem_cons_of_mem _ hb)
    generalize hmn : emaxL ((a0 :: as).map (·.min)) = mn
    generalize hmx : emaxL ((a0 :: as).map (·.max)) = mx
    -- facts about the two ends
    have F1 : mn ≠ .posInf := by
      intro e
      rw [e] at hmn
      obtain ⟨b, hb, hbe⟩ := List.mem_map.mp (emaxL_posInf hmn)
      exact (h b hb).minNe hbe
    have F2 : mx ≠ .negInf := by
      intro e
      obtain ⟨x, gx⟩ := h0.one
      have : HighOk (emaxL ((a0 :: as).map (·.max))) x :=
        emaxL_high (x := a0.max) (List.mem_map.mpr ⟨a0, List.mem_cons_self, rfl⟩) gx.2.1
      rw [hmx, e] at this
      exact this
    have F3 : ∀ x, mn = .fin x → ∃ b ∈ a0 :: as, b.min = .fin x := by
      intro x hx
      rw [hx] at hmn
      obtain ⟨b, hb, hbe⟩ := List.mem_map.mp (emaxL_mem hmn)
      exact ⟨b, hb, hbe⟩
    have F3' : ∀ x, mx = .fin x → ∃ b ∈ a0 :: as, b.max = .fin x := by
      intro x hx
      rw [hx] at hmx
      obtain ⟨b, hb, hbe⟩ := List.mem_map.mp (emaxL_mem hmx)
      exact ⟨b, hb, hbe⟩
    have F4 : ∀ x y, mn = .fin x → mx = .fin y → x ≤ y := by
      intro x y hx hy
      obtain ⟨b, hb, hbe⟩ := F3 x hx
      have g := (h b hb).min_mem hbe
      have : HighOk (emaxL ((a0 :: as).map (·.max))) x :=
        emaxL_high (x := b.max) (List.mem_map.mpr ⟨b, hb, rfl⟩) g.2.1
      rw [hmx, hy] at this
      exact this
    by_cases heq : mn = mx
    · -- dominated by a constant
      have hr : maxFn (a0 :: as) = some ⟨mn, mx, .inf, mn⟩ := by
        simp only [maxFn, hmn, hmx, heq, if_true]
      refine ⟨_, hr, Or.inl ?_⟩
      subst heq
      cases mn with
      | posInf => exact absurd rfl F1
      | negInf => exact absurd rfl F2
      | fin c => exact ⟨c, rfl⟩
    · obtain ⟨c, hc⟩ := h0.mv_fin
      obtain ⟨m, v, hsf, hinf, hfin⟩ := sharedFold_spec has (m0 := a0.modulus) (c := c) h0.modPos (h0.canon hc)
      have hr : maxFn (a0 :: as) = some ⟨mn, mx, m, .fin v⟩ := by
        simp only [maxFn, hmn, hmx, heq, if_false, hc, hsf]
      have hsf' : sharedFold (a0.modulus, a0.mv) as = some (m, .fin v) := by rw [hc]; exact hsf
      have hcong : ∀ b ∈ a0 :: as, ∀ x, CongOk b.modulus b.mv x → CongOk m (.fin v) x := by
        intro b hb x hx
        have := sharedFold_sound hsf' x
        rcases List.mem_cons.mp hb with rfl | hm'
        · exact this.1 hx
        · exact this.2 b hm' hx
      refine ⟨_, hr, ?_⟩
      apply InvS.of_parts
      · intro hm
        exfalso
        obtain ⟨e0, hall⟩ := hinf hm
        have ha0 := h0.const_of_inf e0 hc
        apply heq
        have hmin : ∀ x ∈ (a0 :: as).map (·.min), x = .fin c := by
          intro x hx
          obtain ⟨b, hb, rfl⟩ := List.mem_map.mp hx
          rcases List.mem_cons.mp hb with rfl | hm'
          · rw [ha0]; rfl
          · rw [hall b hm']; rfl
        have hmax : ∀ x ∈ (a0 :: as).map (·.max), x = .fin c := by
          intro x hx
          obtain ⟨b, hb, rfl⟩ := List.mem_map.mp hx
          rcases List.mem_cons.mp hb with rfl | hm'
          · rw [ha0]; rfl
          · rw [hall b hm']; rfl
        rw [← hmn, ← hmx, emaxL_const (by simp) hmin, emaxL_const (by simp) hmax]
      · intro k hk
        obtain ⟨kpos, v0, vlt⟩ := hfin k hk
        exact ⟨kpos, v, rfl, v0, vlt⟩
      · intro x hx
        obtain ⟨b, hb, hbe⟩ := F3 x hx
        exact hcong b hb x ((h b hb).min_mem hbe).2.2
      · intro x hx
        obtain ⟨b, hb, hbe⟩ := F3' x hx
        exact hcong b hb x ((h b hb).max_mem hbe).2.2
      · intro _ _
        exact two_of_ne F1 F2 heq F4

end Emboss.Bounds
