/-
Helper lemmas for C12, `module_ir`'s placing of inline types: what `build` produces, read the
way the resolver reads it (`flatTypes` / `flatFields`), is the closed form of the spec; the
anonymous-name counter hands out consecutive numbers.
-/
import Emboss.Spec.ScopeSyntax
set_option linter.unusedSimpArgs false
set_option linter.unusedVariables false
namespace Emboss.Scope

theorem flatTypes_append (scope : Path) (a b : List IRType) :
    flatTypes scope (a ++ b) = flatTypes scope a ++ flatTypes scope b := by
  induction a with
  | nil => simp [flatTypes]
  | cons t ts ih => simp [flatTypes, ih]

theorem flatFields_append (scope : Path) (a b : List IRType) :
    flatFields scope (a ++ b) = flatFields scope a ++ flatFields scope b := by
  induction a with
  | nil => simp [flatFields]
  | cons t ts ih => simp [flatFields, ih]

theorem buildAll_fname (ts : List Syn) : (buildAll ts).map (·.fname) = ts.map fieldName := by
  induction ts with
  | nil => simp [buildAll]
  | cons t ts ih =>
    simp only [buildAll, List.map_cons, ih, List.cons.injEq, and_true]
    cases t with
    | node tag name num subs fields => cases tag <;> simp [build, fieldName]

mutual
theorem build_types (t : Syn) (host : Path) :
    flatTypes host (build t).types = placedTypes host t := by
  match t with
  | .node tag name num subs fields =>
    cases tag <;>
      simp [build, placedTypes, flatTypes, flatType, flatTypes_append,
        buildAll_types subs, buildAll_types fields]
theorem buildAll_types (ts : List Syn) (host : Path) :
    flatTypes host ((buildAll ts).flatMap (·.types)) = placedTypesAll host ts := by
  match ts with
  | [] => simp [buildAll, placedTypesAll, flatTypes]
  | t :: ts =>
    simp [buildAll, placedTypesAll, flatTypes_append, build_types t, buildAll_types ts]
end

mutual
theorem build_fields (t : Syn) (host : Path) :
    flatFields host (build t).types = placedFields host t := by
  match t with
  | .node tag name num subs fields =>
    cases tag <;>
      simp [build, placedFields, flatFields, flatField, flatFields_append,
        buildAll_fields subs, buildAll_fields fields, buildAll_fname]
theorem buildAll_fields (ts : List Syn) (host : Path) :
    flatFields host ((buildAll ts).flatMap (·.types)) = placedFieldsAll host ts := by
  match ts with
  | [] => simp [buildAll, placedFieldsAll, flatFields]
  | t :: ts =>
    simp [buildAll, placedFieldsAll, flatFields_append, build_fields t, buildAll_fields ts]
end

/-! ### Scopes are made of types written as definitions only -/

mutual
theorem placed_scope (t : Syn) (host : Path) :
    ∀ x ∈ placedTypes host t, ∃ es, x.1 = host ++ es ∧ ∀ e ∈ es, e ∈ explicitNames t := by
  match t with
  | .node tag name num subs fields =>
    intro x hx
    cases tag with
    | typeDef =>
      simp only [placedTypes, List.mem_cons, List.mem_append] at hx
      rcases hx with rfl | hx | hx
      · exact ⟨[], by simp, fun e he => nomatch he⟩
      · obtain ⟨es, h1, h2⟩ := placedAll_scope subs (host ++ [name]) x hx
        refine ⟨name :: es, by simp [h1], ?_⟩
        intro e he
        simp only [explicitNames, List.mem_cons, List.mem_append]
        rcases List.mem_cons.1 he with rfl | he
        · exact Or.inl rfl
        · exact Or.inr (Or.inl (h2 e he))
      · obtain ⟨es, h1, h2⟩ := placedAll_scope fields (host ++ [name]) x hx
        refine ⟨name :: es, by simp [h1], ?_⟩
        intro e he
        simp only [explicitNames, List.mem_cons, List.mem_append]
        rcases List.mem_cons.1 he with rfl | he
        · exact Or.inl rfl
        · exact Or.inr (Or.inr (h2 e he))
    | inline =>
      simp only [placedTypes, List.mem_cons, List.mem_append] at hx
      rcases hx with rfl | hx | hx
      · exact ⟨[], by simp, fun e he => nomatch he⟩
      · obtain ⟨es, h1, h2⟩ := placedAll_scope subs host x hx
        exact ⟨es, h1, fun e he => by
          simp only [explicitNames, List.mem_append]; exact Or.inl (h2 e he)⟩
      · obtain ⟨es, h1, h2⟩ := placedAll_scope fields host x hx
        exact ⟨es, h1, fun e he => by
          simp only [explicitNames, List.mem_append]; exact Or.inr (h2 e he)⟩
    | anon =>
      simp only [placedTypes, List.mem_cons, List.mem_append] at hx
      rcases hx with rfl | hx | hx
      · exact ⟨[], by simp, fun e he => nomatch he⟩
      · obtain ⟨es, h1, h2⟩ := placedAll_scope subs host x hx
        exact ⟨es, h1, fun e he => by
          simp only [explicitNames, List.mem_append]; exact Or.inl (h2 e he)⟩
      · obtain ⟨es, h1, h2⟩ := placedAll_scope fields host x hx
        exact ⟨es, h1, fun e he => by
          simp only [explicitNames, List.mem_append]; exact Or.inr (h2 e he)⟩
    | plain => simp [placedTypes] at hx
theorem placedAll_scope (ts : List Syn) (host : Path) :
    ∀ x ∈ placedTypesAll host ts, ∃ es, x.1 = host ++ es ∧ ∀ e ∈ es, e ∈ explicitNamesAll ts := by
  match ts with
  | [] => intro x hx; simp [placedTypesAll] at hx
  | t :: ts =>
    intro x hx
    simp only [placedTypesAll, List.mem_append] at hx
    rcases hx with hx | hx
    · obtain ⟨es, h1, h2⟩ := placed_scope t host x hx
      exact ⟨es, h1, fun e he => by
        simp only [explicitNamesAll, List.mem_append]; exact Or.inl (h2 e he)⟩
    · obtain ⟨es, h1, h2⟩ := placedAll_scope ts host x hx
      exact ⟨es, h1, fun e he => by
        simp only [explicitNamesAll, List.mem_append]; exact Or.inr (h2 e he)⟩
end

/-! ### Agreement with the language reference when inline types contain no types -/

theorem plainAll_none (ts : List Syn) (h : PlainAll ts) (host : Path) :
    placedTypesAll host ts = [] ∧ docTypesAll host ts = [] := by
  induction ts with
  | nil => simp [placedTypesAll, docTypesAll]
  | cons t ts ih =>
    cases t with
    | node tag name num subs fields =>
      simp only [PlainAll] at h
      obtain ⟨rfl, h2⟩ := h
      simp [placedTypesAll, docTypesAll, placedTypes, docTypes, ih h2]

mutual
theorem shallow_doc (t : Syn) (host : Path) (h : Shallow t) :
    placedTypes host t = docTypes host t := by
  match t with
  | .node tag name num subs fields =>
    cases tag with
    | typeDef =>
      simp only [Shallow] at h
      simp only [placedTypes, docTypes, shallowAll_doc subs _ h.1, shallowAll_doc fields _ h.2]
    | inline =>
      simp only [Shallow] at h
      obtain ⟨rfl, h2⟩ := h
      simp [placedTypes, docTypes, placedTypesAll, docTypesAll, plainAll_none fields h2]
    | anon =>
      simp only [Shallow] at h
      obtain ⟨rfl, h2⟩ := h
      simp [placedTypes, docTypes, placedTypesAll, docTypesAll, plainAll_none fields h2]
    | plain => simp [placedTypes, docTypes]
theorem shallowAll_doc (ts : List Syn) (host : Path) (h : ShallowAll ts) :
    placedTypesAll host ts = docTypesAll host ts := by
  match ts with
  | [] => simp [placedTypesAll, docTypesAll]
  | t :: ts =>
    simp only [ShallowAll] at h
    simp only [placedTypesAll, docTypesAll, shallow_doc t host h.1, shallowAll_doc ts host h.2]
end

/-! ### The anonymous-name counter hands out consecutive numbers -/

theorem range'_glue (a b c : Nat) (h1 : a ≤ b) (h2 : b ≤ c) :
    List.range' (a + 1) (b - a) ++ List.range' (b + 1) (c - b) = List.range' (a + 1) (c - a) := by
  have : b + 1 = a + 1 + 1 * (b - a) := by omega
  rw [this, List.range'_append]
  congr 1
  omega

mutual
theorem number_nums (t : Syn) (c : Nat) :
    anonNums (number t c).1 = List.range' (c + 1) ((number t c).2 - c) ∧ c ≤ (number t c).2 := by
  match t with
  | .node tag name num subs fields =>
    obtain ⟨f1, f2⟩ := numberAll_nums fields c
    obtain ⟨s1, s2⟩ := numberAll_nums subs (numberAll fields c).2
    cases tag with
    | anon =>
      simp only [number, anonNums, f1, s1]
      refine ⟨?_, by omega⟩
      rw [range'_glue _ _ _ f2 s2]
      have : (numberAll subs (numberAll fields c).2).2 + 1 - c =
          ((numberAll subs (numberAll fields c).2).2 - c) + 1 := by omega
      rw [this, List.range'_concat]
      congr 2
      omega
    | typeDef =>
      simp only [number, anonNums, f1, s1]
      exact ⟨range'_glue _ _ _ f2 s2, by omega⟩
    | inline =>
      simp only [number, anonNums, f1, s1]
      exact ⟨range'_glue _ _ _ f2 s2, by omega⟩
    | plain =>
      simp only [number, anonNums, f1, s1]
      exact ⟨range'_glue _ _ _ f2 s2, by omega⟩
theorem numberAll_nums (ts : List Syn) (c : Nat) :
    anonNumsAll (numberAll ts c).1 = List.range' (c + 1) ((numberAll ts c).2 - c) ∧
      c ≤ (numberAll ts c).2 := by
  match ts with
  | [] => simp [numberAll, anonNumsAll]
  | t :: ts =>
    obtain ⟨r1, r2⟩ := numberAll_nums ts c
    obtain ⟨x1, x2⟩ := number_nums t (numberAll ts c).2
    simp only [numberAll, anonNumsAll, r1, x1]
    exact ⟨range'_glue _ _ _ r2 x2, by omega⟩
end

end Emboss.Scope
