/-
Helper lemmas for C06 (reader ∘ writer), scalar leaves: `ReadIntegerFromTextStream`,
`ReadBooleanFromTextStream`, `ReadEnumViewFromTextStream` (model `readScalar`) applied at a
cursor that sees `writeScalar`'s pieces yield the leaf's value and leave the cursor behind them.
Uses the integer codec round trip (`decodeInt_writeInt` = `C06_int_roundtrip`).
-/
import Emboss.Lemmas.TextCursor
import Emboss.Spec.TextRound
namespace Emboss.Text
open Spec

/-- `C06_int_roundtrip` as a lemma. -/
theorem decodeInt_writeInt (T : IntTy) (x : Int) (base : Base) (grouping : Bool)
    (hx : T.InRange x) : decodeInt T (writeInt T x base grouping) = some x := by
  obtain ⟨h1, h2⟩ := writeInt_textValue T x base grouping hx
  rw [decodeInt_eq, if_neg h1, h2]
  simp [inRangeOnly, hx]

/-- Shape of a written number: sign, prefix, first digit. -/
theorem writeInt_shape (T : IntTy) (x : Int) (base : Base) (g : Bool) (hx : T.InRange x) :
    ∃ d0 rest ds, writeInt T x base g =
        (if decide (x < 0) = true then ['-'] else []) ++ basePrefix base ++ digitChar d0 :: rest ∧
      d0 < base.toNat ∧ (∀ ch ∈ digitChar d0 :: rest, IsBodyChar base.toNat ch) ∧
      digitsOf base.toNat (digitChar d0 :: rest) = some ds ∧
      valueFrom base.toNat 0 ds = (if x < 0 then -x else x) := by
  obtain ⟨d0, rest, ds, h1, h2, h3, h4, h5⟩ := writeBody_spec T x base g hx
  refine ⟨d0, rest, ds, ?_, h2, h3, h4, h5⟩
  unfold writeInt
  simp only [h1]
  by_cases hn : x < 0 <;> simp [hn]

/-- The text of a number denotes the number for *any* reading type whose signedness admits the
sign (the enum reader decodes with `uint64_t` / `int64_t`, whatever the enum's own type). -/
theorem writeInt_textValue_any (T : IntTy) (x : Int) (base : Base) (g : Bool) (hx : T.InRange x)
    (sg : Bool) (hsg : x < 0 → sg = true) :
    textValue sg (writeInt T x base g) = some x := by
  obtain ⟨d0, rest, ds, hshape, h2, h3, h4, h5⟩ := writeInt_shape T x base g hx
  rw [hshape, textValue_shape sg (decide (x < 0)) base d0 rest ds
    (by intro h; exact hsg (by simpa using h)) h2 h3 h4, h5]
  by_cases hn : x < 0 <;> simp [hn]

theorem isDigitChar_digitChar : ∀ d, d < 10 → isDigitChar (digitChar d) = true := by decide

/-- First character of a written number: `-` for a negative one, else a decimal digit (the `0` of
a prefix, or the leading decimal digit). -/
theorem writeInt_head (T : IntTy) (x : Int) (base : Base) (g : Bool) (hx : T.InRange x) :
    ∃ c cs, writeInt T x base g = c :: cs ∧ c ≠ '_' ∧
      (x < 0 → c = '-') ∧ (0 ≤ x → isDigitChar c = true) := by
  obtain ⟨d0, rest, ds, hshape, h2, _, _, _⟩ := writeInt_shape T x base g hx
  rw [hshape]
  by_cases hn : x < 0
  · refine ⟨'-', basePrefix base ++ digitChar d0 :: rest, by simp [hn], by decide, fun _ => rfl,
      fun h => by omega⟩
  · cases base with
    | b10 =>
      refine ⟨digitChar d0, rest, by simp [hn, basePrefix], ?_, fun h => absurd h hn, fun _ => ?_⟩
      · exact digitChar_ne_underscore d0 (by simp [Base.toNat] at h2; omega)
      · exact isDigitChar_digitChar d0 (by simpa [Base.toNat] using h2)
    | b16 =>
      exact ⟨'0', 'x' :: digitChar d0 :: rest, by simp [hn, basePrefix], by decide,
        fun h => absurd h hn, fun _ => by decide⟩
    | b2 =>
      exact ⟨'0', 'b' :: digitChar d0 :: rest, by simp [hn, basePrefix], by decide,
        fun h => absurd h hn, fun _ => by decide⟩

theorem wrapTo_inRange (T : IntTy) (v : Int) (h : T.InRange v) : wrapTo T v = v := by
  obtain ⟨h1, h2⟩ := h
  cases T <;>
    simp only [wrapTo, IntTy.bits, IntTy.signed, IntTy.minVal, IntTy.maxVal, Bool.true_and,
      Bool.false_and, Bool.false_eq_true, if_false] at h1 h2 ⊢
  all_goals first
    | omega
    | (split
       · rename_i hd
         have hd' := of_decide_eq_true hd
         omega
       · rename_i hd
         have hd' : ¬ _ := fun hp => hd (decide_eq_true hp)
         omega)

theorem inRange_u64 (T : IntTy) (v : Int) (h : T.InRange v) (h0 : 0 ≤ v) : IntTy.u64.InRange v := by
  obtain ⟨_, h2⟩ := h
  cases T <;> simp only [IntTy.InRange, IntTy.minVal, IntTy.maxVal] at * <;> omega

theorem inRange_i64 (T : IntTy) (v : Int) (h : T.InRange v) (h0 : v < 0) : IntTy.i64.InRange v := by
  obtain ⟨h1, _⟩ := h
  cases T <;> simp only [IntTy.InRange, IntTy.minVal, IntTy.maxVal] at * <;> omega

/-- What `ReadEnumViewFromTextStream` makes of a number written for the enum's own type. -/
theorem decode_enum_number (T : IntTy) (v : Int) (base : Base) (g : Bool) (hx : T.InRange v)
    (e : Option Int) :
    ∃ c cs, writeInt T v base g = c :: cs ∧
      (if isDigitChar c then (decodeInt .u64 (c :: cs)).map (wrapTo T)
        else if c = '-' then (decodeInt .i64 (c :: cs)).map (wrapTo T)
        else e) = some v := by
  obtain ⟨c, cs, hw, hu, hneg, hpos⟩ := writeInt_head T v base g hx
  refine ⟨c, cs, hw, ?_⟩
  have hhead : ¬ (c :: cs).head? = some '_' := by simpa using hu
  by_cases hn : v < 0
  · have hc := hneg hn
    subst hc
    have hnd : isDigitChar '-' = false := by decide
    have htv := writeInt_textValue_any T v base g hx true (fun _ => rfl)
    rw [hw] at htv
    have : decodeInt .i64 ('-' :: cs) = some v := by
      rw [decodeInt_eq, if_neg hhead]
      show (textValue true ('-' :: cs)).bind _ = _
      rw [htv]
      simp [inRangeOnly, inRange_i64 T v hx hn]
    simp [hnd, this, wrapTo_inRange T v hx]
  · have hd := hpos (by omega)
    have htv := writeInt_textValue_any T v base g hx false (fun h => absurd h hn)
    rw [hw] at htv
    have : decodeInt .u64 (c :: cs) = some v := by
      rw [decodeInt_eq, if_neg hhead]
      show (textValue false (c :: cs)).bind _ = _
      rw [htv]
      simp [inRangeOnly, inRange_u64 T v hx (by omega)]
    simp [hd, this, wrapTo_inRange T v hx]

theorem toks_numberComment (T : IntTy) (v : Int) (b : Base) (g : Bool) :
    toks (numberComment T v b g) = [] := rfl

/-- Reading back a scalar leaf. -/
theorem read_scalar (o : Opts) (s : Scalar) (rs : RScalar) (path r : List Char) (k : Kind)
    (R : List Piece) (hs : s.WF) (hm : ScalarMatches rs s) (h : At r k (writeScalar o s ++ R)) :
    ∃ r', readScalar rs path r = .ok [(path, s.written)] r' ∧
      At r' (lastKind k (writeScalar o s)) R := by
  cases s with
  | int T v =>
    cases rs with
    | int T' lo hi =>
      obtain ⟨rfl, hr, hlo, hhi⟩ : T = T' ∧ T'.InRange v ∧ lo ≤ v ∧ v ≤ hi := hm
      simp only [writeScalar, List.cons_append] at h ⊢
      obtain ⟨hread, _, hat⟩ := h.word
      have hskip := At.skip (r := render _) _ (by split <;> rfl) hat
      refine ⟨_, ?_, by simpa [lastKind, Piece.kind] using hskip⟩
      have hne : writeInt T v o.base o.grouping ≠ [] := (writeInt_validWord T v o.base o.grouping).1
      simp [readScalar, hread, hne, decodeInt_writeInt T v o.base o.grouping hr, hlo, hhi,
        Scalar.written]
    | bool => exact absurd hm (by simp [ScalarMatches])
    | enumR _ _ _ _ => exact absurd hm (by simp [ScalarMatches])
    | float => exact absurd hm (by simp [ScalarMatches])
  | bool b =>
    cases rs with
    | bool =>
      simp only [writeScalar, List.cons_append, List.nil_append] at h ⊢
      obtain ⟨hread, _, hat⟩ := h.word
      refine ⟨_, ?_, by simpa [lastKind, Piece.kind] using hat⟩
      cases b <;> simp [readScalar, hread, Scalar.written]
    | int _ _ _ => exact absurd hm (by simp [ScalarMatches])
    | enumR _ _ _ _ => exact absurd hm (by simp [ScalarMatches])
    | float => exact absurd hm (by simp [ScalarMatches])
  | float t =>
    cases rs with
    | float =>
      simp only [writeScalar, List.cons_append, List.nil_append] at h ⊢
      obtain ⟨hread, _, hat⟩ := h.word
      refine ⟨_, ?_, by simpa [lastKind, Piece.kind] using hat⟩
      have hne : t ≠ [] := (show ValidWord t from hs).1
      simp [readScalar, hread, hne, Scalar.written]
    | int _ _ _ => exact absurd hm (by simp [ScalarMatches])
    | enumR _ _ _ _ => exact absurd hm (by simp [ScalarMatches])
    | bool => exact absurd hm (by simp [ScalarMatches])
  | enumV n T v =>
    cases rs with
    | enumR names T' lo hi =>
      cases n with
      | none =>
        obtain ⟨rfl, hr, hlo, hhi⟩ : T = T' ∧ T'.InRange v ∧ lo ≤ v ∧ v ≤ hi := hm
        simp only [writeScalar, List.cons_append, List.nil_append] at h ⊢
        obtain ⟨hread, _, hat⟩ := h.word
        refine ⟨_, ?_, by simpa [lastKind, Piece.kind] using hat⟩
        obtain ⟨c, cs, hw, hval⟩ := decode_enum_number T v o.base o.grouping hr
          (lookupName names (writeInt T v o.base o.grouping))
        rw [hw] at hread hval
        simp only [readScalar, hread, hval]
        simp [hlo, hhi, Scalar.written]
      | some w =>
        obtain ⟨rfl, hnl, hlk, hlo, hhi⟩ :
          T = T' ∧ NameLike w ∧ lookupName names w = some v ∧ lo ≤ v ∧ v ≤ hi := hm
        simp only [writeScalar, List.cons_append] at h ⊢
        obtain ⟨hread, _, hat⟩ := h.word
        have hskip := At.skip (r := render _) _ (by split <;> rfl) hat
        refine ⟨_, ?_, by simpa [lastKind, Piece.kind] using hskip⟩
        have hwv : ValidWord w := hs w rfl
        cases w with
        | nil => exact absurd rfl hwv.1
        | cons c cs =>
          obtain ⟨hd, hm'⟩ : isDigitChar c = false ∧ c ≠ '-' := hnl
          simp only [readScalar, hread, hd, hm', if_false, Bool.false_eq_true, hlk]
          simp [hlo, hhi, Scalar.written]
    | int _ _ _ => cases n <;> exact absurd hm (by simp [ScalarMatches])
    | bool => cases n <;> exact absurd hm (by simp [ScalarMatches])
    | float => cases n <;> exact absurd hm (by simp [ScalarMatches])

end Emboss.Text
