/-
The generated C++ evaluates the inverse of a transform virtual field exactly: inside the
virtual field's own value range (which `CouldWriteValue` now checks first) every node of the
inverse stays inside the bounds the front end computed for it, so none of `MaybeDo`'s
conversions changes a value and no signed operation overflows.
-/
import Emboss.Lemmas.WriteInference
import Emboss.Lemmas.CppInt
namespace Emboss.WInf
open Emboss.WInf.Spec Emboss.CppInt

/-- The type chosen for a range holds every value of the range. -/
theorem typeForRange_holds {lo hi : Int} {t : IntTy} (h : typeForRange lo hi = some t)
    {z : Int} (h1 : lo ≤ z) (h2 : z ≤ hi) : t.holds z = true ∧ 0 < t.bits := by
  unfold typeForRange at h
  split at h
  · cases h; exact ⟨holds_i32 z (by omega), by decide⟩
  · split at h
    · cases h; exact ⟨holds_u32 z (by omega), by decide⟩
    · split at h
      · cases h; exact ⟨holds_i64 z (by omega), by decide⟩
      · split at h
        · cases h; exact ⟨holds_u64 z (by omega), by decide⟩
        · cases h

theorem wrap_of_typeForRange {lo hi : Int} {t : IntTy} (h : typeForRange lo hi = some t)
    {z : Int} (h1 : lo ≤ z) (h2 : z ≤ hi) : wrap t z = z := by
  obtain ⟨hh, hb⟩ := typeForRange_holds h h1 h2
  exact wrap_of_holds t z hb hh

/-- A closed node evaluates to the same value whatever the fields and `$logical_value` hold. -/
theorem eval_closed (e : Expr) (h : isClosed e = true) (env env' : Nat → Int) (lv lv' : Int) :
    eval env lv e = eval env' lv' e := by
  induction e with
  | const | leaf | un | tern => simp [eval]
  | ref | logical => simp [isClosed] at h
  | bin op a b iha ihb =>
    simp only [isClosed, Bool.and_eq_true] at h
    have ha := iha h.1; have hb := ihb h.2
    cases op <;> simp [eval, ha, hb]

theorem constVal_eval {e : Expr} {c : Int} (h : constVal e = some c) (env : Nat → Int) (lv : Int) :
    eval env lv e = some c := by
  unfold constVal at h
  split at h
  · rename_i hc; rw [eval_closed e hc env (fun _ => 0) lv 0]; exact h
  · cases h

theorem imin_le_left (a b : Int) : imin a b ≤ a := by unfold imin; split <;> omega
theorem imin_le_right (a b : Int) : imin a b ≤ b := by unfold imin; split <;> omega
theorem le_imax_left (a b : Int) : a ≤ imax a b := by unfold imax; split <;> omega
theorem le_imax_right (a b : Int) : b ≤ imax a b := by unfold imax; split <;> omega

/-- One `MaybeDo` node: operands inside their ranges, the exact result inside the node's
range ⇒ the C++ result is the exact result. -/
theorem cppOp_exact {isAdd : Bool} {r ra rb : Rng} {va vb : Int} {it rt : IntTy}
    (hit : intermediateT r ra rb = some it) (hrt : typeForRange r.lo r.hi = some rt)
    (ha : ra.lo ≤ va ∧ va ≤ ra.hi) (hb : rb.lo ≤ vb ∧ vb ≤ rb.hi)
    (hz : r.lo ≤ (if isAdd then va + vb else va - vb) ∧ (if isAdd then va + vb else va - vb) ≤ r.hi) :
    cppOp isAdd r ra rb va vb = .ok (if isAdd then va + vb else va - vb) := by
  unfold cppOp
  rw [hit, hrt]
  unfold intermediateT at hit
  have h1 := imin_le_left r.lo (imin ra.lo rb.lo)
  have h2 := imin_le_right r.lo (imin ra.lo rb.lo)
  have h3 := imin_le_left ra.lo rb.lo
  have h4 := imin_le_right ra.lo rb.lo
  have h5 := le_imax_left r.hi (imax ra.hi rb.hi)
  have h6 := le_imax_right r.hi (imax ra.hi rb.hi)
  have h7 := le_imax_left ra.hi rb.hi
  have h8 := le_imax_right ra.hi rb.hi
  have wa : wrap it va = va := wrap_of_typeForRange hit (by omega) (by omega)
  have wb : wrap it vb = vb := wrap_of_typeForRange hit (by omega) (by omega)
  simp only [wa, wb]
  obtain ⟨hh, _⟩ := typeForRange_holds hit (z := if isAdd then va + vb else va - vb)
    (by omega) (by omega)
  have wz : wrap it (if isAdd then va + vb else va - vb) = (if isAdd then va + vb else va - vb) :=
    wrap_of_typeForRange hit (by omega) (by omega)
  have wr : wrap rt (if isAdd then va + vb else va - vb) = (if isAdd then va + vb else va - vb) :=
    wrap_of_typeForRange hrt hz.1 hz.2
  simp only [hh, Bool.not_true, Bool.and_false, Bool.false_eq_true, if_false, wz, wr]

/-- **Exactness of the generated inverse inside the field's range.**  For a candidate `v`
inside `lv` and an inverse whose nodes all have C++ types, the generated code computes a
value (no undefined behaviour), it equals the evaluation over ℤ, and it lies in the range
the front end computed for the node. -/
theorem cppEval_exact (lv : Rng) (v : Int) (hv : lv.lo ≤ v ∧ v ≤ lv.hi) :
    ∀ (e : Expr) (r : Rng), rangeOf lv e = some r → typesExist lv e = true →
      ∃ u, cppEval lv v e = .ok u ∧ eval (fun _ => 0) v e = some u ∧ r.lo ≤ u ∧ u ≤ r.hi := by
  intro e
  induction e with
  | const c =>
    intro r hr ht
    simp only [rangeOf, Option.some.injEq] at hr; subst hr
    simp only [typesExist] at ht
    refine ⟨c, ?_, rfl, Int.le_refl _, Int.le_refl _⟩
    simp only [cppEval, literal]
    cases htc : typeForRange c c with
    | none => simp [htc] at ht
    | some t => rfl
  | logical =>
    intro r hr _
    simp only [rangeOf, Option.some.injEq] at hr; subst hr
    exact ⟨v, rfl, rfl, hv.1, hv.2⟩
  | ref | leaf | un | tern => intro r hr; simp [rangeOf] at hr
  | bin op a b iha ihb =>
    intro r hr ht
    simp only [rangeOf] at hr
    simp only [typesExist] at ht
    cases hcv : constVal (.bin op a b) with
    | some c =>
      simp only [hcv, Option.some.injEq] at hr ht; subst hr
      refine ⟨c, ?_, constVal_eval hcv _ _, Int.le_refl _, Int.le_refl _⟩
      simp only [cppEval, hcv, literal]
      cases htc : typeForRange c c with
      | none => simp [htc] at ht
      | some t => rfl
    | none =>
      simp only [hcv] at hr ht
      cases hra : rangeOf lv a with
      | none => cases op <;> simp [hra] at hr
      | some ra =>
        cases hrb : rangeOf lv b with
        | none => cases op <;> simp [hra, hrb] at hr
        | some rb =>
          simp only [Bool.and_eq_true] at ht
          obtain ⟨⟨hta, htb⟩, htn⟩ := ht
          obtain ⟨ua, hca, hea, ha1, ha2⟩ := iha ra hra hta
          obtain ⟨ub, hcb, heb, hb1, hb2⟩ := ihb rb hrb htb
          have hrn : rangeOf lv (.bin op a b) = some r := by
            simp only [rangeOf, hcv]; exact hr
          simp only [hrn, hra, hrb, Bool.and_eq_true, Option.isSome_iff_exists] at htn
          obtain ⟨⟨it, hit⟩, ⟨rt, hrt⟩⟩ := htn
          cases op with
          | add =>
            simp only [hra, hrb, Option.some.injEq] at hr; subst hr
            refine ⟨ua + ub, ?_, by simp [eval, hea, heb], by simp only; omega, by simp only; omega⟩
            simp only [cppEval, hcv, hca, hcb, hrn, hra, hrb]
            have := cppOp_exact (isAdd := true) hit hrt ⟨ha1, ha2⟩ ⟨hb1, hb2⟩
              (by simp only [if_true]; constructor <;> omega)
            simpa using this
          | sub =>
            simp only [hra, hrb, Option.some.injEq] at hr; subst hr
            refine ⟨ua - ub, ?_, by simp [eval, hea, heb], by simp only; omega, by simp only; omega⟩
            simp only [cppEval, hcv, hca, hcb, hrn, hra, hrb]
            have := cppOp_exact (isAdd := false) hit hrt ⟨ha1, ha2⟩ ⟨hb1, hb2⟩
              (by simp only [Bool.false_eq_true, if_false]; constructor <;> omega)
            have hne : (Op.sub == Op.add) = false := by decide
            rw [hne]
            simpa using this
          | mul => simp at hr
          | other n => simp at hr

end Emboss.WInf

namespace Emboss.WInf
open Emboss.WInf.Spec Emboss.CppInt

/-! ### The generated range check -/

def Four (t : IntTy) : Prop := t = i32 ∨ t = u32 ∨ t = i64 ∨ t = u64

theorem typeForRange_four {lo hi : Int} {t : IntTy} (h : typeForRange lo hi = some t) : Four t := by
  unfold typeForRange at h
  unfold Four
  split at h
  · cases h; simp
  · split at h
    · cases h; simp
    · split at h
      · cases h; simp
      · split at h
        · cases h; simp
        · cases h

theorem holds_i32_iff (v : Int) : i32.holds v = true ↔ -2147483648 ≤ v ∧ v ≤ 2147483647 := by
  have e : pow2 (32 - 1) = 2147483648 := by decide
  simp only [IntTy.holds, IntTy.minVal, IntTy.maxVal, i32, if_true, e, Bool.and_eq_true, decide_eq_true_eq]
  omega

theorem holds_u32_iff (v : Int) : u32.holds v = true ↔ 0 ≤ v ∧ v ≤ 4294967295 := by
  simp only [IntTy.holds, IntTy.minVal, IntTy.maxVal, u32, Bool.false_eq_true, if_false, pow2_32,
    Bool.and_eq_true, decide_eq_true_eq]
  omega

theorem holds_i64_iff (v : Int) :
    i64.holds v = true ↔ -9223372036854775808 ≤ v ∧ v ≤ 9223372036854775807 := by
  have e : pow2 (64 - 1) = 9223372036854775808 := by decide
  simp only [IntTy.holds, IntTy.minVal, IntTy.maxVal, i64, if_true, e, Bool.and_eq_true, decide_eq_true_eq]
  omega

theorem holds_u64_iff (v : Int) : u64.holds v = true ↔ 0 ≤ v ∧ v ≤ 18446744073709551615 := by
  simp only [IntTy.holds, IntTy.minVal, IntTy.maxVal, u64, Bool.false_eq_true, if_false, pow2_64,
    Bool.and_eq_true, decide_eq_true_eq]
  omega

/-- A comparison whose operands both survive the usual arithmetic conversions is the
mathematical comparison. -/
theorem cppLt_exact {ta tb : IntTy} {a b : Int} (hbits : 0 < (commonType ta tb).bits)
    (ha : (commonType ta tb).holds a = true) (hb : (commonType ta tb).holds b = true) :
    cppLt ta a tb b = decide (a < b) := by
  unfold cppLt
  rw [wrap_of_holds _ a hbits ha, wrap_of_holds _ b hbits hb]

/-- The common type of two of the four types holds a value of the left type when the value
is non-negative or the common type is signed (and symmetrically for the right type). -/
theorem common_holds {ta tb : IntTy} (hta : Four ta) (htb : Four tb) {a : Int}
    (ha : ta.holds a = true) (hs : 0 ≤ a ∨ (commonType ta tb).signed = true) :
    (commonType ta tb).holds a = true ∧ (commonType tb ta).holds a = true ∧
    0 < (commonType ta tb).bits ∧ 0 < (commonType tb ta).bits := by
  rcases hta with rfl | rfl | rfl | rfl <;> rcases htb with rfl | rfl | rfl | rfl <;>
    first
      | (have h1 : commonType i32 i32 = i32 := by decide
         simp only [h1, holds_i32_iff] at *; exact ⟨ha, ha, by decide, by decide⟩)
      | (have h1 : commonType i32 u32 = u32 := by decide
         have h2 : commonType u32 i32 = u32 := by decide
         simp only [h1, h2, holds_i32_iff, holds_u32_iff] at *
         refine ⟨?_, ?_, by decide, by decide⟩ <;> (rcases hs with hs | hs <;> first | omega | (exact absurd hs (by decide))))
      | (have h1 : commonType i32 i64 = i64 := by decide
         have h2 : commonType i64 i32 = i64 := by decide
         simp only [h1, h2, holds_i32_iff, holds_i64_iff] at *
         refine ⟨?_, ?_, by decide, by decide⟩ <;> omega)
      | (have h1 : commonType i32 u64 = u64 := by decide
         have h2 : commonType u64 i32 = u64 := by decide
         simp only [h1, h2, holds_i32_iff, holds_u64_iff] at *
         refine ⟨?_, ?_, by decide, by decide⟩ <;> (rcases hs with hs | hs <;> first | omega | (exact absurd hs (by decide))))
      | (have h1 : commonType u32 i32 = u32 := by decide
         have h2 : commonType i32 u32 = u32 := by decide
         simp only [h1, h2, holds_u32_iff] at *
         exact ⟨ha, ha, by decide, by decide⟩)
      | (have h1 : commonType u32 u32 = u32 := by decide
         simp only [h1, holds_u32_iff] at *; exact ⟨ha, ha, by decide, by decide⟩)
      | (have h1 : commonType u32 i64 = i64 := by decide
         have h2 : commonType i64 u32 = i64 := by decide
         simp only [h1, h2, holds_u32_iff, holds_i64_iff] at *
         refine ⟨?_, ?_, by decide, by decide⟩ <;> omega)
      | (have h1 : commonType u32 u64 = u64 := by decide
         have h2 : commonType u64 u32 = u64 := by decide
         simp only [h1, h2, holds_u32_iff, holds_u64_iff] at *
         refine ⟨?_, ?_, by decide, by decide⟩ <;> omega)
      | (have h1 : commonType i64 i32 = i64 := by decide
         have h2 : commonType i32 i64 = i64 := by decide
         simp only [h1, h2, holds_i64_iff] at *
         exact ⟨ha, ha, by decide, by decide⟩)
      | (have h1 : commonType i64 u32 = i64 := by decide
         have h2 : commonType u32 i64 = i64 := by decide
         simp only [h1, h2, holds_i64_iff] at *
         exact ⟨ha, ha, by decide, by decide⟩)
      | (have h1 : commonType i64 i64 = i64 := by decide
         simp only [h1, holds_i64_iff] at *; exact ⟨ha, ha, by decide, by decide⟩)
      | (have h1 : commonType i64 u64 = u64 := by decide
         have h2 : commonType u64 i64 = u64 := by decide
         simp only [h1, h2, holds_i64_iff, holds_u64_iff] at *
         refine ⟨?_, ?_, by decide, by decide⟩ <;> (rcases hs with hs | hs <;> first | omega | (exact absurd hs (by decide))))
      | (have h1 : commonType u64 i32 = u64 := by decide
         have h2 : commonType i32 u64 = u64 := by decide
         simp only [h1, h2, holds_u64_iff] at *
         exact ⟨ha, ha, by decide, by decide⟩)
      | (have h1 : commonType u64 u32 = u64 := by decide
         have h2 : commonType u32 u64 = u64 := by decide
         simp only [h1, h2, holds_u64_iff] at *
         exact ⟨ha, ha, by decide, by decide⟩)
      | (have h1 : commonType u64 i64 = u64 := by decide
         have h2 : commonType i64 u64 = u64 := by decide
         simp only [h1, h2, holds_u64_iff] at *
         exact ⟨ha, ha, by decide, by decide⟩)
      | (have h1 : commonType u64 u64 = u64 := by decide
         simp only [h1, holds_u64_iff] at *; exact ⟨ha, ha, by decide, by decide⟩)

end Emboss.WInf

namespace Emboss.WInf
open Emboss.WInf.Spec Emboss.CppInt

theorem unsigned_nonneg {t : IntTy} (h4 : Four t) (hs : t.signed = false) {z : Int}
    (hz : t.holds z = true) : 0 ≤ z := by
  rcases h4 with rfl | rfl | rfl | rfl
  · exact absurd hs (by decide)
  · exact ((holds_u32_iff z).mp hz).1
  · exact absurd hs (by decide)
  · exact ((holds_u64_iff z).mp hz).1

/-- The literal type of a value of `t`: it exists, holds the value, and comparing it with a
*signed* `t` happens in a signed type. -/
theorem self_type {t : IntTy} (h4 : Four t) {z : Int} (hz : t.holds z = true) :
    ∃ t', typeForRange z z = some t' ∧
      (t.signed = true → (commonType t t').signed = true ∧ (commonType t' t).signed = true) := by
  rcases h4 with rfl | rfl | rfl | rfl
  · have hb := (holds_i32_iff z).mp hz
    refine ⟨i32, by unfold typeForRange; rw [if_pos (by omega)], fun _ => by decide⟩
  · have hb := (holds_u32_iff z).mp hz
    by_cases h1 : z ≤ 2147483647
    · exact ⟨i32, by unfold typeForRange; rw [if_pos (by omega)], fun h => absurd h (by decide)⟩
    · exact ⟨u32, by unfold typeForRange; rw [if_neg (by omega), if_pos (by omega)],
        fun h => absurd h (by decide)⟩
  · have hb := (holds_i64_iff z).mp hz
    by_cases h1 : -2147483648 ≤ z ∧ z ≤ 2147483647
    · exact ⟨i32, by unfold typeForRange; rw [if_pos (by omega)], fun _ => by decide⟩
    · by_cases h2 : 0 ≤ z ∧ z ≤ 4294967295
      · exact ⟨u32, by unfold typeForRange; rw [if_neg (by omega), if_pos (by omega)],
          fun _ => by decide⟩
      · exact ⟨i64, by unfold typeForRange; rw [if_neg (by omega), if_neg (by omega), if_pos (by omega)],
          fun _ => by decide⟩
  · have hb := (holds_u64_iff z).mp hz
    by_cases h1 : z ≤ 2147483647
    · exact ⟨i32, by unfold typeForRange; rw [if_pos (by omega)], fun h => absurd h (by decide)⟩
    · by_cases h2 : z ≤ 4294967295
      · exact ⟨u32, by unfold typeForRange; rw [if_neg (by omega), if_pos (by omega)],
          fun h => absurd h (by decide)⟩
      · by_cases h3 : z ≤ 9223372036854775807
        · exact ⟨i64, by unfold typeForRange; rw [if_neg (by omega), if_neg (by omega), if_pos (by omega)],
            fun h => absurd h (by decide)⟩
        · exact ⟨u64, by
            unfold typeForRange
            rw [if_neg (by omega), if_neg (by omega), if_neg (by omega), if_pos (by omega)],
            fun h => absurd h (by decide)⟩

/-- **The generated range check is exact**: for a candidate of the logical type it passes
exactly when `lo ≤ v ≤ hi` — the mixed-signedness comparisons of the rendered literals with
the parameter never convert a negative value to an unsigned type, and the omitted lower
comparison (`lo == 0`, unsigned parameter) is vacuous. -/
theorem rangeCheck_exact {lv : Rng} {t : IntTy} (ht : logicalType lv = some t)
    (hle : lv.lo ≤ lv.hi) {v : Int} (hv : t.holds v = true) :
    rangeCheck lv t v = some (decide (lv.lo ≤ v ∧ v ≤ lv.hi)) := by
  unfold logicalType at ht
  have h4 := typeForRange_four ht
  have hlo := (typeForRange_holds ht (z := lv.lo) (Int.le_refl _) hle).1
  have hhi := (typeForRange_holds ht (z := lv.hi) hle (Int.le_refl _)).1
  obtain ⟨tlo, htlo, hslo⟩ := self_type h4 hlo
  obtain ⟨thi, hthi, hshi⟩ := self_type h4 hhi
  have h4lo := typeForRange_four htlo
  have h4hi := typeForRange_four hthi
  have hlo' := (typeForRange_holds htlo (z := lv.lo) (Int.le_refl _) (Int.le_refl _)).1
  have hhi' := (typeForRange_holds hthi (z := lv.hi) (Int.le_refl _) (Int.le_refl _)).1
  -- the upper comparison `value > hi`, i.e. `hi < value`
  have habove : cppLt thi lv.hi t v = decide (lv.hi < v) := by
    cases hsg : t.signed with
    | true =>
      have c1 := common_holds h4hi h4 hhi' (Or.inr (hshi hsg).2)
      have c2 := common_holds h4 h4hi hv (Or.inr (hshi hsg).1)
      exact cppLt_exact c1.2.2.1 c1.1 c2.2.1
    | false =>
      have c1 := common_holds h4hi h4 hhi' (Or.inl (unsigned_nonneg h4 hsg hhi))
      have c2 := common_holds h4 h4hi hv (Or.inl (unsigned_nonneg h4 hsg hv))
      exact cppLt_exact c1.2.2.1 c1.1 c2.2.1
  have hbelow : (if lv.lo ≠ 0 ∨ t.signed = true then cppLt t v tlo lv.lo else false) =
      decide (v < lv.lo) := by
    cases hsg : t.signed with
    | true =>
      rw [if_pos (Or.inr rfl)]
      have c1 := common_holds h4 h4lo hv (Or.inr (hslo hsg).1)
      have c2 := common_holds h4lo h4 hlo' (Or.inr (hslo hsg).2)
      exact cppLt_exact c1.2.2.1 c1.1 c2.2.1
    | false =>
      have hv0 := unsigned_nonneg h4 hsg hv
      have hl0 := unsigned_nonneg h4 hsg hlo
      by_cases hz : lv.lo ≠ 0
      · rw [if_pos (Or.inl hz)]
        have c1 := common_holds h4 h4lo hv (Or.inl hv0)
        have c2 := common_holds h4lo h4 hlo' (Or.inl hl0)
        exact cppLt_exact c1.2.2.1 c1.1 c2.2.1
      · rw [if_neg (by simp [hz])]
        have : ¬ v < lv.lo := by omega
        simp [this]
  unfold rangeCheck
  rw [htlo, hthi]
  simp only [hbelow, habove, Option.some.injEq]
  by_cases h1 : v < lv.lo <;> by_cases h2 : lv.hi < v <;> simp [h1, h2] <;> omega

/-- **Writing through a transform virtual field, as the generated C++ does it.**
`lv` is the value range of the virtual field (`read_transform.type`), `t` its C++ parameter
type, `v` any value of that type; the inverse is in the fragment `_invert_expression`
produces (`rangeOf … = some r`) and its nodes have C++ types.  Then the generated code has
defined behaviour, it accepts `v` exactly when `[requires]` holds, `v` is inside the field's
range and the destination accepts the *exact* inverse image; a successful write stores that
image, for which `read_transform` evaluates to `v`; a failed write leaves the destination
untouched. -/
theorem transform_write (rt body : Expr) (x : Nat) (hinv : invert rt = some (.ref x, body))
    (lv r : Rng) (t : IntTy) (ht : logicalType lv = some t) (hle : lv.lo ≤ lv.hi)
    (hr : rangeOf lv body = some r) (hty : typesExist lv body = true)
    (valueIsOk : Int → Bool) (d : Dest) (v : Int) (hv : t.holds v = true) (env : Nat → Int) :
    ∃ ok d', virtualTryToWrite lv t body valueIsOk d v = some (ok, d') ∧
      (ok = true ↔ valueIsOk v = true ∧ lv.lo ≤ v ∧ v ≤ lv.hi ∧ d.complete = true ∧
        ∃ u, eval (fun _ => 0) v body = some u ∧ d.could u = true) ∧
      (ok = true → eval (update env x d'.value) v rt = some v ∧ d.could d'.value = true ∧
        r.lo ≤ d'.value ∧ d'.value ≤ r.hi) ∧
      (ok = false → d' = d) := by
  have hfree := invert_refFree rt _ body hinv
  have hrc := rangeCheck_exact ht hle hv
  unfold virtualTryToWrite virtualCould
  by_cases hok : valueIsOk v = true
  · by_cases hin : lv.lo ≤ v ∧ v ≤ lv.hi
    · obtain ⟨u, hcu, heu, hu1, hu2⟩ := cppEval_exact lv v hin body r hr hty
      have hdec : decide (lv.lo ≤ v ∧ v ≤ lv.hi) = true := decide_eq_true hin
      simp only [hok, Bool.not_true, Bool.false_eq_true, if_false, hrc, hdec, hcu]
      have hb' : eval env v body = some u := by
        rw [eval_env_irrel body hfree env (fun _ => 0)]; exact heu
      obtain ⟨x', hx', heq⟩ := inverse_correct rt _ body hinv env v u hb'
      cases hx'
      cases hcd : d.could u with
      | true =>
        simp only
        unfold Dest.tryToWrite
        cases hcp : d.complete with
        | true =>
          simp only [hcd, Bool.and_self, if_true]
          refine ⟨true, _, rfl, ?_, fun _ => ⟨heq, hcd, hu1, hu2⟩, fun h => by cases h⟩
          simp only [true_iff]
          exact ⟨trivial, hin.1, hin.2, trivial, u, heu, hcd⟩
        | false =>
          simp only [hcd, Bool.and_false, Bool.false_eq_true, if_false]
          refine ⟨false, _, rfl, ?_, (fun h => by cases h), fun _ => rfl⟩
          simp
      | false =>
        simp only
        refine ⟨false, _, rfl, ?_, (fun h => by cases h), fun _ => rfl⟩
        simp only [Bool.false_eq_true, false_iff, not_and, not_exists]
        intro _ _ _ _ u' hu'
        rw [heu] at hu'; cases hu'; simp [hcd]
    · have hdec : decide (lv.lo ≤ v ∧ v ≤ lv.hi) = false := decide_eq_false hin
      simp only [hok, Bool.not_true, Bool.false_eq_true, if_false, hrc, hdec]
      refine ⟨false, _, rfl, ?_, (fun h => by cases h), fun _ => rfl⟩
      simp only [Bool.false_eq_true, false_iff, not_and]
      intro _ h1 h2; exact absurd ⟨h1, h2⟩ hin
  · have hok' : valueIsOk v = false := by cases h : valueIsOk v <;> simp_all
    simp only [hok', Bool.not_false, if_true]
    refine ⟨false, _, rfl, ?_, (fun h => by cases h), fun _ => rfl⟩
    simp

end Emboss.WInf
