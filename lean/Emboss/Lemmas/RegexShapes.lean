/-
Closed forms for `matchLen` on the regex shapes that occur in the tokenizer table (C10).
-/
import Emboss.Lemmas.RegexRep
namespace Emboss.Regex

/-- The final continuation of `matchLen`, generalised: `n` characters were consumed
before `t`. -/
def kOff (n : Nat) (t : List Char) : List Char → MRes := fun rest => .ok (n + t.length - rest.length)

theorem matchLen_eq (r : Regex) (s : List Char) : matchLen r s = matchK r s (kOff 0 s) := by
  unfold matchLen
  congr 1
  funext rest
  simp [kOff]

theorem kOff_ne_fail (n : Nat) (t u : List Char) : kOff n t u ≠ .fail := by simp [kOff]

theorem kOff_cons (n : Nat) (x : Char) (t : List Char) : kOff n (x :: t) = kOff (n + 1) t := by
  funext rest; simp only [kOff, List.length_cons]; congr 1; omega

theorem kOff_drop (n : Nat) (t : List Char) (j : Nat) (h : j ≤ t.length) :
    kOff n t (t.drop j) = .ok (n + j) := by
  simp only [kOff, List.length_drop]; congr 1; omega

theorem kOff_drop' (n : Nat) (t : List Char) (j : Nat) (h : j ≤ t.length) :
    kOff n t = kOff (n + j) (t.drop j) := by
  funext rest; simp only [kOff, List.length_drop]; congr 1; omega

@[simp] theorem matchK_seq (a b : Regex) (s : List Char) (k : List Char → MRes) :
    matchK (.seq a b) s k = matchK a s (fun t => matchK b t k) := rfl

@[simp] theorem matchK_eps (s : List Char) (k : List Char → MRes) : matchK .eps s k = k s := rfl

theorem matchK_alt (a b : Regex) (s : List Char) (k : List Char → MRes) :
    matchK (.alt a b) s k = match matchK a s k with | .fail => matchK b s k | x => x := rfl

/-- `c` as a one-character class. -/
def litC (c : Char) : CClass := ⟨false, [.range c.toNat c.toNat]⟩

theorem toNat_inj {a b : Char} (h : a.toNat = b.toNat) : a = b := by
  apply Char.ext
  apply UInt32.toNat_inj.mp
  exact h

@[simp] theorem litC_mem (c x : Char) : (litC c).mem x = (x == c) := by
  simp only [litC, CClass.mem, List.any_cons, List.any_nil, CItem.mem, Bool.or_false, Bool.false_bne]
  by_cases h : x = c
  · subst h; simp
  · have : x.toNat ≠ c.toNat := fun hh => h (toNat_inj hh)
    have hf : (x == c) = false := by simp [h]
    rw [hf]
    simp only [Bool.and_eq_false_iff, decide_eq_false_iff_not]
    omega

/-- A literal prefix followed by `r`, right-nested as the translator emits it. -/
def litThen : List Char → Regex → Regex
  | [], r => r
  | c :: cs, r => .seq (.chr (litC c)) (litThen cs r)

theorem matchK_litThen (l : List Char) (r : Regex) : ∀ (s : List Char) (k : List Char → MRes),
    matchK (litThen l r) s k = if l.isPrefixOf s then matchK r (s.drop l.length) k else .fail := by
  induction l with
  | nil => intro s k; simp [litThen]
  | cons c cs ih =>
    intro s k
    cases s with
    | nil => simp [litThen]
    | cons x t =>
      simp only [litThen, matchK_seq, matchK_chr_cons, litC_mem, List.isPrefixOf, List.length_cons,
        List.drop_succ_cons]
      by_cases h : x = c
      · subst h; simp [ih]
      · have : (c == x) = false := by simp; exact fun hh => h hh.symm
        simp [h, this]

theorem matchK_litRegex (l : List Char) : ∀ (s : List Char) (k : List Char → MRes),
    matchK (litRegex l) s k = if l.isPrefixOf s then k (s.drop l.length) else .fail := by
  induction l with
  | nil => intro s k; simp [litRegex]
  | cons c cs ih =>
    intro s k
    cases cs with
    | nil =>
      cases s with
      | nil => simp [litRegex]
      | cons x t =>
        simp only [litRegex, matchK_chr_cons, List.isPrefixOf, List.length_cons, List.length_nil,
          List.drop_succ_cons, List.drop_zero, Bool.and_true]
        have : CClass.mem ⟨false, [.range c.toNat c.toNat]⟩ x = (litC c).mem x := rfl
        rw [this, litC_mem]
        by_cases h : x = c
        · subst h; simp
        · have : (c == x) = false := by simp; exact fun hh => h hh.symm
          simp [h, this]
    | cons d ds =>
      cases s with
      | nil => simp [litRegex]
      | cons x t =>
        have hc : CClass.mem ⟨false, [.range c.toNat c.toNat]⟩ x = (litC c).mem x := rfl
        simp only [litRegex, matchK_seq, matchK_chr_cons, hc, litC_mem, ih, List.isPrefixOf,
          List.length_cons, List.drop_succ_cons]
        by_cases h : x = c
        · subst h; simp
        · have : (c == x) = false := by simp; exact fun hh => h hh.symm
          simp [h, this]

/-- `str.startswith`. -/
theorem matchLen_litRegex (l s : List Char) :
    matchLen (litRegex l) s = if l.isPrefixOf s then .ok l.length else .fail := by
  rw [matchLen_eq, matchK_litRegex]
  split
  · rename_i h
    have : l.length ≤ s.length := (List.isPrefixOf_iff_prefix.mp h).length_le
    rw [kOff_drop _ _ _ this]; simp
  · rfl

/-! ### class-star at the end of a pattern -/

theorem star_end (c : CClass) (n : Nat) (t : List Char) (mx : Option Nat) :
    matchK (.rep (.chr c) 0 mx) t (kOff n t) = .ok (n + takeUpTo mx (span c t)) := by
  rw [rep_chr_zero_nofail c _ (kOff_ne_fail n t)]
  apply kOff_drop
  have := span_le c t
  cases mx with
  | none => exact this
  | some m => simp only [takeUpTo]; omega

theorem plus_end (c : CClass) (n : Nat) (t : List Char) :
    matchK (.rep (.chr c) 1 none) t (kOff n t) =
      if 1 ≤ span c t then .ok (n + span c t) else .fail := by
  cases t with
  | nil => rw [rep_chr_nil]; simp
  | cons x t =>
    rw [rep_chr_cons_succ, span_cons]
    by_cases hc : c.mem x = true
    · simp only [ne_eq, reduceCtorEq, not_false_eq_true, hc, and_self, if_true, Option.map_none,
        kOff_cons, star_end, takeUpTo]
      simp; omega
    · simp [hc]

/-! ### span versus `all` -/

theorem span_append_full (c : CClass) (w rest : List Char)
    (hrest : ∀ x, rest.head? = some x → c.mem x = false) :
    span c (w ++ rest) = w.length ↔ w.all c.mem = true := by
  induction w with
  | nil =>
    simp only [List.nil_append, List.length_nil, List.all_nil, iff_true]
    cases rest with
    | nil => rfl
    | cons x t => rw [span_cons, hrest x rfl]; simp
  | cons a w ih =>
    simp only [List.cons_append, span_cons, List.length_cons, List.all_cons, Bool.and_eq_true]
    by_cases ha : c.mem a = true
    · simp only [ha, if_true, true_and]
      rw [← ih]; omega
    · simp [ha]

theorem span_append_le (c : CClass) (w rest : List Char)
    (hrest : ∀ x, rest.head? = some x → c.mem x = false) :
    span c (w ++ rest) ≤ w.length := by
  induction w with
  | nil =>
    cases rest with
    | nil => simp
    | cons x t => rw [List.nil_append, span_cons, hrest x rfl]; simp
  | cons a w ih =>
    simp only [List.cons_append, span_cons, List.length_cons]
    split <;> omega

end Emboss.Regex
