/-
Closed forms for `matchLen` on the regex shapes that occur in the tokenizer table (C10).
-/
import Emboss.Lemmas.RegexRep
namespace Emboss.Regex

/-- The final continuation of `matchLen`, generalised: `n` characters were consumed
before `t`. -/
def kOff (n : Nat) (t : List Char) : List Char → MRes := fun rest => .ok (n + t.length - rest.length)

theorem matchLen_eq (r : Regex) (s : List Char) : matchLen r s = matchK r s (kOff 0 s) := by
  unfold matchLen
  congr 1
  funext rest
  simp [kOff]

theorem kOff_ne_fail (n : Nat) (t u : List Char) : kOff n t u ≠ .fail := by simp [kOff]

theorem kOff_cons (n : Nat) (x : Char) (t : List Char) : kOff n (x :: t) = kOff (n + 1) t := by
  funext rest; simp only [kOff, List.length_cons]; congr 1; omega

theorem kOff_drop (n : Nat) (t : List Char) (j : Nat) (h : j ≤ t.length) :
    kOff n t (t.drop j) = .ok (n + j) := by
  simp only [kOff, List.length_drop]; congr 1; omega

theorem kOff_drop' (n : Nat) (t : List Char) (j : Nat) (h : j ≤ t.length) :
    kOff n t = kOff (n + j) (t.drop j) := by
  funext rest; simp only [kOff, List.length_drop]; congr 1; omega

@[simp] theorem matchK_seq (a b : Regex) (s : List Char) (k : List Char → MRes) :
    matchK (.seq a b) s k = matchK a s (fun t => matchK b t k) := rfl

@[simp] theorem matchK_eps (s : List Char) (k : List Char → MRes) : matchK .eps s k = k s := rfl

theorem matchK_alt (a b : Regex) (s : List Char) (k : List Char → MRes) :
    matchK (.alt a b) s k = match matchK a s k with | .fail => matchK b s k | x => x := rfl

/-- `c` as a one-character class. -/
def litC (c : Char) : CClass := ⟨false, [.range c.toNat c.toNat]⟩

theorem toNat_inj {a b : Char} (h : a.toNat = b.toNat) : a = b := by
  apply Char.ext
  apply UInt32.toNat_inj.mp
  exact h

@[simp] theorem litC_mem (c x : Char) : (litC c).mem x = (x == c) := by
  simp only [litC, CClass.mem, List.any_cons, List.any_nil, CItem.mem, Bool.or_false, Bool.false_bne]
  by_cases h : x = c
  · subst h; simp
  · have : x.toNat ≠ c.toNat := fun hh => h (toNat_inj hh)
    have hf : (x == c) = false := by simp [h]
    rw [hf]
    simp only [Bool.and_eq_false_iff, decide_eq_false_iff_not]
    omega

/-- A literal prefix followed by `r`, right-nested as the translator emits it. -/
def litThen : List Char → Regex → Regex
  | [], r => r
  | c :: cs, r => .seq (.chr (litC c)) (litThen cs r)

theorem matchK_litThen (l : List Char) (r : Regex) : ∀ (s : List Char) (k : List Char → MRes),
    matchK (litThen l r) s k = if l.isPrefixOf s then matchK r (s.drop l.length) k else .fail := by
  induction l with
  | nil => intro s k; simp [litThen]
  | cons c cs ih =>
    intro s k
    cases s with
    | nil => simp [litThen]
    | cons x t =>
      simp only [litThen, matchK_seq, matchK_chr_cons, litC_mem, List.isPrefixOf, List.length_cons,
        List.drop_succ_cons]
      by_cases h : x = c
      · subst h; simp [ih]
      · have : (c == x) = false := by simp; exact fun hh => h hh.symm
        simp [h, this]

theorem matchK_litRegex (l : List Char) : ∀ (s : List Char) (k : List Char → MRes),
    matchK (litRegex l) s k = if l.isPrefixOf s then k (s.drop l.length) else .fail := by
  induction l with
  | nil => intro s k; simp [litRegex]
  | cons c cs ih =>
    intro s k
    cases cs with
    | nil =>
      cases s with
      | nil => simp [litRegex]
      | cons x t =>
        simp only [litRegex, matchK_chr_cons, List.isPrefixOf, List.length_cons, List.length_nil,
          List.drop_succ_cons, List.drop_zero, Bool.and_true]
        have : CClass.mem ⟨false, [.range c.toNat c.toNat]⟩ x = (litC c).mem x := rfl
        rw [this, litC_mem]
        by_cases h : x = c
        · subst h; simp
        · have : (c == x) = false := by simp; exact fun hh => h hh.symm
          simp [h, this]
    | cons d ds =>
      cases s with
      | nil => simp [litRegex]
      | cons x t =>
        have hc : CClass.mem ⟨false, [.range c.toNat c.toNat]⟩ x = (litC c).mem x := rfl
        simp only [litRegex, matchK_seq, matchK_chr_cons, hc, litC_mem, ih, List.isPrefixOf,
          List.length_cons, List.drop_succ_cons]
        by_cases h : x = c
        · subst h; simp
        · have : (c == x) = false := by simp; exact fun hh => h hh.symm
          simp [h, this]

/-- `str.startswith`. -/
theorem matchLen_litRegex (l s : List Char) :
    matchLen (litRegex l) s = if l.isPrefixOf s then .ok l.length else .fail := by
  rw [matchLen_eq, matchK_litRegex]
  split
  · rename_i h
    have : l.length ≤ s.length := (List.isPrefixOf_iff_prefix.mp h).length_le
    rw [kOff_drop _ _ _ this]; simp
  · rfl

/-! ### class-star at the end of a pattern -/

theorem star_end (c : CClass) (n : Nat) (t : List Char) (mx : Option Nat) :
    matchK (.rep (.chr c) 0 mx) t (kOff n t) = .ok (n + takeUpTo mx (span c t)) := by
  rw [rep_chr_zero_nofail c _ (kOff_ne_fail n t)]
  apply kOff_drop
  have := span_le c t
  cases mx with
  | none => exact this
  | some m => simp only [takeUpTo]; omega

theorem plus_end (c : CClass) (n : Nat) (t : List Char) :
    matchK (.rep (.chr c) 1 none) t (kOff n t) =
      if 1 ≤ span c t then .ok (n + span c t) else .fail := by
  cases t with
  | nil => rw [rep_chr_nil]; simp
  | cons x t =>
    rw [rep_chr_cons_succ, span_cons]
    by_cases hc : c.mem x = true
    · simp only [ne_eq, reduceCtorEq, not_false_eq_true, hc, and_self, if_true, Option.map_none,
        kOff_cons, star_end, takeUpTo]
      simp; omega
    · simp [hc]

/-! ### span versus `all` -/

theorem span_append_full (c : CClass) (w rest : List Char)
    (hrest : ∀ x, rest.head? = some x → c.mem x = false) :
    span c (w ++ rest) = w.length ↔ w.all c.mem = true := by
  induction w with
  | nil =>
    simp only [List.nil_append, List.length_nil, List.all_nil, iff_true]
    cases rest with
    | nil => rfl
    | cons x t => rw [span_cons, hrest x rfl]; simp
  | cons a w ih =>
    simp only [List.cons_append, span_cons, List.length_cons, List.all_cons, Bool.and_eq_true]
    by_cases ha : c.mem a = true
    · simp only [ha, if_true, true_and]
      rw [← ih]; omega
    · simp [ha]

theorem span_append_le (c : CClass) (w rest : List Char)
    (hrest : ∀ x, rest.head? = some x → c.mem x = false) :
    span c (w ++ rest) ≤ w.length := by
  induction w with
  | nil =>
    cases rest with
    | nil => simp
    | cons x t => rw [List.nil_append, span_cons, hrest x rfl]; simp
  | cons a w ih =>
    simp only [List.cons_append, span_cons, List.length_cons]
    split <;> omega

theorem drop_span (c : CClass) (t : List Char) : t.drop (span c t) = t.dropWhile c.mem := by
  induction t with
  | nil => rfl
  | cons x t ih =>
    rw [span_cons, List.dropWhile_cons]
    split
    · simpa using ih
    · rfl

theorem takeWhile_append_full (c : CClass) (w rest : List Char) (hw : w.all c.mem = true)
    (hrest : ∀ x, rest.head? = some x → c.mem x = false) : (w ++ rest).takeWhile c.mem = w := by
  induction w with
  | nil =>
    cases rest with
    | nil => rfl
    | cons x t => simp [hrest x rfl]
  | cons a w ih =>
    simp only [List.all_cons, Bool.and_eq_true] at hw
    simp [hw.1, ih hw.2]

/-- `S* U S*` with `U ⊆ S` in front of something that cannot fail: the first star takes the
whole `S`-run, backs off to the last `U` character, and the second star takes the rest of
the run — so the match is the whole run iff the run contains a `U` character. -/
theorem star_mid_star (S U : CClass) (hsub : ∀ x, U.mem x = true → S.mem x = true)
    (kf : List Char → MRes) (hkf : ∀ t, kf t ≠ .fail) : ∀ t : List Char,
    matchK (.rep (.chr S) 0 none) t
        (fun t' => matchK (.chr U) t' (fun t'' => matchK (.rep (.chr S) 0 none) t'' kf)) =
      if (t.takeWhile S.mem).any U.mem then kf (t.dropWhile S.mem) else .fail := by
  intro t
  induction t with
  | nil => rw [rep_chr_nil]; simp
  | cons x t ih =>
    rw [rep_chr_cons_zero]
    simp only [Option.map_none, ne_eq, reduceCtorEq, not_false_eq_true, true_and]
    by_cases hS : S.mem x = true
    · simp only [hS, if_true, List.takeWhile_cons, List.any_cons, List.dropWhile_cons]
      rw [ih]
      by_cases hany : (t.takeWhile S.mem).any U.mem = true
      · simp only [hany, if_true, Bool.or_true]
        have := hkf (t.dropWhile S.mem)
        split
        · rename_i hf; exact absurd hf this
        · rfl
      · simp only [hany, Bool.false_eq_true, if_false, matchK_chr_cons, Bool.or_false]
        by_cases hU : U.mem x = true
        · simp only [hU, if_true]
          rw [rep_chr_zero_nofail S kf hkf, takeUpTo, drop_span]
        · simp [hU]
    · have hU : U.mem x = false := by
        cases h : U.mem x with
        | false => rfl
        | true => exact absurd (hsub x h) hS
      simp [hS, hU]

/-- The text of a literal equals the run iff the literal matches with the run's length. -/
theorem lit_full (l w rest : List Char) :
    (l.isPrefixOf (w ++ rest) = true ∧ l.length = w.length) ↔ l = w := by
  constructor
  · rintro ⟨hp, hl⟩
    have := List.prefix_iff_eq_take.mp (List.isPrefixOf_iff_prefix.mp hp)
    rw [this, hl]; simp
  · rintro rfl
    exact ⟨List.isPrefixOf_iff_prefix.mpr (List.prefix_append _ _), rfl⟩

theorem litThen_star_value (pre : List Char) (c : CClass) (s : List Char) :
    matchLen (litThen pre (.rep (.chr c) 0 none)) s =
      if pre.isPrefixOf s then .ok (pre.length + span c (s.drop pre.length)) else .fail := by
  rw [matchLen_eq, matchK_litThen]
  split
  · rename_i h
    have hl : pre.length ≤ s.length := (List.isPrefixOf_iff_prefix.mp h).length_le
    rw [kOff_drop' 0 s pre.length hl, star_end]; simp [takeUpTo]
  · rfl

theorem litThen_plus_value (pre : List Char) (c : CClass) (s : List Char) :
    matchLen (litThen pre (.rep (.chr c) 1 none)) s =
      if pre.isPrefixOf s ∧ 1 ≤ span c (s.drop pre.length) then
        .ok (pre.length + span c (s.drop pre.length)) else .fail := by
  rw [matchLen_eq, matchK_litThen]
  by_cases h : pre.isPrefixOf s = true
  · have hl : pre.length ≤ s.length := (List.isPrefixOf_iff_prefix.mp h).length_le
    simp only [h, if_true, true_and]
    rw [kOff_drop' 0 s pre.length hl, plus_end]; simp
  · simp [h]

/-- A literal prefix followed by a class star matches the whole run iff the run starts
with the prefix and continues in the class. -/
theorem litThen_star_full (pre : List Char) (c : CClass) (w rest : List Char)
    (hrest : ∀ x, rest.head? = some x → c.mem x = false) :
    (matchLen (litThen pre (.rep (.chr c) 0 none)) (w ++ rest) = .ok w.length) ↔
      (pre.isPrefixOf w = true ∧ (w.drop pre.length).all c.mem = true) := by
  rw [litThen_star_value]
  constructor
  · intro h
    split at h
    · rename_i hp
      simp only [MRes.ok.injEq] at h
      have hle : pre.length ≤ w.length := by omega
      have hpw : pre.isPrefixOf w = true := by
        have := List.prefix_iff_eq_take.mp (List.isPrefixOf_iff_prefix.mp hp)
        rw [List.take_append_of_le_length hle] at this
        exact List.isPrefixOf_iff_prefix.mpr (this ▸ List.take_prefix _ _)
      refine ⟨hpw, ?_⟩
      rw [List.drop_append_of_le_length hle] at h
      rw [← span_append_full c _ rest hrest]
      simp only [List.length_drop]; omega
    · cases h
  · rintro ⟨hp, hall⟩
    have hle : pre.length ≤ w.length := (List.isPrefixOf_iff_prefix.mp hp).length_le
    have hps : pre.isPrefixOf (w ++ rest) = true :=
      List.isPrefixOf_iff_prefix.mpr ((List.isPrefixOf_iff_prefix.mp hp).trans (List.prefix_append _ _))
    rw [if_pos hps, List.drop_append_of_le_length hle, (span_append_full c _ rest hrest).mpr hall]
    simp only [List.length_drop, MRes.ok.injEq]; omega

end Emboss.Regex
