/-
Assembling the per-view read lemmas over `fieldView`.
-/
import Emboss.Lemmas.ScalarIsBcd
namespace Emboss.Scalar
open Emboss.Bits Emboss.Scalar.Spec

variable {bb : BitBlock} {o w : Nat}

theorem fieldView_isComplete (h : Placed bb o w) (direct : Bool)
    (hd : direct = true → o = 0 ∧ w = bb.c) (ty : Ty) :
    (fieldView ty direct bb o w).isComplete = true := by
  have hw := h.w_pos
  unfold View.isComplete fieldView
  cases ty <;> simp [fieldBuf_ok h direct, fieldBuf_sizeInBits h direct hd] <;> omega

theorem fieldView_uncheckedRead (h : Placed bb o w) (direct : Bool)
    (hd : direct = true → o = 0 ∧ w = bb.c) (ty : Ty) :
    (fieldView ty direct bb o w).uncheckedRead =
      (fieldView ty direct bb o w).decode (fieldBits bb o w) := by
  unfold View.uncheckedRead
  simp only [fieldView, fieldBuf_readUInt h direct hd]

theorem fieldView_ok_of_ne_bcd (h : Placed bb o w) (direct : Bool)
    (hd : direct = true → o = 0 ∧ w = bb.c) (ty : Ty) (hty : ty ≠ .bcd) :
    (fieldView ty direct bb o w).ok = true := by
  have hc := fieldView_isComplete h direct hd ty
  unfold View.ok
  rw [hc]
  simp only [fieldView, fieldBuf_readUInt h direct hd]
  cases ty <;> simp_all

theorem fieldView_read_of_ne_bcd (h : Placed bb o w) (direct : Bool)
    (hd : direct = true → o = 0 ∧ w = bb.c) (ty : Ty) (hty : ty ≠ .bcd) :
    (fieldView ty direct bb o w).read =
      (fieldView ty direct bb o w).decode (fieldBits bb o w) := by
  unfold View.read
  simp only [fieldView, fieldBuf_readUInt h direct hd]

theorem fieldView_bcd_ok (h : Placed bb o w) (direct : Bool)
    (hd : direct = true → o = 0 ∧ w = bb.c) :
    (fieldView .bcd direct bb o w).ok = isBcd bb.W (fieldBits bb o w) := by
  have hc := fieldView_isComplete h direct hd .bcd
  unfold View.ok
  rw [hc]
  simp only [fieldView, fieldBuf_readUInt h direct hd, fieldBuf_W, Bool.true_and]

theorem fieldView_bcd_read (h : Placed bb o w) (direct : Bool)
    (hd : direct = true → o = 0 ∧ w = bb.c) :
    (fieldView .bcd direct bb o w).read =
      if isBcd bb.W (fieldBits bb o w) then some ((bcdToBinary w (fieldBits bb o w) : Nat) : Int)
      else none := by
  have hok := fieldView_bcd_ok h direct hd
  unfold View.read
  rw [hok]
  simp only [fieldView, fieldBuf_readUInt h direct hd, View.decode]

theorem placed_w_le (h : Placed bb o w) : w ≤ 64 := by have := h.fits; have := h.c_hi; omega

theorem placed_w_le_W (h : Placed bb o w) : w ≤ bb.W := by
  have := h.fits; have := placed_W_ge h; omega

theorem placed_VW_le_W (h : Placed bb o w) : leastWidth w ≤ bb.W := by
  unfold BitBlock.W; exact leastWidth_mono (by have := h.fits; omega)

/-- `3·bcdValue + 5 ≤ 5·10ⁿ`: the decimal value of `n` nibbles is below `2·10ⁿ`. -/
theorem bcdValue_bound (n d : Nat) : 3 * bcdValue n d + 5 ≤ 5 * 10 ^ n := by
  induction n generalizing d with
  | zero => simp [bcdValue]
  | succ n ih =>
    have := ih (d / 16)
    have hm := Nat.mod_lt d (show 0 < 16 by decide)
    simp only [bcdValue, Nat.pow_succ]; omega

end Emboss.Scalar
