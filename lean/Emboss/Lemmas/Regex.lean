/-
Lemmas about the backtracking matcher (C10): fuel sufficiency, soundness with respect
to the declarative language.
-/
import Emboss.Model.Regex
import Emboss.Spec.Regex
namespace Emboss.Regex

/-! ### Fuel is never the reason for an answer -/

theorem repK_no_fuel (body : List Char → (List Char → MRes) → MRes)
    (hbody : ∀ s k, (∀ t, k t ≠ .fuel) → body s k ≠ .fuel) :
    ∀ fuel mn mx s k, s.length < fuel → (∀ t, k t ≠ .fuel) → repK body fuel mn mx s k ≠ .fuel := by
  intro fuel
  induction fuel with
  | zero => intro mn mx s k h; omega
  | succ f ih =>
    intro mn mx s k hlen hk
    unfold repK
    split
    · split
      · exact hk s
      · simp
    · have hb := hbody s (fun rest =>
          if rest.length < s.length then repK body f (mn - 1) (mx.map (· - 1)) rest k else .fail)
        (by
          intro t
          by_cases ht : t.length < s.length
          · simp only [ht, if_true]; exact ih _ _ _ _ (by omega) hk
          · simp [ht])
      split
      · split
        · exact hk s
        · simp
      · rename_i x hx
        intro hc
        exact hb hc

theorem matchK_no_fuel (r : Regex) : ∀ s k, (∀ t, k t ≠ .fuel) → matchK r s k ≠ .fuel := by
  induction r with
  | eps => intro s k hk; simpa [matchK] using hk s
  | chr c =>
    intro s k hk
    cases s with
    | nil => simp [matchK]
    | cons x t =>
      simp only [matchK]
      split
      · exact hk t
      · simp
  | seq a b iha ihb =>
    intro s k hk
    simp only [matchK]
    exact iha s _ (fun t => ihb t k hk)
  | alt a b iha ihb =>
    intro s k hk
    simp only [matchK]
    split
    · exact ihb s k hk
    · rename_i x hx
      intro hc
      exact iha s k hk hc
  | rep r mn mx ih =>
    intro s k hk
    simp only [matchK]
    exact repK_no_fuel _ (fun s k hk => ih s k hk) _ _ _ _ _ (by omega) hk
  | eol =>
    intro s k hk
    simp only [matchK]
    split
    · exact hk s
    · simp

/-- The fuel handed to every repetition (`length + 1`) is enough: "out of fuel" is not
a possible answer of `matchLen`. -/
theorem matchLen_no_fuel (r : Regex) (s : List Char) : matchLen r s ≠ .fuel :=
  matchK_no_fuel r s _ (by intro t; simp)

/-! ### Soundness: what the matcher returns is a match of the declarative language -/

def SoundBody (r : Regex) (body : List Char → (List Char → MRes) → MRes) : Prop :=
  ∀ s k n, body s k = .ok n → ∃ pre rest, s = pre ++ rest ∧ Lang r pre rest ∧ k rest = .ok n

theorem repK_sound (r : Regex) (body) (hbody : SoundBody r body) :
    ∀ fuel mn mx, SoundBody (.rep r mn mx) (repK body fuel mn mx) := by
  intro fuel
  induction fuel with
  | zero => intro mn mx s k n h; simp [repK] at h
  | succ f ih =>
    intro mn mx s k n h
    unfold repK at h
    have stop : (if mn = 0 then k s else MRes.fail) = .ok n →
        ∃ pre rest, s = pre ++ rest ∧ Lang (.rep r mn mx) pre rest ∧ k rest = .ok n := by
      intro hstop
      split at hstop
      · rename_i h0
        rw [h0]
        exact ⟨[], s, rfl, .repStop, hstop⟩
      · cases hstop
    split at h
    · exact stop h
    · rename_i hmx
      split at h
      · exact stop h
      · rename_i x hx
        obtain ⟨pre1, rest1, hs, hl1, hk1⟩ := hbody s _ n h
        split at hk1
        · obtain ⟨pre2, rest2, hs2, hl2, hk2⟩ := ih _ _ rest1 k n hk1
          refine ⟨pre1 ++ pre2, rest2, by simp [hs, hs2], ?_, hk2⟩
          subst hs2
          exact .repIter hmx hl1 hl2
        · cases hk1

theorem matchK_sound (r : Regex) : SoundBody r (matchK r) := by
  induction r with
  | eps => intro s k n h; exact ⟨[], s, rfl, .eps s, by simpa [matchK] using h⟩
  | chr c =>
    intro s k n h
    cases s with
    | nil => simp [matchK] at h
    | cons x t =>
      simp only [matchK] at h
      split at h
      · rename_i hm
        exact ⟨[x], t, rfl, .chr c x t hm, h⟩
      · cases h
  | seq a b iha ihb =>
    intro s k n h
    simp only [matchK] at h
    obtain ⟨p1, r1, hs1, hl1, hk1⟩ := iha s _ n h
    obtain ⟨p2, r2, hs2, hl2, hk2⟩ := ihb r1 k n hk1
    subst hs2
    exact ⟨p1 ++ p2, r2, by simp [hs1], .seq hl1 hl2, hk2⟩
  | alt a b iha ihb =>
    intro s k n h
    simp only [matchK] at h
    split at h
    · obtain ⟨p, r', hs, hl, hk⟩ := ihb s k n h
      exact ⟨p, r', hs, .altR hl, hk⟩
    · obtain ⟨p, r', hs, hl, hk⟩ := iha s k n h
      exact ⟨p, r', hs, .altL hl, hk⟩
  | rep r mn mx ih =>
    intro s k n h
    simp only [matchK] at h
    exact repK_sound r _ ih _ _ _ s k n h
  | eol =>
    intro s k n h
    simp only [matchK] at h
    split at h
    · rename_i he
      exact ⟨[], s, rfl, .eol he, h⟩
    · cases h

/-- `re.match` never reports more than the input, and what it reports is a match of the
pattern's language in that context. -/
theorem matchLen_sound (r : Regex) (s : List Char) (n : Nat) (h : matchLen r s = .ok n) :
    MatchesLen r s n := by
  obtain ⟨pre, rest, hs, hl, hk⟩ := matchK_sound r s _ n h
  simp only [MRes.ok.injEq] at hk
  subst hs
  have hn : n = pre.length := by simp at hk; omega
  subst hn
  refine ⟨by simp, ?_⟩
  simpa using hl

theorem matchLen_le (r : Regex) (s : List Char) (n : Nat) (h : matchLen r s = .ok n) :
    n ≤ s.length := (matchLen_sound r s n h).1

end Emboss.Regex
