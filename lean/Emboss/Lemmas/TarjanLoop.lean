import Emboss.Lemmas.TarjanPush
namespace Emboss.Deps

theorem LoopInv.v_mem {g : Graph} {v : Nat} {s0 t : TState} {P : Nat → Prop}
    (h : LoopInv g v s0 t P) : v ∈ t.stack := by
  obtain ⟨seg, hs, _⟩ := h.stk
  simp [hs]

/-- Lowering `lowlink[v]` inside the loop. -/
theorem LoopInv.lower {g : Graph} {v : Nat} {s0 t : TState} {P : Nat → Prop}
    (h : LoopInv g v s0 t P) (x : Nat) (hx : x ≤ lw t v)
    (hy : ∃ y ∈ t.stack, ix t y = x ∧ Reach g v y) : LoopInv g v s0 (setLow v x t) P := by
  refine { inv := h.inv.setLow v x h.v_mem hx hy, old := ?_, vidx := h.vidx, vnew := h.vnew,
           succIdx := h.succIdx, stk := ?_, proc := ?_ }
  · intro w hw
    have hne := indexed_ne h.vnew hw
    simp only [indexed_setLow, ix_setLow, lw_setLow, hne, if_false]
    exact h.old w hw
  · obtain ⟨seg, hs, hseg⟩ := h.stk
    refine ⟨seg, hs, fun w hw => ?_⟩
    obtain ⟨b1, b2, b3, b4, b5, b6⟩ := hseg w hw
    simp only [ix_setLow, lw_setLow, stack_setLow, b2, if_false, if_true]
    exact ⟨b1, b2, b3, b4, by omega, fun y hy he => by have := b6 y hy he; omega⟩
  · intro d hd
    obtain ⟨c1, c2⟩ := h.proc d hd
    simp only [indexed_setLow, ix_setLow, lw_setLow, stack_setLow, if_true]
    exact ⟨c1, fun hm => by have := c2 hm; omega⟩

theorem LoopInv.addProc {g : Graph} {v : Nat} {s0 t : TState} {P : Nat → Prop}
    (h : LoopInv g v s0 t P) (d : Nat) (h1 : indexed t d = true)
    (h2 : d ∈ t.stack → lw t v ≤ ix t d) : LoopInv g v s0 t (fun x => P x ∨ x = d) := by
  refine { h with proc := ?_ }
  intro x hx
  rcases hx with hx | rfl
  · exact h.proc x hx
  · exact ⟨h1, h2⟩

/-- `elif destination_node in nodes_on_stack` branch. -/
theorem LoopInv.stepB {g : Graph} {v : Nat} {s0 t : TState} {P : Nat → Prop}
    (h : LoopInv g v s0 t P) (d : Nat) (he : Edge g v d) (hd : indexed t d = true)
    (hs : d ∈ t.stack) :
    LoopInv g v s0 (setLow v (min (lw t v) (ix t d)) t) (fun x => P x ∨ x = d) := by
  have hlv := (h.inv.low v h.v_mem)
  have h1 : LoopInv g v s0 (setLow v (min (lw t v) (ix t d)) t) P := by
    apply h.lower _ (Nat.min_le_left _ _)
    by_cases hc : lw t v ≤ ix t d
    · rw [Nat.min_eq_left hc]; exact hlv.2
    · rw [Nat.min_eq_right (by omega)]
      exact ⟨d, hs, rfl, .single he⟩
  apply h1.addProc d (by simpa using hd)
  intro _
  simp only [lw_setLow, ix_setLow, if_true]
  exact Nat.min_le_right _ _

/-- `if destination_node not in node_indices` branch, after the recursive call. -/
theorem LoopInv.stepA {g : Graph} {v : Nat} {s0 t t1 : TState} {P : Nat → Prop}
    (hL : LoopInv g v s0 t P) (d : Nat) (he : Edge g v d) (hd : indexed t d = false)
    (hP : Post g d t t1) :
    LoopInv g v s0 (setLow v (min (lw t1 v) (lw t1 d)) t1) (fun x => P x ∨ x = d) := by
  obtain ⟨seg, hstk, hseg⟩ := hL.stk
  obtain ⟨new, hnstk, hnew⟩ := hP.stk
  have hv_t : indexed t v = true := hL.vidx.1
  obtain ⟨hv1a, hv1b, hv1c⟩ := hP.old v hv_t
  have hvstk1 : v ∈ t1.stack := by simp [hnstk, hstk]
  have hlowv := hP.inv.low v hvstk1
  have hvlt : ix t v < t.next := hL.inv.idxLt v hv_t
  have hsorted := hP.inv.sorted
  rw [hnstk, hstk] at hsorted
  have hnew_gt : ∀ y ∈ new, ix t1 v < ix t1 y := by
    intro y hy
    have := (List.pairwise_append.mp hsorted).2.2 y hy v (by simp)
    exact this
  -- d's lowlink is at most its index
  have hdlow : lw t1 d ≤ ix t1 d := by
    rcases hP.vlow with h | h
    · exact (hP.inv.low d h).1
    · omega
  -- the state invariant
  have hinv : Inv g (setLow v (min (lw t1 v) (lw t1 d)) t1) := by
    apply hP.inv.setLow v _ hvstk1 (Nat.min_le_left _ _)
    by_cases hc : lw t1 v ≤ lw t1 d
    · rw [Nat.min_eq_left hc]; exact hlowv.2
    · rw [Nat.min_eq_right (by omega)]
      have hds : d ∈ t1.stack := by
        rcases hP.vlow with h | h
        · exact h
        · have := hP.vidx.2; omega
      obtain ⟨y, hy1, hy2, hy3⟩ := (hP.inv.low d hds).2
      exact ⟨y, hy1, hy2, .step he hy3⟩
  have hmin1 : min (lw t1 v) (lw t1 d) ≤ lw t1 v := Nat.min_le_left _ _
  have hmin2 : min (lw t1 v) (lw t1 d) ≤ lw t1 d := Nat.min_le_right _ _
  refine { inv := hinv, old := ?_, vidx := ?_, vnew := hL.vnew, succIdx := ?_, stk := ?_, proc := ?_ }
  · intro w hw
    have hne := indexed_ne hL.vnew hw
    obtain ⟨a1, a2, a3⟩ := hL.old w hw
    obtain ⟨b1, b2, b3⟩ := hP.old w a1
    simp only [indexed_setLow, ix_setLow, lw_setLow, hne, if_false]
    exact ⟨b1, by omega, by omega⟩
  · simp only [indexed_setLow, ix_setLow]
    exact ⟨hv1a, by rw [hv1b]; exact hL.vidx.2⟩
  · intro w d' hw hws hwv hed
    simp only [indexed_setLow] at hw ⊢
    cases hwt : indexed t w
    · exact hP.succIdx w d' hw hwt hed
    · exact (hP.old d' (hL.succIdx w d' hwt hws hwv hed)).1
  · refine ⟨new ++ seg, by simp [hnstk, hstk], fun w hw => ?_⟩
    simp only [ix_setLow, lw_setLow, stack_setLow, if_true]
    rcases List.mem_append.mp hw with hw | hw
    · obtain ⟨a1, a2, a3, a4, a5⟩ := hnew w hw
      have hwv : w ≠ v := by intro e; subst e; simp [hv_t] at a1
      simp only [hwv, if_false]
      refine ⟨?_, hwv, .step he a2, a3, by omega, fun y hy hey => by have := a5 y hy hey; omega⟩
      cases hs0 : indexed s0 w
      · rfl
      · have := (hL.old w hs0).1; simp [a1] at this
    · obtain ⟨b1, b2, b3, b4, b5, b6⟩ := hseg w hw
      have hwt : indexed t w = true := hL.inv.stkIdx w (by simp [hstk, hw])
      obtain ⟨c1, c2, c3⟩ := hP.old w hwt
      simp only [b2, if_false]
      refine ⟨b1, b2, b3, by omega, by omega, fun y hy hey => ?_⟩
      rw [hnstk] at hy
      rcases List.mem_append.mp hy with hy | hy
      · have := hnew_gt y hy; omega
      · have hyt := hL.inv.stkIdx y hy
        obtain ⟨e1, e2, e3⟩ := hP.old y hyt
        have := b6 y hy hey
        omega
  · intro d' hd'
    simp only [indexed_setLow, ix_setLow, lw_setLow, stack_setLow, if_true]
    rcases hd' with hd' | rfl
    · obtain ⟨c1, c2⟩ := hL.proc d' hd'
      obtain ⟨e1, e2, e3⟩ := hP.old d' c1
      refine ⟨e1, fun hm => ?_⟩
      rw [hnstk] at hm
      rcases List.mem_append.mp hm with hm | hm
      · have := (hnew d' hm).1; simp [c1] at this
      · have := c2 hm; omega
    · exact ⟨hP.vidx.1, fun _ => by omega⟩

end Emboss.Deps
