/-
Lemmas about the write-inference model: the inverse expression is an algebraic inverse over ℤ,
and `invert` succeeds exactly on the ADD/SUB fragment with one field reference.
-/
import Emboss.Spec.WriteInference
namespace Emboss.WInf
open Emboss.WInf.Spec

theorem find_fst (e : Expr) : (find e).1 = refCount e := by
  induction e with
  | const | ref | logical | leaf => simp [find, refCount]
  | un _ a ih => simp only [find, finish, step, refCount]; split <;> simp_all
  | bin _ a b iha ihb => simp only [find, finish, step, refCount]; split <;> simp_all
  | tern _ a b c iha ihb ihc =>
    simp only [find, finish, step, refCount]; split <;> simp_all <;> omega

/-- Expressions without field references evaluate independently of the field values. -/
theorem eval_env_irrel (e : Expr) (h : refCount e = 0) (env env' : Nat → Int) (lv : Int) :
    eval env lv e = eval env' lv e := by
  induction e with
  | const | logical | leaf | un | tern => simp [eval]
  | ref => simp [refCount] at h
  | bin op a b iha ihb =>
    simp only [refCount] at h
    have ha := iha (by omega); have hb := ihb (by omega)
    cases op <;> simp [eval, ha, hb]

/-- The path found in a binary ADD/SUB node with exactly one reference. -/
theorem find_bin (op : Op) (a b : Expr) (i : Nat) (rest : List Nat)
    (h : find (.bin op a b) = (1, i :: rest)) :
    (i = 0 ∧ find a = (1, rest) ∧ refCount b = 0) ∨ (i = 1 ∧ refCount a = 0 ∧ find b = (1, rest)) := by
  have ha := find_fst a; have hb := find_fst b
  simp only [find, finish, step] at h
  rcases hfa : find a with ⟨ca, pa⟩
  rcases hfb : find b with ⟨cb, pb⟩
  rw [hfa] at h ha; rw [hfb] at h hb
  simp only at h ha hb
  by_cases h1 : ca = 1
  · subst h1
    have hcb : cb = 0 := by
      by_cases hc : 0 + 1 + cb = 1
      · omega
      · rw [if_neg hc] at h; simp at h
    subst hcb
    simp at h
    left; exact ⟨h.1.symm, by rw [h.2], hb.symm⟩
  · by_cases hc : 0 + ca + cb = 1
    · rw [if_pos hc] at h
      have hca : ca = 0 := by
        by_cases h0 : ca = 0
        · exact h0
        · exfalso; have : cb = 0 ∨ cb ≥ 1 := by omega
          omega
      subst hca
      have hcb : cb = 1 := by omega
      subst hcb
      simp at h
      right; exact ⟨h.1.symm, ha.symm, by rw [h.2]⟩
    · rw [if_neg hc] at h; simp at h

/-- An empty path with count 1 means the expression *is* the field reference. -/
theorem find_nil (e : Expr) (h : find e = (1, [])) : ∃ x, e = .ref x := by
  cases e with
  | ref x => exact ⟨x, rfl⟩
  | const | logical | leaf => simp [find] at h
  | un n s =>
    exfalso
    rcases hfs : find s with ⟨c, p⟩
    simp only [find, finish, step, hfs] at h
    by_cases h1 : 0 + c = 1
    · rw [if_pos h1] at h
      simp only [Prod.mk.injEq] at h
      rw [if_pos ⟨by omega, trivial⟩] at h; cases h.2
    · rw [if_neg h1] at h; simp only [Prod.mk.injEq] at h; omega
  | bin op a b =>
    exfalso
    rcases hfa : find a with ⟨ca, pa⟩
    rcases hfb : find b with ⟨cb, pb⟩
    simp only [find, finish, step, hfa, hfb] at h
    by_cases h1 : 0 + ca + cb = 1
    · rw [if_pos h1] at h
      simp only [Prod.mk.injEq] at h
      obtain ⟨_, hp⟩ := h
      by_cases h2 : cb = 1 ∧ 0 + ca = 0
      · rw [if_pos h2] at hp; cases hp
      · rw [if_neg h2] at hp
        by_cases h3 : ca = 1 ∧ True
        · rw [if_pos h3] at hp; cases hp
        · have e1 : ca ≠ 1 := fun hc => h3 ⟨hc, trivial⟩
          have e2 : ¬ (cb = 1 ∧ ca = 0) := fun hc => h2 ⟨hc.1, by omega⟩
          omega
    · rw [if_neg h1] at h; simp only [Prod.mk.injEq] at h; omega
  | tern n a b c =>
    exfalso
    rcases hfa : find a with ⟨ca, pa⟩
    rcases hfb : find b with ⟨cb, pb⟩
    rcases hfc : find c with ⟨cc, pc⟩
    simp only [find, finish, step, hfa, hfb, hfc] at h
    by_cases h1 : 0 + ca + cb + cc = 1
    · rw [if_pos h1] at h
      simp only [Prod.mk.injEq] at h
      obtain ⟨_, hp⟩ := h
      by_cases h2 : cc = 1 ∧ 0 + ca + cb = 0
      · rw [if_pos h2] at hp; cases hp
      · rw [if_neg h2] at hp
        by_cases h3 : cb = 1 ∧ 0 + ca = 0
        · rw [if_pos h3] at hp; cases hp
        · rw [if_neg h3] at hp
          by_cases h4 : ca = 1 ∧ True
          · rw [if_pos h4] at hp; cases hp
          · have e1 : ca ≠ 1 := fun hc => h4 ⟨hc, trivial⟩
            have e2 : ¬ (cb = 1 ∧ ca = 0) := fun hc => h3 ⟨hc.1, by omega⟩
            have e3 : ¬ (cc = 1 ∧ ca + cb = 0) := fun hc => h2 ⟨hc.1, by omega⟩
            omega
    · rw [if_neg h1] at h; simp only [Prod.mk.injEq] at h; omega

/-- Everything built by `invertAux` evaluates only if its `res` argument does
(the accumulated result sits in strict position). -/
theorem invertAux_strict (path : List Nat) (sub res : Expr) (r inv : Expr)
    (h : invertAux path sub res = some (r, inv)) (env : Nat → Int) (lv a : Int)
    (hev : eval env lv inv = some a) : ∃ q, eval env lv res = some q := by
  induction path generalizing sub res with
  | nil => simp only [invertAux, Option.some.injEq, Prod.mk.injEq] at h; rw [h.2]; exact ⟨a, hev⟩
  | cons i rest ih =>
    cases sub with
    | bin op s0 s1 =>
      cases op with
      | add =>
        simp only [invertAux] at h
        split at h
        · obtain ⟨q, hq⟩ := ih _ _ h
          simp only [eval] at hq
          cases hr : eval env lv res with
          | none => simp [hr] at hq
          | some q' => exact ⟨q', rfl⟩
        · split at h
          · obtain ⟨q, hq⟩ := ih _ _ h
            simp only [eval] at hq
            cases hr : eval env lv res with
            | none => simp [hr] at hq
            | some q' => exact ⟨q', rfl⟩
          · cases h
      | sub =>
        simp only [invertAux] at h
        split at h
        · obtain ⟨q, hq⟩ := ih _ _ h
          simp only [eval] at hq
          cases hr : eval env lv res with
          | none => simp [hr] at hq
          | some q' => exact ⟨q', rfl⟩
        · split at h
          · obtain ⟨q, hq⟩ := ih _ _ h
            simp only [eval] at hq
            cases hr : eval env lv res with
            | none => cases hs : eval env lv s0 <;> simp [hr, hs] at hq
            | some q' => exact ⟨q', rfl⟩
          · cases h
      | mul => simp [invertAux] at h
      | other => simp [invertAux] at h
    | const | ref | logical | leaf | un | tern => simp [invertAux] at h

/-- Key invariant of the inversion loop: once the field `x` holds the value of the inverse,
the remaining sub-expression evaluates to the accumulated result. -/
theorem invertAux_correct (path : List Nat) (sub res : Expr) (r inv : Expr)
    (hf : find sub = (1, path)) (h : invertAux path sub res = some (r, inv))
    (env : Nat → Int) (lv a : Int) (hev : eval env lv inv = some a) :
    ∃ x, r = .ref x ∧ eval (update env x a) lv sub = eval env lv res := by
  induction path generalizing sub res with
  | nil =>
    simp only [invertAux, Option.some.injEq, Prod.mk.injEq] at h
    obtain ⟨rfl, rfl⟩ := h
    obtain ⟨x, rfl⟩ := find_nil _ hf
    exact ⟨x, rfl, by simp [eval, update, hev]⟩
  | cons i rest ih =>
    cases sub with
    | bin op s0 s1 =>
      rcases find_bin op s0 s1 i rest hf with ⟨rfl, hf0, hc1⟩ | ⟨rfl, hc0, hf1⟩
      · -- reference in the first argument
        cases op with
        | add =>
          simp only [invertAux, if_true] at h
          obtain ⟨x, hx, heq⟩ := ih s0 _ hf0 h
          obtain ⟨q, hq⟩ := invertAux_strict _ _ _ _ _ h env lv a hev
          refine ⟨x, hx, ?_⟩
          simp only [eval] at hq heq ⊢
          rw [heq, eval_env_irrel s1 hc1 (update env x a) env]
          cases hr : eval env lv res <;> cases hs : eval env lv s1 <;> simp_all
          omega
        | sub =>
          simp only [invertAux, if_true] at h
          obtain ⟨x, hx, heq⟩ := ih s0 _ hf0 h
          obtain ⟨q, hq⟩ := invertAux_strict _ _ _ _ _ h env lv a hev
          refine ⟨x, hx, ?_⟩
          simp only [eval] at hq heq ⊢
          rw [heq, eval_env_irrel s1 hc1 (update env x a) env]
          cases hr : eval env lv res <;> cases hs : eval env lv s1 <;> simp_all
          omega
        | mul => simp [invertAux] at h
        | other => simp [invertAux] at h
      · cases op with
        | add =>
          simp only [invertAux, if_true, show ¬ (1 = 0) by decide, if_false] at h
          obtain ⟨x, hx, heq⟩ := ih s1 _ hf1 h
          obtain ⟨q, hq⟩ := invertAux_strict _ _ _ _ _ h env lv a hev
          refine ⟨x, hx, ?_⟩
          simp only [eval] at hq heq ⊢
          rw [heq, eval_env_irrel s0 hc0 (update env x a) env]
          cases hr : eval env lv res <;> cases hs : eval env lv s0 <;> simp_all
          omega
        | sub =>
          simp only [invertAux, if_true, show ¬ (1 = 0) by decide, if_false] at h
          obtain ⟨x, hx, heq⟩ := ih s1 _ hf1 h
          obtain ⟨q, hq⟩ := invertAux_strict _ _ _ _ _ h env lv a hev
          refine ⟨x, hx, ?_⟩
          simp only [eval] at hq heq ⊢
          rw [heq, eval_env_irrel s0 hc0 (update env x a) env]
          cases hr : eval env lv res <;> cases hs : eval env lv s0 <;> simp_all
          omega
        | mul => simp [invertAux] at h
        | other => simp [invertAux] at h
    | const | ref | logical | leaf | un | tern => simp [invertAux] at h

/-- **The inverse is an inverse**: if `_invert_expression` returns `(x, inv)` then storing
`inv($logical_value := v)` in field `x` makes the expression evaluate to `v` (over ℤ). -/
theorem inverse_correct (e r inv : Expr) (h : invert e = some (r, inv))
    (env : Nat → Int) (v a : Int) (hev : eval env v inv = some a) :
    ∃ x, r = .ref x ∧ eval (update env x a) v e = some v := by
  unfold invert findPath at h
  split at h
  · cases h
  · rename_i path hp
    split at hp
    · rename_i h1
      simp only [Option.some.injEq] at hp
      have hf : find e = (1, path) := by rw [← hp, ← h1]
      obtain ⟨x, hx, heq⟩ := invertAux_correct path e .logical r inv hf h env v a hev
      exact ⟨x, hx, by rw [heq]; rfl⟩
    · cases hp

/-- The inverse expression mentions no field (only `$logical_value` and the reference-free
operands), so it evaluates the same in every environment. -/
theorem invertAux_refFree (path : List Nat) (sub res r inv : Expr) (hf : find sub = (1, path))
    (h : invertAux path sub res = some (r, inv)) (hres : refCount res = 0) : refCount inv = 0 := by
  induction path generalizing sub res with
  | nil => simp only [invertAux, Option.some.injEq, Prod.mk.injEq] at h; rw [← h.2]; exact hres
  | cons i rest ih =>
    cases sub with
    | bin op s0 s1 =>
      rcases find_bin op s0 s1 i rest hf with ⟨rfl, hf0, hc1⟩ | ⟨rfl, hc0, hf1⟩
      · cases op with
        | add => simp only [invertAux, if_true] at h; exact ih s0 _ hf0 h (by simp [refCount, hres, hc1])
        | sub => simp only [invertAux, if_true] at h; exact ih s0 _ hf0 h (by simp [refCount, hres, hc1])
        | mul => simp [invertAux] at h
        | other => simp [invertAux] at h
      · cases op with
        | add =>
          simp only [invertAux, if_true, show ¬ (1 = 0) by decide, if_false] at h
          exact ih s1 _ hf1 h (by simp [refCount, hres, hc0])
        | sub =>
          simp only [invertAux, if_true, show ¬ (1 = 0) by decide, if_false] at h
          exact ih s1 _ hf1 h (by simp [refCount, hres, hc0])
        | mul => simp [invertAux] at h
        | other => simp [invertAux] at h
    | const | ref | logical | leaf | un | tern => simp [invertAux] at h

theorem invert_refFree (e r inv : Expr) (h : invert e = some (r, inv)) : refCount inv = 0 := by
  unfold invert findPath at h
  split at h
  · cases h
  · rename_i path hp
    split at hp
    · rename_i h1
      simp only [Option.some.injEq] at hp
      exact invertAux_refFree path e .logical r inv (by rw [← hp, ← h1]) h rfl
    · cases hp

/-! ### `invert` succeeds exactly on the ADD/SUB fragment with one reference -/

theorem invertAux_invertible (path : List Nat) (sub res r inv : Expr) (hf : find sub = (1, path))
    (h : invertAux path sub res = some (r, inv)) : ∃ x, Invertible sub x := by
  induction path generalizing sub res with
  | nil => obtain ⟨x, rfl⟩ := find_nil _ hf; exact ⟨x, .ref x⟩
  | cons i rest ih =>
    cases sub with
    | bin op s0 s1 =>
      rcases find_bin op s0 s1 i rest hf with ⟨rfl, hf0, hc1⟩ | ⟨rfl, hc0, hf1⟩
      · cases op with
        | add =>
          simp only [invertAux, if_true] at h
          obtain ⟨x, hx⟩ := ih s0 _ hf0 h; exact ⟨x, .addL hx hc1⟩
        | sub =>
          simp only [invertAux, if_true] at h
          obtain ⟨x, hx⟩ := ih s0 _ hf0 h; exact ⟨x, .subL hx hc1⟩
        | mul => simp [invertAux] at h
        | other => simp [invertAux] at h
      · cases op with
        | add =>
          simp only [invertAux, if_true, show ¬ (1 = 0) by decide, if_false] at h
          obtain ⟨x, hx⟩ := ih s1 _ hf1 h; exact ⟨x, .addR hc0 hx⟩
        | sub =>
          simp only [invertAux, if_true, show ¬ (1 = 0) by decide, if_false] at h
          obtain ⟨x, hx⟩ := ih s1 _ hf1 h; exact ⟨x, .subR hc0 hx⟩
        | mul => simp [invertAux] at h
        | other => simp [invertAux] at h
    | const | ref | logical | leaf | un | tern => simp [invertAux] at h

theorem find_of_zero (e : Expr) (h : refCount e = 0) : ∃ p, find e = (0, p) := by
  have := find_fst e
  rcases hf : find e with ⟨c, p⟩
  rw [hf] at this; simp only at this
  exact ⟨p, by rw [this, h]⟩

theorem invertible_invertAux {e : Expr} {x : Nat} (hi : Invertible e x) :
    ∃ path, find e = (1, path) ∧ ∀ res, ∃ inv, invertAux path e res = some (.ref x, inv) := by
  induction hi with
  | ref x => exact ⟨[], rfl, fun res => ⟨res, rfl⟩⟩
  | @addL a b x _ hb ih =>
    obtain ⟨pa, hfa, hinv⟩ := ih
    obtain ⟨pb, hfb⟩ := find_of_zero b hb
    refine ⟨0 :: pa, by simp [find, step, finish, hfa, hfb], fun res => ?_⟩
    simp only [invertAux, if_true]; exact hinv _
  | @addR a b x ha _ ih =>
    obtain ⟨pb, hfb, hinv⟩ := ih
    obtain ⟨pa, hfa⟩ := find_of_zero a ha
    refine ⟨1 :: pb, by simp [find, step, finish, hfa, hfb], fun res => ?_⟩
    simp only [invertAux, show ¬ (1 = 0) by decide, if_false, if_true]; exact hinv _
  | @subL a b x _ hb ih =>
    obtain ⟨pa, hfa, hinv⟩ := ih
    obtain ⟨pb, hfb⟩ := find_of_zero b hb
    refine ⟨0 :: pa, by simp [find, step, finish, hfa, hfb], fun res => ?_⟩
    simp only [invertAux, if_true]; exact hinv _
  | @subR a b x ha _ ih =>
    obtain ⟨pb, hfb, hinv⟩ := ih
    obtain ⟨pa, hfa⟩ := find_of_zero a ha
    refine ⟨1 :: pb, by simp [find, step, finish, hfa, hfb], fun res => ?_⟩
    simp only [invertAux, show ¬ (1 = 0) by decide, if_false, if_true]; exact hinv _

/-- `_invert_expression` succeeds **exactly** on the fragment: it fails iff the expression is
not an ADD/SUB chain over a single field reference. -/
theorem invert_isSome_iff (e : Expr) :
    (∃ x inv, invert e = some (.ref x, inv)) ↔ ∃ x, Invertible e x := by
  constructor
  · rintro ⟨x, inv, h⟩
    unfold invert findPath at h
    split at h
    · cases h
    · rename_i path hp
      split at hp
      · rename_i h1
        simp only [Option.some.injEq] at hp
        exact invertAux_invertible path e .logical _ inv (by rw [← hp, ← h1]) h
      · cases hp
  · rintro ⟨x, hi⟩
    obtain ⟨path, hf, hinv⟩ := invertible_invertAux hi
    obtain ⟨inv, h⟩ := hinv .logical
    refine ⟨x, inv, ?_⟩
    unfold invert findPath
    simp [hf, h]

theorem invertAux_fst_ref (path : List Nat) (sub res r inv : Expr) (hf : find sub = (1, path))
    (h : invertAux path sub res = some (r, inv)) : ∃ x, r = .ref x := by
  induction path generalizing sub res with
  | nil =>
    obtain ⟨x, rfl⟩ := find_nil _ hf
    simp only [invertAux, Option.some.injEq, Prod.mk.injEq] at h; exact ⟨x, h.1.symm⟩
  | cons i rest ih =>
    cases sub with
    | bin op s0 s1 =>
      rcases find_bin op s0 s1 i rest hf with ⟨rfl, hf0, _⟩ | ⟨rfl, _, hf1⟩
      · cases op with
        | add => simp only [invertAux, if_true] at h; exact ih s0 _ hf0 h
        | sub => simp only [invertAux, if_true] at h; exact ih s0 _ hf0 h
        | mul => simp [invertAux] at h
        | other => simp [invertAux] at h
      · cases op with
        | add =>
          simp only [invertAux, if_true, show ¬ (1 = 0) by decide, if_false] at h
          exact ih s1 _ hf1 h
        | sub =>
          simp only [invertAux, if_true, show ¬ (1 = 0) by decide, if_false] at h
          exact ih s1 _ hf1 h
        | mul => simp [invertAux] at h
        | other => simp [invertAux] at h
    | const | ref | logical | leaf | un | tern => simp [invertAux] at h

/-- `invert` never returns anything but a field reference as its first component. -/
theorem invert_fst_ref (e r inv : Expr) (h : invert e = some (r, inv)) : ∃ x, r = .ref x := by
  unfold invert findPath at h
  split at h
  · cases h
  · rename_i path hp
    split at hp
    · rename_i h1
      simp only [Option.some.injEq] at hp
      exact invertAux_fst_ref path e .logical r inv (by rw [← hp, ← h1]) h
    · cases hp

/-! ### Write methods (the generated virtual write methods: `Lemmas/WriteInferenceCpp.lean`) -/

/-- **Aliases**: `_add_write_method` gives `alias x` only to a virtual field that is exactly
the reference `x` (no `[requires]`) of a field of the structure that is itself writable, and
`transform x body` only with the `body` computed by `_invert_expression` onto a writable
field; so a write through an alias chain always lands on a physical field, possibly through
one or more transforms. -/
theorem alias_write (fields : List Field) (fuel i : Nat) :
    (∀ x, writeMethod fields (fuel + 1) i = .alias x →
      fields[i]? = some (.virtual (.ref x) false) ∧ x < fields.length ∧
      writeMethod fields fuel x ≠ .readOnly ∧ writeMethod fields fuel x ≠ .outOfFuel) ∧
    (∀ x body, writeMethod fields (fuel + 1) i = .transform x body →
      ∃ rt rq, fields[i]? = some (.virtual rt rq) ∧ invert rt = some (.ref x, body) ∧
        x < fields.length ∧ writeMethod fields fuel x ≠ .readOnly ∧
        writeMethod fields fuel x ≠ .outOfFuel) := by
  have hvia : ∀ (x : Nat) (result out : WriteMethod),
      viaTarget fields (writeMethod fields fuel) x result = out → out ≠ .readOnly →
      out ≠ .outOfFuel → out = result ∧ x < fields.length ∧
        writeMethod fields fuel x ≠ .readOnly ∧ writeMethod fields fuel x ≠ .outOfFuel := by
    intro x result out h h1 h2
    unfold viaTarget at h
    cases hfx : fields[x]? with
    | none => rw [hfx] at h; exact absurd h.symm h1
    | some fx =>
      have hlt : x < fields.length := by
        rcases Nat.lt_or_ge x fields.length with hl | hl
        · exact hl
        · rw [List.getElem?_eq_none hl] at hfx; cases hfx
      rw [hfx] at h
      cases hw : writeMethod fields fuel x <;> rw [hw] at h <;> simp only at h <;>
        first
          | exact absurd h.symm h1
          | exact absurd h.symm h2
          | exact ⟨h.symm, hlt, by simp, by simp⟩
  constructor
  · intro x h
    simp only [writeMethod] at h
    cases hfi : fields[i]? with
    | none => simp [hfi] at h
    | some f =>
      cases f with
      | physical => simp [hfi] at h
      | «virtual» rt rq =>
        simp only [hfi] at h
        split at h
        · obtain ⟨he, hlt, hn1, hn2⟩ := hvia _ _ _ h (by simp) (by simp)
          cases he
          exact ⟨rfl, hlt, hn1, hn2⟩
        · split at h
          · obtain ⟨he, _⟩ := hvia _ _ _ h (by simp) (by simp)
            cases he
          · cases h
  · intro x body h
    simp only [writeMethod] at h
    cases hfi : fields[i]? with
    | none => simp [hfi] at h
    | some f =>
      cases f with
      | physical => simp [hfi] at h
      | «virtual» rt rq =>
        simp only [hfi] at h
        refine ⟨rt, rq, rfl, ?_⟩
        split at h
        · obtain ⟨he, _⟩ := hvia _ _ _ h (by simp) (by simp)
          cases he
        · split at h
          · rename_i hinv
            obtain ⟨he, hlt, hn1, hn2⟩ := hvia _ _ _ h (by simp) (by simp)
            cases he
            exact ⟨hinv, hlt, hn1, hn2⟩
          · cases h

end Emboss.WInf
