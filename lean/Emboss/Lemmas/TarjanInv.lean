import Emboss.Lemmas.TarjanBasic
namespace Emboss.Deps

/-- State invariant of `_find_cycles` between any two statements of `strong_connect`
that the model separates. -/
structure Inv (g : Graph) (s : TState) : Prop where
  onst : s.onStack = s.stack
  sorted : s.stack.Pairwise (fun a b => ix s b < ix s a)
  stkIdx : ∀ w ∈ s.stack, indexed s w = true
  idxLt : ∀ w, indexed s w = true → ix s w < s.next
  low : ∀ w ∈ s.stack, lw s w ≤ ix s w ∧ ∃ y ∈ s.stack, ix s y = lw s w ∧ Reach g w y
  doneClosed : ∀ w d, indexed s w = true → w ∉ s.stack → Edge g w d →
    indexed s d = true ∧ d ∉ s.stack
  compsOk : ∀ C ∈ s.comps, (∀ a ∈ C, indexed s a = true ∧ a ∉ s.stack) ∧ IsSCC g C ∧ C.Nodup ∧
    (∀ a ∈ C, cyclic g a)
  compsDisj : s.comps.Pairwise (fun C D => ∀ a ∈ C, a ∉ D)
  compsAll : ∀ w, indexed s w = true → w ∉ s.stack → cyclic g w → ∃ C ∈ s.comps, w ∈ C
  noOof : s.oof = false

/-- What one call `strong_connect(v)` achieves (from `s` to `s'`). -/
structure Post (g : Graph) (v : Nat) (s s' : TState) : Prop where
  inv : Inv g s'
  old : ∀ w, indexed s w = true → indexed s' w = true ∧ ix s' w = ix s w ∧ lw s' w = lw s w
  vidx : indexed s' v = true ∧ ix s' v = s.next
  succIdx : ∀ w d, indexed s' w = true → indexed s w = false → Edge g w d → indexed s' d = true
  stk : ∃ new, s'.stack = new ++ s.stack ∧ ∀ w ∈ new, indexed s w = false ∧ Reach g v w ∧
    lw s' w < ix s' w ∧ lw s' v ≤ lw s' w ∧ ∀ y ∈ s'.stack, Edge g w y → lw s' v ≤ ix s' y
  vlow : v ∈ s'.stack ∨ lw s' v = ix s' v

def SCSpec (g : Graph) (fuel : Nat) (rec : Nat → TState → TState) : Prop :=
  ∀ v s, Inv g s → indexed s v = false → v ∈ keys g → unvisited g s ≤ fuel → Post g v s (rec v s)

/-- Invariant of the `for destination_node in graph[node]` loop of the call for `v`
entered in state `s0`; `P` = the destinations already processed. -/
structure LoopInv (g : Graph) (v : Nat) (s0 t : TState) (P : Nat → Prop) : Prop where
  inv : Inv g t
  old : ∀ w, indexed s0 w = true → indexed t w = true ∧ ix t w = ix s0 w ∧ lw t w = lw s0 w
  vidx : indexed t v = true ∧ ix t v = s0.next
  vnew : indexed s0 v = false
  succIdx : ∀ w d, indexed t w = true → indexed s0 w = false → w ≠ v → Edge g w d →
    indexed t d = true
  stk : ∃ seg, t.stack = seg ++ v :: s0.stack ∧ ∀ w ∈ seg, indexed s0 w = false ∧ w ≠ v ∧
    Reach g v w ∧ lw t w < ix t w ∧ lw t v ≤ lw t w ∧ ∀ y ∈ t.stack, Edge g w y → lw t v ≤ ix t y
  proc : ∀ d, P d → indexed t d = true ∧ (d ∈ t.stack → lw t v ≤ ix t d)

theorem LoopInv.mono {g : Graph} {v : Nat} {s0 t : TState} {P Q : Nat → Prop}
    (h : LoopInv g v s0 t P) (hq : ∀ d, Q d → P d) : LoopInv g v s0 t Q :=
  { h with proc := fun d hd => h.proc d (hq d hd) }

/-- Lowering `lowlink[v]` to the index of a stack node reachable from `v` keeps `Inv`. -/
theorem Inv.setLow {g : Graph} {t : TState} (h : Inv g t) (v x : Nat) (hv : v ∈ t.stack)
    (hx : x ≤ lw t v) (hy : ∃ y ∈ t.stack, ix t y = x ∧ Reach g v y) : Inv g (setLow v x t) := by
  refine { onst := h.onst, sorted := h.sorted, stkIdx := h.stkIdx, idxLt := h.idxLt, low := ?_,
           doneClosed := h.doneClosed, compsOk := h.compsOk, compsDisj := h.compsDisj,
           compsAll := h.compsAll, noOof := h.noOof }
  intro w hw
  simp only [stack_setLow] at hw ⊢
  simp only [lw_setLow, ix_setLow]
  by_cases hwv : w = v
  · subst hwv
    simp only [if_true]
    have := (h.low w hw).1
    exact ⟨by omega, hy⟩
  · simp only [hwv, if_false]
    exact h.low w hw

end Emboss.Deps
