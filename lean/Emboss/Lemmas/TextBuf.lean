/-
Lemmas for the C04 text-buffer theorem, part 1: the access-trace model (Model/TextBuf.lean) and
`writeInt` (Model/Text.lean) agree — the trace is the NUL store, then `(writeInt …).length`
character stores at consecutive descending indices, then the read start.
-/
import Emboss.Model.TextBuf

namespace Emboss.Text
open Emboss.Generated.TextBuf

/-- The header had the shape harness/translate/textbuf.py understands (otherwise the numbers of
Generated/TextBuf.lean mean nothing and the obligations below are open again). -/
theorem textBuf_parsed : parsed = true := by decide

theorem BufSt.puts_succ (n : Nat) (s : BufSt) : (s.puts n).put = s.puts (n + 1) := rfl

theorem BufSt.puts_add (s : BufSt) (m : Nat) : ∀ n, (s.puts m).puts n = s.puts (m + n)
  | 0 => rfl
  | n + 1 => by
    show ((s.puts m).puts n).put = (s.puts (m + n)).put
    rw [BufSt.puts_add s m n]

theorem BufSt.puts_next (s : BufSt) : ∀ n, (s.puts n).next = s.next - (n : Int)
  | 0 => by simp [BufSt.puts]
  | n + 1 => by
    show (s.puts n).next - 1 = _
    rw [BufSt.puts_next s n]; omega

/-- `n` stores from `s` on touch `s.next, s.next - 1, …, s.next - (n-1)` (most recent first in the
state, hence the `reverse`). -/
theorem BufSt.puts_trace (s : BufSt) : ∀ n,
    (s.puts n).trace = ((List.range n).map (fun (k : Nat) => s.next - (k : Int))).reverse ++ s.trace
  | 0 => by simp [BufSt.puts]
  | n + 1 => by
    show (s.puts n).next :: (s.puts n).trace = _
    rw [BufSt.puts_next s n, BufSt.puts_trace s n, List.range_succ]
    simp

/-- Simulation: the state reached after as many stores as `buf` has characters is carried by
the loop to the state after as many stores as `writeLoop … buf` has characters. -/
theorem loopTrace_eq (b : Nat) (g : Bool) (s : BufSt) :
    ∀ (v c : Nat) (buf : List Char),
      loopTrace b g v c (s.puts buf.length) = s.puts (writeLoop b g v c buf).length := by
  intro v
  induction v using Nat.strongRecOn with
  | _ v ih =>
    intro c buf
    unfold loopTrace writeLoop
    by_cases h0 : v = 0 ∨ b < 2
    · simp only [h0, dite_true]
    · simp only [h0, dite_false]
      have hlt : v / b < v := Nat.div_lt_self (by omega) (by omega)
      by_cases hs : c ≠ 0 ∧ c % groupSize b = 0 ∧ g = true
      · rw [if_pos hs, if_pos hs]
        exact ih (v / b) hlt (c + 1) (digitChar (v % b) :: '_' :: buf)
      · rw [if_neg hs, if_neg hs]
        exact ih (v / b) hlt (c + 1) (digitChar (v % b) :: buf)

theorem bodyTrace_eq (T : IntTy) (x : Int) (b : Nat) (g : Bool) (s : BufSt) :
    bodyTrace T x b g s = s.puts (writeBody T x b g).length := by
  unfold bodyTrace writeBody
  simp only
  by_cases hx0 : x = 0
  · subst hx0
    simp only [if_true, show ¬ ((0 : Int) < 0) by omega, if_false]
    exact loopTrace_eq b g s _ 0 ['0']
  · simp only [hx0, if_false]
    split
    · split
      · exact loopTrace_eq b g s _ 1 [_]
      · exact loopTrace_eq b g s _ 0 []
    · exact loopTrace_eq b g s _ 0 []

theorem writeIntState_eq (size : Nat) (T : IntTy) (x : Int) (base : Base) (g : Bool) :
    writeIntState size T x base g = (bufInit size).puts (writeInt T x base g).length := by
  unfold writeIntState writeInt signTrace prefixTrace
  rw [bodyTrace_eq]
  simp only
  cases base <;> by_cases hneg : x < 0 <;>
    simp only [hneg, if_true, if_false, basePrefix, BufSt.puts_succ, List.length_cons,
      List.length_append, List.length_nil, List.nil_append] <;>
    congr 1 <;> omega

/-- **Trace = NUL store, then one store per character of `writeInt`, consecutively descending
from `size - firstBack`, then the read start.**  (`nulBack`, `firstBack` from the header.) -/
theorem writeIntTrace_eq (size : Nat) (T : IntTy) (x : Int) (base : Base) (g : Bool) :
    writeIntTrace size T x base g =
      ((size : Int) - (nulBack : Int)) ::
        ((List.range (writeInt T x base g).length).map
            (fun (k : Nat) => (size : Int) - (firstBack : Int) - (k : Int)) ++
          [1 + ((size : Int) - (firstBack : Int) - ((writeInt T x base g).length : Int))]) := by
  unfold writeIntTrace
  simp only [writeIntState_eq, BufSt.puts_next, BufSt.puts_trace, bufInit]
  simp

/-- The number of character stores (everything but the NUL store and the final read). -/
theorem writeIntTrace_length (size : Nat) (T : IntTy) (x : Int) (base : Base) (g : Bool) :
    (writeIntTrace size T x base g).length = (writeInt T x base g).length + 2 := by
  rw [writeIntTrace_eq]; simp

end Emboss.Text
