/-
The synthesised size expression evaluates to at least the end of every present field.
-/
import Emboss.Spec.BoundsSize
import Emboss.Lemmas.BoundsNodes
namespace Emboss.Bounds

theorem evalList_mem {ρ : Env} : ∀ {es : List Expr} {vs : List CVal}, evalList ρ es = some vs →
    ∀ e ∈ es, ∀ x, eval ρ e = some x → x ∈ vs
  | [], _, _, e, he, _, _ => nomatch he
  | e0 :: es, vs, h, e, he, x, hx => by
    simp only [evalList] at h
    split at h
    · rename_i v vs' hv hvs
      cases h
      rcases List.mem_cons.mp he with rfl | hm
      · rw [hv] at hx; cases hx; exact List.mem_cons_self
      · exact List.mem_cons_of_mem _ (evalList_mem hvs e hm x hx)
    · cases h

theorem valsInts_mem : ∀ {vs : List CVal} {l : List Int}, valsInts vs = some l →
    ∀ y, CVal.int y ∈ vs → y ∈ l
  | [], _, _, y, hy => nomatch hy
  | .int v :: r, l, h, y, hy => by
    simp only [valsInts, Option.map_eq_some_iff] at h
    obtain ⟨l', hl', rfl⟩ := h
    rcases List.mem_cons.mp hy with h1 | hm
    · cases h1; exact List.mem_cons_self
    · exact List.mem_cons_of_mem _ (valsInts_mem hl' y hm)
  | .bool _ :: _, _, h, _, _ => by simp [valsInts] at h
  | .enum _ :: _, _, h, _, _ => by simp [valsInts] at h

/-- the run-time size is ≥ 0 and ≥ the end of every present field -/
theorem sizeExpr_ge {ρ : Env} {fs : List PField} {v : Int}
    (hev : eval ρ (sizeExpr fs) = some (.int v)) :
    0 ≤ v ∧ ∀ f ∈ fs, ∀ s z : Int, eval ρ f.cond = some (.bool true) →
      eval ρ f.start = some (.int s) → eval ρ f.size = some (.int z) → s + z ≤ v := by
  simp only [sizeExpr, eval] at hev
  split at hev
  · rename_i vs hvs
    split at hev
    · rename_i l hl
      simp only [Option.map_eq_some_iff] at hev
      obtain ⟨m, hm, hmv⟩ := hev
      cases hmv
      obtain ⟨_, hge⟩ := listMax_isMax hm
      have mem : ∀ e ∈ Expr.const 0 :: fs.map sizeClause, ∀ y, eval ρ e = some (.int y) → y ≤ v :=
        fun e he y hy => hge y (valsInts_mem hl y (evalList_mem hvs e he _ hy))
      refine ⟨mem (.const 0) List.mem_cons_self 0 rfl, ?_⟩
      intro f hf s z hc hs hz
      apply mem (sizeClause f) (List.mem_cons_of_mem _ (List.mem_map.mpr ⟨f, hf, rfl⟩))
      simp [sizeClause, eval, hc, hs, hz, evalBin]
    · cases hev
  · cases hev

end Emboss.Bounds
