import Emboss.Lemmas.Deps
import Emboss.Lemmas.TarjanMain
namespace Emboss.Deps

/-! ### `C15_order_least`: the ordering is the lexicographically least topological order -/

theorem pickFirst_sublist {deps : DepFn} {added needed : List Nat} {f : Nat} {rest : List Nat}
    (h : pickFirst deps added needed = some (f, rest)) : rest.Sublist needed := by
  induction needed generalizing f rest with
  | nil => simp [pickFirst] at h
  | cons a t ih =>
    unfold pickFirst at h
    split at h
    · cases h; exact List.sublist_cons_self _ _
    · split at h
      · cases h
      · rename_i g r hg
        cases h
        exact (ih hg).cons_cons a

/-- In a list sorted by source position the picked field is the least ready one. -/
theorem pickFirst_min {deps : DepFn} {added needed : List Nat} {f : Nat} {rest : List Nat}
    (hs : needed.Pairwise (· < ·)) (h : pickFirst deps added needed = some (f, rest)) :
    ∀ x ∈ needed, ready deps added x = true → f ≤ x := by
  induction needed generalizing f rest with
  | nil => simp [pickFirst] at h
  | cons a t ih =>
    obtain ⟨h1, h2⟩ := List.pairwise_cons.mp hs
    unfold pickFirst at h
    split at h
    · cases h
      intro x hx _
      rcases List.mem_cons.mp hx with rfl | hx
      · exact Nat.le_refl _
      · exact Nat.le_of_lt (h1 x hx)
    · rename_i hna
      split at h
      · cases h
      · rename_i g r hg
        cases h
        intro x hx hr
        rcases List.mem_cons.mp hx with rfl | hx
        · exact absurd hr hna
        · exact ih h2 hg x hx hr

theorem orderAux_least (deps : DepFn) (fuel : Nat) (added needed p : List Nat)
    (hs : needed.Pairwise (· < ·)) (hf : needed.length ≤ fuel) (hp : p.Perm needed)
    (ht : TopoFrom deps added p) : LexLe (orderAux deps fuel added needed) p := by
  induction fuel generalizing added needed p with
  | zero =>
    have : needed = [] := List.eq_nil_of_length_eq_zero (by omega)
    subst this
    simp [orderAux]; exact .nil _
  | succ n ih =>
    cases p with
    | nil =>
      have : needed = [] := by simpa using hp.symm
      subst this
      rw [orderAux_nil]; exact .nil _
    | cons q p' =>
      have hq : ready deps added q = true := (ready_iff _ _ _).mpr ht.1
      have hqm : q ∈ needed := hp.subset (List.mem_cons_self ..)
      unfold orderAux
      split
      · rename_i hnone
        have := pickFirst_none hnone q hqm
        simp [hq] at this
      · rename_i f rest hpick
        have hle := pickFirst_min hs hpick q hqm hq
        rcases Nat.lt_or_eq_of_le hle with hlt | heq
        · exact .lt _ _ hlt
        · subst heq
          have hperm := pickFirst_perm hpick
          have hl := pickFirst_length hpick
          have h1 : p'.Perm rest := (hp.trans hperm).cons_inv
          exact .eq _ (ih (f :: added) rest p' (hs.sublist (pickFirst_sublist hpick)) (by omega) h1 ht.2)

/-! ### An acyclic reference graph never makes the ordering loop stop early -/

/-- Pigeonhole, in the form needed: if every element of a non-empty finite set has an
edge into the set, the graph has a cycle. -/
theorem cycle_of_no_sink {g : Graph} (S : List Nat)
    (h : ∀ x ∈ S, ∃ d ∈ S, Edge g x d) :
    ∀ (n : Nat) (vis : List Nat) (x : Nat), x ∈ S → x ∉ vis → (∀ v ∈ vis, ReachP g v x) →
      S.countP (fun s => !vis.contains s) ≤ n → ∃ a, cyclic g a := by
  intro n
  induction n with
  | zero =>
    intro vis x hx hxv _ hm
    have : 0 < S.countP (fun s => !vis.contains s) := by
      rw [List.countP_pos_iff]
      exact ⟨x, hx, by simpa using hxv⟩
    omega
  | succ n ih =>
    intro vis x hx hxv hreach hm
    obtain ⟨d, hd, he⟩ := h x hx
    by_cases hdx : d = x
    · subst hdx; exact ⟨d, .single he⟩
    · by_cases hdv : d ∈ vis
      · exact ⟨x, .step he (hreach d hdv)⟩
      · apply ih (x :: vis) d hd
        · simp [hdx, hdv]
        · intro v hv
          rcases List.mem_cons.mp hv with rfl | hv
          · exact .single he
          · exact (hreach v hv).trans_reach (.single he)
        · have := countP_lt_of_imp (p := fun s => !(x :: vis).contains s)
            (q := fun s => !vis.contains s) S
            (fun s hs => by
              simp only [List.contains_cons, Bool.or_eq_false_iff,
                Bool.not_eq_eq_eq_not, Bool.not_true] at hs ⊢
              exact hs.2)
            x hx (by simp) (by simpa using hxv)
          omega

theorem orderAux_total_of_acyclic (g : Graph) (hac : ∀ a, ¬ cyclic g a) (fuel : Nat)
    (added needed : List Nat) (hf : needed.length ≤ fuel)
    (hd : ∀ x ∈ needed, ∀ d ∈ succs g x, d ∈ needed ∨ d ∈ added) :
    (orderAux (succs g) fuel added needed).length = needed.length := by
  induction fuel generalizing added needed with
  | zero =>
    have : needed = [] := List.eq_nil_of_length_eq_zero (by omega)
    subst this; simp [orderAux]
  | succ n ih =>
    cases hn : needed with
    | nil => simp [orderAux, pickFirst]
    | cons a t =>
      subst hn
      unfold orderAux
      split
      · rename_i hnone
        exfalso
        have hstuck : ∀ x ∈ a :: t, ∃ d ∈ a :: t, Edge g x d := by
          intro x hx
          have hnr := pickFirst_none hnone x hx
          have : ¬ ∀ d ∈ succs g x, d ∈ added := fun hall => by
            have := (ready_iff (succs g) added x).mpr hall
            simp [hnr] at this
          have hex : ∃ d, d ∈ succs g x ∧ d ∉ added := by
            apply Classical.byContradiction
            intro hcon
            apply this
            intro d hd'
            apply Classical.byContradiction
            intro hda
            exact hcon ⟨d, hd', hda⟩
          obtain ⟨d, hds, hda⟩ := hex
          rcases hd x hx d hds with h | h
          · exact ⟨d, h, hds⟩
          · exact absurd h hda
        obtain ⟨c, hc⟩ := cycle_of_no_sink (a :: t) hstuck _ [] a (by simp) (by simp) (by simp)
          (Nat.le_refl _)
        exact hac c hc
      · rename_i f rest hpick
        have hperm := pickFirst_perm hpick
        have hl := pickFirst_length hpick
        have := ih (f :: added) rest (by simp only [List.length_cons] at hf hl; omega) (by
          intro x hx d hdx
          rcases hd x (hperm.symm.subset (List.mem_cons_of_mem _ hx)) d hdx with h | h
          · rcases List.mem_cons.mp (hperm.subset h) with rfl | h
            · exact .inr (List.mem_cons_self ..)
            · exact .inl h
          · exact .inr (List.mem_cons_of_mem _ h))
        simp only [List.length_cons, this, hl]

/-! ### Sorting (error construction) -/

theorem insertSorted_perm {α} (le : α → α → Bool) (x : α) (l : List α) :
    (insertSorted le x l).Perm (x :: l) := by
  induction l with
  | nil => exact .refl _
  | cons y ys ih =>
    unfold insertSorted
    split
    · exact .refl _
    · exact (ih.cons y).trans (.swap _ _ _)

theorem isort_perm {α} (le : α → α → Bool) (l : List α) : (isort le l).Perm l := by
  induction l with
  | nil => exact .refl _
  | cons x xs ih => exact (insertSorted_perm le x _).trans (ih.cons x)

theorem insertSorted_sorted {α} (le : α → α → Bool) (htot : ∀ a b, le a b = true ∨ le b a = true)
    (htr : ∀ a b c, le a b = true → le b c = true → le a c = true) (x : α) (l : List α)
    (h : l.Pairwise (fun a b => le a b = true)) :
    (insertSorted le x l).Pairwise (fun a b => le a b = true) := by
  induction l with
  | nil => simp [insertSorted]
  | cons y ys ih =>
    obtain ⟨h1, h2⟩ := List.pairwise_cons.mp h
    unfold insertSorted
    split
    · rename_i hxy
      refine List.pairwise_cons.mpr ⟨fun b hb => ?_, h⟩
      rcases List.mem_cons.mp hb with rfl | hb
      · exact hxy
      · exact htr _ _ _ hxy (h1 b hb)
    · rename_i hxy
      have hyx : le y x = true := (htot x y).resolve_left hxy
      refine List.pairwise_cons.mpr ⟨fun b hb => ?_, ih h2⟩
      rcases List.mem_cons.mp ((insertSorted_perm le x ys).subset hb) with rfl | hb
      · exact hyx
      · exact h1 b hb

theorem isort_sorted {α} (le : α → α → Bool) (htot : ∀ a b, le a b = true ∨ le b a = true)
    (htr : ∀ a b c, le a b = true → le b c = true → le a c = true) (l : List α) :
    (isort le l).Pairwise (fun a b => le a b = true) := by
  induction l with
  | nil => simp [isort]
  | cons x xs ih => exact insertSorted_sorted le htot htr x _ ih

theorem lexLe_total : ∀ a b : List Nat, lexLe a b = true ∨ lexLe b a = true
  | [], _ => .inl (by simp [lexLe])
  | _ :: _, [] => .inr (by simp [lexLe])
  | a :: as, b :: bs => by
    simp only [lexLe]
    by_cases h1 : a < b
    · simp [h1]
    · by_cases h2 : b < a
      · simp [h2]
      · simp only [h1, h2, if_false]
        exact lexLe_total as bs

theorem lexLe_trans : ∀ a b c : List Nat, lexLe a b = true → lexLe b c = true → lexLe a c = true
  | [], _, _, _, _ => by simp [lexLe]
  | _ :: _, [], _, h, _ => by simp [lexLe] at h
  | _ :: _, _ :: _, [], _, h => by simp [lexLe] at h
  | a :: as, b :: bs, c :: cs, h1, h2 => by
    simp only [lexLe] at h1 h2 ⊢
    by_cases hab : a < b
    · by_cases hbc : b < c
      · have : a < c := by omega
        simp [this]
      · by_cases hcb : c < b
        · simp [hbc, hcb] at h2
        · have : a < c := by omega
          simp [this]
    · by_cases hba : b < a
      · simp [hab, hba] at h1
      · have hab' : a = b := by omega
        subst hab'
        simp only [hab, if_false] at h1
        by_cases hac : a < c
        · simp [hac]
        · by_cases hca : c < a
          · simp [hac, hca] at h2
          · simp only [hac, hca, if_false] at h2 ⊢
            exact lexLe_trans as bs cs h1 h2

/-! ### Lookup in a graph built by `map` -/

theorem mem_dedup (l : List Nat) (x : Nat) : x ∈ dedup l ↔ x ∈ l := by
  induction l with
  | nil => simp [dedup]
  | cons a t ih =>
    unfold dedup
    split
    · rename_i h
      simp only [List.mem_cons, ih]
      constructor
      · exact .inr
      · rintro (rfl | h')
        · simpa using h
        · exact h'
    · simp only [List.mem_cons, ih]

theorem succs_map {α} (l : List α) (key : α → Nat) (val : α → List Nat)
    (hnd : (l.map key).Nodup) (x : α) (hx : x ∈ l) :
    succs (l.map fun y => (key y, val y)) (key x) = val x := by
  induction l with
  | nil => simp at hx
  | cons a t ih =>
    simp only [List.map_cons, List.nodup_cons] at hnd
    rcases List.mem_cons.mp hx with rfl | hx
    · simp [succs]
    · have hne : key x ≠ key a := by
        intro e
        exact hnd.1 (e ▸ List.mem_map.mpr ⟨x, hx, rfl⟩)
      have : (key x == key a) = false := by simpa using hne
      have ih' := ih hnd.2 hx
      simp only [succs, List.map_cons, List.lookup, this] at ih' ⊢
      exact ih'

theorem succs_map_none {α} (l : List α) (key : α → Nat) (val : α → List Nat) (k : Nat)
    (hk : ∀ x ∈ l, key x ≠ k) : succs (l.map fun y => (key y, val y)) k = [] := by
  induction l with
  | nil => simp [succs]
  | cons a t ih =>
    have hne : (k == key a) = false := by
      have := hk a (by simp); simpa using Ne.symm this
    have ih' := ih (fun x hx => hk x (by simp [hx]))
    simp only [succs, List.map_cons, List.lookup, hne] at ih' ⊢
    exact ih'

end Emboss.Deps
