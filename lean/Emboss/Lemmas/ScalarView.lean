/-
Per-view conversion lemmas: IntView sign conversion (both code paths), BcdView loops,
MaxBcd, CouldWriteValue range expressions.
-/
import Emboss.Lemmas.ScalarBuf
namespace Emboss.Scalar
open Emboss.Bits Emboss.Scalar.Spec

theorem pow_pred_double {W : Nat} (hW : 0 < W) : 2 ^ W = 2 * 2 ^ (W - 1) := by
  obtain ⟨n, rfl⟩ : ∃ n, W = n + 1 := ⟨W - 1, by omega⟩
  rw [Nat.pow_succ, Nat.add_sub_cancel, Nat.mul_comm]

theorem toSigned_of_lt {W u : Nat} (h : u < 2 ^ (W - 1)) (hW : 0 < W) : toSigned W u = (u : Int) := by
  have hp := pow_pred_double hW
  unfold toSigned
  rw [wrap_of_lt (by omega), if_pos h]

theorem toSigned_of_ge {W u : Nat} (h : 2 ^ (W - 1) ≤ u) (hu : u < 2 ^ W) :
    toSigned W u = (u : Int) - (2 ^ W : Nat) := by
  unfold toSigned
  rw [wrap_of_lt hu, if_neg (by omega)]

/-- `toSigned W u` is the two's-complement reading of the `W`-bit pattern `u`. -/
theorem toSigned_eq_twos {W u : Nat} (hu : u < 2 ^ W) : toSigned W u = twos W u := by
  unfold toSigned twos; rw [wrap_of_lt hu]

/-- Round trip `static_cast<intW_t>(static_cast<uintW_t>(x)) = x` for `x` in range. -/
theorem toSigned_ofInt {W : Nat} (hW : 0 < W) {x : Int} (hlo : -((2 ^ (W - 1) : Nat) : Int) ≤ x)
    (hhi : x < ((2 ^ (W - 1) : Nat) : Int)) : toSigned W (ofInt W x) = x := by
  have hp := pow_pred_double hW
  generalize hH : 2 ^ (W - 1) = H at *
  generalize hP : 2 ^ W = P at *
  by_cases hx : 0 ≤ x
  · have hm : x % (P : Int) = x := Int.emod_eq_of_lt hx (by omega)
    have : ofInt W x = x.toNat := by unfold ofInt; rw [hP, hm]
    rw [this]
    have hlt : x.toNat < H := by omega
    rw [toSigned_of_lt (by rw [hH]; exact hlt) hW]; omega
  · have hm : x % (P : Int) = x + P := by
      rw [← Int.add_emod_right]; exact Int.emod_eq_of_lt (by omega) (by omega)
    have : ofInt W x = (x + P).toNat := by unfold ofInt; rw [hP, hm]
    rw [this, toSigned_of_ge (by rw [hH]; omega) (by rw [hP]; omega), hP]; omega

theorem ofInt_natCast {W n : Nat} (h : n < 2 ^ W) : ofInt W (n : Int) = n := by
  unfold ofInt
  rw [Int.emod_eq_of_lt (by omega) (by exact_mod_cast h)]; simp

/-- Encoding of a representable signed value as a `w`-bit pattern. -/
theorem twos_ofInt {w : Nat} (hw : 0 < w) {x : Int} (hlo : -((2 ^ (w - 1) : Nat) : Int) ≤ x)
    (hhi : x < ((2 ^ (w - 1) : Nat) : Int)) : twos w (ofInt w x) = x ∧ ofInt w x < 2 ^ w := by
  have hlt : ofInt w x < 2 ^ w := by
    unfold ofInt
    have h1 := Int.emod_lt_of_pos x (b := ((2 ^ w : Nat) : Int)) (by exact_mod_cast two_pow_pos' w)
    have h2 := Int.emod_nonneg x (b := ((2 ^ w : Nat) : Int)) (by
      have := two_pow_pos' w; omega)
    omega
  exact ⟨by rw [← toSigned_eq_twos hlt]; exact toSigned_ofInt hw hlo hhi, hlt⟩

/-! ### IntView::ConvertToSigned -/

theorem convertToSignedTwos_eq {BW w raw : Nat} (hw : 1 ≤ w) (hw64 : w ≤ 64)
    (hBW : leastWidth w ≤ BW) (hraw : raw < 2 ^ w) :
    convertToSignedTwos BW w raw = twos w raw := by
  unfold convertToSignedTwos
  have hVW := le_leastWidth hw64
  generalize hV : leastWidth w = VW at *
  obtain ⟨n, rfl⟩ : ∃ n, VW = w + n := ⟨VW - w, by omega⟩
  simp only [Nat.add_sub_cancel_left]
  have hpow : 2 ^ (w + n) = 2 ^ w * 2 ^ n := Nat.pow_add _ _ _
  have hn := two_pow_pos' n
  have hlt : raw * 2 ^ n < 2 ^ (w + n) := by
    rw [hpow]; exact Nat.mul_lt_mul_of_pos_right hraw hn
  rw [shl_eq (lt_pow_of_lt_of_le hlt (Nat.le_trans hBW (le_arithW BW)))]
  have hpred : 2 ^ (w + n - 1) = 2 ^ (w - 1) * 2 ^ n := by
    rw [← Nat.pow_add]; congr 1; omega
  have hne : ((2 ^ n : Nat) : Int) ≠ 0 := by omega
  unfold twos
  by_cases hs : raw < 2 ^ (w - 1)
  · rw [if_pos hs, toSigned_of_lt (by rw [hpred]; exact Nat.mul_lt_mul_of_pos_right hs hn) (by omega)]
    rw [Int.natCast_mul, Int.mul_ediv_cancel _ hne]
  · rw [if_neg hs, toSigned_of_ge (by rw [hpred]; exact Nat.mul_le_mul_right _ (by omega)) hlt]
    rw [hpow, Int.natCast_mul, Int.natCast_mul, ← Int.sub_mul, Int.mul_ediv_cancel _ hne]

theorem and_two_pow_eq (x k : Nat) : x &&& 2 ^ k = if x.testBit k then 2 ^ k else 0 := by
  apply Nat.eq_of_testBit_eq; intro i
  rw [Nat.testBit_and, Nat.testBit_two_pow]
  by_cases hik : k = i
  · subst hik; cases h : x.testBit k <;> simp
  · cases h : x.testBit k <;> simp [hik]

theorem testBit_top {x k : Nat} (hx : x < 2 ^ (k + 1)) : x.testBit k = decide (2 ^ k ≤ x) := by
  rw [Nat.testBit_eq_decide_div_mod_eq]
  have hp := two_pow_pos' k
  rw [Nat.pow_succ] at hx
  by_cases h : 2 ^ k ≤ x
  · have : x / 2 ^ k = 1 := by
      apply Nat.div_eq_of_lt_le <;> omega
    simp [this, h]
  · have : x / 2 ^ k = 0 := Nat.div_eq_of_lt (by omega)
    simp [this, h]

theorem convertToSignedPortable_eq {BW w raw : Nat} (hw : 1 ≤ w) (hw64 : w ≤ 64)
    (hBW : leastWidth w ≤ BW) (hraw : raw < 2 ^ w) :
    convertToSignedPortable BW w raw = some (twos w raw) := by
  unfold convertToSignedPortable
  by_cases h1 : w = 1
  · subst h1
    have : raw = 0 ∨ raw = 1 := by omega
    rcases this with rfl | rfl <;> simp [twos]
  · rw [if_neg h1]
    have hVW := le_leastWidth hw64
    have hVpos : 0 < leastWidth w := by omega
    generalize leastWidth w = VW at *
    obtain ⟨k, rfl⟩ : ∃ k, w = k + 2 := ⟨w - 2, by omega⟩
    have hA := le_arithW BW
    have hsb : wrap BW (shl (arithW BW) 1 (k + 2 - 1)) = 2 ^ (k + 1) := by
      rw [shl_one (by omega)]; exact wrap_of_lt (pow_lt_pow (by omega))
    have hkp := two_pow_pos' (k + 1)
    have hmask : wrap BW (subW (arithW BW) (2 ^ (k + 1)) 1) = 2 ^ (k + 1) - 1 := by
      rw [subW_eq (pow_lt_pow (by omega)) hkp]
      exact wrap_of_lt (Nat.lt_of_le_of_lt (Nat.sub_le _ _) (pow_lt_pow (by omega)))
    simp only [hsb, hmask]
    rw [Nat.and_comm (2 ^ (k + 1) - 1) raw, Nat.and_two_pow_sub_one_eq_mod, and_two_pow_eq,
      testBit_top hraw]
    have hpw : 2 ^ (k + 2) = 2 * 2 ^ (k + 1) := by rw [Nat.pow_succ, Nat.mul_comm]
    have hpk : 2 ^ (k + 1) = 2 * 2 ^ k := by rw [Nat.pow_succ, Nat.mul_comm]
    have hVp := pow_pred_double hVpos
    have hle : 2 ^ (k + 2) ≤ 2 ^ VW := pow_le_pow hVW
    have hkV : 2 ^ (k + 1) ≤ 2 ^ (VW - 1) := pow_le_pow (by omega)
    congr 1
    unfold twos
    rw [show k + 2 - 1 = k + 1 by omega]
    by_cases hs : 2 ^ (k + 1) ≤ raw
    · have hrs : (2 ^ (k + 1)) >>> 1 = 2 ^ k := by
        rw [Nat.shiftRight_eq_div_pow, hpk]; omega
      simp only [hs, decide_true, if_true, hrs]
      have hts : toSigned VW (2 ^ k) = ((2 ^ k : Nat) : Int) := toSigned_of_lt (by omega) hVpos
      rw [if_neg (by omega), hts]
      have hm : raw % 2 ^ (k + 1) = raw - 2 ^ (k + 1) := by
        rw [Nat.mod_eq_sub_mod hs, Nat.mod_eq_of_lt (by omega)]
      rw [hm]
      have : ((raw - 2 ^ (k + 1) : Nat) : Int) - (2 ^ k : Nat) - (2 ^ k : Nat) =
          (raw : Int) - (2 ^ (k + 2) : Nat) := by omega
      rw [this]
      exact toSigned_ofInt hVpos (by omega) (by omega)
    · simp only [hs, decide_false, Bool.false_eq_true, if_false]
      rw [if_pos (by omega), Nat.mod_eq_of_lt (by omega)]
      have : toSigned VW (0 >>> 1) = 0 := by simp [toSigned, wrap, two_pow_pos']
      rw [this, Int.sub_zero, Int.sub_zero]
      exact toSigned_ofInt hVpos (by omega) (by omega)

/-- **IntView sign conversion**: both code paths return the two's-complement value of the
field's bits at the field width. -/
theorem convertToSigned_eq (p : Path) {BW w raw : Nat} (hw : 1 ≤ w) (hw64 : w ≤ 64)
    (hBW : leastWidth w ≤ BW) (hraw : raw < 2 ^ w) :
    convertToSigned p BW w raw = some (twos w raw) := by
  cases p
  · simp only [convertToSigned, convertToSignedTwos_eq hw hw64 hBW hraw]
  · exact convertToSignedPortable_eq hw hw64 hBW hraw

end Emboss.Scalar
