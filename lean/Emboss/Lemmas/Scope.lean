/-
Helper lemmas for C12: the `for scope in visible_scopes` loop against the declarative
candidates, and the dotted-tail walk.
-/
import Emboss.Spec.Scope
namespace Emboss.Scope

theorem isHit_iff (T : Table) (cur : Path) (name : String) (s : Path) :
    isHit T cur name s = true ↔ Offers T cur name s := by
  unfold isHit Offers
  cases h : lookup T (s ++ [name]) with
  | none => simp
  | some e => simp

/-- once something has been found, the loop only collects the later hits -/
theorem searchLoop_some (T : Table) (cur : Path) (name : String) (isLocal : Bool)
    (vis : List Path) (f : Path) :
    searchLoop T cur name isLocal vis (some f) = (some f, vis.filter (isHit T cur name)) := by
  induction vis with
  | nil => simp [searchLoop]
  | cons s rest ih =>
    unfold searchLoop
    by_cases h : isHit T cur name s = true
    · simp [h, ih]
    · simp [h, ih]

/-- non-local references: first hit + the remaining hits -/
theorem searchLoop_false (T : Table) (cur : Path) (name : String) (vis : List Path) :
    searchLoop T cur name false vis none =
      match vis.filter (isHit T cur name) with
      | [] => (none, [])
      | s :: r => (some s, r) := by
  induction vis with
  | nil => simp [searchLoop]
  | cons s rest ih =>
    unfold searchLoop
    by_cases h : isHit T cur name s = true
    · simp [h, searchLoop_some]
    · simp [h, ih]

/-- `is_local_name`: the first hit, never an ambiguity -/
theorem searchLoop_true (T : Table) (cur : Path) (name : String) (vis : List Path) :
    searchLoop T cur name true vis none = (vis.find? (isHit T cur name), []) := by
  induction vis with
  | nil => simp [searchLoop]
  | cons s rest ih =>
    unfold searchLoop
    by_cases h : isHit T cur name s = true
    · simp [h]
    · simp [h, ih]

theorem eq_singleton_of_nodup {α : Type} {l : List α} {s : α}
    (hn : l.Nodup) (hall : ∀ x ∈ l, x = s) (hmem : s ∈ l) : l = [s] := by
  match l, hn, hall, hmem with
  | [], _, _, hmem => cases hmem
  | [a], _, hall, _ => rw [hall a (by simp)]
  | a :: b :: r, hn, hall, _ =>
    have ha := hall a (by simp)
    have hb := hall b (by simp)
    rw [List.nodup_cons] at hn
    exact absurd (by rw [ha, hb]; simp) hn.1

theorem filter_eq_singleton_iff (T : Table) (cur : Path) (name : String) (vis : List Path)
    (hn : vis.Nodup) (s : Path) :
    vis.filter (isHit T cur name) = [s] ↔ UniqueCandidate T cur vis name s := by
  constructor
  · intro h
    have hs : s ∈ vis.filter (isHit T cur name) := by rw [h]; simp
    rw [List.mem_filter] at hs
    refine ⟨hs.1, (isHit_iff ..).1 hs.2, ?_⟩
    intro s' hs' ho
    have : s' ∈ vis.filter (isHit T cur name) := List.mem_filter.2 ⟨hs', (isHit_iff ..).2 ho⟩
    rw [h] at this
    simpa using this
  · intro ⟨hm, ho, hu⟩
    apply eq_singleton_of_nodup (hn.filter _)
    · intro x hx
      rw [List.mem_filter] at hx
      exact hu x hx.1 ((isHit_iff ..).1 hx.2)
    · exact List.mem_filter.2 ⟨hm, (isHit_iff ..).2 ho⟩

theorem filter_eq_nil_iff (T : Table) (cur : Path) (name : String) (vis : List Path) :
    vis.filter (isHit T cur name) = [] ↔ NoCandidate T cur vis name := by
  rw [List.filter_eq_nil_iff]
  unfold NoCandidate
  constructor
  · intro h s hs ho
    exact h s hs ((isHit_iff ..).2 ho)
  · intro h s hs hh
    exact h s hs ((isHit_iff ..).1 hh)

theorem filter_two_iff (T : Table) (cur : Path) (name : String) (vis : List Path)
    (hn : vis.Nodup) :
    (∃ a b r, vis.filter (isHit T cur name) = a :: b :: r) ↔ TwoCandidates T cur vis name := by
  constructor
  · intro ⟨a, b, r, h⟩
    have hnd := hn.filter (isHit T cur name)
    rw [h] at hnd
    have ha : a ∈ vis.filter (isHit T cur name) := by rw [h]; simp
    have hb : b ∈ vis.filter (isHit T cur name) := by rw [h]; simp
    rw [List.mem_filter] at ha hb
    refine ⟨a, b, ha.1, hb.1, ?_, (isHit_iff ..).1 ha.2, (isHit_iff ..).1 hb.2⟩
    intro hab
    have hnd' : (a :: b :: r).Nodup := hnd
    rw [List.nodup_cons] at hnd'
    exact hnd'.1 (by rw [hab]; simp)
  · intro ⟨s, s', hs, hs', hne, ho, ho'⟩
    have h1 : s ∈ vis.filter (isHit T cur name) := List.mem_filter.2 ⟨hs, (isHit_iff ..).2 ho⟩
    have h2 : s' ∈ vis.filter (isHit T cur name) := List.mem_filter.2 ⟨hs', (isHit_iff ..).2 ho'⟩
    match hf : vis.filter (isHit T cur name), h1, h2 with
    | [], h1, _ => cases h1
    | [a], h1, h2 =>
      simp at h1 h2
      exact absurd (h1.trans h2.symm) hne
    | a :: b :: r, _, _ => exact ⟨a, b, r, rfl⟩

theorem find_eq_some_iff_innermost (T : Table) (cur : Path) (name : String) (vis : List Path)
    (s : Path) :
    vis.find? (isHit T cur name) = some s ↔ Innermost T cur vis name s := by
  rw [List.find?_eq_some_iff_append]
  unfold Innermost
  constructor
  · intro ⟨hh, pre, post, hv, hpre⟩
    refine ⟨pre, post, hv, (isHit_iff ..).1 hh, ?_⟩
    intro x hx ho
    have := hpre x hx
    rw [(isHit_iff T cur name x).2 ho] at this
    simp at this
  · intro ⟨pre, post, hv, ho, hpre⟩
    refine ⟨(isHit_iff ..).2 ho, pre, post, hv, ?_⟩
    intro x hx
    have := hpre x hx
    rw [← isHit_iff] at this
    simpa using this

/-! ### dotted tail -/

theorem walk_cons (T : Table) (K : Path) (prev : Option Entry) (n : String) (l : Nat)
    (ns : List (String × Nat)) :
    walk T K prev ((n, l) :: ns) =
      match lookup T (K ++ [n]) with
      | none => .missing n l
      | some e0 =>
        match deref T e0 with
        | none => .badAlias n l
        | some e => walk T e.key (some e) ns := by
  cases prev <;> simp only [walk] <;> cases lookup T (K ++ [n]) <;> try rfl
  all_goals (rename_i e0; cases deref T e0 <;> rfl)

theorem walk_nil_some (T : Table) (K : Path) (e : Entry) : walk T K (some e) [] = .ok e := by
  simp [walk]

theorem walk_ok_iff (T : Table) (K : Path) (prev : Option Entry) (n : String × Nat)
    (ns : List (String × Nat)) (e : Entry) :
    walk T K prev (n :: ns) = .ok e ↔ Walks T K ((n :: ns).map (·.1)) e := by
  induction ns generalizing K prev n with
  | nil =>
    obtain ⟨n, l⟩ := n
    rw [walk_cons]
    constructor
    · intro h
      cases h0 : lookup T (K ++ [n]) with
      | none => simp [h0] at h
      | some e0 =>
        cases h1 : deref T e0 with
        | none => simp [h0, h1] at h
        | some e1 =>
          simp only [h0, h1, walk_nil_some] at h
          cases h
          exact Walks.last h0 h1
    · intro h
      cases h with
      | last h0 h1 =>
        simp only [h0, h1, walk_nil_some]
  | cons n' ns ih =>
    obtain ⟨n, l⟩ := n
    rw [walk_cons]
    constructor
    · intro h
      cases h0 : lookup T (K ++ [n]) with
      | none => simp [h0] at h
      | some e0 =>
        cases h1 : deref T e0 with
        | none => simp [h0, h1] at h
        | some e1 =>
          simp only [h0, h1] at h
          exact Walks.step h0 h1 ((ih e1.key (some e1) n').1 h)
    · intro h
      cases h with
      | step h0 h1 hw =>
        simp only [h0, h1]
        exact (ih _ (some _) n').2 hw

end Emboss.Scope
