/-
Prefix monotonicity of the view model `G` (helper lemmas for C01/C20).

`w₁ ⊑ w₂` (same definition, parameters known on the left are the same on the right, storage on
the left is a prefix of / a null version of the storage on the right) implies that every field
value and every presence flag known in `w₁` is known with the same value in `w₂`.
-/
import Emboss.Model.View
import Emboss.Lemmas.ExprMono
namespace Emboss.View

/-- Information order on storage: null is below everything; byte storage grows by appending
bytes; an Ok bit block stays what it is. -/
def StLe : Storage → Storage → Prop
  | .bytes none, _ => True
  | .bits none _, _ => True
  | .bytes (some d1), .bytes (some d2) => d1 <+: d2
  | .bits (some v) n, .bits v' n' => v' = some v ∧ n' = n
  | _, _ => False

structure VLe (w1 w2 : SView) : Prop where
  sd : w1.sd = w2.sd
  params : OLe w1.params w2.params
  st : StLe w1.st w2.st

/-- Order on oracles, restricted to what is monotone: values and presence. -/
def OrLe (m : Module) (o1 o2 : Oracle) : Prop :=
  ∀ w1 w2, VLe w1 w2 → structWF m w1.sd = true →
    (∀ p, OLe (o1.read w1 p) (o2.read w2 p)) ∧ (∀ p, OLe (o1.has w1 p) (o2.has w2 p))

theorem StLe.refl (s : Storage) : StLe s s := by
  cases s with
  | bytes d => cases d <;> simp [StLe]
  | bits v n => cases v <;> simp [StLe]

theorem VLe.refl (w : SView) : VLe w w := ⟨rfl, OLe.refl _, StLe.refl _⟩

theorem prefix_sub {d1 d2 : List Nat} (h : d1 <+: d2) (off size : Nat) :
    (d1.drop off).take size <+: (d2.drop off).take size := by
  obtain ⟨t, rfl⟩ := h
  rw [List.drop_append, List.take_append]
  exact List.prefix_append _ _

theorem StLe.sub {s1 s2 : Storage} (h : StLe s1 s2) (off size : Nat) :
    StLe (s1.sub off size) (s2.sub off size) := by
  cases s1 with
  | bytes d1 =>
    cases d1 with
    | none => simp [Storage.sub, StLe]
    | some d1 =>
      cases s2 with
      | bytes d2 =>
        cases d2 with
        | none => simp [StLe] at h
        | some d2 =>
          simp only [Storage.sub, StLe] at h ⊢
          exact prefix_sub h off size
      | bits v n => simp [StLe] at h
  | bits v1 n1 =>
    cases v1 with
    | none => simp [Storage.sub, StLe]
    | some v1 =>
      cases s2 with
      | bytes d2 => simp [StLe] at h
      | bits v2 n2 =>
        simp only [StLe] at h
        obtain ⟨rfl, rfl⟩ := h
        exact StLe.refl _

/-- `BitBlock` adaptation after `GetOffsetStorage(off, size)` when the block has `8*size` bits. -/
theorem StLe.sub_adapt {s1 s2 : Storage} (h : StLe s1 s2) (bo : ByteOrder) (off size : Nat) :
    StLe ((s1.sub off size).adapt bo (size * 8)) ((s2.sub off size).adapt bo (size * 8)) := by
  cases s1 with
  | bytes d1 =>
    cases d1 with
    | none => simp [Storage.sub, Storage.adapt, StLe]
    | some d1 =>
      cases s2 with
      | bytes d2 =>
        cases d2 with
        | none => simp [StLe] at h
        | some d2 =>
          simp only [StLe] at h
          have hp := prefix_sub h off size
          simp only [Storage.sub, Storage.adapt]
          by_cases hl : ((d1.drop off).take size).length * 8 = size * 8
          · have hl1 : ((d1.drop off).take size).length = size := by omega
            have hl2 : ((d2.drop off).take size).length ≤ size := List.length_take_le _ _
            have hle := hp.length_le
            have heq := hp.eq_of_length (by omega)
            rw [heq]
            exact StLe.refl _
          · rw [if_neg hl]; simp [StLe]
      | bits v n => simp [StLe] at h
  | bits v1 n1 =>
    cases v1 with
    | none => simp [Storage.sub, Storage.adapt, StLe]
    | some v1 =>
      cases s2 with
      | bytes d2 => simp [StLe] at h
      | bits v2 n2 =>
        simp only [StLe] at h
        obtain ⟨rfl, rfl⟩ := h
        exact StLe.refl _

theorem lookupParam_eq (ns : List String) (vs : List Val) (x : String) :
    lookupParam ns vs x = lookupParam ns vs x := rfl

theorem param_mono {w1 w2 : SView} (h : VLe w1 w2) (x : String) : OLe (w1.param x) (w2.param x) := by
  intro v hv
  unfold SView.param at hv ⊢
  cases hp : w1.params with
  | none => rw [hp] at hv; cases hv
  | some vs =>
    rw [h.params vs hp, ← h.sd]
    rw [hp] at hv; exact hv

theorem envOf_mono {m : Module} {o1 o2 : Oracle} (ho : OrLe m o1 o2) {w1 w2 : SView} (h : VLe w1 w2)
    (hwf : structWF m w1.sd = true) (lv : Option Val) : EnvLe (envOf o1 w1 lv) (envOf o2 w2 lv) :=
  ⟨(ho w1 w2 h hwf).1, param_mono h, (ho w1 w2 h hwf).2, OLe.refl _⟩

theorem hasField_mono {m : Module} {o1 o2 : Oracle} (ho : OrLe m o1 o2) {w1 w2 : SView} (h : VLe w1 w2)
    (hwf : structWF m w1.sd = true) (f : Field) : OLe (hasField o1 w1 f) (hasField o2 w2 f) :=
  evalBool_mono (envOf_mono ho h hwf none) f.cond

theorem valueIsOk_mono {m : Module} {o1 o2 : Oracle} (ho : OrLe m o1 o2) {w1 w2 : SView} (h : VLe w1 w2)
    (hwf : structWF m w1.sd = true) (req : Option Expr) (v : Val)
    (hv : valueIsOk o1 w1 req v = true) : valueIsOk o2 w2 req v = true := by
  cases req with
  | none => rfl
  | some r =>
    simp only [valueIsOk, beq_iff_eq] at hv ⊢
    exact evalBool_mono (envOf_mono ho h hwf (some v)) r true hv

/-- Order on accessor storages: the null branch is below everything. -/
def OStLe : Option Storage → Option Storage → Prop
  | none, _ => True
  | some s1, some s2 => StLe s1 s2
  | some _, none => False

theorem physStorage_mono {m : Module} {o1 o2 : Oracle} (ho : OrLe m o1 o2) {w1 w2 : SView}
    (h : VLe w1 w2) (hwf : structWF m w1.sd = true) (f : Field) (start size : Expr) :
    OStLe (physStorage o1 w1 f start size) (physStorage o2 w2 f start size) := by
  unfold physStorage
  have hh := hasField_mono ho h hwf f
  have hs := evalInt_mono (envOf_mono ho h hwf none) size
  have ht := evalInt_mono (envOf_mono ho h hwf none) start
  cases h1 : hasField o1 w1 f with
  | none => simp [OStLe]
  | some b =>
    cases b with
    | false => simp [OStLe]
    | true =>
      rw [hh true h1]
      cases h2 : evalInt (envOf o1 w1 none) size with
      | none => simp [OStLe]
      | some s =>
        rw [hs s h2]
        cases h3 : evalInt (envOf o1 w1 none) start with
        | none => simp [OStLe]
        | some off =>
          rw [ht off h3]
          by_cases hc : 0 ≤ s ∧ 0 ≤ off
          · simp only [hc, and_self, if_true, OStLe]
            exact StLe.sub h.st _ _
          · simp [hc, OStLe]

theorem constInt_eval {env : Env} {size : Expr} {k : Int} (hk : constInt? size = some k) :
    evalInt env size = some k := by
  cases size with
  | const v => cases v <;> simp_all [constInt?, evalInt, eval]
  | fold v e => cases v <;> simp_all [constInt?, evalInt, eval]
  | _ => simp [constInt?] at hk

theorem physStorage_size {o : Oracle} {w : SView} {f : Field} {start size : Expr} {st : Storage}
    {k : Int} (hk : constInt? size = some k) (h : physStorage o w f start size = some st) :
    ∃ off : Nat, st = w.st.sub off k.toNat := by
  unfold physStorage at h
  rw [constInt_eval hk] at h
  cases h1 : hasField o w f with
  | none => simp [h1] at h
  | some b =>
    cases b with
    | false => simp [h1] at h
    | true =>
      cases h3 : evalInt (envOf o w none) start with
      | none => simp [h1, h3] at h
      | some off =>
        simp only [h1, h3] at h
        by_cases hc : 0 ≤ k ∧ 0 ≤ off
        · rw [if_pos hc] at h
          cases h
          exact ⟨_, rfl⟩
        · rw [if_neg hc] at h
          cases h

theorem leafRead_mono {m : Module} {o1 o2 : Oracle} (ho : OrLe m o1 o2) {w1 w2 : SView} (h : VLe w1 w2)
    (hwf : structWF m w1.sd = true) (k : ScalarKind) (bits : Nat) (req : Option Expr)
    {s1 s2 : Storage} (hs : StLe s1 s2) :
    OLe (leafRead o1 w1 k bits req s1) (leafRead o2 w2 k bits req s2) := by
  intro v hv
  cases s1 with
  | bytes d => simp [leafRead] at hv
  | bits v1 n1 =>
    cases v1 with
    | none => simp [leafRead] at hv
    | some x =>
      cases s2 with
      | bytes d2 => simp [StLe] at hs
      | bits v2 n2 =>
        simp only [StLe] at hs
        obtain ⟨rfl, rfl⟩ := hs
        simp only [leafRead] at hv ⊢
        cases hc : leafSizeOk k bits n2 with
        | false => simp [hc] at hv
        | true =>
          simp only [hc, if_true] at hv ⊢
          cases hd : scalarDecode k bits x with
          | none => simp [hd] at hv
          | some y =>
            simp only [hd] at hv ⊢
            by_cases hok : valueIsOk o1 w1 req y = true
            · rw [if_pos hok] at hv
              rw [if_pos (valueIsOk_mono ho h hwf req y hok)]
              exact hv
            · rw [if_neg hok] at hv
              cases hv

theorem virtRead_mono {m : Module} {o1 o2 : Oracle} (ho : OrLe m o1 o2) {w1 w2 : SView} (h : VLe w1 w2)
    (hwf : structWF m w1.sd = true) (value : Expr) (req : Option Expr) :
    OLe (virtRead o1 w1 value req) (virtRead o2 w2 value req) := by
  intro v hv
  unfold virtRead at hv ⊢
  cases he : eval (envOf o1 w1 none) value with
  | none => rw [he] at hv; cases hv
  | some x =>
    rw [he] at hv
    rw [eval_mono (envOf_mono ho h hwf none) value x he]
    simp only at hv ⊢
    by_cases hok : valueIsOk o1 w1 req x = true
    · rw [if_pos hok] at hv
      rw [if_pos (valueIsOk_mono ho h hwf req x hok)]
      exact hv
    · rw [if_neg hok] at hv
      cases hv

theorem evalArgs_mono {e1 e2 : Env} (h : EnvLe e1 e2) :
    ∀ args : Exprs, OLe (evalArgs e1 args) (evalArgs e2 args)
  | .nil => OLe.refl _
  | .cons e es => by
    intro v hv
    simp only [evalArgs] at hv ⊢
    cases h1 : eval e1 e with
    | none => rw [h1] at hv; cases hv
    | some x =>
      rw [h1] at hv
      cases h2 : evalArgs e1 es with
      | none => rw [h2] at hv; cases hv
      | some xs =>
        rw [h2] at hv
        rw [eval_mono h e x h1, evalArgs_mono h es xs h2]
        exact hv

theorem nullView_le (sd : StructDef) (w : SView) (h : w.sd = sd) : VLe (nullView sd) w := by
  refine ⟨h.symm, OLe.none _, ?_⟩
  unfold nullView
  by_cases hu : sd.unit = 8 <;> simp [hu, StLe]

end Emboss.View

namespace Emboss.View

theorem find_wf {m : Module} (hm : moduleWF m = true) {name : String} {sd : StructDef}
    (h : m.find name = some sd) : structWF m sd = true := by
  unfold moduleWF at hm
  unfold Module.find at h
  exact List.all_eq_true.mp hm sd (List.mem_of_find?_eq_some h)

theorem field_wf {m : Module} {sd : StructDef} (hwf : structWF m sd = true) {x : String} {f : Field}
    (h : sd.field x = some f) : fieldWF m sd.unit f = true := by
  unfold structWF at hwf
  unfold StructDef.field at h
  exact List.all_eq_true.mp hwf f (List.mem_of_find?_eq_some h)

/-- storage of a field after adaptation, both sides -/
theorem physStorage_adaptFor_mono {m : Module} {o1 o2 : Oracle} (ho : OrLe m o1 o2) {w1 w2 : SView}
    (h : VLe w1 w2) (hwf : structWF m w1.sd = true) (f : Field) (start size : Expr)
    (tu : Nat) (bo : ByteOrder) (bits : Nat)
    (hsz : w1.sd.unit ≠ 8 ∨ tu = 8 ∨ ∃ k : Int, constInt? size = some k ∧ 0 ≤ k ∧ k.toNat * 8 = bits) :
    OStLe ((physStorage o1 w1 f start size).map (fun st => st.adaptFor w1.sd.unit tu bo bits))
          ((physStorage o2 w2 f start size).map (fun st => st.adaptFor w2.sd.unit tu bo bits)) := by
  have hu : w2.sd.unit = w1.sd.unit := by rw [h.sd]
  rw [hu]
  by_cases hcase : w1.sd.unit = 8 ∧ tu ≠ 8
  · -- adaptation happens: the size is the constant bits/8
    obtain ⟨k, hk, hk0, hkb⟩ : ∃ k : Int, constInt? size = some k ∧ 0 ≤ k ∧ k.toNat * 8 = bits := by
      rcases hsz with h1 | h2 | h3
      · exact absurd hcase.1 h1
      · exact absurd h2 hcase.2
      · exact h3
    unfold physStorage
    rw [constInt_eval hk, constInt_eval hk]
    have hh := hasField_mono ho h hwf f
    have ht := evalInt_mono (envOf_mono ho h hwf none) start
    cases h1 : hasField o1 w1 f with
    | none => simp [OStLe]
    | some b =>
      cases b with
      | false => simp [OStLe]
      | true =>
        rw [hh true h1]
        cases h3 : evalInt (envOf o1 w1 none) start with
        | none => simp [OStLe]
        | some off =>
          rw [ht off h3]
          by_cases hc : 0 ≤ k ∧ 0 ≤ off
          · simp only [hc, and_self, if_true, Option.map, OStLe, Storage.adaptFor, hcase, ne_eq,
              not_false_eq_true]
            rw [← hkb]
            exact StLe.sub_adapt h.st bo _ _
          · simp [hc, OStLe]
  · have hps := physStorage_mono ho h hwf f start size
    cases h1 : physStorage o1 w1 f start size with
    | none => simp [OStLe]
    | some s1 =>
      cases h2 : physStorage o2 w2 f start size with
      | none => rw [h1, h2] at hps; simp [OStLe] at hps
      | some s2 =>
        rw [h1, h2] at hps
        simp only [Option.map, OStLe, Storage.adaptFor, hcase, if_false] at hps ⊢
        exact hps

theorem subView_mono {m : Module} (hm : moduleWF m = true) {o1 o2 : Oracle} (ho : OrLe m o1 o2)
    {w1 w2 : SView} (h : VLe w1 w2) (hwf : structWF m w1.sd = true) (f : Field) (start size : Expr)
    (name : String) (bits : Nat) (args : Exprs) (bo : ByteOrder)
    (hf : fieldWF m w1.sd.unit f = true) (hk : f.kind = .phys start size (.struct name bits args) bo) :
    match subView o1 m w1 f start size name bits args bo, subView o2 m w2 f start size name bits args bo with
    | some a, some b => VLe a b ∧ structWF m a.sd = true
    | none, none => True
    | _, _ => False := by
  unfold subView
  cases hfind : m.find name with
  | none => simp
  | some sd =>
    simp only
    have hsd := find_wf hm hfind
    have hargs := evalArgs_mono (envOf_mono ho h hwf none) args
    have hsz : w1.sd.unit ≠ 8 ∨ sd.unit = 8 ∨
        ∃ k : Int, constInt? size = some k ∧ 0 ≤ k ∧ k.toNat * 8 = bits := by
      unfold fieldWF at hf
      rw [hk] at hf
      simp only [hfind, Bool.or_eq_true, bne_iff_ne, ne_eq, beq_iff_eq] at hf
      rcases hf with h1 | h2 | h3
      · exact Or.inl h1
      · exact Or.inr (Or.inl h2)
      · right; right
        cases hc : constInt? size with
        | none => simp [hc] at h3
        | some k =>
          simp only [hc, Bool.and_eq_true, decide_eq_true_eq, beq_iff_eq] at h3
          exact ⟨k, rfl, h3.1, h3.2⟩
    have hst := physStorage_adaptFor_mono ho h hwf f start size sd.unit bo bits hsz
    cases ha : evalArgs (envOf o1 w1 none) args with
    | none =>
      simp only
      cases evalArgs (envOf o2 w2 none) args <;> cases physStorage o2 w2 f start size <;>
        exact ⟨nullView_le sd _ rfl, hsd⟩
    | some vs =>
      rw [hargs vs ha]
      cases h1 : physStorage o1 w1 f start size with
      | none =>
        simp only
        cases physStorage o2 w2 f start size <;> exact ⟨nullView_le sd _ rfl, hsd⟩
      | some s1 =>
        cases h2 : physStorage o2 w2 f start size with
        | none => rw [h1, h2] at hst; simp [OStLe] at hst
        | some s2 =>
          rw [h1, h2] at hst
          simp only [Option.map, OStLe] at hst
          exact ⟨⟨rfl, OLe.refl _, hst⟩, hsd⟩

end Emboss.View
