/-
C11 helper lemmas, part 3: one lemma per handler — on arguments of the kinds in its
signature the handler returns a value (no exception, no failing `assert`), of the
result kind, whose content is the concatenation of the arguments' contents.
-/
import Emboss.Lemmas.FmtPasses
namespace Emboss.Fmt

theorem content_of_asRows {v : Fmt} {l : List Row} (h : asRows v = some l) : content v = rowsContent l := by
  cases v <;> simp [asRows] at h <;> subst h <;> rfl

theorem content_of_asBlocks {v : Fmt} {l : List Block} (h : asBlocks v = some l) :
    content v = blocksContent l := by
  cases v <;> simp [asBlocks] at h <;> subst h <;> rfl

theorem content_of_asSections {v : Fmt} {l : List (List Row)} (h : asSections v = some l) :
    content v = (l.map rowsContent).flatten := by
  cases v <;> simp [asSections] at h <;> subst h <;> rfl

@[simp] theorem content_str (s : Str) : content (.str s) = despace s := rfl
@[simp] theorem content_strs (l : List Str) : content (.strs l) = despace l.flatten := rfl
@[simp] theorem content_nil : content .nil = [] := rfl
@[simp] theorem content_rows (l : List Row) : content (.rows l) = rowsContent l := rfl
@[simp] theorem content_blocks (l : List Block) : content (.blocks l) = blocksContent l := rfl
@[simp] theorem content_sections (l : List (List Row)) : content (.sections l) = (l.map rowsContent).flatten := rfl
@[simp] theorem content_inlineBody (h : List Row) (f : List Block) :
    content (.inlineBody h f) = rowsContent h ++ blocksContent f := rfl

@[simp] theorem contents_nil : contents [] = [] := rfl
@[simp] theorem contents_cons (v : Fmt) (l : List Fmt) : contents (v :: l) = content v ++ contents l := by
  simp [contents]

theorem hDocLine_ok {a c : Fmt} (ha : HasKind a .str) (hc : HasKind c .rows) :
    ∃ v, hDocLine [a, .str [], c] = some v ∧ HasKind v .rows ∧ content v = contents [a, .str [], c] := by
  obtain ⟨a, rfl⟩ := ha
  obtain ⟨lc, hlc, pc⟩ := hc
  refine ⟨.rows ({ name := .doc, columns := [a] } :: lc), ?_, ?_, ?_⟩
  · simp [hDocLine, asStr, hlc]
  · exact ⟨_, rfl, PlainRows.cons (by simp) pc⟩
  · simp [content_of_asRows hlc, Row.content]

theorem hImportLine_ok {a b c d e f : Fmt} (ha : HasKind a .str) (hb : HasKind b .str) (hc : HasKind c .str)
    (hd : HasKind d .str) (he : HasKind e .str) (hf : HasKind f .rows) :
    ∃ v, hImportLine [a, b, c, d, e, f] = some v ∧ HasKind v .rows ∧ content v = contents [a, b, c, d, e, f] := by
  obtain ⟨a, rfl⟩ := ha; obtain ⟨b, rfl⟩ := hb; obtain ⟨c, rfl⟩ := hc
  obtain ⟨d, rfl⟩ := hd; obtain ⟨e, rfl⟩ := he
  obtain ⟨lf, hlf, pf⟩ := hf
  refine ⟨_, by simp [hImportLine, asStr, hlf]; rfl, ⟨_, rfl, PlainRows.cons (by simp) pf⟩, ?_⟩
  simp [content_of_asRows hlf, Row.content]

theorem hAttributeLine_ok {a b c : Fmt} (ha : HasKind a .str) (hb : HasKind b .str) (hc : HasKind c .rows) :
    ∃ v, hAttributeLine [a, b, c] = some v ∧ HasKind v .rows ∧ content v = contents [a, b, c] := by
  obtain ⟨a, rfl⟩ := ha; obtain ⟨b, rfl⟩ := hb
  obtain ⟨lc, hlc, pc⟩ := hc
  refine ⟨_, by simp [hAttributeLine, asStr, hlc]; rfl, ⟨_, rfl, PlainRows.cons (by simp) pc⟩, ?_⟩
  simp [content_of_asRows hlc, Row.content]

theorem hAttribute_ok {a b c d e f g : Fmt} (ha : HasKind a .str) (hb : HasKind b .str) (hc : HasKind c .str)
    (hd : HasKind d .str) (he : HasKind e .str) (hf : HasKind f .str) (hg : HasKind g .str) :
    ∃ v, hAttribute [a, b, c, d, e, f, g] = some v ∧ HasKind v .str ∧
      content v = contents [a, b, c, d, e, f, g] := by
  obtain ⟨a, rfl⟩ := ha; obtain ⟨b, rfl⟩ := hb; obtain ⟨c, rfl⟩ := hc; obtain ⟨d, rfl⟩ := hd
  obtain ⟨e, rfl⟩ := he; obtain ⟨f, rfl⟩ := hf; obtain ⟨g, rfl⟩ := hg
  refine ⟨_, by simp [hAttribute, asStr]; rfl, ⟨_, rfl⟩, ?_⟩
  simp

theorem hParameterDefinition_ok {a b c : Fmt} (ha : HasKind a .str) (hb : HasKind b .str) (hc : HasKind c .str) :
    ∃ v, hParameterDefinition [a, b, c] = some v ∧ HasKind v .str ∧ content v = contents [a, b, c] := by
  obtain ⟨a, rfl⟩ := ha; obtain ⟨b, rfl⟩ := hb; obtain ⟨c, rfl⟩ := hc
  refine ⟨_, by simp [hParameterDefinition, asStr]; rfl, ⟨_, rfl⟩, ?_⟩
  simp

theorem hTypeDefinitions_ok {a b : Fmt} (ha : HasKind a .rows) (hb : HasKind b .sections) :
    ∃ v, hTypeDefinitions [a, b] = some v ∧ HasKind v .sections ∧ content v = contents [a, b] := by
  obtain ⟨la, hla, pa⟩ := ha
  obtain ⟨lb, hlb, pb⟩ := hb
  refine ⟨_, by simp [hTypeDefinitions, hla, hlb]; rfl, ⟨_, rfl, ?_⟩, ?_⟩
  · intro s hs
    rcases List.mem_cons.mp hs with rfl | h
    · exact pa
    · exact pb s h
  · simp [content_of_asRows hla, content_of_asSections hlb]

theorem hStructureType_ok {a b c d e f g : Fmt} (ha : HasKind a .str) (hb : HasKind b .str)
    (hc : HasKind c .str) (hd : HasKind d .str) (he : HasKind e .str) (hf : HasKind f .rows)
    (hg : HasKind g .rows) :
    ∃ v, hStructureType [a, b, c, d, e, f, g] = some v ∧ HasKind v .rows ∧
      content v = contents [a, b, c, d, e, f, g] := by
  obtain ⟨a, rfl⟩ := ha; obtain ⟨b, rfl⟩ := hb; obtain ⟨c, rfl⟩ := hc; obtain ⟨d, rfl⟩ := hd
  obtain ⟨e, rfl⟩ := he
  obtain ⟨lf, hlf, pf⟩ := hf
  obtain ⟨lg, hlg, pg⟩ := hg
  refine ⟨_, by simp [hStructureType, asStr, hlf, hlg]; rfl,
    ⟨_, rfl, PlainRows.cons (by simp) (pf.append pg)⟩, ?_⟩
  simp [content_of_asRows hlf, content_of_asRows hlg, Row.content]

theorem hType_ok {a b c d e f : Fmt} (ha : HasKind a .str) (hb : HasKind b .str)
    (hc : HasKind c .str) (hd : HasKind d .str) (he : HasKind e .rows) (hf : HasKind f .rows) :
    ∃ v, hType [a, b, c, d, e, f] = some v ∧ HasKind v .rows ∧ content v = contents [a, b, c, d, e, f] := by
  obtain ⟨a, rfl⟩ := ha; obtain ⟨b, rfl⟩ := hb; obtain ⟨c, rfl⟩ := hc; obtain ⟨d, rfl⟩ := hd
  obtain ⟨le, hle, pe⟩ := he
  obtain ⟨lf, hlf, pf⟩ := hf
  refine ⟨_, by simp [hType, asStr, hle, hlf]; rfl, ⟨_, rfl, PlainRows.cons (by simp) (pe.append pf)⟩, ?_⟩
  simp [content_of_asRows hle, content_of_asRows hlf, Row.content]

theorem hFieldLocation_ok {a b c d e : Fmt} (ha : HasKind a .str) (hb : HasKind b .str)
    (hc : HasKind c .str) (hd : HasKind d .str) (he : HasKind e .str) :
    ∃ v, hFieldLocation [a, b, c, d, e] = some v ∧ HasKind v .strs2 ∧ content v = contents [a, b, c, d, e] := by
  obtain ⟨a, rfl⟩ := ha; obtain ⟨b, rfl⟩ := hb; obtain ⟨c, rfl⟩ := hc; obtain ⟨d, rfl⟩ := hd
  obtain ⟨e, rfl⟩ := he
  refine ⟨.strs [a, b ++ c ++ d ++ e], by simp [hFieldLocation, asStr], ⟨_, _, rfl⟩, ?_⟩
  simp

theorem hFieldBody_ok {a b c d : Fmt} (hb : HasKind b .rows) (hc : HasKind c .rows)
    (ha0 : content a = []) (hd0 : content d = []) :
    ∃ v, hFieldBody [a, b, c, d] = some v ∧ HasKind v .rows ∧ content v = contents [a, b, c, d] := by
  obtain ⟨lb, hlb, pb⟩ := hb
  obtain ⟨lc, hlc, pc⟩ := hc
  refine ⟨_, by simp [hFieldBody, hlb, hlc]; rfl, ⟨_, rfl, (pb.append pc).indent⟩, ?_⟩
  simp [content_of_asRows hlb, content_of_asRows hlc, ha0, hd0]

theorem hExternalBody_ok {a b c d : Fmt} (hb : HasKind b .rows) (hc : HasKind c .rows)
    (ha0 : content a = []) (hd0 : content d = []) :
    ∃ v, hExternalBody [a, b, c, d] = some v ∧ HasKind v .rows ∧ content v = contents [a, b, c, d] := by
  obtain ⟨lb, hlb, pb⟩ := hb
  obtain ⟨lc, hlc, pc⟩ := hc
  refine ⟨_, by simp [hExternalBody, hlb, hlc]; rfl, ⟨_, rfl, ?_⟩, ?_⟩
  · apply PlainRows.indent
    apply PlainRows.intersperse (plain_single _)
    intro s hs
    simp at hs
    rcases hs with rfl | rfl
    · exact pb
    · exact pc
  · simp [content_of_asRows hlb, content_of_asRows hlc, ha0, hd0,
      rowsContent_intersperse _ (content_single _)]

theorem hCommentLine_ok {a b : Fmt} (ha : HasKind a .str) (hb0 : content b = []) :
    ∃ v, hCommentLine [a, b] = some v ∧ HasKind v .rows ∧ content v = contents [a, b] := by
  obtain ⟨a, rfl⟩ := ha
  cases a with
  | nil =>
    refine ⟨_, by simp [hCommentLine, asStr]; rfl, ⟨_, rfl, plain_single _⟩, ?_⟩
    simp [hb0, Row.content]
  | cons c cs =>
    refine ⟨.rows [{ name := .comment, columns := [c :: cs] }], by simp [hCommentLine, asStr],
      ⟨_, rfl, PlainRows.cons (by simp) PlainRows.nil⟩, ?_⟩
    simp [hb0, Row.content]

theorem hEol_ok {a b : Fmt} (hb : HasKind b .rows) (ha0 : content a = []) :
    ∃ v, hEol [a, b] = some v ∧ HasKind v .rows ∧ content v = contents [a, b] := by
  obtain ⟨lb, hlb, pb⟩ := hb
  refine ⟨_, by simp [hEol, hlb]; rfl, ⟨_, rfl, pb.stripEmpty⟩, ?_⟩
  simp [content_of_asRows hlb, ha0]

theorem hVirtualField_ok {a b c d e f g : Fmt} (ha : HasKind a .str) (hb : HasKind b .str)
    (hc : HasKind c .str) (hd : HasKind d .str) (he : HasKind e .str) (hf : HasKind f .rows)
    (hg : HasKind g .rows) :
    ∃ v, hVirtualField [a, b, c, d, e, f, g] = some v ∧ HasKind v .blocksF1 ∧
      content v = contents [a, b, c, d, e, f, g] := by
  obtain ⟨a, rfl⟩ := ha; obtain ⟨b, rfl⟩ := hb; obtain ⟨c, rfl⟩ := hc; obtain ⟨d, rfl⟩ := hd
  obtain ⟨e, rfl⟩ := he
  obtain ⟨lf, hlf, pf⟩ := hf
  obtain ⟨lg, hlg, pg⟩ := hg
  refine ⟨_, by simp [hVirtualField, asStr, hlf, hlg]; rfl, ⟨_, rfl, by simp, ?_⟩, ?_⟩
  · intro x hx
    simp at hx; subst hx
    exact ⟨PlainRows.nil, pf.append pg, by simp [fieldNames]⟩
  · simp [content_of_asRows hlf, content_of_asRows hlg, Block.content, Row.content]

theorem hUnconditionalField_ok {a b c d e f g h i : Fmt} (ha : HasKind a .strs2) (hb : HasKind b .str)
    (hc : HasKind c .str) (hd : HasKind d .str) (he : HasKind e .str) (hf : HasKind f .str)
    (hg : HasKind g .str) (hh : HasKind h .rows) (hi : HasKind i .rows) :
    ∃ v, hUnconditionalField [a, b, c, d, e, f, g, h, i] = some v ∧ HasKind v .blocksF1 ∧
      content v = contents [a, b, c, d, e, f, g, h, i] := by
  obtain ⟨a1, a2, rfl⟩ := ha
  obtain ⟨b, rfl⟩ := hb; obtain ⟨c, rfl⟩ := hc; obtain ⟨d, rfl⟩ := hd
  obtain ⟨e, rfl⟩ := he; obtain ⟨f, rfl⟩ := hf; obtain ⟨g, rfl⟩ := hg
  obtain ⟨lh, hlh, ph⟩ := hh
  obtain ⟨li, hli, pi⟩ := hi
  refine ⟨_, by simp [hUnconditionalField, asStr, asStrs, hlh, hli]; rfl, ⟨_, rfl, by simp, ?_⟩, ?_⟩
  · intro x hx
    simp at hx; subst hx
    exact ⟨PlainRows.nil, ph.append pi, by simp [fieldNames]⟩
  · simp [content_of_asRows hlh, content_of_asRows hli, Block.content, Row.content]

theorem hInlineType_ok {a b c d e f g h : Fmt} (ha : HasKind a .strs2) (hb : HasKind b .str)
    (hc : HasKind c .str) (hd : HasKind d .str) (he : HasKind e .str) (hf : HasKind f .str)
    (hg : HasKind g .rows) (hh : HasKind h .rows) :
    ∃ v, hInlineType [a, b, c, d, e, f, g, h] = some v ∧ HasKind v .blocksF1 ∧
      content v = contents [a, b, c, d, e, f, g, h] := by
  obtain ⟨a1, a2, rfl⟩ := ha
  obtain ⟨b, rfl⟩ := hb; obtain ⟨c, rfl⟩ := hc; obtain ⟨d, rfl⟩ := hd
  obtain ⟨e, rfl⟩ := he; obtain ⟨f, rfl⟩ := hf
  obtain ⟨lg, hlg, pg⟩ := hg
  obtain ⟨lh, hlh, ph⟩ := hh
  refine ⟨_, by simp [hInlineType, asStr, asStrs, hlg, hlh]; rfl, ⟨_, rfl, by simp, ?_⟩, ?_⟩
  · intro x hx
    simp at hx; subst hx
    exact ⟨PlainRows.nil, pg.append ph, by simp [fieldNames]⟩
  · simp [content_of_asRows hlg, content_of_asRows hlh, Block.content, Row.content]

theorem hInlineBits_ok {a b c d e f : Fmt} (ha : HasKind a .strs2) (hb : HasKind b .str)
    (hc : HasKind c .str) (hd : HasKind d .str) (he : HasKind e .rows) (hf : HasKind f .inlineBody) :
    ∃ v, hInlineBits [a, b, c, d, e, f] = some v ∧ HasKind v .blocksF1 ∧
      content v = contents [a, b, c, d, e, f] := by
  obtain ⟨a1, a2, rfl⟩ := ha
  obtain ⟨b, rfl⟩ := hb; obtain ⟨c, rfl⟩ := hc; obtain ⟨d, rfl⟩ := hd
  obtain ⟨le, hle, pe⟩ := he
  obtain ⟨fh, ff, rfl, pfh, pff⟩ := hf
  refine ⟨_, by simp [hInlineBits, asStr, asStrs, hle]; rfl, ⟨_, rfl, by simp, ?_⟩, ?_⟩
  · intro x hx
    rcases List.mem_cons.mp hx with rfl | h
    · exact ⟨PlainRows.nil, pe.append pfh, by simp [fieldNames]⟩
    · exact pff x h
  · simp [content_of_asRows hle, Block.content, Row.content]

theorem hConditionalField_ok {a b c d e f g h : Fmt} (ha : HasKind a .str) (hb : HasKind b .str)
    (hc : HasKind c .str) (hd : HasKind d .str) (he : HasKind e .rows) (hg : HasKind g .blocksF1)
    (hf0 : content f = []) (hh0 : content h = []) :
    ∃ v, hConditionalField [a, b, c, d, e, f, g, h] = some v ∧ HasKind v .blocksF1 ∧
      content v = contents [a, b, c, d, e, f, g, h] := by
  obtain ⟨a, rfl⟩ := ha; obtain ⟨b, rfl⟩ := hb; obtain ⟨c, rfl⟩ := hc; obtain ⟨d, rfl⟩ := hd
  obtain ⟨le, hle, pe⟩ := he
  obtain ⟨lg, hlg, hne, pg⟩ := hg
  cases lg with
  | nil => exact absurd rfl hne
  | cons b0 rest =>
    have hib : indentBlocks (b0 :: rest) = indentBlock b0 :: indentBlocks rest := rfl
    have hb0 : BlockOK fieldNames (indentBlock b0) := (pg b0 (List.mem_cons_self ..)).indent
    refine ⟨_, by simp [hConditionalField, asStr, hle, hlg, hib]; rfl, ⟨_, rfl, by simp, ?_⟩, ?_⟩
    · intro x hx
      rcases List.mem_cons.mp hx with rfl | h'
      · exact ⟨PlainRows.cons (by simp) (pe.append hb0.1), hb0.2.1, hb0.2.2⟩
      · exact blocksOK_indent (fun y hy => pg y (List.mem_cons_of_mem _ hy)) x h'
    · simp [content_of_asRows hle, content_of_asBlocks hlg, Block.content, Row.content, hf0, hh0,
        indentBlock, indentRow]

theorem hInlineBitsBody_ok {a b c d : Fmt} (hb : HasKind b .rows) (hc : HasKind c .blocksF)
    (ha0 : content a = []) (hd0 : content d = []) :
    ∃ v, hInlineBitsBody [a, b, c, d] = some v ∧ HasKind v .inlineBody ∧ content v = contents [a, b, c, d] := by
  obtain ⟨lb, hlb, pb⟩ := hb
  obtain ⟨lc, hlc, pc⟩ := hc
  refine ⟨.inlineBody (indentRows lb) (indentBlocks lc), by simp [hInlineBitsBody, hlb, hlc],
    ⟨_, _, rfl, pb.indent, blocksOK_indent pc⟩, ?_⟩
  simp [content_of_asRows hlb, content_of_asBlocks hlc, ha0, hd0]

theorem hEnumValue_ok {a b c d e f g h : Fmt} (ha : HasKind a .str) (hb : HasKind b .str)
    (hc : HasKind c .str) (hd : HasKind d .str) (he : HasKind e .str) (hf : HasKind f .str)
    (hg : HasKind g .rows) (hh : HasKind h .rows) :
    ∃ v, hEnumValue [a, b, c, d, e, f, g, h] = some v ∧ HasKind v .blocksE ∧
      content v = contents [a, b, c, d, e, f, g, h] := by
  obtain ⟨a, rfl⟩ := ha; obtain ⟨b, rfl⟩ := hb; obtain ⟨c, rfl⟩ := hc; obtain ⟨d, rfl⟩ := hd
  obtain ⟨e, rfl⟩ := he; obtain ⟨f, rfl⟩ := hf
  obtain ⟨lg, hlg, pg⟩ := hg
  obtain ⟨lh, hlh, ph⟩ := hh
  refine ⟨_, by simp [hEnumValue, asStr, hlg, hlh]; rfl, ⟨_, rfl, ?_⟩, ?_⟩
  · intro x hx
    simp at hx; subst hx
    exact ⟨PlainRows.nil, pg.append ph, by simp [enumNames]⟩
  · simp [content_of_asRows hlg, content_of_asRows hlh, Block.content, Row.content]

theorem hDocRstrip_ok {a : Fmt} (ha : HasKind a .str) :
    ∃ v, hDocRstrip [a] = some v ∧ HasKind v .str ∧ content v = contents [a] := by
  obtain ⟨a, rfl⟩ := ha
  exact ⟨.str (rstrip a), by simp [hDocRstrip, asStr], ⟨_, rfl⟩, by simp⟩

theorem hAdditiveExpressionRight_ok {a b : Fmt} (ha : HasKind a .str) (hb : HasKind b .str) :
    ∃ v, hAdditiveExpressionRight [a, b] = some v ∧ HasKind v .str ∧ content v = contents [a, b] := by
  obtain ⟨a, rfl⟩ := ha; obtain ⟨b, rfl⟩ := hb
  by_cases h : a = ['-'] ∧ b.head? = some '-'
  · exact ⟨.str (a ++ sp ++ b), by simp [hAdditiveExpressionRight, asStr, h], ⟨_, rfl⟩, by simp⟩
  · exact ⟨.str (a ++ b), by simp [hAdditiveExpressionRight, asStr, h], ⟨_, rfl⟩, by simp⟩

/-! ### Python `+` -/

theorem pyAdd_blocks {a b : Fmt} {la lb : List Block} (ha : asBlocks a = some la) (hb : asBlocks b = some lb) :
    ∃ v, pyAdd a b = some v ∧ asBlocks v = some (la ++ lb) := by
  cases a <;> cases b <;> simp [asBlocks] at ha hb <;> subst_vars <;> simp [pyAdd, asBlocks]

theorem pyAdd_rows {a b : Fmt} {la lb : List Row} (ha : asRows a = some la) (hb : asRows b = some lb) :
    ∃ v, pyAdd a b = some v ∧ asRows v = some (la ++ lb) := by
  cases a <;> cases b <;> simp [asRows] at ha hb <;> subst_vars <;> simp [pyAdd, asRows]

theorem blocksOK_append {names : List RowName} {la lb : List Block} (ha : ∀ b ∈ la, BlockOK names b)
    (hb : ∀ b ∈ lb, BlockOK names b) : ∀ b ∈ la ++ lb, BlockOK names b := by
  intro b h
  rcases List.mem_append.mp h with h | h
  · exact ha b h
  · exact hb b h

theorem hAdd_F1F {a b : Fmt} (ha : HasKind a .blocksF1) (hb : HasKind b .blocksF) :
    ∃ v, hAdd [a, b] = some v ∧ HasKind v .blocksF1 ∧ content v = contents [a, b] := by
  obtain ⟨la, hla, hne, pa⟩ := ha
  obtain ⟨lb, hlb, pb⟩ := hb
  obtain ⟨v, hv, hlv⟩ := pyAdd_blocks hla hlb
  refine ⟨v, hv, ⟨_, hlv, by simp [hne], blocksOK_append pa pb⟩, ?_⟩
  simp [content_of_asBlocks hlv, content_of_asBlocks hla, content_of_asBlocks hlb]

theorem hAdd_FF {a b : Fmt} (ha : HasKind a .blocksF) (hb : HasKind b .blocksF) :
    ∃ v, hAdd [a, b] = some v ∧ HasKind v .blocksF ∧ content v = contents [a, b] := by
  obtain ⟨la, hla, pa⟩ := ha
  obtain ⟨lb, hlb, pb⟩ := hb
  obtain ⟨v, hv, hlv⟩ := pyAdd_blocks hla hlb
  refine ⟨v, hv, ⟨_, hlv, blocksOK_append pa pb⟩, ?_⟩
  simp [content_of_asBlocks hlv, content_of_asBlocks hla, content_of_asBlocks hlb]

theorem hAdd_EE {a b : Fmt} (ha : HasKind a .blocksE) (hb : HasKind b .blocksE) :
    ∃ v, hAdd [a, b] = some v ∧ HasKind v .blocksE ∧ content v = contents [a, b] := by
  obtain ⟨la, hla, pa⟩ := ha
  obtain ⟨lb, hlb, pb⟩ := hb
  obtain ⟨v, hv, hlv⟩ := pyAdd_blocks hla hlb
  refine ⟨v, hv, ⟨_, hlv, blocksOK_append pa pb⟩, ?_⟩
  simp [content_of_asBlocks hlv, content_of_asBlocks hla, content_of_asBlocks hlb]

theorem hAdd_rows {a b : Fmt} (ha : HasKind a .rows) (hb : HasKind b .rows) :
    ∃ v, hAdd [a, b] = some v ∧ HasKind v .rows ∧ content v = contents [a, b] := by
  obtain ⟨la, hla, pa⟩ := ha
  obtain ⟨lb, hlb, pb⟩ := hb
  obtain ⟨v, hv, hlv⟩ := pyAdd_rows hla hlb
  refine ⟨v, hv, ⟨_, hlv, pa.append pb⟩, ?_⟩
  simp [content_of_asRows hlv, content_of_asRows hla, content_of_asRows hlb]

/-! ### variadic string handlers -/

theorem allStrs_ok : ∀ (args : List Fmt) (ks : List Kind), HasKinds args ks → ks.all (· == .str) = true →
    ∃ l, allStrs args = some l ∧ contents args = despace l.flatten := by
  intro args
  induction args with
  | nil => intro ks _ _; exact ⟨[], rfl, rfl⟩
  | cons a rest ih =>
    intro ks hk hs
    cases ks with
    | nil => simp [HasKinds] at hk
    | cons k ks' =>
      simp only [HasKinds] at hk
      simp only [List.all_cons, Bool.and_eq_true, beq_iff_eq] at hs
      obtain ⟨rfl, hs'⟩ := hs
      obtain ⟨s, rfl⟩ := hk.1
      obtain ⟨l, hl, hc⟩ := ih ks' hk.2 hs'
      exact ⟨s :: l, by simp [allStrs, asStr, hl], by simp [hc]⟩

/-! ### bodies with column alignment -/

theorem content_columnized' (blocks all : List Block) (iw ic : Nat) :
    (blocks.map (rowsContent ∘ columnizeBlock all iw ic)).flatten = blocksContent blocks := by
  rw [← content_columnized blocks all iw ic, List.map_map]

theorem spacing_plain (c : Bool) (n : RowName) :
    PlainRows (if c then [({ name := n } : Row)] else []) := by
  cases c
  · exact PlainRows.nil
  · exact plain_single n

theorem spacing_content (c : Bool) (n : RowName) :
    rowsContent (if c then [({ name := n } : Row)] else []) = [] := by
  cases c
  · rfl
  · exact content_single n

theorem hStructureBody_ok (iw : Nat) {a b c d e f : Fmt} (hb : HasKind b .rows) (hc : HasKind c .rows)
    (hd : HasKind d .sections) (he : HasKind e .blocksF) (ha0 : content a = []) (hf0 : content f = []) :
    ∃ v, hStructureBody iw [a, b, c, d, e, f] = some v ∧ HasKind v .rows ∧
      content v = contents [a, b, c, d, e, f] := by
  obtain ⟨lb, hlb, pb⟩ := hb
  obtain ⟨lc, hlc, pc⟩ := hc
  obtain ⟨ld, hld, pd⟩ := hd
  obtain ⟨le, hle, pe⟩ := he
  have hcol := columnize_some (names := fieldNames) (by decide) le iw 2 pe
  refine ⟨_, by simp [hStructureBody, hlb, hlc, hld, hle, hcol]; rfl, ⟨_, rfl, ?_⟩, ?_⟩
  · apply PlainRows.indent
    apply PlainRows.intersperse (spacing_plain _ _)
    intro s hs
    rcases List.mem_cons.mp hs with rfl | hs
    · exact pb
    rcases List.mem_cons.mp hs with rfl | hs
    · exact pc
    rcases List.mem_append.mp hs with h | h
    · exact pd s h
    · exact plain_columnized le le iw 2 pe s h
  · rw [content_rows, rowsContent_indentRows, rowsContent_intersperse _ (spacing_content _ _)]
    simp [content_of_asRows hlb, content_of_asRows hlc, content_of_asSections hld,
      content_of_asBlocks hle, ha0, hf0, content_columnized']

theorem hEnumBody_ok (iw : Nat) {a b c d e : Fmt} (hb : HasKind b .rows) (hc : HasKind c .rows)
    (hd : HasKind d .blocksE) (ha0 : content a = []) (he0 : content e = []) :
    ∃ v, hEnumBody iw [a, b, c, d, e] = some v ∧ HasKind v .rows ∧ content v = contents [a, b, c, d, e] := by
  obtain ⟨lb, hlb, pb⟩ := hb
  obtain ⟨lc, hlc, pc⟩ := hc
  obtain ⟨ld, hld, pd⟩ := hd
  have hcol := columnize_some (names := enumNames) (by decide) ld iw 1 pd
  refine ⟨_, by simp [hEnumBody, hlb, hlc, hld, hcol]; rfl, ⟨_, rfl, ?_⟩, ?_⟩
  · apply PlainRows.indent
    apply PlainRows.intersperse (spacing_plain _ _)
    intro s hs
    rcases List.mem_cons.mp hs with rfl | hs
    · exact pb
    rcases List.mem_cons.mp hs with rfl | hs
    · exact pc
    exact plain_columnized ld ld iw 1 pd s hs
  · rw [content_rows, rowsContent_indentRows, rowsContent_intersperse _ (spacing_content _ _)]
    simp [content_of_asRows hlb, content_of_asRows hlc, content_of_asBlocks hld, ha0, he0,
      content_columnized']

/-! ### `_module` -/

theorem hModule_ok (iw : Nat) {a b c d e : Fmt} (ha : HasKind a .rows) (hb : HasKind b .rows)
    (hc : HasKind c .rows) (hd : HasKind d .rows) (he : HasKind e .sections) :
    ∃ v, hModule iw [a, b, c, d, e] = some v ∧ HasKind v .str ∧ content v = contents [a, b, c, d, e] := by
  obtain ⟨la, hla, pa⟩ := ha
  obtain ⟨lb, hlb, pb⟩ := hb
  obtain ⟨lc, hlc, pc⟩ := hc
  obtain ⟨ld, hld, pd⟩ := hd
  obtain ⟨le, hle, pe⟩ := he
  have sep2p : PlainRows [({ name := .topTypeSeparator } : Row), { name := .topTypeSeparator }] :=
    PlainRows.cons (by simp) (plain_single _)
  have sep2c : rowsContent [({ name := .topTypeSeparator } : Row), { name := .topTypeSeparator }] = [] := by
    simp [Row.content]
  have hp1 : PlainRows (intersperse [{ name := .sectionBreak }] [stripEmptyRows la, lb, lc, ld]) := by
    apply PlainRows.intersperse (plain_single _)
    intro s hs
    simp only [List.mem_cons, List.not_mem_nil, or_false] at hs
    rcases hs with rfl | rfl | rfl | rfl
    · exact pa.stripEmpty
    · exact pb
    · exact pc
    · exact pd
  have hp2 : PlainRows (intersperse [{ name := .topTypeSeparator }, { name := .topTypeSeparator }]
      (intersperse [{ name := .sectionBreak }] [stripEmptyRows la, lb, lc, ld] :: le)) := by
    apply PlainRows.intersperse sep2p
    intro s hs
    rcases List.mem_cons.mp hs with rfl | h
    · exact hp1
    · exact pe s h
  have hp3 := PlainRows.congr (indentBlanksAndComments_columns _).symm hp2
  have hp4 := PlainRows.addBlankRowsAux _ 0 true hp3
  obtain ⟨t, ht, hc'⟩ := renderRows_total _ iw hp4
  refine ⟨.str t, ?_, ⟨_, rfl⟩, ?_⟩
  · simp only [hModule, hla, hlb, hlc, hld, hle, addBlankRowsOnDedent, bind, Option.bind] at ht ⊢
    simp only [ht]; rfl
  · rw [content_str, hc', rowsContent_addBlankRowsAux,
      rowsContent_congr (indentBlanksAndComments_columns _),
      rowsContent_intersperse _ sep2c]
    simp [rowsContent_intersperse _ (content_single _), content_of_asRows hla, content_of_asRows hlb,
      content_of_asRows hlc, content_of_asRows hld, content_of_asSections hle]

end Emboss.Fmt
