/-
Helper lemmas relating the declarative reference `RFact` (Spec/ViewRef.lean) and the generated-
code model `G` (Model/View.lean): expression evaluation, decoding, the bridges between the
spec's windows and `GetOffsetStorage` + `BitBlock` adaptation, and one-step equations of `step`.
-/
import Emboss.Spec.ViewRef
import Emboss.Lemmas.ViewMono2
import Emboss.Lemmas.OkMonoArr
import Emboss.Lemmas.Synth
import Emboss.Lemmas.SizeFolds
import Emboss.Model.ViewObs
namespace Emboss.ViewRef
open Emboss.View

mutual
  /-- R evaluates the source expression: annotations stripped -/
  theorem evalR_eq_strip (ρ : Env) : ∀ e : Expr, evalR ρ e = eval ρ (stripFolds e)
    | .const v => by simp only [evalR, eval, stripFolds]
    | .fold _ orig => by simp only [evalR, stripFolds]; exact evalR_eq_strip ρ orig
    | .ref p => by simp only [evalR, eval, stripFolds]
    | .param n => by simp only [evalR, eval, stripFolds]
    | .has p => by simp only [evalR, eval, stripFolds]
    | .lv => by simp only [evalR, eval, stripFolds]
    | .op f args => by simp only [evalR, eval, stripFolds, evalRList_eq_strip ρ args]
  theorem evalRList_eq_strip (ρ : Env) : ∀ es : Exprs, evalRList ρ es = evalList ρ (stripFoldsList es)
    | .nil => by simp only [evalRList, evalList, stripFoldsList]
    | .cons e es => by
      simp only [evalRList, evalList, stripFoldsList, evalR_eq_strip ρ e, evalRList_eq_strip ρ es]
end

/-- on expressions whose annotations are closed constants the reference's evaluation (through the
annotations) and the generated code's (literal instead of the annotated node) coincide -/
theorem evalR_eq_eval (ρ : Env) (e : Expr) (h : foldFree e = true) : evalR ρ e = eval ρ e := by
  rw [evalR_eq_strip, ← eval_strip ρ e h]

theorem evalRList_eq_evalList (ρ : Env) (es : Exprs) (h : foldFreeList es = true) :
    evalRList ρ es = evalList ρ es := by
  rw [evalRList_eq_strip, ← evalList_strip ρ es h]

theorem evalArgsR_eq (ρ : Env) : ∀ es : Exprs, foldFreeList es = true → evalArgsR ρ es = evalArgs ρ es
  | .nil, _ => rfl
  | .cons e es, h => by
    simp only [foldFreeList, closedFoldsList, Bool.and_eq_true] at h
    simp only [evalArgsR, evalArgs, evalR_eq_eval ρ e h.1, evalArgsR_eq ρ es h.2]
    cases eval ρ e <;> cases evalArgs ρ es <;> rfl

theorem leNumber_eq (d : List Nat) : leNumber d = decodeLE d := by
  induction d with
  | nil => rfl
  | cons b r ih => simp only [leNumber, List.foldr_cons, decodeLE] at *; rw [ih]

theorem number_eq (bo : ByteOrder) (d : List Nat) : number bo d = decodeBytes bo d := by
  cases bo <;> simp only [number, decodeBytes, leNumber_eq]

theorem specDecode_eq (k : ScalarKind) (bits raw : Nat) (hk : okKind k = true)
    (hb : 0 < bits) : specDecode k bits raw = scalarDecode k bits raw := by
  cases k with
  | uint => rfl
  | flag => rfl
  | bcd => simp [okKind] at hk
  | float => simp [okKind] at hk
  | enum w s =>
    cases s with
    | true => simp [okKind] at hk
    | false => simp [specDecode, scalarDecode]
  | int =>
    simp only [specDecode, scalarDecode, toSigned]
    congr 2
    by_cases h : raw < 2 ^ (bits - 1)
    · rw [if_pos h, if_neg (by omega)]
    · rw [if_neg h, if_pos ⟨by omega, by omega⟩]

theorem leafSizeOk_self (k : ScalarKind) (bits : Nat) (hb : 0 < bits) : leafSizeOk k bits bits = true := by
  unfold leafSizeOk
  split <;> simp [hb]

theorem litInt?_eq {e : Expr} {z : Int} (h : litInt? e = some z) : e = .const (.int z) := by
  cases e with
  | const v => cases v <;> simp [litInt?] at h; subst h; rfl
  | _ => simp [litInt?] at h

theorem sizeIsBits_inv {unit : Nat} {size : Expr} {bits : Nat} (h : sizeIsBits unit size bits = true) :
    ∃ z : Int, size = .const (.int z) ∧ 0 ≤ z ∧ 0 < bits ∧
      (unit = 8 → z.toNat * 8 = bits) ∧ (unit ≠ 8 → z.toNat = bits) := by
  unfold sizeIsBits at h
  cases hl : litInt? size with
  | none => rw [hl] at h; cases h
  | some z =>
    rw [hl] at h
    simp only [Bool.and_eq_true, decide_eq_true_eq] at h
    refine ⟨z, litInt?_eq hl, h.1.1, h.1.2, ?_, ?_⟩
    · intro hu; simpa [hu] using h.2
    · intro hu; simpa [hu] using h.2

theorem field_mem {sd : StructDef} {x : String} {f : Field} (h : sd.field x = some f) :
    f ∈ sd.fields := by
  unfold StructDef.field at h
  exact List.mem_of_find?_eq_some h

theorem ref_of_field {m : Module} {sd : StructDef} (href : refStruct m sd = true) {x : String} {f : Field}
    (h : sd.field x = some f) : refField m sd.unit f = true := by
  unfold refStruct at href
  simp only [List.all_eq_true] at href
  exact href f (field_mem h)

theorem find_mem {m : Module} {name : String} {sd : StructDef} (h : m.find name = some sd) :
    sd ∈ m.structs := by
  unfold Module.find at h
  exact List.mem_of_find?_eq_some h

theorem ref_of_find {m : Module} (hm : refModule m = true) {name : String} {sd : StructDef}
    (h : m.find name = some sd) : refStruct m sd = true := by
  unfold refModule at hm
  simp only [List.all_eq_true] at hm
  exact hm sd (find_mem h)

/-- `P` holds of structures that satisfy the per-structure hypotheses of the refinement theorems
and is closed under "type of a field of structure / `bits` type".  Instances: membership in a
module all of whose structures are in the fragment (`closed_of_refModule`), and the decidable
reachability closure `reachOK` (`closed_reach`). -/
structure Closed (m : Module) (P : StructDef → Prop) : Prop where
  ref : ∀ sd, P sd → refStruct m sd = true
  loc : ∀ sd, P sd → reqLocal sd = true
  step : ∀ sd, P sd → ∀ x f, sd.field x = some f → ∀ start size name bits args bo sd',
    f.kind = .phys start size (.struct name bits args) bo → m.find name = some sd' → P sd'

theorem closed_of_refModule {m : Module} (hm : refModule m = true) (hl : reqLocalModule m = true) :
    Closed m (fun sd => sd ∈ m.structs) where
  ref := fun sd h => by
    unfold refModule at hm
    exact List.all_eq_true.mp hm sd h
  loc := fun sd h => by
    unfold reqLocalModule at hl
    exact List.all_eq_true.mp hl sd h
  step := fun _ _ _ _ _ _ _ _ _ _ _ _ _ hfind => find_mem hfind

theorem closed_reach (m : Module) : Closed m (fun sd => ∃ d, reachOK m d sd = true) where
  ref := fun sd ⟨d, h⟩ => by
    cases d with
    | zero => simp [reachOK] at h
    | succ d => simp only [reachOK, Bool.and_eq_true] at h; exact h.1.1
  loc := fun sd ⟨d, h⟩ => by
    cases d with
    | zero => simp [reachOK] at h
    | succ d => simp only [reachOK, Bool.and_eq_true] at h; exact h.1.2
  step := fun sd ⟨d, h⟩ x f hf start size name bits args bo sd' hk hfind => by
    cases d with
    | zero => simp [reachOK] at h
    | succ d =>
      simp only [reachOK, Bool.and_eq_true, List.all_eq_true] at h
      have := h.2 f (field_mem hf)
      rw [hk] at this
      simp only [hfind] at this
      exact ⟨d, this⟩

theorem viewWF_null (sd : StructDef) : viewWF (nullView sd) = true := by
  unfold viewWF nullView
  by_cases h : sd.unit = 8 <;> simp [h]

theorem viewWF_unit {w : SView} (hw : viewWF w = true) :
    (w.sd.unit = 8 ∧ ∃ d, w.st = .bytes d) ∨ (w.sd.unit ≠ 8 ∧ ∃ x n, w.st = .bits x n) := by
  unfold viewWF at hw
  cases hst : w.st with
  | bytes d => rw [hst] at hw; simp at hw; exact Or.inl ⟨hw, d, rfl⟩
  | bits x n => rw [hst] at hw; simp at hw; exact Or.inr ⟨hw, x, n, rfl⟩

/-! ### bridges: the spec's windows are what `GetOffsetStorage` + `BitBlock` adaptation deliver -/

theorem bits_eq_shift (s z x : Nat) : (x >>> s) % 2 ^ z = Emboss.Scalar.Spec.bits s z x := by
  simp only [Emboss.Scalar.Spec.bits, Nat.shiftRight_eq_div_pow]

theorem adapt_sub_bytes (d : Option (List Nat)) (bo : ByteOrder) (s z bits : Nat) (hz : z * 8 = bits)
    (hb : 0 < bits) :
    ((Storage.bytes d).sub s z).adapt bo bits = .bits (fieldRaw (.bytes d) bo s z bits) bits := by
  cases d with
  | none => simp [Storage.sub, Storage.adapt, fieldRaw]
  | some d =>
    simp only [Storage.sub, Storage.adapt, fieldRaw, Storage.bits.injEq, and_true]
    have hlen : ((d.drop s).take z).length = min z (d.length - s) := by
      rw [List.length_take, List.length_drop]
    by_cases hin : s + z ≤ d.length
    · rw [if_pos (by rw [hlen]; omega), if_pos ⟨hz, hin⟩, number_eq]
    · rw [if_neg (by rw [hlen]; omega), if_neg (by intro h; exact hin h.2)]

theorem sub_bits (x : Option Nat) (n s z : Nat) :
    (Storage.bits x n).sub s z =
      .bits (if s + z ≤ n then x.map (Emboss.Scalar.Spec.bits s z) else none) z := by
  simp only [Storage.sub, Storage.bits.injEq, and_true]
  split
  · cases x <;> simp [bits_eq_shift]
  · rfl

/-- the storage a leaf view of a fixed-size scalar gets = the spec's `fieldRaw` -/
theorem leaf_bridge {w : SView} (hw : viewWF w = true) {bits : Nat} (hb : 0 < bits) (z : Nat)
    (h8 : w.sd.unit = 8 → z * 8 = bits) (h1 : w.sd.unit ≠ 8 → z = bits) (bo : ByteOrder) (s : Nat) :
    (w.st.sub s z).adaptFor w.sd.unit 1 bo bits = .bits (fieldRaw w.st bo s z bits) bits := by
  rcases viewWF_unit hw with ⟨hu, d, hst⟩ | ⟨hu, x, n, hst⟩
  · rw [hst]
    have : (w.sd.unit = 8 ∧ (1 : Nat) ≠ 8) := ⟨hu, by decide⟩
    simp only [Storage.adaptFor, this, and_self, ↓reduceIte]
    exact adapt_sub_bytes d bo s z bits (h8 hu) hb
  · rw [hst]
    have hz := h1 hu
    subst hz
    simp only [Storage.adaptFor, hu, false_and, ↓reduceIte, sub_bits, fieldRaw]
    cases x with
    | none => simp
    | some X => simp

/-- the storage the view of a structure-typed field gets = the spec's `window`; and it has the
shape the inner structure addresses -/
theorem window_bridge {w : SView} (hw : viewWF w = true) {sd' : StructDef} {size : Expr} {bits : Nat}
    (hc : (if w.sd.unit = 8 then sd'.unit == 8 || sizeIsBits 8 size bits else sd'.unit != 8) = true)
    (bo : ByteOrder) (s z : Nat) (hlit : ∀ zl, size = .const (.int zl) → zl.toNat = z)
    (ps : Option (List Val)) :
    (w.st.sub s z).adaptFor w.sd.unit sd'.unit bo bits = window w.st (sd'.unit != 8) bo s z bits ∧
    viewWF { sd := sd', params := ps, st := window w.st (sd'.unit != 8) bo s z bits } = true := by
  rcases viewWF_unit hw with ⟨hu, d, hst⟩ | ⟨hu, x, n, hst⟩
  · rw [hst]
    rw [if_pos hu] at hc
    by_cases hu' : sd'.unit = 8
    · have hb : (sd'.unit != 8) = false := by simp [hu']
      rw [hb]
      simp only [Storage.adaptFor, hu', ne_eq, not_true_eq_false, and_false, ↓reduceIte]
      cases d <;> simp [Storage.sub, window, viewWF, hu']
    · have hb : (sd'.unit != 8) = true := by simp [hu']
      rw [hb]
      have hsz : sizeIsBits 8 size bits = true := by
        simpa [hu'] using hc
      obtain ⟨zl, hzl, _, hbits, h8, _⟩ := sizeIsBits_inv hsz
      have hz := hlit zl hzl
      have h8' := h8 rfl
      rw [hz] at h8'
      simp only [Storage.adaptFor, hu, hu', ne_eq, not_false_eq_true, and_self, ↓reduceIte]
      constructor
      · rw [adapt_sub_bytes d bo s z bits h8' hbits]
        cases d <;> simp [window]
      · cases d <;> simp [window, viewWF, hu']
  · rw [hst]
    rw [if_neg hu] at hc
    have hu' : sd'.unit ≠ 8 := by simpa using hc
    simp only [Storage.adaptFor, hu, false_and, ↓reduceIte, sub_bits]
    constructor
    · cases hb : (sd'.unit != 8) <;> simp [window]
    · cases hb : (sd'.unit != 8) <;> simp [window, viewWF, hu']

/-! ### small inversions -/

theorem evalBool_some {env : Env} {e : Expr} {b : Bool} (h : evalBool env e = some b) :
    eval env e = some (.bool b) := by
  unfold evalBool at h
  split at h
  · rename_i c hc; simp only [Option.some.injEq] at h; subst h; exact hc
  · cases h

theorem evalInt_some {env : Env} {e : Expr} {i : Int} (h : evalInt env e = some i) :
    eval env e = some (.int i) := by
  unfold evalInt at h
  split at h
  · rename_i c hc; simp only [Option.some.injEq] at h; subst h; exact hc
  · cases h

theorem leafRead_bits {o : Oracle} {w : SView} {k : ScalarKind} {bits : Nat} {req : Option Expr}
    {r : Option Nat} {n : Nat} {v : Val} (h : leafRead o w k bits req (.bits r n) = some v) :
    ∃ raw, r = some raw ∧ leafSizeOk k bits n = true ∧ scalarDecode k bits raw = some v ∧
      valueIsOk o w req v = true := by
  cases r with
  | none => simp [leafRead] at h
  | some raw =>
    simp only [leafRead] at h
    by_cases hs : leafSizeOk k bits n = true
    · rw [if_pos hs] at h
      cases hd : scalarDecode k bits raw with
      | none => rw [hd] at h; cases h
      | some x =>
        rw [hd] at h
        simp only at h
        by_cases hok : valueIsOk o w req x = true
        · rw [if_pos hok] at h
          cases h
          exact ⟨raw, rfl, hs, hd, hok⟩
        · rw [if_neg hok] at h; cases h
    · rw [if_neg hs] at h; cases h

theorem leafRead_of {o : Oracle} {w : SView} {k : ScalarKind} {bits : Nat} {req : Option Expr}
    {raw n : Nat} {v : Val} (hs : leafSizeOk k bits n = true) (hd : scalarDecode k bits raw = some v)
    (hok : valueIsOk o w req v = true) : leafRead o w k bits req (.bits (some raw) n) = some v := by
  simp only [leafRead, hs, hd, hok, ↓reduceIte]

theorem subView_inv {o : Oracle} {m : Module} {w : SView} {f : Field} {start size : Expr} {name : String}
    {bits : Nat} {args : Exprs} {bo : ByteOrder} {w' : SView}
    (h : subView o m w f start size name bits args bo = some w') :
    ∃ sd', m.find name = some sd' ∧
      ((∃ vs st, evalArgs (envOf o w none) args = some vs ∧ physStorage o w f start size = some st ∧
          w' = { sd := sd', params := some vs, st := st.adaptFor w.sd.unit sd'.unit bo bits }) ∨
       w' = nullView sd') := by
  unfold subView at h
  cases hfind : m.find name with
  | none => rw [hfind] at h; cases h
  | some sd' =>
    rw [hfind] at h
    refine ⟨sd', rfl, ?_⟩
    cases ha : evalArgs (envOf o w none) args with
    | none => rw [ha] at h; simp at h; exact Or.inr h.symm
    | some vs =>
      cases hp : physStorage o w f start size with
      | none => rw [ha, hp] at h; simp at h; exact Or.inr h.symm
      | some st =>
        rw [ha, hp] at h
        simp at h
        exact Or.inl ⟨vs, st, rfl, rfl, h.symm⟩

/-! ### one-step equations of `step` -/

section stepEqs
variable (m : Module) (o : Oracle) (w : SView) {x : String} {f : Field} (hf : w.sd.field x = some f)
include hf

theorem step_has_nil : (step m o).has w [x] = hasField o w f := by
  simp only [step, hf]

theorem step_read_scalar {start size : Expr} {k : ScalarKind} {bits : Nat}
    {req : Option Expr} {bo : ByteOrder} (hk : f.kind = .phys start size (.scalar k bits req) bo) :
    (step m o).read w [x] =
      match physStorage o w f start size with
      | some st => leafRead o w k bits req (st.adaptFor w.sd.unit 1 bo bits)
      | none => none := by
  simp only [step, hf, hk]
  cases physStorage o w f start size <;> rfl

theorem step_read_scalar_deep {start size : Expr} {k : ScalarKind} {bits : Nat}
    {req : Option Expr} {bo : ByteOrder} (hk : f.kind = .phys start size (.scalar k bits req) bo)
    (y : String) (ys : List String) : (step m o).read w (x :: y :: ys) = none := by
  simp only [step, hf, hk]

theorem step_read_struct {start size : Expr} {name : String} {bits : Nat} {args : Exprs} {bo : ByteOrder}
    (hk : f.kind = .phys start size (.struct name bits args) bo) (y : String) (ys : List String) :
    (step m o).read w (x :: y :: ys) =
      match subView o m w f start size name bits args bo with
      | some w' => o.read w' (y :: ys)
      | none => none := by
  simp only [step, hf, hk]
  cases subView o m w f start size name bits args bo <;> rfl

theorem step_read_struct_nil {start size : Expr} {name : String} {bits : Nat} {args : Exprs} {bo : ByteOrder}
    (hk : f.kind = .phys start size (.struct name bits args) bo) :
    (step m o).read w [x] = none := by
  simp only [step, hf, hk]

theorem step_read_array {start size : Expr} {el : PType} {es : Nat} {bo : ByteOrder}
    (hk : f.kind = .phys start size (.array el es) bo) (rest : List String) :
    (step m o).read w (x :: rest) = none := by
  cases rest <;> simp only [step, hf, hk]

theorem step_read_virt {value : Expr} {req : Option Expr} (hk : f.kind = .virt value req) :
    (step m o).read w [x] = virtRead o w value req := by
  simp only [step, hf, hk]

theorem step_read_virt_deep {value : Expr} {req : Option Expr} (hk : f.kind = .virt value req)
    (y : String) (ys : List String) : (step m o).read w (x :: y :: ys) = none := by
  simp only [step, hf, hk]

theorem step_read_alias {t : List String} (hk : f.kind = .alias t) (rest : List String) :
    (step m o).read w (x :: rest) = if hasField o w f = some true then o.read w (t ++ rest) else none := by
  cases rest <;> simp only [step, hf, hk]

theorem step_has_struct {start size : Expr} {name : String} {bits : Nat} {args : Exprs} {bo : ByteOrder}
    (hk : f.kind = .phys start size (.struct name bits args) bo) (y : String) (ys : List String) :
    (step m o).has w (x :: y :: ys) =
      match subView o m w f start size name bits args bo with
      | some w' => o.has w' (y :: ys)
      | none => none := by
  simp only [step, hf, hk]
  cases subView o m w f start size name bits args bo <;> rfl

theorem step_has_alias {t : List String} (hk : f.kind = .alias t) (y : String) (ys : List String) :
    (step m o).has w (x :: y :: ys) =
      if hasField o w f = some true then o.has w (t ++ y :: ys) else none := by
  simp only [step, hf, hk]

theorem step_has_scalar_deep {start size : Expr} {k : ScalarKind} {bits : Nat}
    {req : Option Expr} {bo : ByteOrder} (hk : f.kind = .phys start size (.scalar k bits req) bo)
    (y : String) (ys : List String) : (step m o).has w (x :: y :: ys) = none := by
  simp only [step, hf, hk]

theorem step_has_array_deep {start size : Expr} {el : PType} {es : Nat} {bo : ByteOrder}
    (hk : f.kind = .phys start size (.array el es) bo)
    (y : String) (ys : List String) : (step m o).has w (x :: y :: ys) = none := by
  simp only [step, hf, hk]

theorem step_has_virt_deep {value : Expr} {req : Option Expr} (hk : f.kind = .virt value req)
    (y : String) (ys : List String) : (step m o).has w (x :: y :: ys) = none := by
  simp only [step, hf, hk]

end stepEqs

end Emboss.ViewRef
