/-
C11 helper lemmas, part 7: the table obligations evaluated on the interned table
(`tableTypedN`) imply the obligations on the table of strings (`tableTyped`).
-/
import Emboss.Spec.Fmt
namespace Emboss.Fmt

theorem getAll_map {α β : Type} (f : α → β) (l : List α) :
    ∀ (is : List Nat), getAll (l.map f) is = (getAll l is).map (List.map f) := by
  intro is
  induction is with
  | nil => rfl
  | cons i rest ih =>
    simp only [getAll, List.getElem?_map, ih]
    cases l[i]? <;> cases getAll l rest <;> rfl

theorem resolveN_eq (e : Nat × List Nat × String × Bool) (l : String) (r : List String) :
    resolve (l, r, e.2.2.1, e.2.2.2) = resolveN e := rfl

/-- One interned entry: if `entryOKN` accepts it, it decodes, and the decoded entry
passes `checkEntry`, `dropOK` and has a non-layout left-hand side. -/
theorem entryOKN_sound (syms : List String) (e : Nat × List Nat × String × Bool)
    (h : entryOKN (syms.map kindOf) (syms.map isLayoutSym) e = true) :
    ∃ d, decodeEntry syms e = some d ∧ checkEntry d = true ∧ dropOK d = true ∧
      isLayoutSym d.1 = false := by
  unfold entryOKN at h
  simp only [getAll_map, List.getElem?_map] at h
  cases hs : syms[e.1]? with
  | none => simp [hs] at h
  | some s =>
    cases hx : getAll syms e.2.1 with
    | none => simp [hs, hx] at h
    | some xs =>
      simp only [hs, hx, Option.map_some, Bool.and_eq_true, Bool.not_eq_true'] at h
      obtain ⟨⟨hc, hd⟩, hl⟩ := h
      refine ⟨(s, xs, e.2.2.1, e.2.2.2), ?_, ?_, ?_, hl⟩
      · simp only [decodeEntry, hs, hx]
      · simp only [checkEntry, resolveN_eq]; exact hc
      · simp only [dropOK, resolveN_eq]; exact hd

theorem tableTypedN_sound (syms : List String) :
    ∀ (tblN : List (Nat × List Nat × String × Bool)) (tbl : Table),
      decodeTable syms tblN = some tbl → tableTypedN syms tblN = true → tableTyped tbl = true := by
  have key : ∀ (tblN : List (Nat × List Nat × String × Bool)) (tbl : Table),
      decodeTable syms tblN = some tbl →
      tblN.all (entryOKN (syms.map kindOf) (syms.map isLayoutSym)) = true →
      ∀ d ∈ tbl, checkEntry d = true ∧ dropOK d = true ∧ isLayoutSym d.1 = false := by
    intro tblN
    induction tblN with
    | nil => intro tbl hd _ d hm; simp only [decodeTable, Option.some.injEq] at hd; subst hd; cases hm
    | cons e rest ih =>
      intro tbl hd hall d hm
      simp only [List.all_cons, Bool.and_eq_true] at hall
      obtain ⟨d0, hd0, hp⟩ := entryOKN_sound syms e hall.1
      simp only [decodeTable, hd0] at hd
      cases hr : decodeTable syms rest with
      | none => simp [hr] at hd
      | some tr =>
        simp only [hr, Option.some.injEq] at hd
        subst hd
        rcases List.mem_cons.mp hm with rfl | hm'
        · exact hp
        · exact ih tr hr hall.2 d hm'
  intro tblN tbl hdec h
  have hk := key tblN tbl hdec h
  simp only [tableTyped, Bool.and_eq_true, List.all_eq_true, Bool.not_eq_true']
  exact ⟨⟨fun d hm => (hk d hm).1, fun d hm => (hk d hm).2.1⟩, fun d hm => (hk d hm).2.2⟩

end Emboss.Fmt
