/-
Helper lemmas for C12: the list of visible scopes (`Ctx.visible`) is duplicate-free exactly
when the anonymously imported files are pairwise distinct and the module is not among them.
-/
import Emboss.Spec.Scope
namespace Emboss.Scope

theorem mem_typeChain (m : String) (ts : List String) (p : Path) :
    p ∈ typeChain m ts ↔ ∃ k, k ≤ ts.length ∧ p = m :: ts.take k := by
  unfold typeChain
  simp only [List.mem_map, List.mem_reverse, List.mem_range]
  constructor
  · intro ⟨k, hk, hp⟩
    exact ⟨k, by omega, hp.symm⟩
  · intro ⟨k, hk, hp⟩
    exact ⟨k, by omega, hp.symm⟩

theorem typeChain_nodup (m : String) (ts : List String) : (typeChain m ts).Nodup := by
  unfold typeChain
  rw [List.nodup_iff_pairwise_ne, List.pairwise_map]
  have h : ((List.range (ts.length + 1)).reverse).Pairwise (fun a b => a ≠ b) := by
    rw [List.pairwise_reverse]
    have := List.nodup_range (n := ts.length + 1)
    rw [List.nodup_iff_pairwise_ne] at this
    exact this.imp (fun h => Ne.symm h)
  refine h.imp_of_mem ?_
  intro a b ha hb hab heq
  simp only [List.mem_reverse, List.mem_range] at ha hb
  have := congrArg List.length heq
  simp only [List.length_cons, List.length_take] at this
  omega

theorem map_singleton_nodup_iff (l : List String) :
    (l.map (fun f => [f])).Nodup ↔ l.Nodup := by
  rw [List.nodup_iff_pairwise_ne, List.nodup_iff_pairwise_ne, List.pairwise_map]
  constructor
  · intro h
    exact h.imp (fun hab heq => hab (by rw [heq]))
  · intro h
    exact h.imp (fun hab heq => hab (by simpa using heq))

/-- `Ctx.visible` (the `visible_scopes` tuple `_set_visible_scopes_for_*` builds) has no
repeated scope iff the anonymous imports are pairwise distinct files other than the module
itself. -/
theorem visible_nodup_iff (c : Ctx) :
    c.visible.Nodup ↔ c.anon.Nodup ∧ c.module ∉ c.anon := by
  unfold Ctx.visible
  rw [List.nodup_append, List.nodup_append, map_singleton_nodup_iff]
  constructor
  · intro ⟨_, hB, hdis⟩
    refine ⟨hB, ?_⟩
    intro hm
    have h1 : [c.module] ∈ (match c.attrField with
        | some f => [c.module :: c.types ++ [f]]
        | none => []) ++ typeChain c.module c.types :=
      List.mem_append_right _ ((mem_typeChain ..).2 ⟨0, by omega, by simp⟩)
    have h2 : [c.module] ∈ c.anon.map (fun f => [f]) := List.mem_map.2 ⟨_, hm, rfl⟩
    exact hdis _ h1 _ h2 rfl
  · intro ⟨hB, hm⟩
    refine ⟨⟨?_, typeChain_nodup _ _, ?_⟩, hB, ?_⟩
    · cases c.attrField <;> simp
    · intro a ha b hb hab
      cases hf : c.attrField with
      | none => rw [hf] at ha; cases ha
      | some f =>
        rw [hf] at ha
        simp only [List.mem_singleton] at ha
        obtain ⟨k, hk, hb⟩ := (mem_typeChain ..).1 hb
        have := congrArg List.length (ha.symm.trans (hab.trans hb))
        simp only [List.cons_append, List.length_cons, List.length_append, List.length_nil,
          List.length_take] at this
        omega
    · intro a ha b hb hab
      obtain ⟨f, hf, rfl⟩ := List.mem_map.1 hb
      rcases List.mem_append.1 ha with ha | ha
      · cases hf' : c.attrField with
        | none => rw [hf'] at ha; cases ha
        | some g =>
          rw [hf'] at ha
          simp only [List.mem_singleton] at ha
          have := congrArg List.length (ha.symm.trans hab)
          simp only [List.cons_append, List.length_cons, List.length_append, List.length_nil] at this
          omega
      · obtain ⟨k, _, hk⟩ := (mem_typeChain ..).1 ha
        rw [hab] at hk
        simp only [List.cons.injEq] at hk
        exact hm (hk.1 ▸ hf)

end Emboss.Scope
