/-
Lemmas for the C04 text-buffer theorem, part 3: `writeInt` never produces more characters than
the scratch array of `WriteIntegerToTextStream` holds (size formula from the header text:
Generated/TextBuf.lean), hence every index of the access trace is inside the array.
-/
import Emboss.Lemmas.TextBuf
import Emboss.Lemmas.TextBufCount

namespace Emboss.Text
open Emboss.Generated.TextBuf

/-- Upper bound on the number of digits of a `T` value in `base`. -/
def digitBound (T : IntTy) : Base → Nat
  | .b2 => T.bits
  | .b16 => T.bits / 4
  | .b10 => match T.bits with
    | 8 => 3
    | 16 => 5
    | 32 => 10
    | _ => 20

theorem natAbs_lt_pow_digitBound (T : IntTy) (x : Int) (base : Base) (hx : T.InRange x) :
    x.natAbs < base.toNat ^ digitBound T base := by
  obtain ⟨h1, h2⟩ := hx
  cases T <;> cases base <;>
    simp only [IntTy.minVal, IntTy.maxVal] at h1 h2 <;>
    simp only [Base.toNat, digitBound, IntTy.bits, Nat.reduceDiv, Nat.reducePow] <;> omega

/-- Characters of `writeInt` in terms of the digit bound: prefix + sign + digits + separators. -/
theorem writeInt_length_le (T : IntTy) (x : Int) (base : Base) (g : Bool) (hx : T.InRange x) :
    (writeInt T x base g).length ≤
      (basePrefix base).length + (if T.signed then 1 else 0) +
        (digitBound T base + (digitBound T base - 1) / groupSize base.toNat) := by
  have hK : 1 ≤ digitBound T base := by cases T <;> cases base <;> decide
  have hb : base.toNat = 2 ∨ base.toNat = 10 ∨ base.toNat = 16 := by cases base <;> simp [Base.toNat]
  have hbody := writeBody_length_le T x base.toNat g (digitBound T base) hb hK
    (natAbs_lt_pow_digitBound T x base hx)
  unfold writeInt
  simp only
  by_cases hneg : x < 0
  · have hs : T.signed = true := by
      have := hx.1
      cases T <;> simp [IntTy.minVal, IntTy.signed] at * <;> omega
    simp only [hneg, if_true, hs, List.length_cons, List.length_append]
    omega
  · simp only [hneg, if_false, List.length_append]
    split <;> omega

/-- **The longest text plus its NUL fits the array** whose size the header computes. -/
theorem writeInt_length_succ_le_bufferSize (T : IntTy) (x : Int) (base : Base) (g : Bool)
    (hx : T.InRange x) : (writeInt T x base g).length + 1 ≤ bufferSize T.bits := by
  have h := writeInt_length_le T x base g hx
  -- closed numerals per (type, base); the size is only bounded from below, so that a header
  -- that allocates *more* still satisfies the obligation
  have g2 : groupSize 2 = 8 := by decide
  have g10 : groupSize 10 = 3 := by decide
  have g16 : groupSize 16 = 4 := by decide
  have s8 : 12 ≤ bufferSize 8 := by decide
  have s16 : 21 ≤ bufferSize 16 := by decide
  have s32 : 39 ≤ bufferSize 32 := by decide
  have s64 : 75 ≤ bufferSize 64 := by decide
  cases T <;> cases base <;>
    simp only [basePrefix, IntTy.signed, digitBound, IntTy.bits, Base.toNat, g2, g10, g16,
      List.length_cons, List.length_nil, if_true, Bool.false_eq_true, if_false] at h ⊢ <;>
    omega

/-- Every index of the access trace lies inside an array of `bufferSize T.bits` chars. -/
theorem writeIntTrace_in_bounds (T : IntTy) (x : Int) (base : Base) (g : Bool) (hx : T.InRange x) :
    ∀ i ∈ writeIntTrace (bufferSize T.bits) T x base g,
      0 ≤ i ∧ i < (bufferSize T.bits : Int) := by
  have hp := textBuf_parsed
  have hn : nulBack = 1 := by decide
  have hf : firstBack = 2 := by decide
  have hlen := writeInt_length_succ_le_bufferSize T x base g hx
  intro i hi
  rw [writeIntTrace_eq, hn, hf] at hi
  generalize bufferSize T.bits = size at *
  generalize (writeInt T x base g).length = n at *
  simp only [List.mem_cons, List.mem_append, List.mem_map, List.mem_range, List.mem_nil_iff,
    or_false] at hi
  rcases hi with rfl | ⟨k, hk, rfl⟩ | rfl <;> omega

end Emboss.Text
