import Emboss.Lemmas.DepsMore
namespace Emboss.Deps

theorem lexLe_antisymm : ∀ a b : List Nat, lexLe a b = true → lexLe b a = true → a = b
  | [], [], _, _ => rfl
  | [], _ :: _, _, h => by simp [lexLe] at h
  | _ :: _, [], h, _ => by simp [lexLe] at h
  | a :: as, b :: bs, h1, h2 => by
    simp only [lexLe] at h1 h2
    by_cases hab : a < b
    · have : ¬ b < a := by omega
      simp [hab, this] at h2
    · by_cases hba : b < a
      · simp [hab, hba] at h1
      · have : a = b := by omega
        subst this
        simp only [hab, if_false] at h1 h2
        rw [lexLe_antisymm as bs h1 h2]

/-- Sorting is a function of the multiset. -/
theorem isort_eq_of_perm {α} (le : α → α → Bool) (htot : ∀ a b, le a b = true ∨ le b a = true)
    (htr : ∀ a b c, le a b = true → le b c = true → le a c = true)
    (hanti : ∀ a b, le a b = true → le b a = true → a = b) {l l' : List α} (h : l.Perm l') :
    isort le l = isort le l' :=
  List.Perm.eq_of_pairwise (le := fun a b => le a b = true) (fun a b _ _ => hanti a b)
    (isort_sorted le htot htr l) (isort_sorted le htot htr l')
    ((isort_perm le l).trans (h.trans (isort_perm le l').symm))

theorem sortNat_eq_of_perm {l l' : List Nat} (h : l.Perm l') :
    isort (fun a b => decide (a ≤ b)) l = isort (fun a b => decide (a ≤ b)) l' :=
  isort_eq_of_perm _ (fun a b => by simp; omega) (fun a b c h1 h2 => by simp at h1 h2 ⊢; omega)
    (fun a b h1 h2 => by simp at h1 h2; omega) h

/-- The error groups are determined by the set of components: if two duplicate-free,
pairwise disjoint families of non-empty duplicate-free components cover each other
(member-wise), the emitted groups are equal. -/
theorem cycleGroups_canonical (cs cs' : List (List Nat))
    (hnd : ∀ C ∈ cs, C.Nodup ∧ C ≠ []) (hnd' : ∀ C ∈ cs', C.Nodup ∧ C ≠ [])
    (hdj : cs.Pairwise (fun C D => ∀ a ∈ C, a ∉ D)) (hdj' : cs'.Pairwise (fun C D => ∀ a ∈ C, a ∉ D))
    (h : ∀ C ∈ cs, ∃ C' ∈ cs', ∀ x, x ∈ C ↔ x ∈ C')
    (h' : ∀ C' ∈ cs', ∃ C ∈ cs, ∀ x, x ∈ C' ↔ x ∈ C) : cycleGroups cs = cycleGroups cs' := by
  let srt := isort fun a b : Nat => decide (a ≤ b)
  have hmem : ∀ (C : List Nat) x, x ∈ srt C ↔ x ∈ C := fun C x => (isort_perm _ C).mem_iff
  -- the sorted components are pairwise different
  have key : ∀ (ds : List (List Nat)), (∀ C ∈ ds, C.Nodup ∧ C ≠ []) →
      ds.Pairwise (fun C D => ∀ a ∈ C, a ∉ D) → (ds.map srt).Nodup := by
    intro ds hn hd
    refine (List.pairwise_map.mpr (hd.imp_of_mem ?_))
    intro C D hC _ hCD heq
    obtain ⟨a, ha⟩ := List.exists_mem_of_ne_nil C (hn C hC).2
    have : a ∈ srt D := heq ▸ (hmem C a).mpr ha
    exact hCD a ha ((hmem D a).mp this)
  -- both families have the same sorted components
  have sub : ∀ (ds ds' : List (List Nat)), (∀ C ∈ ds, C.Nodup ∧ C ≠ []) → (∀ C ∈ ds', C.Nodup ∧ C ≠ []) →
      (∀ C ∈ ds, ∃ C' ∈ ds', ∀ x, x ∈ C ↔ x ∈ C') → ∀ G, G ∈ ds.map srt → G ∈ ds'.map srt := by
    intro ds ds' hn hn' hc G hG
    obtain ⟨C, hC, rfl⟩ := List.mem_map.mp hG
    obtain ⟨C', hC', hx⟩ := hc C hC
    have hp : C.Perm C' := (List.perm_ext_iff_of_nodup (hn C hC).1 (hn' C' hC').1).mpr hx
    exact List.mem_map.mpr ⟨C', hC', (sortNat_eq_of_perm hp).symm⟩
  have hperm : (cs.map srt).Perm (cs'.map srt) :=
    (List.perm_ext_iff_of_nodup (key cs hnd hdj) (key cs' hnd' hdj')).mpr
      (fun G => ⟨sub cs cs' hnd hnd' h G, sub cs' cs hnd' hnd h' G⟩)
  exact isort_eq_of_perm lexLe lexLe_total lexLe_trans lexLe_antisymm hperm

end Emboss.Deps
