import Emboss.Lemmas.Types
namespace Emboss.Types

theorem append_eq_nil' {α} {a b : List α} : a ++ b = [] ↔ a = [] ∧ b = [] := List.append_eq_nil_iff

theorem argErr_nil {file : FileId} {want : Ty} {i : Nat} {a : Expr} {t : Ty} :
    argErr file want i a t = [] ↔ t = want := by
  unfold argErr; split <;> simp_all

theorem cmpAcc_not_none {op : BinOp} : cmpAcceptable op .none = false := by
  cases op <;> rfl

/-- characterisation of acceptance for a binary operator in terms of its operands' results -/
theorem bin_ok (file : FileId) (l : Loc) (op : BinOp) (a b : Expr) (τ : Ty) :
    Ok (tc file (.bin l op a b)) τ ↔
      (tc file a).errs = [] ∧ (tc file b).errs = [] ∧
      ((op.isCmp = true ∧ cmpAcceptable op (tc file a).ty = true ∧ (tc file a).ty = (tc file b).ty ∧ τ = .bool) ∨
       (op.isCmp = false ∧ (tc file a).ty = op.mono ∧ (tc file b).ty = op.mono ∧ τ = op.mono)) := by
  simp only [tc, Ok]
  repeat' split
  all_goals simp_all [argErr_nil]
  all_goals grind

theorem choice_ok (file : FileId) (l : Loc) (c t f : Expr) (τ : Ty) :
    Ok (tc file (.choice l c t f)) τ ↔
      (tc file c).errs = [] ∧ (tc file t).errs = [] ∧ (tc file f).errs = [] ∧
      (tc file c).ty = .bool ∧ (tc file t).ty.isValue = true ∧ (tc file t).ty = (tc file f).ty ∧
      τ = (tc file t).ty := by
  simp only [tc, Ok]
  repeat' split
  all_goals simp_all
  all_goals grind

theorem fn_ok (file : FileId) (l : Loc) (f : Fn) (args : List Expr) (τ : Ty) :
    Ok (tc file (.fn l f args)) τ ↔
      (tcList file args).errs = [] ∧
      fnArgErrs file f 0 args (tcList file args).tys = [] ∧ f.arityOk args.length = true ∧ τ = f.result := by
  simp only [tc, Ok]
  split
  all_goals simp_all
  all_goals grind

/-- a typed expression has *some* type: never `none` -/
theorem hasType_ne_none {c : Bool} {e : Expr} {τ : Ty} (h : HasType c e τ) : τ ≠ .none := by
  induction h with
  | lparam => rename_i t; cases t <;> simp [DTy.toTy]
  | lphys => rename_i t; cases t <;> simp [DTy.toTy]
  | choice _ hv _ _ _ iht _ => exact iht
  | lvirt _ ih => exact ih
  | cvirt _ ih => exact ih
  | _ => simp

mutual
theorem tc_iff (e : Expr) : ∀ (file : FileId) (τ : Ty), Ok (tc file e) τ ↔ HasType true e τ :=
  match e with
  | .num l => fun file τ => by
    simp only [tc, Res.pure, Ok, true_and]
    exact ⟨fun h => h ▸ .num, fun h => by cases h; rfl⟩
  | .boolc l => fun file τ => by
    simp only [tc, Res.pure, Ok, true_and]
    exact ⟨fun h => h ▸ .boolc, fun h => by cases h; rfl⟩
  | .enumv l n => fun file τ => by
    simp only [tc, Res.pure, Ok, true_and]
    exact ⟨fun h => h ▸ .enumv, fun h => by cases h; rfl⟩
  | .cphys l df dl => fun file τ => by
    simp only [tc, Ok]
    exact ⟨fun h => by simp at h, fun h => by cases h⟩
  | .cother l => fun file τ => by
    simp only [tc, Ok]
    exact ⟨fun h => by simp at h, fun h => by cases h⟩
  | .lparamArr l => fun file τ => by
    simp only [tc, Res.pure, Ok, true_and]
    exact ⟨fun h => h ▸ .lparamArr, fun h => by cases h; rfl⟩
  | .lparam l t => fun file τ => by
    simp only [tc, Res.pure, Ok, true_and]
    exact ⟨fun h => h ▸ .lparam, fun h => by cases h; rfl⟩
  | .lphys l t => fun file τ => by
    simp only [tc, Res.pure, Ok, true_and]
    exact ⟨fun h => h ▸ .lphys, fun h => by cases h; rfl⟩
  | .builtin l b => fun file τ => by
    cases b
    · simp only [tc, Res.pure, Ok, true_and]
      exact ⟨fun h => h ▸ .builtinB, fun h => by cases h; rfl⟩
    · simp only [tc, Res.pure, Ok, true_and]
      exact ⟨fun h => h ▸ .builtinI, fun h => by cases h; rfl⟩
    · simp only [tc, Ok]
      exact ⟨fun h => by simp at h, fun h => by cases h⟩
  | .cvirt l df d => fun file τ => by
    have ih := tc_iff d df τ
    simp only [tc]
    exact ⟨fun h => .cvirt (ih.1 h), fun h => by cases h with | cvirt hd => exact ih.2 hd⟩
  | .lvirt l df d => fun file τ => by
    have ih := tc_iff d df τ
    simp only [tc]
    exact ⟨fun h => .lvirt (ih.1 h), fun h => by cases h with | lvirt hd => exact ih.2 hd⟩
  | .bin l op a b => fun file τ => by
    have iha := tc_iff a file
    have ihb := tc_iff b file
    rw [bin_ok]
    constructor
    · rintro ⟨ea, eb, h⟩
      have ha := (iha (tc file a).ty).1 ⟨ea, rfl⟩
      have hb := (ihb (tc file b).ty).1 ⟨eb, rfl⟩
      rcases h with ⟨hc, hacc, hty, rfl⟩ | ⟨hc, h1, h2, rfl⟩
      · rw [← hty] at hb
        by_cases he : op.isEquality = true
        · simp only [cmpAcceptable, he, if_true] at hacc
          exact .equal (by cases op <;> simp_all [BinOp.isEquality, BinOp.isEq]) hacc ha hb
        · have ho : op.isOrd := by cases op <;> simp_all [BinOp.isEquality, BinOp.isOrd, BinOp.isCmp]
          simp only [cmpAcceptable, he, Bool.false_eq_true, if_false] at hacc
          cases hta : (tc file a).ty <;> simp [hta] at hacc
          · rw [hta] at ha hb; exact .order ho ha hb
          · rw [hta] at ha hb; exact .orderEnum rfl ho ha hb
      · rw [h1] at ha; rw [h2] at hb
        cases op <;> simp [BinOp.isCmp] at hc <;> simp only [BinOp.mono] at ha hb ⊢
        · exact .arith (.inl rfl) ha hb
        · exact .arith (.inr (.inl rfl)) ha hb
        · exact .arith (.inr (.inr rfl)) ha hb
        · exact .logic (.inl rfl) ha hb
        · exact .logic (.inr rfl) ha hb
    · intro h
      cases h with
      | arith ho ha hb =>
        obtain ⟨ea, ta⟩ := (iha _).2 ha
        obtain ⟨eb, tb⟩ := (ihb _).2 hb
        refine ⟨ea, eb, .inr ?_⟩
        rcases ho with rfl | rfl | rfl <;> simp [BinOp.isCmp, BinOp.mono, ta, tb]
      | logic ho ha hb =>
        obtain ⟨ea, ta⟩ := (iha _).2 ha
        obtain ⟨eb, tb⟩ := (ihb _).2 hb
        refine ⟨ea, eb, .inr ?_⟩
        rcases ho with rfl | rfl <;> simp [BinOp.isCmp, BinOp.mono, ta, tb]
      | equal ho hv ha hb =>
        obtain ⟨ea, ta⟩ := (iha _).2 ha
        obtain ⟨eb, tb⟩ := (ihb _).2 hb
        refine ⟨ea, eb, .inl ?_⟩
        rcases ho with rfl | rfl <;> simp [BinOp.isCmp, cmpAcceptable, BinOp.isEquality, ta, tb, hv]
      | order ho ha hb =>
        obtain ⟨ea, ta⟩ := (iha _).2 ha
        obtain ⟨eb, tb⟩ := (ihb _).2 hb
        refine ⟨ea, eb, .inl ?_⟩
        rcases ho with rfl | rfl | rfl | rfl <;> simp [BinOp.isCmp, cmpAcceptable, BinOp.isEquality, ta, tb]
      | orderEnum _ ho ha hb =>
        obtain ⟨ea, ta⟩ := (iha _).2 ha
        obtain ⟨eb, tb⟩ := (ihb _).2 hb
        refine ⟨ea, eb, .inl ?_⟩
        rcases ho with rfl | rfl | rfl | rfl <;> simp [BinOp.isCmp, cmpAcceptable, BinOp.isEquality, ta, tb]
  | .choice l c t f => fun file τ => by
    have ihc := tc_iff c file
    have iht := tc_iff t file
    have ihf := tc_iff f file
    rw [choice_ok]
    constructor
    · rintro ⟨ec, et, ef, hb, hv, hty, rfl⟩
      have hc := (ihc _).1 ⟨ec, hb⟩
      have ht := (iht (tc file t).ty).1 ⟨et, rfl⟩
      have hf := (ihf (tc file t).ty).1 ⟨ef, hty.symm⟩
      exact .choice hc hv ht hf
    · intro h
      cases h with
      | choice hc hv ht hf =>
        obtain ⟨ec, tc'⟩ := (ihc _).2 hc
        obtain ⟨et, tt⟩ := (iht _).2 ht
        obtain ⟨ef, tf⟩ := (ihf _).2 hf
        exact ⟨ec, et, ef, tc', tt ▸ hv, tt.trans tf.symm, tt.symm⟩
  | .fn l f args => fun file τ => by
    have ih := tcList_iff args file
    rw [fn_ok]
    have hlen := tcList_length file args
    constructor
    · rintro ⟨e, ha, har, rfl⟩
      have hall := (ih _).1 ⟨e, rfl⟩
      cases f with
      | present =>
        match args, hall, ha, har with
        | [a], hall, ha, _ =>
          cases hall with
          | cons h1 _ =>
            simp only [tcList] at ha
            exact .present ((fnArgErrs_present _ _ _ _).1 ha) h1
        | [], _, _, har => simp [Fn.arityOk] at har
        | _ :: _ :: _, _, _, har => simp [Fn.arityOk] at har
      | max =>
        have hint := (fnArgErrs_int file .max (by decide) 0 args _ hlen).1 ha
        rw [eq_replicate_of_all hint, hlen] at hall
        refine .max ?_ ((allTyped_replicate args .int).1 hall)
        intro h; simp [h, Fn.arityOk] at har
      | upper =>
        have hint := (fnArgErrs_int file .upper (by decide) 0 args _ hlen).1 ha
        rw [eq_replicate_of_all hint, hlen] at hall
        have := (allTyped_replicate args .int).1 hall
        match args, har, this with
        | [a], _, this => exact .upper (this a (by simp))
        | [], har, _ => simp [Fn.arityOk] at har
        | _ :: _ :: _, har, _ => simp [Fn.arityOk] at har
      | lower =>
        have hint := (fnArgErrs_int file .lower (by decide) 0 args _ hlen).1 ha
        rw [eq_replicate_of_all hint, hlen] at hall
        have := (allTyped_replicate args .int).1 hall
        match args, har, this with
        | [a], _, this => exact .lower (this a (by simp))
        | [], har, _ => simp [Fn.arityOk] at har
        | _ :: _ :: _, har, _ => simp [Fn.arityOk] at har
    · intro h
      cases h with
      | max hne hall =>
        have h2 := (allTyped_replicate args .int).2 hall
        obtain ⟨e, t⟩ := (ih _).2 h2
        refine ⟨e, ?_, ?_, rfl⟩
        · rw [fnArgErrs_int file .max (by decide) 0 args _ hlen, t]
          intro x hx; exact List.eq_of_mem_replicate hx
        · cases args <;> simp_all [Fn.arityOk]
      | present hfr ha =>
        rename_i a τa
        have h2 : AllTyped true [a] [τa] := .cons ha .nil
        obtain ⟨e, t⟩ := (ih _).2 h2
        refine ⟨e, ?_, by simp [Fn.arityOk], rfl⟩
        rw [t]; exact (fnArgErrs_present _ _ _ _).2 hfr
      | upper ha =>
        rename_i a
        have h2 : AllTyped true [a] [.int] := .cons ha .nil
        obtain ⟨e, t⟩ := (ih _).2 h2
        refine ⟨e, ?_, by simp [Fn.arityOk], rfl⟩
        rw [t]; simp [fnArgErrs, argErr]
      | lower ha =>
        rename_i a
        have h2 : AllTyped true [a] [.int] := .cons ha .nil
        obtain ⟨e, t⟩ := (ih _).2 h2
        refine ⟨e, ?_, by simp [Fn.arityOk], rfl⟩
        rw [t]; simp [fnArgErrs, argErr]
theorem tcList_iff (es : List Expr) :
    ∀ (file : FileId) τs, ((tcList file es).errs = [] ∧ (tcList file es).tys = τs) ↔ AllTyped true es τs :=
  match es with
  | [] => fun file τs => by
    simp only [tcList, true_and]
    exact ⟨fun h => h ▸ .nil, fun h => by cases h; rfl⟩
  | e :: es => fun file τs => by
    have ih1 := tc_iff e file
    have ih2 := tcList_iff es file
    simp only [tcList, append_eq_nil']
    constructor
    · rintro ⟨⟨e1, e2⟩, rfl⟩
      exact .cons ((ih1 _).1 ⟨e1, rfl⟩) ((ih2 _).1 ⟨e2, rfl⟩)
    · intro h
      cases h with
      | cons h1 h2 =>
        obtain ⟨e1, t1⟩ := (ih1 _).2 h1
        obtain ⟨e2, t2⟩ := (ih2 _).2 h2
        exact ⟨⟨e1, e2⟩, by rw [t1, t2]⟩
end

end Emboss.Types
