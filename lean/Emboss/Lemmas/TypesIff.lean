import Emboss.Lemmas.Types
namespace Emboss.Types

theorem append_eq_nil' {α} {a b : List α} : a ++ b = [] ↔ a = [] ∧ b = [] := List.append_eq_nil_iff

theorem argErr_nil {want : Ty} {i : Nat} {a : Expr} {t : Ty} : argErr want i a t = [] ↔ t = want := by
  unfold argErr; split <;> simp_all

theorem cmpAcc_not_absent {op : BinOp} : cmpAcceptable op .absent = false := by
  cases op <;> rfl

/-- characterisation of acceptance for a binary operator in terms of its operands' results -/
theorem bin_ok (l : Loc) (op : BinOp) (a b : Expr) (τ : Ty) :
    Ok (tc (.bin l op a b)) τ ↔
      (tc a).errs = [] ∧ (tc a).crash = none ∧ (tc b).errs = [] ∧ (tc b).crash = none ∧
      ((op.isCmp = true ∧ cmpAcceptable op (tc a).ty = true ∧ (tc a).ty = (tc b).ty ∧ τ = .bool) ∨
       (op.isCmp = false ∧ (tc a).ty = op.mono ∧ (tc b).ty = op.mono ∧ τ = op.mono)) := by
  simp only [tc, Ok]
  have := @cmpAcc_not_absent op
  repeat' split
  all_goals simp_all [argErr_nil, orCrash_none]
  all_goals grind

theorem choice_ok (l : Loc) (c t f : Expr) (τ : Ty) :
    Ok (tc (.choice l c t f)) τ ↔
      (tc c).errs = [] ∧ (tc c).crash = none ∧ (tc t).errs = [] ∧ (tc t).crash = none ∧
      (tc f).errs = [] ∧ (tc f).crash = none ∧
      (tc c).ty = .bool ∧ (tc t).ty.isValue = true ∧ (tc t).ty = (tc f).ty ∧ τ = (tc t).ty := by
  simp only [tc, Ok]
  have h0 : Ty.absent.isValue = false := rfl
  repeat' split
  all_goals simp_all [orCrash_none]
  all_goals grind

theorem fn_ok (l : Loc) (f : Fn) (args : List Expr) (τ : Ty) :
    Ok (tc (.fn l f args)) τ ↔
      (tcList args).errs = [] ∧ (tcList args).crash = none ∧
      fnArgErrs f 0 args (tcList args).tys = [] ∧ f.arityOk args.length = true ∧ τ = f.result := by
  simp only [tc, Ok]
  split
  all_goals simp_all
  all_goals grind

theorem hasType_annotated {c : Bool} {e : Expr} {τ : Ty} (h : HasType c e τ) : τ.annotated = true := by
  induction h with
  | lparam => rename_i t; cases t <;> rfl
  | lphys => rename_i t; cases t <;> rfl
  | choice _ hv _ _ _ iht _ => exact iht
  | _ => first | rfl | assumption

mutual
theorem tc_iff (e : Expr) : ∀ τ, Ok (tc e) τ ↔ HasType true e τ :=
  match e with
  | .num l => fun τ => by
    simp only [tc, Res.pure, Ok, true_and]
    exact ⟨fun h => h ▸ .num, fun h => by cases h; rfl⟩
  | .boolc l => fun τ => by
    simp only [tc, Res.pure, Ok, true_and]
    exact ⟨fun h => h ▸ .boolc, fun h => by cases h; rfl⟩
  | .enumv l n => fun τ => by
    simp only [tc, Res.pure, Ok, true_and]
    exact ⟨fun h => h ▸ .enumv, fun h => by cases h; rfl⟩
  | .cphys l dl => fun τ => by
    simp only [tc, Ok]
    exact ⟨fun h => by simp at h, fun h => by cases h⟩
  | .cother l => fun τ => by
    simp only [tc, Ok]
    exact ⟨fun h => by simp at h, fun h => by cases h⟩
  | .lparamArr l => fun τ => by
    simp only [tc, Ok]
    exact ⟨fun h => by simp at h, fun h => by cases h⟩
  | .lparam l t => fun τ => by
    simp only [tc, Res.pure, Ok, true_and]
    exact ⟨fun h => h ▸ .lparam, fun h => by cases h; rfl⟩
  | .lphys l t => fun τ => by
    simp only [tc, Res.pure, Ok, true_and]
    exact ⟨fun h => h ▸ .lphys, fun h => by cases h; rfl⟩
  | .builtin l b => fun τ => by
    simp only [tc, Res.pure, Ok, true_and]
    cases b
    · exact ⟨fun h => h ▸ .builtinI, fun h => by cases h; rfl⟩
    · exact ⟨fun h => h ▸ .builtinB, fun h => by cases h; rfl⟩
  | .cvirt l d => fun τ => by
    have ih := tc_iff d
    simp only [tc, Ok]
    constructor
    · rintro ⟨h1, h2, h3⟩
      have hd := (ih (tc d).ty).1 ⟨h1, h2, rfl⟩
      have ha := hasType_annotated hd
      have : (tc d).ty.copied = (tc d).ty := by cases h : (tc d).ty <;> simp_all [Ty.copied, Ty.annotated]
      rw [this] at h3; exact h3 ▸ .cvirt hd
    · intro h; cases h with
      | cvirt hd =>
        obtain ⟨h1, h2, h3⟩ := (ih τ).2 hd
        have ha := hasType_annotated hd
        refine ⟨h1, h2, ?_⟩
        rw [h3]; cases τ <;> simp_all [Ty.copied, Ty.annotated]
  | .lvirt l d => fun τ => by
    have ih := tc_iff d
    simp only [tc, Ok]
    constructor
    · rintro ⟨h1, h2, h3⟩
      have h1' : (tc d).errs = [] := by
        by_cases ha : (tc d).ty.annotated = true <;> simp_all
      have hd := (ih (tc d).ty).1 ⟨h1', h2, rfl⟩
      have ha := hasType_annotated hd
      have : (tc d).ty.copied = (tc d).ty := by cases h : (tc d).ty <;> simp_all [Ty.copied, Ty.annotated]
      rw [this] at h3; exact h3 ▸ .lvirt hd
    · intro h; cases h with
      | lvirt hd =>
        obtain ⟨h1, h2, h3⟩ := (ih τ).2 hd
        have ha := hasType_annotated hd
        refine ⟨by simp [h1], h2, ?_⟩
        rw [h3]; cases τ <;> simp_all [Ty.copied, Ty.annotated]
  | .bin l op a b => fun τ => by
    have iha := tc_iff a
    have ihb := tc_iff b
    rw [bin_ok]
    constructor
    · rintro ⟨ea, ca, eb, cb, h⟩
      have ha := (iha (tc a).ty).1 ⟨ea, ca, rfl⟩
      have hb := (ihb (tc b).ty).1 ⟨eb, cb, rfl⟩
      rcases h with ⟨hc, hacc, hty, rfl⟩ | ⟨hc, h1, h2, rfl⟩
      · rw [← hty] at hb
        by_cases he : op.isEquality = true
        · simp only [cmpAcceptable, he, if_true] at hacc
          exact .equal (by cases op <;> simp_all [BinOp.isEquality, BinOp.isEq]) hacc ha hb
        · have ho : op.isOrd := by cases op <;> simp_all [BinOp.isEquality, BinOp.isOrd, BinOp.isCmp]
          simp only [cmpAcceptable, he, Bool.false_eq_true, if_false] at hacc
          cases hta : (tc a).ty <;> simp [hta] at hacc
          · rw [hta] at ha hb; exact .order ho ha hb
          · rw [hta] at ha hb; exact .orderEnum rfl ho ha hb
      · rw [h1] at ha; rw [h2] at hb
        cases op <;> simp [BinOp.isCmp] at hc <;> simp only [BinOp.mono] at ha hb ⊢
        · exact .arith (.inl rfl) ha hb
        · exact .arith (.inr (.inl rfl)) ha hb
        · exact .arith (.inr (.inr rfl)) ha hb
        · exact .logic (.inl rfl) ha hb
        · exact .logic (.inr rfl) ha hb
    · intro h
      cases h with
      | arith ho ha hb =>
        obtain ⟨ea, ca, ta⟩ := (iha _).2 ha
        obtain ⟨eb, cb, tb⟩ := (ihb _).2 hb
        refine ⟨ea, ca, eb, cb, .inr ?_⟩
        rcases ho with rfl | rfl | rfl <;> simp [BinOp.isCmp, BinOp.mono, ta, tb]
      | logic ho ha hb =>
        obtain ⟨ea, ca, ta⟩ := (iha _).2 ha
        obtain ⟨eb, cb, tb⟩ := (ihb _).2 hb
        refine ⟨ea, ca, eb, cb, .inr ?_⟩
        rcases ho with rfl | rfl <;> simp [BinOp.isCmp, BinOp.mono, ta, tb]
      | equal ho hv ha hb =>
        obtain ⟨ea, ca, ta⟩ := (iha _).2 ha
        obtain ⟨eb, cb, tb⟩ := (ihb _).2 hb
        refine ⟨ea, ca, eb, cb, .inl ?_⟩
        rcases ho with rfl | rfl <;> simp [BinOp.isCmp, cmpAcceptable, BinOp.isEquality, ta, tb, hv]
      | order ho ha hb =>
        obtain ⟨ea, ca, ta⟩ := (iha _).2 ha
        obtain ⟨eb, cb, tb⟩ := (ihb _).2 hb
        refine ⟨ea, ca, eb, cb, .inl ?_⟩
        rcases ho with rfl | rfl | rfl | rfl <;> simp [BinOp.isCmp, cmpAcceptable, BinOp.isEquality, ta, tb]
      | orderEnum _ ho ha hb =>
        obtain ⟨ea, ca, ta⟩ := (iha _).2 ha
        obtain ⟨eb, cb, tb⟩ := (ihb _).2 hb
        refine ⟨ea, ca, eb, cb, .inl ?_⟩
        rcases ho with rfl | rfl | rfl | rfl <;> simp [BinOp.isCmp, cmpAcceptable, BinOp.isEquality, ta, tb]
  | .choice l c t f => fun τ => by
    have ihc := tc_iff c
    have iht := tc_iff t
    have ihf := tc_iff f
    rw [choice_ok]
    constructor
    · rintro ⟨ec, cc, et, ct, ef, cf, hb, hv, hty, rfl⟩
      have hc := (ihc _).1 ⟨ec, cc, hb⟩
      have ht := (iht (tc t).ty).1 ⟨et, ct, rfl⟩
      have hf := (ihf (tc t).ty).1 ⟨ef, cf, hty.symm⟩
      exact .choice hc hv ht hf
    · intro h
      cases h with
      | choice hc hv ht hf =>
        obtain ⟨ec, cc, tc'⟩ := (ihc _).2 hc
        obtain ⟨et, ct, tt⟩ := (iht _).2 ht
        obtain ⟨ef, cf, tf⟩ := (ihf _).2 hf
        exact ⟨ec, cc, et, ct, ef, cf, tc', tt ▸ hv, tt.trans tf.symm, tt.symm⟩
  | .fn l f args => fun τ => by
    have ih := tcList_iff args
    rw [fn_ok]
    have hlen := tcList_length args
    constructor
    · rintro ⟨e, c, ha, har, rfl⟩
      have hall := (ih _).1 ⟨e, c, rfl⟩
      cases f with
      | present =>
        match args, hall, ha, har with
        | [a], hall, ha, _ =>
          cases hall with
          | cons h1 _ =>
            simp only [tcList] at ha
            exact .present ((fnArgErrs_present _ _ _).1 ha) h1
        | [], _, _, har => simp [Fn.arityOk] at har
        | _ :: _ :: _, _, _, har => simp [Fn.arityOk] at har
      | max =>
        have hint := (fnArgErrs_int .max (by decide) 0 args _ hlen).1 ha
        rw [eq_replicate_of_all hint, hlen] at hall
        refine .max ?_ ((allTyped_replicate args .int).1 hall)
        intro h; simp [h, Fn.arityOk] at har
      | upper =>
        have hint := (fnArgErrs_int .upper (by decide) 0 args _ hlen).1 ha
        rw [eq_replicate_of_all hint, hlen] at hall
        have := (allTyped_replicate args .int).1 hall
        match args, har, this with
        | [a], _, this => exact .upper (this a (by simp))
        | [], har, _ => simp [Fn.arityOk] at har
        | _ :: _ :: _, har, _ => simp [Fn.arityOk] at har
      | lower =>
        have hint := (fnArgErrs_int .lower (by decide) 0 args _ hlen).1 ha
        rw [eq_replicate_of_all hint, hlen] at hall
        have := (allTyped_replicate args .int).1 hall
        match args, har, this with
        | [a], _, this => exact .lower (this a (by simp))
        | [], har, _ => simp [Fn.arityOk] at har
        | _ :: _ :: _, har, _ => simp [Fn.arityOk] at har
    · intro h
      cases h with
      | max hne hall =>
        have h2 := (allTyped_replicate args .int).2 hall
        obtain ⟨e, c, t⟩ := (ih _).2 h2
        refine ⟨e, c, ?_, ?_, rfl⟩
        · rw [fnArgErrs_int .max (by decide) 0 args _ hlen, t]
          intro x hx; exact List.eq_of_mem_replicate hx
        · cases args <;> simp_all [Fn.arityOk]
      | present hfr ha =>
        rename_i a τa
        have h2 : AllTyped true [a] [τa] := .cons ha .nil
        obtain ⟨e, c, t⟩ := (ih _).2 h2
        refine ⟨e, c, ?_, by simp [Fn.arityOk], rfl⟩
        rw [t]; exact (fnArgErrs_present _ _ _).2 hfr
      | upper ha =>
        rename_i a
        have h2 : AllTyped true [a] [.int] := .cons ha .nil
        obtain ⟨e, c, t⟩ := (ih _).2 h2
        refine ⟨e, c, ?_, by simp [Fn.arityOk], rfl⟩
        rw [t]; simp [fnArgErrs, argErr]
      | lower ha =>
        rename_i a
        have h2 : AllTyped true [a] [.int] := .cons ha .nil
        obtain ⟨e, c, t⟩ := (ih _).2 h2
        refine ⟨e, c, ?_, by simp [Fn.arityOk], rfl⟩
        rw [t]; simp [fnArgErrs, argErr]
theorem tcList_iff (es : List Expr) :
    ∀ τs, ((tcList es).errs = [] ∧ (tcList es).crash = none ∧ (tcList es).tys = τs) ↔ AllTyped true es τs :=
  match es with
  | [] => fun τs => by
    simp only [tcList, true_and]
    exact ⟨fun h => h ▸ .nil, fun h => by cases h; rfl⟩
  | e :: es => fun τs => by
    have ih1 := tc_iff e
    have ih2 := tcList_iff es
    simp only [tcList, append_eq_nil', orCrash_none]
    constructor
    · rintro ⟨⟨e1, e2⟩, ⟨c1, c2⟩, rfl⟩
      exact .cons ((ih1 _).1 ⟨e1, c1, rfl⟩) ((ih2 _).1 ⟨e2, c2, rfl⟩)
    · intro h
      cases h with
      | cons h1 h2 =>
        obtain ⟨e1, c1, t1⟩ := (ih1 _).2 h1
        obtain ⟨e2, c2, t2⟩ := (ih2 _).2 h2
        exact ⟨⟨e1, e2⟩, ⟨c1, c2⟩, by rw [t1, t2]⟩
end

end Emboss.Types
