import Emboss.Lemmas.TarjanInv
namespace Emboss.Deps

theorem mem_stack_ne {g : Graph} {s : TState} (h : Inv g s) {v w : Nat} (hv : indexed s v = false)
    (hw : w ∈ s.stack) : w ≠ v := by
  intro e; subst e
  have := h.stkIdx w hw
  simp [hv] at this

theorem indexed_ne {s : TState} {v w : Nat} (hv : indexed s v = false) (hw : indexed s w = true) :
    w ≠ v := by
  intro e; subst e; simp [hv] at hw

theorem Inv.push {g : Graph} {s : TState} (h : Inv g s) (v : Nat) (hv : indexed s v = false) :
    Inv g (push v s) := by
  have hne : ∀ w ∈ s.stack, w ≠ v := fun w hw => mem_stack_ne h hv hw
  refine { onst := ?_, sorted := ?_, stkIdx := ?_, idxLt := ?_, low := ?_, doneClosed := ?_,
           compsOk := ?_, compsDisj := h.compsDisj, compsAll := ?_, noOof := h.noOof }
  · simp [h.onst]
  · simp only [stack_push, List.pairwise_cons, ix_push, if_true]
    refine ⟨fun b hb => ?_, ?_⟩
    · simp only [hne b hb, if_false]
      exact h.idxLt b (h.stkIdx b hb)
    · refine h.sorted.imp_of_mem ?_
      intro a b ha hb hab
      simp only [hne a ha, hne b hb, if_false]
      exact hab
  · intro w hw
    simp only [stack_push, List.mem_cons] at hw
    simp only [indexed_push]
    rcases hw with rfl | hw
    · simp
    · simp [h.stkIdx w hw]
  · intro w hw
    simp only [indexed_push, Bool.or_eq_true, beq_iff_eq] at hw
    simp only [ix_push, next_push]
    by_cases hwv : w = v
    · simp [hwv]
    · simp only [hwv, if_false]
      have := h.idxLt w (by simpa [hwv] using hw)
      omega
  · intro w hw
    simp only [stack_push, List.mem_cons] at hw
    simp only [lw_push, ix_push, stack_push]
    by_cases hwv : w = v
    · subst hwv
      simp only [if_true]
      exact ⟨Nat.le_refl _, w, by simp, by simp, .refl _⟩
    · simp only [hwv, if_false]
      have hw' : w ∈ s.stack := by simpa [hwv] using hw
      obtain ⟨h1, y, hy, hy2, hy3⟩ := h.low w hw'
      refine ⟨h1, y, List.mem_cons_of_mem _ hy, ?_, hy3⟩
      simp only [hne y hy, if_false]; exact hy2
  · intro w d hw hws he
    simp only [stack_push, List.mem_cons, not_or] at hws
    simp only [indexed_push, Bool.or_eq_true, beq_iff_eq] at hw
    have hw' : indexed s w = true := by simpa [hws.1] using hw
    obtain ⟨h1, h2⟩ := h.doneClosed w d hw' hws.2 he
    refine ⟨by simp [h1], ?_⟩
    simp only [stack_push, List.mem_cons, not_or]
    exact ⟨indexed_ne hv h1, h2⟩
  · intro C hC
    obtain ⟨h1, h2, h3, h4⟩ := h.compsOk C hC
    refine ⟨fun a ha => ?_, h2, h3, h4⟩
    obtain ⟨ha1, ha2⟩ := h1 a ha
    refine ⟨by simp [ha1], ?_⟩
    simp only [stack_push, List.mem_cons, not_or]
    exact ⟨indexed_ne hv ha1, ha2⟩
  · intro w hw hws hc
    simp only [stack_push, List.mem_cons, not_or] at hws
    simp only [indexed_push, Bool.or_eq_true, beq_iff_eq] at hw
    have hw' : indexed s w = true := by simpa [hws.1] using hw
    exact h.compsAll w hw' hws.2 hc

theorem LoopInv.init {g : Graph} {s : TState} (h : Inv g s) (v : Nat) (hv : indexed s v = false) :
    LoopInv g v s (push v s) (fun _ => False) := by
  refine { inv := h.push v hv, old := ?_, vidx := ?_, vnew := hv, succIdx := ?_, stk := ?_,
           proc := fun d hd => hd.elim }
  · intro w hw
    have := indexed_ne hv hw
    simp [hw, this]
  · simp
  · intro w d hw hws hwv
    simp only [indexed_push, Bool.or_eq_true, beq_iff_eq] at hw
    rcases hw with hw | hw
    · exact absurd hw hwv
    · simp [hw] at hws
  · exact ⟨[], by simp, by simp⟩

end Emboss.Deps
