/-
C11 helper lemmas, part 14 (work towards the normal form modulo trailing blanks of
Comment tokens): strings equal up to trailing blanks, rows/blocks related column-wise,
and the global passes respect the relation.
-/
import Emboss.Lemmas.FmtIdem
namespace Emboss.Fmt

/-! ### strings -/

theorem dropWhile_append' {α : Type} (p : α → Bool) : ∀ (a b : List α),
    (a ++ b).dropWhile p = if a.dropWhile p = [] then b.dropWhile p else a.dropWhile p ++ b := by
  intro a
  induction a with
  | nil => intro b; simp
  | cons x a ih =>
    intro b
    by_cases hx : p x = true
    · simp only [List.cons_append, List.dropWhile_cons, hx, if_true, ih]
    · simp [List.dropWhile_cons, hx]

theorem rstrip_append (p c : Str) : rstrip (p ++ c) = if rstrip c = [] then rstrip p else p ++ rstrip c := by
  unfold rstrip
  rw [List.reverse_append, dropWhile_append']
  by_cases h : c.reverse.dropWhile isPySpace = []
  · simp [h]
  · simp [h]

theorem rstrip_append_congr {c c' : Str} (p : Str) (h : rstrip c = rstrip c') :
    rstrip (p ++ c) = rstrip (p ++ c') := by
  rw [rstrip_append, rstrip_append, h]

theorem rstrip_spaces (k : Nat) : rstrip (spaces k) = [] := by
  unfold rstrip spaces
  have : ∀ l : List Char, (∀ x ∈ l, isPySpace x = true) → l.dropWhile isPySpace = [] := by
    intro l
    induction l with
    | nil => intro _; rfl
    | cons x l ih =>
      intro h
      simp only [List.dropWhile_cons, h x (by simp), if_true]
      exact ih (fun y hy => h y (by simp [hy]))
  rw [this]
  · rfl
  · intro x hx
    simp only [List.reverse_replicate, List.mem_replicate] at hx
    rw [hx.2]; decide

theorem rstrip_append_spaces (c : Str) (k : Nat) : rstrip (c ++ spaces k) = rstrip c := by
  rw [rstrip_append, rstrip_spaces]; simp

/-- Strings equal up to trailing blanks, and empty together. -/
def CRel (c c' : Str) : Prop := rstrip c = rstrip c' ∧ (c = [] ↔ c' = [])

theorem CRel.refl (c : Str) : CRel c c := ⟨rfl, Iff.rfl⟩

theorem CRel.prepend {c c' : Str} (p : Str) (hp : p ≠ []) (h : CRel c c') : CRel (p ++ c) (p ++ c') :=
  ⟨rstrip_append_congr p h.1, by simp [hp]⟩

/-! ### a list relation -/

inductive All₂ {α : Type} (R : α → α → Prop) : List α → List α → Prop
  | nil : All₂ R [] []
  | cons {a b : α} {as bs : List α} : R a b → All₂ R as bs → All₂ R (a :: as) (b :: bs)

theorem All₂.length_eq {α : Type} {R : α → α → Prop} {l l' : List α} (h : All₂ R l l') : l.length = l'.length := by
  induction h with
  | nil => rfl
  | cons _ _ ih => simp [ih]

theorem All₂.isEmpty_eq {α : Type} {R : α → α → Prop} {l l' : List α} (h : All₂ R l l') : l.isEmpty = l'.isEmpty := by
  cases h <;> rfl

theorem All₂.append {α : Type} {R : α → α → Prop} {a a' b b' : List α} (h : All₂ R a a') (hb : All₂ R b b') :
    All₂ R (a ++ b) (a' ++ b') := by
  induction h with
  | nil => exact hb
  | cons hab _ ih => exact All₂.cons hab ih

theorem All₂.reverse {α : Type} {R : α → α → Prop} {l l' : List α} (h : All₂ R l l') :
    All₂ R l.reverse l'.reverse := by
  induction h with
  | nil => exact All₂.nil
  | cons hab _ ih => simp only [List.reverse_cons]; exact ih.append (All₂.cons hab All₂.nil)

theorem All₂.map {α : Type} {R : α → α → Prop} (f : α → α) (hf : ∀ a b, R a b → R (f a) (f b))
    {l l' : List α} (h : All₂ R l l') : All₂ R (l.map f) (l'.map f) := by
  induction h with
  | nil => exact All₂.nil
  | cons hab _ ih => exact All₂.cons (hf _ _ hab) ih

theorem All₂.dropWhile {α : Type} {R : α → α → Prop} (p : α → Bool) (hp : ∀ a b, R a b → p a = p b)
    {l l' : List α} (h : All₂ R l l') : All₂ R (l.dropWhile p) (l'.dropWhile p) := by
  induction h with
  | nil => exact All₂.nil
  | @cons a b as bs hab hrest ih =>
    simp only [List.dropWhile_cons, ← hp a b hab]
    split
    · exact ih
    · exact All₂.cons hab hrest

theorem All₂.refl {α : Type} {R : α → α → Prop} (hr : ∀ a, R a a) : ∀ l : List α, All₂ R l l
  | [] => All₂.nil
  | a :: l => All₂.cons (hr a) (All₂.refl hr l)

theorem All₂.filter_length {α : Type} {R : α → α → Prop} (p : α → Bool) (hp : ∀ a b, R a b → p a = p b)
    {l l' : List α} (h : All₂ R l l') : (l.filter p).length = (l'.filter p).length := by
  induction h with
  | nil => rfl
  | @cons a b as bs hab _ ih =>
    simp only [List.filter_cons, ← hp a b hab]
    split <;> simp [ih]

/-! ### rows -/

/-- Columns equal except that the last ones are `CRel`. -/
def ColsRel : List Str → List Str → Prop
  | [], [] => True
  | [c], [c'] => CRel c c'
  | c :: d :: cs, c' :: d' :: cs' => c = c' ∧ ColsRel (d :: cs) (d' :: cs')
  | _, _ => False

theorem ColsRel.refl : ∀ cs : List Str, ColsRel cs cs
  | [] => trivial
  | [c] => CRel.refl c
  | c :: d :: cs => ⟨rfl, ColsRel.refl (d :: cs)⟩

theorem ColsRel.length_eq : ∀ {cs cs' : List Str}, ColsRel cs cs' → cs.length = cs'.length
  | [], [], _ => rfl
  | [_], [_], _ => rfl
  | _ :: d :: cs, _ :: d' :: cs', h => by
    have := ColsRel.length_eq (cs := d :: cs) (cs' := d' :: cs') h.2
    simp only [List.length_cons] at this ⊢; omega
  | [], _ :: _, h => by simp [ColsRel] at h
  | _ :: _, [], h => by simp [ColsRel] at h
  | [_], _ :: _ :: _, h => by simp [ColsRel] at h
  | _ :: _ :: _, [_], h => by simp [ColsRel] at h

theorem ColsRel.isEmpty_eq {cs cs' : List Str} (h : ColsRel cs cs') : cs.isEmpty = cs'.isEmpty := by
  have := h.length_eq
  cases cs <;> cases cs' <;> simp at this ⊢

/-- Flattened: equal up to trailing blanks behind any prefix, and empty together. -/
theorem ColsRel.flatten : ∀ {cs cs' : List Str}, ColsRel cs cs' →
    (∀ p : Str, rstrip (p ++ cs.flatten) = rstrip (p ++ cs'.flatten)) ∧ (cs.flatten = [] ↔ cs'.flatten = [])
  | [], [], _ => ⟨fun _ => rfl, Iff.rfl⟩
  | [c], [c'], h => by
    simp only [List.flatten_cons, List.flatten_nil, List.append_nil]
    exact ⟨fun p => rstrip_append_congr p h.1, h.2⟩
  | c :: d :: cs, c' :: d' :: cs', h => by
    obtain ⟨rfl, h2⟩ := h
    obtain ⟨ih1, ih2⟩ := ColsRel.flatten (cs := d :: cs) (cs' := d' :: cs') h2
    constructor
    · intro p
      have := ih1 (p ++ c)
      simpa [List.append_assoc] using this
    · simp only [List.flatten_cons, List.append_eq_nil_iff] at ih2 ⊢
      constructor
      · rintro ⟨h1, h3⟩; exact ⟨h1, ih2.1 h3⟩
      · rintro ⟨h1, h3⟩; exact ⟨h1, ih2.2 h3⟩
  | [], _ :: _, h => by simp [ColsRel] at h
  | _ :: _, [], h => by simp [ColsRel] at h
  | [_], _ :: _ :: _, h => by simp [ColsRel] at h
  | _ :: _ :: _, [_], h => by simp [ColsRel] at h

structure RowRel (r r' : Row) : Prop where
  name : r.name = r'.name
  indent : r.indent = r'.indent
  cols : ColsRel r.columns r'.columns

theorem RowRel.refl (r : Row) : RowRel r r := ⟨rfl, rfl, ColsRel.refl _⟩

abbrev RowsRel := All₂ RowRel

theorem RowRel.colsEmpty {r r' : Row} (h : RowRel r r') : r.columns.isEmpty = r'.columns.isEmpty :=
  h.cols.isEmpty_eq

theorem RowRel.blank {r r' : Row} (h : RowRel r r') : rowBlank r = rowBlank r' := by
  unfold rowBlank
  have := h.cols.flatten.2
  cases h1 : r.columns.flatten <;> cases h2 : r'.columns.flatten <;> simp_all

theorem RowRel.indentRow {r r' : Row} (h : RowRel r r') : RowRel (indentRow r) (indentRow r') :=
  ⟨h.name, by show r.indent + 1 = r'.indent + 1; rw [h.indent], h.cols⟩

theorem RowsRel.indentRows {l l' : List Row} (h : RowsRel l l') : RowsRel (indentRows l) (indentRows l') :=
  All₂.map indentRow (fun _ _ hab => RowRel.indentRow hab) h

theorem RowsRel.stripEmpty {l l' : List Row} (h : RowsRel l l') : RowsRel (stripEmptyRows l) (stripEmptyRows l') := by
  unfold stripEmptyRows
  exact ((h.dropWhile _ (fun _ _ hr => hr.colsEmpty)).reverse.dropWhile _ (fun _ _ hr => hr.colsEmpty)).reverse

/-! ### passes -/

theorem RowsRel.intersperseAux (sep : List Row) : ∀ {secs secs' : List (List Row)}, All₂ RowsRel secs secs' →
    ∀ {acc acc' : List Row}, RowsRel acc acc' →
      RowsRel (intersperseAux sep acc secs) (Emboss.Fmt.intersperseAux sep acc' secs') := by
  intro secs secs' h
  induction h with
  | nil => intro acc acc' ha; exact ha
  | @cons s s' rest rest' hs _ ih =>
    intro acc acc' ha
    simp only [Emboss.Fmt.intersperseAux, ← hs.isEmpty_eq, ← ha.isEmpty_eq]
    split
    · exact ih ha
    · split
      · exact ih (ha.append hs)
      · exact ih ((ha.append (All₂.refl RowRel.refl sep)).append hs)

theorem RowsRel.intersperse (sep : List Row) {secs secs' : List (List Row)} (h : All₂ RowsRel secs secs') :
    RowsRel (intersperse sep secs) (Emboss.Fmt.intersperse sep secs') :=
  RowsRel.intersperseAux sep h All₂.nil

theorem RowsRel.indentBlanksRev : ∀ {l l' : List Row}, RowsRel l l' → ∀ prev,
    RowsRel (indentBlanksRev prev l) (Emboss.Fmt.indentBlanksRev prev l') := by
  intro l l' h
  induction h with
  | nil => intro _; exact All₂.nil
  | @cons r r' rest rest' hr _ ih =>
    intro prev
    simp only [Emboss.Fmt.indentBlanksRev, ← hr.blank, ← hr.name]
    split
    · exact All₂.cons ⟨rfl, rfl, hr.cols⟩ (ih prev)
    · rw [hr.indent]; exact All₂.cons hr (ih _)

theorem RowsRel.indentBlanksAndComments {l l' : List Row} (h : RowsRel l l') :
    RowsRel (indentBlanksAndComments l) (Emboss.Fmt.indentBlanksAndComments l') :=
  (RowsRel.indentBlanksRev h.reverse 0).reverse

theorem RowsRel.addBlankRowsAux : ∀ {l l' : List Row}, RowsRel l l' → ∀ pi pb,
    RowsRel (addBlankRowsAux pi pb l) (Emboss.Fmt.addBlankRowsAux pi pb l') := by
  intro l l' h
  induction h with
  | nil => intro _ _; exact All₂.nil
  | @cons r r' rest rest' hr _ ih =>
    intro pi pb
    simp only [Emboss.Fmt.addBlankRowsAux, ← hr.blank, ← hr.indent]
    split
    · exact All₂.cons (RowRel.refl _) (All₂.cons hr (ih _ _))
    · exact All₂.cons hr (ih _ _)

theorem RowsRel.renderRows (iw : Nat) : ∀ {l l' : List Row}, RowsRel l l' → renderRows iw l = Emboss.Fmt.renderRows iw l' := by
  intro l l' h
  induction h with
  | nil => rfl
  | @cons r r' rest rest' hr _ ih =>
    have h1 : renderRow iw r = renderRow iw r' := by
      simp only [renderRow, hr.cols.length_eq, hr.indent, hr.cols.flatten.1]
    simp only [Emboss.Fmt.renderRows, h1, ih]

end Emboss.Fmt
