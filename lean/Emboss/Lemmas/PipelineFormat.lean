/-
C16 — `_Message.format` / `format_errors`: totality and the caret line.
-/
import Emboss.Lemmas.Pipeline
namespace Emboss.Pipeline

theorem sourceLine_ok (m : Msg) (sources : List (String × Text)) :
    ∃ t, sourceLine m sources = .ok t := by
  unfold sourceLine
  split
  · exact ⟨_, rfl⟩
  · split
    · exact ⟨_, rfl⟩
    · rename_i src _
      simp only
      split
      · rename_i hguard
        have hlt : m.loc.sl - 1 < (pySplitlines src).length := by omega
        rw [List.getElem?_eq_getElem hlt]
        exact ⟨_, rfl⟩
      · exact ⟨_, rfl⟩

theorem formatWith_ok (src : Text) (m : Msg) : ∃ r, formatWith (.ok src) m = .ok r := by
  unfold formatWith
  simp only
  split <;> exact ⟨_, rfl⟩

theorem formatMsg_ok (m : Msg) (sources : List (String × Text)) :
    ∃ r, formatMsg m sources = .ok r := by
  obtain ⟨t, ht⟩ := sourceLine_ok m sources
  unfold formatMsg
  rw [ht]
  exact formatWith_ok t m

theorem formatMsgs_ok (sources : List (String × Text)) :
    ∀ g : Group, ∃ r, formatMsgs sources g = .ok r := by
  intro g
  induction g with
  | nil => exact ⟨_, rfl⟩
  | cons m ms ih =>
    obtain ⟨p, hp⟩ := formatMsg_ok m sources
    obtain ⟨ps, hps⟩ := ih
    exact ⟨p :: ps, by simp [formatMsgs, hp, hps]⟩

theorem formatGroups_ok (useColor : Bool) (sources : List (String × Text)) :
    ∀ es : Errors, (∀ g ∈ es, g ≠ []) → ∃ r, formatGroups useColor sources es = .ok r := by
  intro es
  induction es with
  | nil => intro _; exact ⟨_, rfl⟩
  | cons g gs ih =>
    intro h
    have hg : g.isEmpty = false := by
      cases g with
      | nil => exact absurd rfl (h [] (by simp))
      | cons a t => rfl
    obtain ⟨ps, hps⟩ := formatMsgs_ok sources g
    obtain ⟨rest, hrest⟩ := ih (fun g' hg' => h g' (List.mem_cons_of_mem _ hg'))
    exact ⟨ps.map (renderPieces useColor) ++ rest, by simp [formatGroups, hg, hps, hrest]⟩

theorem formatGroups_empty_group (useColor : Bool) (sources : List (String × Text)) :
    ∀ es : Errors, [] ∈ es → formatGroups useColor sources es = .error .emptyGroup := by
  intro es
  induction es with
  | nil => intro h; cases h
  | cons g gs ih =>
    intro h
    cases g with
    | nil => simp [formatGroups]
    | cons a t =>
      have hmem : [] ∈ gs := by
        rcases List.mem_cons.mp h with h | h
        · cases h
        · exact h
      obtain ⟨ps, hps⟩ := formatMsgs_ok sources (a :: t)
      simp [formatGroups, hps, ih hmem]

theorem indicator_length (l : Loc) (h : l.sl = l.el) :
    (indicator l).length = (l.sc - 1) + max 1 (l.ec - l.sc) := by
  simp [indicator, caret, h]

theorem results_from_pass : ∀ (ps : List (Pass σ)) (s : σ), ∀ r ∈ results ps s,
    ∃ p ∈ ps, ∃ s', r = (p.run s').2 := by
  intro ps
  induction ps with
  | nil => intro s r hr; simp [results] at hr
  | cons p ps ih =>
    intro s r hr
    simp only [results, List.mem_cons] at hr
    rcases hr with rfl | hr
    · exact ⟨p, by simp, s, rfl⟩
    · obtain ⟨q, hq, s', hs'⟩ := ih _ r hr
      exact ⟨q, List.mem_cons_of_mem _ hq, s', hs'⟩

end Emboss.Pipeline
