/-
Helper lemmas for C19: a declarative description of what the loop of
`_generate_enum_definition` (model: `stepNames` / `stepValues`) appends.
-/
import Emboss.Model.Enum
namespace Emboss.Enum
open Emboss.CppInt

/-- Inner loop when the number has been seen already: only enumerators and strcmp lines. -/
theorem stepNames_seen (emboss : Name) (v : Int) (xs : List Name) (g : Gen) (seen : List Int)
    (h : v ∈ seen) :
    stepNames emboss v ⟨g, seen⟩ xs =
      ⟨{ g with
          enumerators := g.enumerators ++ xs.map (fun x => (x, v))
          fromName := g.fromName ++ xs.map (fun x => (emboss, x)) }, seen⟩ := by
  induction xs generalizing g with
  | nil => simp [stepNames]
  | cons x xs ih =>
    have hc : seen.contains v = true := List.contains_iff_mem.mpr h
    simp only [stepNames, hc, Bool.not_true, Bool.false_eq_true, if_false]
    rw [ih]
    simp [List.append_assoc]

/-- Inner loop on a fresh number: the first spelling gets the `case` labels. -/
theorem stepNames_fresh (emboss : Name) (v : Int) (x : Name) (xs : List Name) (g : Gen)
    (seen : List Int) (h : v ∉ seen) :
    stepNames emboss v ⟨g, seen⟩ (x :: xs) =
      ⟨{ g with
          enumerators := g.enumerators ++ (x :: xs).map (fun x => (x, v))
          fromName := g.fromName ++ (x :: xs).map (fun x => (emboss, x))
          toName := g.toName ++ [(x, emboss)]
          known := g.known ++ [x] }, seen ++ [v]⟩ := by
  have hc : seen.contains v = false := by
    cases hcv : seen.contains v with
    | false => rfl
    | true => exact absurd (List.contains_iff_mem.mp hcv) h
  simp only [stepNames, hc, Bool.not_false, if_true]
  rw [stepNames_seen]
  · simp [List.append_assoc]
  · simp

end Emboss.Enum

namespace Emboss.Enum
open Emboss.CppInt

/-- The outer loop with the spellings of each value given by a function. -/
def runLoop (nm : Value → List Name) : LoopState → List Value → LoopState
  | st, [] => st
  | st, v :: vs => runLoop nm (stepNames v.name v.value st (nm v)) vs

theorem stepValues_eq_runLoop (dflt : Option (List Char)) (nm : Value → List Name)
    (vs : List Value) (st : LoopState)
    (h : ∀ v ∈ vs, enumeratorNames v.name (effectiveCase v.attrs dflt) = some (nm v)) :
    stepValues dflt st vs = some (runLoop nm st vs) := by
  induction vs generalizing st with
  | nil => rfl
  | cons v vs ih =>
    simp only [stepValues, runLoop, h v (List.mem_cons_self ..)]
    exact ih _ (fun w hw => h w (List.mem_cons_of_mem _ hw))

/-- `NAME = value,` lines. -/
def enumsOf (nm : Value → List Name) (vs : List Value) : List (Name × Int) :=
  vs.flatMap (fun v => (nm v).map (fun x => (x, v.value)))

/-- strcmp lines. -/
def fromOf (nm : Value → List Name) (vs : List Value) : List (Name × Name) :=
  vs.flatMap (fun v => (nm v).map (fun x => (v.name, x)))

/-- `case` labels: the first spelling of every value whose number has not been seen. -/
def toOf (nm : Value → List Name) : List Int → List Value → List (Name × Name)
  | _, [] => []
  | seen, v :: vs =>
    if v.value ∈ seen then toOf nm seen vs
    else match nm v with
      | [] => toOf nm seen vs
      | x :: _ => (x, v.name) :: toOf nm (seen ++ [v.value]) vs

theorem runLoop_spec (nm : Value → List Name) (vs : List Value)
    (hne : ∀ v ∈ vs, nm v ≠ []) (g : Gen) (seen : List Int) :
    (runLoop nm ⟨g, seen⟩ vs).gen.ty = g.ty ∧
    (runLoop nm ⟨g, seen⟩ vs).gen.enumerators = g.enumerators ++ enumsOf nm vs ∧
    (runLoop nm ⟨g, seen⟩ vs).gen.fromName = g.fromName ++ fromOf nm vs ∧
    (runLoop nm ⟨g, seen⟩ vs).gen.toName = g.toName ++ toOf nm seen vs ∧
    (runLoop nm ⟨g, seen⟩ vs).gen.known = g.known ++ (toOf nm seen vs).map (·.1) := by
  induction vs generalizing g seen with
  | nil => simp [runLoop, enumsOf, fromOf, toOf]
  | cons v vs ih =>
    have hv := hne v (List.mem_cons_self ..)
    have hvs : ∀ w ∈ vs, nm w ≠ [] := fun w hw => hne w (List.mem_cons_of_mem _ hw)
    obtain ⟨x, xs, hx⟩ : ∃ x xs, nm v = x :: xs := by
      cases hnm : nm v with
      | nil => exact absurd hnm hv
      | cons x xs => exact ⟨x, xs, rfl⟩
    by_cases hs : v.value ∈ seen
    · simp only [runLoop, stepNames_seen _ _ _ _ _ hs]
      obtain ⟨h1, h2, h3, h4, h5⟩ := ih hvs _ seen
      refine ⟨h1, ?_, ?_, ?_, ?_⟩
      · rw [h2]; simp [enumsOf, List.append_assoc]
      · rw [h3]; simp [fromOf, List.append_assoc]
      · rw [h4]; simp [toOf, hs]
      · rw [h5]; simp [toOf, hs]
    · simp only [runLoop, hx, stepNames_fresh _ _ _ _ _ _ hs]
      obtain ⟨h1, h2, h3, h4, h5⟩ := ih hvs _ (seen ++ [v.value])
      refine ⟨h1, ?_, ?_, ?_, ?_⟩
      · rw [h2]; simp [enumsOf, hx, List.append_assoc]
      · rw [h3]; simp [fromOf, hx, List.append_assoc]
      · rw [h4]; simp [toOf, hs, hx, List.append_assoc]
      · rw [h5]; simp [toOf, hs, hx, List.append_assoc]

end Emboss.Enum
