/-
C18 helper lemmas, part 1: decimal strings and `SourceLocation.__str__` / `from_str`.
-/
import Emboss.Model.Json
namespace Emboss.Json

theorem natChars_ne_nil (n : Nat) : natChars n ≠ [] := Nat.toDigits_ne_nil

theorem isDigit_of_mem_natChars {n : Nat} {c : Char} (h : c ∈ natChars n) : c.isDigit = true :=
  Nat.isDigit_of_mem_toDigits (by decide) (by decide) h

theorem natChars_all_digit (n : Nat) : (natChars n).all Char.isDigit = true := by
  rw [List.all_eq_true]
  intro c hc
  exact isDigit_of_mem_natChars hc

theorem parseNat_natChars (n : Nat) : parseNat (natChars n) = some n := by
  unfold parseNat
  have h1 : (natChars n).isEmpty = false := by
    cases h : natChars n with
    | nil => exact absurd h (natChars_ne_nil n)
    | cons _ _ => rfl
  simp only [h1, natChars_all_digit, Bool.not_false, Bool.and_self, if_true]
  simp [natChars]

theorem not_digit_of_eq {c d : Char} (hd : d.isDigit = false) (h : c.isDigit = true) : c ≠ d := by
  rintro rfl
  rw [hd] at h
  cases h

theorem sep_not_mem_natChars {n : Nat} {d : Char} (hd : d.isDigit = false) : d ∉ natChars n := by
  intro h
  exact not_digit_of_eq hd (isDigit_of_mem_natChars h) rfl

/-- `"-12"`, `"0"`, `"340282366920938463463374607431768211456"` …: the decimal form denotes
the integer, for integers of any magnitude. -/
theorem parseInt_intChars (i : Int) : parseInt (intChars i) = some i := by
  cases i with
  | ofNat n =>
    unfold intChars parseInt
    have hne : ∀ rest, natChars n ≠ '-' :: rest := by
      intro rest h
      have : '-' ∈ natChars n := by rw [h]; exact List.mem_cons_self
      exact sep_not_mem_natChars (by decide) this
    split
    · rename_i rest heq
      exact absurd heq (hne rest)
    · simp [parseNat_natChars]
  | negSucc n =>
    simp only [intChars, parseInt, parseNat_natChars]
    rfl

/-! ### `splitOn` -/

theorem splitOn_ne_nil (sep : Char) (cs : List Char) : splitOn sep cs ≠ [] := by
  induction cs with
  | nil => simp [splitOn]
  | cons c cs ih =>
    unfold splitOn
    split
    · simp
    · split <;> simp

theorem splitOn_of_not_mem {sep : Char} {a : List Char} (h : sep ∉ a) : splitOn sep a = [a] := by
  induction a with
  | nil => rfl
  | cons c cs ih =>
    have hc : c ≠ sep := fun e => h (e ▸ List.mem_cons_self)
    have hcs : sep ∉ cs := fun m => h (List.mem_cons_of_mem _ m)
    simp [splitOn, hc, ih hcs]

theorem splitOn_append {sep : Char} {a : List Char} (b : List Char) (h : sep ∉ a) :
    splitOn sep (a ++ sep :: b) = a :: splitOn sep b := by
  induction a with
  | nil => simp [splitOn]
  | cons c cs ih =>
    have hc : c ≠ sep := fun e => h (e ▸ List.mem_cons_self)
    have hcs : sep ∉ cs := fun m => h (List.mem_cons_of_mem _ m)
    simp [splitOn, hc, ih hcs]

/-! ### positions -/

theorem Pos.fromChars_toChars (p : Pos) (h : p.ok = true) : Pos.fromChars p.toChars = some p := by
  unfold Pos.fromChars Pos.toChars
  rw [splitOn_append _ (sep_not_mem_natChars (by decide)),
    splitOn_of_not_mem (sep_not_mem_natChars (by decide))]
  simp only [parseNat_natChars, mkPos, h, if_true]

theorem colon_dash_not_mem_posChars (p : Pos) : '-' ∉ p.toChars := by
  unfold Pos.toChars
  intro h
  rw [List.mem_append, List.mem_cons] at h
  rcases h with h | h | h
  · exact sep_not_mem_natChars (by decide) h
  · cases h
  · exact sep_not_mem_natChars (by decide) h

/-- The last character of a position's text is a digit. -/
theorem Pos.toChars_getLast (p : Pos) :
    ∃ init c, p.toChars = init ++ [c] ∧ c.isDigit = true := by
  unfold Pos.toChars
  have hne := natChars_ne_nil p.column
  refine ⟨natChars p.line ++ ':' :: (natChars p.column).dropLast,
    (natChars p.column).getLast hne, ?_, ?_⟩
  · conv => lhs; rw [← List.dropLast_concat_getLast hne]
    simp
  · exact isDigit_of_mem_natChars (List.getLast_mem hne)

/-! ### locations -/

theorem getLast?_snoc {α} (l : List α) (a : α) : (l ++ [a]).getLast? = some a := by simp

theorem dropLast_snoc {α} (l : List α) (a : α) : (l ++ [a]).dropLast = l := by simp

/-- `SourceLocation.from_str(str(l)) == l` for every location the constructor admits — all
four flag combinations, including the falsy `0:0-0:0`. -/
theorem Loc.fromChars_toChars (l : Loc) (h : l.ok = true) : Loc.fromChars l.toChars = some l := by
  obtain ⟨s, e, dis, syn⟩ := l
  have hok := h
  simp only [Loc.ok, Bool.and_eq_true] at h
  obtain ⟨⟨⟨hs, he⟩, _⟩, _⟩ := h
  obtain ⟨init, c, hc, hdig⟩ := Pos.toChars_getLast e
  have hcs : c ≠ '*' := not_digit_of_eq (by decide) hdig
  have hcc : c ≠ '^' := not_digit_of_eq (by decide) hdig
  have hbody : splitOn '-' (s.toChars ++ '-' :: e.toChars) = [s.toChars, e.toChars] := by
    rw [splitOn_append _ (colon_dash_not_mem_posChars s),
      splitOn_of_not_mem (colon_dash_not_mem_posChars e)]
  have hbody' : splitOn '-' (s.toChars ++ '-' :: (init ++ [c])) = [s.toChars, e.toChars] := by
    rw [← hc]; exact hbody
  have hfin : (match Pos.fromChars s.toChars, Pos.fromChars e.toChars with
      | some s', some e' => mkLoc s' e' dis syn
      | _, _ => none) = some ⟨s, e, dis, syn⟩ := by
    rw [Pos.fromChars_toChars s hs, Pos.fromChars_toChars e he]
    simp only [mkLoc, hok, if_true]
  unfold Loc.fromChars Loc.toChars
  simp only [hc]
  cases dis <;> cases syn
  · -- no suffix
    have e1 : (s.toChars ++ '-' :: (init ++ [c]) ++ [] ++ []) = (s.toChars ++ '-' :: init) ++ [c] := by simp
    simp only [Bool.false_eq_true, if_false, e1, getLast?_snoc]
    have h1 : (c == '*') = false := by simp [hcs]
    have h2 : (c == '^') = false := by simp [hcc]
    simp only [h1, h2, Bool.false_eq_true, if_false, getLast?_snoc]
    have e2 : (s.toChars ++ '-' :: init) ++ [c] = s.toChars ++ '-' :: (init ++ [c]) := by simp
    rw [e2, hbody']
    exact hfin
  · -- "*"
    have e1 : (s.toChars ++ '-' :: (init ++ [c]) ++ [] ++ ['*']) = ((s.toChars ++ '-' :: init) ++ [c]) ++ ['*'] := by simp
    simp only [Bool.false_eq_true, if_false, if_true, e1, getLast?_snoc, dropLast_snoc]
    have h2 : (c == '^') = false := by simp [hcc]
    simp only [beq_self_eq_true, if_true, dropLast_snoc, getLast?_snoc, h2, Bool.false_eq_true, if_false]
    have e2 : (s.toChars ++ '-' :: init) ++ [c] = s.toChars ++ '-' :: (init ++ [c]) := by simp
    rw [e2, hbody']
    exact hfin
  · -- "^"
    have e1 : (s.toChars ++ '-' :: (init ++ [c]) ++ ['^'] ++ []) = (s.toChars ++ '-' :: (init ++ [c])) ++ ['^'] := by simp
    simp only [Bool.false_eq_true, if_false, if_true, e1, getLast?_snoc, dropLast_snoc]
    have h1 : (('^' : Char) == '*') = false := by decide
    simp only [h1, Bool.false_eq_true, if_false, getLast?_snoc, beq_self_eq_true, if_true, dropLast_snoc]
    rw [hbody']
    exact hfin
  · -- "^*"
    have e1 : (s.toChars ++ '-' :: (init ++ [c]) ++ ['^'] ++ ['*']) = ((s.toChars ++ '-' :: (init ++ [c])) ++ ['^']) ++ ['*'] := by simp
    simp only [if_true, getLast?_snoc, dropLast_snoc, beq_self_eq_true]
    rw [hbody']
    exact hfin

theorem Loc.fromStr_toStr (l : Loc) (h : l.ok = true) : Loc.fromStr l.toStr = some l := by
  unfold Loc.fromStr Loc.toStr
  rw [String.toList_ofList]
  exact Loc.fromChars_toChars l h

/-- Whatever `from_str` accepts satisfies the constructor's invariants again. -/
theorem Loc.ok_of_fromChars {cs : List Char} {l : Loc} (h : Loc.fromChars cs = some l) : l.ok = true := by
  unfold Loc.fromChars at h
  split at h
  · cases h
  · simp only at h
    split at h
    · cases h
    · split at h
      · split at h
        · simp only [mkLoc] at h
          split at h
          · cases h; assumption
          · cases h
        · cases h
      · cases h

end Emboss.Json
