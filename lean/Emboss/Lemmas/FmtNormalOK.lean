/-
C11 helper lemmas, part 10: the kernel evaluation of `tableNormal` over the regenerated
registry (a file of its own: re-elaborated whenever Generated/FmtTable.lean changes).
-/
import Emboss.Lemmas.FmtNormal
namespace Emboss.Fmt
open Emboss.Generated.FmtTable

/-- Statement and meaning: `C11_table_normal` in Properties/C11.lean. -/
theorem table_normal : tableNormal formatters = true := by decide +kernel

end Emboss.Fmt
