/-
C10: the model's `_tokenize_line` (`tokLine`) *equals* the declarative maximal-munch
specification: success ⇔ the (unique) cover, "Unrecognized token" at `k` ⇔ the (unique) stuck
position; and, for pattern lists whose backtracking match is the longest match of the
pattern language (true of the regenerated table: `priority_is_longest_all`), the same with
the specification phrased through the languages only.
-/
import Emboss.Lemmas.TokLongest
namespace Emboss.Tok
open Emboss.Regex

/-- The pattern loop computes the best match. -/
theorem IsBest.bestMatch_eq {pats s n sy} (h : IsBest pats s n sy) (hn : 0 < n) :
    bestMatch pats s 0 none = some (n, sy) := by
  cases hb : bestMatch pats s 0 none with
  | none => exact absurd hb (bestMatch_ne_none _ _ _ _)
  | some r =>
    obtain ⟨n', sy'⟩ := r
    rcases bestMatch_spec _ _ _ _ _ _ hb with ⟨h1, _, h3⟩ | ⟨_, hbest⟩
    · obtain ⟨⟨p, hp, hm⟩, _⟩ := h.max
      have := h3 p hp n hm
      omega
    · obtain ⟨e1, e2⟩ := hbest.unique h
      rw [e1, e2]

theorem NoMatch.bestMatch_eq {pats s} (h : NoMatch pats s) :
    ∃ sy, bestMatch pats s 0 none = some (0, sy) := by
  cases hb : bestMatch pats s 0 none with
  | none => exact absurd hb (bestMatch_ne_none _ _ _ _)
  | some r =>
    obtain ⟨n', sy'⟩ := r
    rcases bestMatch_spec _ _ _ _ _ _ hb with ⟨h1, _, _⟩ | ⟨hlt, hbest⟩
    · exact ⟨sy', by rw [h1]⟩
    · obtain ⟨⟨p, hp, hm⟩, _⟩ := hbest.max
      have := h p hp n' hm
      omega

/-- A cover is what `tokLine` computes (completeness; soundness is `tokLine_covers`). -/
theorem Covers.tokLine_eq {pats ln s off segs} (h : Covers pats ln s off segs) :
    ∀ fuel, s.length ≤ fuel → tokLine pats ln fuel s off = .ok (tokensOf segs) := by
  induction h with
  | nil off => intro fuel _; cases fuel <;> simp [tokLine]
  | @tok s off n name segs hn hle hb hc ih =>
    intro fuel hf
    cases s with
    | nil => simp at hle; omega
    | cons c cs =>
      cases fuel with
      | zero => simp at hf
      | succ f =>
        have hbm := hb.bestMatch_eq hn
        obtain ⟨k, rfl⟩ : ∃ k, n = k + 1 := ⟨n - 1, by omega⟩
        have hrec := ih f (by simp only [List.length_drop, List.length_cons] at hf ⊢; omega)
        simp only [tokLine, hbm, hrec, tokensOf_tok]
  | @gap s off n segs hn hle hb hc ih =>
    intro fuel hf
    cases s with
    | nil => simp at hle; omega
    | cons c cs =>
      cases fuel with
      | zero => simp at hf
      | succ f =>
        have hbm := hb.bestMatch_eq hn
        obtain ⟨k, rfl⟩ : ∃ k, n = k + 1 := ⟨n - 1, by omega⟩
        have hrec := ih f (by simp only [List.length_drop, List.length_cons] at hf ⊢; omega)
        simp only [tokLine, hbm, hrec, tokensOf_gap]

/-- A stuck position is what `tokLine` reports. -/
theorem StuckAt.tokLine_eq {pats s off k} (h : StuckAt pats s off k) (ln : Nat) :
    ∀ fuel, s.length ≤ fuel → tokLine pats ln fuel s off = .err k := by
  induction h with
  | @here s off hne hno =>
    intro fuel hf
    cases s with
    | nil => exact absurd rfl hne
    | cons c cs =>
      cases fuel with
      | zero => simp at hf
      | succ f =>
        obtain ⟨sy, hbm⟩ := hno.bestMatch_eq
        simp only [tokLine, hbm]
  | @step s off n sy k hn hb _ ih =>
    intro fuel hf
    have hle := hb.le_length
    cases s with
    | nil => simp at hle; omega
    | cons c cs =>
      cases fuel with
      | zero => simp at hf
      | succ f =>
        have hbm := hb.bestMatch_eq hn
        obtain ⟨j, rfl⟩ : ∃ j, n = j + 1 := ⟨n - 1, by omega⟩
        have hrec := ih f (by simp only [List.length_drop, List.length_cons] at hf ⊢; omega)
        simp only [tokLine, hbm, hrec]

/-- … and conversely. -/
theorem tokLine_err_stuck (pats : List Pat) (ln : Nat) :
    ∀ fuel s off k, tokLine pats ln fuel s off = .err k → StuckAt pats s off k := by
  intro fuel
  induction fuel with
  | zero =>
    intro s off k h
    cases s <;> simp [tokLine] at h
  | succ f ih =>
    intro s off k h
    cases s with
    | nil => simp [tokLine] at h
    | cons c cs =>
      simp only [tokLine] at h
      split at h
      · cases h
      · rename_i sy hb
        simp only [LineRes.err.injEq] at h
        subst h
        rcases bestMatch_spec _ _ _ _ _ _ hb with ⟨_, _, h3⟩ | ⟨hlt, _⟩
        · refine .here (by simp) ?_
          intro q hq m hm
          have := h3 q hq m hm
          omega
        · omega
      · rename_i n sy hb
        rcases bestMatch_spec _ _ _ _ _ _ hb with ⟨h1, _, _⟩ | ⟨_, hbest⟩
        · omega
        · split at h
          · cases h
          · rename_i e hne
            exact .step (by omega) hbest (ih _ _ _ h)

/-- Covers are unique. -/
theorem Covers.unique {pats ln s off segs₁ segs₂} (h₁ : Covers pats ln s off segs₁)
    (h₂ : Covers pats ln s off segs₂) : segs₁ = segs₂ := by
  have e₁ := h₁.tokLine_eq s.length (Nat.le_refl _)
  induction h₁ generalizing segs₂ with
  | nil off => cases h₂ with
    | nil => rfl
    | tok hn hle => simp at hle; omega
    | gap hn hle => simp at hle; omega
  | @tok s off n name segs hn hle hb hc ih =>
    cases h₂ with
    | nil => simp at hle; omega
    | @tok _ _ n' name' segs' hn' hle' hb' hc' =>
      obtain ⟨e1, e2⟩ := hb.unique hb'
      subst e1
      cases e2
      rw [ih hc' (hc.tokLine_eq _ (Nat.le_refl _))]
    | @gap _ _ n' segs' hn' hle' hb' hc' =>
      obtain ⟨_, e2⟩ := hb.unique hb'
      cases e2
  | @gap s off n segs hn hle hb hc ih =>
    cases h₂ with
    | nil => simp at hle; omega
    | @tok _ _ n' name' segs' hn' hle' hb' hc' =>
      obtain ⟨_, e2⟩ := hb.unique hb'
      cases e2
    | @gap _ _ n' segs' hn' hle' hb' hc' =>
      obtain ⟨e1, _⟩ := hb.unique hb'
      subst e1
      rw [ih hc' (hc.tokLine_eq _ (Nat.le_refl _))]

/-! ### Language level -/

theorem pl_ok {r : Regex} {s : List Char} {n : Nat} (h : PriorityIsLongest r) :
    matchLen r s = .ok n ↔ (MatchesLen r s n ∧ ∀ m, MatchesLen r s m → m ≤ n) := by
  have hl := h s
  constructor
  · intro hm; rw [hm] at hl; exact hl
  · intro ⟨h1, h2⟩
    cases hr : matchLen r s with
    | ok n' =>
      rw [hr] at hl
      have a := hl.2 n h1
      have b := h2 n' hl.1
      have : n' = n := by omega
      rw [this]
    | fail => rw [hr] at hl; exact absurd h1 (hl n)
    | fuel => rw [hr] at hl; exact hl.elim

theorem pl_bound {r : Regex} {s : List Char} {m : Nat} (h : PriorityIsLongest r)
    (hm : MatchesLen r s m) : ∃ n, matchLen r s = .ok n ∧ m ≤ n := by
  have hl := h s
  cases hr : matchLen r s with
  | ok n => rw [hr] at hl; exact ⟨n, rfl, hl.2 m hm⟩
  | fail => rw [hr] at hl; exact absurd hm (hl m)
  | fuel => rw [hr] at hl; exact hl.elim

section
variable {pats : List Pat} (hpl : ∀ p ∈ pats, PriorityIsLongest p.re)
include hpl

theorem isBest_iff_lang (s : List Char) (n : Nat) (sy : Option String) :
    IsBest pats s n sy ↔ IsBestLang pats s n sy := by
  constructor
  · rintro ⟨pre, p, post, hp, hm, hs, hpre, hpost⟩
    have hpm : p ∈ pats := by rw [hp]; simp
    refine ⟨pre, p, post, hp, ((pl_ok (hpl p hpm)).mp hm).1, hs, ?_, ?_⟩
    · intro q hq m hmq
      obtain ⟨n', hn', hle⟩ := pl_bound (hpl q (by rw [hp]; simp [hq])) hmq
      have := hpre q hq n' hn'
      omega
    · intro q hq m hmq
      obtain ⟨n', hn', hle⟩ := pl_bound (hpl q hq) hmq
      rw [hp, List.mem_append, List.mem_cons] at hq
      rcases hq with hq | rfl | hq
      · have := hpre q hq n' hn'; omega
      · rw [hm] at hn'; cases hn'; exact hle
      · have := hpost q hq n' hn'; omega
  · rintro ⟨pre, p, post, hp, hM, hs, hpre, hall⟩
    have hpm : p ∈ pats := by rw [hp]; simp
    refine ⟨pre, p, post, hp, (pl_ok (hpl p hpm)).mpr ⟨hM, hall p hpm⟩, hs, ?_, ?_⟩
    · intro q hq m hm
      exact hpre q hq m (matchLen_sound _ _ _ hm)
    · intro q hq m hm
      exact hall q (by rw [hp]; simp [hq]) m (matchLen_sound _ _ _ hm)

theorem noMatch_iff_lang (s : List Char) : NoMatch pats s ↔ NoMatchLang pats s := by
  constructor
  · intro h q hq m hm
    obtain ⟨n', hn', hle⟩ := pl_bound (hpl q hq) hm
    have := h q hq n' hn'
    omega
  · intro h q hq m hm
    exact h q hq m (matchLen_sound _ _ _ hm)

theorem covers_iff_munch (ln : Nat) (s : List Char) (off : Nat) (segs : List Seg) :
    Covers pats ln s off segs ↔ MunchCovers pats ln s off segs := by
  constructor
  · intro h
    induction h with
    | nil off => exact .nil off
    | tok hn hle hb _ ih => exact .tok hn hle ((isBest_iff_lang hpl _ _ _).mp hb) ih
    | gap hn hle hb _ ih => exact .gap hn hle ((isBest_iff_lang hpl _ _ _).mp hb) ih
  · intro h
    induction h with
    | nil off => exact .nil off
    | tok hn hle hb _ ih => exact .tok hn hle ((isBest_iff_lang hpl _ _ _).mpr hb) ih
    | gap hn hle hb _ ih => exact .gap hn hle ((isBest_iff_lang hpl _ _ _).mpr hb) ih

theorem stuck_iff_munch (s : List Char) (off k : Nat) :
    StuckAt pats s off k ↔ MunchStuck pats s off k := by
  constructor
  · intro h
    induction h with
    | here hne hno => exact .here hne ((noMatch_iff_lang hpl _).mp hno)
    | step hn hb _ ih => exact .step hn ((isBest_iff_lang hpl _ _ _).mp hb) ih
  · intro h
    induction h with
    | here hne hno => exact .here hne ((noMatch_iff_lang hpl _).mpr hno)
    | step hn hb _ ih => exact .step hn ((isBest_iff_lang hpl _ _ _).mpr hb) ih

end

end Emboss.Tok
