/-
Level B, part 1: the lookup arrays and the FIRST / nullable table of the generator model
(`Gen.tables`, Model/Lr1Gen.lean) — everything `Valid` asks of the certificate's tables
(`VWf`'s array conditions, `VFirst`), plus soundness of `prodsOf` and "FIRST sets contain
terminals only", which the item invariants of part 2 need.
-/
import Emboss.Model.Lr1Gen
import Emboss.Lemmas.Lr1Basic
namespace Emboss.Lr1
namespace Gen

/-! ### symbol bound -/

theorem le_foldl_max (l : List Nat) (m : Nat) : m ≤ l.foldl max m ∧ ∀ x ∈ l, x ≤ l.foldl max m := by
  induction l generalizing m with
  | nil => simp
  | cons a l ih =>
    simp only [List.foldl_cons]
    have h := ih (max m a)
    refine ⟨by have := h.1; omega, ?_⟩
    intro x hx
    rcases List.mem_cons.mp hx with rfl | hx
    · have := h.1; omega
    · exact h.2 x hx

theorem eoi_lt_nsym (G : Grammar) : G.eoi < nsym G := by
  unfold nsym
  have := (le_foldl_max (G.all.flatMap fun p => p.lhs :: p.rhs) (max G.eoi G.startPrime)).1
  omega

theorem lhs_lt_nsym {G : Grammar} {p : Rule} (hp : p ∈ G.all) : p.lhs < nsym G := by
  unfold nsym
  have := (le_foldl_max (G.all.flatMap fun p => p.lhs :: p.rhs) (max G.eoi G.startPrime)).2 p.lhs
    (List.mem_flatMap.mpr ⟨p, hp, List.mem_cons_self⟩)
  omega

theorem rhs_lt_nsym {G : Grammar} {p : Rule} (hp : p ∈ G.all) {x : Nat} (hx : x ∈ p.rhs) : x < nsym G := by
  unfold nsym
  have := (le_foldl_max (G.all.flatMap fun p => p.lhs :: p.rhs) (max G.eoi G.startPrime)).2 x
    (List.mem_flatMap.mpr ⟨p, hp, List.mem_cons_of_mem _ hx⟩)
  omega

/-! ### tabulated functions -/

theorem tab_get {α} (f : Nat → α) (n x : Nat) :
    ((List.range n).map f).toArray[x]? = if x < n then some (f x) else none := by
  by_cases h : x < n
  · simp [h]
  · simp [h]

theorem mem_unionL {z : Nat} : ∀ {add l : List Nat}, z ∈ unionL l add ↔ z ∈ l ∨ z ∈ add
  | [], l => by simp [unionL]
  | a :: add, l => by
    have ih := fun l => mem_unionL (z := z) (add := add) (l := l)
    simp only [unionL, List.foldl_cons] at ih ⊢
    rw [ih]
    by_cases hc : l.contains a = true
    · simp only [hc, if_true, List.mem_cons]
      have : a ∈ l := by simpa using hc
      constructor
      · rintro (h | h)
        · exact Or.inl h
        · exact Or.inr (Or.inr h)
      · rintro (h | h | h)
        · exact Or.inl h
        · exact Or.inl (h ▸ this)
        · exact Or.inr h
    · simp only [hc, Bool.false_eq_true, if_false, List.mem_append, List.mem_cons, List.mem_nil_iff, or_false]
      constructor
      · rintro ((h | h) | h)
        · exact Or.inl h
        · exact Or.inr (Or.inl h)
        · exact Or.inr (Or.inr h)
      · rintro (h | h | h)
        · exact Or.inl (Or.inl h)
        · exact Or.inl (Or.inr h)
        · exact Or.inr h

/-! ### FIRST of a string -/

theorem mem_firstSeq {C : Cert} {c : Nat} : ∀ {β t : List Nat}, c ∈ C.firstSeq β t →
    c ∈ t ∨ ∃ x ∈ β, c ∈ C.firstOf x
  | [], _, h => Or.inl h
  | x :: β, t, h => by
    simp only [Cert.firstSeq, List.mem_append] at h
    rcases h with h | h
    · exact Or.inr ⟨x, List.mem_cons_self, h⟩
    · split at h
      · rcases mem_firstSeq h with h | ⟨y, hy, h⟩
        · exact Or.inl h
        · exact Or.inr ⟨y, List.mem_cons_of_mem _ hy, h⟩
      · cases h

/-! ### the tables -/

/-- the same lookup arrays (everything but FIRST / nullable) -/
def SameTabs (C C' : Cert) : Prop :=
  C'.rules = C.rules ∧ C'.prodsOf = C.prodsOf ∧ C'.nt = C.nt ∧ C'.items = C.items

/-- FIRST sets contain terminals only -/
def FirstTerm (C : Cert) : Prop := ∀ x : Nat, ∀ c ∈ (C.first[x]?).getD [], C.isNT c = false

theorem FirstTerm.firstOf {C : Cert} (h : FirstTerm C) {x c : Nat} (hc : c ∈ C.firstOf x) :
    C.isNT c = false := by
  unfold Cert.firstOf at hc
  split at hc
  · exact h x c hc
  · rename_i hx
    simp only [List.mem_singleton] at hc
    subst hc
    simpa using hx

theorem FirstTerm.firstSeq {C : Cert} (h : FirstTerm C) {β t : List Nat} {c : Nat}
    (hc : c ∈ C.firstSeq β t) (ht : ∀ a ∈ t, C.isNT a = false) : C.isNT c = false := by
  rcases mem_firstSeq hc with h1 | ⟨x, _, h1⟩
  · exact ht c h1
  · exact h.firstOf h1

theorem firstRound_same (C : Cert) : SameTabs C (firstRound C) := ⟨rfl, rfl, rfl, rfl⟩

theorem firstRound_firstTerm {C : Cert} (h : FirstTerm C) : FirstTerm (firstRound C) := by
  intro x c hc
  have hnt : (firstRound C).isNT c = C.isNT c := rfl
  rw [hnt]
  simp only [firstRound, tab_get] at hc
  split at hc
  · simp only [Option.getD_some, mem_unionL, List.mem_flatMap, List.mem_filter] at hc
    rcases hc with hc | ⟨p, _, hc⟩
    · exact h x c hc
    · exact h.firstSeq hc (by simp)
  · simp at hc

theorem firstFix_spec : ∀ (f : Nat) (C C' : Cert), firstFix f C = some C' →
    SameTabs C C' ∧ VFirst C' ∧ (FirstTerm C → FirstTerm C')
  | 0, _, _, h => by simp [firstFix] at h
  | f + 1, C, C', h => by
    simp only [firstFix] at h
    split at h
    · rename_i hv
      cases h
      exact ⟨⟨rfl, rfl, rfl, rfl⟩, hv, id⟩
    · obtain ⟨⟨s1, s2, s3, s4⟩, hv, ht⟩ := firstFix_spec f _ C' h
      exact ⟨⟨s1, s2, s3, s4⟩, hv, fun h0 => ht (firstRound_firstTerm h0)⟩

/-- What the rest of the proof needs of the generator's tables. -/
structure TabOK (G : Grammar) (C : Cert) : Prop where
  rules : C.rules.toList = G.all
  prodsC : ∀ qj ∈ G.all.zipIdx, qj.2 ∈ C.prodsFor qj.1.lhs
  prodsS : ∀ x j, j ∈ C.prodsFor x → ∃ p, C.ruleAt j = some p ∧ p.lhs = x
  ntC : ∀ p ∈ G.all, C.isNT p.lhs = true
  ntS : ∀ x, C.isNT x = true → G.isNT x = true
  vfirst : VFirst C
  fterm : FirstTerm C
  ntSize : C.nt.size = nsym G

theorem tables_ok {G : Grammar} {C : Cert} (h : tables G = some C) : TabOK G C := by
  unfold tables at h
  obtain ⟨⟨s1, s2, s3, _⟩, hv, ht⟩ := firstFix_spec _ _ _ h
  have hrule : ∀ j, C.ruleAt j = G.all[j]? := by
    intro j
    simp [Cert.ruleAt, s1, tables0]
  have hprods : ∀ x, C.prodsFor x =
      if x < nsym G then (G.all.zipIdx.filter fun q => q.1.lhs == x).map (·.2) else [] := by
    intro x
    simp only [Cert.prodsFor, s2, tables0, tab_get]
    split <;> rfl
  have hnt : ∀ x, C.isNT x = if x < nsym G then G.all.any (fun p => p.lhs == x) else false := by
    intro x
    simp only [Cert.isNT, s3, tables0, tab_get]
    split <;> rfl
  refine ⟨by simp [s1, tables0], ?_, ?_, ?_, ?_, hv, ht ?_, by simp [s3, tables0]⟩
  · intro qj hq
    have hm : qj.1 ∈ G.all := by
      obtain ⟨q, j⟩ := qj
      exact List.mem_of_getElem? (List.mem_zipIdx_iff_getElem?.mp hq)
    rw [hprods, if_pos (lhs_lt_nsym hm)]
    exact List.mem_map.mpr ⟨qj, List.mem_filter.mpr ⟨hq, by simp⟩, rfl⟩
  · intro x j hj
    rw [hprods] at hj
    split at hj
    · obtain ⟨q, hq, rfl⟩ := List.mem_map.mp hj
      obtain ⟨hq1, hq2⟩ := List.mem_filter.mp hq
      obtain ⟨p, j⟩ := q
      exact ⟨p, by rw [hrule]; exact List.mem_zipIdx_iff_getElem?.mp hq1, by simpa using hq2⟩
    · cases hj
  · intro p hp
    rw [hnt, if_pos (lhs_lt_nsym hp)]
    exact List.any_eq_true.mpr ⟨p, hp, by simp⟩
  · intro x hx
    rw [hnt] at hx
    split at hx
    · exact hx
    · cases hx
  · intro x c hc
    simp only [tables0, tab_get] at hc
    split at hc <;> simp at hc

end Gen
end Emboss.Lr1
