/-
Helper lemmas for C06: what `WriteIntegerToTextStream` produces, read declaratively.
-/
import Emboss.Lemmas.TextInt
namespace Emboss.Text
open Spec

theorem digitValue_digitChar : ∀ d, d < 16 → digitValue (digitChar d) = some d := by decide
theorem digitChar_ne_underscore : ∀ d, d < 16 → digitChar d ≠ '_' := by decide

theorem digitsOf_digit (b : Nat) (hb16 : b ≤ 16) (d : Nat) (hd : d < b) (cs : List Char) :
    digitsOf b (digitChar d :: cs) = (digitsOf b cs).map (d :: ·) := by
  simp [digitsOf, digitChar_ne_underscore d (by omega), digitValue_digitChar d (by omega), hd]

theorem digitsOf_underscore (b : Nat) (cs : List Char) : digitsOf b ('_' :: cs) = digitsOf b cs := by
  simp [digitsOf]

/-- Value carried by the writer loop: the digits it prepends turn an accumulator `0` into `v`. -/
theorem writeLoop_value (b : Nat) (g : Bool) (hb : b = 2 ∨ b = 10 ∨ b = 16) :
    ∀ (v c : Nat) (buf : List Char) (ds : List Nat), digitsOf b buf = some ds →
      ∃ ds', digitsOf b (writeLoop b g v c buf) = some ds' ∧
        valueFrom b 0 ds' = valueFrom b (v : Int) ds := by
  intro v
  induction v using Nat.strongRecOn with
  | _ v ih =>
    intro c buf ds hds
    unfold writeLoop
    by_cases h0 : v = 0 ∨ b < 2
    · have hv : v = 0 := by omega
      subst hv
      simp
      exact ⟨ds, hds, rfl⟩
    · simp only [h0, dite_false]
      have hlt : v / b < v := Nat.div_lt_self (by omega) (by omega)
      have hmod : v % b < b := Nat.mod_lt _ (by omega)
      have hbuf1 : digitsOf b (if c ≠ 0 ∧ c % groupSize b = 0 ∧ g = true then '_' :: buf else buf) = some ds := by
        split
        · rw [digitsOf_underscore]; exact hds
        · exact hds
      have hnew : digitsOf b (digitChar (v % b) ::
          (if c ≠ 0 ∧ c % groupSize b = 0 ∧ g = true then '_' :: buf else buf)) = some ((v % b) :: ds) := by
        rw [digitsOf_digit b (by omega) _ hmod, hbuf1]; rfl
      obtain ⟨ds', h1, h2⟩ := ih (v / b) hlt (c + 1) _ _ hnew
      refine ⟨ds', h1, ?_⟩
      rw [h2, valueFrom_cons]
      congr 1
      have := Nat.div_add_mod v b
      rcases hb with rfl | rfl | rfl <;> omega

/-- Characters the writer puts into a number body of base `b`. -/
def IsBodyChar (b : Nat) (ch : Char) : Prop := ch = '_' ∨ ∃ d, d < b ∧ ch = digitChar d

theorem writeLoop_chars (b : Nat) (g : Bool) :
    ∀ (v c : Nat) (buf : List Char), (∀ ch ∈ buf, IsBodyChar b ch) →
      ∀ ch ∈ writeLoop b g v c buf, IsBodyChar b ch := by
  intro v
  induction v using Nat.strongRecOn with
  | _ v ih =>
    intro c buf hbuf
    unfold writeLoop
    by_cases h0 : v = 0 ∨ b < 2
    · simp only [h0, dite_true]; exact hbuf
    · simp only [h0, dite_false]
      have hlt : v / b < v := Nat.div_lt_self (by omega) (by omega)
      have hmod : v % b < b := Nat.mod_lt _ (by omega)
      apply ih (v / b) hlt
      intro ch hch
      rcases List.mem_cons.mp hch with rfl | hch
      · exact Or.inr ⟨_, hmod, rfl⟩
      · split at hch
        · rcases List.mem_cons.mp hch with rfl | hch
          · exact Or.inl rfl
          · exact hbuf _ hch
        · exact hbuf _ hch

theorem writeLoop_head (b : Nat) (g : Bool) :
    ∀ (v c : Nat) (buf : List Char),
      ((v ≠ 0 ∧ 2 ≤ b) ∨ ∃ d, d < b ∧ buf.head? = some (digitChar d)) →
      ∃ d, d < b ∧ (writeLoop b g v c buf).head? = some (digitChar d) := by
  intro v
  induction v using Nat.strongRecOn with
  | _ v ih =>
    intro c buf h
    unfold writeLoop
    by_cases h0 : v = 0 ∨ b < 2
    · simp only [h0, dite_true]
      rcases h with h | h
      · omega
      · exact h
    · simp only [h0, dite_false]
      have hlt : v / b < v := Nat.div_lt_self (by omega) (by omega)
      have hmod : v % b < b := Nat.mod_lt _ (by omega)
      exact ih (v / b) hlt _ _ (Or.inr ⟨_, hmod, by simp⟩)

theorem digitChar_ne_minus : ∀ d, d < 16 → digitChar d ≠ '-' := by decide
theorem digitChar10_not_prefix : ∀ d, d < 10 →
    digitChar d ≠ 'x' ∧ digitChar d ≠ 'X' ∧ digitChar d ≠ 'b' ∧ digitChar d ≠ 'B' := by decide

theorem bodyChar10_not_prefix (c : Char) (h : IsBodyChar 10 c) :
    c ≠ 'x' ∧ c ≠ 'X' ∧ c ≠ 'b' ∧ c ≠ 'B' := by
  rcases h with rfl | ⟨d, hd, rfl⟩
  · decide
  · exact digitChar10_not_prefix d hd

/-- A decimal body is never mistaken for a prefixed number. -/
theorem baseOf_body10 (d0 : Nat) (rest : List Char)
    (hch : ∀ ch ∈ digitChar d0 :: rest, IsBodyChar 10 ch) : baseOf (digitChar d0 :: rest) = 10 := by
  cases rest with
  | nil => simp [baseOf]
  | cons c1 r =>
    have := bodyChar10_not_prefix c1 (hch c1 (by simp))
    simp [baseOf, this.1, this.2.1, this.2.2.1, this.2.2.2]

/-- The declarative value of sign ++ prefix ++ body, for a body as the writer makes it. -/
theorem textValue_shape (signedTy neg : Bool) (base : Base) (d0 : Nat) (rest : List Char)
    (ds : List Nat) (hneg : neg = true → signedTy = true) (hd0 : d0 < base.toNat)
    (hch : ∀ ch ∈ digitChar d0 :: rest, IsBodyChar base.toNat ch)
    (hds : digitsOf base.toNat (digitChar d0 :: rest) = some ds) :
    textValue signedTy ((if neg then ['-'] else []) ++ basePrefix base ++ digitChar d0 :: rest) =
      some (if neg then -(valueFrom base.toNat 0 ds) else valueFrom base.toNat 0 ds) := by
  have hd16 : d0 < 16 := by cases base <;> simp [Base.toNat] at hd0 <;> omega
  have hm := digitChar_ne_minus d0 hd16
  cases neg with
  | true =>
    have hs : signedTy = true := hneg rfl
    subst hs
    cases base with
    | b16 =>
      simp [textValue, signOf, afterSign, basePrefix, baseOf, bodyOf, Base.toNat] at hds ⊢
      simp [hds]
    | b2 =>
      simp [textValue, signOf, afterSign, basePrefix, baseOf, bodyOf, Base.toNat] at hds ⊢
      simp [hds]
    | b10 =>
      have h10 := baseOf_body10 d0 rest hch
      simp [textValue, signOf, afterSign, basePrefix, bodyOf, Base.toNat, h10] at hds ⊢
      simp [hds]
  | false =>
    cases base with
    | b16 =>
      simp [textValue, signOf, afterSign, basePrefix, baseOf, bodyOf, Base.toNat] at hds ⊢
      simp [hds]
    | b2 =>
      simp [textValue, signOf, afterSign, basePrefix, baseOf, bodyOf, Base.toNat] at hds ⊢
      simp [hds]
    | b10 =>
      have h10 := baseOf_body10 d0 rest hch
      simp [textValue, signOf, afterSign, basePrefix, bodyOf, Base.toNat, h10, hm] at hds ⊢
      simp [hds]

theorem Base.toNat_cases (base : Base) : base.toNat = 2 ∨ base.toNat = 10 ∨ base.toNat = 16 := by
  cases base <;> simp [Base.toNat]

theorem writeLoop_spec (b : Nat) (g : Bool) (hb : b = 2 ∨ b = 10 ∨ b = 16) (v c : Nat)
    (buf : List Char) (ds0 : List Nat)
    (hch : ∀ ch ∈ buf, IsBodyChar b ch) (hds : digitsOf b buf = some ds0)
    (hhead : v ≠ 0 ∨ ∃ d, d < b ∧ buf.head? = some (digitChar d)) :
    ∃ d0 rest ds, writeLoop b g v c buf = digitChar d0 :: rest ∧ d0 < b ∧
      (∀ ch ∈ digitChar d0 :: rest, IsBodyChar b ch) ∧
      digitsOf b (digitChar d0 :: rest) = some ds ∧
      valueFrom b 0 ds = valueFrom b (v : Int) ds0 := by
  obtain ⟨d0, hd0, hh⟩ := writeLoop_head b g v c buf (by
    rcases hhead with h | h
    · exact Or.inl ⟨h, by omega⟩
    · exact Or.inr h)
  obtain ⟨ds, h1, h2⟩ := writeLoop_value b g hb v c buf ds0 hds
  have h3 := writeLoop_chars b g v c buf hch
  cases hw : writeLoop b g v c buf with
  | nil => rw [hw] at hh; simp at hh
  | cons c0 rest =>
    rw [hw] at hh h1 h3
    have : c0 = digitChar d0 := by simpa using hh
    subst this
    exact ⟨d0, rest, ds, rfl, hd0, h3, h1, h2⟩

theorem writeBody_spec (T : IntTy) (x : Int) (base : Base) (g : Bool) (hx : T.InRange x) :
    ∃ d0 rest ds, writeBody T x base.toNat g = digitChar d0 :: rest ∧ d0 < base.toNat ∧
      (∀ ch ∈ digitChar d0 :: rest, IsBodyChar base.toNat ch) ∧
      digitsOf base.toNat (digitChar d0 :: rest) = some ds ∧
      valueFrom base.toNat 0 ds = (if x < 0 then -x else x) := by
  have hb := Base.toNat_cases base
  generalize base.toNat = b at hb ⊢
  unfold writeBody
  simp only
  by_cases hneg : x < 0
  · have hx0 : ¬ x = 0 := by omega
    simp only [hneg, if_true, hx0, if_false]
    show ∃ d0 rest ds, _ ∧ _ ∧ _ ∧ _ ∧ valueFrom b 0 ds = -x
    by_cases hmin : x = T.minVal
    · rw [if_pos hmin]
      -- the `lowest()` branch
      have hm : ((-(x + 1)).toNat : Int) = -(x + 1) := Int.toNat_of_nonneg (by omega)
      generalize hmdef : (-(x + 1)).toNat = m at hm
      have hmodlt : m % b < b := Nat.mod_lt _ (by omega)
      have hdm := Nat.div_add_mod m b
      by_cases hcarry : m % b + 1 = b
      · simp only [hcarry, if_true]
        obtain ⟨d0, rest, ds, h1, h2, h3, h4, h5⟩ := writeLoop_spec b g hb (m / b + 1) 1
          [digitChar 0] [0]
          (by intro ch h; simp at h; subst h; exact Or.inr ⟨0, by omega, rfl⟩)
          (by rw [digitsOf_digit b (by omega) 0 (by omega)]; simp [digitsOf])
          (Or.inl (Nat.succ_ne_zero _))
        refine ⟨d0, rest, ds, h1, h2, h3, h4, ?_⟩
        rw [h5, valueFrom_cons, valueFrom_nil]
        rcases hb with rfl | rfl | rfl <;> omega
      · simp only [hcarry, if_false]
        obtain ⟨d0, rest, ds, h1, h2, h3, h4, h5⟩ := writeLoop_spec b g hb (m / b) 1
          [digitChar (m % b + 1)] [m % b + 1]
          (by intro ch h; simp at h; subst h; exact Or.inr ⟨_, by omega, rfl⟩)
          (by rw [digitsOf_digit b (by omega) _ (by omega)]; simp [digitsOf])
          (Or.inr ⟨m % b + 1, by omega, rfl⟩)
        refine ⟨d0, rest, ds, h1, h2, h3, h4, ?_⟩
        rw [h5, valueFrom_cons, valueFrom_nil]
        rcases hb with rfl | rfl | rfl <;> omega
    · rw [if_neg hmin]
      have hm : ((-x).toNat : Int) = -x := Int.toNat_of_nonneg (by omega)
      obtain ⟨d0, rest, ds, h1, h2, h3, h4, h5⟩ := writeLoop_spec b g hb (-x).toNat 0 [] []
        (by intro ch h; simp at h) (by simp [digitsOf]) (Or.inl (by omega))
      exact ⟨d0, rest, ds, h1, h2, h3, h4, by rw [h5, valueFrom_nil, hm]⟩
  · simp only [hneg, if_false]
    have hm : (x.toNat : Int) = x := Int.toNat_of_nonneg (by omega)
    by_cases hx0 : x = 0
    · subst hx0
      simp only [if_true]
      obtain ⟨d0, rest, ds, h1, h2, h3, h4, h5⟩ := writeLoop_spec b g hb (0 : Int).toNat 0
        [digitChar 0] [0]
        (by intro ch h; simp at h; subst h; exact Or.inr ⟨0, by omega, rfl⟩)
        (by rw [digitsOf_digit b (by omega) 0 (by omega)]; simp [digitsOf])
        (Or.inr ⟨0, by omega, by simp⟩)
      refine ⟨d0, rest, ds, h1, h2, h3, h4, ?_⟩
      rw [h5, valueFrom_cons, valueFrom_nil]
      simp
    · simp only [hx0, if_false]
      obtain ⟨d0, rest, ds, h1, h2, h3, h4, h5⟩ := writeLoop_spec b g hb x.toNat 0 [] []
        (by intro ch h; simp at h) (by simp [digitsOf]) (Or.inl (by omega))
      exact ⟨d0, rest, ds, h1, h2, h3, h4, by rw [h5, valueFrom_nil, hm]⟩

theorem IntTy.signed_of_neg (T : IntTy) (x : Int) (hx : T.InRange x) (h : x < 0) : T.signed = true := by
  have := hx.1
  cases T <;> simp [IntTy.minVal, IntTy.signed] at * <;> omega

theorem writeInt_textValue (T : IntTy) (x : Int) (base : Base) (g : Bool) (hx : T.InRange x) :
    (writeInt T x base g).head? ≠ some '_' ∧
      textValue T.signed (writeInt T x base g) = some x := by
  obtain ⟨d0, rest, ds, h1, h2, h3, h4, h5⟩ := writeBody_spec T x base g hx
  have hd16 : d0 < 16 := by cases base <;> simp [Base.toNat] at h2 <;> omega
  have hshape : writeInt T x base g =
      (if decide (x < 0) = true then ['-'] else []) ++ basePrefix base ++ digitChar d0 :: rest := by
    unfold writeInt
    simp only [h1]
    by_cases hn : x < 0 <;> simp [hn]
  constructor
  · rw [hshape]
    have := digitChar_ne_underscore d0 hd16
    by_cases hn : x < 0 <;> cases base <;> simp [hn, basePrefix, this]
  · rw [hshape, textValue_shape T.signed (decide (x < 0)) base d0 rest ds
      (by intro h; exact IntTy.signed_of_neg T x hx (by simpa using h)) h2 h3 h4, h5]
    by_cases hn : x < 0 <;> simp [hn]


end Emboss.Text
