/-
Fuel-free reasoning about repetition in the backtracking matcher (C10):
fuel irrelevance, the one-step unfolding of `rep`, and the equations for a repeated
single-character class.
-/
import Emboss.Lemmas.Regex
namespace Emboss.Regex

theorem repK_fuel_irrel (body : List Char → (List Char → MRes) → MRes) :
    ∀ f f' mn mx s k, s.length < f → s.length < f' →
      repK body f mn mx s k = repK body f' mn mx s k := by
  intro f
  induction f with
  | zero => intro f' mn mx s k h; omega
  | succ f ih =>
    intro f' mn mx s k h h'
    cases f' with
    | zero => omega
    | succ f' =>
      unfold repK
      have : (fun rest => if rest.length < s.length then repK body f (mn - 1) (mx.map (· - 1)) rest k
                else MRes.fail) =
             (fun rest => if rest.length < s.length then repK body f' (mn - 1) (mx.map (· - 1)) rest k
                else MRes.fail) := by
        funext rest
        by_cases hr : rest.length < s.length
        · simp only [hr, if_true]; exact ih _ _ _ _ _ (by omega) (by omega)
        · simp [hr]
      rw [this]

/-- One-step unfolding of a repetition, without fuel. -/
theorem matchK_rep (r : Regex) (mn : Nat) (mx : Option Nat) (s : List Char) (k : List Char → MRes) :
    matchK (.rep r mn mx) s k =
      if mx = some 0 then (if mn = 0 then k s else .fail)
      else
        match matchK r s (fun rest =>
            if rest.length < s.length then matchK (.rep r (mn - 1) (mx.map (· - 1))) rest k
            else .fail) with
        | .fail => if mn = 0 then k s else .fail
        | x => x := by
  conv => lhs; simp only [matchK]; unfold repK
  have : (fun rest => if rest.length < s.length then
            repK (fun t k' => matchK r t k') s.length (mn - 1) (mx.map (· - 1)) rest k else MRes.fail) =
         (fun rest => if rest.length < s.length then
            matchK (.rep r (mn - 1) (mx.map (· - 1))) rest k else MRes.fail) := by
    funext rest
    by_cases hr : rest.length < s.length
    · simp only [hr, if_true, matchK]
      exact repK_fuel_irrel _ _ _ _ _ _ _ hr (by omega)
    · simp [hr]
  rw [this]
  rfl

/-! ### repetition of one character class -/

@[simp] theorem matchK_chr_nil (c : CClass) (k : List Char → MRes) : matchK (.chr c) [] k = .fail := rfl

@[simp] theorem matchK_chr_cons (c : CClass) (x : Char) (t : List Char) (k : List Char → MRes) :
    matchK (.chr c) (x :: t) k = if c.mem x then k t else .fail := rfl

theorem rep_chr_nil (c : CClass) (mn : Nat) (mx : Option Nat) (k : List Char → MRes) :
    matchK (.rep (.chr c) mn mx) [] k = if mn = 0 then k [] else .fail := by
  rw [matchK_rep]; simp

/-- At least one more iteration is required: no backtracking choice here. -/
theorem rep_chr_cons_succ (c : CClass) (mn : Nat) (mx : Option Nat) (x : Char) (t : List Char)
    (k : List Char → MRes) :
    matchK (.rep (.chr c) (mn + 1) mx) (x :: t) k =
      if mx ≠ some 0 ∧ c.mem x = true then matchK (.rep (.chr c) mn (mx.map (· - 1))) t k else .fail := by
  rw [matchK_rep]
  by_cases h0 : mx = some 0
  · simp [h0]
  · by_cases hc : c.mem x = true
    · simp only [h0, if_false, matchK_chr_cons, hc, if_true, List.length_cons, Nat.lt_succ_self,
        Nat.add_sub_cancel, ne_eq, not_false_eq_true, and_self]
      split <;> simp_all
    · simp [h0, hc]

/-- The minimum is reached: try one more character first, fall back to stopping here. -/
theorem rep_chr_cons_zero (c : CClass) (mx : Option Nat) (x : Char) (t : List Char)
    (k : List Char → MRes) :
    matchK (.rep (.chr c) 0 mx) (x :: t) k =
      if mx ≠ some 0 ∧ c.mem x = true then
        (match matchK (.rep (.chr c) 0 (mx.map (· - 1))) t k with
          | .fail => k (x :: t)
          | r => r)
      else k (x :: t) := by
  rw [matchK_rep]
  by_cases h0 : mx = some 0
  · simp [h0]
  · by_cases hc : c.mem x = true
    · simp [h0, hc]
    · simp [h0, hc]

/-- `takeUpTo mx n` = how many of `n` available iterations a greedy `{_,mx}` takes. -/
def takeUpTo : Option Nat → Nat → Nat
  | none, n => n
  | some m, n => min m n

/-- Span of a class at the front of a string. -/
def span (c : CClass) (s : List Char) : Nat := (s.takeWhile c.mem).length

@[simp] theorem span_nil (c : CClass) : span c [] = 0 := rfl
theorem span_cons (c : CClass) (x : Char) (t : List Char) :
    span c (x :: t) = if c.mem x then span c t + 1 else 0 := by
  simp only [span, List.takeWhile_cons]; split <;> simp

theorem span_le (c : CClass) (s : List Char) : span c s ≤ s.length := by
  induction s with
  | nil => simp
  | cons x t ih => rw [span_cons]; split <;> simp <;> omega

/-- When everything after the repetition succeeds wherever it starts, a greedy
repetition with minimum 0 takes as many characters as it can (up to `mx`). -/
theorem rep_chr_zero_nofail (c : CClass) (k : List Char → MRes) (hk : ∀ t, k t ≠ .fail) :
    ∀ (s : List Char) (mx : Option Nat),
      matchK (.rep (.chr c) 0 mx) s k = k (s.drop (takeUpTo mx (span c s))) := by
  intro s
  induction s with
  | nil => intro mx; rw [rep_chr_nil]; simp
  | cons x t ih =>
    intro mx
    rw [rep_chr_cons_zero, span_cons]
    by_cases h0 : mx = some 0
    · simp [h0, takeUpTo]
    · by_cases hc : c.mem x = true
      · simp only [ne_eq, h0, not_false_eq_true, hc, and_self, if_true]
        rw [ih]
        have hne := hk (t.drop (takeUpTo (mx.map (· - 1)) (span c t)))
        have : takeUpTo mx (span c t + 1) = takeUpTo (mx.map (· - 1)) (span c t) + 1 := by
          cases mx with
          | none => simp [takeUpTo]
          | some m =>
            simp only [takeUpTo, Option.map_some]
            have : m ≠ 0 := fun h => h0 (by rw [h])
            omega
        rw [this, List.drop_succ_cons]
        split
        · rename_i hf; exact absurd hf hne
        · rfl
      · simp [hc]
        cases mx <;> simp [takeUpTo]

/-- A repetition with minimum 0 in front of something that cannot fail cannot fail. -/
theorem rep_chr_zero_ne_fail (c : CClass) (k : List Char → MRes) (hk : ∀ t, k t ≠ .fail)
    (s : List Char) (mx : Option Nat) : matchK (.rep (.chr c) 0 mx) s k ≠ .fail := by
  rw [rep_chr_zero_nofail c k hk]; exact hk _

end Emboss.Regex
