/-
The executable productivity check (`Gen.allProductive`, `Gen.reducedB`, Model/Lr1Gen.lean) is
sound: when it answers `true` every nonterminal of the grammar derives a terminal string, i.e.
`Reduced G` — the hypothesis of the error-position theorem.  (Only soundness of the marking loop
is needed; were its fuel too small it would answer `false` for a reduced grammar, which the
harness would see as a disagreement with its own oracle.)
-/
import Emboss.Lemmas.Lr1Basic
import Emboss.Model.Lr1Gen
namespace Emboss.Lr1
namespace Gen

variable {G : Grammar}

/-- a forest for a string of productive symbols -/
theorem forest_of_productive : ∀ (rhs : List Nat), (∀ x ∈ rhs, Productive G x) →
    ∃ cs : List Tree, (∀ c ∈ cs, ParseTree G c) ∧ cs.map Tree.root = rhs
  | [], _ => ⟨[], by simp, rfl⟩
  | x :: rhs, h => by
    obtain ⟨t, ht, hr⟩ := h x List.mem_cons_self
    obtain ⟨cs, hcs, hm⟩ := forest_of_productive rhs (fun y hy => h y (List.mem_cons_of_mem _ hy))
    refine ⟨t :: cs, ?_, by simp [hr, hm]⟩
    intro c hc
    rcases List.mem_cons.mp hc with rfl | hc
    · exact ht
    · exact hcs c hc

theorem terminal_productive {x : Nat} (h : G.isNT x = false) : Productive G x :=
  ⟨.leaf ⟨x, 0⟩, ParseTree.leaf _ h, rfl⟩

theorem prodRound_sound : ∀ (ps : List Rule) (P : List Nat), (∀ p ∈ ps, p ∈ G.prods) →
    (∀ x ∈ P, Productive G x) →
    ∀ x ∈ ps.foldl (fun P p =>
      if !P.contains p.lhs && p.rhs.all (fun x => !G.isNT x || P.contains x) then p.lhs :: P else P) P,
      Productive G x
  | [], _, _, hP => hP
  | p :: ps, P, hps, hP => by
    simp only [List.foldl_cons]
    refine prodRound_sound ps _ (fun q hq => hps q (List.mem_cons_of_mem _ hq)) ?_
    split
    · rename_i hc
      simp only [Bool.and_eq_true, List.all_eq_true, Bool.or_eq_true, Bool.not_eq_true'] at hc
      intro x hx
      rcases List.mem_cons.mp hx with rfl | hx
      · obtain ⟨cs, hcs, hm⟩ := forest_of_productive (G := G) p.rhs (by
          intro y hy
          rcases hc.2 y hy with hn | hin
          · exact terminal_productive hn
          · exact hP y (by simpa using hin))
        exact ⟨.node p cs, ParseTree.node p cs (hps p List.mem_cons_self) hcs hm, rfl⟩
      · exact hP x hx
    · exact hP

theorem productiveFix_sound : ∀ (f : Nat) (P : List Nat), (∀ x ∈ P, Productive G x) →
    ∀ x ∈ productiveFix G f P, Productive G x
  | 0, _, hP => hP
  | f + 1, P, hP => by
    simp only [productiveFix]
    split
    · exact hP
    · exact productiveFix_sound f _ (prodRound_sound G.prods P (fun _ h => h) hP)

theorem allProductive_sound (h : allProductive G = true) : ∀ p ∈ G.prods, Productive G p.lhs := by
  intro p hp
  unfold allProductive at h
  have := List.all_eq_true.mp h p hp
  exact productiveFix_sound (G.prods.length + 1) [] (by simp) p.lhs (by simpa [productiveSet] using this)

end Gen

open Gen in
/-- **The productivity check is sound.** -/
theorem reducedB_sound {G : Grammar} (h : Gen.reducedB G = true) : Reduced G := by
  unfold Gen.reducedB at h
  simp only [Bool.and_eq_true, Bool.or_eq_true, List.any_eq_true, beq_iff_eq, Bool.not_eq_true'] at h
  have hall := allProductive_sound h.1
  refine ⟨hall, ?_⟩
  rcases h.2 with ⟨p, hp, hl⟩ | hnt
  · rw [← hl]; exact hall p hp
  · exact terminal_productive hnt

end Emboss.Lr1
