/-
BcdView write side: ConvertToBcd, MaxBcd, representability.
-/
import Emboss.Lemmas.ScalarWrite
namespace Emboss.Scalar
open Emboss.Bits Emboss.Scalar.Spec

/-- Decimal digits of `v` packed one per nibble (`n` digits). -/
def bcdEnc : Nat → Nat → Nat
  | 0, _ => 0
  | n + 1, v => v % 10 + 16 * bcdEnc n (v / 10)

/-- Number of nibbles of a `4m + r`-bit Bcd (`r < 4`). -/
def digitsN (m r : Nat) : Nat := m + (if r = 0 then 0 else 1)

theorem nibbles_eq (m r : Nat) (hr : r < 4) : nibbles (4 * m + r) = digitsN m r := by
  unfold nibbles digitsN; split <;> omega

theorem pow16_eq (i : Nat) : 16 ^ i = 2 ^ (4 * i) := by rw [Nat.pow_mul]

theorem bcdEnc_lt (n v : Nat) : bcdEnc n v < 16 ^ n := by
  induction n generalizing v with
  | zero => simp [bcdEnc]
  | succ n ih =>
    have := ih (v / 10)
    have := Nat.mod_lt v (show 0 < 10 by decide)
    simp only [bcdEnc, Nat.pow_succ]; omega

theorem binaryToBcdAux_eq {VW : Nat} (hVW : VW = 8 ∨ VW = 16 ∨ VW = 32 ∨ VW = 64)
    (fuel i value acc : Nat) (hi : i + fuel ≤ VW / 4) (hacc : acc < 16 ^ i) :
    binaryToBcdAux VW fuel (4 * i) value acc = acc + 16 ^ i * bcdEnc fuel value := by
  induction fuel generalizing i value acc with
  | zero => simp [binaryToBcdAux, bcdEnc]
  | succ fuel ih =>
    have hd := Nat.mod_lt value (show 0 < 10 by decide)
    have hp : 16 ^ (i + 1) = 16 ^ i * 16 := Nat.pow_succ _ _
    have hpos : 0 < 16 ^ i := Nat.pos_of_ne_zero (by simp)
    have hVWp : 16 ^ (VW / 4) = 2 ^ VW := by
      rcases hVW with rfl | rfl | rfl | rfl <;> decide
    have hle : 16 ^ (i + 1) ≤ 2 ^ VW := by
      rw [← hVWp]; exact Nat.pow_le_pow_right (by decide) (by omega)
    have hprod : value % 10 * 16 ^ i ≤ 9 * 16 ^ i := Nat.mul_le_mul_right _ (by omega)
    have hA : 2 ^ VW ≤ 2 ^ arithW VW := pow_le_pow (le_arithW VW)
    have hsh : shl (arithW VW) (value % 10) (4 * i) = value % 10 * 16 ^ i := by
      rw [pow16_eq]; apply shl_eq; rw [← pow16_eq]; omega
    have hor : acc ||| value % 10 * 16 ^ i = acc + value % 10 * 16 ^ i := by
      rw [pow16_eq] at hacc ⊢; exact or_eq_add_shift hacc
    simp only [binaryToBcdAux, hsh, hor]
    rw [wrap_of_lt (by omega), show 4 * i + 4 = 4 * (i + 1) by omega,
      ih (i + 1) _ _ (by omega) (by omega)]
    simp only [bcdEnc, hp]
    generalize bcdEnc fuel (value / 10) = X
    generalize value % 10 = N
    rw [Nat.mul_add, Nat.mul_comm N, Nat.mul_assoc, Nat.add_assoc]

theorem binaryToBcd_eq {k v : Nat} (hk : k ≤ 64) : binaryToBcd k v = bcdEnc (nibbles k) v := by
  unfold binaryToBcd nibbles
  have hVW := leastWidth_cases k
  have hle := le_leastWidth hk
  have := binaryToBcdAux_eq hVW ((k + 3) / 4) 0 v 0
    (by rcases hVW with h | h | h | h <;> rw [h] at hle ⊢ <;> omega) (by simp)
  simpa using this

theorem bcdEnc_ok (n v : Nat) : BcdOk n (bcdEnc n v) := by
  induction n generalizing v with
  | zero => intro i hi; omega
  | succ n ih =>
    intro i hi
    have hd := Nat.mod_lt v (show 0 < 10 by decide)
    cases i with
    | zero => rw [nibble_zero, bcdEnc]; omega
    | succ i =>
      rw [nibble_succ, bcdEnc]
      have : (v % 10 + 16 * bcdEnc n (v / 10)) / 16 = bcdEnc n (v / 10) := by omega
      rw [this]; exact ih _ i (by omega)

theorem bcdValue_bcdEnc (n v : Nat) (hv : v < 10 ^ n) : bcdValue n (bcdEnc n v) = v := by
  induction n generalizing v with
  | zero => simp at hv; simp [bcdValue, hv]
  | succ n ih =>
    have hd := Nat.mod_lt v (show 0 < 10 by decide)
    rw [Nat.pow_succ] at hv
    simp only [bcdEnc, bcdValue]
    have h1 : (v % 10 + 16 * bcdEnc n (v / 10)) % 16 = v % 10 := by omega
    have h2 : (v % 10 + 16 * bcdEnc n (v / 10)) / 16 = bcdEnc n (v / 10) := by omega
    rw [h1, h2, ih _ (by omega)]; omega

theorem two_pow_lt4 {r : Nat} (hr : r < 4) : 2 ^ r = 1 ∨ 2 ^ r = 2 ∨ 2 ^ r = 4 ∨ 2 ^ r = 8 := by
  have : r = 0 ∨ r = 1 ∨ r = 2 ∨ r = 3 := by omega
  rcases this with rfl | rfl | rfl | rfl <;> simp

/-- The packed digits of a value below `10^m·2^r` fit `4m + r` bits. -/
theorem bcdEnc_bound (m r v : Nat) (hr : r < 4) (hv : v < 10 ^ m * 2 ^ r) :
    bcdEnc (digitsN m r) v < 16 ^ m * 2 ^ r := by
  induction m generalizing v with
  | zero =>
    have h2 := two_pow_lt4 hr
    simp only [Nat.pow_zero, Nat.one_mul] at hv ⊢
    unfold digitsN
    by_cases h0 : r = 0
    · subst h0; simp [bcdEnc]
    · simp only [h0, if_false, Nat.zero_add, bcdEnc]
      omega
  | succ m ih =>
    have hd := Nat.mod_lt v (show 0 < 10 by decide)
    have hv' : v / 10 < 10 ^ m * 2 ^ r := by
      rw [Nat.pow_succ, Nat.mul_right_comm] at hv; omega
    have := ih (v / 10) hv'
    have hdn : digitsN (m + 1) r = digitsN m r + 1 := by unfold digitsN; omega
    rw [hdn, bcdEnc, Nat.pow_succ, Nat.mul_right_comm]; omega

/-- Conversely, a `4m + r`-bit pattern whose nibbles are digits has a value below `10^m·2^r`. -/
theorem bcdValue_bound_of_ok (m r d : Nat) (hr : r < 4) (hd : d < 16 ^ m * 2 ^ r)
    (hok : BcdOk (digitsN m r) d) : bcdValue (digitsN m r) d < 10 ^ m * 2 ^ r := by
  induction m generalizing d with
  | zero =>
    have h2 := two_pow_lt4 hr
    simp only [Nat.pow_zero, Nat.one_mul] at hd ⊢
    unfold digitsN
    by_cases h0 : r = 0
    · subst h0; simp [bcdValue]
    · simp only [h0, if_false, Nat.zero_add, bcdValue]
      omega
  | succ m ih =>
    have hdn : digitsN (m + 1) r = digitsN m r + 1 := by unfold digitsN; omega
    rw [hdn] at hok ⊢
    have h0 := hok 0 (by omega)
    rw [nibble_zero] at h0
    have hd' : d / 16 < 16 ^ m * 2 ^ r := by
      rw [Nat.pow_succ, Nat.mul_right_comm] at hd; omega
    have := ih (d / 16) hd' (fun i hi => by
      have := hok (i + 1) (by omega); rwa [nibble_succ] at this)
    rw [bcdValue, Nat.pow_succ, Nat.mul_right_comm]; omega

theorem pow10_pow2_le (m r : Nat) : 10 ^ m * 2 ^ r ≤ 2 ^ (4 * m + r) := by
  rw [Nat.pow_add, ← pow16_eq]
  exact Nat.mul_le_mul_right _ (Nat.pow_le_pow_left (by decide) m)

/-- `MaxBcd<ValueType>(bits) = 10^⌊bits/4⌋ · 2^(bits mod 4) − 1`. -/
theorem maxBcd_eq (VW m r : Nat) (hr : r < 4) (hVW : 4 * m + r ≤ VW) :
    maxBcd VW (4 * m + r) = 10 ^ m * 2 ^ r - 1 := by
  induction m with
  | zero =>
    have : r = 0 ∨ r = 1 ∨ r = 2 ∨ r = 3 := by omega
    have h1 : 2 ^ r ≤ 2 ^ VW := pow_le_pow (by omega)
    rcases this with rfl | rfl | rfl | rfl <;>
      simp only [Nat.mul_zero, Nat.zero_add, maxBcd, Nat.pow_zero, Nat.one_mul] <;>
      rw [shl_one (by omega)] <;> exact wrap_of_lt (by omega)
  | succ m ih =>
    rw [show 4 * (m + 1) + r = (4 * m + r) + 4 by omega, maxBcd, ih (by omega)]
    have hpos : 0 < 10 ^ m * 2 ^ r := Nat.mul_pos (Nat.pos_of_ne_zero (by simp)) (two_pow_pos' r)
    have hle := pow10_pow2_le (m + 1) r
    have hle2 : 2 ^ (4 * (m + 1) + r) ≤ 2 ^ VW := pow_le_pow hVW
    have : 10 * (10 ^ m * 2 ^ r - 1 + 1) - 1 = 10 ^ (m + 1) * 2 ^ r - 1 := by
      rw [Nat.sub_add_cancel hpos, Nat.pow_succ, Nat.mul_right_comm, Nat.mul_comm 10]
    rw [this]
    have hpos' : 0 < 10 ^ (m + 1) * 2 ^ r :=
      Nat.mul_pos (Nat.pos_of_ne_zero (by simp)) (two_pow_pos' r)
    exact wrap_of_lt (by omega)

/-- **`BcdView::CouldWriteValue` is exact**, and `ConvertToBcd` produces the representing
pattern. -/
theorem bcd_could_write {k v : Nat} (hk : 1 ≤ k) (hk64 : k ≤ 64) :
    (v ≤ maxBcd (leastWidth k) k ↔
      ∃ d, d < 2 ^ k ∧ BcdOk (nibbles k) d ∧ bcdValue (nibbles k) d = v) ∧
    (v ≤ maxBcd (leastWidth k) k →
      binaryToBcd k v < 2 ^ k ∧ BcdOk (nibbles k) (binaryToBcd k v) ∧
      bcdValue (nibbles k) (binaryToBcd k v) = v) := by
  obtain ⟨m, r, hr, rfl⟩ : ∃ m r, r < 4 ∧ k = 4 * m + r := ⟨k / 4, k % 4, by omega, by omega⟩
  have hle := le_leastWidth hk64
  rw [maxBcd_eq _ m r hr hle, nibbles_eq m r hr, binaryToBcd_eq hk64, nibbles_eq m r hr]
  have hpos : 0 < 10 ^ m * 2 ^ r := Nat.mul_pos (Nat.pos_of_ne_zero (by simp)) (two_pow_pos' r)
  have h2k : 2 ^ (4 * m + r) = 16 ^ m * 2 ^ r := by rw [Nat.pow_add, ← pow16_eq]
  have hwit : v ≤ 10 ^ m * 2 ^ r - 1 →
      bcdEnc (digitsN m r) v < 2 ^ (4 * m + r) ∧ BcdOk (digitsN m r) (bcdEnc (digitsN m r) v) ∧
      bcdValue (digitsN m r) (bcdEnc (digitsN m r) v) = v := by
    intro hv
    have hv' : v < 10 ^ m * 2 ^ r := by omega
    refine ⟨by rw [h2k]; exact bcdEnc_bound m r v hr hv', bcdEnc_ok _ _, bcdValue_bcdEnc _ _ ?_⟩
    have h2 := two_pow_lt4 hr
    unfold digitsN
    by_cases h0 : r = 0
    · subst h0; simpa using hv'
    · simp only [h0, if_false, Nat.pow_succ]
      rcases h2 with h | h | h | h <;> rw [h] at hv' <;> omega
  refine ⟨⟨fun hv => ⟨_, hwit hv⟩, ?_⟩, hwit⟩
  rintro ⟨d, hd, hok, rfl⟩
  have := bcdValue_bound_of_ok m r d hr (by rw [← h2k]; exact hd) hok
  omega

end Emboss.Scalar
