import Emboss.Spec.Deps
namespace Emboss.Deps

theorem ready_iff (deps : DepFn) (added : List Nat) (f : Nat) :
    ready deps added f = true ↔ ∀ d ∈ deps f, d ∈ added := by
  simp [ready, List.all_eq_true]

theorem pickFirst_ready {deps : DepFn} {added needed : List Nat} {f : Nat} {rest : List Nat}
    (h : pickFirst deps added needed = some (f, rest)) : ready deps added f = true := by
  induction needed generalizing f rest with
  | nil => simp [pickFirst] at h
  | cons a t ih =>
    unfold pickFirst at h
    split at h
    · cases h; assumption
    · split at h
      · cases h
      · rename_i g r hg
        cases h
        exact ih hg

theorem pickFirst_perm {deps : DepFn} {added needed : List Nat} {f : Nat} {rest : List Nat}
    (h : pickFirst deps added needed = some (f, rest)) : needed.Perm (f :: rest) := by
  induction needed generalizing f rest with
  | nil => simp [pickFirst] at h
  | cons a t ih =>
    unfold pickFirst at h
    split at h
    · cases h; exact List.Perm.refl _
    · split at h
      · cases h
      · rename_i g r hg
        cases h
        exact ((ih hg).cons a).trans (List.Perm.swap _ _ _)

theorem pickFirst_length {deps : DepFn} {added needed : List Nat} {f : Nat} {rest : List Nat}
    (h : pickFirst deps added needed = some (f, rest)) : needed.length = rest.length + 1 := by
  simpa using (pickFirst_perm h).length_eq

/-- If the head is ready it is the one picked (source order is kept when possible). -/
theorem pickFirst_head_ready {deps : DepFn} {added : List Nat} {f : Nat} {rest : List Nat}
    (h : ready deps added f = true) : pickFirst deps added (f :: rest) = some (f, rest) := by
  simp [pickFirst, h]

theorem pickFirst_none {deps : DepFn} {added needed : List Nat}
    (h : pickFirst deps added needed = none) : ∀ f ∈ needed, ready deps added f = false := by
  induction needed with
  | nil => simp
  | cons a t ih =>
    unfold pickFirst at h
    split at h
    · cases h
    · rename_i hna
      split at h
      · rename_i hn
        intro f hf
        rcases List.mem_cons.mp hf with rfl | hf
        · simpa using hna
        · exact ih hn f hf
      · cases h

theorem orderAux_topo (deps : DepFn) (fuel : Nat) (added needed : List Nat) :
    TopoFrom deps added (orderAux deps fuel added needed) := by
  induction fuel generalizing added needed with
  | zero => simp [orderAux, TopoFrom]
  | succ n ih =>
    unfold orderAux
    split
    · simp [TopoFrom]
    · rename_i f rest h
      exact ⟨(ready_iff _ _ _).mp (pickFirst_ready h), ih _ _⟩

theorem orderAux_id_of_topo (deps : DepFn) (added needed : List Nat)
    (h : TopoFrom deps added needed) : orderAux deps needed.length added needed = needed := by
  induction needed generalizing added with
  | nil => simp [orderAux]
  | cons f rest ih =>
    obtain ⟨h1, h2⟩ := h
    have hr : ready deps added f = true := (ready_iff _ _ _).mpr h1
    simp only [List.length_cons, orderAux, pickFirst_head_ready hr]
    rw [ih _ h2]

theorem orderAux_nil (deps : DepFn) (fuel : Nat) (added : List Nat) :
    orderAux deps fuel added [] = [] := by
  cases fuel <;> simp [orderAux, pickFirst]

theorem orderAux_perm_of_length (deps : DepFn) (fuel : Nat) (added needed : List Nat)
    (hf : needed.length ≤ fuel)
    (h : (orderAux deps fuel added needed).length = needed.length) :
    (orderAux deps fuel added needed).Perm needed := by
  induction fuel generalizing added needed with
  | zero =>
    have : needed = [] := List.eq_nil_of_length_eq_zero (by omega)
    subst this; rw [orderAux_nil]
  | succ n ih =>
    unfold orderAux at h ⊢
    split at h
    · rename_i hp
      have : needed = [] := List.eq_nil_of_length_eq_zero (by simpa using h.symm)
      subst this; simp
    · rename_i f rest hp
      have hl := pickFirst_length hp
      simp only [List.length_cons] at h
      have := ih (f :: added) rest (by omega) (by omega)
      exact (this.cons f).trans (pickFirst_perm hp).symm

/-- Whatever is emitted comes from `needed`. -/
theorem orderAux_mem (deps : DepFn) (fuel : Nat) (added needed : List Nat) :
    ∀ x ∈ orderAux deps fuel added needed, x ∈ needed := by
  induction fuel generalizing added needed with
  | zero => simp [orderAux]
  | succ n ih =>
    unfold orderAux
    split
    · simp
    · rename_i f rest hp
      intro x hx
      have hperm := pickFirst_perm hp
      rcases List.mem_cons.mp hx with rfl | hx
      · exact hperm.symm.subset (List.mem_cons_self ..)
      · exact hperm.symm.subset (List.mem_cons_of_mem _ (ih _ _ x hx))

theorem TopoFrom_mono (deps : DepFn) {a b : List Nat} (l : List Nat)
    (hs : ∀ x ∈ a, x ∈ b) (h : TopoFrom deps a l) : TopoFrom deps b l := by
  induction l generalizing a b with
  | nil => trivial
  | cons f rest ih =>
    refine ⟨fun d hd => hs d (h.1 d hd), ih ?_ h.2⟩
    intro x hx
    rcases List.mem_cons.mp hx with rfl | hx
    · exact List.mem_cons_self ..
    · exact List.mem_cons_of_mem _ (hs x hx)

theorem TopoFrom_erase (deps : DepFn) (added l : List Nat) (f : Nat)
    (hr : ∀ d ∈ deps f, d ∈ added) (h : TopoFrom deps added l) :
    TopoFrom deps (f :: added) (l.erase f) := by
  induction l generalizing added with
  | nil => trivial
  | cons a rest ih =>
    by_cases hfa : a = f
    · subst hfa
      simpa using h.2
    · have : (a :: rest).erase f = a :: rest.erase f := by
        simp [hfa]
      rw [this]
      refine ⟨fun d hd => List.mem_cons_of_mem _ (h.1 d hd), ?_⟩
      have := ih (a :: added) (fun d hd => List.mem_cons_of_mem _ (hr d hd)) h.2
      refine TopoFrom_mono deps _ ?_ this
      intro x hx
      simp only [List.mem_cons] at hx ⊢
      rcases hx with h | h | h <;> simp [h]

/-- Completeness: if *some* arrangement of `needed` is topological then the loop
does not stop early (so the Python `assert len(order) == len(structure.field)`
cannot fire on an acyclic structure). -/
theorem orderAux_complete (deps : DepFn) (fuel : Nat) (added needed p : List Nat)
    (hf : needed.length ≤ fuel) (hp : p.Perm needed) (ht : TopoFrom deps added p) :
    (orderAux deps fuel added needed).length = needed.length := by
  induction fuel generalizing added needed p with
  | zero =>
    have : needed = [] := List.eq_nil_of_length_eq_zero (by omega)
    subst this; simp [orderAux]
  | succ n ih =>
    cases hn : needed with
    | nil => simp [orderAux, pickFirst]
    | cons a t =>
      subst hn
      cases p with
      | nil => simpa using hp.length_eq
      | cons q p' =>
        have hq : ready deps added q = true := (ready_iff _ _ _).mpr ht.1
        have hqm : q ∈ a :: t := hp.subset (List.mem_cons_self ..)
        unfold orderAux
        split
        · rename_i hnone
          have := pickFirst_none hnone q hqm
          simp [hq] at this
        · rename_i f rest hpick
          have hperm := pickFirst_perm hpick
          have hl := pickFirst_length hpick
          have hrf := (ready_iff _ _ _).mp (pickFirst_ready hpick)
          have h1 : ((q :: p').erase f).Perm rest := by
            have := (hp.trans hperm).erase f
            simpa using this
          have h2 := TopoFrom_erase deps added (q :: p') f hrf ht
          have := ih (f :: added) rest _ (by simp only [List.length_cons] at hf hl; omega) h1 h2
          simp only [List.length_cons, this, hl]

end Emboss.Deps
