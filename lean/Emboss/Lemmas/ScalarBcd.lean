/-
BcdView lemmas: ConvertToBinary / ConvertToBcd loops, MaxBcd.
-/
import Emboss.Lemmas.ScalarView
namespace Emboss.Scalar
open Emboss.Bits Emboss.Scalar.Spec

theorem pow10_le_pow16 (VW : Nat) (hVW : VW = 8 ∨ VW = 16 ∨ VW = 32 ∨ VW = 64) :
    2 * 10 ^ (VW / 4) ≤ 2 ^ VW := by
  rcases hVW with rfl | rfl | rfl | rfl <;> decide

theorem pow10_mono {a b : Nat} (h : a ≤ b) : 10 ^ a ≤ 10 ^ b := Nat.pow_le_pow_right (by decide) h

theorem nib_eq (v i : Nat) : (v >>> (4 * i)) &&& 0xf = v / 16 ^ i % 16 := by
  rw [Nat.shiftRight_eq_div_pow, Nat.pow_mul, show (0xf : Nat) = 2 ^ 4 - 1 from rfl,
    Nat.and_two_pow_sub_one_eq_mod]

theorem bcdToBinaryAux_eq {VW : Nat} (hVW : VW = 8 ∨ VW = 16 ∨ VW = 32 ∨ VW = 64)
    (v fuel i result : Nat) (hi : i + fuel ≤ VW / 4) (hres : result < 2 * 10 ^ i) :
    bcdToBinaryAux VW v fuel (4 * i) result (10 ^ i) =
      result + 10 ^ i * bcdValue fuel (v / 16 ^ i) := by
  induction fuel generalizing i result with
  | zero => simp [bcdToBinaryAux, bcdValue]
  | succ fuel ih =>
    have hb := pow10_le_pow16 VW hVW
    have hm1 : 10 ^ (i + 1) ≤ 10 ^ (VW / 4) := pow10_mono (by omega)
    have hp : 10 ^ (i + 1) = 10 ^ i * 10 := Nat.pow_succ _ _
    have hpos : 0 < 10 ^ i := Nat.pos_of_ne_zero (by simp)
    have hnib : v / 16 ^ i % 16 < 16 := Nat.mod_lt _ (by decide)
    have hprod : v / 16 ^ i % 16 * 10 ^ i ≤ 15 * 10 ^ i := Nat.mul_le_mul_right _ (by omega)
    have hA : 2 ^ VW ≤ 2 ^ arithW VW := pow_le_pow (le_arithW VW)
    simp only [bcdToBinaryAux, nib_eq]
    rw [show mulW (arithW VW) (v / 16 ^ i % 16) (10 ^ i) = v / 16 ^ i % 16 * 10 ^ i from
        wrap_of_lt (by omega),
      show mulW VW (10 ^ i) 10 = 10 ^ (i + 1) from by rw [hp]; exact wrap_of_lt (by omega),
      wrap_of_lt (by omega), show 4 * i + 4 = 4 * (i + 1) by omega,
      ih (i + 1) _ (by omega) (by omega)]
    simp only [bcdValue]
    rw [show v / 16 ^ (i + 1) = v / 16 ^ i / 16 by rw [Nat.pow_succ, Nat.div_div_eq_div_mul], hp]
    generalize bcdValue fuel (v / 16 ^ i / 16) = X
    generalize v / 16 ^ i % 16 = N
    rw [Nat.mul_add, Nat.mul_comm N, Nat.mul_assoc, Nat.add_assoc]

/-- `BcdView::ConvertToBinary` computes `Σ nibbleᵢ · 10ⁱ` without overflow. -/
theorem bcdToBinary_eq {k v : Nat} (hk : k ≤ 64) (hv : v < 2 ^ k) :
    bcdToBinary k v = bcdValue (nibbles k) v := by
  unfold bcdToBinary nibbles
  have hVW := leastWidth_cases k
  have hle := le_leastWidth hk
  rw [wrap_of_lt (lt_pow_of_lt_of_le hv hle)]
  have := bcdToBinaryAux_eq hVW v ((k + 3) / 4) 0 0
    (by rcases hVW with h | h | h | h <;> rw [h] at hle ⊢ <;> omega) (by simp)
  simpa using this

end Emboss.Scalar
