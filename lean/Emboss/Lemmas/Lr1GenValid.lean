/-
Level B, part 4: the ACTION / GOTO tables of the generator model and the assembly of
`Valid G (gen G).aut (gen G).cert` from the invariant of the state graph.
-/
import Emboss.Lemmas.Lr1GenBfs
import Emboss.Lemmas.Lr1GenReduced
namespace Emboss.Lr1
namespace Gen

variable {G : Grammar} {C : Cert}

/-! ### rows -/

theorem mem_dedupActs {e : Nat × Action} : ∀ {l : List (Nat × Action)}, e ∈ dedupActs l ↔ e ∈ l
  | [] => by simp [dedupActs]
  | a :: l => by
    unfold dedupActs
    have ih := mem_dedupActs (e := e) (l := l)
    by_cases hc : l.contains a = true
    · simp only [hc, if_true, ih, List.mem_cons]
      have : a ∈ l := by simpa using hc
      constructor
      · exact Or.inr
      · rintro (h | h)
        · exact h ▸ this
        · exact h
    · simp only [hc, Bool.false_eq_true, if_false, List.mem_cons, ih]

/-- the row is a function of the key -/
def NoConf (l : List (Nat × Action)) : Prop := ∀ e ∈ l, ∀ e' ∈ l, e.1 = e'.1 → e.2 = e'.2

theorem noConf_of_hasConflict {l : List (Nat × Action)} (h : hasConflict l = false) : NoConf l := by
  intro e he e' he' hk
  unfold hasConflict at h
  have h1 := List.any_eq_false.mp h e he
  have h2 := List.any_eq_false.mp (Bool.eq_false_iff.mpr h1) e' he'
  simp only [Bool.and_eq_true, beq_iff_eq, bne_iff_ne, ne_eq, not_and, Decidable.not_not] at h2
  exact h2 hk

theorem lookup_of_noConf : ∀ {l : List (Nat × Action)}, NoConf l → ∀ e ∈ l, l.lookup e.1 = some e.2
  | [], _, _, he => by cases he
  | a :: l, hn, e, he => by
    obtain ⟨k, v⟩ := a
    simp only [List.lookup]
    by_cases hk : e.1 = k
    · have : e.2 = v := hn e he (k, v) List.mem_cons_self hk
      simp [hk, this]
    · have hne : (e.1 == k) = false := by simpa using hk
      simp only [hne]
      rcases List.mem_cons.mp he with rfl | he
      · exact absurd rfl hk
      · exact lookup_of_noConf (fun x hx y hy => hn x (List.mem_cons_of_mem _ hx) y (List.mem_cons_of_mem _ hy)) e he

theorem lookup_filter {x : Nat} (f : Nat → Bool) (hx : f x = true) : ∀ (row : List (Nat × Nat)),
    (row.filter fun e => f e.1).lookup x = row.lookup x
  | [] => rfl
  | (k, v) :: row => by
    by_cases hk : f k = true
    · simp only [List.filter, hk, List.lookup]
      rw [lookup_filter f hx row]
    · have hne : (x == k) = false := by
        cases hxk : x == k with
        | false => rfl
        | true =>
          have : x = k := by simpa using hxk
          subst this; exact absurd hx hk
      simp only [List.filter, hk, List.lookup, hne]
      exact lookup_filter f hx row

/-! ### `wanted` -/

theorem mem_wanted {eoi : Nat} {row : List (Nat × Nat)} {I : List Item} {e : Nat × Action} :
    e ∈ wanted C eoi row I ↔ ∃ it ∈ I, ∃ p, C.ruleAt it.pi = some p ∧
      ((p.rhs[it.dot]? = none ∧
          ((it.pi = C.seedIdx ∧ it.dot = 1 ∧ it.la = eoi ∧ e = (eoi, .accept)) ∨
           (it.pi ≠ C.seedIdx ∧ e = (it.la, .reduce it.pi)))) ∨
       (∃ x, p.rhs[it.dot]? = some x ∧ C.isNT x = false ∧ ∃ t, row.lookup x = some t ∧ e = (x, .shift t))) := by
  unfold wanted
  simp only [List.mem_flatMap]
  constructor
  · rintro ⟨it, hit, h⟩
    refine ⟨it, hit, ?_⟩
    cases hp : C.ruleAt it.pi with
    | none => simp [hp] at h
    | some p =>
      refine ⟨p, rfl, ?_⟩
      simp only [hp] at h
      cases hx : p.rhs[it.dot]? with
      | none =>
        simp only [hx] at h
        refine Or.inl ⟨rfl, ?_⟩
        by_cases hs : it.pi = C.seedIdx
        · simp only [hs, if_true] at h
          split at h
          · rename_i hc
            simp only [List.mem_singleton] at h
            exact Or.inl ⟨hs, hc.1, hc.2, h⟩
          · cases h
        · simp only [hs, if_false, List.mem_singleton] at h
          exact Or.inr ⟨hs, h⟩
      | some x =>
        simp only [hx] at h
        refine Or.inr ⟨x, rfl, ?_⟩
        by_cases hn : C.isNT x = true
        · simp [hn] at h
        · have hn' : C.isNT x = false := by simpa using hn
          simp only [hn', Bool.false_eq_true, if_false] at h
          cases hl : row.lookup x with
          | none => simp [hl] at h
          | some t =>
            simp only [hl, List.mem_singleton] at h
            exact ⟨hn', t, rfl, h⟩
  · rintro ⟨it, hit, p, hp, h⟩
    refine ⟨it, hit, ?_⟩
    simp only [hp]
    rcases h with ⟨hx, h⟩ | ⟨x, hx, hn, t, hl, rfl⟩
    · simp only [hx]
      rcases h with ⟨hs, h1, h2, rfl⟩ | ⟨hs, rfl⟩
      · simp [hs, h1, h2]
      · simp [hs]
    · simp [hx, hn, hl]

/-! ### the output of `gen` -/

def withItems (C : Cert) (items : Array (List Item)) : Cert := { C with items := items }

theorem firstSeq_withItems (C : Cert) (items : Array (List Item)) : ∀ (β t : List Nat),
    (withItems C items).firstSeq β t = C.firstSeq β t
  | [], _ => rfl
  | x :: β, t => by
    simp only [Cert.firstSeq, firstSeq_withItems C items β t]
    rfl

theorem justOrder_withItems (C : Cert) (items : Array (List Item)) : ∀ (l : List Item) (seen : List Nat),
    JustOrder (withItems C items) seen l ↔ JustOrder C seen l
  | [], _ => Iff.rfl
  | it :: l, seen => by
    simp only [JustOrder]
    exact and_congr Iff.rfl (justOrder_withItems C items l _)

def autOf (G : Grammar) (C : Cert) (st : St) : Automaton :=
  { prods := G.all
    action := ((rowsOf C G.eoi st).map fun r => if r.isEmpty then none else some r).toArray
    goto := st.trans.map fun row => row.filter fun e => C.isNT e.1
    defaultErrors := [], strict := false, eoi := G.eoi }

theorem gen_eq {o : Out} (h : gen G = some o) : ∃ C I0 st, tables G = some C ∧
    closure C [⟨C.seedIdx, 0, G.eoi⟩] = some I0 ∧
    bfs C (bfsFuel C) 0 ⟨#[norm I0], #[I0.reverse], #[]⟩ = some st ∧
    o = ⟨autOf G C st, withItems C st.just, st.states,
      (rowsOf C G.eoi st).any hasConflict || !allProductive G⟩ := by
  unfold gen at h
  cases hC : tables G with
  | none => simp [hC] at h
  | some C =>
    simp only [hC] at h
    cases hI : closure C [⟨C.seedIdx, 0, G.eoi⟩] with
    | none => simp [hI] at h
    | some I0 =>
      simp only [hI] at h
      cases hb : bfs C (bfsFuel C) 0 ⟨#[norm I0], #[I0.reverse], #[]⟩ with
      | none => simp [hb] at h
      | some st =>
        simp only [hb, Option.some.injEq] at h
        exact ⟨C, I0, st, rfl, hI, hb, h.symm⟩

/-- the row of a generated state -/
def rowAt (C : Cert) (eoi : Nat) (st : St) (s : Nat) : List (Nat × Action) :=
  dedupActs (wanted C eoi ((st.trans[s]?).getD []) ((st.states[s]?).getD []))

theorem action_autOf (st : St) (s : Nat) : (autOf G C st).action[s]? =
    if s < st.states.size then
      some (if (rowAt C G.eoi st s).isEmpty then none else some (rowAt C G.eoi st s)) else none := by
  simp only [autOf, rowsOf, List.map_map]
  rw [tab_get]
  rfl

theorem action_size (st : St) : (autOf G C st).action.size = st.states.size := by
  simp [autOf, rowsOf]

theorem row_autOf {st : St} {s : Nat} {r : Row} (h : (autOf G C st).row s = some r) :
    s < st.states.size ∧ r = rowAt C G.eoi st s := by
  unfold Automaton.row at h
  rw [action_autOf] at h
  split at h
  · rename_i hs
    refine ⟨hs, ?_⟩
    simp only [Option.join_some] at h
    split at h
    · cases h
    · cases h; rfl
  · simp at h

theorem entry_autOf {st : St} {s : Nat} (hs : s < st.states.size) (a : Nat) :
    (autOf G C st).entry s a = (rowAt C G.eoi st s).lookup a := by
  unfold Automaton.entry Automaton.row
  rw [action_autOf, if_pos hs]
  simp only [Option.join_some]
  split
  · rename_i r hr
    split at hr
    · cases hr
    · cases hr; rfl
  · rename_i hr
    split at hr
    · rename_i he
      have : rowAt C G.eoi st s = [] := by simpa using he
      rw [this]; rfl
    · cases hr

theorem gotoOf_autOf {st : St} {s x : Nat} {row : List (Nat × Nat)} (hr : st.trans[s]? = some row)
    (hx : C.isNT x = true) : (autOf G C st).gotoOf s x = row.lookup x := by
  unfold Automaton.gotoOf
  simp only [autOf, Array.getElem?_map, hr, Option.map_some, Option.getD_some]
  exact lookup_filter C.isNT hx row

/-- Everything known about the state graph when `bfs` is through. -/
structure Done (G : Grammar) (C : Cert) (I0 : List Item) (st : St) : Prop where
  tab : TabOK G C
  wf : WfG G
  inv : Inv G C st
  full : st.trans.size = st.states.size
  zero : st.just[0]? = some I0.reverse
  clo : closure C [⟨C.seedIdx, 0, G.eoi⟩] = some I0
  noConf : ∀ s, s < st.states.size → NoConf (rowAt C G.eoi st s)

/-- the three views of a generated state -/
theorem Done.state {I0 : List Item} {st : St} (d : Done G C I0 st) {s : Nat} (hs : s < st.states.size) :
    ∃ I L row, st.states[s]? = some I ∧ st.just[s]? = some L ∧ st.trans[s]? = some row ∧
      (∀ it, it ∈ L ↔ it ∈ I) := by
  have h1 : st.states[s]? = some st.states[s] := Array.getElem?_eq_getElem hs
  have hs2 : s < st.just.size := by rw [d.inv.size]; exact hs
  have hs3 : s < st.trans.size := by rw [d.full]; exact hs
  have h2 : st.just[s]? = some st.just[s] := Array.getElem?_eq_getElem hs2
  have h3 : st.trans[s]? = some st.trans[s] := Array.getElem?_eq_getElem hs3
  exact ⟨_, _, _, h1, h2, h3, d.inv.mem s _ _ h1 h2⟩

theorem Done.itemsOf {I0 : List Item} {st : St} {s : Nat} {L : List Item}
    (h : st.just[s]? = some L) : (withItems C st.just).itemsOf s = L := by
  simp [Cert.itemsOf, withItems, h]

theorem Done.eoi_terminal {I0 : List Item} {st : St} (d : Done G C I0 st) : C.isNT G.eoi = false := by
  cases h : C.isNT G.eoi with
  | false => rfl
  | true =>
    obtain ⟨p, hp, hl⟩ := Grammar.isNT_iff.mp (d.tab.ntS _ h)
    exact absurd hl (d.wf.2.2.2.1 p hp).1

/-- an entry the items of state `s` ask for is the table entry (no conflicts) -/
theorem Done.entry_of_wanted {I0 : List Item} {st : St} (d : Done G C I0 st) {s : Nat}
    (hs : s < st.states.size) {I : List Item} {row : List (Nat × Nat)} (hI : st.states[s]? = some I)
    (hr : st.trans[s]? = some row) {e : Nat × Action} (he : e ∈ wanted C G.eoi row I) :
    (autOf G C st).entry s e.1 = some e.2 := by
  rw [entry_autOf hs]
  refine lookup_of_noConf (d.noConf s hs) e ?_
  simp only [rowAt, hI, hr, Option.getD_some]
  exact mem_dedupActs.mpr he

/-- the target of a recorded transition satisfies the validator's `TargetOK` -/
theorem Done.target {I0 : List Item} {st : St} (d : Done G C I0 st) {s : Nat} {row : List (Nat × Nat)}
    (hr : st.trans[s]? = some row) {x t : Nat} (he : (x, t) ∈ row) :
    TargetOK (listMem (withItems C st.just)) (autOf G C st) (withItems C st.just) s x t := by
  obtain ⟨I, J, hI, hJ, ⟨it0, hit0, hn0⟩, e2, e3⟩ := d.inv.edges s row hr (x, t) he
  have hs : s < st.states.size := (Array.getElem?_eq_some_iff.mp hI).1
  have ht : t < st.states.size := (Array.getElem?_eq_some_iff.mp hJ).1
  obtain ⟨I', L, _, hI', hL, _, hm⟩ := d.state hs
  obtain ⟨J', L', _, hJ', hL', _, hm'⟩ := d.state ht
  rw [hI] at hI'; cases hI'
  rw [hJ] at hJ'; cases hJ'
  refine ⟨?_, fun h => (by cases h), ?_⟩
  · rw [Done.itemsOf (I0 := I0) hL']
    intro hnil
    have := (hm' _).mpr (e2 it0 hit0 hn0)
    rw [hnil] at this; cases this
  · intro y hy
    rw [Done.itemsOf (I0 := I0) hL'] at hy
    rcases e3 y ((hm' y).mp hy) with ⟨h0, hns⟩ | ⟨it, hit, hn, rfl⟩
    · exact ⟨fun _ => hns, fun hne => absurd h0 hne⟩
    · refine ⟨fun h0 => by simp [Gen.advance] at h0, fun _ => ?_⟩
      obtain ⟨p, hp, hx⟩ := nextSyms_eq.mp (nextSyms_singleton.mpr hn)
      refine ⟨⟨p, hp, by simpa [Gen.advance] using hx⟩, ?_⟩
      show _ ∈ (withItems C st.just).itemsOf s
      rw [Done.itemsOf (I0 := I0) hL]
      exact (hm _).mpr hit

theorem Done.valid {I0 : List Item} {st : St} (d : Done G C I0 st) :
    Valid G (autOf G C st) (withItems C st.just) := by
  have hT := d.tab
  have hW := d.wf
  have hsz : (withItems C st.just).items.size = st.states.size := d.inv.size
  obtain ⟨c1, c2, c3⟩ := closure_spec d.clo
  refine ⟨?_, ?_, ?_, ?_, ?_, ?_, ?_, ?_, ?_⟩
  · -- VWf
    exact ⟨rfl, rfl, hW.1, hW.2.1, hW.2.2.1, hW.2.2.2.1, hW.2.2.2.2, hT.rules, hT.prodsC, hT.ntC,
      fun x _ hx => hT.ntS x hx, fun h => (by cases h)⟩
  · -- VStart
    constructor
    · show _ ∈ (withItems C st.just).itemsOf 0
      rw [Done.itemsOf (I0 := I0) d.zero]
      exact List.mem_reverse.mpr (c1 _ List.mem_cons_self)
    · intro it hit
      rw [Done.itemsOf (I0 := I0) d.zero] at hit
      rcases c3 it (List.mem_reverse.mp hit) with hs | ⟨h0, _⟩
      · simp only [List.mem_singleton] at hs; rw [hs]
      · exact h0
  · -- VTrans
    intro s hs it hit x hx
    rw [hsz] at hs
    obtain ⟨I, L, row, hI, hL, hr, hm⟩ := d.state hs
    rw [Done.itemsOf (I0 := I0) hL] at hit
    have hitI := (hm it).mp hit
    have hx' : x ∈ C.nextSyms it := hx
    have hlk := d.inv.total s row I hr hI it hitI x hx'
    cases hl : row.lookup x with
    | none => rw [hl] at hlk; cases hlk
    | some k =>
      obtain ⟨I', J, hI', hJ, _, e2, _⟩ := d.inv.edges s row hr (x, k) (lookup_mem hl)
      rw [hI] at hI'; cases hI'
      have hk : k < st.states.size := (Array.getElem?_eq_some_iff.mp hJ).1
      obtain ⟨J', L', _, hJ', hL', _, hm'⟩ := d.state hk
      rw [hJ] at hJ'; cases hJ'
      have hadv : listMem (withItems C st.just) k ⟨it.pi, it.dot + 1, it.la⟩ := by
        show _ ∈ (withItems C st.just).itemsOf k
        rw [Done.itemsOf (I0 := I0) hL']
        exact (hm' _).mpr (e2 it hitI (nextSyms_singleton.mp hx'))
      constructor
      · intro hnt
        have hnt' : C.isNT x = true := hnt
        exact ⟨k, by rw [gotoOf_autOf hr hnt', hl]; rfl, hadv⟩
      · intro hnt
        have hnt' : C.isNT x = false := hnt
        obtain ⟨p, hp, hpx⟩ := nextSyms_eq.mp hx'
        have hw : (x, Action.shift k) ∈ wanted C G.eoi row I :=
          mem_wanted.mpr ⟨it, hitI, p, hp, Or.inr ⟨x, hpx, hnt', k, hl, rfl⟩⟩
        exact ⟨.shift k, d.entry_of_wanted hs hI hr hw, k, rfl, hadv⟩
  · -- VClosure
    intro s hs it hit p hp x hx j hj c hc
    rw [hsz] at hs
    obtain ⟨I, L, row, hI, hL, hr, hm⟩ := d.state hs
    rw [Done.itemsOf (I0 := I0) hL] at hit
    rw [firstSeq_withItems] at hc
    show _ ∈ (withItems C st.just).itemsOf s
    rw [Done.itemsOf (I0 := I0) hL]
    exact (hm _).mpr ((d.inv.closed s I hI).vclosure it ((hm it).mp hit) p hp x hx j hj c hc)
  · -- VComplete
    intro s hs it hit p hp hdot
    rw [hsz] at hs
    obtain ⟨I, L, row, hI, hL, hr, hm⟩ := d.state hs
    rw [Done.itemsOf (I0 := I0) hL] at hit
    have hitI := (hm it).mp hit
    have hp' : C.ruleAt it.pi = some p := hp
    have hnone : p.rhs[it.dot]? = none := by rw [hdot]; simp
    have hok := d.inv.ok s I hI it hitI
    show _ = some (if it.pi = C.seedIdx then Action.accept else Action.reduce it.pi)
    by_cases hseed : it.pi = C.seedIdx
    · rw [if_pos hseed]
      have hla := hok.seedLa hseed
      have hps : p = G.seed := by
        rw [hseed, hT.ruleAt_seed] at hp'; cases hp'; rfl
      have hd1 : it.dot = 1 := by rw [hdot, hps]; rfl
      have hw : (G.eoi, Action.accept) ∈ wanted C G.eoi row I :=
        mem_wanted.mpr ⟨it, hitI, p, hp', Or.inl ⟨hnone, Or.inl ⟨hseed, hd1, hla, rfl⟩⟩⟩
      rw [hla]
      exact d.entry_of_wanted hs hI hr hw
    · rw [if_neg hseed]
      have hw : (it.la, Action.reduce it.pi) ∈ wanted C G.eoi row I :=
        mem_wanted.mpr ⟨it, hitI, p, hp', Or.inl ⟨hnone, Or.inr ⟨hseed, rfl⟩⟩⟩
      exact d.entry_of_wanted hs hI hr hw
  · -- VKernel
    constructor
    · intro s _ r hr e he s' hs'
      obtain ⟨hs, rfl⟩ := row_autOf hr
      obtain ⟨I, L, row, hI, hL, hrow, hm⟩ := d.state hs
      have he' : e ∈ wanted C G.eoi row I := by
        have := mem_dedupActs.mp he
        simpa only [hI, hrow, Option.getD_some] using this
      obtain ⟨it, hit, p, hp, h⟩ := mem_wanted.mp he'
      rcases h with ⟨_, ⟨_, _, _, rfl⟩ | ⟨_, rfl⟩⟩ | ⟨x, hx, hn, t, hl, rfl⟩
      · cases hs'
      · cases hs'
      · simp only [Action.shiftTarget, Option.mem_def, Option.some.injEq] at hs'
        subst hs'
        exact d.target hrow (lookup_mem hl)
    · intro s hs e he
      have hs1 : s < st.trans.size := by simpa [autOf] using hs
      have hrow : st.trans[s]? = some st.trans[s] := Array.getElem?_eq_getElem hs1
      have he' : e ∈ st.trans[s] := by
        simp only [autOf, Array.getElem?_map, hrow, Option.map_some, Option.getD_some] at he
        exact (List.mem_filter.mp he).1
      exact d.target hrow he'
  · -- VOrder
    intro s hs
    rw [hsz] at hs
    obtain ⟨I, L, row, hI, hL, hr, hm⟩ := d.state hs
    rw [Done.itemsOf (I0 := I0) hL, justOrder_withItems]
    exact d.inv.order s L hL
  · -- VActJust
    intro s _ r hr e he
    obtain ⟨hs, rfl⟩ := row_autOf hr
    obtain ⟨I, L, row, hI, hL, hrow, hm⟩ := d.state hs
    have he' : e ∈ wanted C G.eoi row I := by
      have := mem_dedupActs.mp he
      simpa only [hI, hrow, Option.getD_some] using this
    obtain ⟨it, hit, p, hp, h⟩ := mem_wanted.mp he'
    have hok := d.inv.ok s I hI it hit
    have hitL : it ∈ (withItems C st.just).itemsOf s := by
      rw [Done.itemsOf (I0 := I0) hL]; exact (hm it).mpr hit
    rcases h with ⟨hnone, ⟨hseed, hd1, hla, rfl⟩ | ⟨hseed, rfl⟩⟩ | ⟨x, hx, hn, t, hl, rfl⟩
    · refine ⟨d.eoi_terminal, rfl, ?_⟩
      have : it = ⟨C.seedIdx, 1, G.eoi⟩ := by
        cases it; simp only at hseed hd1 hla; subst hseed hd1 hla; rfl
      rw [this] at hitL
      exact hitL
    · refine ⟨hok.laT, (hT.rule_user hp hseed).1, p, hp, ?_⟩
      obtain ⟨q, hq, hle⟩ := hok.rule
      rw [hp] at hq; cases hq
      have hge : p.rhs.length ≤ it.dot := by
        rcases Nat.lt_or_ge it.dot p.rhs.length with hlt | hge
        · rw [List.getElem?_eq_getElem hlt] at hnone; cases hnone
        · exact hge
      have hd : p.rhs.length = it.dot := Nat.le_antisymm hge hle
      show (⟨it.pi, p.rhs.length, it.la⟩ : Item) ∈ _
      rw [hd]
      exact hitL
    · exact ⟨hn, (hW.2.2.2.1 p (hT.rule_mem hp)).2 x (List.mem_of_getElem? hx)⟩
  · -- VFirst
    intro p hp
    have h := hT.vfirst p hp
    refine ⟨h.1, ?_⟩
    intro c hc
    rw [firstSeq_withItems] at hc
    exact h.2 c hc

/-- the invariant holds for the initial state graph: state 0 = closure of `[S' → . start, $]` -/
theorem inv_init (hT : TabOK G C) (hW : WfG G) {I0 : List Item}
    (hI : closure C [⟨C.seedIdx, 0, G.eoi⟩] = some I0) : Inv G C ⟨#[norm I0], #[I0.reverse], #[]⟩ := by
  obtain ⟨c1, c2, c3⟩ := closure_spec hI
  have hseedOK : ItemOK G C ⟨C.seedIdx, 0, G.eoi⟩ := by
    refine ⟨⟨G.seed, hT.ruleAt_seed, Nat.zero_le _⟩, fun _ => rfl, ?_⟩
    cases hn : C.isNT G.eoi with
    | false => rfl
    | true =>
      obtain ⟨p, hp, hl⟩ := Grammar.isNT_iff.mp (hT.ntS _ hn)
      exact absurd hl (hW.2.2.2.1 p hp).1
  have single : ∀ {α} {a v : α} {i : Nat}, (#[a] : Array α)[i]? = some v → i = 0 ∧ v = a := by
    intro α a v i hi
    cases i with
    | zero => simp at hi; exact ⟨rfl, hi.symm⟩
    | succ n => simp at hi
  refine ⟨rfl, by simp, ?_, ?_, ?_, ?_, ?_, ?_⟩
  · intro i I L hI' hL it
    obtain ⟨_, rfl⟩ := single hI'
    obtain ⟨_, rfl⟩ := single hL
    rw [List.mem_reverse, mem_norm]
  · intro i I hI'
    obtain ⟨_, rfl⟩ := single hI'
    exact c2.norm
  · intro i I hI' it hit
    obtain ⟨_, rfl⟩ := single hI'
    refine closure_all (fun it hit y hy => ItemOK.succ hT hW hit hy) hI ?_ it (mem_norm.mp hit)
    intro y hy
    simp only [List.mem_singleton] at hy
    rw [hy]; exact hseedOK
  · intro i L hL
    obtain ⟨_, rfl⟩ := single hL
    refine closure_justOrder hT.succLhs hI ?_
    intro y hy _
    simp only [List.mem_singleton] at hy
    rw [hy]
  · intro s row hr
    simp at hr
  · intro s row I hr
    simp at hr

end Gen

open Gen in
/-- Every conflict-free output of the generator model validates. -/
theorem gen_valid {G : Grammar} {o : Gen.Out} (h : gen G = some o) (hW : WfG G)
    (hc : o.conflicts = false) : Valid G o.aut o.cert := by
  obtain ⟨C, I0, st, hC, hI, hb, rfl⟩ := gen_eq h
  have hT := tables_ok hC
  have hinv0 := inv_init hT hW hI
  obtain ⟨b1, b2, _, b4⟩ := bfs_inv hT hW _ 0 _ st hb hinv0 rfl
  have d : Done G C I0 st := by
    refine ⟨hT, hW, b1, b2, b4 0 _ (by simp), hI, ?_⟩
    intro s hs
    refine noConf_of_hasConflict ?_
    have hc' : (rowsOf C G.eoi st).any hasConflict = false := (Bool.or_eq_false_iff.mp hc).1
    have := List.any_eq_false.mp hc' (rowAt C G.eoi st s)
      (List.mem_map.mpr ⟨s, List.mem_range.mpr hs, rfl⟩)
    simpa using this
  exact d.valid

open Gen in
/-- A grammar for which the generator model reports nothing (no conflict, no unproductive
nonterminal) is reduced. -/
theorem gen_reduced {G : Grammar} {o : Gen.Out} (h : gen G = some o) (hW : WfG G)
    (hc : o.conflicts = false) : Reduced G := by
  obtain ⟨C, I0, st, _, _, _, rfl⟩ := gen_eq h
  have hp : allProductive G = true := by
    have := (Bool.or_eq_false_iff.mp hc).2
    simpa using this
  have hall := allProductive_sound hp
  refine ⟨hall, ?_⟩
  cases hs : G.isNT G.start with
  | false => exact terminal_productive hs
  | true =>
    obtain ⟨p, hp', hl⟩ := Grammar.isNT_iff.mp hs
    rcases List.mem_append.mp hp' with hp' | hp'
    · rw [← hl]; exact hall p hp'
    · simp only [List.mem_singleton] at hp'
      subst hp'
      exact absurd hl.symm hW.1

end Emboss.Lr1
