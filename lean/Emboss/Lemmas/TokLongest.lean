/-
C10: for which patterns of the table is the backtracking match (`re.match`) the *longest*
match of the pattern's language?  (DESIGN: `C10_priority_is_longest`.)
-/
import Emboss.Lemmas.TokBoundary
namespace Emboss.Tok
open Emboss.Regex Emboss.Tok.Class Emboss.Generated

/-- `res` is the language-level answer for `r` at the front of `s`: the greatest match
length, or `fail` when nothing matches. -/
def IsLongest (r : Regex) (s : List Char) : MRes → Prop
  | .ok n => MatchesLen r s n ∧ ∀ m, MatchesLen r s m → m ≤ n
  | .fail => ∀ m, ¬ MatchesLen r s m
  | .fuel => False

/-- Python's leftmost-greedy-backtracking answer coincides with the longest match. -/
def PriorityIsLongest (r : Regex) : Prop := ∀ s, IsLongest r s (matchLen r s)

theorem isLongest_of_bound {r : Regex} {s : List Char}
    (hub : ∀ n, matchLen r s = .ok n → ∀ m, MatchesLen r s m → m ≤ n)
    (hfail : matchLen r s = .fail → ∀ m, ¬ MatchesLen r s m) : IsLongest r s (matchLen r s) := by
  cases h : matchLen r s with
  | ok n => exact ⟨matchLen_sound r s n h, hub n h⟩
  | fail => exact hfail h
  | fuel => exact absurd h (matchLen_no_fuel r s)

/-! ### Inversion of the declarative language -/

theorem lang_chr_inv {c : CClass} {p rest : List Char} (h : Lang (.chr c) p rest) :
    ∃ x, p = [x] ∧ c.mem x = true := by
  cases h with
  | chr _ x _ hm => exact ⟨x, rfl, hm⟩

theorem lang_seq_inv {a b : Regex} {p rest : List Char} (h : Lang (.seq a b) p rest) :
    ∃ u v, p = u ++ v ∧ Lang a u (v ++ rest) ∧ Lang b v rest := by
  cases h with
  | seq h1 h2 => exact ⟨_, _, rfl, h1, h2⟩

theorem lang_litThen_inv : ∀ (pre : List Char) {R : Regex} {p rest : List Char},
    Lang (litThen pre R) p rest → ∃ q, p = pre ++ q ∧ Lang R q rest := by
  intro pre
  induction pre with
  | nil => intro R p rest h; exact ⟨p, rfl, h⟩
  | cons c cs ih =>
    intro R p rest h
    obtain ⟨u, v, rfl, h1, h2⟩ := lang_seq_inv h
    obtain ⟨x, rfl, hx⟩ := lang_chr_inv h1
    have : x = c := by simpa using hx
    subst this
    obtain ⟨q, rfl, hq⟩ := ih h2
    exact ⟨q, rfl, hq⟩

theorem lang_rep_chr_len {r pre rest} (h : Lang r pre rest) :
    ∀ c mn mx, r = .rep (.chr c) mn mx → mn ≤ pre.length := by
  induction h with
  | eps => intro c mn mx hr; cases hr
  | chr => intro c mn mx hr; cases hr
  | seq => intro c mn mx hr; cases hr
  | altL => intro c mn mx hr; cases hr
  | altR => intro c mn mx hr; cases hr
  | repStop => intro c mn mx hr; cases hr; exact Nat.le_refl _
  | repIter _ hu _ _ ihv =>
    intro c mn mx hr
    cases hr
    obtain ⟨x, rfl, _⟩ := lang_chr_inv hu
    have := ihv c _ _ rfl
    simp only [List.cons_append, List.nil_append, List.length_cons]; omega
  | eol => intro c mn mx hr; cases hr

theorem all_take_le_span (c : CClass) : ∀ (u : List Char) (k : Nat), k ≤ u.length →
    (u.take k).all c.mem = true → k ≤ span c u := by
  intro u
  induction u with
  | nil => intro k hk _; simpa using hk
  | cons x t ih =>
    intro k hk hall
    cases k with
    | zero => omega
    | succ k =>
      simp only [List.take_succ_cons, List.all_cons, Bool.and_eq_true] at hall
      rw [span_cons, hall.1]
      have := ih k (by simpa using hk) hall.2
      simp; omega

/-- Every match of `prefix class{mn,}` is the prefix followed by class characters. -/
theorem matches_litThen_rep {pre : List Char} {c : CClass} {mn : Nat} {s : List Char} {m : Nat}
    (h : MatchesLen (litThen pre (.rep (.chr c) mn none)) s m) :
    pre.isPrefixOf s = true ∧ pre.length + mn ≤ m ∧ m ≤ pre.length + span c (s.drop pre.length) := by
  obtain ⟨hle, hl⟩ := h
  obtain ⟨q, hq, hR⟩ := lang_litThen_inv pre hl
  have hall := lang_rep_chr hR c mn none rfl
  have hlen := lang_rep_chr_len hR c mn none rfl
  have hm : m = pre.length + q.length := by
    have := congrArg List.length hq
    simp only [List.length_take, List.length_append] at this
    omega
  have hpre : pre <+: s := by
    have : pre <+: s.take m := by rw [hq]; exact List.prefix_append _ _
    exact this.trans (List.take_prefix _ _)
  refine ⟨List.isPrefixOf_iff_prefix.mpr hpre, by omega, ?_⟩
  have hq' : q = (s.drop pre.length).take q.length := by
    have h1 : (s.take m).drop pre.length = q := by rw [hq]; simp
    rw [← h1, List.drop_take, hm]
    simp
  have := all_take_le_span c (s.drop pre.length) q.length (by simp only [List.length_drop]; omega)
    (by rw [← hq']; exact hall)
  omega

/-- Patterns of the shape `literal-prefix class*` / `literal-prefix class+`. -/
theorem longest_litThen_rep (pre : List Char) (c : CClass) (mn : Nat) (hmn : mn = 0 ∨ mn = 1) :
    PriorityIsLongest (litThen pre (.rep (.chr c) mn none)) := by
  intro s
  apply isLongest_of_bound
  · intro n hn m hm
    obtain ⟨hp, hlb, hub⟩ := matches_litThen_rep hm
    rcases hmn with rfl | rfl
    · rw [litThen_star_value, if_pos hp] at hn
      simp only [MRes.ok.injEq] at hn; omega
    · have hc : pre.isPrefixOf s = true ∧ 1 ≤ span c (s.drop pre.length) := ⟨hp, by omega⟩
      rw [litThen_plus_value, if_pos hc] at hn
      simp only [MRes.ok.injEq] at hn; omega
  · intro hf m hm
    obtain ⟨hp, hlb, hub⟩ := matches_litThen_rep hm
    rcases hmn with rfl | rfl
    · rw [litThen_star_value, if_pos hp] at hf; cases hf
    · rw [litThen_plus_value] at hf
      split at hf
      · cases hf
      · rename_i hc
        exact hc ⟨hp, by omega⟩

theorem lang_litRegex_inv : ∀ (l : List Char) {p rest : List Char}, Lang (litRegex l) p rest → p = l := by
  intro l
  induction l with
  | nil => intro p rest h; cases h; rfl
  | cons c cs ih =>
    intro p rest h
    cases cs with
    | nil =>
      obtain ⟨x, rfl, hx⟩ := lang_chr_inv h
      have hc : CClass.mem ⟨false, [.range c.toNat c.toNat]⟩ x = (litC c).mem x := rfl
      rw [hc, litC_mem] at hx
      have : x = c := by simpa using hx
      rw [this]
    | cons d ds =>
      obtain ⟨u, v, rfl, h1, h2⟩ := lang_seq_inv h
      obtain ⟨x, rfl, hx⟩ := lang_chr_inv h1
      have hc : CClass.mem ⟨false, [.range c.toNat c.toNat]⟩ x = (litC c).mem x := rfl
      rw [hc, litC_mem] at hx
      have : x = c := by simpa using hx
      rw [this, ih h2]; rfl

/-- Literal patterns. -/
theorem longest_litRegex (l : List Char) : PriorityIsLongest (litRegex l) := by
  intro s
  apply isLongest_of_bound
  · intro n hn m hm
    rw [matchLen_litRegex] at hn
    have := lang_litRegex_inv l hm.2
    have hlen := congrArg List.length this
    simp only [List.length_take] at hlen
    split at hn
    · simp only [MRes.ok.injEq] at hn; have := hm.1; omega
    · cases hn
  · intro hf m hm
    rw [matchLen_litRegex] at hf
    split at hf
    · cases hf
    · rename_i hp
      have := lang_litRegex_inv l hm.2
      apply hp
      rw [List.isPrefixOf_iff_prefix, ← this]
      exact List.take_prefix _ _

/-! ### helpers -/

theorem lang_star_chr_inv {c : CClass} {mn : Nat} {mx : Option Nat} {q rest : List Char}
    (h : Lang (.rep (.chr c) mn mx) q rest) : q.all c.mem = true ∧ mn ≤ q.length :=
  ⟨lang_rep_chr h c mn mx rfl, lang_rep_chr_len h c mn mx rfl⟩

theorem matches_prefix {r : Regex} {s : List Char} {m : Nat} (h : MatchesLen r s m) :
    ∃ p, p <+: s ∧ p.length = m ∧ Lang r p (s.drop m) :=
  ⟨s.take m, List.take_prefix _ _, by simp [h.1], h.2⟩

theorem prefix_all_le_span (c : CClass) {q t : List Char} (hp : q <+: t) (ha : q.all c.mem = true) :
    q.length ≤ span c t := by
  have := List.prefix_iff_eq_take.mp hp
  exact all_take_le_span c t q.length hp.length_le (by rw [← this]; exact ha)

theorem prefix_takeWhile (c : CClass) {q t : List Char} (hp : q <+: t) (ha : q.all c.mem = true) :
    q <+: t.takeWhile c.mem := by
  obtain ⟨r, rfl⟩ := hp
  induction q with
  | nil => exact List.nil_prefix
  | cons x q ih =>
    simp only [List.all_cons, Bool.and_eq_true] at ha
    simp only [List.cons_append, List.takeWhile_cons, ha.1, if_true]
    exact List.cons_prefix_cons.mpr ⟨rfl, ih ha.2⟩

/-! ### `class class*` (SnakeWord) -/

theorem longest_chr_star (a c : CClass) : PriorityIsLongest (.seq (.chr a) (star c)) := by
  intro s
  have hv : matchLen (.seq (.chr a) (star c)) s =
      match s with
      | [] => .fail
      | x :: t => if a.mem x then .ok (1 + span c t) else .fail := by
    cases s with
    | nil => simp [matchLen, matchK]
    | cons x t =>
      simp only [matchLen_eq, star, matchK_seq, matchK_chr_cons, kOff_cons, star_end, takeUpTo]
  have hinv : ∀ m, MatchesLen (.seq (.chr a) (star c)) s m →
      ∃ x t, s = x :: t ∧ a.mem x = true ∧ m ≤ 1 + span c t := by
    intro m hm
    obtain ⟨p, hp, hlen, hl⟩ := matches_prefix hm
    obtain ⟨u, v, rfl, h1, h2⟩ := lang_seq_inv hl
    obtain ⟨x, rfl, hx⟩ := lang_chr_inv h1
    obtain ⟨hall, _⟩ := lang_star_chr_inv h2
    cases s with
    | nil => simp at hp
    | cons y t =>
      obtain ⟨rfl, hq⟩ := List.cons_prefix_cons.mp hp
      refine ⟨x, t, rfl, hx, ?_⟩
      have hq' : v <+: t := hq
      have := prefix_all_le_span c hq' hall
      simp at hlen
      omega
  apply isLongest_of_bound
  · intro n hn m hm
    obtain ⟨x, t, rfl, hx, hb⟩ := hinv m hm
    rw [hv] at hn
    simp only [hx, if_true, MRes.ok.injEq] at hn
    omega
  · intro hf m hm
    obtain ⟨x, t, rfl, hx, _⟩ := hinv m hm
    rw [hv] at hf
    simp [hx] at hf

/-! ### `true|false`, `--$` -/

theorem bool_value (s : List Char) : matchLen reBool s =
    if "true".toList.isPrefixOf s then .ok 4
    else if "false".toList.isPrefixOf s then .ok 5 else .fail := by
  have h1 := matchLen_litRegex "true".toList s
  have h2 := matchLen_litRegex "false".toList s
  rw [matchLen_eq] at h1 h2
  rw [reBool, matchLen_eq, matchK_alt, h1, h2]
  split
  · rename_i hx
    split at hx
    · cases hx
    · rename_i hp; rw [if_neg hp]; rfl
  · rename_i x hx
    split
    · rfl
    · rename_i hp; rw [if_neg hp] at hx; exact absurd rfl hx

theorem longest_bool : PriorityIsLongest reBool := by
  intro s
  have hinv : ∀ m, MatchesLen reBool s m →
      ("true".toList.isPrefixOf s = true ∧ m = 4) ∨ ("false".toList.isPrefixOf s = true ∧ m = 5) := by
    intro m hm
    obtain ⟨p, hp, hlen, hl⟩ := matches_prefix hm
    cases hl with
    | altL h =>
      have := lang_litRegex_inv _ h
      subst this
      exact .inl ⟨List.isPrefixOf_iff_prefix.mpr hp, hlen.symm⟩
    | altR h =>
      have := lang_litRegex_inv _ h
      subst this
      exact .inr ⟨List.isPrefixOf_iff_prefix.mpr hp, hlen.symm⟩
  have excl : "true".toList.isPrefixOf s = true → "false".toList.isPrefixOf s = true → False := by
    intro h1 h2
    cases s with
    | nil => simp at h1
    | cons x t =>
      have a1 : "true".toList = 't' :: "rue".toList := by decide
      have a2 : "false".toList = 'f' :: "alse".toList := by decide
      rw [a1] at h1; rw [a2] at h2
      simp only [List.isPrefixOf, Bool.and_eq_true, beq_iff_eq] at h1 h2
      rw [← h1.1] at h2
      exact absurd h2.1 (by decide)
  apply isLongest_of_bound
  · intro n hn m hm
    rw [bool_value] at hn
    rcases hinv m hm with ⟨hp, rfl⟩ | ⟨hp, rfl⟩
    · rw [if_pos hp] at hn; simp only [MRes.ok.injEq] at hn; omega
    · by_cases ht : "true".toList.isPrefixOf s = true
      · exact (excl ht hp).elim
      · rw [if_neg ht, if_pos hp] at hn; simp only [MRes.ok.injEq] at hn; omega
  · intro hf m hm
    rw [bool_value] at hf
    rcases hinv m hm with ⟨hp, _⟩ | ⟨hp, _⟩
    · rw [if_pos hp] at hf; cases hf
    · by_cases ht : "true".toList.isPrefixOf s = true
      · rw [if_pos ht] at hf; cases hf
      · rw [if_neg ht, if_pos hp] at hf; cases hf

theorem longest_docEmpty : PriorityIsLongest reDocEmpty := by
  intro s
  have h2 : "--".toList.length = 2 := by decide
  have hv : matchLen reDocEmpty s =
      if "--".toList.isPrefixOf s ∧ atEol (s.drop 2) = true then .ok 2 else .fail := by
    rw [reDocEmpty, matchLen_eq, matchK_litThen]
    by_cases hp : "--".toList.isPrefixOf s = true
    · have hl : "--".toList.length ≤ s.length := (List.isPrefixOf_iff_prefix.mp hp).length_le
      simp only [hp, if_true, true_and, matchK, h2]
      by_cases he : atEol (s.drop 2) = true
      · rw [h2] at hl
        simp only [he, if_true]
        rw [kOff_drop _ _ _ hl]
      · simp [he]
    · rw [if_neg hp, if_neg (fun h => hp h.1)]
  have hinv : ∀ m, MatchesLen reDocEmpty s m →
      "--".toList.isPrefixOf s = true ∧ m = 2 ∧ atEol (s.drop 2) = true := by
    intro m hm
    obtain ⟨p, hp, hlen, hl⟩ := matches_prefix hm
    obtain ⟨q, rfl, hq⟩ := lang_litThen_inv _ hl
    cases hq with
    | eol he =>
      simp only [List.append_nil] at hp hlen
      rw [h2] at hlen
      subst hlen
      exact ⟨List.isPrefixOf_iff_prefix.mpr hp, rfl, he⟩
  apply isLongest_of_bound
  · intro n hn m hm
    obtain ⟨hp, rfl, he⟩ := hinv m hm
    rw [hv, if_pos ⟨hp, he⟩] at hn
    simp only [MRes.ok.injEq] at hn; omega
  · intro hf m hm
    obtain ⟨hp, _, he⟩ := hinv m hm
    rw [hv, if_pos ⟨hp, he⟩] at hf; cases hf

/-! ### `[A-Z] S* U S*` (ShoutyWord, CamelWord) -/

theorem longest_upper_mid (S U : CClass) (hsub : ∀ x, U.mem x = true → S.mem x = true) :
    PriorityIsLongest (.seq (.chr cUpper) (.seq (star S) (.seq (.chr U) (star S)))) := by
  intro s
  have hv : matchLen (.seq (.chr cUpper) (.seq (star S) (.seq (.chr U) (star S)))) s =
      match s with
      | [] => .fail
      | x :: t => if cUpper.mem x then
          (if (t.takeWhile S.mem).any U.mem then .ok (1 + span S t) else .fail) else .fail := by
    cases s with
    | nil => simp [matchLen, matchK]
    | cons x t =>
      simp only [matchLen_eq, star, matchK_seq, matchK_chr_cons, kOff_cons]
      by_cases hu : cUpper.mem x = true
      · simp only [hu, if_true]
        rw [star_mid_star S U hsub _ (kOff_ne_fail _ _), ← drop_span, kOff_drop _ _ _ (span_le _ _)]
      · simp [hu]
  have hinv : ∀ m, MatchesLen (.seq (.chr cUpper) (.seq (star S) (.seq (.chr U) (star S)))) s m →
      ∃ x t, s = x :: t ∧ cUpper.mem x = true ∧ (t.takeWhile S.mem).any U.mem = true ∧ m ≤ 1 + span S t := by
    intro m hm
    obtain ⟨p, hp, hlen, hl⟩ := matches_prefix hm
    obtain ⟨u, v, rfl, h1, h2⟩ := lang_seq_inv hl
    obtain ⟨x, rfl, hx⟩ := lang_chr_inv h1
    obtain ⟨a, v', rfl, h3, h4⟩ := lang_seq_inv h2
    obtain ⟨y', b, rfl, h5, h6⟩ := lang_seq_inv h4
    obtain ⟨y, rfl, hy⟩ := lang_chr_inv h5
    obtain ⟨ha, _⟩ := lang_star_chr_inv h3
    obtain ⟨hb, _⟩ := lang_star_chr_inv h6
    cases s with
    | nil => simp at hp
    | cons z t =>
      simp only [List.cons_append, List.nil_append] at hp
      obtain ⟨rfl, hq⟩ := List.cons_prefix_cons.mp hp
      have hall : (a ++ (y :: b)).all S.mem = true := by
        simp only [List.all_append, List.all_cons, Bool.and_eq_true]
        exact ⟨ha, hsub y hy, hb⟩
      refine ⟨x, t, rfl, hx, ?_, ?_⟩
      · have hpre := prefix_takeWhile S hq hall
        obtain ⟨r, hr⟩ := hpre
        rw [← hr]
        simp [hy]
      · have := prefix_all_le_span S hq hall
        simp only [List.cons_append, List.nil_append, List.length_cons, List.length_append] at hlen this
        omega
  apply isLongest_of_bound
  · intro n hn m hm
    obtain ⟨x, t, rfl, hx, hany, hb⟩ := hinv m hm
    rw [hv] at hn
    simp only [hx, hany, if_true, MRes.ok.injEq] at hn
    omega
  · intro hf m hm
    obtain ⟨x, t, rfl, hx, hany, _⟩ := hinv m hm
    rw [hv] at hf
    simp [hx, hany] at hf

/-! ### `[0-9][bxBX]?[0-9a-fA-F_]*` (BadNumber) -/

theorem lang_rep_chr_max {r pre rest} (h : Lang r pre rest) :
    ∀ c mn k, r = .rep (.chr c) mn (some k) → pre.length ≤ k := by
  induction h with
  | eps => intro c mn k hr; cases hr
  | chr => intro c mn k hr; cases hr
  | seq => intro c mn k hr; cases hr
  | altL => intro c mn k hr; cases hr
  | altR => intro c mn k hr; cases hr
  | repStop => intro c mn k _; exact Nat.zero_le _
  | repIter hmx hu _ _ ihv =>
    intro c mn k hr
    cases hr
    obtain ⟨x, rfl, _⟩ := lang_chr_inv hu
    have := ihv c _ (k - 1) rfl
    have hk : k ≠ 0 := fun h0 => hmx (by rw [h0])
    simp only [List.cons_append, List.nil_append, List.length_cons]; omega
  | eol => intro c mn k hr; cases hr

theorem badNumber_value (x : Char) (u : List Char) :
    matchLen reBadNumber (x :: u) =
      if cDigit.mem x then
        .ok (1 + min 1 (span cRadix u) + span cHexUs (u.drop (min 1 (span cRadix u))))
      else .fail := by
  simp only [reBadNumber, matchLen_eq, matchK_seq, matchK_chr_cons, kOff_cons, Nat.zero_add]
  by_cases hd : cDigit.mem x = true
  · simp only [hd, if_true]
    have hK : ∀ v, matchK (star cHexUs) v (kOff 1 u) ≠ .fail :=
      fun v => rep_chr_zero_ne_fail _ _ (kOff_ne_fail _ _) v none
    rw [opt, rep_chr_zero_nofail cRadix _ hK]
    simp only [takeUpTo]
    have hm : min 1 (span cRadix u) ≤ u.length := by have := span_le cRadix u; omega
    rw [kOff_drop' 1 _ _ hm, star, star_end]
    simp only [takeUpTo]
  · simp [hd]

theorem longest_badNumber : PriorityIsLongest reBadNumber := by
  intro s
  have hinv : ∀ m, MatchesLen reBadNumber s m → ∃ x u, s = x :: u ∧ cDigit.mem x = true ∧
      m ≤ 1 + min 1 (span cRadix u) + span cHexUs (u.drop (min 1 (span cRadix u))) := by
    intro m hm
    obtain ⟨p, hp, hlen, hl⟩ := matches_prefix hm
    obtain ⟨d, v, rfl, h1, h2⟩ := lang_seq_inv hl
    obtain ⟨x, rfl, hx⟩ := lang_chr_inv h1
    obtain ⟨o, h, rfl, h3, h4⟩ := lang_seq_inv h2
    have ho := lang_rep_chr h3 cRadix 0 (some 1) rfl
    have homax := lang_rep_chr_max h3 cRadix 0 1 rfl
    obtain ⟨hh, _⟩ := lang_star_chr_inv h4
    cases s with
    | nil => simp at hp
    | cons z u =>
      simp only [List.cons_append, List.nil_append] at hp
      obtain ⟨rfl, hq⟩ := List.cons_prefix_cons.mp hp
      refine ⟨x, u, rfl, hx, ?_⟩
      simp at hlen
      cases o with
      | nil =>
        simp only [List.nil_append] at hq
        have hb := prefix_all_le_span cHexUs hq hh
        simp only [List.length_nil] at hlen
        have : span cHexUs u ≤ min 1 (span cRadix u) + span cHexUs (u.drop (min 1 (span cRadix u))) := by
          cases u with
          | nil => simp
          | cons y u' =>
            rw [span_cons, span_cons]
            by_cases hr : cRadix.mem y = true
            · have : min 1 (span cRadix u' + 1) = 1 := by omega
              simp only [hr, if_true, this, List.drop_succ_cons, List.drop_zero]
              split <;> omega
            · simp [hr, span_cons]
        omega
      | cons y o' =>
        have : o' = [] := by
          simp only [List.length_cons] at homax
          exact List.eq_nil_of_length_eq_zero (by omega)
        subst this
        simp only [List.all_cons, List.all_nil, Bool.and_true] at ho
        cases u with
        | nil => simp at hq
        | cons y' u' =>
          simp only [List.cons_append, List.nil_append] at hq
          obtain ⟨rfl, hq'⟩ := List.cons_prefix_cons.mp hq
          have hb := prefix_all_le_span cHexUs hq' hh
          rw [span_cons, ho]
          have : min 1 (span cRadix u' + 1) = 1 := by omega
          simp only [if_true, this, List.drop_succ_cons, List.drop_zero]
          simp only [List.length_cons, List.length_nil] at hlen
          omega
  apply isLongest_of_bound
  · intro n hn m hm
    obtain ⟨x, u, rfl, hx, hb⟩ := hinv m hm
    rw [badNumber_value, if_pos hx] at hn
    simp only [MRes.ok.injEq] at hn
    omega
  · intro hf m hm
    obtain ⟨x, u, rfl, hx, _⟩ := hinv m hm
    rw [badNumber_value, if_pos hx] at hf
    cases hf

/-! ### digit groups -/

/-- Consumed length of `D{1,first}(?:_D{len})*` at the front of `s` (`none` = no match). -/
def groupedLen (c : CClass) (first len : Nat) : List Char → Option Nat
  | [] => none
  | x :: t => if c.mem x then
      some (1 + min (first - 1) (span c t) +
        groupsLen c len (t.drop (min (first - 1) (span c t))).length (t.drop (min (first - 1) (span c t))))
    else none

theorem grouped_value' (c : CClass) (first len n : Nat) (hfirst : 1 ≤ first) (s : List Char) :
    matchK (groupedRe c first len) s (kOff n s) =
      match groupedLen c first len s with
      | some k => .ok (n + k)
      | none => .fail := by
  cases s with
  | nil => simp [groupedRe, rep_chr_nil, groupedLen]
  | cons x t =>
    rw [grouped_value c first len n hfirst]
    simp only [groupedLen]
    split <;> simp [Nat.add_assoc]

theorem lang_group_inv {c : CClass} {len : Nat} {u rest : List Char} (h : Lang (groupRe c len) u rest) :
    ∃ g, u = '_' :: g ∧ g.length = len ∧ g.all c.mem = true := by
  obtain ⟨a, g, rfl, h1, h2⟩ := lang_seq_inv h
  obtain ⟨x, rfl, hx⟩ := lang_chr_inv h1
  have : x = '_' := by simpa using hx
  subst this
  have h3 := lang_rep_chr h2 c len (some len) rfl
  have h4 := lang_rep_chr_len h2 c len (some len) rfl
  have h5 := lang_rep_chr_max h2 c len len rfl
  exact ⟨g, rfl, by omega, h3⟩

theorem lang_groups_inv {c : CClass} {len : Nat} {r T rest} (h : Lang r T rest) :
    ∀ mn mx, r = .rep (groupRe c len) mn mx →
      ∃ gs, T = groupsText gs ∧ ∀ g ∈ gs, g.length = len ∧ g.all c.mem = true := by
  induction h with
  | eps => intro mn mx hr; cases hr
  | chr => intro mn mx hr; cases hr
  | seq => intro mn mx hr; cases hr
  | altL => intro mn mx hr; cases hr
  | altR => intro mn mx hr; cases hr
  | repStop => intro mn mx _; exact ⟨[], rfl, by simp⟩
  | repIter _ hu _ _ ihv =>
    intro mn mx hr
    cases hr
    obtain ⟨g, rfl, hg1, hg2⟩ := lang_group_inv hu
    obtain ⟨gs, rfl, hgs⟩ := ihv _ _ rfl
    refine ⟨g :: gs, by simp [groupsText], ?_⟩
    intro g' hg'
    rcases List.mem_cons.mp hg' with rfl | hg'
    · exact ⟨hg1, hg2⟩
    · exact hgs g' hg'
  | eol => intro mn mx hr; cases hr

/-- Greedy group stripping takes at least any valid sequence of groups at the front. -/
theorem groupsLen_ge (c : CClass) (len : Nat) : ∀ (gs : List (List Char)) (f : Nat) (v : List Char),
    (∀ g ∈ gs, g.length = len ∧ g.all c.mem = true) → groupsText gs <+: v → v.length ≤ f →
    (groupsText gs).length ≤ groupsLen c len f v := by
  intro gs
  induction gs with
  | nil => intro f v _ _ _; simp [groupsText]
  | cons g gs ih =>
    intro f v hgs hp hf
    have hg := hgs g (List.mem_cons_self ..)
    have htext : groupsText (g :: gs) = '_' :: (g ++ groupsText gs) := by simp [groupsText]
    rw [htext] at hp ⊢
    cases v with
    | nil => simp at hp
    | cons y v1 =>
      obtain ⟨rfl, hp1⟩ := List.cons_prefix_cons.mp hp
      cases f with
      | zero => simp at hf
      | succ f =>
        have hgp : g <+: v1 := (List.prefix_append _ _).trans hp1
        have hspan : len ≤ span c v1 := by rw [← hg.1]; exact prefix_all_le_span c hgp hg.2
        simp only [groupsLen, startsGroup, beq_self_eq_true, hspan, decide_true, Bool.and_self, if_true,
          List.drop_succ_cons]
        have hrest : groupsText gs <+: v1.drop len := by
          obtain ⟨r, hr⟩ := hp1
          rw [← hr, ← hg.1, List.append_assoc, List.drop_left]
          exact List.prefix_append _ _
        have := ih f (v1.drop len) (fun g' h' => hgs g' (List.mem_cons_of_mem _ h')) hrest
          (by simp only [List.length_drop, List.length_cons] at hf ⊢; omega)
        simp only [List.length_cons, List.length_append]
        omega

theorem span_append_all (c : CClass) : ∀ (g w : List Char), g.all c.mem = true →
    span c (g ++ w) = g.length + span c w := by
  intro g
  induction g with
  | nil => intro w _; simp
  | cons a g ih =>
    intro w h
    simp only [List.all_cons, Bool.and_eq_true] at h
    simp only [List.cons_append, span_cons, h.1, if_true, ih w h.2, List.length_cons]
    omega

/-- Every match of the group pattern is at most what the backtracking matcher takes. -/
theorem grouped_bound (c : CClass) (first len : Nat) (hfirst : 1 ≤ first) (hus : c.mem '_' = false)
    {p s rest : List Char} (hp : p <+: s) (hl : Lang (groupedRe c first len) p rest) :
    ∃ k, groupedLen c first len s = some k ∧ p.length ≤ k := by
  obtain ⟨g0, T, rfl, h1, h2⟩ := lang_seq_inv hl
  have hall := lang_rep_chr h1 c 1 (some first) rfl
  have hmin := lang_rep_chr_len h1 c 1 (some first) rfl
  have hmax := lang_rep_chr_max h1 c 1 first rfl
  obtain ⟨gs, rfl, hgs⟩ := lang_groups_inv h2 0 none rfl
  cases g0 with
  | nil => simp at hmin
  | cons x g0' =>
    simp only [List.all_cons, Bool.and_eq_true] at hall
    cases s with
    | nil => simp at hp
    | cons y t =>
      simp only [List.cons_append] at hp
      obtain ⟨rfl, hq⟩ := List.cons_prefix_cons.mp hp
      simp only [groupedLen, hall.1, if_true]
      refine ⟨_, rfl, ?_⟩
      obtain ⟨r, hr⟩ := hq
      have hspan : span c t = g0'.length + span c (groupsText gs ++ r) := by
        rw [← hr, List.append_assoc, span_append_all c _ _ hall.2]
      simp only [List.length_cons] at hmax
      by_cases hlt : g0'.length < min (first - 1) (span c t)
      · -- the digits continue after g0: no group can follow
        have hpos : 0 < span c (groupsText gs ++ r) := by omega
        have : gs = [] := by
          cases gs with
          | nil => rfl
          | cons g gs' =>
            exfalso
            simp only [groupsText, List.map_cons, List.flatten_cons, List.cons_append, span_cons, hus] at hpos
            simp at hpos
        subst this
        simp only [groupsText, List.map_nil, List.flatten_nil, List.append_nil, List.length_cons]
        omega
      · have hd : min (first - 1) (span c t) = g0'.length := by omega
        rw [hd]
        have hdrop : t.drop g0'.length = groupsText gs ++ r := by
          rw [← hr, List.append_assoc, List.drop_left]
        rw [hdrop]
        have := groupsLen_ge c len gs _ (groupsText gs ++ r) hgs (List.prefix_append _ _) (Nat.le_refl _)
        generalize groupsLen c len (groupsText gs ++ r).length (groupsText gs ++ r) = gl at this ⊢
        simp only [List.cons_append, List.length_cons, List.length_append]
        omega

theorem longest_grouped (c : CClass) (first len : Nat) (hfirst : 1 ≤ first) (hus : c.mem '_' = false) :
    PriorityIsLongest (grouped c first len) := by
  intro s
  have hv := grouped_value' c first len 0 hfirst s
  rw [← matchLen_eq] at hv
  apply isLongest_of_bound
  · intro n hn m hm
    obtain ⟨p, hp, hlen, hl⟩ := matches_prefix hm
    obtain ⟨k, hk, hb⟩ := grouped_bound c first len hfirst hus hp hl
    rw [grouped_eq, hv, hk] at hn
    simp only [MRes.ok.injEq] at hn
    omega
  · intro hf m hm
    obtain ⟨p, hp, hlen, hl⟩ := matches_prefix hm
    obtain ⟨k, hk, _⟩ := grouped_bound c first len hfirst hus hp hl
    rw [grouped_eq, hv, hk] at hf
    cases hf

theorem grouped_head {c : CClass} {first len : Nat} {p rest : List Char}
    (hl : Lang (groupedRe c first len) p rest) : ∃ x q, p = x :: q ∧ c.mem x = true := by
  obtain ⟨g0, T, rfl, h1, _⟩ := lang_seq_inv hl
  have hall := lang_rep_chr h1 c 1 (some first) rfl
  have hmin := lang_rep_chr_len h1 c 1 (some first) rfl
  cases g0 with
  | nil => simp at hmin
  | cons x g0' =>
    simp only [List.all_cons, Bool.and_eq_true] at hall
    exact ⟨x, g0' ++ T, rfl, hall.1⟩

/-- `0x_?D{1,n}(?:_D{n})*` / `0b_?…` -/
theorem longest_radix_grouped (pc : Char) (c : CClass) (n : Nat) (hn : 1 ≤ n) (hus : c.mem '_' = false) :
    PriorityIsLongest (litThen ['0', pc] (.seq (opt (litC '_')) (grouped c n n))) := by
  intro s
  have hK : ∀ (kf : List Char → MRes) (x : Char) (t : List Char), (litC '_').mem x = true →
      matchK (grouped c n n) (x :: t) kf = .fail := by
    intro kf x t hx
    have : x = '_' := by simpa using hx
    subst this
    simp only [grouped, matchK_seq]
    rw [rep_chr_cons_succ, hus]; simp
  -- value of the part after the prefix, on `v` with `k0` characters consumed before it
  have hv2 : ∀ (k0 : Nat) (v : List Char),
      matchK (.seq (opt (litC '_')) (grouped c n n)) v (kOff k0 v) =
        match v with
        | y :: v' => if (litC '_').mem y then
            (match groupedLen c n n v' with | some k => .ok (k0 + 1 + k) | none => .fail)
          else (match groupedLen c n n (y :: v') with | some k => .ok (k0 + k) | none => .fail)
        | [] => .fail := by
    intro k0 v
    rw [matchK_seq, opt_then _ _ (hK _)]
    cases v with
    | nil => simp [grouped, rep_chr_nil]
    | cons y v' =>
      simp only
      split
      · rw [kOff_cons, grouped_eq, grouped_value' c n n (k0 + 1) hn]
      · rw [grouped_eq, grouped_value' c n n k0 hn]
  have hv : matchLen (litThen ['0', pc] (.seq (opt (litC '_')) (grouped c n n))) s =
      if ['0', pc].isPrefixOf s then
        matchK (.seq (opt (litC '_')) (grouped c n n)) (s.drop 2) (kOff 2 (s.drop 2)) else .fail := by
    rw [matchLen_eq, matchK_litThen]
    split
    · rename_i hp
      have hl : 2 ≤ s.length := (List.isPrefixOf_iff_prefix.mp hp).length_le
      rw [show ['0', pc].length = 2 from rfl, kOff_drop' 0 s 2 hl]
    · rfl
  have hinv : ∀ m, MatchesLen (litThen ['0', pc] (.seq (opt (litC '_')) (grouped c n n))) s m →
      ['0', pc].isPrefixOf s = true ∧ ∃ k, matchK (.seq (opt (litC '_')) (grouped c n n)) (s.drop 2)
        (kOff 2 (s.drop 2)) = .ok k ∧ m ≤ k := by
    intro m hm
    obtain ⟨p, hp, hlen, hl⟩ := matches_prefix hm
    obtain ⟨q, rfl, hq⟩ := lang_litThen_inv _ hl
    obtain ⟨o, G, rfl, h1, h2⟩ := lang_seq_inv hq
    have ho := lang_rep_chr h1 (litC '_') 0 (some 1) rfl
    have homax := lang_rep_chr_max h1 (litC '_') 0 1 rfl
    rw [grouped_eq] at h2
    obtain ⟨x, G', rfl, hx⟩ := grouped_head h2
    have hpre : ['0', pc] <+: s := (List.prefix_append _ _).trans hp
    refine ⟨List.isPrefixOf_iff_prefix.mpr hpre, ?_⟩
    have hq' : o ++ x :: G' <+: s.drop 2 := by
      obtain ⟨r, hr⟩ := hp
      rw [← hr]
      simp only [List.cons_append, List.nil_append, List.drop_succ_cons, List.drop_zero, List.append_assoc]
      exact ⟨r, by simp⟩
    simp only [List.length_append, List.length_cons, List.length_nil] at hlen
    rw [hv2]
    cases o with
    | nil =>
      simp only [List.nil_append] at hq'
      cases hs' : s.drop 2 with
      | nil => rw [hs'] at hq'; simp at hq'
      | cons y v' =>
        rw [hs'] at hq'
        obtain ⟨rfl, _⟩ := List.cons_prefix_cons.mp hq'
        have hy : (litC '_').mem x = false := by
          rw [litC_mem]
          cases hxx : (x == '_') with
          | false => rfl
          | true =>
            have : x = '_' := by simpa using hxx
            subst this; rw [hus] at hx; cases hx
        simp only [hy, Bool.false_eq_true, if_false]
        obtain ⟨k, hk, hb⟩ := grouped_bound c n n hn hus hq' h2
        rw [hk]
        refine ⟨_, rfl, ?_⟩
        simp only [List.length_cons, List.length_nil] at hb hlen
        omega
    | cons u o' =>
      have : o' = [] := by
        simp only [List.length_cons] at homax
        exact List.eq_nil_of_length_eq_zero (by omega)
      subst this
      simp only [List.all_cons, List.all_nil, Bool.and_true] at ho
      cases hs' : s.drop 2 with
      | nil => rw [hs'] at hq'; simp at hq'
      | cons y v' =>
        rw [hs'] at hq'
        simp only [List.cons_append, List.nil_append] at hq'
        obtain ⟨rfl, hq''⟩ := List.cons_prefix_cons.mp hq'
        simp only [ho, if_true]
        obtain ⟨k, hk, hb⟩ := grouped_bound c n n hn hus hq'' h2
        rw [hk]
        refine ⟨_, rfl, ?_⟩
        simp only [List.length_cons, List.length_nil] at hb hlen
        omega
  apply isLongest_of_bound
  · intro n' hn' m hm
    obtain ⟨hp, k, hk, hb⟩ := hinv m hm
    rw [hv, if_pos hp, hk] at hn'
    simp only [MRes.ok.injEq] at hn'
    omega
  · intro hf m hm
    obtain ⟨hp, k, hk, _⟩ := hinv m hm
    rw [hv, if_pos hp, hk] at hf
    cases hf

/-! ### String literals -/

/-- One item of a string body: a plain character or an escape pair. -/
def strItem : Regex := .alt (.chr cStrPlain) (.seq (.chr (litC '\\')) (.chr cStrEsc))

/-- Deterministic scan of a string body: number of characters up to and including the
closing quote. -/
def strScan : List Char → Option Nat
  | [] => none
  | [x] => if x == '"' then some 1 else none
  | x :: e :: r' =>
    if cStrPlain.mem x then (strScan (e :: r')).map (· + 1)
    else if x == '\\' then (if cStrEsc.mem e then (strScan r').map (· + 2) else none)
    else if x == '"' then some 1 else none

theorem strScan_nil : strScan [] = none := by rw [strScan]

theorem plain_excl (x : Char) (h : cStrPlain.mem x = true) : (x == '\\') = false ∧ (x == '"') = false := by
  constructor
  · cases hx : (x == '\\') with
    | false => rfl
    | true =>
      have : x = '\\' := by simpa using hx
      subst this; revert h; decide
  · cases hx : (x == '"') with
    | false => rfl
    | true =>
      have : x = '"' := by simpa using hx
      subst this; revert h; decide

theorem strScan_cons (x : Char) (r : List Char) : strScan (x :: r) =
    if cStrPlain.mem x then (strScan r).map (· + 1)
    else if x == '\\' then
      match r with
      | e :: r' => if cStrEsc.mem e then (strScan r').map (· + 2) else none
      | [] => none
    else if x == '"' then some 1 else none := by
  cases r with
  | nil =>
    rw [strScan_nil, show strScan [x] = (if x == '"' then some 1 else none) by rw [strScan]]
    by_cases hP : cStrPlain.mem x = true
    · obtain ⟨_, hq⟩ := plain_excl x hP
      simp [hP, hq]
    · have hP' : cStrPlain.mem x = false := by simpa using hP
      by_cases hb : (x == '\\') = true
      · have hxq : (x == '"') = false := by
          have : x = '\\' := by simpa using hb
          subst this; decide
        simp [hP', hb, hxq]
      · simp [hP', hb]
  | cons e r' => rw [strScan]

theorem item_step (K : List Char → MRes) (x : Char) (r : List Char) :
    matchK strItem (x :: r) K =
      if cStrPlain.mem x then K r
      else if x == '\\' then
        (match r with
          | e :: r' => if cStrEsc.mem e then K r' else .fail
          | [] => .fail)
      else .fail := by
  simp only [strItem, matchK_alt, matchK_chr_cons, matchK_seq, litC_mem]
  by_cases hP : cStrPlain.mem x = true
  · obtain ⟨hb, _⟩ := plain_excl x hP
    simp only [hP, if_true, hb, Bool.false_eq_true, if_false]
    split <;> simp_all
  · have hP' : cStrPlain.mem x = false := by simpa using hP
    simp only [hP', Bool.false_eq_true, if_false]
    by_cases hb : (x == '\\') = true
    · simp only [hb, if_true]
      cases r with
      | nil => simp
      | cons e r' => simp only [matchK_chr_cons]
    · simp [hb]

theorem item_nil (K : List Char → MRes) : matchK strItem [] K = .fail := by
  simp [strItem, matchK_alt]

theorem str_body (kf : List Char → MRes) : ∀ (n : Nat) (s : List Char), s.length ≤ n →
    matchK (.rep strItem 0 none) s (fun t => matchK (.chr (litC '"')) t kf) =
      match strScan s with
      | some j => kf (s.drop j)
      | none => .fail := by
  intro n
  induction n with
  | zero =>
    intro s hs
    have : s = [] := List.eq_nil_of_length_eq_zero (by omega)
    subst this
    rw [matchK_rep, item_nil, strScan_nil]
    simp
  | succ n ih =>
    intro s hs
    cases s with
    | nil =>
      rw [matchK_rep, item_nil, strScan_nil]
      simp
    | cons x r =>
      rw [matchK_rep, item_step]
      simp only [reduceCtorEq, if_false, Option.map_none, Nat.zero_sub, List.length_cons, Nat.lt_succ_self,
        if_true, matchK_chr_cons, litC_mem]
      have ihr := ih r (by simpa using hs)
      by_cases hP : cStrPlain.mem x = true
      · obtain ⟨hb, hq⟩ := plain_excl x hP
        simp only [hP, if_true, hq, Bool.false_eq_true, if_false]
        rw [ihr]
        have hsc : strScan (x :: r) = (strScan r).map (· + 1) := by rw [strScan_cons, if_pos hP]
        rw [hsc]
        cases hsr : strScan r with
        | none => simp
        | some j =>
          simp only [Option.map_some, List.drop_succ_cons]
          split <;> simp_all
      · have hP' : cStrPlain.mem x = false := by simpa using hP
        simp only [hP', Bool.false_eq_true, if_false]
        by_cases hb : (x == '\\') = true
        · have hxq : (x == '"') = false := by
            have : x = '\\' := by simpa using hb
            subst this; decide
          simp only [hb, if_true, hxq, Bool.false_eq_true, if_false]
          cases r with
          | nil => rw [strScan_cons]; simp [hP', hb]
          | cons e r' =>
            have hsc : strScan (x :: e :: r') = if cStrEsc.mem e then (strScan r').map (· + 2) else none := by
              rw [strScan_cons]; simp [hP', hb]
            rw [hsc]
            by_cases hE : cStrEsc.mem e = true
            · have h2 : r'.length < (e :: r').length + 1 := by simp only [List.length_cons]; omega
              simp only [hE, if_true, h2]
              have ihr' := ih r' (by simp only [List.length_cons] at hs; omega)
              rw [ihr']
              cases hsr : strScan r' with
              | none => simp
              | some j =>
                simp only [Option.map_some, List.drop_succ_cons]
                split <;> simp_all
            · simp [hE]
        · have hb' : (x == '\\') = false := by simpa using hb
          have hsc : strScan (x :: r) = if x == '"' then some 1 else none := by
            rw [strScan_cons]; simp [hP', hb']
          rw [hsc]
          simp only [hb', Bool.false_eq_true, if_false]
          by_cases hq : (x == '"') = true
          · simp [hq]
          · simp [hq]

theorem strScan_le : ∀ (n : Nat) (s : List Char) (j : Nat), s.length ≤ n → strScan s = some j → j ≤ s.length := by
  intro n
  induction n with
  | zero =>
    intro s j hs h
    have : s = [] := List.eq_nil_of_length_eq_zero (by omega)
    subst this; rw [strScan_nil] at h; cases h
  | succ n ih =>
    intro s j hs h
    cases s with
    | nil => rw [strScan_nil] at h; cases h
    | cons x r =>
      rw [strScan_cons] at h
      split at h
      · cases hsr : strScan r with
        | none => simp [hsr] at h
        | some j' =>
          have := ih r j' (by simpa using hs) hsr
          simp only [hsr, Option.map_some, Option.some.injEq] at h
          simp only [List.length_cons]; omega
      · split at h
        · cases r with
          | nil => simp at h
          | cons e r' =>
            simp only at h
            split at h
            · cases hsr : strScan r' with
              | none => simp [hsr] at h
              | some j' =>
                have := ih r' j' (by simp only [List.length_cons] at hs; omega) hsr
                simp only [hsr, Option.map_some, Option.some.injEq] at h
                simp only [List.length_cons]; omega
            · cases h
        · split at h
          · simp only [Option.some.injEq] at h
            simp only [List.length_cons]; omega
          · cases h

theorem string_value (s : List Char) : matchLen reString s =
    match s with
    | [] => .fail
    | x :: t => if x == '"' then (match strScan t with | some j => .ok (1 + j) | none => .fail) else .fail := by
  cases s with
  | nil => simp [matchLen, matchK, reString]
  | cons x t =>
    have hre : reString = .seq (.chr (litC '"')) (.seq (.rep strItem 0 none) (.chr (litC '"'))) := rfl
    simp only [hre, matchLen_eq, matchK_seq, matchK_chr_cons, litC_mem, kOff_cons, Nat.zero_add]
    by_cases hq : (x == '"') = true
    · simp only [hq, if_true]
      rw [str_body (kOff 1 t) t.length t (Nat.le_refl _)]
      cases hs : strScan t with
      | none => rfl
      | some j =>
        simp only
        rw [kOff_drop _ _ _ (strScan_le _ t j (Nat.le_refl _) hs)]
    · simp [hq]

/-- String bodies, declaratively. -/
inductive StrItems : List Char → Prop
  | nil : StrItems []
  | plain {x T} : cStrPlain.mem x = true → StrItems T → StrItems (x :: T)
  | esc {e T} : cStrEsc.mem e = true → StrItems T → StrItems ('\\' :: e :: T)

theorem lang_strItems {r T rest} (h : Lang r T rest) :
    ∀ mn mx, r = .rep strItem mn mx → StrItems T := by
  induction h with
  | eps => intro mn mx hr; cases hr
  | chr => intro mn mx hr; cases hr
  | seq => intro mn mx hr; cases hr
  | altL => intro mn mx hr; cases hr
  | altR => intro mn mx hr; cases hr
  | repStop => intro mn mx _; exact .nil
  | repIter _ hu _ _ ihv =>
    intro mn mx hr
    cases hr
    have hv := ihv _ _ rfl
    cases hu with
    | altL h1 =>
      obtain ⟨x, rfl, hx⟩ := lang_chr_inv h1
      exact .plain hx hv
    | altR h1 =>
      obtain ⟨a, b, rfl, h2, h3⟩ := lang_seq_inv h1
      obtain ⟨x, rfl, hx⟩ := lang_chr_inv h2
      obtain ⟨e, rfl, he⟩ := lang_chr_inv h3
      have : x = '\\' := by simpa using hx
      subst this
      exact .esc he hv
  | eol => intro mn mx hr; cases hr

theorem strScan_items {T : List Char} (h : StrItems T) (r : List Char) :
    strScan (T ++ '"' :: r) = some (T.length + 1) := by
  induction h with
  | nil =>
    have h1 : cStrPlain.mem '"' = false := by decide
    have h2 : ('"' == '\\') = false := by decide
    rw [List.nil_append, strScan_cons]
    simp [h1, h2]
  | @plain x T hx _ ih =>
    rw [List.cons_append, strScan_cons, if_pos hx, ih]
    rfl
  | @esc e T he _ ih =>
    have h1 : cStrPlain.mem '\\' = false := by decide
    rw [List.cons_append, List.cons_append, strScan_cons]
    simp only [h1, Bool.false_eq_true, if_false, beq_self_eq_true, if_true, he, ih, Option.map_some,
      List.length_cons]

theorem longest_string : PriorityIsLongest reString := by
  intro s
  have hinv : ∀ m, MatchesLen reString s m → matchLen reString s = .ok m := by
    intro m hm
    obtain ⟨p, hp, hlen, hl⟩ := matches_prefix hm
    have hre : reString = .seq (.chr (litC '"')) (.seq (.rep strItem 0 none) (.chr (litC '"'))) := rfl
    rw [hre] at hl
    obtain ⟨a, b, rfl, h1, h2⟩ := lang_seq_inv hl
    obtain ⟨x, rfl, hx⟩ := lang_chr_inv h1
    obtain ⟨T, c, rfl, h3, h4⟩ := lang_seq_inv h2
    obtain ⟨y, rfl, hy⟩ := lang_chr_inv h4
    have hx' : x = '"' := by simpa using hx
    have hy' : y = '"' := by simpa using hy
    subst hx' hy'
    have hT := lang_strItems h3 0 none rfl
    obtain ⟨r, hr⟩ := hp
    rw [← hr, string_value]
    simp only [List.cons_append, List.nil_append, List.append_assoc, beq_self_eq_true, if_true]
    rw [strScan_items hT]
    simp only [List.length_cons, List.length_append, List.length_nil] at hlen
    show MRes.ok (1 + (T.length + 1)) = MRes.ok m
    rw [← hlen, MRes.ok.injEq]
  apply isLongest_of_bound
  · intro n hn m hm
    rw [hinv m hm] at hn
    simp only [MRes.ok.injEq] at hn; omega
  · intro hf m hm
    rw [hinv m hm] at hf; cases hf

theorem longest_literals : ∀ p ∈ (punctLiterals ++ keywords).map mkLit, PriorityIsLongest p.re := by
  intro p hp
  obtain ⟨l, _, rfl⟩ := List.mem_map.mp hp
  exact longest_litRegex _

/-- For **every** pattern of the regenerated table, Python's backtracking `re.match` returns
the longest match of the pattern's language (and fails only when nothing matches). -/
theorem priority_is_longest_all : ∀ p ∈ tokTable.pats, PriorityIsLongest p.re := by
  intro p hp
  rw [tokTable_pats, List.mem_append] at hp
  rcases hp with hp | hp
  · exact longest_literals p hp
  · simp only [expectedRegexes, List.mem_cons, List.not_mem_nil, or_false] at hp
    rcases hp with rfl | rfl | rfl | rfl | rfl | rfl | rfl | rfl | rfl | rfl | rfl | rfl | rfl | rfl |
      rfl | rfl | rfl | rfl | rfl | rfl | rfl | rfl | rfl
    · exact longest_litThen_rep _ _ 0 (.inl rfl)
    · exact longest_litThen_rep _ _ 0 (.inl rfl)
    · exact longest_litThen_rep _ _ 0 (.inl rfl)
    · exact longest_string
    · exact longest_litThen_rep [] _ 1 (.inr rfl)
    · exact longest_grouped cDigit 3 3 (by omega) (by decide)
    · exact longest_litThen_rep _ _ 1 (.inr rfl)
    · show PriorityIsLongest reHex4
      rw [reHex4_eq]; exact longest_radix_grouped 'x' cHex 4 (by omega) (by decide)
    · show PriorityIsLongest reHex8
      rw [reHex8_eq]; exact longest_radix_grouped 'x' cHex 8 (by omega) (by decide)
    · exact longest_litThen_rep _ _ 1 (.inr rfl)
    · show PriorityIsLongest reBin4
      rw [reBin4_eq]; exact longest_radix_grouped 'b' cBin 4 (by omega) (by decide)
    · show PriorityIsLongest reBin8
      rw [reBin8_eq]; exact longest_radix_grouped 'b' cBin 8 (by omega) (by decide)
    · exact longest_bool
    · exact longest_chr_star _ _
    · refine longest_upper_mid cShoutyTail cShoutyMid ?_
      intro y hy; rw [cShoutyMid_mem] at hy; rw [cShoutyTail_mem]
      simp only [Bool.or_eq_true] at hy ⊢
      rcases hy with hy | hy
      · exact .inl (.inl hy)
      · exact .inl (.inr hy)
    · refine longest_upper_mid cCamelTail cLower ?_
      intro y hy; rw [cLower_mem] at hy; rw [cCamelTail_mem]
      simp [hy]
    · exact longest_litThen_rep _ _ 0 (.inl rfl)
    · exact longest_docEmpty
    · exact longest_litThen_rep _ _ 0 (.inl rfl)
    · exact longest_litThen_rep [] _ 1 (.inr rfl)
    · exact longest_litThen_rep _ _ 0 (.inl rfl)
    · exact longest_badNumber
    · exact longest_litThen_rep [] _ 1 (.inr rfl)

end Emboss.Tok
