/-
Error position.  (1) Every item of every state on the stack is *grounded*: whatever its
remaining right-hand side derives after the consumed input can be continued to a sentence
(needs all nonterminals productive) — so the consumed input `w[:i]` at an error is a viable
prefix.  (2) Runs on two inputs that agree up to position `i` are in lock-step up to an error
at `i`; with completeness, no sentence starts with `w[:i+1]`.
-/
import Emboss.Lemmas.Lr1Complete
namespace Emboss.Lr1

variable {G : Grammar} {A : Automaton} {C : Cert}

/-! ### productivity -/

theorem sym_productive (hr : Reduced G) {x : Nat} (hx : x ≠ G.startPrime) : Productive G x := by
  cases hnt : G.isNT x with
  | false => exact ⟨.leaf ⟨x, 0⟩, ParseTree.leaf _ hnt, rfl⟩
  | true =>
    obtain ⟨p, hp, rfl⟩ := Grammar.isNT_iff.mp hnt
    rcases List.mem_append.mp hp with hp | hp
    · exact hr.1 p hp
    · simp only [List.mem_singleton] at hp
      subst hp; exact absurd rfl hx

theorem rhs_ne_startPrime (hv : Valid G A C) {p : Rule} (hp : p ∈ G.all) : ∀ x ∈ p.rhs, x ≠ G.startPrime := by
  rcases List.mem_append.mp hp with hp | hp
  · exact (hv.wf.2.2.2.2.2.2.1 p hp).2
  · simp only [List.mem_singleton] at hp
    subst hp
    intro x hx
    simp only [Grammar.seed, List.mem_singleton] at hx
    subst hx; exact hv.wf.2.2.1

theorem forest_exists (hr : Reduced G) : ∀ (β : List Nat), (∀ x ∈ β, x ≠ G.startPrime) →
    ∃ cs : List Tree, (∀ c ∈ cs, ParseTree G c) ∧ cs.map Tree.root = β
  | [], _ => ⟨[], by simp, rfl⟩
  | x :: β, h => by
    obtain ⟨t, ht, hroot⟩ := sym_productive hr (h x List.mem_cons_self)
    obtain ⟨cs, hcs, hm⟩ := forest_exists hr β (fun y hy => h y (List.mem_cons_of_mem _ hy))
    refine ⟨t :: cs, ?_, by simp [hroot, hm]⟩
    intro c hc
    rcases List.mem_cons.mp hc with rfl | hc
    · exact ht
    · exact hcs c hc

/-! ### grounded items -/

/-- whatever `β` derives right after `pre` can be continued to a sentence -/
def Ext (G : Grammar) (pre : List Token) (β : List Nat) : Prop :=
  ∀ cs : List Tree, (∀ c ∈ cs, ParseTree G c) → cs.map Tree.root = β →
    ∃ v, Sentence G (pre ++ Tree.yieldL cs ++ v)

def GItems (G : Grammar) (C : Cert) (s : Nat) (pre : List Token) : Prop :=
  ∀ it ∈ C.itemsOf s, ∀ p, C.ruleAt it.pi = some p → Ext G pre (p.rhs.drop it.dot)

def stackYield (st : List (Nat × Tree)) : List Token := Tree.yieldL ((st.map (·.2)).reverse)

def Grounded (G : Grammar) (C : Cert) : List (Nat × Tree) → Prop
  | [] => GItems G C 0 []
  | (s, t) :: rest => GItems G C s (stackYield ((s, t) :: rest)) ∧ Grounded G C rest

theorem Grounded.top : ∀ {st : List (Nat × Tree)}, Grounded G C st → GItems G C (topState st) (stackYield st)
  | [], h => by
    have : stackYield ([] : List (Nat × Tree)) = [] := by simp [stackYield, Tree.yieldL]
    rw [this]; exact h
  | (_, _) :: _, h => h.1

theorem Grounded.drop : ∀ {st : List (Nat × Tree)} (n : Nat), Grounded G C st → Grounded G C (st.drop n)
  | _, 0, h => by simpa using h
  | [], _ + 1, h => by simpa using h
  | _ :: rest, n + 1, h => by
    simp only [List.drop_succ_cons]
    exact Grounded.drop n h.2

/-- ordered induction over a justified item list -/
theorem justOrder_induct {P : Item → Prop} {R : Nat → Prop}
    (hr : ∀ it, P it → ∀ x ∈ C.nextSyms it, R x) :
    ∀ {seen : List Nat} {l : List Item}, JustOrder C seen l → (∀ x ∈ seen, R x) →
      (∀ it ∈ l, (it.dot ≠ 0 ∨ it.pi = C.seedIdx) → P it) →
      (∀ it ∈ l, it.dot = 0 → it.pi ≠ C.seedIdx → ∀ p, C.ruleAt it.pi = some p → R p.lhs → P it) →
      ∀ it ∈ l, P it
  | _, [], _, _, _, _, it, h => by cases h
  | seen, x :: rest, hj, hs, hk, hc, it, h => by
    have hPx : P x := by
      by_cases h0 : x.dot = 0
      · by_cases hsd : x.pi = C.seedIdx
        · exact hk x List.mem_cons_self (Or.inr hsd)
        · rcases hj.1 h0 with e | ⟨p, hp, hm⟩
          · exact absurd e hsd
          · exact hc x List.mem_cons_self h0 hsd p hp (hs _ hm)
      · exact hk x List.mem_cons_self (Or.inl h0)
    rcases List.mem_cons.mp h with rfl | h
    · exact hPx
    · refine justOrder_induct hr hj.2 ?_ (fun it h' => hk it (List.mem_cons_of_mem _ h'))
        (fun it h' => hc it (List.mem_cons_of_mem _ h')) it h
      intro y hy
      rcases List.mem_append.mp hy with hy | hy
      · exact hr x hPx y hy
      · exact hs y hy

/-- any tree rooted `x` right after `pre` can be continued to a sentence -/
def ExtSym (G : Grammar) (pre : List Token) (x : Nat) : Prop :=
  ∀ t, ParseTree G t → t.root = x → ∃ v, Sentence G (pre ++ t.yield ++ v)

theorem ext_to_sym (hv : Valid G A C) (hr : Reduced G) {pre : List Token} {it : Item} {q : Rule}
    (hq : C.ruleAt it.pi = some q) (he : Ext G pre (q.rhs.drop it.dot)) :
    ∀ x ∈ C.nextSyms it, ExtSym G pre x := by
  intro x hx t ht hroot
  simp only [Cert.nextSyms, hq, Option.mem_toList] at hx
  have hx' : q.rhs[it.dot]? = some x := hx
  have hlt : it.dot < q.rhs.length := by
    by_cases h : it.dot < q.rhs.length
    · exact h
    · simp [List.getElem?_eq_none (Nat.le_of_not_lt h)] at hx'
  have hdrop : q.rhs.drop it.dot = x :: q.rhs.drop (it.dot + 1) := by
    rw [List.drop_eq_getElem_cons hlt]
    congr
    rw [List.getElem?_eq_getElem hlt] at hx'
    exact Option.some.inj hx'
  have hne : ∀ y ∈ q.rhs.drop (it.dot + 1), y ≠ G.startPrime := fun y hy =>
    rhs_ne_startPrime hv (hv.ruleAt_mem hq) y (List.mem_of_mem_drop hy)
  obtain ⟨cs, hcs, hm⟩ := forest_exists hr _ hne
  obtain ⟨v, hs⟩ := he (t :: cs)
    (by intro c hc; rcases List.mem_cons.mp hc with rfl | hc; exact ht; exact hcs c hc)
    (by rw [hdrop]; simp [hroot, hm])
  refine ⟨Tree.yieldL cs ++ v, ?_⟩
  simpa [Tree.yieldL, List.append_assoc] using hs

theorem sym_to_ext (hv : Valid G A C) {pre : List Token} {it : Item} {p : Rule}
    (hp : C.ruleAt it.pi = some p) (h0 : it.dot = 0) (hsd : it.pi ≠ C.seedIdx)
    (he : ExtSym G pre p.lhs) : ∀ p', C.ruleAt it.pi = some p' → Ext G pre (p'.rhs.drop it.dot) := by
  intro p' hp' cs hcs hm
  rw [hp] at hp'; cases hp'
  rw [h0, List.drop_zero] at hm
  have hlt : it.pi < C.seedIdx := by
    have h1 : it.pi < G.all.length := by
      rw [hv.ruleAt] at hp
      by_cases h : it.pi < G.all.length
      · exact h
      · simp [List.getElem?_eq_none (Nat.le_of_not_lt h)] at hp
    have h2 : G.all.length = C.seedIdx + 1 := by rw [hv.seedIdx]; simp [Grammar.all]
    omega
  have hpm := (hv.ruleAt_user hlt hp).1
  obtain ⟨v, hs⟩ := he (.node p cs) (ParseTree.node p cs hpm hcs hm) rfl
  exact ⟨v, by simpa [Tree.yield] using hs⟩

/-- the items of a freshly pushed state are grounded -/
theorem grounded_push (hv : Valid G A C) (hr : Reduced G) {s : Nat} {t : Tree} {st : List (Nat × Tree)}
    (hl : Linked G A C ((s, t) :: st)) (hg : Grounded G C st) : Grounded G C ((s, t) :: st) := by
  refine ⟨?_, hg⟩
  have htop := hg.top
  have hpre : stackYield ((s, t) :: st) = stackYield st ++ t.yield := by
    simp [stackYield, yieldL_append, Tree.yieldL]
  obtain ⟨htgt, hpt, _⟩ := hl
  have hs : s < C.items.size := by
    by_cases h : s < C.items.size
    · exact h
    · exact absurd (Cert.itemsOf_nil_of_ge (Nat.le_of_not_lt h)) htgt.1
  intro it hit
  refine justOrder_induct (P := fun it => ∀ p, C.ruleAt it.pi = some p →
      Ext G (stackYield ((s, t) :: st)) (p.rhs.drop it.dot))
    (R := ExtSym G (stackYield ((s, t) :: st))) ?_ (hv.order s hs) (by intro x hx; cases hx) ?_ ?_ it hit
  · intro it hP x hx
    cases hq : C.ruleAt it.pi with
    | none => simp [Cert.nextSyms, hq] at hx
    | some q => exact ext_to_sym hv hr hq (hP q hq) x hx
  · intro it hit hk p hp
    have hti := htgt.2.2 it hit
    rcases hk with hk | hk
    · obtain ⟨⟨p', hp', hx⟩, hm⟩ := hti.2 hk
      have hp'' : C.ruleAt it.pi = some p' := hp'
      rw [hp] at hp''; cases hp''
      have hE := htop _ hm p hp
      simp only [] at hE
      intro cs hcs hmap
      have hlt : it.dot - 1 < p.rhs.length := by
        by_cases h : it.dot - 1 < p.rhs.length
        · exact h
        · simp [List.getElem?_eq_none (Nat.le_of_not_lt h)] at hx
      have hdrop : p.rhs.drop (it.dot - 1) = t.root :: p.rhs.drop it.dot := by
        rw [List.drop_eq_getElem_cons hlt]
        rw [List.getElem?_eq_getElem hlt] at hx
        have : it.dot - 1 + 1 = it.dot := by omega
        rw [this, Option.some.inj hx]
      obtain ⟨v, hsent⟩ := hE (t :: cs)
        (by intro c hc; rcases List.mem_cons.mp hc with rfl | hc; exact hpt; exact hcs c hc)
        (by rw [hdrop]; simp [hmap])
      exact ⟨v, by rw [hpre]; simpa [Tree.yieldL, List.append_assoc] using hsent⟩
    · by_cases h0 : it.dot = 0
      · exact absurd hk (hti.1 h0)
      · obtain ⟨⟨p', hp', hx⟩, hm⟩ := hti.2 h0
        have hp'' : C.ruleAt it.pi = some p' := hp'
        rw [hp] at hp''; cases hp''
        have hE := htop _ hm p hp
        intro cs hcs hmap
        have hlt : it.dot - 1 < p.rhs.length := by
          by_cases h : it.dot - 1 < p.rhs.length
          · exact h
          · simp [List.getElem?_eq_none (Nat.le_of_not_lt h)] at hx
        have hdrop : p.rhs.drop (it.dot - 1) = t.root :: p.rhs.drop it.dot := by
          rw [List.drop_eq_getElem_cons hlt]
          rw [List.getElem?_eq_getElem hlt] at hx
          have : it.dot - 1 + 1 = it.dot := by omega
          rw [this, Option.some.inj hx]
        obtain ⟨v, hsent⟩ := hE (t :: cs)
          (by intro c hc; rcases List.mem_cons.mp hc with rfl | hc; exact hpt; exact hcs c hc)
          (by rw [hdrop]; simp [hmap])
        exact ⟨v, by rw [hpre]; simpa [Tree.yieldL, List.append_assoc] using hsent⟩
  · intro it hit h0 hsd p hp hR
    exact sym_to_ext hv hp h0 hsd hR

theorem grounded_init (hv : Valid G A C) (hr : Reduced G) : Grounded G C [] := by
  have hs : 0 < C.items.size := Cert.lt_of_mem hv.start.1
  intro it hit
  refine justOrder_induct (P := fun it => ∀ p, C.ruleAt it.pi = some p → Ext G [] (p.rhs.drop it.dot))
    (R := ExtSym G []) ?_ (hv.order 0 hs) (by intro x hx; cases hx) ?_ ?_ it hit
  · intro it hP x hx
    cases hq : C.ruleAt it.pi with
    | none => simp [Cert.nextSyms, hq] at hx
    | some q => exact ext_to_sym hv hr hq (hP q hq) x hx
  · intro it hit hk p hp
    have h0 := hv.start.2 it hit
    rcases hk with hk | hk
    · exact absurd h0 hk
    · rw [hk, hv.ruleAt_seed] at hp
      cases hp
      rw [h0]
      intro cs hcs hm
      simp only [Grammar.seed, List.drop_zero] at hm
      match cs, hm with
      | [t], hm =>
        refine ⟨[], t, hcs t (by simp), by simpa using hm, by simp [Tree.yieldL]⟩
      | [], hm => simp at hm
      | _ :: _ :: _, hm => simp at hm
  · intro it hit h0 hsd p hp hR
    exact sym_to_ext hv hp h0 hsd hR

end Emboss.Lr1

namespace Emboss.Lr1
variable {G : Grammar} {A : Automaton} {C : Cert}

theorem step_shape {w : List Token} {c c' : Config} (h : step A w c = .next c') :
    (∃ e n, c'.stack = e :: c.stack.drop n) ∧ c.cursor ≤ c'.cursor := by
  unfold step at h
  simp only [] at h
  split at h
  · split at h
    · cases h; exact ⟨⟨_, 0, rfl⟩, Nat.le_succ _⟩
    · cases h
  · split at h
    · split at h <;> cases h
    · cases h
  · split at h
    · cases h
    · split at h
      · split at h
        · cases h; exact ⟨⟨_, _, rfl⟩, Nat.le_refl _⟩
        · cases h
      · cases h
  · split at h
    · cases h
    · split at h <;> cases h

theorem step_error_index {w : List Token} {c : Config} {code : Option Nat} {i s : Nat} {e : List Nat}
    (h : step A w c = .done (.error code i s e)) : i = c.cursor := by
  unfold step at h
  simp only [] at h
  split at h
  · split at h <;> cases h
  · split at h
    · split at h <;> cases h
    · cases h
  · split at h
    · cases h
    · split at h
      · split at h <;> cases h
      · cases h
  · split at h
    · cases h; rfl
    · split at h
      · cases h
      · cases h; rfl

theorem viable_of_grounded (hv : Valid G A C) (hr : Reduced G) {st : List (Nat × Tree)}
    (hl : Linked G A C st) (hg : Grounded G C st) : ViablePrefix G (stackYield st) := by
  have key : ∃ it ∈ C.itemsOf (topState st), ∃ p, C.ruleAt it.pi = some p := by
    cases st with
    | nil => exact ⟨_, hv.start.1, _, hv.ruleAt_seed⟩
    | cons e rest =>
      obtain ⟨s, t⟩ := e
      have htgt := hl.1
      cases hit : C.itemsOf s with
      | nil => exact absurd hit htgt.1
      | cons it l =>
        have hmem : it ∈ C.itemsOf s := by rw [hit]; exact List.mem_cons_self
        refine ⟨it, hmem, ?_⟩
        by_cases h0 : it.dot = 0
        · have hs := Cert.lt_of_mem hmem
          obtain ⟨p, hp, _⟩ := justOrder_mem (hv.order s hs) it hmem h0 ((htgt.2.2 it hmem).1 h0)
          exact ⟨p, hp⟩
        · obtain ⟨⟨p, hp, _⟩, _⟩ := (htgt.2.2 it hmem).2 h0
          exact ⟨p, hp⟩
  obtain ⟨it, hit, p, hp⟩ := key
  have hE := hg.top it hit p hp
  have hne : ∀ y ∈ p.rhs.drop it.dot, y ≠ G.startPrime := fun y hy =>
    rhs_ne_startPrime hv (hv.ruleAt_mem hp) y (List.mem_of_mem_drop hy)
  obtain ⟨cs, hcs, hm⟩ := forest_exists hr _ hne
  obtain ⟨v, hs⟩ := hE cs hcs hm
  exact ⟨Tree.yieldL cs ++ v, by simpa [List.append_assoc] using hs⟩

theorem runFrom_error_viable (hv : Valid G A C) (hr : Reduced G) (w : List Token) :
    ∀ (f : Nat) (c : Config), Inv G A C w c → Grounded G C c.stack →
      ∀ code i s e, runFrom A w f c = .error code i s e → ViablePrefix G (w.take i)
  | 0, _, _, _, _, _, _, _, h => by simp [runFrom] at h
  | f + 1, c, hi, hg, code, i, s, e, h => by
    have hp := step_post hv w c hi
    cases hs : step A w c with
    | next c' =>
      rw [hs] at hp
      simp only [runFrom, hs] at h
      obtain ⟨⟨e', n, hshape⟩, _⟩ := step_shape hs
      have hg' : Grounded G C c'.stack := by
        rw [hshape]
        obtain ⟨s', t'⟩ := e'
        exact grounded_push hv hr (by rw [← hshape]; exact hp.1.1) (hg.drop n)
      exact runFrom_error_viable hv hr w f c' hp.1 hg' code i s e h
    | done r =>
      simp only [runFrom, hs] at h
      subst h
      have hidx := step_error_index hs
      rw [hidx, ← hi.2]
      exact viable_of_grounded hv hr hi.1 hg

/-! ### lock-step of runs on inputs that agree up to the error position -/

theorem step_congr {w₁ w₂ : List Token} {c : Config} (h : w₁[c.cursor]? = w₂[c.cursor]?) :
    step A w₁ c = step A w₂ c := by
  unfold step nextAction clientEoi lookahead
  rw [h]

theorem runFrom_error_ge {w : List Token} : ∀ (f : Nat) (c : Config) {code : Option Nat} {i s : Nat}
    {e : List Nat}, runFrom A w f c = .error code i s e → c.cursor ≤ i
  | 0, _, _, _, _, _, h => by simp [runFrom] at h
  | f + 1, c, code, i, s, e, h => by
    cases hs : step A w c with
    | next c' =>
      simp only [runFrom, hs] at h
      exact Nat.le_trans (step_shape hs).2 (runFrom_error_ge f c' h)
    | done r =>
      simp only [runFrom, hs] at h
      subst h
      exact Nat.le_of_eq (step_error_index hs).symm

theorem runFrom_lockstep {w₁ w₂ : List Token} {i : Nat} : ∀ (f : Nat) (c : Config),
    (∀ j, c.cursor ≤ j → j ≤ i → w₁[j]? = w₂[j]?) →
    ∀ {code : Option Nat} {s : Nat} {e : List Nat},
      runFrom A w₁ f c = .error code i s e → runFrom A w₂ f c = .error code i s e
  | 0, _, _, _, _, _, h => by simp [runFrom] at h
  | f + 1, c, hw, code, s, e, h => by
    have hci := runFrom_error_ge (f + 1) c h
    have hcong : step A w₁ c = step A w₂ c := step_congr (hw _ (Nat.le_refl _) hci)
    cases hs : step A w₁ c with
    | next c' =>
      simp only [runFrom, hs] at h
      simp only [runFrom, ← hcong, hs]
      exact runFrom_lockstep f c' (fun j hj hji => hw j (Nat.le_trans (step_shape hs).2 hj) hji) h
    | done r =>
      simp only [runFrom, hs] at h
      simp only [runFrom, ← hcong, hs]
      exact h

theorem runFrom_mono {w : List Token} : ∀ (f : Nat) (c : Config) (k : Nat) {r : Result},
    runFrom A w f c = r → r ≠ .outOfFuel → runFrom A w (f + k) c = r
  | 0, _, _, _, h, hne => by simp only [runFrom] at h; exact absurd h.symm hne
  | f + 1, c, k, r, h, hne => by
    rw [Nat.add_right_comm]
    cases hs : step A w c with
    | next c' =>
      simp only [runFrom, hs] at h ⊢
      exact runFrom_mono f c' k h hne
    | done r' =>
      simp only [runFrom, hs] at h ⊢
      exact h

/-- If the run on `w` errors at index `i`, no input that agrees with `w` on positions `≤ i`
is a sentence. -/
theorem no_sentence_of_error (hv : Valid G A C) {w w₂ : List Token} {fuel : Nat} {code : Option Nat}
    {i s : Nat} {e : List Nat} (h : run A fuel w = .error code i s e)
    (hagree : ∀ j, j ≤ i → w[j]? = w₂[j]?) : ¬ Sentence G w₂ := by
  intro ⟨t, hd⟩
  obtain ⟨f0, hf0⟩ := run_complete hv hd
  have h2 : run A fuel w₂ = .error code i s e :=
    runFrom_lockstep fuel init (fun j _ hj => hagree j hj) h
  have h3 := runFrom_mono fuel init f0 h2 (by intro h'; cases h')
  have h4 := hf0 (fuel + f0) (Nat.le_add_left _ _)
  unfold run at h4
  rw [h3] at h4
  cases h4

end Emboss.Lr1
