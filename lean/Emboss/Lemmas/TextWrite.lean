/-
Helper lemmas for C06: the text writer's output is well separated (Theorem B), for
every value tree and every re-readable option set.
-/
import Emboss.Lemmas.TextTok
import Emboss.Lemmas.TextIntWrite
namespace Emboss.Text

theorem wellSep_append (a b : List Piece) : ∀ k, WellSep k (a ++ b) ↔ WellSep k a ∧ WellSep (lastKind k a) b := by
  induction a with
  | nil => intro k; simp [WellSep, lastKind]
  | cons p a ih =>
    intro k
    simp only [List.cons_append, WellSep, lastKind, ih]
    constructor
    · rintro ⟨h1, h2, h3, h4⟩; exact ⟨⟨h1, h2, h3⟩, h4⟩
    · rintro ⟨⟨h1, h2, h3⟩, h4⟩; exact ⟨h1, h2, h3, h4⟩

theorem lastKind_append (a b : List Piece) : ∀ k, lastKind k (a ++ b) = lastKind (lastKind k a) b := by
  induction a with
  | nil => intro k; rfl
  | cons p a ih => intro k; simp only [List.cons_append, lastKind, ih]

theorem bodyChar_not_delim (b : Nat) (hb : b ≤ 16) (c : Char) (h : IsBodyChar b c) : isDelim c = false := by
  have hd : ∀ d, d < 16 → isDelim (digitChar d) = false := by decide
  rcases h with rfl | ⟨d, hd', rfl⟩
  · decide
  · exact hd d (by omega)

theorem writeBody_chars (T : IntTy) (x : Int) (base : Base) (g : Bool) :
    ∀ ch ∈ writeBody T x base.toNat g, IsBodyChar base.toNat ch := by
  have hb := Base.toNat_cases base
  generalize base.toNat = b at hb ⊢
  have h0 : IsBodyChar b '0' := Or.inr ⟨0, by omega, rfl⟩
  have hbuf0 : ∀ ch ∈ (if x = 0 then ['0'] else ([] : List Char)), IsBodyChar b ch := by
    intro ch h; split at h
    · simp at h; subst h; exact h0
    · simp at h
  unfold writeBody
  simp only
  split
  · split
    · apply writeLoop_chars
      intro ch h
      rcases List.mem_cons.mp h with rfl | h
      · refine Or.inr ⟨_, ?_, rfl⟩
        have : (-(x + 1)).toNat % b < b := Nat.mod_lt _ (by omega)
        split <;> omega
      · exact hbuf0 ch h
    · exact writeLoop_chars b g _ _ _ hbuf0
  · exact writeLoop_chars b g _ _ _ hbuf0

theorem writeBody_ne_nil (T : IntTy) (x : Int) (base : Base) (g : Bool) (hx : 0 ≤ x) :
    writeBody T x base.toNat g ≠ [] := by
  have hb := Base.toNat_cases base
  generalize base.toNat = b at hb ⊢
  unfold writeBody
  simp only
  have hneg : ¬ x < 0 := by omega
  simp only [hneg, if_false]
  by_cases h0 : x = 0
  · subst h0
    obtain ⟨d, _, hd⟩ := writeLoop_head b g (0 : Int).toNat 0 ['0'] (Or.inr ⟨0, by omega, rfl⟩)
    intro h
    have h' : writeLoop b g (Int.toNat 0) 0 ['0'] = [] := by simpa using h
    rw [h'] at hd; simp at hd
  · obtain ⟨d, _, hd⟩ := writeLoop_head b g x.toNat 0 (if x = 0 then ['0'] else [])
      (Or.inl ⟨by omega, by omega⟩)
    intro h; rw [h] at hd; simp at hd

/-- Whatever the writer produces for a number is one token. -/
theorem writeInt_validWord (T : IntTy) (x : Int) (base : Base) (g : Bool) :
    ValidWord (writeInt T x base g) := by
  have hb16 : base.toNat ≤ 16 := by cases base <;> simp [Base.toNat]
  have hbody := writeBody_chars T x base g
  have hpfx : ∀ c ∈ basePrefix base, isDelim c = false := by
    cases base <;> simp [basePrefix] <;> decide
  constructor
  · unfold writeInt
    simp only
    by_cases hn : x < 0
    · simp [hn]
    · simp only [hn, if_false]
      have := writeBody_ne_nil T x base g (by omega)
      simp [this]
  · intro c hc
    unfold writeInt at hc
    simp only at hc
    have hmem : c = '-' ∨ c ∈ basePrefix base ∨ c ∈ writeBody T x base.toNat g := by
      split at hc
      · rcases List.mem_cons.mp hc with h | h
        · exact Or.inl h
        · rcases List.mem_append.mp h with h | h
          · exact Or.inr (Or.inl h)
          · exact Or.inr (Or.inr h)
      · rcases List.mem_append.mp hc with h | h
        · exact Or.inr (Or.inl h)
        · exact Or.inr (Or.inr h)
    rcases hmem with rfl | h | h
    · decide
    · exact hpfx c h
    · exact bodyChar_not_delim _ hb16 c (hbody c h)

theorem not_newline_of_not_delim (c : Char) (h : isDelim c = false) : c ≠ '\n' ∧ c ≠ '\r' := by
  constructor <;> (intro hc; subst hc; simp [isDelim, isSpace] at h)

theorem okAfter_newline_space (k : Kind) (s : List Char) : OkAfter k (.space ('\n' :: s)) := by
  cases k <;> simp [OkAfter]

theorem Opts.Rereadable.plusOne {o : Opts} (h : o.Rereadable) : o.plusOne.Rereadable where
  comments_need_multiline := h.comments_need_multiline
  indent_blank := h.indent_blank
  current_blank := by
    intro c hc
    simp only [Opts.plusOne, List.mem_append] at hc
    rcases hc with hc | hc
    · exact h.current_blank c hc
    · exact h.indent_blank c hc

theorem numberComment_wellSep (T : IntTy) (v : Int) (b : Base) (g : Bool) :
    WellSep .word (numberComment T v b g) ∧ lastKind .word (numberComment T v b g) = .comment := by
  have hw := writeInt_validWord T v b g
  refine ⟨⟨?_, ?_, ?_, ?_, trivial⟩, rfl⟩
  · intro c hc; simp at hc; subst hc; decide
  · simp [OkAfter]
  · intro c hc
    rcases List.mem_cons.mp hc with rfl | hc
    · decide
    · exact not_newline_of_not_delim c (hw.2 c hc)
  · simp [OkAfter, Piece.kind]

theorem wellSep_scalar (o : Opts) (ho : o.Rereadable) (s : Scalar) (hs : s.WF) :
    WellSep .other (writeScalar o s) ∧ EndOk o (lastKind .other (writeScalar o s)) := by
  cases s with
  | int T v =>
    have hw := writeInt_validWord T v o.base o.grouping
    simp only [writeScalar]
    by_cases hc : o.comments = true
    · obtain ⟨h1, h2⟩ := numberComment_wellSep T v (otherBase o.base) o.grouping
      simp only [hc, if_true]
      refine ⟨⟨hw, by simp [OkAfter], h1⟩, ?_⟩
      simp only [lastKind, Piece.kind, h2, EndOk]
      exact ho.comments_need_multiline hc
    · simp only [hc]
      exact ⟨⟨hw, by simp [OkAfter], trivial⟩, by simp [lastKind, Piece.kind, EndOk]⟩
  | bool b =>
    simp only [writeScalar]
    refine ⟨⟨?_, by simp [OkAfter], trivial⟩, by simp [lastKind, Piece.kind, EndOk]⟩
    cases b
    · exact ⟨by decide, by decide⟩
    · exact ⟨by decide, by decide⟩
  | enumV n T v =>
    cases n with
    | none =>
      have hw := writeInt_validWord T v o.base o.grouping
      simp only [writeScalar]
      exact ⟨⟨hw, by simp [OkAfter], trivial⟩, by simp [lastKind, Piece.kind, EndOk]⟩
    | some w =>
      have hw : ValidWord w := hs w rfl
      simp only [writeScalar]
      by_cases hc : o.comments = true
      · obtain ⟨h1, h2⟩ := numberComment_wellSep T v o.base o.grouping
        simp only [hc, if_true]
        refine ⟨⟨hw, by simp [OkAfter], h1⟩, ?_⟩
        simp only [lastKind, Piece.kind, h2, EndOk]
        exact ho.comments_need_multiline hc
      · simp only [hc]
        exact ⟨⟨hw, by simp [OkAfter], trivial⟩, by simp [lastKind, Piece.kind, EndOk]⟩
  | float t =>
    have hw : ValidWord t := hs
    simp only [writeScalar]
    exact ⟨⟨hw, by simp [OkAfter], trivial⟩, by simp [lastKind, Piece.kind, EndOk]⟩

theorem render_append (a b : List Piece) : render (a ++ b) = render a ++ render b := by
  induction a with
  | nil => rfl
  | cons p a ih => simp [render, ih]

theorem render_numberComment_no_newline (T : IntTy) (v : Int) (b : Base) (g : Bool) :
    ∀ c ∈ render (numberComment T v b g), c ≠ '\n' ∧ c ≠ '\r' := by
  have hw := writeInt_validWord T v b g
  intro c hc
  simp only [numberComment, render, Piece.render, List.append_nil, List.cons_append,
    List.nil_append, List.mem_cons] at hc
  rcases hc with rfl | rfl | rfl | rfl | hc
  · decide
  · decide
  · decide
  · decide
  · exact not_newline_of_not_delim c (hw.2 c hc)

theorem render_scalar_no_newline (o : Opts) (s : Scalar) (hs : s.WF) :
    ∀ c ∈ render (writeScalar o s), c ≠ '\n' ∧ c ≠ '\r' := by
  have hword : ∀ w, ValidWord w → ∀ c ∈ w, c ≠ '\n' ∧ c ≠ '\r' :=
    fun w hw c hc => not_newline_of_not_delim c (hw.2 c hc)
  intro c hc
  cases s with
  | int T v =>
    simp only [writeScalar, render, Piece.render, List.mem_append] at hc
    rcases hc with hc | hc
    · exact hword _ (writeInt_validWord T v o.base o.grouping) c hc
    · split at hc
      · exact render_numberComment_no_newline _ _ _ _ c hc
      · simp [render] at hc
  | bool b =>
    simp only [writeScalar, render, Piece.render, List.append_nil] at hc
    cases b
    · exact hword "false".toList ⟨by decide, by decide⟩ c hc
    · exact hword "true".toList ⟨by decide, by decide⟩ c hc
  | enumV n T v =>
    cases n with
    | none =>
      simp only [writeScalar, render, Piece.render, List.append_nil] at hc
      exact hword _ (writeInt_validWord T v o.base o.grouping) c hc
    | some w =>
      simp only [writeScalar, render, Piece.render, List.mem_append] at hc
      rcases hc with hc | hc
      · exact hword w (hs w rfl) c hc
      · split at hc
        · exact render_numberComment_no_newline _ _ _ _ c hc
        · simp [render] at hc
  | float t =>
    simp only [writeScalar, render, Piece.render, List.append_nil] at hc
    exact hword t hs c hc

theorem indexMarker_wellSep (o : Opts) (i : Nat) :
    WellSep .other (indexMarker o i) ∧ lastKind .other (indexMarker o i) = .other := by
  have hw := writeInt_validWord .u64 i o.base o.grouping
  have p1 : isPunct '[' = true := by decide
  have p2 : isPunct ']' = true := by decide
  have p3 : isPunct ':' = true := by decide
  refine ⟨⟨p1, trivial, hw, by simp [OkAfter, Piece.kind], p2, by simp [OkAfter, Piece.kind],
    p3, trivial, ?_, trivial, trivial⟩, rfl⟩
  intro c hc; simp at hc; subst hc; decide

theorem asciiChar_no_newline (v : TVal) : asciiChar v ≠ '\n' ∧ asciiChar v ≠ '\r' := by
  have key : ∀ n, n < 127 → 32 ≤ n → Char.ofNat n ≠ '\n' ∧ Char.ofNat n ≠ '\r' := by decide
  unfold asciiChar
  split
  · split
    · rename_i v' h
      exact key v'.toNat (by omega) (by omega)
    · decide
  · decide

theorem asciiChars_no_newline (vs : TVals) : ∀ c ∈ asciiChars vs, c ≠ '\n' ∧ c ≠ '\r' := by
  induction vs using TVals.rec (motive_1 := fun _ => True) (motive_3 := fun _ => True) with
  | nil => intro c hc; simp [asciiChars] at hc
  | cons v vs _ ih =>
    intro c hc
    simp only [asciiChars, List.mem_cons] at hc
    rcases hc with rfl | hc
    · exact asciiChar_no_newline v
    · exact ih c hc
  | skip vs ih =>
    intro c hc
    simp only [asciiChars] at hc
    exact ih c hc
  | scalar => trivial
  | arr => trivial
  | struct => trivial
  | _ => trivial

theorem asciiLines_wellSep (indent : List Char) (hi : ∀ c ∈ indent, isSpace c = true) :
    ∀ (fuel : Nat) (cs : List Char) (k : Kind), (∀ c ∈ cs, c ≠ '\n' ∧ c ≠ '\r') →
      WellSep k (asciiLines indent fuel cs) ∧
        (lastKind k (asciiLines indent fuel cs) = k ∨ lastKind k (asciiLines indent fuel cs) = .comment) := by
  intro fuel
  induction fuel with
  | zero => intro cs k _; exact ⟨trivial, Or.inl rfl⟩
  | succ n ih =>
    intro cs k hcs
    unfold asciiLines
    split
    · exact ⟨trivial, Or.inl rfl⟩
    · have hdrop : ∀ c ∈ cs.drop 64, c ≠ '\n' ∧ c ≠ '\r' := fun c hc => hcs c (List.mem_of_mem_drop hc)
      obtain ⟨h1, h2⟩ := ih (cs.drop 64) .comment hdrop
      refine ⟨⟨?_, okAfter_newline_space k indent, ?_, trivial, h1⟩, ?_⟩
      · intro c hc
        rcases List.mem_cons.mp hc with rfl | hc
        · decide
        · exact hi c hc
      · intro c hc
        rcases List.mem_cons.mp hc with rfl | hc
        · decide
        · exact hcs c (List.mem_of_mem_take hc)
      · simp only [lastKind, Piece.kind]
        rcases h2 with h2 | h2 <;> exact Or.inr h2

theorem endOk_plusOne (o : Opts) (k : Kind) : EndOk o.plusOne k ↔ EndOk o k := by
  cases k <;> simp [EndOk, Opts.plusOne]

theorem okAfter_space1 (k : Kind) (hk : k ≠ .comment) : OkAfter k (.space [' ']) := by
  cases k <;> simp [OkAfter] at *

theorem okAfter_punct (k : Kind) (hk : k ≠ .comment) (c : Char) : OkAfter k (.punct c) := by
  cases k <;> simp [OkAfter] at *

theorem endOk_sl (o : Opts) (hsl : o.multiline = false) (k : Kind) (h : EndOk o k) : k ≠ .comment := by
  intro hk; subst hk; simp [EndOk, hsl] at h

theorem space1_valid : (Piece.space [' ']).Valid := by
  intro c hc; simp at hc; subst hc; decide

theorem newline_valid : (Piece.space ['\n']).Valid := by
  intro c hc; simp at hc; subst hc; decide

theorem newline_indent_valid (s : List Char) (hs : ∀ c ∈ s, isSpace c = true) :
    (Piece.space ('\n' :: s)).Valid := by
  intro c hc
  rcases List.mem_cons.mp hc with rfl | hc
  · decide
  · exact hs c hc

theorem unreadable_no_newline : ∀ c ∈ unreadable, c ≠ '\n' ∧ c ≠ '\r' := by decide

theorem unreadable_index_comment_valid (i : Nat) (b : Base) (g : Bool) :
    (Piece.comment (' ' :: '[' :: (writeInt .u64 i b g ++ (']' :: ':' :: ' ' :: unreadable)))).Valid := by
  have hw := writeInt_validWord .u64 i b g
  intro c hc
  simp only [List.mem_cons, List.mem_append] at hc
  rcases hc with rfl | rfl | hc | rfl | rfl | rfl | hc
  · decide
  · decide
  · exact not_newline_of_not_delim c (hw.2 c hc)
  · decide
  · decide
  · decide
  · exact unreadable_no_newline c hc

mutual
theorem wellSep_val : ∀ (v : TVal) (o : Opts), o.Rereadable → v.WF →
    WellSep .other (writeVal o v) ∧ EndOk o (lastKind .other (writeVal o v))
  | .scalar s, o, ho, hv => by
    rw [writeVal]; exact wellSep_scalar o ho s hv
  | .arr ascii vs, o, ho, hv => by
    have hvs : vs.WF := hv
    have pb : isPunct '{' = true := by decide
    have pe : isPunct '}' = true := by decide
    rw [writeVal]
    by_cases hml : o.multiline = true
    · simp only [hml, if_true]
      -- ascii comment lines
      have hA : WellSep .other (if (ascii && o.comments) = true then
            asciiLines o.plusOne.current (asciiChars vs).length (asciiChars vs) else []) ∧
          EndOk o (lastKind .other (if (ascii && o.comments) = true then
            asciiLines o.plusOne.current (asciiChars vs).length (asciiChars vs) else [])) := by
        split
        · obtain ⟨h1, h2⟩ := asciiLines_wellSep o.plusOne.current ho.plusOne.current_blank
            (asciiChars vs).length (asciiChars vs) .other (asciiChars_no_newline vs)
          refine ⟨h1, ?_⟩
          rcases h2 with h2 | h2 <;> rw [h2] <;> simp [EndOk, hml]
        · exact ⟨trivial, by simp [lastKind, EndOk]⟩
      obtain ⟨hA1, hA2⟩ := hA
      obtain ⟨hE1, hE2⟩ := wellSep_elemsML vs o 0 _ ho hml hvs hA2
      refine ⟨⟨pb, trivial, ?_⟩, ?_⟩
      · rw [wellSep_append, wellSep_append]
        refine ⟨hA1, hE1, newline_indent_valid _ ho.current_blank, okAfter_newline_space _ _, pe, trivial, trivial⟩
      · simp [lastKind, lastKind_append, Piece.kind, EndOk]
    · have hsl : o.multiline = false := by simpa using hml
      simp only [hsl]
      obtain ⟨hE1, hE2⟩ := wellSep_elemsSL vs o 0 false .other ho hsl hvs (by simp [EndOk])
      refine ⟨⟨pb, trivial, ?_⟩, ?_⟩
      · rw [wellSep_append]
        exact ⟨hE1, space1_valid, okAfter_space1 _ (endOk_sl o hsl _ hE2), pe, trivial, trivial⟩
      · simp [lastKind, lastKind_append, Piece.kind, EndOk]
  | .struct fs, o, ho, hv => by
    have hfs : fs.WF := hv
    have pb : isPunct '{' = true := by decide
    have pe : isPunct '}' = true := by decide
    rw [writeVal]
    by_cases hml : o.multiline = true
    · simp only [hml, if_true, List.cons_append, List.nil_append]
      obtain ⟨hF1, hF2⟩ := wellSep_fields fs o false .other ho hfs (by simp [StartOk, hml])
      have hF2' : lastKind .other (writeFields o false fs) = .other := by simpa [StartOk, hml] using hF2
      refine ⟨⟨pb, trivial, newline_valid, trivial, ?_⟩, ?_⟩
      · rw [wellSep_append]
        refine ⟨hF1, ?_⟩
        show WellSep (lastKind .other (writeFields o false fs)) _
        rw [hF2']
        exact ⟨ho.current_blank, trivial, pe, trivial, trivial⟩
      · simp [lastKind, lastKind_append, Piece.kind, EndOk]
    · have hsl : o.multiline = false := by simpa using hml
      simp only [hsl, Bool.false_eq_true, if_false, List.cons_append, List.nil_append]
      obtain ⟨hF1, hF2⟩ := wellSep_fields fs o false .other ho hfs (by simp [StartOk, hsl])
      have hF2' : lastKind .other (writeFields o false fs) ≠ .comment := by simpa [StartOk, hsl] using hF2
      refine ⟨⟨pb, trivial, ?_⟩, ?_⟩
      · rw [wellSep_append]
        exact ⟨hF1, space1_valid, okAfter_space1 _ hF2', pe, trivial, trivial⟩
      · simp [lastKind, lastKind_append, Piece.kind, EndOk]

theorem wellSep_elemsML : ∀ (vs : TVals) (o : Opts) (i : Nat) (k : Kind), o.Rereadable →
    o.multiline = true → vs.WF → EndOk o k →
    WellSep k (writeElemsML o i vs) ∧ EndOk o (lastKind k (writeElemsML o i vs))
  | .nil, o, i, k, _, _, _, hk => by
    rw [writeElemsML]; exact ⟨trivial, hk⟩
  | .cons v vs, o, i, k, ho, hml, hvs, hk => by
    obtain ⟨hv, hvs'⟩ : v.WF ∧ vs.WF := hvs
    rw [writeElemsML]
    obtain ⟨hI1, hI2⟩ := indexMarker_wellSep o i
    obtain ⟨hV1, hV2⟩ := wellSep_val v o.plusOne ho.plusOne hv
    have hV2' : EndOk o (lastKind .other (writeVal o.plusOne v)) := (endOk_plusOne o _).mp hV2
    obtain ⟨hR1, hR2⟩ := wellSep_elemsML vs o (i + 1) _ ho hml hvs' hV2'
    refine ⟨⟨newline_indent_valid _ ho.plusOne.current_blank, okAfter_newline_space _ _, ?_⟩, ?_⟩
    · simp only [Piece.kind]
      rw [wellSep_append, wellSep_append, hI2]
      exact ⟨hI1, hV1, hR1⟩
    · simp only [lastKind, Piece.kind, lastKind_append, hI2]
      exact hR2
  | .skip vs, o, i, k, ho, hml, hvs, hk => by
    have hvs' : vs.WF := hvs
    rw [writeElemsML]
    by_cases hc : o.comments = true
    · simp only [hc, if_true, List.cons_append, List.nil_append]
      obtain ⟨hR1, hR2⟩ := wellSep_elemsML vs o (i + 1) .comment ho hml hvs' (by simp [EndOk, hml])
      refine ⟨⟨newline_indent_valid _ ho.plusOne.current_blank, okAfter_newline_space _ _, ?_,
        by simp [OkAfter, Piece.kind], hR1⟩, by simpa [lastKind, Piece.kind] using hR2⟩
      exact unreadable_index_comment_valid i o.base o.grouping
    · simp only [hc]
      simpa using wellSep_elemsML vs o (i + 1) k ho hml hvs' hk

theorem wellSep_elemsSL : ∀ (vs : TVals) (o : Opts) (i : Nat) (skipped : Bool) (k : Kind), o.Rereadable →
    o.multiline = false → vs.WF → EndOk o k →
    WellSep k (writeElemsSL o i skipped vs) ∧ EndOk o (lastKind k (writeElemsSL o i skipped vs))
  | .nil, o, i, skipped, k, _, _, _, hk => by
    rw [writeElemsSL]; exact ⟨trivial, hk⟩
  | .skip vs, o, i, skipped, k, ho, hsl, hvs, hk => by
    have hvs' : vs.WF := hvs
    have hc : o.comments = false := by
      cases h : o.comments with
      | false => rfl
      | true => exact absurd (ho.comments_need_multiline h) (by simp [hsl])
    rw [writeElemsSL]
    simp only [hc, Bool.false_eq_true, if_false, List.nil_append]
    exact wellSep_elemsSL vs o (i + 1) true k ho hsl hvs' hk
  | .cons v vs, o, i, skipped, k, ho, hsl, hvs, hk => by
    obtain ⟨hv, hvs'⟩ : v.WF ∧ vs.WF := hvs
    rw [writeElemsSL]
    obtain ⟨hI1, hI2⟩ := indexMarker_wellSep o i
    obtain ⟨hV1, hV2⟩ := wellSep_val v o.plusOne ho.plusOne hv
    have hV2' : EndOk o (lastKind .other (writeVal o.plusOne v)) := (endOk_plusOne o _).mp hV2
    have hM : WellSep .other (if i % 8 = 0 ∨ skipped = true then indexMarker o i else []) ∧
        lastKind .other (if i % 8 = 0 ∨ skipped = true then indexMarker o i else []) = .other := by
      split
      · exact ⟨hI1, hI2⟩
      · exact ⟨trivial, rfl⟩
    have pc : isPunct ',' = true := by decide
    have hC : WellSep (lastKind .other (writeVal o.plusOne v)) (if vs.isNil = true then [] else [Piece.punct ',']) ∧
        EndOk o (lastKind (lastKind .other (writeVal o.plusOne v)) (if vs.isNil = true then [] else [Piece.punct ','])) := by
      split
      · exact ⟨trivial, hV2'⟩
      · exact ⟨⟨pc, okAfter_punct _ (endOk_sl o hsl _ hV2') _, trivial⟩, by simp [lastKind, Piece.kind, EndOk]⟩
    obtain ⟨hR1, hR2⟩ := wellSep_elemsSL vs o (i + 1) false _ ho hsl hvs' hC.2
    refine ⟨⟨space1_valid, okAfter_space1 _ (endOk_sl o hsl _ hk), ?_⟩, ?_⟩
    · simp only [Piece.kind]
      rw [wellSep_append, wellSep_append, wellSep_append, hM.2]
      exact ⟨hM.1, hV1, hC.1, hR1⟩
    · simp only [lastKind, Piece.kind, lastKind_append, hM.2]
      exact hR2

theorem wellSep_fields : ∀ (fs : TFields) (o : Opts) (wrote : Bool) (k : Kind), o.Rereadable →
    fs.WF → StartOk o k →
    WellSep k (writeFields o wrote fs) ∧ StartOk o (lastKind k (writeFields o wrote fs))
  | .nil, o, wrote, k, _, _, hk => by
    rw [writeFields]; exact ⟨trivial, hk⟩
  | .cons name false v fs, o, wrote, k, ho, hfs, hk => by
    obtain ⟨hname, _, hv, hfs'⟩ : ValidWord name ∧ _ ∧ v.WF ∧ fs.WF := hfs
    rw [writeFields]
    obtain ⟨hV1, hV2⟩ := wellSep_val v o.plusOne ho.plusOne hv
    have hV2' : EndOk o (lastKind .other (writeVal o.plusOne v)) := (endOk_plusOne o _).mp hV2
    have pcol : isPunct ':' = true := by decide
    have pc : isPunct ',' = true := by decide
    by_cases hml : o.multiline = true
    · have hk' : k = .other := by simpa [StartOk, hml] using hk
      subst hk'
      simp only [hml, if_true]
      obtain ⟨hR1, hR2⟩ := wellSep_fields fs o true .other ho hfs' (by simp [StartOk, hml])
      refine ⟨⟨ho.plusOne.current_blank, trivial, hname, trivial, pcol, by simp [OkAfter, Piece.kind],
        space1_valid, trivial, ?_⟩, ?_⟩
      · simp only [Piece.kind]
        rw [wellSep_append]
        refine ⟨hV1, newline_valid, ?_, hR1⟩
        have := hV2'
        generalize lastKind .other (writeVal o.plusOne v) = kk at this ⊢
        cases kk <;> simp [OkAfter]
      · simp only [List.singleton_append, List.cons_append, lastKind, Piece.kind, lastKind_append]
        exact hR2
    · have hsl : o.multiline = false := by simpa using hml
      have hk' : k ≠ .comment := by simpa [StartOk, hsl] using hk
      simp only [hsl]
      have hS : StartOk o (lastKind .other (writeVal o.plusOne v)) := by
        simp only [StartOk, hsl]
        exact endOk_sl o hsl _ hV2'
      obtain ⟨hR1, hR2⟩ := wellSep_fields fs o true _ ho hfs' hS
      have hbody : WellSep .other (Piece.word name :: Piece.punct ':' :: Piece.space [' '] ::
            (writeVal o.plusOne v ++ (([] : List Piece) ++ writeFields o true fs))) ∧
          StartOk o (lastKind .other (Piece.word name :: Piece.punct ':' :: Piece.space [' '] ::
            (writeVal o.plusOne v ++ (([] : List Piece) ++ writeFields o true fs)))) := by
        refine ⟨⟨hname, trivial, pcol, by simp [OkAfter, Piece.kind], space1_valid, trivial, ?_⟩, ?_⟩
        · simp only [Piece.kind, List.nil_append]
          rw [wellSep_append]
          exact ⟨hV1, hR1⟩
        · simp only [lastKind, Piece.kind, List.nil_append, lastKind_append]
          exact hR2
      have hfalse : (if (false : Bool) = true then [Piece.space ['\n']] else ([] : List Piece)) = [] := rfl
      simp only [Bool.false_eq_true, if_false]
      split
      · refine ⟨⟨pc, okAfter_punct _ hk' _, space1_valid, trivial, hbody.1⟩, ?_⟩
        simpa [lastKind, Piece.kind] using hbody.2
      · refine ⟨⟨space1_valid, okAfter_space1 _ hk', hbody.1⟩, ?_⟩
        simpa [lastKind, Piece.kind] using hbody.2
  | .cons name true v fs, o, wrote, k, ho, hfs, hk => by
    obtain ⟨hname, hro, hv, hfs'⟩ : ValidWord name ∧ (true = true → ∃ s, v = .scalar s) ∧ v.WF ∧ fs.WF := hfs
    obtain ⟨s, rfl⟩ := hro rfl
    rw [writeFields]
    by_cases hc : o.comments = true
    · have hml := ho.comments_need_multiline hc
      have hk' : k = .other := by simpa [StartOk, hml] using hk
      subst hk'
      simp only [hc, if_true]
      obtain ⟨hR1, hR2⟩ := wellSep_fields fs o wrote .other ho hfs' (by simp [StartOk, hml])
      refine ⟨⟨ho.plusOne.current_blank, trivial, ?_, trivial, newline_valid, by simp [OkAfter, Piece.kind], hR1⟩, ?_⟩
      · intro c hc'
        have hs : s.WF := hv
        simp only [List.mem_cons, List.mem_append] at hc'
        rcases hc' with rfl | hc' | rfl | rfl | hc'
        · decide
        · exact not_newline_of_not_delim c (hname.2 c hc')
        · decide
        · decide
        · rw [writeVal] at hc'
          exact render_scalar_no_newline o.plusOne s hs c hc'
      · simp only [List.cons_append, List.nil_append, lastKind, Piece.kind]
        exact hR2
    · simp only [hc]
      simpa using wellSep_fields fs o wrote k ho hfs' hk
  | .skip name fs, o, wrote, k, ho, hfs, hk => by
    obtain ⟨hname, hfs'⟩ : ValidWord name ∧ fs.WF := hfs
    rw [writeFields]
    by_cases hc : o.comments = true
    · have hml := ho.comments_need_multiline hc
      have hk' : k = .other := by simpa [StartOk, hml] using hk
      subst hk'
      simp only [hc, hml, if_true, List.cons_append, List.nil_append]
      obtain ⟨hR1, hR2⟩ := wellSep_fields fs o wrote .other ho hfs' (by simp [StartOk, hml])
      refine ⟨⟨ho.plusOne.current_blank, trivial, ?_, trivial, newline_valid,
        by simp [OkAfter, Piece.kind], hR1⟩, by simpa [lastKind, Piece.kind] using hR2⟩
      intro c hc'
      simp only [List.mem_cons, List.mem_append] at hc'
      rcases hc' with rfl | hc' | rfl | rfl | hc'
      · decide
      · exact not_newline_of_not_delim c (hname.2 c hc')
      · decide
      · decide
      · exact unreadable_no_newline c hc'
    · simp only [hc]
      simpa using wellSep_fields fs o wrote k ho hfs' hk
end

end Emboss.Text
