/-
The structure's backing store: writing a container back touches only its own bytes.
-/
import Emboss.Lemmas.ScalarWriteView
namespace Emboss.Scalar
open Emboss.Bits Emboss.Scalar.Spec

theorem storeAfter_length (store : List Nat) (p : Nat) (bytes' : List Nat)
    (h : p + bytes'.length ≤ store.length) : (storeAfter store p bytes').length = store.length := by
  unfold storeAfter
  simp only [List.length_append, List.length_take, List.length_drop]
  omega

theorem storeAfter_outside (store : List Nat) (p : Nat) (bytes' : List Nat)
    (h : p + bytes'.length ≤ store.length) (i : Nat) (hi : i < p ∨ p + bytes'.length ≤ i) :
    (storeAfter store p bytes')[i]? = store[i]? := by
  unfold storeAfter
  rcases hi with hi | hi
  · rw [List.append_assoc, List.getElem?_append_left (by simp only [List.length_take]; omega)]
    rw [List.getElem?_take]; simp [hi]
  · rw [List.getElem?_append_right (by simp only [List.length_append, List.length_take]; omega)]
    simp only [List.length_append, List.length_take, List.getElem?_drop]
    congr 1; omega

theorem storeAfter_container (store : List Nat) (p : Nat) (bytes' : List Nat)
    (h : p + bytes'.length ≤ store.length) :
    containerOf (storeAfter store p bytes') p bytes'.length = some bytes' := by
  unfold containerOf
  rw [storeAfter_length store p bytes' h, if_pos h]
  unfold storeAfter
  congr 1
  have hp : (List.take p store).length = p := by simp only [List.length_take]; omega
  rw [List.append_assoc, List.drop_append_of_le_length (by omega)]
  rw [show List.drop p (List.take p store) = [] by
    apply List.eq_nil_of_length_eq_zero; simp only [List.length_drop, List.length_take]; omega]
  simp

end Emboss.Scalar
