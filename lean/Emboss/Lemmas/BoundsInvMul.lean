/-
`*` maps arguments satisfying the invariant to a result satisfying it (and never raises).
-/
import Emboss.Lemmas.BoundsInvOps
namespace Emboss.Bounds
open ExtInt

theorem mulConstVar_ends {mn mx c v : ExtInt} {m : Nat} {a : AVal}
    (h : mulConstVar mn mx c m v = some a) : a.min = mn ∧ a.max = mx := by
  unfold mulConstVar at h
  split at h
  · cases h
  · split at h
    · cases h; exact ⟨rfl, rfl⟩
    · split at h
      · cases h
      · dsimp only at h
        split at h
        · cases h
        · cases h; exact ⟨rfl, rfl⟩

/-- the bounds of a returned product are the extrema of the four corner products -/
theorem multiplicative_ends {l r a : AVal} (h : multiplicative l r = some a) :
    a.min = eminL [emul l.max r.max, emul l.min r.max, emul l.max r.min, emul l.min r.min] ∧
    a.max = emaxL [emul l.max r.max, emul l.min r.max, emul l.max r.min, emul l.min r.min] := by
  unfold multiplicative at h
  split at h
  · split at h
    · cases h; exact ⟨rfl, rfl⟩
    · cases h
  · exact mulConstVar_ends h
  · exact mulConstVar_ends h
  · split at h
    · split at h
      · cases h
      · dsimp only at h
        split at h
        · cases h
        · cases h; exact ⟨rfl, rfl⟩
    · cases h

theorem emul_fin_inf {x z : Int} {e : ExtInt} (he : e.isInf = true) (h : emul (.fin x) e = .fin z) :
    x = 0 ∧ z = 0 := by
  cases e with
  | fin y => simp [ExtInt.isInf] at he
  | posInf =>
    rcases Int.lt_trichotomy x 0 with hx | hx | hx
    · rw [emul_comm, emul_posInf_neg hx] at h; cases h
    · subst hx; rw [emul_comm, emul_posInf_zero] at h; cases h; exact ⟨rfl, rfl⟩
    · rw [emul_comm, emul_posInf_pos hx] at h; cases h
  | negInf =>
    rcases Int.lt_trichotomy x 0 with hx | hx | hx
    · rw [emul_comm, emul_negInf_neg hx] at h; cases h
    · subst hx; rw [emul_comm, emul_negInf_zero] at h; cases h; exact ⟨rfl, rfl⟩
    · rw [emul_comm, emul_negInf_pos hx] at h; cases h

theorem emul_inf_inf {e1 e2 : ExtInt} {z : Int} (h1 : e1.isInf = true) (h2 : e2.isInf = true) :
    emul e1 e2 ≠ .fin z := by
  cases e1 <;> cases e2 <;> simp [ExtInt.isInf] at h1 h2 <;> simp [emul, esign]

theorem InvS.end_mem {a : AVal} (h : InvS a) {e : ExtInt} {x : Int}
    (he : e = a.min ∨ e = a.max) (hx : e = .fin x) : Gamma a x := by
  rcases he with rfl | rfl
  · exact h.min_mem hx
  · exact h.max_mem hx

/-- a finite corner product is the product of two described values -/
theorem corner_gamma {l r : AVal} (hl : InvS l) (hr : InvS r) {e1 e2 : ExtInt} {z : Int}
    (h1 : e1 = l.min ∨ e1 = l.max) (h2 : e2 = r.min ∨ e2 = r.max) (hz : emul e1 e2 = .fin z) :
    ∃ x y, Gamma l x ∧ Gamma r y ∧ z = x * y := by
  cases he1 : e1 with
  | fin x =>
    cases he2 : e2 with
    | fin y =>
      rw [he1, he2] at hz
      simp only [emul] at hz
      cases hz
      exact ⟨x, y, hl.end_mem h1 he1, hr.end_mem h2 he2, rfl⟩
    | posInf =>
      rw [he1, he2] at hz
      obtain ⟨rfl, rfl⟩ := emul_fin_inf rfl hz
      obtain ⟨y, gy⟩ := hr.one
      exact ⟨0, y, hl.end_mem h1 he1, gy, by simp⟩
    | negInf =>
      rw [he1, he2] at hz
      obtain ⟨rfl, rfl⟩ := emul_fin_inf rfl hz
      obtain ⟨y, gy⟩ := hr.one
      exact ⟨0, y, hl.end_mem h1 he1, gy, by simp⟩
  | posInf =>
    cases he2 : e2 with
    | fin y =>
      rw [he1, he2, emul_comm] at hz
      obtain ⟨rfl, rfl⟩ := emul_fin_inf rfl hz
      obtain ⟨x, gx⟩ := hl.one
      exact ⟨x, 0, gx, hr.end_mem h2 he2, by simp⟩
    | posInf => rw [he1, he2] at hz; exact absurd hz (emul_inf_inf rfl rfl)
    | negInf => rw [he1, he2] at hz; exact absurd hz (emul_inf_inf rfl rfl)
  | negInf =>
    cases he2 : e2 with
    | fin y =>
      rw [he1, he2, emul_comm] at hz
      obtain ⟨rfl, rfl⟩ := emul_fin_inf rfl hz
      obtain ⟨x, gx⟩ := hl.one
      exact ⟨x, 0, gx, hr.end_mem h2 he2, by simp⟩
    | posInf => rw [he1, he2] at hz; exact absurd hz (emul_inf_inf rfl rfl)
    | negInf => rw [he1, he2] at hz; exact absurd hz (emul_inf_inf rfl rfl)

/-- a finite member of the corner list is in γ of the product -/
theorem corner_list_gamma {l r a : AVal} (hl : InvS l) (hr : InvS r)
    (h : multiplicative l r = some a) {z : Int}
    (hz : ExtInt.fin z ∈ [emul l.max r.max, emul l.min r.max, emul l.max r.min, emul l.min r.min]) :
    Gamma a z := by
  simp only [List.mem_cons, List.not_mem_nil, or_false] at hz
  rcases hz with hz | hz | hz | hz
  · obtain ⟨x, y, gx, gy, rfl⟩ := corner_gamma hl hr (Or.inr rfl) (Or.inr rfl) hz.symm
    exact multiplicative_sound h gx gy
  · obtain ⟨x, y, gx, gy, rfl⟩ := corner_gamma hl hr (Or.inl rfl) (Or.inr rfl) hz.symm
    exact multiplicative_sound h gx gy
  · obtain ⟨x, y, gx, gy, rfl⟩ := corner_gamma hl hr (Or.inr rfl) (Or.inl rfl) hz.symm
    exact multiplicative_sound h gx gy
  · obtain ⟨x, y, gx, gy, rfl⟩ := corner_gamma hl hr (Or.inl rfl) (Or.inl rfl) hz.symm
    exact multiplicative_sound h gx gy

theorem mul_two_left {l r a : AVal} (h : multiplicative l r = some a) {x y1 y2 : Int}
    (gx : Gamma l x) (hx : x ≠ 0) (g1 : Gamma r y1) (g2 : Gamma r y2) (hlt : y1 < y2) :
    ∃ p1 p2 : Int, p1 < p2 ∧ LowOk a.min p1 ∧ HighOk a.max p2 := by
  have q1 := multiplicative_sound h gx g1
  have q2 := multiplicative_sound h gx g2
  rcases Int.lt_or_gt_of_ne hx with hneg | hpos
  · exact ⟨x * y2, x * y1, Int.mul_lt_mul_of_neg_left hlt hneg, q2.1, q1.2.1⟩
  · exact ⟨x * y1, x * y2, Int.mul_lt_mul_of_pos_left hlt hpos, q1.1, q2.2.1⟩

theorem mul_two_right {l r a : AVal} (h : multiplicative l r = some a) {x1 x2 y : Int}
    (g1 : Gamma l x1) (g2 : Gamma l x2) (hlt : x1 < x2) (gy : Gamma r y) (hy : y ≠ 0) :
    ∃ p1 p2 : Int, p1 < p2 ∧ LowOk a.min p1 ∧ HighOk a.max p2 := by
  have q1 := multiplicative_sound h g1 gy
  have q2 := multiplicative_sound h g2 gy
  rcases Int.lt_or_gt_of_ne hy with hneg | hpos
  · exact ⟨x2 * y, x1 * y, Int.mul_lt_mul_of_neg_right hlt hneg, q2.1, q1.2.1⟩
  · exact ⟨x1 * y, x2 * y, Int.mul_lt_mul_of_pos_right hlt hpos, q1.1, q2.2.1⟩

theorem emul_zero_left (e : ExtInt) : emul (.fin 0) e = .fin 0 := by
  cases e <;> simp [emul, esign]

theorem emul_zero_right (e : ExtInt) : emul e (.fin 0) = .fin 0 := by
  rw [emul_comm]; exact emul_zero_left e

theorem multiplicative_const (c d : Int) :
    multiplicative (constRange c) (constRange d) = some (constRange (c * d)) := by
  simp [multiplicative, constRange, emul, eminL, emaxL, emin2, emax2, ExtInt.toInt?]

/-- const × var -/
theorem mulConstVar_some {mn mx : ExtInt} {c v : Int} {m : Nat} (hm : 0 < m) :
    (c = 0 ∧ mulConstVar mn mx (.fin c) m (.fin v) = some ⟨mn, mx, .inf, .fin 0⟩) ∨
    (c ≠ 0 ∧ 0 < m * c.natAbs ∧
      mulConstVar mn mx (.fin c) m (.fin v) =
        some ⟨mn, mx, .fin (m * c.natAbs), .fin (v * c % ((m * c.natAbs : Nat) : Int))⟩) := by
  by_cases hc : c = 0
  · left; subst hc; simp [mulConstVar, ExtInt.toInt?]
  · right
    have h1 : 0 < c.natAbs := Int.natAbs_pos.mpr hc
    have h2 : 0 < m * c.natAbs := Nat.mul_pos hm h1
    have h3 : m * c.natAbs ≠ 0 := by omega
    refine ⟨hc, h2, ?_⟩
    simp [mulConstVar, ExtInt.toInt?, hc, h3]

theorem mulSide_some {m : Nat} {v : Int} (hm : 0 < m) (hv : 0 ≤ v) :
    ∃ z nz, mulSide m (.fin v) = some (z, nz, v) ∧ 0 < z ∧ 0 < nz := by
  obtain ⟨z, hz, zpos, zdvd⟩ := gcdM_fin_left hm (.fin v.toNat)
  have hnv : ¬ v < 0 := by omega
  have hz0 : z ≠ 0 := by omega
  have hmod : m % z = 0 := Nat.mod_eq_zero_of_dvd zdvd
  refine ⟨z, m / z, ?_, zpos, Nat.div_pos (Nat.le_of_dvd hm zdvd) zpos⟩
  simp [mulSide, mvAsModulus, hnv, hz, hz0, hmod, ExtInt.toInt?]

/-- what `multiplicative` returns on arguments satisfying the invariant -/
theorem multiplicative_some {l r : AVal} (hl : InvS l) (hr : InvS r) :
    ∃ a, multiplicative l r = some a ∧
      (a.modulus = .inf → ∃ c, a = constRange c) ∧
      (∀ k, a.modulus = .fin k → 0 < k ∧ ∃ v, a.mv = .fin v ∧ 0 ≤ v ∧ v < (k : Int)) ∧
      (∀ k, a.modulus = .fin k →
        ∃ p1 p2 : Int, p1 < p2 ∧ LowOk a.min p1 ∧ HighOk a.max p2) := by
  rcases hl with ⟨c, rfl⟩ | ⟨lm, lv, hlv⟩
  · rcases hr with ⟨d, rfl⟩ | ⟨rm, rv, hrv⟩
    · refine ⟨_, multiplicative_const c d, fun _ => ⟨_, rfl⟩, ?_, ?_⟩ <;>
        (intro k hk; simp [constRange] at hk)
    · -- const × var
      have hred : multiplicative (constRange c) r =
          mulConstVar
            (eminL [emul (.fin c) r.max, emul (.fin c) r.max, emul (.fin c) r.min, emul (.fin c) r.min])
            (emaxL [emul (.fin c) r.max, emul (.fin c) r.max, emul (.fin c) r.min, emul (.fin c) r.min])
            (.fin c) rm (.fin rv) := by
        simp [multiplicative, constRange, hrv.hm, hrv.hv]
      rcases mulConstVar_some (mn := eminL [emul (.fin c) r.max, emul (.fin c) r.max, emul (.fin c) r.min, emul (.fin c) r.min])
          (mx := emaxL [emul (.fin c) r.max, emul (.fin c) r.max, emul (.fin c) r.min, emul (.fin c) r.min])
          (c := c) (v := rv) hrv.mpos with ⟨hc, h⟩ | ⟨hc, hM, h⟩
      · subst hc
        refine ⟨_, hred.trans h, ?_, ?_, ?_⟩
        · intro _
          exact ⟨0, by simp [constRange, emul_zero_left, eminL, emaxL, emin2, emax2]⟩
        · intro k hk; cases hk
        · intro k hk; cases hk
      · have hmul := hred.trans h
        refine ⟨_, hmul, ?_, ?_, ?_⟩
        · intro hk; cases hk
        · intro k hk
          cases hk
          exact ⟨hM, _, rfl, (emod_canon _ hM).1, (emod_canon _ hM).2⟩
        · intro k _
          obtain ⟨y1, y2, hlt, g1, g2⟩ := hrv.two
          exact mul_two_left hmul (gamma_const c) hc g1 g2 hlt
  · rcases hr with ⟨d, rfl⟩ | ⟨rm, rv, hrv⟩
    · -- var × const
      have hred : multiplicative l (constRange d) =
          mulConstVar
            (eminL [emul l.max (.fin d), emul l.min (.fin d), emul l.max (.fin d), emul l.min (.fin d)])
            (emaxL [emul l.max (.fin d), emul l.min (.fin d), emul l.max (.fin d), emul l.min (.fin d)])
            (.fin d) lm (.fin lv) := by
        simp [multiplicative, constRange, hlv.hm, hlv.hv]
      rcases mulConstVar_some (mn := eminL [emul l.max (.fin d), emul l.min (.fin d), emul l.max (.fin d), emul l.min (.fin d)])
          (mx := emaxL [emul l.max (.fin d), emul l.min (.fin d), emul l.max (.fin d), emul l.min (.fin d)])
          (c := d) (v := lv) hlv.mpos with ⟨hc, h⟩ | ⟨hc, hM, h⟩
      · subst hc
        refine ⟨_, hred.trans h, ?_, ?_, ?_⟩
        · intro _
          exact ⟨0, by simp [constRange, emul_zero_right, eminL, emaxL, emin2, emax2]⟩
        · intro k hk; cases hk
        · intro k hk; cases hk
      · have hmul := hred.trans h
        refine ⟨_, hmul, ?_, ?_, ?_⟩
        · intro hk; cases hk
        · intro k hk
          cases hk
          exact ⟨hM, _, rfl, (emod_canon _ hM).1, (emod_canon _ hM).2⟩
        · intro k _
          obtain ⟨x1, x2, hlt, g1, g2⟩ := hlv.two
          exact mul_two_right hmul g1 g2 hlt (gamma_const d) hc
    · -- var × var
      obtain ⟨lz, lnz, hls, lzpos, lnzpos⟩ := mulSide_some hlv.mpos hlv.v0
      obtain ⟨rz, rnz, hrs, rzpos, rnzpos⟩ := mulSide_some hrv.mpos hrv.v0
      obtain ⟨g, hg, gpos, _⟩ := gcdM_fin_left lnzpos (.fin rnz)
      have hM : 0 < g * (lz * rz) := Nat.mul_pos gpos (Nat.mul_pos lzpos rzpos)
      have hM0 : g * (lz * rz) ≠ 0 := by omega
      have hmul : multiplicative l r = some
          ⟨eminL [emul l.max r.max, emul l.min r.max, emul l.max r.min, emul l.min r.min],
           emaxL [emul l.max r.max, emul l.min r.max, emul l.max r.min, emul l.min r.min],
           .fin (g * (lz * rz)), .fin (lv * rv % ((g * (lz * rz) : Nat) : Int))⟩ := by
        simp [multiplicative, hlv.hm, hrv.hm, hlv.hv, hrv.hv, hls, hrs, hg, hM0]
      refine ⟨_, hmul, ?_, ?_, ?_⟩
      · intro hk; cases hk
      · intro k hk
        cases hk
        exact ⟨hM, _, rfl, (emod_canon _ hM).1, (emod_canon _ hM).2⟩
      · intro k _
        obtain ⟨x1, x2, hltx, gx1, gx2⟩ := hlv.two
        obtain ⟨y1, y2, hlty, gy1, gy2⟩ := hrv.two
        by_cases hx : x1 = 0
        · exact mul_two_left hmul gx2 (by omega) gy1 gy2 hlty
        · exact mul_two_left hmul gx1 hx gy1 gy2 hlty

theorem multiplicative_inv {l r : AVal} (hl : InvS l) (hr : InvS r) :
    ∃ a, multiplicative l r = some a ∧ InvS a := by
  obtain ⟨a, ha, hinf, hfin, htwo⟩ := multiplicative_some hl hr
  refine ⟨a, ha, InvS.of_parts hinf hfin ?_ ?_ htwo⟩
  · intro x hx
    rw [(multiplicative_ends ha).1] at hx
    exact (corner_list_gamma hl hr ha (eminL_mem hx)).2.2
  · intro x hx
    rw [(multiplicative_ends ha).2] at hx
    exact (corner_list_gamma hl hr ha (emaxL_mem hx)).2.2

end Emboss.Bounds
