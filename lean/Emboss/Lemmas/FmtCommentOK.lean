/-
C11 helper lemmas, part 19: the kernel evaluation of `tableComment` over the regenerated
registry (a file of its own: re-elaborated whenever Generated/FmtTable.lean changes).
-/
import Emboss.Lemmas.FmtRelC5
namespace Emboss.Fmt
open Emboss.Generated.FmtTable

/-- Statement and meaning: `C11_table_comment` in Properties/C11.lean. -/
theorem table_comment : tableComment formatters = true := by decide +kernel

end Emboss.Fmt
