/-
Node-level soundness (types of nodes, `constant_value`) assembled from the operator
lemmas, and the whole-expression induction.
-/
import Emboss.Lemmas.BoundsOps
namespace Emboss.Bounds
open ExtInt

theorem applyBin_eq_evalBin (op : BinOp) (a b : CVal) : applyBin op a b = evalBin op a b := by
  cases op <;> cases a <;> cases b <;> simp [applyBin, evalBin] <;> grind

/-- what a `constant_value` result promises about a concrete value -/
def CvOk (c : CV) (v : CVal) : Prop := ∀ x, c = .val x → v = x

theorem evalBin_bool {op : BinOp} (hop : isArith op = false) {a b v : CVal}
    (h : evalBin op a b = some v) : ∃ t, v = .bool t := by
  cases op <;> simp [isArith] at hop <;> cases a <;> cases b <;> simp [evalBin] at h <;>
    exact ⟨_, h.symm⟩

theorem GammaT_int_inv {a : AVal} {v : CVal} (h : GammaT (.int a) v) : ∃ x, v = .int x ∧ Gamma a x := by
  cases v <;> simp_all [GammaT]

theorem absArith_sound {op : BinOp} {a b c : AVal} {x y : Int} {v : CVal}
    (hx : Gamma a x) (hy : Gamma b y) (h : absArith op a b = some c)
    (he : evalBin op (.int x) (.int y) = some v) : ∃ z, v = .int z ∧ Gamma c z := by
  cases op <;> simp only [absArith] at h <;> try cases h
  · simp only [evalBin, Option.some.injEq] at he; subst he
    exact ⟨_, rfl, additive_sound h hx hy⟩
  · simp only [evalBin, Option.some.injEq] at he; subst he
    exact ⟨_, rfl, additive_sound h hx hy⟩
  · simp only [evalBin, Option.some.injEq] at he; subst he
    exact ⟨_, rfl, multiplicative_sound h hx hy⟩

theorem absCmp_sound {op : BinOp} (hop : isArith op = false) {ty : AType} {cl cr : CV}
    {vl vr v : CVal} (hcl : CvOk cl vl) (hcr : CvOk cr vr)
    (h : absCmp op cl cr = some ty) (he : evalBin op vl vr = some v) : GammaT ty v := by
  obtain ⟨t, rfl⟩ := evalBin_bool hop he
  unfold absCmp at h
  split at h
  · cases h
  · cases h; simp [GammaT]
  · rename_i x
    have := hcl x rfl; subst this
    split at h
    · cases h
    · cases h; simp [GammaT]
    · rename_i y
      have := hcr y rfl; subst this
      rw [applyBin_eq_evalBin, he] at h
      simp only [Option.some.injEq] at h
      subst h
      simp [GammaT]

theorem absBin_sound {op : BinOp} {l r ty : AType} {cl cr : CV} {vl vr v : CVal}
    (hl : GammaT l vl) (hr : GammaT r vr) (hcl : CvOk cl vl) (hcr : CvOk cr vr)
    (h : absBin op l r cl cr = some ty) (he : evalBin op vl vr = some v) : GammaT ty v := by
  unfold absBin at h
  split at h
  · split at h
    · obtain ⟨x, rfl, hx⟩ := GammaT_int_inv hl
      obtain ⟨y, rfl, hy⟩ := GammaT_int_inv hr
      simp only [Option.map_eq_some_iff] at h
      obtain ⟨c, hc, rfl⟩ := h
      obtain ⟨z, rfl, hz⟩ := absArith_sound hx hy hc he
      exact hz
    · cases h
  · rename_i hop
    exact absCmp_sound (by simpa using hop) hcl hcr h he

theorem cvBin_sound {op : BinOp} {cl cr : CV} {vl vr v : CVal} {x : CVal}
    (hcl : CvOk cl vl) (hcr : CvOk cr vr)
    (h : cvBin op cl cr = .val x) (he : evalBin op vl vr = some v) : v = x := by
  unfold cvBin at h
  split at h
  · cases h
  · split at h
    · -- and
      cases vl <;> cases vr <;> simp [evalBin] at he
      subst he
      unfold cvAnd at h
      split at h
      · rename_i hf
        cases h
        rcases hf with hf | hf
        · have := hcl _ hf; simp_all
        · have := hcr _ hf; simp_all
      · split at h
        · cases h
        · cases h
          cases cl <;> cases cr <;> simp_all
          have := hcl _ rfl; have := hcr _ rfl
          subst_vars
          simp_all
    · cases vl <;> cases vr <;> simp [evalBin] at he
      subst he
      unfold cvOr at h
      split at h
      · rename_i hf
        cases h
        rcases hf with hf | hf
        · have := hcl _ hf; simp_all
        · have := hcr _ hf; simp_all
      · split at h
        · cases h
        · cases h
          cases cl <;> cases cr <;> simp_all
          have := hcl _ rfl; have := hcr _ rfl
          subst_vars
          simp_all
    · unfold cvTable at h
      split at h
      · rename_i p q
        have := hcl _ rfl; have := hcr _ rfl
        subst_vars
        rw [applyBin_eq_evalBin, he] at h
        simpa using h
      · cases h

theorem absChoice_sound {c t f ty : AType} {b : Bool} {x y : CVal}
    (hc : GammaT c (.bool b)) (ht : GammaT t x) (hf : GammaT f y)
    (h : absChoice c t f = some ty) : GammaT ty (if b then x else y) := by
  unfold absChoice at h
  split at h
  · rename_i b'
    cases h
    have : b = b' := hc b' rfl
    subst this
    cases b <;> simpa
  · split at h
    · rename_i p q
      obtain ⟨x', rfl, hx⟩ := GammaT_int_inv ht
      obtain ⟨y', rfl, hy⟩ := GammaT_int_inv hf
      simp only [Option.map_eq_some_iff] at h
      obtain ⟨r, hr, rfl⟩ := h
      cases b
      · exact choiceHull_sound hr (Or.inr hy)
      · exact choiceHull_sound hr (Or.inl hx)
    · cases h
      cases x <;> cases y <;> simp_all [GammaT]
      cases b <;> simp [GammaT]
    · cases h
      cases x <;> cases y <;> simp_all [GammaT]
      cases b <;> simp [GammaT]
    · cases h
  · cases h

theorem cvChoice_sound {cc ct cf : CV} {b : Bool} {x y z : CVal}
    (hc : CvOk cc (.bool b)) (ht : CvOk ct x) (hf : CvOk cf y)
    (h : cvChoice cc ct cf = .val z) : (if b then x else y) = z := by
  unfold cvChoice at h
  split at h <;> try cases h
  · rename_i b' t f _ _ _
    have := hc _ rfl
    simp only [CVal.bool.injEq] at this
    subst this
    cases b
    · simp only [Bool.false_eq_true, if_false] at h ⊢; exact hf _ h
    · simp only [if_true] at h ⊢; exact ht _ h

theorem listMax_isMax : ∀ {l : List Int} {m : Int}, listMax l = some m → IsMaxOf l m
  | [], m, h => by simp [listMax] at h
  | [a], m, h => by
    simp [listMax] at h; subst h
    exact ⟨by simp, by simp⟩
  | a :: b :: r, m, h => by
    simp only [listMax, Option.map_eq_some_iff] at h
    obtain ⟨m', hm', rfl⟩ := h
    obtain ⟨h1, h2⟩ := listMax_isMax hm'
    constructor
    · split
      · exact List.mem_cons_of_mem _ h1
      · exact List.mem_cons_self
    · intro x hx
      rcases List.mem_cons.mp hx with rfl | hx'
      · split <;> omega
      · have := h2 x hx'
        split <;> omega

theorem foldl_max_spec (l : List Int) (a : Int) :
    IsMaxOf (a :: l) (l.foldl (fun m x => if m ≤ x then x else m) a) := by
  induction l generalizing a with
  | nil => exact ⟨by simp, by simp⟩
  | cons b r ih =>
    simp only [List.foldl_cons]
    obtain ⟨h1, h2⟩ := ih (if a ≤ b then b else a)
    constructor
    · rcases List.mem_cons.mp h1 with h | h
      · rw [h]; split
        · exact List.mem_cons_of_mem _ List.mem_cons_self
        · exact List.mem_cons_self
      · exact List.mem_cons_of_mem _ (List.mem_cons_of_mem _ h)
    · intro x hx
      have hm := h2 (if a ≤ b then b else a) List.mem_cons_self
      have ha : a ≤ (if a ≤ b then b else a) := by split <;> omega
      have hb : b ≤ (if a ≤ b then b else a) := by split <;> omega
      rcases List.mem_cons.mp hx with rfl | hx'
      · omega
      · rcases List.mem_cons.mp hx' with rfl | hx''
        · omega
        · exact h2 x (List.mem_cons_of_mem _ hx'')

theorem maxInts_isMax {l : List Int} {m : Int} (h : maxInts l = some m) : IsMaxOf l m := by
  cases l with
  | nil => simp [maxInts] at h
  | cons a r =>
    simp only [maxInts, Option.some.injEq] at h
    subst h
    exact foldl_max_spec r a

theorem isMax_unique {l : List Int} {a b : Int} (ha : IsMaxOf l a) (hb : IsMaxOf l b) : a = b := by
  have := ha.2 b hb.1; have := hb.2 a ha.1; omega

theorem atypeInts_gamma : ∀ {tys : List AType} {vs : List CVal} {avs : List AVal} {l : List Int},
    Forall2 GammaT tys vs → atypeInts tys = some avs → valsInts vs = some l → Forall2 Gamma avs l
  | _, _, avs, l, .nil, h1, h2 => by
    simp [atypeInts] at h1; simp [valsInts] at h2; subst h1 h2; exact .nil
  | _, _, avs, l, .cons (a := ty) (b := v) hg rest, h1, h2 => by
    cases ty with
    | int a0 =>
      cases v with
      | int v0 =>
        simp only [GammaT] at hg
        simp only [atypeInts, Option.map_eq_some_iff] at h1
        simp only [valsInts, Option.map_eq_some_iff] at h2
        obtain ⟨avs', ha, rfl⟩ := h1
        obtain ⟨l', hl, rfl⟩ := h2
        exact .cons hg (atypeInts_gamma rest ha hl)
      | bool _ => simp [GammaT] at hg
      | enum _ => simp [GammaT] at hg
    | bool _ => simp [atypeInts] at h1
    | enum _ => simp [atypeInts] at h1

theorem absMax_sound {tys : List AType} {vs : List CVal} {ty : AType} {l : List Int} {m : Int}
    (hg : Forall2 GammaT tys vs) (h : absMax tys = some ty) (hl : valsInts vs = some l)
    (hm : listMax l = some m) : GammaT ty (.int m) := by
  unfold absMax at h
  split at h
  · cases h
  · rename_i avs ha
    simp only [Option.map_eq_some_iff] at h
    obtain ⟨a, hmax, rfl⟩ := h
    exact maxFn_sound hmax (atypeInts_gamma hg ha hl) (listMax_isMax hm)

theorem cvInts_vals : ∀ {cvs : List CV} {vs : List CVal} {l l' : List Int},
    Forall2 CvOk cvs vs → cvInts cvs = some l' → valsInts vs = some l → l' = l
  | _, _, l, l', .nil, h1, h2 => by
    simp [cvInts] at h1; simp [valsInts] at h2; subst h1 h2; rfl
  | _, _, l, l', .cons (a := c) (b := v) hg rest, h1, h2 => by
    cases c with
    | crash => simp [cvInts] at h1
    | unknown => simp [cvInts] at h1
    | val x =>
      have := hg _ rfl; subst this
      cases v with
      | int n =>
        simp only [valsInts, cvInts, Option.map_eq_some_iff] at h2 h1
        obtain ⟨a, ha, rfl⟩ := h1
        obtain ⟨b, hb, rfl⟩ := h2
        rw [cvInts_vals rest ha hb]
      | bool _ => simp [cvInts] at h1
      | enum _ => simp [cvInts] at h1

theorem cvMax_sound {cvs : List CV} {vs : List CVal} {l : List Int} {m : Int} {x : CVal}
    (hg : Forall2 CvOk cvs vs) (h : cvMax cvs = .val x) (hl : valsInts vs = some l)
    (hm : listMax l = some m) : CVal.int m = x := by
  unfold cvMax at h
  split at h
  · cases h
  · split at h
    · cases h
    · split at h
      · rename_i l' hl'
        split at h
        · rename_i m' hm'
          cases h
          have := cvInts_vals hg hl' hl
          subst this
          rw [isMax_unique (listMax_isMax hm) (maxInts_isMax hm')]
        · cases h
      · cases h
end Emboss.Bounds
