/-
Soundness and safety of the shift-reduce driver over a validated table: the stack
invariant (`Linked`: adjacent stack states are connected by checked transitions, trees are
parse trees, the yields of the stack are the consumed input) is preserved by `step`, rules
out every `internal` outcome, and makes an accepted tree a derivation of the input.
-/
import Emboss.Lemmas.Lr1Basic
namespace Emboss.Lr1

variable {G : Grammar} {A : Automaton} {C : Cert}

theorem yieldL_append (a b : List Tree) : Tree.yieldL (a ++ b) = Tree.yieldL a ++ Tree.yieldL b := by
  induction a with
  | nil => simp [Tree.yieldL]
  | cons x xs ih => simp [Tree.yieldL, ih]

def Linked (G : Grammar) (A : Automaton) (C : Cert) : List (Nat × Tree) → Prop
  | [] => True
  | (s, t) :: rest =>
    TargetOK (listMem C) A C (topState rest) t.root s ∧ ParseTree G t ∧ Linked G A C rest

theorem Linked.drop : ∀ {st : List (Nat × Tree)} (n : Nat), Linked G A C st → Linked G A C (st.drop n)
  | _, 0, h => by simpa using h
  | [], _ + 1, _ => by simp [Linked]
  | _ :: rest, n + 1, h => by
    simp only [List.drop_succ_cons]
    exact Linked.drop n h.2.2

theorem Linked.trees : ∀ {st : List (Nat × Tree)}, Linked G A C st → ∀ e ∈ st, ParseTree G e.2
  | [], _, e, he => by cases he
  | (s, t) :: rest, h, e, he => by
    rcases List.mem_cons.mp he with rfl | he
    · exact h.2.1
    · exact Linked.trees h.2.2 e he

/-- An item with the dot after `d` symbols sits on top of `d` stack entries whose roots are
those symbols, and its dot-0 version is in the state below them. -/
theorem chain (hv : Valid G A C) : ∀ (d : Nat) (st : List (Nat × Tree)), Linked G A C st →
    ∀ (pi la : Nat) (p : Rule), (⟨pi, d, la⟩ : Item) ∈ C.itemsOf (topState st) → C.ruleAt pi = some p →
      d ≤ st.length ∧ ((st.take d).map (fun e => e.2.root)).reverse = p.rhs.take d ∧
      (⟨pi, 0, la⟩ : Item) ∈ C.itemsOf (topState (st.drop d))
  | 0, st, _, pi, la, p, hit, _ => by simpa using hit
  | d + 1, [], _, pi, la, p, hit, _ => by
    have := hv.start.2 _ hit
    simp at this
  | d + 1, (s, t) :: rest, hl, pi, la, p, hit, hp => by
    have hk := (hl.1.2.2 _ hit).2 (by simp)
    obtain ⟨⟨p', hp', hx⟩, hm⟩ := hk
    have : p' = p := by
      have : C.ruleAt pi = some p' := hp'
      rw [hp] at this; cases this; rfl
    subst this
    simp only [Nat.add_sub_cancel] at hx hm
    have ih := chain hv d rest hl.2.2 pi la p' hm hp
    refine ⟨by simp; exact ih.1, ?_, by simpa using ih.2.2⟩
    simp only [List.take_succ_cons, List.map_cons, List.reverse_cons, ih.2.1]
    rw [List.take_add_one, hx]; rfl

/-- A dot-0 item of a user production is introduced by some item of the same state. -/
theorem justOrder_mem : ∀ {seen : List Nat} {l : List Item}, JustOrder C seen l →
    ∀ it ∈ l, it.dot = 0 → it.pi ≠ C.seedIdx →
      ∃ p, C.ruleAt it.pi = some p ∧ (p.lhs ∈ seen ∨ ∃ jt ∈ l, p.lhs ∈ C.nextSyms jt)
  | _, [], _, it, h, _, _ => by cases h
  | seen, x :: rest, hj, it, h, h0, hs => by
    rcases List.mem_cons.mp h with rfl | h
    · rcases hj.1 h0 with e | ⟨p, hp, hm⟩
      · exact absurd e hs
      · exact ⟨p, hp, Or.inl hm⟩
    · obtain ⟨p, hp, hm⟩ := justOrder_mem hj.2 it h h0 hs
      refine ⟨p, hp, ?_⟩
      rcases hm with hm | ⟨jt, hjt, hm⟩
      · rcases List.mem_append.mp hm with hm | hm
        · exact Or.inr ⟨x, List.mem_cons_self, hm⟩
        · exact Or.inl hm
      · exact Or.inr ⟨jt, List.mem_cons_of_mem _ hjt, hm⟩

theorem goto_defined (hv : Valid G A C) {s pi la : Nat} {p : Rule}
    (hit : (⟨pi, 0, la⟩ : Item) ∈ C.itemsOf s) (hpi : pi < C.seedIdx) (hp : C.ruleAt pi = some p) :
    ∃ s', A.gotoOf s p.lhs = some s' ∧ TargetOK (listMem C) A C s p.lhs s' := by
  have hs := Cert.lt_of_mem hit
  obtain ⟨p', hp', hm⟩ := justOrder_mem (hv.order s hs) _ hit rfl (Nat.ne_of_lt hpi)
  have : p' = p := by
    have h1 : C.ruleAt pi = some p' := hp'
    rw [hp] at h1; cases h1; rfl
  subst this
  rcases hm with hm | ⟨jt, hjt, hm⟩
  · cases hm
  · have ht := (hv.trans s hs jt hjt p'.lhs hm).1 (hv.isNT_lhs (hv.ruleAt_mem hp))
    obtain ⟨s', hs', _⟩ := ht
    have hs'' : A.gotoOf s p'.lhs = some s' := hs'
    refine ⟨s', hs'', ?_⟩
    obtain ⟨hlt, hmem⟩ := Automaton.gotoOf_mem hs''
    exact hv.kernel.2 s hlt _ hmem

def Inv (G : Grammar) (A : Automaton) (C : Cert) (w : List Token) (c : Config) : Prop :=
  Linked G A C c.stack ∧ Tree.yieldL ((c.stack.map (·.2)).reverse) = w.take c.cursor

def StepPost (G : Grammar) (A : Automaton) (C : Cert) (w : List Token) (c : Config) : StepOut → Prop
  | .next c' => Inv G A C w c' ∧ c.cursor ≤ c'.cursor
  | .done (.accept t) =>
    ParseTree G t ∧ t.root = G.start ∧ w.length ≤ c.cursor ∧ t.yield = w.take c.cursor
  | .done (.internal _) => False
  | .done _ => True

theorem row_present (hv : Valid G A C) {st : List (Nat × Tree)} (hl : Linked G A C st)
    (hs : A.strict = true) : (A.row (topState st)).isSome = true := by
  cases st with
  | nil => exact hv.wf.2.2.2.2.2.2.2.2.2.2.2 hs
  | cons e rest => obtain ⟨s, t⟩ := e; exact hl.1.2.1 hs

theorem step_post (hv : Valid G A C) (w : List Token) (c : Config) (hi : Inv G A C w c) :
    StepPost G A C w c (step A w c) := by
  obtain ⟨hl, hy⟩ := hi
  unfold step
  simp only []
  cases hact : nextAction A w (topState c.stack) c.cursor with
  | shift s' =>
    obtain ⟨hcl, he⟩ := nextAction_nonerror hact rfl
    obtain ⟨hlt, r, hr, hmem⟩ := Automaton.entry_mem he
    have hj := hv.actJust _ hlt r hr _ hmem
    have hk := hv.kernel.1 _ hlt r hr _ hmem s' rfl
    cases hw : w[c.cursor]? with
    | none =>
      exfalso
      have : lookahead A w c.cursor = A.eoi := by simp [lookahead, hw]
      exact hj.2 (by rw [this, hv.eoi_eq])
    | some t =>
      have hla : lookahead A w c.cursor = t.sym := by simp [lookahead, hw]
      simp only [StepPost, Inv]
      refine ⟨⟨⟨?_, ?_, hl⟩, ?_⟩, Nat.le_succ _⟩
      · rw [hla] at hk; exact hk
      · refine ParseTree.leaf t ?_
        rw [← hv.isNT, ← hla]; exact hj.1
      · simp only [List.map_cons, List.reverse_cons, yieldL_append, hy, Tree.yieldL, Tree.yield]
        rw [List.take_add_one, hw]; simp
  | accept =>
    obtain ⟨hcl, he⟩ := nextAction_nonerror hact rfl
    obtain ⟨hlt, r, hr, hmem⟩ := Automaton.entry_mem he
    have hj := (hv.actJust _ hlt r hr _ hmem).2
    obtain ⟨hla, hit⟩ := hj
    have hc := chain hv 1 c.stack hl _ _ _ hit hv.ruleAt_seed
    obtain ⟨hlen, hroots, hbelow⟩ := hc
    match hst : c.stack with
    | [] => rw [hst] at hlen; simp at hlen
    | [(s, t)] =>
      have hla' : lookahead A w c.cursor = A.eoi := by rw [hv.eoi_eq]; exact hla
      simp only [if_pos hla', StepPost]
      rw [hst] at hroots hy hl
      refine ⟨hl.2.1, ?_, length_le_of_eoi hcl hla', ?_⟩
      · simpa [Grammar.seed] using hroots
      · simpa [Tree.yieldL] using hy
    | (s, t) :: (s2, t2) :: rest =>
      exfalso
      rw [hst] at hbelow hl
      have := (hl.2.2.1.2.2 _ hbelow).1 rfl
      exact this rfl
  | reduce pi =>
    obtain ⟨hcl, he⟩ := nextAction_nonerror hact rfl
    obtain ⟨hlt, r, hr, hmem⟩ := Automaton.entry_mem he
    obtain ⟨hpi, p, hp, hit⟩ := (hv.actJust _ hlt r hr _ hmem).2
    have hp' : C.ruleAt pi = some p := hp
    obtain ⟨hpm, hAp⟩ := hv.ruleAt_user hpi hp'
    obtain ⟨hlen, hroots, hbelow⟩ := chain hv _ c.stack hl _ _ _ hit hp'
    obtain ⟨s', hg, htgt⟩ := goto_defined hv hbelow hpi hp'
    simp only [hAp, hlen, if_true, hg, StepPost, Inv]
    refine ⟨⟨⟨htgt, ?_, hl.drop _⟩, ?_⟩, Nat.le_refl _⟩
    · refine ParseTree.node p _ hpm ?_ ?_
      · intro t ht
        simp only [List.mem_reverse, List.mem_map] at ht
        obtain ⟨e, he, rfl⟩ := ht
        exact hl.trees e (List.mem_of_mem_take he)
      · rw [List.take_length] at hroots
        refine Eq.trans ?_ hroots
        rw [List.map_reverse, List.map_map]; rfl
    · simp only [List.map_cons, List.reverse_cons, yieldL_append, Tree.yieldL, Tree.yield,
        List.append_nil]
      rw [← hy, ← yieldL_append, ← List.reverse_append, ← List.map_append, List.take_append_drop]
  | error code =>
    cases hrow : A.row (topState c.stack) with
    | some r => simp [StepPost]
    | none =>
      cases hs : A.strict with
      | false => simp [StepPost]
      | true =>
        have := row_present hv hl hs
        rw [hrow] at this; cases this

end Emboss.Lr1

namespace Emboss.Lr1
variable {G : Grammar} {A : Automaton} {C : Cert}

theorem inv_init (w : List Token) : Inv G A C w init := by
  simp [Inv, init, Linked, Tree.yieldL]

theorem runFrom_post (hv : Valid G A C) (w : List Token) : ∀ (f : Nat) (c : Config), Inv G A C w c →
    (∀ m, runFrom A w f c ≠ .internal m) ∧
    (∀ t, runFrom A w f c = .accept t → ParseTree G t ∧ t.root = G.start ∧
      ∃ k, w.length ≤ k ∧ t.yield = w.take k)
  | 0, c, _ => by simp [runFrom]
  | f + 1, c, hi => by
    have hp := step_post hv w c hi
    cases hs : step A w c with
    | next c' =>
      rw [hs] at hp
      simp only [runFrom, hs]
      exact runFrom_post hv w f c' hp.1
    | done r =>
      rw [hs] at hp
      simp only [runFrom, hs]
      cases r with
      | accept t =>
        refine ⟨(by intro m h; cases h), ?_⟩
        intro t' h; cases h
        exact ⟨hp.1, hp.2.1, c.cursor, hp.2.2.1, hp.2.2.2⟩
      | internal m => exact absurd hp (by simp [StepPost])
      | error _ _ _ _ => exact ⟨(by intro m h; cases h), (by intro t h; cases h)⟩
      | outOfFuel => exact ⟨(by intro m h; cases h), (by intro t h; cases h)⟩

end Emboss.Lr1
