/-
`checkLoop` (first-seen dictionary, as the back end is written) decides exactly `clean`
(all pairs of declarations of a scope are compatible).
-/
import Emboss.Model.NamesCheck
import Emboss.Lemmas.Names
namespace Emboss.Names

theorem compatible_of_ident_ne (a b : Decl) (h : a.ident ≠ b.ident) : compatible a b = true := by
  simp [compatible, h]

/-- Two declarations compatible with the first declaration of their identifier are compatible
with each other (they are in its overload set). -/
theorem compatible_trans_ident (e d x : Decl) (hed : compatible e d = true) (hi : e.ident = d.ident)
    (hex : compatible e x = true) : compatible d x = true := by
  by_cases hx : d.ident = x.ident
  · have hex' : e.ident = x.ident := hi.trans hx
    unfold compatible at *
    cases he : e.group <;> cases hd : d.group <;> cases hxg : x.group <;>
      simp_all
  · exact compatible_of_ident_ne _ _ hx

theorem checkLoop_iff (ds : List Decl) : ∀ seen : List Decl,
    seen.Pairwise (fun a b => a.ident ≠ b.ident) →
    (checkLoop seen ds = true ↔
      ds.Pairwise (fun a b => compatible a b = true) ∧ ∀ e ∈ seen, ∀ x ∈ ds, compatible e x = true) := by
  induction ds with
  | nil => intro seen _; simp [checkLoop]
  | cons d ds ih =>
    intro seen hs
    unfold checkLoop
    cases hf : seen.find? (fun e => e.ident == d.ident) with
    | none =>
      have hne : ∀ e ∈ seen, e.ident ≠ d.ident := by
        intro e he
        have := List.find?_eq_none.mp hf e he
        simpa using this
      have hs' : (seen ++ [d]).Pairwise (fun a b => a.ident ≠ b.ident) := by
        rw [List.pairwise_append]
        refine ⟨hs, List.pairwise_singleton _ _, ?_⟩
        intro a ha b hb
        rw [List.mem_singleton] at hb
        subst hb
        exact hne a ha
      simp only []
      rw [ih _ hs', List.pairwise_cons]
      constructor
      · rintro ⟨hp, hall⟩
        refine ⟨⟨fun x hx => hall d (by simp) x hx, hp⟩, ?_⟩
        intro e he x hx
        rcases List.mem_cons.mp hx with rfl | hx'
        · exact compatible_of_ident_ne _ _ (hne e he)
        · exact hall e (List.mem_append_left _ he) x hx'
      · rintro ⟨⟨hd, hp⟩, hall⟩
        refine ⟨hp, ?_⟩
        intro e he x hx
        rcases List.mem_append.mp he with he' | he'
        · exact hall e he' x (List.mem_cons_of_mem _ hx)
        · rw [List.mem_singleton] at he'
          subst he'
          exact hd x hx
    | some e =>
      have hem : e ∈ seen := List.mem_of_find?_eq_some hf
      have hei : e.ident = d.ident := by
        have := List.find?_some hf
        simpa using this
      simp only [Bool.and_eq_true]
      rw [ih _ hs, List.pairwise_cons]
      constructor
      · rintro ⟨hed, hp, hall⟩
        refine ⟨⟨?_, hp⟩, ?_⟩
        · intro x hx
          exact compatible_trans_ident e d x hed hei (hall e hem x hx)
        · intro e' he' x hx
          rcases List.mem_cons.mp hx with rfl | hx'
          · by_cases h : e' = e
            · subst h; exact hed
            · have := pairwise_mem_ne (fun a b : Decl => a.ident ≠ b.ident) (fun a b h => fun h' => h h'.symm)
                seen hs e' e he' hem h
              exact compatible_of_ident_ne _ _ (by rw [← hei]; exact this)
          · exact hall e' he' x hx'
      · rintro ⟨⟨_, hp⟩, hall⟩
        exact ⟨hall e hem d (by simp), hp, fun e' he' x hx => hall e' he' x (List.mem_cons_of_mem _ hx)⟩

/-- **The back end's loop decides `clean`.** -/
theorem checkLoop_eq_clean (ds : List Decl) : checkLoop [] ds = clean ds := by
  have h1 := checkLoop_iff ds [] List.Pairwise.nil
  have h2 := clean_iff ds
  cases hc : checkLoop [] ds <;> cases hk : clean ds <;> simp_all

theorem identifiersDistinct_iff (scopes : List (List Decl)) :
    identifiersDistinct scopes = true ↔ ∀ sc ∈ scopes, clean sc = true := by
  unfold identifiersDistinct
  rw [List.all_eq_true]
  exact ⟨fun h sc hs => by rw [← checkLoop_eq_clean]; exact h sc hs,
         fun h sc hs => by rw [checkLoop_eq_clean]; exact h sc hs⟩

end Emboss.Names
