/-
C14 lemmas, part 1: the attribute-table pass (`_check_attributes`) against `AttrListOK`.
-/
import Emboss.Spec.Constraints
namespace Emboss.Constraints
open Emboss.Generated

theorem checkAttrType_nil (a : Attr) : checkAttrType a = [] ↔ ValueOK a := by
  unfold checkAttrType ValueOK
  cases h : AttrTable.attrTypes.lookup a.name with
  | none => simp
  | some ty =>
    cases ty <;> cases hv : a.val <;> simp
    all_goals (try (rename_i v; cases v <;> simp))
    all_goals (try (rename_i v _; cases v <;> simp))

theorem frontKeys_cons_qualified (a : Attr) (rest : List Attr) (h : a.backEnd ≠ "") :
    frontKeys (a :: rest) = frontKeys rest := by
  simp [frontKeys, h]

theorem frontKeys_cons_unqualified (a : Attr) (rest : List Attr) (h : a.backEnd = "") :
    frontKeys (a :: rest) = (a.name, a.isDefault) :: frontKeys rest := by
  simp [frontKeys, h]

theorem checkAttrList_nil (specs : List (String × Bool)) (attrs : List Attr) :
    ∀ seen, checkAttrList specs seen attrs = [] ↔
      ((∀ k ∈ frontKeys attrs, k ∉ seen) ∧ (frontKeys attrs).Nodup ∧
        ∀ a ∈ attrs, a.backEnd = "" → (a.name, a.isDefault) ∈ specs ∧ ValueOK a) := by
  induction attrs with
  | nil => intro seen; simp [checkAttrList, frontKeys]
  | cons a rest ih =>
    intro seen
    unfold checkAttrList
    by_cases hq : a.backEnd = ""
    · simp only [hq, ne_eq, not_true_eq_false, ↓reduceIte]
      rw [frontKeys_cons_unqualified a rest hq]
      by_cases hs : (a.name, a.isDefault) ∈ seen
      · simp [hs]
      · simp only [hs, ↓reduceIte, List.append_eq_nil_iff, ih]
        by_cases hk : (a.name, a.isDefault) ∈ specs
        · simp only [hk, ↓reduceIte, checkAttrType_nil]
          simp only [List.mem_cons, List.nodup_cons, forall_eq_or_imp]
          constructor
          · rintro ⟨hv, h1, h2, h3⟩
            refine ⟨⟨hs, fun k hk' hin => h1 k hk' (Or.inr hin)⟩,
              ⟨fun hin => h1 _ hin (Or.inl rfl), h2⟩, ⟨fun _ => ⟨hk, hv⟩, h3⟩⟩
          · rintro ⟨⟨_, h1⟩, ⟨h2, h3⟩, h4, h5⟩
            refine ⟨(h4 hq).2, fun k hk' hin => ?_, h3, h5⟩
            rcases hin with rfl | hin
            · exact h2 hk'
            · exact h1 k hk' hin
        · simp only [hk, ↓reduceIte]
          constructor
          · intro h
            exfalso
            have := h.1
            split at this <;> simp at this
          · rintro ⟨_, _, h⟩
            exact absurd (h a (List.mem_cons_self ..) hq).1 hk
    · simp only [ne_eq, hq, not_false_eq_true, ↓reduceIte, ih]
      rw [frontKeys_cons_qualified a rest hq]
      simp only [List.mem_cons, forall_eq_or_imp, hq, false_implies, true_and]

theorem checkAttrList_ok (specs : List (String × Bool)) (attrs : List Attr) :
    checkAttrList specs [] attrs = [] ↔ AttrListOK specs attrs := by
  rw [checkAttrList_nil]
  constructor
  · rintro ⟨_, h2, h3⟩
    exact ⟨h2, fun a ha hq => (h3 a ha hq).1, fun a ha hq => (h3 a ha hq).2⟩
  · rintro ⟨h1, h2, h3⟩
    exact ⟨fun _ _ => List.not_mem_nil, h1, fun a ha hq => ⟨h2 a ha hq, h3 a ha hq⟩⟩

end Emboss.Constraints
