import Emboss.Spec.Types
namespace Emboss.Types

theorem orCrash_none {a b : Option Crash} : orCrash a b = none ↔ a = none ∧ b = none := by
  cases a <;> simp [orCrash]

theorem tcList_length (file : FileId) (es : List Expr) : (tcList file es).tys.length = es.length := by
  induction es with
  | nil => simp [tcList]
  | cons e es ih => simp [tcList, ih]

/-- per-argument integer checks pass iff every argument type is `int`. -/
theorem fnArgErrs_int (file : FileId) (f : Fn) (hf : f ≠ .present) :
    ∀ (i : Nat) (args : List Expr) (tys : List Ty), tys.length = args.length →
      (fnArgErrs file f i args tys = [] ↔ ∀ t ∈ tys, t = .int)
  | _, [], [], _ => by simp [fnArgErrs]
  | _, [], _ :: _, h => by simp at h
  | _, _ :: _, [], h => by simp at h
  | i, a :: as, t :: ts, h => by
    have ih := fnArgErrs_int file f hf (i + 1) as ts (by simpa using h)
    cases f <;> simp_all [fnArgErrs, argErr]

theorem fnArgErrs_present (file : FileId) (i : Nat) (a : Expr) (t : Ty) :
    fnArgErrs file .present i [a] [t] = [] ↔ a.isFieldRef = true := by
  simp [fnArgErrs]

/-- pointwise typing of an argument list. -/
inductive AllTyped (c : Bool) : List Expr → List Ty → Prop
  | nil : AllTyped c [] []
  | cons {e es τ τs} : HasType c e τ → AllTyped c es τs → AllTyped c (e :: es) (τ :: τs)

theorem allTyped_replicate {c : Bool} (args : List Expr) (τ : Ty) :
    AllTyped c args (List.replicate args.length τ) ↔ ∀ a ∈ args, HasType c a τ := by
  induction args with
  | nil => simp; exact .nil
  | cons a as ih =>
    simp only [List.length_cons, List.replicate_succ, List.mem_cons, forall_eq_or_imp]
    constructor
    · intro h; cases h with | cons h1 h2 => exact ⟨h1, ih.1 h2⟩
    · intro h; exact .cons h.1 (ih.2 h.2)

theorem eq_replicate_of_all {tys : List Ty} {τ : Ty} (h : ∀ t ∈ tys, t = τ) :
    tys = List.replicate tys.length τ := by
  induction tys with
  | nil => rfl
  | cons t ts ih =>
    simp only [List.length_cons, List.replicate_succ]
    rw [h t (by simp), ← ih (fun x hx => h x (by simp [hx]))]

end Emboss.Types
