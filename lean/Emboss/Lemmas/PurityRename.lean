/-
C17 — from "ranges never overlap" to an explicit injective renaming of anonymous numbers.
-/
import Emboss.Lemmas.Purity
namespace Emboss.Purity

theorem pairs_zip {R : α → β → Prop} {l₁ : List α} {l₂ : List β} (h : Pairs R l₁ l₂) :
    ∀ p ∈ l₁.zip l₂, R p.1 p.2 := by
  induction h with
  | nil => intro p hp; simp at hp
  | cons hab _ ih =>
    intro p hp
    simp only [List.zip_cons_cons, List.mem_cons] at hp
    rcases hp with rfl | hp
    · exact hab
    · exact ih p hp

/-- The pairing `m₀.base+1+i ↦ m.base+1+i` over all module pairs is the graph of an
injective partial function. -/
def Consistent (ps : List (ModIR × ModIR)) : Prop :=
  ∀ p ∈ ps, ∀ p' ∈ ps, ∀ i, i < p.1.skel.anon → ∀ i', i' < p'.1.skel.anon →
    (p.1.base + 1 + i = p'.1.base + 1 + i' ↔ p.2.base + 1 + i = p'.2.base + 1 + i')

/-- If two cached modules of one (numbered) state share an anonymous number they are the
same cache entry. -/
theorem same_entry_of_overlap (σ : St) (hn : Numbered σ) (m m' : ModIR) (hm : InCache σ m)
    (hm' : InCache σ m') (i i' : Nat) (hi : i < m.skel.anon) (hi' : i' < m'.skel.anon)
    (h : m.base + 1 + i = m'.base + 1 + i') : m = m' := by
  by_cases hk : (m.text, m.file) = (m'.text, m'.file)
  · unfold InCache at hm hm'
    rw [hk] at hm; rw [hm] at hm'; cases hm'; rfl
  · rcases hn.2 _ _ m m' hm hm' hk with h' | h' <;> omega

theorem consistent_of_numbered (σ₀ σ : St) (hn₀ : Numbered σ₀) (hn : Numbered σ)
    (ms₀ ms : List ModIR) (hsim : Pairs Similar ms₀ ms)
    (hc₀ : ∀ m ∈ ms₀, InCache σ₀ m) (hc : ∀ m ∈ ms, InCache σ m) :
    Consistent (ms₀.zip ms) := by
  intro p hp p' hp' i hi i' hi'
  have hs := pairs_zip hsim p hp
  have hs' := pairs_zip hsim p' hp'
  have hm₀ := hc₀ _ (List.of_mem_zip hp).1
  have hm := hc _ (List.of_mem_zip hp).2
  have hm₀' := hc₀ _ (List.of_mem_zip hp').1
  have hm' := hc _ (List.of_mem_zip hp').2
  obtain ⟨ht, hf, hsk⟩ := hs
  obtain ⟨ht', hf', hsk'⟩ := hs'
  constructor
  · intro h
    have e := same_entry_of_overlap σ₀ hn₀ p.1 p'.1 hm₀ hm₀' i i' hi hi' h
    have : p.2 = p'.2 := by
      unfold InCache at hm hm'
      rw [ht, hf] at hm; rw [ht', hf', ← e] at hm'
      rw [hm] at hm'; exact Option.some.inj hm'
    rw [e] at h; rw [this]; omega
  · intro h
    have e := same_entry_of_overlap σ hn p.2 p'.2 hm hm' i i' (by rw [hsk]; exact hi)
      (by rw [hsk']; exact hi') h
    have : p.1 = p'.1 := by
      unfold InCache at hm₀ hm₀'
      rw [← ht, ← hf] at hm₀; rw [← ht', ← hf', ← e] at hm₀'
      rw [hm₀] at hm₀'; exact Option.some.inj hm₀'
    rw [e] at h; rw [this]; omega

/-- The renaming as a function: first pair whose old range contains `n` decides. -/
def renameOf : List (ModIR × ModIR) → Nat → Nat
  | [], n => n
  | (m₀, m) :: r, n =>
    if m₀.base < n ∧ n ≤ m₀.base + m₀.skel.anon then m.base + (n - m₀.base) else renameOf r n

theorem renameOf_spec : ∀ (ps : List (ModIR × ModIR)), Consistent ps →
    ∀ p ∈ ps, ∀ i, i < p.1.skel.anon → renameOf ps (p.1.base + 1 + i) = p.2.base + 1 + i
  | [], _, p, hp, _, _ => by cases hp
  | (a₀, a) :: r, hc, p, hp, i, hi => by
    simp only [renameOf]
    split
    · rename_i hin
      -- the number lies in the head's old range: say it is the head's i''-th name
      have hi'' : (p.1.base + 1 + i) - a₀.base - 1 < a₀.skel.anon := by omega
      have := (hc (a₀, a) (List.mem_cons_self) p hp _ hi'' i hi).1 (by simp only; omega)
      simp only at this; omega
    · rename_i hout
      rcases List.mem_cons.1 hp with hp' | hp'
      · exfalso; apply hout; rw [hp'] at hi ⊢; simp only at hi ⊢; omega
      · exact renameOf_spec r (fun q hq q' hq' => hc q (List.mem_cons_of_mem _ hq) q'
          (List.mem_cons_of_mem _ hq')) p hp' i hi

theorem atoms_rename (ps : List (ModIR × ModIR)) (hc : Consistent ps) (p : ModIR × ModIR)
    (hp : p ∈ ps) (hs : Similar p.1 p.2) :
    p.2.atoms = p.1.atoms.map (Atom.rename (renameOf ps)) := by
  unfold ModIR.atoms
  rw [hs.2.2, List.map_map]
  apply List.map_congr_left
  intro tok htok
  cases tok with
  | lit s => rfl
  | hole i =>
    have hi : i < p.1.skel.anon := hole_lt_anon _ _ htok
    simp only [Function.comp, number, Atom.rename]
    rw [renameOf_spec ps hc p hp i hi]

end Emboss.Purity
