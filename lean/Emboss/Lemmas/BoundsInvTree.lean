/-
The invariant at the leaves and its preservation over whole expressions.
-/
import Emboss.Lemmas.BoundsInvMul
import Emboss.Lemmas.BoundsInvChoice
namespace Emboss.Bounds
open ExtInt

theorem two_pow_ge_two (n : Nat) (h : 1 ≤ n) : (2 : Int) ≤ 2 ^ n := by
  induction n with
  | zero => omega
  | succ k ih =>
    rcases Nat.eq_zero_or_pos k with rfl | hk
    · simp
    · have := ih hk
      rw [Int.pow_succ]; omega

/-- `_assert_integer_constraints` holds of the annotation of every physical leaf — any kind,
    any size (sizes < 1 and unknown sizes give the unbounded annotation since fix 0237141) -/
theorem leafRange_invPy (k : LeafKind) (size : Option Int) : invPy (leafRange k size) = some true := by
  unfold leafRange
  cases size with
  | none => simp only; decide
  | some s =>
    simp only
    split
    · decide
    · rename_i hs
      have hn : 1 ≤ s.toNat := by omega
      have h2 := two_pow_ge_two s.toNat hn
      generalize s.toNat = n at *
      cases k
      · simp only [invPy]
        simp
        rw [if_neg (by omega)]; simp; omega
      · have h3 : (1 : Int) ≤ 2 ^ (n - 1) := Int.pow_pos (by omega)
        simp only [invPy]
        simp
        rw [if_neg (by omega)]; simp; omega
      · have h3 : (1 : Int) ≤ 10 ^ (n / 4) := Int.pow_pos (by omega)
        have h4 : (1 : Int) ≤ 2 ^ (n % 4) := Int.pow_pos (by omega)
        have h5 : (2 : Int) ≤ 10 ^ (n / 4) * 2 ^ (n % 4) := by
          rcases Nat.lt_or_ge n 4 with hlt | hge
          · have e1 : n / 4 = 0 := by omega
            have e2 : n % 4 = n := by omega
            rw [e1, e2]; simpa using h2
          · obtain ⟨j, hj⟩ : ∃ j, n / 4 = j + 1 := ⟨n / 4 - 1, by omega⟩
            have h6 : (1 : Int) ≤ 10 ^ j := Int.pow_pos (by omega)
            rw [hj, Int.pow_succ]
            have : (10 : Int) ≤ 10 ^ j * 10 := by omega
            calc (2 : Int) ≤ 10 * 1 := by omega
              _ ≤ 10 ^ j * 10 * 2 ^ (n % 4) := Int.mul_le_mul this h4 (by omega) (by omega)
        simp only [invPy]
        simp
        generalize (10 : Int) ^ (n / 4) * 2 ^ (n % 4) = q at *
        rw [if_neg (by omega)]; simp; omega

theorem leafRange_mod (k : LeafKind) (size : Option Int) :
    (leafRange k size).modulus = .fin 1 ∧ (leafRange k size).mv = .fin 0 := by
  unfold leafRange
  cases size with
  | none => exact ⟨rfl, rfl⟩
  | some s =>
    simp only
    split
    · exact ⟨rfl, rfl⟩
    · cases k <;> exact ⟨rfl, rfl⟩

theorem leafRange_invOk (k : LeafKind) (size : Option Int) : InvOk (leafRange k size) = true := by
  have h1 := leafRange_invPy k size
  obtain ⟨h2, h3⟩ := leafRange_mod k size
  simp [InvOk, h1, CanonMv, FiniteConst, h2, h3]

theorem boundFn_inv {a : AVal} {up : Bool} {c : Int}
    (h : (if up then a.max else a.min) = .fin c) : boundFn up a = constRange c := by
  simp [boundFn, h, constRange, ExtInt.isInf]

/-- `$upper_bound`/`$lower_bound` always satisfy the invariant: a finite bound is a constant,
    an infinite one gives the unbounded annotation -/
theorem boundFn_invS (up : Bool) (a : AVal) : InvS (boundFn up a) := by
  cases hv : (if up then a.max else a.min) with
  | fin c => rw [boundFn_inv hv]; exact Or.inl ⟨c, rfl⟩
  | posInf =>
    have : boundFn up a = unboundedLeaf := by simp [boundFn, hv, ExtInt.isInf, unboundedLeaf]
    rw [this]; exact InvS_of_InvOk (by decide)
  | negInf =>
    have : boundFn up a = unboundedLeaf := by simp [boundFn, hv, ExtInt.isInf, unboundedLeaf]
    rw [this]; exact InvS_of_InvOk (by decide)

/-! ### whole expressions -/

/-- the invariant on expression types (nothing to say about booleans / enums) -/
def InvT : AType → Prop
  | .int a => InvS a
  | _ => True

theorem InvT_iff {ty : AType} : InvOkT ty = true ↔ InvT ty := by
  cases ty <;> simp [InvOkT, InvT, InvOk_iff]

theorem absCmp_bool {op : BinOp} {cl cr : CV} {ty : AType} (h : absCmp op cl cr = some ty) :
    ∃ b, ty = .bool b := by
  unfold absCmp at h
  split at h
  · cases h
  · cases h; exact ⟨_, rfl⟩
  · split at h
    · cases h
    · cases h; exact ⟨_, rfl⟩
    · split at h
      · cases h; exact ⟨_, rfl⟩
      · cases h

theorem absBin_inv {op : BinOp} {l r ty : AType} {cl cr : CV} (hl : InvT l) (hr : InvT r)
    (h : absBin op l r cl cr = some ty) : InvT ty := by
  unfold absBin at h
  split at h
  · split at h
    · rename_i a b
      simp only [Option.map_eq_some_iff] at h
      obtain ⟨z, hz, rfl⟩ := h
      simp only [InvT] at hl hr ⊢
      cases op <;> simp only [absArith] at hz <;> try cases hz
      · obtain ⟨a', h1, h2⟩ := additive_inv false hl hr
        rw [h1] at hz; cases hz; exact h2
      · obtain ⟨a', h1, h2⟩ := additive_inv true hl hr
        rw [h1] at hz; cases hz; exact h2
      · obtain ⟨a', h1, h2⟩ := multiplicative_inv hl hr
        rw [h1] at hz; cases hz; exact h2
    · cases h
  · obtain ⟨b, rfl⟩ := absCmp_bool h
    trivial

theorem absChoice_inv {c t f ty : AType} (ht : InvT t) (hf : InvT f)
    (h : absChoice c t f = some ty) : InvT ty := by
  unfold absChoice at h
  split at h
  · cases h
    split
    · exact ht
    · exact hf
  · split at h
    · rename_i a b
      simp only [Option.map_eq_some_iff] at h
      obtain ⟨z, hz, rfl⟩ := h
      simp only [InvT] at ht hf ⊢
      obtain ⟨a', h1, h2⟩ := choiceHull_inv ht hf
      rw [h1] at hz; cases hz; exact h2
    · cases h; trivial
    · cases h; trivial
    · cases h
  · cases h

theorem atypeInts_inv : ∀ {tys : List AType} {avs : List AVal},
    (∀ t ∈ tys, InvT t) → atypeInts tys = some avs → ∀ a ∈ avs, InvS a
  | [], avs, _, h => by
    simp only [atypeInts, Option.some.injEq] at h
    subst h; intro a ha; cases ha
  | .int x :: r, avs, hall, h => by
    simp only [atypeInts, Option.map_eq_some_iff] at h
    obtain ⟨l, hl, rfl⟩ := h
    have ih := atypeInts_inv (fun t ht => hall t (List.mem_cons_of_mem _ ht)) hl
    intro a ha
    rcases List.mem_cons.mp ha with rfl | hm
    · exact hall (.int a) List.mem_cons_self
    · exact ih a hm
  | .bool _ :: _, _, _, h => by simp [atypeInts] at h
  | .enum _ :: _, _, _, h => by simp [atypeInts] at h

theorem absMax_inv {tys : List AType} {ty : AType} (hall : ∀ t ∈ tys, InvT t)
    (h : absMax tys = some ty) : InvT ty := by
  unfold absMax at h
  split at h
  · cases h
  · rename_i l hl
    simp only [Option.map_eq_some_iff] at h
    obtain ⟨z, hz, rfl⟩ := h
    have hne : l ≠ [] := by
      intro e; rw [e] at hz; simp [maxFn] at hz
    obtain ⟨r, h1, h2⟩ := maxFn_inv hne (atypeInts_inv hall hl)
    rw [h1] at hz; cases hz; exact h2

theorem absBound_inv {up : Bool} {a ty : AType} (h : absBound up a = some ty) : InvT ty := by
  unfold absBound at h
  split at h
  · cases h; exact boundFn_invS _ _
  · cases h

mutual
theorem inv_aux : (e : Expr) → GivenOk e = true →
    ∀ ty, abs e = some ty → InvT ty
  | .const c, _ => by
    intro ty h; simp only [abs, Option.some.injEq] at h; subst h; exact Or.inl ⟨c, rfl⟩
  | .bconst _, _ => by
    intro ty h; simp only [abs, Option.some.injEq] at h; subst h; trivial
  | .econst _, _ => by
    intro ty h; simp only [abs, Option.some.injEq] at h; subst h; trivial
  | .ileaf _ k size, _ => by
    intro ty h; simp only [abs, Option.some.injEq] at h; subst h
    exact InvS_of_InvOk (leafRange_invOk k size)
  | .ssize _, _ => by
    intro ty h; simp only [abs, Option.some.injEq] at h; subst h
    exact InvS_of_InvOk (by decide)
  | .given _ a, hg => by
    intro ty h; simp only [abs, Option.some.injEq] at h; subst h
    simp only [GivenOk] at hg
    exact InvS_of_InvOk hg
  | .bleaf _, _ => by
    intro ty h; simp only [abs, Option.some.injEq] at h; subst h; trivial
  | .eleaf _, _ => by
    intro ty h; simp only [abs, Option.some.injEq] at h; subst h; trivial
  | .bin op l r, hg => by
    simp only [GivenOk, Bool.and_eq_true] at hg
    have ih1 := inv_aux l hg.1
    have ih2 := inv_aux r hg.2
    intro ty h
    simp only [abs] at h
    split at h
    · rename_i a b ha hb
      exact absBin_inv (ih1 a ha) (ih2 b hb) h
    · cases h
  | .choice c t f, hg => by
    simp only [GivenOk, Bool.and_eq_true] at hg
    have ih2 := inv_aux t hg.1.2
    have ih3 := inv_aux f hg.2
    intro ty h
    simp only [abs] at h
    split at h
    · rename_i a b d ha hb hd
      exact absChoice_inv (ih2 b hb) (ih3 d hd) h
    · cases h
  | .max args, hg => by
    simp only [GivenOk] at hg
    have ih := invList_aux args hg
    intro ty h
    simp only [abs] at h
    split at h
    · rename_i l hl
      exact absMax_inv (ih l hl) h
    · cases h
  | .upper e, hg => by
    simp only [GivenOk] at hg
    intro ty h
    simp only [abs] at h
    split at h
    · rename_i a ha
      exact absBound_inv h
    · cases h
  | .lower e, hg => by
    simp only [GivenOk] at hg
    intro ty h
    simp only [abs] at h
    split at h
    · rename_i a ha
      exact absBound_inv h
    · cases h
  | .cref e, hg => by
    simp only [GivenOk] at hg
    intro ty h
    simp only [abs] at h
    exact inv_aux e hg ty h
  | .vref e, hg => by
    simp only [GivenOk] at hg
    intro ty h
    simp only [abs] at h
    exact inv_aux e hg ty h
  | .present a c, hg => by
    simp only [GivenOk] at hg
    intro ty h
    simp only [abs] at h
    exact inv_aux c hg ty h
theorem invList_aux : (es : List Expr) → GivenOkList es = true →
    ∀ tys, absList es = some tys → ∀ t ∈ tys, InvT t
  | [], _ => by
    intro tys h; simp only [absList, Option.some.injEq] at h; subst h
    intro t ht; cases ht
  | e :: es, hg => by
    simp only [GivenOkList, Bool.and_eq_true] at hg
    have ih1 := inv_aux e hg.1
    have ih2 := invList_aux es hg.2
    intro tys h
    simp only [absList] at h
    split at h
    · rename_i a l ha hl
      cases h
      intro t ht
      rcases List.mem_cons.mp ht with rfl | hm
      · exact ih1 _ ha
      · exact ih2 l hl t hm
    · cases h
end

end Emboss.Bounds
