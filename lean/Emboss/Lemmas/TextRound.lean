/-
Helper lemmas for C06: reader model ∘ writer model at the text level.  For a value tree of
static shape, at a cursor that sees the writer's pieces, `readVal` / `readElems` / `readFields`
return the tree's emitted leaves and leave the cursor behind the pieces (mutual structural
induction over `TVal`/`TVals`/`TFields`, following the success path of the reader).
-/
import Emboss.Lemmas.TextRoundScalar
namespace Emboss.Text

/-! ## Steps of the array and struct readers -/

/-- `[i]: ` is read as index `i`. -/
theorem read_marker {r : List Char} {k : Kind} (o : Opts) (i : Nat) (X : List Piece)
    (hi : i < 2 ^ 64) (h : At r k (indexMarker o i ++ X)) :
    ∃ rest r3, discardWs false r = '[' :: rest ∧ readMarker rest = some (i, r3) ∧ At r3 .other X := by
  simp only [indexMarker, List.cons_append, List.nil_append] at h
  obtain ⟨_, hpeek, h1⟩ := h.punct
  obtain ⟨hr1, _, h2⟩ := h1.word
  obtain ⟨hr2, _, h3⟩ := h2.punct
  obtain ⟨hr3, _, h4⟩ := h3.punct
  refine ⟨_, _, hpeek, ?_, h4.skip_space⟩
  have hin : IntTy.u64.InRange (i : Int) := by
    simp only [IntTy.InRange, IntTy.minVal, IntTy.maxVal]
    have : (2 : Nat) ^ 64 = 18446744073709551616 := by decide
    omega
  simp [readMarker, hr1, decodeInt_writeInt .u64 i o.base o.grouping hin, hr2, hr3]

theorem afterElem_comma {r : List Char} {k : Kind} {X : List Piece} (h : At r k (.punct ',' :: X)) :
    afterElem r = some (render X) ∧ At (render X) .other X := by
  obtain ⟨_, hpeek, h1⟩ := h.punct
  exact ⟨by simp [afterElem, hpeek], h1⟩

theorem afterElem_close {r : List Char} {k : Kind} {X : List Piece} (h : At r k (.punct '}' :: X)) :
    ∃ r3, afterElem r = some r3 ∧ At r3 k (.punct '}' :: X) := by
  obtain ⟨_, hpeek, _⟩ := h.punct
  refine ⟨'}' :: render X, by simp [afterElem, hpeek], ?_⟩
  have := h.of_discard
  rwa [hpeek] at this

/-- The loop of the array reader ends at `}`. -/
theorem read_elems_end {r : List Char} {k : Kind} {R : List Piece} (fuel count : Nat)
    (elem : RShape) (path : List Char) (idx : Nat) (h : At r k (.punct '}' :: R)) :
    readElems (fuel + 1) count elem path idx r = .ok [] (render R) ∧ At (render R) .other R := by
  obtain ⟨_, hpeek, h1⟩ := h.punct
  exact ⟨by simp [readElems, hpeek], h1⟩

theorem validWord_ne_punct {w : List Char} (hw : ValidWord w) (c : Char) (hc : isPunct c = true) :
    w ≠ [c] := by
  intro h
  subst h
  have := hw.2 c (by simp)
  simp [isDelim, hc] at this

theorem readFieldName_word {r : List Char} {k : Kind} {w : List Char} {X : List Piece}
    (h : At r k (.word w :: X)) : readFieldName r = (w, render X) ∧ At (render X) .word X := by
  obtain ⟨hr, _, h1⟩ := h.word
  have hw : ValidWord w := h.ws.1
  have := validWord_ne_punct hw ',' (by decide)
  exact ⟨by simp [readFieldName, hr, this], h1⟩

theorem readFieldName_comma_word {r : List Char} {k : Kind} {w s : List Char} {X : List Piece}
    (h : At r k (.punct ',' :: .space s :: .word w :: X)) :
    readFieldName r = (w, render X) ∧ At (render X) .word X := by
  obtain ⟨hr, _, h1⟩ := h.punct
  obtain ⟨hr2, _, h2⟩ := h1.skip_space.word
  exact ⟨by simp [readFieldName, hr, hr2], h2⟩

theorem readFieldName_close {r : List Char} {k : Kind} {X : List Piece}
    (h : At r k (.punct '}' :: X)) : readFieldName r = (['}'], render X) ∧ At (render X) .other X := by
  obtain ⟨hr, _, h1⟩ := h.punct
  exact ⟨by simp [readFieldName, hr], h1⟩

/-- Every value starts with a token: `{` or a word. -/
theorem writeVal_head (o : Opts) (v : TVal) :
    ∃ ps, writeVal o v = .punct '{' :: ps ∨ ∃ w, writeVal o v = .word w :: ps := by
  cases v with
  | scalar s =>
    rw [writeVal]
    cases s with
    | int T x => exact ⟨_, Or.inr ⟨_, rfl⟩⟩
    | bool b => exact ⟨_, Or.inr ⟨_, rfl⟩⟩
    | float t => exact ⟨_, Or.inr ⟨_, rfl⟩⟩
    | enumV n T x => cases n <;> exact ⟨_, Or.inr ⟨_, rfl⟩⟩
  | arr a vs =>
    rw [writeVal]
    by_cases hml : o.multiline = true
    · simp only [hml, if_true]; exact ⟨_, Or.inl rfl⟩
    · simp only [hml]; exact ⟨_, Or.inl rfl⟩
  | struct fs =>
    rw [writeVal]
    by_cases hml : o.multiline = true
    · simp only [hml, if_true, List.cons_append]; exact ⟨_, Or.inl rfl⟩
    · simp only [hml, List.cons_append]; exact ⟨_, Or.inl rfl⟩

/-- At a value the array reader sees neither `}` nor `[`. -/
theorem peek_val {r : List Char} {k : Kind} (o : Opts) (v : TVal) (X : List Piece)
    (h : At r k (writeVal o v ++ X)) :
    ∃ c rest, discardWs false r = c :: rest ∧ c ≠ '}' ∧ c ≠ '[' := by
  obtain ⟨ps, hp | ⟨w, hp⟩⟩ := writeVal_head o v
  · rw [hp, List.cons_append] at h
    exact ⟨'{', _, h.punct.2.1, by decide, by decide⟩
  · rw [hp, List.cons_append] at h
    have hw : ValidWord w := h.ws.1
    obtain ⟨hne, hall⟩ := hw
    cases w with
    | nil => exact absurd rfl hne
    | cons c w =>
      have hc : isDelim c = false := hall c (by simp)
      refine ⟨c, _, h.word.2.1, ?_, ?_⟩ <;> (intro hx; subst hx; exact absurd hc (by decide))

theorem toks_asciiLines (indent : List Char) : ∀ (fuel : Nat) (cs : List Char),
    toks (asciiLines indent fuel cs) = [] := by
  intro fuel
  induction fuel with
  | zero => intro cs; rfl
  | succ n ih =>
    intro cs
    unfold asciiLines
    split
    · rfl
    · simp [toks, ih]

/-- An empty white-space piece may be assumed in front of the closing brace. -/
theorem At.unskip {r : List Char} {ps : List Piece} (h : At r .other (.punct '}' :: ps)) :
    At r .other (.space [] :: .punct '}' :: ps) := by
  obtain ⟨⟨hv, hok, hrest⟩, hs⟩ := h
  exact ⟨⟨by intro c hc; simp at hc, trivial, hv, trivial, hrest⟩,
    by simpa [render, Piece.render] using hs⟩

theorem fuel_succ {n fuel : Nat} (h : 1 + n ≤ fuel) : ∃ f, fuel = f + 1 ∧ n ≤ f :=
  ⟨fuel - 1, by omega, by omega⟩

theorem needElems_pos : ∀ vs : TVals, 1 ≤ needElems vs
  | .nil => by simp [needElems]
  | .cons v vs => by simp only [needElems]; omega
  | .skip vs => by simp only [needElems]; exact needElems_pos vs

/-- Elements that are all unreadable: only comments in the multi-line text, nothing written. -/
theorem toks_elemsML_unwritten (o : Opts) : ∀ (vs : TVals) (j : Nat), vs.written = 0 →
    toks (writeElemsML o j vs) = []
  | .nil, j, _ => by rw [writeElemsML]; rfl
  | .cons v vs, j, h => by simp [TVals.written] at h
  | .skip vs, j, h => by
    have ih := toks_elemsML_unwritten o vs (j + 1) h
    rw [writeElemsML]
    by_cases hc : o.comments = true <;> simp [hc, toks, ih]

theorem writesElems_unwritten (path : List Char) : ∀ (vs : TVals) (j : Nat), vs.written = 0 →
    writesElems path j vs = []
  | .nil, j, _ => by rw [writesElems]
  | .cons v vs, j, h => by simp [TVals.written] at h
  | .skip vs, j, h => by rw [writesElems]; exact writesElems_unwritten path vs (j + 1) h

theorem smallArrays_unwritten : ∀ (vs : TVals), vs.written = 0 → vs.SmallArrays
  | .nil, _ => trivial
  | .cons v vs, h => by simp [TVals.written] at h
  | .skip vs, h => smallArrays_unwritten vs h

/-! ## The reader on the writer's pieces -/

mutual
theorem read_val : ∀ (v : TVal) (s : RShape) (o : Opts) (path r : List Char) (fuel : Nat) (k : Kind)
    (R : List Piece), o.Rereadable → v.WF → Matches s v → (o.multiline = true → v.SmallArrays) →
    needVal v ≤ fuel → At r k (writeVal o v ++ R) →
    ∃ r', readVal fuel s path r = .ok (writesVal path v) r' ∧ At r' (lastKind k (writeVal o v)) R
  | .scalar sc, s, o, path, r, fuel, k, R, ho, hv, hm, hsa, hf, h => by
    cases s with
    | scalar rs =>
      obtain ⟨f, rfl, _⟩ := fuel_succ (n := 0) (by simpa [needVal] using hf)
      rw [writeVal] at h ⊢
      simp only [readVal, writesVal]
      exact read_scalar o sc rs path r k R hv (by simpa [Matches] using hm) h
    | arr _ _ => exact absurd hm (by simp [Matches])
    | struct _ => exact absurd hm (by simp [Matches])
  | .arr a vs, s, o, path, r, fuel, k, R, ho, hv, hm, hsa, hf, h => by
    cases s with
    | arr count elem =>
      obtain ⟨hlen, hcnt, hall⟩ : vs.length = count ∧ count < 2 ^ 64 ∧ MatchesAll elem vs := by
        simpa [Matches] using hm
      have hvs : vs.WF := hv
      obtain ⟨f, rfl, hf'⟩ := fuel_succ (n := needElems vs) (by simpa [needVal] using hf)
      rw [writeVal] at h ⊢
      by_cases hml : o.multiline = true
      · have hsm : vs.written ≤ 1 ∧ vs.SmallArrays := hsa hml
        simp only [hml, if_true, List.cons_append, List.append_assoc, List.nil_append] at h ⊢
        obtain ⟨hread, _, h1⟩ := h.punct
        have h2 := At.skip _ (by split <;> first | rfl | exact toks_asciiLines _ _ _) h1
        obtain ⟨r', hr', hat⟩ := read_elemsML vs elem o path _ f 0 0 count _ _ R ho hml hvs hall
          (by omega) hcnt hsm.1 hsm.2 hf' h2
        refine ⟨r', ?_, ?_⟩
        · simp only [readVal, hread, writesVal]; exact hr'
        · simpa [lastKind, lastKind_append, Piece.kind] using hat
      · have hsl : o.multiline = false := by simpa using hml
        simp only [hsl, Bool.false_eq_true, if_false, List.cons_append, List.append_assoc,
          List.nil_append] at h ⊢
        obtain ⟨hread, _, h1⟩ := h.punct
        obtain ⟨r', hr', hat⟩ := read_elemsSL vs elem o path _ f 0 false 0 count _ _ R ho hsl hvs hall
          (by omega) hcnt (fun _ => rfl) hf' h1
        refine ⟨r', ?_, ?_⟩
        · simp only [readVal, hread, writesVal]; exact hr'
        · simpa [lastKind, lastKind_append, Piece.kind] using hat
    | scalar _ => exact absurd hm (by simp [Matches])
    | struct _ => exact absurd hm (by simp [Matches])
  | .struct fs, s, o, path, r, fuel, k, R, ho, hv, hm, hsa, hf, h => by
    cases s with
    | struct rfs =>
      have hmf : MatchesFields rfs fs := by simpa [Matches] using hm
      have hfs : fs.WF := hv
      obtain ⟨f, rfl, hf'⟩ := fuel_succ (n := needFields fs) (by simpa [needVal] using hf)
      rw [writeVal] at h ⊢
      by_cases hml : o.multiline = true
      · simp only [hml, if_true, List.cons_append, List.append_assoc, List.nil_append] at h ⊢
        obtain ⟨hread, _, h1⟩ := h.punct
        obtain ⟨r', hr', hat⟩ := read_fields fs rfs o false path _ f _ _ R ho hfs hmf hsa hf'
          h1.skip_space
        refine ⟨r', ?_, ?_⟩
        · simp only [readVal, hread, writesVal]; exact hr'
        · simpa [lastKind, lastKind_append, Piece.kind] using hat
      · have hsl : o.multiline = false := by simpa using hml
        simp only [hsl, Bool.false_eq_true, if_false, List.cons_append, List.append_assoc,
          List.nil_append] at h ⊢
        obtain ⟨hread, _, h1⟩ := h.punct
        obtain ⟨r', hr', hat⟩ := read_fields fs rfs o false path _ f _ _ R ho hfs hmf hsa hf' h1
        refine ⟨r', ?_, ?_⟩
        · simp only [readVal, hread, writesVal]; exact hr'
        · simpa [lastKind, lastKind_append, Piece.kind] using hat
    | scalar _ => exact absurd hm (by simp [Matches])
    | arr _ _ => exact absurd hm (by simp [Matches])

theorem read_elemsSL : ∀ (vs : TVals) (elem : RShape) (o : Opts) (path r : List Char)
    (fuel i : Nat) (skipped : Bool) (idx count : Nat) (k : Kind) (sp : List Char) (R : List Piece),
    o.Rereadable → o.multiline = false → vs.WF → MatchesAll elem vs → i + vs.length = count →
    count < 2 ^ 64 → (skipped = false → idx = i) →
    needElems vs ≤ fuel → At r k (writeElemsSL o i skipped vs ++ (.space sp :: .punct '}' :: R)) →
    ∃ r', readElems fuel count elem path idx r = .ok (writesElems path i vs) r' ∧ At r' .other R
  | .nil, elem, o, path, r, fuel, i, skipped, idx, count, k, sp, R, ho, hsl, hvs, hall, hcount, hc64,
      hidx, hf, h => by
    obtain ⟨f, rfl, _⟩ := fuel_succ (n := 0) (by simpa [needElems] using hf)
    rw [writeElemsSL] at h
    simp only [List.nil_append] at h
    obtain ⟨hr, hat⟩ := read_elems_end f count elem path idx h.skip_space
    exact ⟨_, by simpa [writesElems] using hr, hat⟩
  | .skip vs, elem, o, path, r, fuel, i, skipped, idx, count, k, sp, R, ho, hsl, hvs, hall, hcount,
      hc64, hidx, hf, h => by
    have hvs' : vs.WF := hvs
    have hall' : MatchesAll elem vs := hall
    have hlen : i + (vs.length + 1) = count := hcount
    have hf' : needElems vs ≤ fuel := hf
    have hc : o.comments = false := by
      cases h : o.comments with
      | false => rfl
      | true => exact absurd (ho.comments_need_multiline h) (by simp [hsl])
    rw [writeElemsSL] at h
    simp only [hc, Bool.false_eq_true, if_false, List.nil_append] at h
    simp only [writesElems]
    exact read_elemsSL vs elem o path r fuel (i + 1) true idx count k sp R ho hsl hvs' hall'
      (by omega) hc64 (fun h => absurd h (by decide)) hf' h
  | .cons v vs, elem, o, path, r, fuel, i, skipped, idx, count, k, sp, R, ho, hsl, hvs, hall, hcount,
      hc64, hidx, hf, h => by
    obtain ⟨hv, hvs'⟩ : v.WF ∧ vs.WF := hvs
    obtain ⟨hmv, hall'⟩ : Matches elem v ∧ MatchesAll elem vs := hall
    have hf2 : 1 + (needVal v + needElems vs) ≤ fuel := by simp only [needElems] at hf; omega
    obtain ⟨f, rfl, hf'⟩ := fuel_succ hf2
    have hlen : i + (vs.length + 1) = count := hcount
    rw [writeElemsSL] at h
    simp only [List.cons_append, List.append_assoc] at h
    have h1 := h.skip_space
    have hA : ∃ c rest r2, discardWs false r = c :: rest ∧ c ≠ '}' ∧
        (if c = '[' then readMarker rest else some (idx, c :: rest)) = some (i, r2) ∧
        At r2 .other (writeVal o.plusOne v ++ ((if vs.isNil = true then [] else [Piece.punct ',']) ++
          (writeElemsSL o (i + 1) false vs ++ (.space sp :: .punct '}' :: R)))) := by
      by_cases hi8 : i % 8 = 0 ∨ skipped = true
      · simp only [hi8, if_true] at h1
        obtain ⟨rest, r3, hpeek, hmk, hat⟩ := read_marker o i _ (by omega) h1
        exact ⟨'[', rest, r3, hpeek, by decide, by simpa using hmk, hat⟩
      · simp only [hi8, if_false, List.nil_append] at h1
        have hsk : skipped = false := by
          cases skipped with
          | false => rfl
          | true => exact absurd (Or.inr rfl) hi8
        obtain ⟨c, rest, hpeek, hc1, hc2⟩ := peek_val o.plusOne v _ h1
        refine ⟨c, rest, c :: rest, hpeek, hc1, by simp [hc2, hidx hsk], ?_⟩
        have := h1.of_discard
        rwa [hpeek] at this
    obtain ⟨c, rest, r2, hpeek, hc, hmk, h2⟩ := hA
    obtain ⟨r', hr', h3⟩ := read_val v elem o.plusOne (pathIdx path i) r2 f .other _ ho.plusOne hv hmv
      (fun h => absurd h (by simp [Opts.plusOne, hsl])) (by omega) h2
    have hB : ∃ r3 k' sp', afterElem r' = some r3 ∧
        At r3 k' (writeElemsSL o (i + 1) false vs ++ (.space sp' :: .punct '}' :: R)) := by
      cases vs with
      | nil =>
        simp only [TVals.isNil, if_true, List.nil_append, writeElemsSL] at h3 ⊢
        obtain ⟨r3, ha, hat⟩ := afterElem_close h3.skip_space
        exact ⟨r3, .other, [], ha, hat.unskip⟩
      | cons v2 vs2 =>
        simp only [TVals.isNil, Bool.false_eq_true, if_false, List.cons_append, List.nil_append] at h3
        obtain ⟨ha, hat⟩ := afterElem_comma h3
        exact ⟨_, .other, sp, ha, hat⟩
      | skip vs2 =>
        simp only [TVals.isNil, Bool.false_eq_true, if_false, List.cons_append, List.nil_append] at h3
        obtain ⟨ha, hat⟩ := afterElem_comma h3
        exact ⟨_, .other, sp, ha, hat⟩
    obtain ⟨r3, k', sp', ha, h4⟩ := hB
    obtain ⟨r4, hr4, h5⟩ := read_elemsSL vs elem o path r3 f (i + 1) false (i + 1) count k' sp' R ho hsl
      hvs' hall' (by omega) hc64 (fun _ => rfl) (by omega) h4
    refine ⟨r4, ?_, h5⟩
    have hlt : ¬ i ≥ count := by omega
    simp only [pathIdx] at hr'
    simp only [readElems, hpeek, hc, if_false, hmk, hlt, hr', ha, hr4, writesElems, pathIdx]

theorem read_elemsML : ∀ (vs : TVals) (elem : RShape) (o : Opts) (path r : List Char)
    (fuel i idx count : Nat) (k : Kind) (sp : List Char) (R : List Piece), o.Rereadable →
    o.multiline = true → vs.WF → MatchesAll elem vs → i + vs.length = count → count < 2 ^ 64 →
    vs.written ≤ 1 → vs.SmallArrays →
    needElems vs ≤ fuel → At r k (writeElemsML o i vs ++ (.space sp :: .punct '}' :: R)) →
    ∃ r', readElems fuel count elem path idx r = .ok (writesElems path i vs) r' ∧ At r' .other R
  | .nil, elem, o, path, r, fuel, i, idx, count, k, sp, R, ho, hml, hvs, hall, hcount, hc64, hl1, hsm,
      hf, h => by
    obtain ⟨f, rfl, _⟩ := fuel_succ (n := 0) (by simpa [needElems] using hf)
    rw [writeElemsML] at h
    simp only [List.nil_append] at h
    obtain ⟨hr, hat⟩ := read_elems_end f count elem path idx h.skip_space
    exact ⟨_, by simpa [writesElems] using hr, hat⟩
  | .skip vs, elem, o, path, r, fuel, i, idx, count, k, sp, R, ho, hml, hvs, hall, hcount, hc64, hl1,
      hsm, hf, h => by
    have hvs' : vs.WF := hvs
    have hall' : MatchesAll elem vs := hall
    have hlen : i + (vs.length + 1) = count := hcount
    have hl1' : vs.written ≤ 1 := hl1
    have hsm' : vs.SmallArrays := hsm
    have hf' : needElems vs ≤ fuel := hf
    rw [writeElemsML] at h
    simp only [writesElems]
    by_cases hc : o.comments = true
    · simp only [hc, if_true, List.cons_append, List.nil_append] at h
      exact read_elemsML vs elem o path r fuel (i + 1) idx count _ sp R ho hml hvs' hall' (by omega)
        hc64 hl1' hsm' hf' h.skip_space.skip_comment
    · simp only [hc, if_false, List.nil_append] at h
      exact read_elemsML vs elem o path r fuel (i + 1) idx count _ sp R ho hml hvs' hall' (by omega)
        hc64 hl1' hsm' hf' h
  | .cons v vs, elem, o, path, r, fuel, i, idx, count, k, sp, R, ho, hml, hvs, hall, hcount, hc64, hl1,
      hsm, hf, h => by
    obtain ⟨hv, _⟩ : v.WF ∧ vs.WF := hvs
    obtain ⟨hmv, _⟩ : Matches elem v ∧ MatchesAll elem vs := hall
    obtain ⟨hsv, _⟩ : v.SmallArrays ∧ vs.SmallArrays := hsm
    have hw0 : vs.written = 0 := by simp only [TVals.written] at hl1; omega
    have hpos := needElems_pos vs
    have hf2 : 1 + (needVal v + needElems vs) ≤ fuel := by simp only [needElems] at hf; omega
    obtain ⟨f, rfl, hf'⟩ := fuel_succ hf2
    obtain ⟨f', rfl, hf''⟩ := fuel_succ (by omega : 1 + needVal v ≤ f)
    have hlen : i + (vs.length + 1) = count := hcount
    rw [writeElemsML] at h
    simp only [List.cons_append, List.append_assoc] at h
    obtain ⟨rest, r2, hpeek, hmk, h2⟩ := read_marker o i _ (by omega) h.skip_space
    obtain ⟨r', hr', h3⟩ := read_val v elem o.plusOne (pathIdx path i) r2 (f' + 1) .other _
      ho.plusOne hv hmv (fun _ => hsv) (by omega) h2
    have h3' := At.skip _ (toks_elemsML_unwritten o vs (i + 1) hw0) h3
    obtain ⟨r3, ha, h4⟩ := afterElem_close h3'.skip_space
    obtain ⟨hr4, h5⟩ := read_elems_end f' count elem path (i + 1) h4
    refine ⟨_, ?_, h5⟩
    have hlt : ¬ i ≥ count := by omega
    simp only [pathIdx] at hr'
    rw [readElems]
    simp only [hpeek, hmk, hlt, hr', ha, hr4, writesElems, writesElems_unwritten path vs (i + 1) hw0,
      pathIdx, if_true, if_false]
    simp

theorem read_fields : ∀ (fs : TFields) (rfs : RFields) (o : Opts) (wrote : Bool) (path r : List Char)
    (fuel : Nat) (k : Kind) (sp : List Char) (R : List Piece), o.Rereadable → fs.WF →
    MatchesFields rfs fs → (o.multiline = true → fs.SmallArrays) → needFields fs ≤ fuel →
    At r k (writeFields o wrote fs ++ (.space sp :: .punct '}' :: R)) →
    ∃ r', readFields fuel rfs path r = .ok (writesFields path fs) r' ∧ At r' .other R
  | .nil, rfs, o, wrote, path, r, fuel, k, sp, R, ho, hfs, hm, hsa, hf, h => by
    obtain ⟨f, rfl, _⟩ := fuel_succ (n := 0) (by simpa [needFields] using hf)
    rw [writeFields] at h
    simp only [List.nil_append] at h
    obtain ⟨hn, hat⟩ := readFieldName_close h.skip_space
    exact ⟨_, by simp [readFields, hn, writesFields], hat⟩
  | .cons name false v fs, rfs, o, wrote, path, r, fuel, k, sp, R, ho, hfs, hm, hsa, hf, h => by
    obtain ⟨hname, _, hv, hfs'⟩ : ValidWord name ∧ _ ∧ v.WF ∧ fs.WF := hfs
    obtain ⟨⟨s, hfind, hmv⟩, hm'⟩ :
      (∃ s, findField rfs name = some s ∧ Matches s v) ∧ MatchesFields rfs fs := hm
    have hsv : o.multiline = true → v.SmallArrays := fun h => (hsa h).1
    have hsf : o.multiline = true → fs.SmallArrays := fun h => (hsa h).2
    have hf2 : 1 + (needVal v + needFields fs) ≤ fuel := by simp only [needFields] at hf; omega
    obtain ⟨f, rfl, hf'⟩ := fuel_succ hf2
    have key : ∀ (X : List Piece),
        (∃ r1, readFieldName r = (name, r1) ∧
          At r1 .word (.punct ':' :: .space [' '] :: (writeVal o.plusOne v ++ X))) →
        (∀ r' kV, At r' kV X →
          ∃ k'', At r' k'' (writeFields o true fs ++ (.space sp :: .punct '}' :: R))) →
        ∃ r', readFields (f + 1) rfs path r = .ok (writesFields path (.cons name false v fs)) r' ∧
          At r' .other R := by
      intro X ⟨r1, hn, h1⟩ hX
      obtain ⟨hcol, _, h2⟩ := h1.punct
      obtain ⟨r', hr', h4⟩ := read_val v s o.plusOne (pathField path name) _ f .other X ho.plusOne
        hv hmv hsv (by omega) h2.skip_space
      obtain ⟨k'', h5⟩ := hX r' _ h4
      obtain ⟨r4, hr4, h6⟩ := read_fields fs rfs o true path r' f k'' sp R ho hfs' hm' hsf
        (by omega) h5
      refine ⟨r4, ?_, h6⟩
      have hne : name ≠ ['}'] := validWord_ne_punct hname '}' (by decide)
      simp only [pathField] at hr'
      simp [readFields, hn, hne, hcol, hfind, hr', hr4, writesFields, pathField]
    rw [writeFields] at h
    by_cases hml : o.multiline = true
    · simp only [hml, if_true, List.cons_append, List.append_assoc, List.nil_append] at h
      obtain ⟨hn, h1⟩ := readFieldName_word h.skip_space
      exact key _ ⟨_, hn, h1⟩ (fun r' kV hat => ⟨_, hat.skip_space⟩)
    · have hsl : o.multiline = false := by simpa using hml
      simp only [hsl, Bool.false_eq_true, if_false, List.cons_append, List.append_assoc,
        List.nil_append] at h
      cases wrote with
      | true =>
        simp only [if_true, List.cons_append, List.nil_append] at h
        obtain ⟨hn, h1⟩ := readFieldName_comma_word h
        exact key _ ⟨_, hn, h1⟩ (fun r' kV hat => ⟨_, hat⟩)
      | false =>
        simp only [Bool.false_eq_true, if_false, List.cons_append, List.nil_append] at h
        obtain ⟨hn, h1⟩ := readFieldName_word h.skip_space
        exact key _ ⟨_, hn, h1⟩ (fun r' kV hat => ⟨_, hat⟩)
  | .cons name true v fs, rfs, o, wrote, path, r, fuel, k, sp, R, ho, hfs, hm, hsa, hf, h => by
    obtain ⟨_, _, _, hfs'⟩ : ValidWord name ∧ _ ∧ v.WF ∧ fs.WF := hfs
    have hm' : MatchesFields rfs fs := hm
    have hsf : o.multiline = true → fs.SmallArrays := fun h => (hsa h).2
    have hf' : needFields fs ≤ fuel := hf
    rw [writeFields] at h
    simp only [writesFields]
    by_cases hc : o.comments = true
    · simp only [hc, if_true, List.cons_append, List.append_assoc, List.nil_append] at h
      exact read_fields fs rfs o wrote path r fuel _ sp R ho hfs' hm' hsf hf'
        h.skip_space.skip_comment.skip_space
    · simp only [hc, if_false, List.nil_append] at h
      exact read_fields fs rfs o wrote path r fuel _ sp R ho hfs' hm' hsf hf' h
  | .skip name fs, rfs, o, wrote, path, r, fuel, k, sp, R, ho, hfs, hm, hsa, hf, h => by
    obtain ⟨_, hfs'⟩ : ValidWord name ∧ fs.WF := hfs
    have hm' : MatchesFields rfs fs := hm
    have hsf : o.multiline = true → fs.SmallArrays := fun h => hsa h
    have hf' : needFields fs ≤ fuel := hf
    rw [writeFields] at h
    simp only [writesFields]
    by_cases hc : o.comments = true
    · have hml := ho.comments_need_multiline hc
      simp only [hc, hml, if_true, List.cons_append, List.append_assoc, List.nil_append] at h
      exact read_fields fs rfs o wrote path r fuel _ sp R ho hfs' hm' hsf hf'
        h.skip_space.skip_comment.skip_space
    · simp only [hc, if_false, List.nil_append] at h
      exact read_fields fs rfs o wrote path r fuel _ sp R ho hfs' hm' hsf hf' h
end

end Emboss.Text
