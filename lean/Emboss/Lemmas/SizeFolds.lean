/-
`SizeCovers` (hypothesis of `C01_ok_monotone_arrays_partial`, `C01_locality_partial`,
`C20_equals_ignores_padding_partial`, …) reduced to the exactness of the compiler's
constant-folding annotations on the structure's size expression.
-/
import Emboss.Lemmas.OkMonoArr
namespace Emboss.View

/-- **The folding annotations of the size expression are exact on completions.**  The real
`$size_in_*` expression is `synthSize fields` with constant-folding annotations on the nodes
`synthetics.py` adds (`$max`, `?:`, `+`; `sizeIsSynth` checks the shape on every IR).  This
predicate says: whenever a view's (partial) environment gives the *annotated* expression the value
`sz`, some completion of that environment — every field it knows, known with the same value, and
more — gives the *un-annotated* synthesized expression the same value `sz`.  It is what C05's
soundness theorem (`C05_constant_value_agrees`: an expression the compiler treats as the constant
`x` evaluates to `x` in every environment whose leaves hold values of their physical types;
`C05_size_bounds`) says on the bounds model, on whose total, typed environments every
well-typed expression is computable; the two Lean models (`Emboss.View.Expr` with partial
environments / `Emboss.Bounds.Expr` with total ones) are not connected by a theorem — each is
tied to the real compiler by its own correspondence run. -/
def SizeFoldsExact (m : Module) (sd : StructDef) : Prop :=
  ∃ fs value, sd.field sd.sizeField = some fs ∧ fs.kind = .virt value none ∧
    ∀ (k : Nat) (w : SView) (sz : Int), w.sd = sd →
      eval (envOf (G m k) w none) value = some (.int sz) →
      ∃ env', EnvLe (envOf (G m k) w none) env' ∧ eval env' (synthSize sd.fields) = some (.int sz)

/-- an un-annotated size expression is trivially exact -/
theorem sizeFoldsExact_of_plain {m : Module} {sd : StructDef} (hp : plainSize sd) :
    SizeFoldsExact m sd := by
  obtain ⟨fs, hfs, hfk⟩ := hp
  exact ⟨fs, _, hfs, hfk, fun k w sz _ h => ⟨_, EnvLe.refl _, h⟩⟩

/-- **`SizeCovers` from exact folds**: if the annotations of the size expression are exact on
completions, a known size covers every present, located physical field. -/
theorem sizeCovers_of_foldsExact {m : Module} (hm : moduleWF m = true) {sd : StructDef}
    (hwf : structWF m sd = true) (hp : SizeFoldsExact m sd) : SizeCovers m sd := by
  intro k w sz hsd hsz f start size ty bo hf hkind j hj off s hh hst hs ho0 hs0
  obtain ⟨fs, value, hfs, hfk, hexact⟩ := hp
  subst hsd
  have hval : eval (envOf (G m k) w none) value = some (.int sz) := by
    have : (step m (G m k)).read w [w.sd.sizeField] = some (.int sz) := hsz
    simp only [step, hfs, hfk, virtRead, valueIsOk] at this
    cases he : eval (envOf (G m k) w none) value with
    | none => rw [he] at this; cases this
    | some v => rw [he] at this; simpa using this
  obtain ⟨env', hle', hsynth⟩ := hexact k w sz rfl hval
  have hcov := (C01_size_covers_present_fields_aux env' w.sd.fields sz hsynth).2
  -- values known at level j are the same at level k, and in the completion
  obtain ⟨d, rfl⟩ : ∃ d, k = j + d := ⟨k - j, by omega⟩
  have hle := G_le hm j d
  have henv := envOf_mono hle (VLe.refl w) hwf none
  have hh' := evalBool_mono hle' f.cond true (evalBool_mono henv f.cond true hh)
  have hst' := evalInt_mono hle' start off (evalInt_mono henv start off hst)
  have hs' := evalInt_mono hle' size s (evalInt_mono henv size s hs)
  have hmem := mem_extents (env := env') hkind w.sd.fields hf
  rw [hh', hst', hs'] at hmem
  exact hcov off s hmem

/-! ### a decidable class: annotations that are closed constants -/

mutual
  theorem exprBEq_eq : ∀ a b : Expr, exprBEq a b = true → a = b
    | .const a, b, h => by
      cases b <;> simp [exprBEq] at h
      rw [h]
    | .fold a x, b, h => by
      cases b with
      | fold c y =>
        simp only [exprBEq, Bool.and_eq_true, beq_iff_eq] at h
        rw [h.1, exprBEq_eq x y h.2]
      | _ => simp [exprBEq] at h
    | .ref p, b, h => by
      cases b <;> simp [exprBEq] at h
      rw [h]
    | .param n, b, h => by
      cases b <;> simp [exprBEq] at h
      rw [h]
    | .has p, b, h => by
      cases b <;> simp [exprBEq] at h
      rw [h]
    | .lv, b, h => by
      cases b <;> simp [exprBEq] at h
      rfl
    | .op f xs, b, h => by
      cases b with
      | op g ys =>
        simp only [exprBEq, Bool.and_eq_true, beq_iff_eq] at h
        rw [h.1, exprsBEq_eq xs ys h.2]
      | _ => simp [exprBEq] at h
  theorem exprsBEq_eq : ∀ a b : Exprs, exprsBEq a b = true → a = b
    | .nil, b, h => by
      cases b <;> simp [exprsBEq] at h
      rfl
    | .cons x xs, b, h => by
      cases b with
      | nil => simp [exprsBEq] at h
      | cons y ys =>
        simp only [exprsBEq, Bool.and_eq_true] at h
        rw [exprBEq_eq x y h.1, exprsBEq_eq xs ys h.2]
end

theorem emptyEnv_le (env : Env) : EnvLe emptyEnv env :=
  ⟨fun _ => OLe.none _, fun _ => OLe.none _, fun _ => OLe.none _, OLe.none _⟩

mutual
  /-- closed-constant annotations do not change the value, in any environment -/
  theorem eval_strip (env : Env) : ∀ e : Expr, closedFolds e = true → eval env e = eval env (stripFolds e)
    | .const v, _ => by simp only [stripFolds]
    | .ref p, _ => by simp only [stripFolds]
    | .param n, _ => by simp only [stripFolds]
    | .has p, _ => by simp only [stripFolds]
    | .lv, _ => by simp only [stripFolds]
    | .fold v orig, h => by
      simp only [closedFolds] at h
      cases he : eval emptyEnv (stripFolds orig) with
      | none => rw [he] at h; cases h
      | some v' =>
        rw [he] at h
        simp only [beq_iff_eq] at h
        subst h
        simp only [eval, stripFolds]
        exact (eval_mono (emptyEnv_le env) _ _ he).symm
    | .op f args, h => by
      simp only [closedFolds] at h
      simp only [eval, stripFolds, evalList_strip env args h]
  theorem evalList_strip (env : Env) :
      ∀ es : Exprs, closedFoldsList es = true → evalList env es = evalList env (stripFoldsList es)
    | .nil, _ => by simp only [stripFoldsList]
    | .cons e es, h => by
      simp only [closedFoldsList, Bool.and_eq_true] at h
      simp only [evalList, stripFoldsList, eval_strip env e h.1, evalList_strip env es h.2]
end

theorem closedFolds_sizeClauses : ∀ fs : List Field, fs.all fieldClosedFolds = true →
    closedFoldsList (sizeClauses fs) = true
  | [], _ => rfl
  | f :: fs, h => by
    simp only [List.all_cons, Bool.and_eq_true] at h
    have ih := closedFolds_sizeClauses fs h.2
    have hf := h.1
    unfold fieldClosedFolds at hf
    simp only [Bool.and_eq_true] at hf
    unfold sizeClauses
    cases hk : f.kind with
    | alias t => simpa only using ih
    | virt a b => simpa only using ih
    | phys start size ty bo =>
      rw [hk] at hf
      simp only [Bool.and_eq_true] at hf
      simp only [closedFoldsList, sizeClause, closedFolds, hf.1, hf.2.1, hf.2.2, ih, Bool.and_self]

/-- for structures whose annotations are closed constants the size annotations are exact (with
the view's own environment as the completion) -/
theorem sizeFoldsExact_of_closed {m : Module} {sd : StructDef} (h : structClosedFolds sd = true) :
    SizeFoldsExact m sd := by
  unfold structClosedFolds at h
  cases hfs : sd.field sd.sizeField with
  | none => rw [hfs] at h; cases h
  | some fs =>
    rw [hfs] at h
    simp only at h
    cases hk : fs.kind with
    | alias t => rw [hk] at h; cases h
    | phys a b c d => rw [hk] at h; cases h
    | virt value req =>
      rw [hk] at h
      cases req with
      | some r => cases h
      | none =>
        simp only [Bool.and_eq_true] at h
        obtain ⟨⟨hshape, hval⟩, hfields⟩ := h
        refine ⟨fs, value, hfs, hk, ?_⟩
        intro k w sz _ hev
        refine ⟨_, EnvLe.refl _, ?_⟩
        have hsynth : closedFolds (synthSize sd.fields) = true := by
          simp only [synthSize, closedFolds, closedFoldsList, closedFolds_sizeClauses _ hfields,
            Bool.and_self]
        rw [eval_strip _ _ hsynth, ← exprBEq_eq _ _ hshape, ← eval_strip _ _ hval]
        exact hev

end Emboss.View
