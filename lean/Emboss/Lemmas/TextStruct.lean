/-
Helper lemmas for C06: structure round trip over the abstract buffer model.
-/
import Emboss.Spec.TextStruct
import Emboss.Spec.Deps
namespace Emboss.Text
open Emboss.Deps

theorem lookup_zip_map (f : Nat → Bool) (l : List Nat) (a : Nat) :
    (l.zip (l.map f)).lookup a = if a ∈ l then some (f a) else none := by
  induction l with
  | nil => simp
  | cons x l ih =>
    simp only [List.map_cons, List.zip_cons_cons, List.lookup_cons]
    by_cases h : a = x
    · subst h; simp
    · have : (a == x) = false := by simpa using h
      simp [this, ih, h]

theorem writeAt_self (b b0 : Buf) (l : List Nat) (a : Nat) :
    writeAt b0 l (l.map b) a = if a ∈ l then b a else b0 a := by
  unfold writeAt
  rw [lookup_zip_map]
  by_cases h : a ∈ l <;> simp [h]

theorem update_roundtrip : ∀ (rest pre : List FieldSem) (b b0 : Buf), DepOk pre rest →
    AgreeOn pre b b0 →
    ∃ b1, update b0 (writeText rest b) = some b1 ∧ AgreeOn (pre ++ rest) b b1 := by
  intro rest
  induction rest with
  | nil =>
    intro pre b b0 _ hag
    exact ⟨b0, rfl, by simpa using hag⟩
  | cons f rest ih =>
    intro pre b b0 hdep hag
    obtain ⟨hf, hrest⟩ := hdep
    by_cases hem : f.emitted = true
    · cases hl : f.loc b with
      | none =>
        have hag' : AgreeOn (pre ++ [f]) b b0 := by
          intro g hg hge l hgl a ha
          rcases List.mem_append.mp hg with hg | hg
          · exact hag g hg hge l hgl a ha
          · simp at hg; subst hg; rw [hl] at hgl; cases hgl
        obtain ⟨b1, h1, h2⟩ := ih (pre ++ [f]) b b0 hrest hag'
        refine ⟨b1, ?_, by simpa using h2⟩
        simpa [writeText, hem, hl] using h1
      | some l =>
        have hloc0 : f.loc b0 = some l := by rw [hf hem b b0 hag, hl]
        have hag' : AgreeOn (pre ++ [f]) b (writeAt b0 l (l.map b)) := by
          intro g hg hge lg hgl a ha
          rw [writeAt_self]
          split
          · rfl
          · rcases List.mem_append.mp hg with hg | hg
            · exact hag g hg hge lg hgl a ha
            · simp at hg; subst hg
              rw [hl] at hgl; cases hgl
              rename_i hna; exact absurd ha hna
        obtain ⟨b1, h1, h2⟩ := ih (pre ++ [f]) b _ hrest hag'
        refine ⟨b1, ?_, by simpa using h2⟩
        have : writeText (f :: rest) b = (f, l.map b) :: writeText rest b := by
          simp [writeText, hem, hl]
        rw [this]
        simp only [update, updateOne, hloc0, List.length_map, if_true, Option.bind_some]
        exact h1
    · have hem' : f.emitted = false := by simpa using hem
      have hag' : AgreeOn (pre ++ [f]) b b0 := by
        intro g hg hge l hgl a ha
        rcases List.mem_append.mp hg with hg | hg
        · exact hag g hg hge l hgl a ha
        · simp at hg; subst hg; rw [hem'] at hge; cases hge
      obtain ⟨b1, h1, h2⟩ := ih (pre ++ [f]) b b0 hrest hag'
      refine ⟨b1, ?_, by simpa using h2⟩
      simpa [writeText, hem'] using h1

theorem agreeOn_mono {pre pre' : List FieldSem} {b b' : Buf} (h : AgreeOn pre' b b')
    (hsub : ∀ g ∈ pre, g ∈ pre') : AgreeOn pre b b' :=
  fun g hg hge l hgl a ha => h g (hsub g hg) hge l hgl a ha

theorem depOk_loc : ∀ (rest pre : List FieldSem), DepOk pre rest → ∀ f ∈ rest, f.emitted = true →
    ∀ b b', AgreeOn (pre ++ rest) b b' → f.loc b' = f.loc b := by
  intro rest
  induction rest with
  | nil => intro pre _ f hf; cases hf
  | cons g rest ih =>
    intro pre hdep f hf hem b b' hag
    obtain ⟨hg, hrest⟩ := hdep
    rcases List.mem_cons.mp hf with rfl | hf
    · exact hg hem b b' (agreeOn_mono hag (fun x hx => List.mem_append_left _ hx))
    · exact ih (pre ++ [g]) hrest f hf hem b b' (by simpa using hag)


theorem topoFrom_split (deps : DepFn) : ∀ (l1 : List Nat) (added : List Nat) (f : Nat) (l2 : List Nat),
    TopoFrom deps added (l1 ++ f :: l2) → ∀ d ∈ deps f, d ∈ added ∨ d ∈ l1 := by
  intro l1
  induction l1 with
  | nil => intro added f l2 h d hd; exact Or.inl (h.1 d hd)
  | cons x l1 ih =>
    intro added f l2 h d hd
    rcases ih (x :: added) f l2 h.2 d hd with h' | h'
    · rcases List.mem_cons.mp h' with rfl | h'
      · exact Or.inr (by simp)
      · exact Or.inl h'
    · exact Or.inr (List.mem_cons_of_mem _ h')

theorem topoFrom_append (deps : DepFn) : ∀ (l1 added l2 : List Nat),
    TopoFrom deps added (l1 ++ l2) → TopoFrom deps (l1.reverse ++ added) l2 := by
  intro l1
  induction l1 with
  | nil => intro added l2 h; simpa using h
  | cons x l1 ih =>
    intro added l2 h
    have := ih (x :: added) l2 h.2
    simpa using this

/-- In a dependency-respecting order every *transitive* dependency of a field is a runtime
parameter or stands earlier (parameters have no dependencies of their own). -/
theorem topoFrom_transitive (deps : DepFn) (params : List Nat) (hp : ∀ p ∈ params, deps p = [])
    {f d : Nat} (hd : DependsOn deps f d) : ∀ (l1 l2 : List Nat),
    TopoFrom deps params (l1 ++ f :: l2) → d ∈ params ∨ d ∈ l1 := by
  induction hd with
  | direct h => intro l1 l2 ht; exact topoFrom_split deps l1 params _ l2 ht _ h
  | @step f m d hm _ ih =>
    intro l1 l2 ht
    rcases topoFrom_split deps l1 params f l2 ht m hm with hmp | hml
    · -- a parameter has no dependencies
      rename_i hmd
      have := hp m hmp
      cases hmd with
      | direct h => rw [this] at h; cases h
      | step h _ => rw [this] at h; cases h
    · obtain ⟨a, b, rfl⟩ := List.append_of_mem hml
      have ht' : TopoFrom deps params (a ++ m :: (b ++ f :: l2)) := by simpa using ht
      rcases ih a (b ++ f :: l2) ht' with h | h
      · exact Or.inl h
      · exact Or.inr (by simp [h])


end Emboss.Text
