/-
Every transfer function of Model/Bounds.lean maps arguments satisfying the invariant
`InvS` (= `InvOk`) to a result (it does not raise) that satisfies it again.
The proofs reuse the soundness lemmas of BoundsOps.lean: the finite ends of a result are
values the operation can produce, hence lie in γ(result), hence are congruent.
-/
import Emboss.Lemmas.BoundsInv
namespace Emboss.Bounds
open ExtInt

/-! ### list extrema -/

theorem emax2_fin {a b : ExtInt} {z : Int} (h : emax2 a b = .fin z) : a = .fin z ∨ b = .fin z := by
  cases a <;> cases b <;> simp [emax2] at h ⊢ <;>
    first | exact h | (split at h <;> simp_all)

theorem emin2_fin {a b : ExtInt} {z : Int} (h : emin2 a b = .fin z) : a = .fin z ∨ b = .fin z := by
  cases a <;> cases b <;> simp [emin2] at h ⊢ <;>
    first | exact h | (split at h <;> simp_all)

theorem foldl_emax2_fin (l : List ExtInt) (acc : ExtInt) (z : Int)
    (h : l.foldl emax2 acc = .fin z) : acc = .fin z ∨ .fin z ∈ l := by
  induction l generalizing acc with
  | nil => left; simpa using h
  | cons x xs ih =>
    simp only [List.foldl_cons] at h
    rcases ih _ h with h1 | h1
    · rcases emax2_fin h1 with h2 | h2
      · left; exact h2
      · right; rw [h2]; exact List.mem_cons_self
    · right; exact List.mem_cons_of_mem _ h1

theorem foldl_emin2_fin (l : List ExtInt) (acc : ExtInt) (z : Int)
    (h : l.foldl emin2 acc = .fin z) : acc = .fin z ∨ .fin z ∈ l := by
  induction l generalizing acc with
  | nil => left; simpa using h
  | cons x xs ih =>
    simp only [List.foldl_cons] at h
    rcases ih _ h with h1 | h1
    · rcases emin2_fin h1 with h2 | h2
      · left; exact h2
      · right; rw [h2]; exact List.mem_cons_self
    · right; exact List.mem_cons_of_mem _ h1

/-- a finite `_max` is one of the members -/
theorem emaxL_mem {l : List ExtInt} {z : Int} (h : emaxL l = .fin z) : .fin z ∈ l := by
  rcases foldl_emax2_fin l _ z h with h1 | h1
  · cases h1
  · exact h1

theorem eminL_mem {l : List ExtInt} {z : Int} (h : eminL l = .fin z) : .fin z ∈ l := by
  rcases foldl_emin2_fin l _ z h with h1 | h1
  · cases h1
  · exact h1

/-- two ordered points between two different ends -/
theorem two_of_ne {mn mx : ExtInt} (h1 : mn ≠ .posInf) (h2 : mx ≠ .negInf) (hne : mn ≠ mx)
    (hle : ∀ x y, mn = .fin x → mx = .fin y → x ≤ y) :
    ∃ p1 p2 : Int, p1 < p2 ∧ LowOk mn p1 ∧ HighOk mx p2 := by
  cases mn with
  | posInf => exact absurd rfl h1
  | negInf =>
    cases mx with
    | negInf => exact absurd rfl h2
    | posInf => exact ⟨0, 1, by omega, trivial, trivial⟩
    | fin y => exact ⟨y - 1, y, by omega, trivial, Int.le_refl y⟩
  | fin x =>
    cases mx with
    | negInf => exact absurd rfl h2
    | posInf => exact ⟨x, x + 1, by omega, Int.le_refl x, trivial⟩
    | fin y =>
      have := hle x y rfl rfl
      have hxy : x ≠ y := fun e => hne (by rw [e])
      exact ⟨x, y, by omega, Int.le_refl x, Int.le_refl y⟩

/-! ### moduli -/

/-- a modulus that satisfies the invariant: "infinity" or positive -/
def Modulus.Pos : Modulus → Prop
  | .inf => True
  | .fin m => 0 < m

theorem InvS.modPos {a : AVal} (h : InvS a) : a.modulus.Pos := by
  rcases h with ⟨c, rfl⟩ | ⟨m, v, h⟩
  · trivial
  · rw [h.hm]; exact h.mpos

theorem gcdM_fin_left {m : Nat} (hm : 0 < m) (b : Modulus) :
    ∃ z, gcdM (.fin m) b = .fin z ∧ 0 < z ∧ z ∣ m := by
  obtain ⟨n, rfl⟩ : ∃ n, m = n + 1 := ⟨m - 1, by omega⟩
  cases b with
  | inf => exact ⟨n + 1, by simp [gcdM], hm, Nat.dvd_refl _⟩
  | fin k =>
    cases k with
    | zero => exact ⟨n + 1, by simp [gcdM], hm, Nat.dvd_refl _⟩
    | succ k =>
      exact ⟨Nat.gcd (n + 1) (k + 1), by simp [gcdM], Nat.gcd_pos_of_pos_left _ hm,
        Nat.gcd_dvd_left _ _⟩

theorem gcdM_fin_right {m : Nat} (hm : 0 < m) (a : Modulus) :
    ∃ z, gcdM a (.fin m) = .fin z ∧ 0 < z ∧ z ∣ m := by
  obtain ⟨n, rfl⟩ : ∃ n, m = n + 1 := ⟨m - 1, by omega⟩
  cases a with
  | inf => exact ⟨n + 1, by simp [gcdM], hm, Nat.dvd_refl _⟩
  | fin k =>
    cases k with
    | zero => exact ⟨n + 1, by simp [gcdM], hm, Nat.dvd_refl _⟩
    | succ k =>
      exact ⟨Nat.gcd (k + 1) (n + 1), by simp [gcdM], Nat.gcd_pos_of_pos_right _ hm,
        Nat.gcd_dvd_right _ _⟩

/-- the gcd of two admissible moduli: "infinity" only for two constants -/
theorem gcdM_cases {a b : Modulus} (ha : a.Pos) (hb : b.Pos) :
    (a = .inf ∧ b = .inf ∧ gcdM a b = .inf) ∨ (∃ k, gcdM a b = .fin k ∧ 0 < k) := by
  cases a with
  | inf =>
    cases b with
    | inf => left; exact ⟨rfl, rfl, by simp [gcdM]⟩
    | fin m =>
      right
      obtain ⟨z, h1, h2, _⟩ := gcdM_fin_right (show 0 < m from hb) .inf
      exact ⟨z, h1, h2⟩
  | fin m =>
    right
    obtain ⟨z, h1, h2, _⟩ := gcdM_fin_left (show 0 < m from ha) b
    exact ⟨z, h1, h2⟩

/-! ### the generic way to establish the invariant of a result -/

theorem InvS.of_parts {a : AVal}
    (hinf : a.modulus = .inf → ∃ c, a = constRange c)
    (hfin : ∀ k, a.modulus = .fin k → 0 < k ∧ ∃ v, a.mv = .fin v ∧ 0 ≤ v ∧ v < (k : Int))
    (hmin : ∀ x, a.min = .fin x → CongOk a.modulus a.mv x)
    (hmax : ∀ x, a.max = .fin x → CongOk a.modulus a.mv x)
    (htwo : ∀ k, a.modulus = .fin k → ∃ p1 p2 : Int, p1 < p2 ∧ LowOk a.min p1 ∧ HighOk a.max p2) :
    InvS a := by
  cases hm : a.modulus with
  | inf => left; exact hinf hm
  | fin k =>
    right
    obtain ⟨kpos, v, hv, v0, vlt⟩ := hfin k hm
    obtain ⟨p1, p2, hlt, hl, hh⟩ := htwo k hm
    exact ⟨k, v, InvVar.of_witness hm kpos hv v0 vlt hmin hmax hlt hl hh⟩

theorem emod_canon (u : Int) {k : Nat} (hk : 0 < k) : 0 ≤ u % (k : Int) ∧ u % (k : Int) < (k : Int) :=
  ⟨Int.emod_nonneg _ (by omega), Int.emod_lt_of_pos _ (by omega)⟩

/-! ### `+` and `-` -/

theorem eadd_some {a b : ExtInt} (h : (a ≠ .posInf ∧ b ≠ .posInf) ∨ (a ≠ .negInf ∧ b ≠ .negInf)) :
    ∃ c, eadd a b = some c := by
  cases a <;> cases b <;> simp [eadd] at h ⊢

theorem eadd_fin {a b : ExtInt} {z : Int} (h : eadd a b = some (.fin z)) :
    ∃ x y, a = .fin x ∧ b = .fin y ∧ z = x + y := by
  cases a <;> cases b <;> simp [eadd] at h
  exact ⟨_, _, rfl, rfl, h.symm⟩

theorem neg_ne_posInf {b : ExtInt} (h : b ≠ .negInf) : b.neg ≠ .posInf := by
  cases b <;> simp [ExtInt.neg] at h ⊢

theorem neg_ne_negInf {b : ExtInt} (h : b ≠ .posInf) : b.neg ≠ .negInf := by
  cases b <;> simp [ExtInt.neg] at h ⊢

theorem neg_fin {b : ExtInt} {y : Int} (h : b.neg = .fin y) : b = .fin (-y) := by
  cases b <;> simp [ExtInt.neg] at h ⊢
  omega

/-- the fields of a returned `additive` -/
theorem additive_shape {s : Bool} {l r a : AVal} (h : additive s l r = some a) :
    a.modulus = gcdM l.modulus r.modulus ∧
    (if s then esub l.min r.max else eadd l.min r.min) = some a.min ∧
    (if s then esub l.max r.min else eadd l.max r.max) = some a.max := by
  cases s with
  | false =>
    simp only [additive, Bool.false_eq_true, if_false] at h ⊢
    split at h
    · cases h
    · split at h
      · cases h
      · split at h
        · rename_i mn mx hmn hmx
          cases h
          exact ⟨rfl, hmn, hmx⟩
        · cases h
  | true =>
    simp only [additive, if_true] at h ⊢
    split at h
    · cases h
    · split at h
      · cases h
      · split at h
        · rename_i mn mx hmn hmx
          cases h
          exact ⟨rfl, hmn, hmx⟩
        · cases h

theorem additive_const (s : Bool) (c d : Int) :
    additive s (constRange c) (constRange d) = some (constRange (if s then c - d else c + d)) := by
  cases s <;> simp [additive, constRange, gcdM, eadd, esub, ExtInt.neg, Int.sub_eq_add_neg]

theorem additive_inv (s : Bool) {l r : AVal} (hl : InvS l) (hr : InvS r) :
    ∃ a, additive s l r = some a ∧ InvS a := by
  obtain ⟨lv, hlv⟩ := hl.mv_fin
  obtain ⟨rv, hrv⟩ := hr.mv_fin
  -- the four end computations do not raise
  obtain ⟨mn, hmn⟩ : ∃ mn, (if s then esub l.min r.max else eadd l.min r.min) = some mn := by
    cases s
    · exact eadd_some (Or.inl ⟨hl.minNe, hr.minNe⟩)
    · exact eadd_some (Or.inl ⟨hl.minNe, neg_ne_posInf hr.maxNe⟩)
  obtain ⟨mx, hmx⟩ : ∃ mx, (if s then esub l.max r.min else eadd l.max r.max) = some mx := by
    cases s
    · exact eadd_some (Or.inr ⟨hl.maxNe, hr.maxNe⟩)
    · exact eadd_some (Or.inr ⟨hl.maxNe, neg_ne_negInf hr.minNe⟩)
  -- the result exists
  have hex : ∃ a, additive s l r = some a := by
    rcases gcdM_cases hl.modPos hr.modPos with ⟨_, _, hg⟩ | ⟨k, hg, kpos⟩
    · cases s <;> simp_all [additive, eadd, esub, ExtInt.neg]
    · have hk0 : k ≠ 0 := by omega
      cases s <;> simp_all [additive, eadd, esub, ExtInt.neg]
  obtain ⟨a, ha⟩ := hex
  refine ⟨a, ha, ?_⟩
  obtain ⟨hmod, hamin, hamax⟩ := additive_shape ha
  -- ends of the result are values the operation produces
  have hminG : ∀ x, a.min = .fin x → Gamma a x := by
    intro x hx
    rw [hx] at hamin
    cases s
    · obtain ⟨x1, x2, e1, e2, rfl⟩ := eadd_fin hamin
      exact additive_sound ha (hl.min_mem e1) (hr.min_mem e2)
    · obtain ⟨x1, x2, e1, e2, rfl⟩ := eadd_fin hamin
      have := additive_sound ha (hl.min_mem e1) (hr.max_mem (neg_fin e2))
      simpa [Int.sub_eq_add_neg] using this
  have hmaxG : ∀ x, a.max = .fin x → Gamma a x := by
    intro x hx
    rw [hx] at hamax
    cases s
    · obtain ⟨x1, x2, e1, e2, rfl⟩ := eadd_fin hamax
      exact additive_sound ha (hl.max_mem e1) (hr.max_mem e2)
    · obtain ⟨x1, x2, e1, e2, rfl⟩ := eadd_fin hamax
      have := additive_sound ha (hl.max_mem e1) (hr.min_mem (neg_fin e2))
      simpa [Int.sub_eq_add_neg] using this
  apply InvS.of_parts
  · -- constant result: both arguments are constants
    intro hinf
    rw [hmod] at hinf
    rcases gcdM_cases hl.modPos hr.modPos with ⟨h1, h2, _⟩ | ⟨k, hg, _⟩
    · rcases hl with ⟨c, rfl⟩ | ⟨m, v, h⟩
      · rcases hr with ⟨d, rfl⟩ | ⟨m, v, h⟩
        · refine ⟨if s then c - d else c + d, ?_⟩
          rw [additive_const] at ha
          exact (Option.some.inj ha).symm
        · rw [h.hm] at h2; cases h2
      · rw [h.hm] at h1; cases h1
    · rw [hg] at hinf; cases hinf
  · intro k hk
    rw [hmod] at hk
    have kpos : 0 < k := by
      rcases gcdM_cases hl.modPos hr.modPos with ⟨_, _, hg⟩ | ⟨k', hg, kp⟩
      · rw [hg] at hk; cases hk
      · rw [hg] at hk; cases hk; exact kp
    refine ⟨kpos, ?_⟩
    have hk0 : k ≠ 0 := by omega
    cases s <;> simp_all [additive, eadd, esub, ExtInt.neg]
    · refine ⟨_, by rw [← ha], (emod_canon _ kpos).1, (emod_canon _ kpos).2⟩
    · refine ⟨_, by rw [← ha], (emod_canon _ kpos).1, (emod_canon _ kpos).2⟩
  · intro x hx; exact (hminG x hx).2.2
  · intro x hx; exact (hmaxG x hx).2.2
  · intro k hk
    rw [hmod] at hk
    -- one of the arguments is not a constant
    have hvar : (∃ m v, InvVar l m v) ∨ (∃ m v, InvVar r m v) := by
      rcases hl with ⟨c, rfl⟩ | hlv'
      · rcases hr with ⟨d, rfl⟩ | hrv'
        · simp [constRange, gcdM] at hk
        · exact Or.inr hrv'
      · exact Or.inl hlv'
    rcases hvar with ⟨m, v, h⟩ | ⟨m, v, h⟩
    · obtain ⟨x1, x2, hlt, g1, g2⟩ := h.two
      obtain ⟨y, gy⟩ := hr.one
      have q1 := additive_sound ha g1 gy
      have q2 := additive_sound ha g2 gy
      cases s
      · exact ⟨x1 + y, x2 + y, by omega, q1.1, q2.2.1⟩
      · exact ⟨x1 - y, x2 - y, by omega, q1.1, q2.2.1⟩
    · obtain ⟨y1, y2, hlt, g1, g2⟩ := h.two
      obtain ⟨x, gx⟩ := hl.one
      have q1 := additive_sound ha gx g1
      have q2 := additive_sound ha gx g2
      cases s
      · exact ⟨x + y1, x + y2, by omega, q1.1, q2.2.1⟩
      · exact ⟨x - y2, x - y1, by omega, q2.1, q1.2.1⟩

end Emboss.Bounds
