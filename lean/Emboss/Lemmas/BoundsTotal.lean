/-
On the arithmetic fragment `ArithOnly` the analysis returns an integer annotation that
satisfies the invariant: no assert, no `int("infinity")`, no `"infinity" % n`.
(No side condition any more: since the fix of F8 bound functions never yield a constant infinity.)
-/
import Emboss.Spec.BoundsArith
import Emboss.Lemmas.BoundsTight
namespace Emboss.Bounds
open ExtInt

theorem absChoice_atom {c : Expr} (hc : isBoolAtom c = true) : ∃ ob, abs c = some (.bool ob) := by
  cases c <;> simp [isBoolAtom] at hc
  · exact ⟨_, rfl⟩
  · exact ⟨_, rfl⟩

mutual
theorem total_aux : (e : Expr) → ArithOnly e = true → GivenOk e = true →
    ∃ a, abs e = some (.int a) ∧ InvS a
  | .const c, _, _ => ⟨constRange c, rfl, Or.inl ⟨c, rfl⟩⟩
  | .ileaf _ k size, _, _ => ⟨leafRange k size, rfl, InvS_of_InvOk (leafRange_invOk k size)⟩
  | .ssize _, _, _ => ⟨staticSizeRange, rfl, InvS_of_InvOk (by decide)⟩
  | .given _ a, _, hg => by
    simp only [GivenOk] at hg
    exact ⟨a, rfl, InvS_of_InvOk hg⟩
  | .bin op l r, h, hg => by
    simp only [ArithOnly, Bool.and_eq_true] at h
    simp only [GivenOk, Bool.and_eq_true] at hg
    obtain ⟨al, habl, hil⟩ := total_aux l h.1.2 hg.1
    obtain ⟨ar, habr, hir⟩ := total_aux r h.2 hg.2
    have hop := h.1.1
    cases op <;> simp [isArith] at hop
    · obtain ⟨a, ha, hia⟩ := additive_inv false hil hir
      exact ⟨a, by simp [abs, habl, habr, absBin, isArith, absArith, ha], hia⟩
    · obtain ⟨a, ha, hia⟩ := additive_inv true hil hir
      exact ⟨a, by simp [abs, habl, habr, absBin, isArith, absArith, ha], hia⟩
    · obtain ⟨a, ha, hia⟩ := multiplicative_inv hil hir
      exact ⟨a, by simp [abs, habl, habr, absBin, isArith, absArith, ha], hia⟩
  | .choice c t f, h, hg => by
    simp only [ArithOnly, Bool.and_eq_true] at h
    simp only [GivenOk, Bool.and_eq_true] at hg
    obtain ⟨at', habt, hit⟩ := total_aux t h.1.2 hg.1.2
    obtain ⟨af, habf, hif⟩ := total_aux f h.2 hg.2
    obtain ⟨ob, hc⟩ := absChoice_atom h.1.1
    cases ob with
    | some b =>
      cases b
      · exact ⟨af, by simp [abs, hc, habt, habf, absChoice], hif⟩
      · exact ⟨at', by simp [abs, hc, habt, habf, absChoice], hit⟩
    | none =>
      obtain ⟨a, ha, hia⟩ := choiceHull_inv hit hif
      exact ⟨a, by simp [abs, hc, habt, habf, absChoice, ha], hia⟩
  | .max args, h, hg => by
    simp only [ArithOnly, Bool.and_eq_true] at h
    simp only [GivenOk] at hg
    obtain ⟨avs, habs, hinv⟩ := totalList_aux args h.2 hg
    have hne : avs ≠ [] := by
      intro e
      subst e
      cases args with
      | nil => simp at h
      | cons x xs =>
        simp only [absList] at habs
        split at habs <;> simp at habs
    obtain ⟨a, ha, hia⟩ := maxFn_inv hne hinv
    exact ⟨a, by simp [abs, habs, absMax, atypeInts_map, ha], hia⟩
  | .upper e, h, hg => by
    simp only [ArithOnly] at h
    simp only [GivenOk] at hg
    obtain ⟨a, habs, _⟩ := total_aux e h hg
    exact ⟨boundFn true a, by simp only [abs, habs, absBound], boundFn_invS true a⟩
  | .lower e, h, hg => by
    simp only [ArithOnly] at h
    simp only [GivenOk] at hg
    obtain ⟨a, habs, _⟩ := total_aux e h hg
    exact ⟨boundFn false a, by simp only [abs, habs, absBound], boundFn_invS false a⟩
  | .vref e, h, hg => by
    simp only [ArithOnly] at h
    simp only [GivenOk] at hg
    obtain ⟨a, habs, hia⟩ := total_aux e h hg
    exact ⟨a, by simp only [abs, habs], hia⟩
  | .bconst _, h, _ => by simp [ArithOnly] at h
  | .econst _, h, _ => by simp [ArithOnly] at h
  | .bleaf _, h, _ => by simp [ArithOnly] at h
  | .eleaf _, h, _ => by simp [ArithOnly] at h
  | .cref _, h, _ => by simp [ArithOnly] at h
  | .present _ _, h, _ => by simp [ArithOnly] at h
theorem totalList_aux : (es : List Expr) → ArithOnlyList es = true → GivenOkList es = true →
    ∃ avs : List AVal, absList es = some (avs.map .int) ∧ ∀ a ∈ avs, InvS a
  | [], _, _ => ⟨[], rfl, fun a ha => nomatch ha⟩
  | e :: es, h, hg => by
    simp only [ArithOnlyList, Bool.and_eq_true] at h
    simp only [GivenOkList, Bool.and_eq_true] at hg
    obtain ⟨a, habs, hia⟩ := total_aux e h.1 hg.1
    obtain ⟨avs, habss, hinv⟩ := totalList_aux es h.2 hg.2
    refine ⟨a :: avs, by simp [absList, habs, habss], ?_⟩
    intro b hb
    rcases List.mem_cons.mp hb with rfl | hm
    · exact hia
    · exact hinv b hm
end

end Emboss.Bounds
