/-
C16 — the import work queue of `only_parse_emboss_file`: invariant, termination, result.
-/
import Emboss.Lemmas.Pipeline
namespace Emboss.Pipeline

/-- Loop invariant of `while file_queue:`. -/
structure QInv (parse : String → Parsed) (root : String) (q seen acc : List String) : Prop where
  split : seen = acc.reverse ++ q
  nodup : seen.Nodup
  reach : ∀ x ∈ seen, Reach parse root x
  closed : ∀ f ∈ acc, ∀ i ∈ (parse f).imports, i ∈ seen
  ok : ∀ f ∈ acc, (parse f).errors = []

theorem QInv.init (parse : String → Parsed) (root : String) : QInv parse root [root] [root] [] where
  split := by simp
  nodup := by simp
  reach := by intro x hx; simp at hx; subst hx; exact Reach.root
  closed := by intro f hf; cases hf
  ok := by intro f hf; cases hf

theorem QInv.step {parse : String → Parsed} {root f : String} {q seen acc : List String}
    (inv : QInv parse root (f :: q) seen acc) (herr : (parse f).errors = []) :
    QInv parse root (enqueue (parse f).imports q seen).1 (enqueue (parse f).imports q seen).2
      (f :: acc) := by
  obtain ⟨new, h1, h2, h3, h4, h5⟩ := enqueue_spec (parse f).imports q seen
  have hf : f ∈ seen := by rw [inv.split]; simp
  refine ⟨?_, ?_, ?_, ?_, ?_⟩
  · rw [h1, h2, inv.split]; simp
  · rw [h2]; exact h3 inv.nodup
  · intro x hx
    rw [h2] at hx
    rcases List.mem_append.mp hx with hx | hx
    · exact inv.reach x hx
    · exact Reach.step (inv.reach f hf) herr (h4 x hx)
  · intro g hg i hi
    rw [h2]
    rcases List.mem_cons.mp hg with rfl | hg
    · exact h5 i hi
    · exact List.mem_append_left _ (inv.closed g hg i hi)
  · intro g hg
    rcases List.mem_cons.mp hg with rfl | hg
    · exact herr
    · exact inv.ok g hg

theorem errors_nil_of_not {es : Errors} (h : ¬ (!es.isEmpty) = true) : es = [] := by
  cases es with
  | nil => rfl
  | cons a t => simp at h

/-- With fuel beyond the number of files in any finite universe closed under imports the
loop never runs out of fuel. -/
theorem queueLoop_fuel (parse : String → Parsed) (root : String) (U : List String)
    (hU : ∀ f, Reach parse root f → f ∈ U) :
    ∀ (fuel : Nat) (q seen acc : List String), QInv parse root q seen acc →
      U.length < fuel + acc.length → queueLoop parse fuel q seen acc ≠ .outOfFuel := by
  intro fuel
  induction fuel with
  | zero =>
    intro q seen acc inv hlt
    have h1 := nodup_subset_length seen U inv.nodup (fun x hx => hU x (inv.reach x hx))
    have h2 : acc.length ≤ seen.length := by rw [inv.split]; simp
    omega
  | succ fuel ih =>
    intro q seen acc inv hlt
    cases q with
    | nil => simp [queueLoop]
    | cons f q =>
      simp only [queueLoop]
      split
      · simp
      · rename_i herr
        have herr' := errors_nil_of_not herr
        exact ih _ _ _ (inv.step herr') (by simp only [List.length_cons]; omega)

/-- What a successful run returns. -/
theorem queueLoop_done (parse : String → Parsed) (root : String) :
    ∀ (fuel : Nat) (q seen acc files : List String), QInv parse root q seen acc →
      queueLoop parse fuel q seen acc = .done files →
      QInv parse root [] files files.reverse := by
  intro fuel
  induction fuel with
  | zero => intro q seen acc files _ h; simp [queueLoop] at h
  | succ fuel ih =>
    intro q seen acc files inv h
    cases q with
    | nil =>
      simp only [queueLoop, QResult.done.injEq] at h
      subst h
      have hs : seen = acc.reverse := by rw [inv.split]; simp
      subst hs
      refine ⟨by simp, inv.nodup, inv.reach, ?_, ?_⟩
      · intro f hf; exact inv.closed f (by simpa using hf)
      · intro f hf; exact inv.ok f (by simpa using hf)
    | cons f q =>
      simp only [queueLoop] at h
      split at h
      · cases h
      · rename_i herr
        exact ih _ _ _ _ (inv.step (errors_nil_of_not herr)) h

/-- What a failing run returns: the files parsed before and the failing one, all distinct,
all reachable, and the error list is the (truthy) one of the failing file. -/
theorem queueLoop_errors (parse : String → Parsed) (root : String) :
    ∀ (fuel : Nat) (q seen acc : List String) (es : Errors) (f : String) (before : List String),
      QInv parse root q seen acc →
      queueLoop parse fuel q seen acc = .errors es f before →
      es = (parse f).errors ∧ es ≠ [] ∧ (before ++ [f]).Nodup ∧
        (∀ x ∈ before ++ [f], Reach parse root x) := by
  intro fuel
  induction fuel with
  | zero => intro q seen acc es f before _ h; simp [queueLoop] at h
  | succ fuel ih =>
    intro q seen acc es f before inv h
    cases q with
    | nil => simp [queueLoop] at h
    | cons g q =>
      simp only [queueLoop] at h
      split at h
      · rename_i herr
        simp only [QResult.errors.injEq] at h
        obtain ⟨rfl, rfl, rfl⟩ := h
        refine ⟨rfl, isEmpty_false_ne_nil herr, ?_, ?_⟩
        · have := inv.nodup
          rw [inv.split] at this
          have h2 : (acc.reverse ++ [g] ++ q).Nodup := by simpa using this
          exact (List.nodup_append.mp h2).1
        · intro x hx
          apply inv.reach
          rw [inv.split]
          rcases List.mem_append.mp hx with hx | hx
          · exact List.mem_append_left _ hx
          · simp at hx; subst hx; simp
      · rename_i herr
        exact ih _ _ _ _ _ _ (inv.step (errors_nil_of_not herr)) h

/-- Closure under imports + error-freeness ⇒ every reachable file is in the result. -/
theorem reach_mem_of_closed {parse : String → Parsed} {root : String} {files : List String}
    (hroot : root ∈ files)
    (hclosed : ∀ f ∈ files, ∀ i ∈ (parse f).imports, i ∈ files) :
    ∀ x, Reach parse root x → x ∈ files := by
  intro x hx
  induction hx with
  | root => exact hroot
  | step _ _ hi ih => exact hclosed _ ih _ hi

end Emboss.Pipeline
