/-
Lemmas for the C04 text-buffer theorem, part 2: how many characters `writeInt` produces.
`numDigits b v` = iterations of the `while (value > 0)` loop; separators are bounded by
`(digits - 1) / groupSize`; `v < b^k → numDigits b v ≤ k`.
-/
import Emboss.Model.Text

namespace Emboss.Text

/-- Number of iterations of `while (value > 0) { …; value /= base; }` (0 for `v = 0`). -/
def numDigits (b v : Nat) : Nat :=
  if _h : v = 0 ∨ b < 2 then 0 else numDigits b (v / b) + 1
termination_by v
decreasing_by exact Nat.div_lt_self (by omega) (by omega)

theorem numDigits_le_of_lt_pow (b : Nat) : ∀ (k v : Nat), v < b ^ k → numDigits b v ≤ k := by
  intro k
  induction k with
  | zero =>
    intro v h
    have hv : v = 0 := by simpa using h
    unfold numDigits
    simp [hv]
  | succ k ih =>
    intro v h
    unfold numDigits
    by_cases h0 : v = 0 ∨ b < 2
    · simp only [h0, dite_true]; omega
    · simp only [h0, dite_false]
      have : v / b < b ^ k := by
        apply Nat.div_lt_of_lt_mul
        rw [Nat.pow_succ, Nat.mul_comm] at h
        exact h
      have := ih (v / b) this
      omega

theorem groupSize_cases (b : Nat) : groupSize b = 3 ∨ groupSize b = 4 ∨ groupSize b = 8 := by
  unfold groupSize
  split
  · exact Or.inl rfl
  · split
    · exact Or.inr (Or.inl rfl)
    · exact Or.inr (Or.inr rfl)

/-- Characters added by the loop: one per digit, plus at most one `_` before each digit whose
index (`digit_count`, running from `c`) is a non-zero multiple of the group size. -/
theorem writeLoop_length_le (b : Nat) (g : Bool) :
    ∀ (v c : Nat) (buf : List Char),
      (writeLoop b g v c buf).length + (c - 1) / groupSize b ≤
        buf.length + numDigits b v + (c + numDigits b v - 1) / groupSize b := by
  intro v
  induction v using Nat.strongRecOn with
  | _ v ih =>
    intro c buf
    unfold writeLoop numDigits
    by_cases h0 : v = 0 ∨ b < 2
    · simp only [h0, dite_true, Nat.add_zero]; omega
    · simp only [h0, dite_false]
      have hlt : v / b < v := Nat.div_lt_self (by omega) (by omega)
      generalize hd : numDigits b (v / b) = d
      have hG := groupSize_cases b
      by_cases hs : c ≠ 0 ∧ c % groupSize b = 0 ∧ g = true
      · rw [if_pos hs]
        have := ih (v / b) hlt (c + 1) (digitChar (v % b) :: '_' :: buf)
        rw [hd] at this
        simp only [List.length_cons] at this
        obtain ⟨hs1, hs2, _⟩ := hs
        generalize groupSize b = G at *
        rcases hG with rfl | rfl | rfl <;> omega
      · rw [if_neg hs]
        have := ih (v / b) hlt (c + 1) (digitChar (v % b) :: buf)
        rw [hd] at this
        simp only [List.length_cons] at this
        generalize groupSize b = G at *
        rcases hG with rfl | rfl | rfl <;> omega

/-- `writeBody` writes at most `K` digits and `(K - 1) / groupSize` separators when `|x| < b^K`. -/
theorem writeBody_length_le (T : IntTy) (x : Int) (b : Nat) (g : Bool) (K : Nat)
    (hb : b = 2 ∨ b = 10 ∨ b = 16) (hK : 1 ≤ K) (hmag : x.natAbs < b ^ K) :
    (writeBody T x b g).length ≤ K + (K - 1) / groupSize b := by
  have hG := groupSize_cases b
  unfold writeBody
  simp only
  by_cases hx0 : x = 0
  · subst hx0
    simp only [if_true, show ¬ ((0 : Int) < 0) by omega, if_false]
    have : writeLoop b g (0 : Int).toNat 0 ['0'] = ['0'] := by
      unfold writeLoop; simp
    rw [this]
    simp only [List.length_cons, List.length_nil]
    exact Nat.le_trans hK (Nat.le_add_right _ _)
  · simp only [hx0, if_false]
    -- monotonicity of `d + (d - 1) / G` in `d`, for the three group sizes
    have mono : ∀ d, d ≤ K → d + (d - 1) / groupSize b ≤ K + (K - 1) / groupSize b := by
      intro d hd
      generalize groupSize b = G at *
      rcases hG with rfl | rfl | rfl <;> omega
    split
    · rename_i hneg
      split
      · -- `lowest()`: one digit buffered by hand, the loop continues with |x| / b
        generalize hm : (-(x + 1)).toNat = m
        have hM : m + 1 = x.natAbs := by omega
        generalize hv : (if m % b + 1 = b then m / b + 1 else m / b) = v'
        have hv' : v' * b ≤ m + 1 := by
          have := Nat.div_add_mod m b
          have hmod : m % b < b := Nat.mod_lt _ (by omega)
          rcases hb with rfl | rfl | rfl <;> (split at hv <;> omega)
        have hlt : v' < b ^ (K - 1) := by
          have hp : b ^ K = b ^ (K - 1) * b := by
            rw [← Nat.pow_succ]; congr 1; omega
          rw [hp, ← hM] at hmag
          exact Nat.lt_of_mul_lt_mul_right (Nat.lt_of_le_of_lt hv' hmag)
        have hd := numDigits_le_of_lt_pow b (K - 1) v' hlt
        have hl := writeLoop_length_le b g v' 1 [digitChar (if m % b + 1 = b then 0 else m % b + 1)]
        simp only [List.length_cons, List.length_nil] at hl
        have hm' := mono (numDigits b v' + 1) (by omega)
        generalize groupSize b = G at *
        rcases hG with rfl | rfl | rfl <;> omega
      · have hlt : (-x).toNat < b ^ K := by
          have : (-x).toNat = x.natAbs := by omega
          rw [this]; exact hmag
        have hd := numDigits_le_of_lt_pow b K _ hlt
        have hl := writeLoop_length_le b g (-x).toNat 0 []
        have hm' := mono _ hd
        simp only [List.length_nil] at hl
        generalize groupSize b = G at *
        rcases hG with rfl | rfl | rfl <;> omega
    · have hlt : x.toNat < b ^ K := by
        have : x.toNat = x.natAbs := by omega
        rw [this]; exact hmag
      have hd := numDigits_le_of_lt_pow b K _ hlt
      have hl := writeLoop_length_le b g x.toNat 0 []
      have hm' := mono _ hd
      simp only [List.length_nil] at hl
      generalize groupSize b = G at *
      rcases hG with rfl | rfl | rfl <;> omega

end Emboss.Text
