/-
The regenerated, kernel-checked `run` equations on the shipped Emboss parser tables
(Generated/Lr1EmbossRunsModule.lean, Generated/Lr1EmbossRunsExpression.lean; translator
harness/translate/lr1_emboss_runs.py): for real token streams of the real tokenizer,
`run <rows of generated/cached_parser.py that Parser.parse reads> fuel w` is the result of the
real `Parser.parse` — accepted streams with their whole parse tree, rejected ones with error code,
index, state and expected set.  This ties the model of the shift-reduce driver to the code on
Emboss-sized rows (225 productions, rows with dozens of entries, default errors, error codes) in
the obligations themselves; the compiled `run` over the complete tables is compared with
`Parser.parse` on hundreds of streams by ./check C08 and ./check C09.
-/
import Emboss.Generated.Lr1EmbossRunsModule
import Emboss.Generated.Lr1EmbossRunsExpression
namespace Emboss.Lr1.EmbossRuns

-- the shipped module parser accepts the smallest struct and builds this tree (as the real
-- `Parser.parse` does), and rejects a field without a name / a snake_case type name / a one-letter
-- enum value where the real one does, with the same state and expected set
example := And.intro moduleRun0 (And.intro moduleRun1 (And.intro moduleRun2 moduleRun3))
-- the shipped expression parser: an accepted comparison, a misplaced operator, a chained comparison (accepted by the grammar)
example := And.intro expressionRun0 (And.intro expressionRun1 expressionRun2)

end Emboss.Lr1.EmbossRuns
