/- Basic facts extracted from `Valid` and about the table lookups. -/
import Emboss.Spec.Lr1
namespace Emboss.Lr1

theorem lookup_mem {β} {a : Nat} {b : β} : ∀ {l : List (Nat × β)}, l.lookup a = some b → (a, b) ∈ l
  | [], h => by simp [List.lookup] at h
  | (k, v) :: l, h => by
    simp only [List.lookup] at h
    split at h
    · rename_i heq
      have : a = k := by simpa using heq
      cases h; subst this; exact List.mem_cons_self
    · exact List.mem_cons_of_mem _ (lookup_mem h)

theorem Automaton.entry_mem {A : Automaton} {s a : Nat} {x : Action} (h : A.entry s a = some x) :
    s < A.action.size ∧ ∃ r ∈ A.row s, (a, x) ∈ r := by
  unfold Automaton.entry at h
  split at h
  · rename_i r hr
    refine ⟨?_, r, hr, lookup_mem h⟩
    unfold Automaton.row at hr
    by_cases hs : s < A.action.size
    · exact hs
    · simp [Array.getElem?_eq_none (Nat.le_of_not_lt hs)] at hr
  · cases h

theorem Automaton.gotoOf_mem {A : Automaton} {s x s' : Nat} (h : A.gotoOf s x = some s') :
    s < A.goto.size ∧ (x, s') ∈ (A.goto[s]?).getD [] := by
  unfold Automaton.gotoOf at h
  refine ⟨?_, lookup_mem h⟩
  by_cases hs : s < A.goto.size
  · exact hs
  · simp [Array.getElem?_eq_none (Nat.le_of_not_lt hs)] at h

/-- `actionOf` is the table entry when it is not an error -/
theorem Automaton.actionOf_nonerror {A : Automaton} {s a : Nat} {x : Action}
    (h : A.actionOf s a = x) (hx : x.isError = false) : A.entry s a = some x := by
  unfold Automaton.actionOf at h
  split at h
  · rename_i y hy; rw [hy, h]
  · unfold Automaton.defaultAction at h
    split at h <;> (subst h; simp [Action.isError] at hx)

theorem Automaton.defaultAction_isError (A : Automaton) (s : Nat) : (A.defaultAction s).isError = true := by
  unfold Automaton.defaultAction; split <;> rfl

/-- a non-error action of `parse` is a table entry for the symbol of `tokens[cursor]`, which
is not a client token carrying the end-of-input marker -/
theorem nextAction_nonerror {A : Automaton} {w : List Token} {s i : Nat} {x : Action}
    (h : nextAction A w s i = x) (hx : x.isError = false) :
    clientEoi A w i = false ∧ A.entry s (lookahead A w i) = some x := by
  unfold nextAction at h
  split at h
  · subst h; rw [Automaton.defaultAction_isError] at hx; cases hx
  · rename_i hc
    exact ⟨by simpa using hc, Automaton.actionOf_nonerror h hx⟩

theorem nextAction_of_not_client {A : Automaton} {w : List Token} {s i : Nat}
    (h : clientEoi A w i = false) : nextAction A w s i = A.actionOf s (lookahead A w i) := by
  simp [nextAction, h]

/-- the end-of-input symbol under the cursor that is not a client token is the real end -/
theorem length_le_of_eoi {A : Automaton} {w : List Token} {k : Nat}
    (hc : clientEoi A w k = false) (h : lookahead A w k = A.eoi) : w.length ≤ k := by
  by_cases hk : k < w.length
  · exfalso
    have e : w[k]? = some w[k] := List.getElem?_eq_getElem hk
    simp only [lookahead, e] at h
    simp [clientEoi, e, h] at hc
  · exact Nat.le_of_not_lt hk

theorem clientEoi_false_of_forall {A : Automaton} {w : List Token} (hw : ∀ t ∈ w, t.sym ≠ A.eoi) (i : Nat) :
    clientEoi A w i = false := by
  unfold clientEoi
  cases h : w[i]? with
  | none => rfl
  | some t => simpa using hw t (List.mem_of_getElem? h)

theorem Cert.itemsOf_nil_of_ge {C : Cert} {s : Nat} (h : C.items.size ≤ s) : C.itemsOf s = [] := by
  simp [Cert.itemsOf, Array.getElem?_eq_none h]

theorem Cert.lt_of_mem {C : Cert} {s : Nat} {it : Item} (h : it ∈ C.itemsOf s) : s < C.items.size := by
  by_cases hs : s < C.items.size
  · exact hs
  · rw [Cert.itemsOf_nil_of_ge (Nat.le_of_not_lt hs)] at h; cases h

section
variable {G : Grammar} {A : Automaton} {C : Cert}

theorem Valid.wf (h : Valid G A C) : VWf G A C := h.1
theorem Valid.start (h : Valid G A C) : VStart (listMem C) G C := h.2.1
theorem Valid.trans (h : Valid G A C) : VTrans (listMem C) A C := h.2.2.1
theorem Valid.closure (h : Valid G A C) : VClosure (listMem C) C := h.2.2.2.1
theorem Valid.complete (h : Valid G A C) : VComplete A C := h.2.2.2.2.1
theorem Valid.kernel (h : Valid G A C) : VKernel (listMem C) A C := h.2.2.2.2.2.1
theorem Valid.order (h : Valid G A C) : VOrder C := h.2.2.2.2.2.2.1
theorem Valid.actJust (h : Valid G A C) : VActJust (listMem C) G A C := h.2.2.2.2.2.2.2.1
theorem Valid.first (h : Valid G A C) : VFirst C := h.2.2.2.2.2.2.2.2

theorem Valid.prods_eq (h : Valid G A C) : A.prods = G.all := h.wf.1
theorem Valid.eoi_eq (h : Valid G A C) : A.eoi = G.eoi := h.wf.2.1
theorem Valid.rules_eq (h : Valid G A C) : C.rules.toList = G.all := h.wf.2.2.2.2.2.2.2.1

theorem Valid.ruleAt (h : Valid G A C) (i : Nat) : C.ruleAt i = G.all[i]? := by
  unfold Cert.ruleAt; rw [← h.rules_eq]; simp

theorem Valid.seedIdx (h : Valid G A C) : C.seedIdx = G.prods.length := by
  unfold Cert.seedIdx
  have : C.rules.size = G.all.length := by rw [← h.rules_eq]; simp
  rw [this]; simp [Grammar.all]

theorem Valid.ruleAt_seed (h : Valid G A C) : C.ruleAt C.seedIdx = some G.seed := by
  rw [h.ruleAt, h.seedIdx]; simp [Grammar.all]

theorem Valid.ruleAt_user (h : Valid G A C) {i : Nat} (hi : i < C.seedIdx) {p : Rule}
    (hp : C.ruleAt i = some p) : p ∈ G.prods ∧ A.prods[i]? = some p := by
  rw [h.seedIdx] at hi
  rw [h.ruleAt] at hp
  refine ⟨?_, by rw [h.prods_eq]; exact hp⟩
  simp only [Grammar.all] at hp
  rw [List.getElem?_append_left hi] at hp
  exact List.mem_of_getElem? hp

theorem Valid.ruleAt_mem (h : Valid G A C) {i : Nat} {p : Rule} (hp : C.ruleAt i = some p) : p ∈ G.all := by
  rw [h.ruleAt] at hp; exact List.mem_of_getElem? hp

theorem Grammar.isNT_iff {G : Grammar} {x : Nat} : G.isNT x = true ↔ ∃ p ∈ G.all, p.lhs = x := by
  simp [Grammar.isNT]

theorem Valid.isNT (h : Valid G A C) (x : Nat) : C.isNT x = G.isNT x := by
  have hw := h.wf
  have h1 : ∀ p ∈ G.all, C.isNT p.lhs = true := hw.2.2.2.2.2.2.2.2.2.1
  have h2 : ∀ x < C.nt.size, C.isNT x = true → G.isNT x = true := hw.2.2.2.2.2.2.2.2.2.2.1
  cases hg : G.isNT x
  · cases hc : C.isNT x
    · rfl
    · have hlt : x < C.nt.size := by
        by_cases hs : x < C.nt.size
        · exact hs
        · simp [Cert.isNT, Array.getElem?_eq_none (Nat.le_of_not_lt hs)] at hc
      rw [h2 x hlt hc] at hg; cases hg
  · obtain ⟨p, hp, rfl⟩ := Grammar.isNT_iff.mp hg
    exact h1 p hp

theorem Valid.isNT_lhs (h : Valid G A C) {p : Rule} (hp : p ∈ G.all) : C.isNT p.lhs = true :=
  h.wf.2.2.2.2.2.2.2.2.2.1 p hp

end
end Emboss.Lr1
