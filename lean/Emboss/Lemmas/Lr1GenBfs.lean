/-
Level B, part 3: the state graph of the generator model (`Gen.expand`, `Gen.bfs`): item
well-formedness, and the invariant of the breadth-first construction — every recorded transition
`s --x--> k` leads to the closure of the advanced items of `s`, every symbol after a dot of a
processed state has its transition, the two copies of each item set (sorted / discovery order)
have the same members.
-/
import Emboss.Lemmas.Lr1Gen
import Emboss.Lemmas.Lr1GenTables
namespace Emboss.Lr1
namespace Gen

variable {G : Grammar} {C : Cert}

/-! ### facts about the rules -/

theorem TabOK.ruleAt_eq (hT : TabOK G C) (j : Nat) : C.ruleAt j = G.all[j]? := by
  unfold Cert.ruleAt
  rw [← hT.rules, Array.getElem?_toList]

theorem TabOK.seedIdx_eq (hT : TabOK G C) : C.seedIdx = G.prods.length := by
  have : C.rules.size = G.prods.length + 1 := by
    rw [← Array.length_toList, hT.rules]; simp [Grammar.all]
  simp [Cert.seedIdx, this]

theorem TabOK.ruleAt_seed (hT : TabOK G C) : C.ruleAt C.seedIdx = some G.seed := by
  rw [hT.ruleAt_eq, hT.seedIdx_eq]
  simp [Grammar.all]

theorem TabOK.rule_mem (hT : TabOK G C) {j : Nat} {p : Rule} (h : C.ruleAt j = some p) : p ∈ G.all := by
  rw [hT.ruleAt_eq] at h
  exact List.mem_of_getElem? h

/-- a production other than the seed is a user production, with a smaller index -/
theorem TabOK.rule_user (hT : TabOK G C) {j : Nat} {p : Rule} (h : C.ruleAt j = some p)
    (hj : j ≠ C.seedIdx) : j < C.seedIdx ∧ p ∈ G.prods := by
  rw [hT.ruleAt_eq] at h
  rw [hT.seedIdx_eq] at hj ⊢
  have hlt : j < G.all.length := (List.getElem?_eq_some_iff.mp h).1
  have hlt' : j < G.prods.length := by
    simp only [Grammar.all, List.length_append, List.length_singleton] at hlt
    omega
  refine ⟨hlt', ?_⟩
  simp only [Grammar.all, List.getElem?_append_left hlt'] at h
  exact List.mem_of_getElem? h

theorem rhs_ne_startPrime (hW : WfG G) {p : Rule} (hp : p ∈ G.all) {x : Nat} (hx : x ∈ p.rhs) :
    x ≠ G.startPrime := by
  obtain ⟨h1, _, _, _, h5⟩ := hW
  rcases List.mem_append.mp hp with hp | hp
  · exact (h5 p hp).2 x hx
  · simp only [List.mem_singleton] at hp
    subst hp
    simp only [Grammar.seed, List.mem_singleton] at hx
    subst hx; exact h1

theorem nextSyms_eq {it : Item} {x : Nat} :
    x ∈ C.nextSyms it ↔ ∃ p, C.ruleAt it.pi = some p ∧ p.rhs[it.dot]? = some x := by
  unfold Cert.nextSyms
  cases C.ruleAt it.pi with
  | none => simp
  | some p => simp

theorem nextSyms_singleton {it : Item} {x : Nat} : x ∈ C.nextSyms it ↔ C.nextSyms it = [x] := by
  unfold Cert.nextSyms
  cases C.ruleAt it.pi with
  | none => simp
  | some p =>
    simp only []
    cases p.rhs[it.dot]? with
    | none => simp
    | some y =>
      simp only [Option.toList_some, List.mem_singleton, List.cons.injEq, and_true]
      exact eq_comm

theorem TabOK.succLhs (hT : TabOK G C) : SuccLhs C := by
  intro it j hj
  obtain ⟨p, x, hp, hx, k, hk, c, _, rfl⟩ := mem_succsOf.mp hj
  obtain ⟨q, hq, hl⟩ := hT.prodsS x k hk
  exact ⟨q, hq, by rw [hl]; exact nextSyms_eq.mpr ⟨p, hp, hx⟩⟩

/-! ### well-formed items -/

structure ItemOK (G : Grammar) (C : Cert) (it : Item) : Prop where
  rule : ∃ p, C.ruleAt it.pi = some p ∧ it.dot ≤ p.rhs.length
  seedLa : it.pi = C.seedIdx → it.la = G.eoi
  laT : C.isNT it.la = false

theorem succ_not_seed (hT : TabOK G C) (hW : WfG G) {it y : Item} (hit : ItemOK G C it)
    (hy : y ∈ succsOf C it) : y.pi ≠ C.seedIdx := by
  obtain ⟨p, x, hp, hx, k, hk, c, _, rfl⟩ := mem_succsOf.mp hy
  obtain ⟨q, hq, hl⟩ := hT.prodsS x k hk
  intro hk'
  simp only at hk'
  rw [hk', hT.ruleAt_seed] at hq
  cases hq
  exact rhs_ne_startPrime hW (hT.rule_mem hp) (List.mem_of_getElem? hx) hl.symm

theorem ItemOK.succ (hT : TabOK G C) (hW : WfG G) {it y : Item} (hit : ItemOK G C it)
    (hy : y ∈ succsOf C it) : ItemOK G C y := by
  have hns := succ_not_seed hT hW hit hy
  obtain ⟨p, x, hp, hx, k, hk, c, hc, rfl⟩ := mem_succsOf.mp hy
  obtain ⟨q, hq, _⟩ := hT.prodsS x k hk
  refine ⟨⟨q, hq, Nat.zero_le _⟩, fun h => absurd h hns, ?_⟩
  refine hT.fterm.firstSeq hc ?_
  intro a ha
  simp only [List.mem_singleton] at ha
  subst ha; exact hit.laT

theorem ItemOK.advance {it : Item} {x : Nat} (hit : ItemOK G C it) (hn : C.nextSyms it = [x]) :
    ItemOK G C (advance it) := by
  obtain ⟨p, hp, hx⟩ := nextSyms_eq.mp (nextSyms_singleton.mpr hn)
  refine ⟨⟨p, hp, ?_⟩, hit.seedLa, hit.laT⟩
  have := (List.getElem?_eq_some_iff.mp hx).1
  simp only [Gen.advance]; omega

/-! ### one transition -/

/-- `J` is `goto(I, x)` as far as the validator is concerned -/
def EdgeOK (C : Cert) (I : List Item) (x : Nat) (J : List Item) : Prop :=
  (∃ it ∈ I, C.nextSyms it = [x]) ∧
  (∀ it ∈ I, C.nextSyms it = [x] → advance it ∈ J) ∧
  (∀ y ∈ J, (y.dot = 0 ∧ y.pi ≠ C.seedIdx) ∨ ∃ it ∈ I, C.nextSyms it = [x] ∧ y = advance it)

theorem gotoSet_edge (hT : TabOK G C) (hW : WfG G) {I J : List Item} {x : Nat}
    (h : gotoSet C I x = some J) (hI : ∀ it ∈ I, ItemOK G C it) (hx : ∃ it ∈ I, C.nextSyms it = [x]) :
    EdgeOK C I x (norm J) ∧ Closed C (norm J) ∧ (∀ y ∈ norm J, ItemOK G C y) ∧
      JustOrder C [] J.reverse := by
  obtain ⟨g1, g2, _⟩ := gotoSet_spec h
  have hseed : ∀ y ∈ (I.filter (fun it => C.nextSyms it == [x])).map advance,
      ∃ it ∈ I, C.nextSyms it = [x] ∧ y = advance it := by
    intro y hy
    obtain ⟨it, hf, rfl⟩ := List.mem_map.mp hy
    obtain ⟨hit, hn⟩ := List.mem_filter.mp hf
    exact ⟨it, hit, by simpa using hn, rfl⟩
  have hok : ∀ y ∈ J, ItemOK G C y := by
    refine closure_all (fun it hit y hy => ItemOK.succ hT hW hit hy) h ?_
    intro y hy
    obtain ⟨it, hit, hn, rfl⟩ := hseed y hy
    exact (hI it hit).advance hn
  obtain ⟨_, _, c3⟩ := closure_spec h
  refine ⟨⟨hx, fun it hit hn => mem_norm.mpr (g1 it hit hn), ?_⟩, g2.norm,
    fun y hy => hok y (mem_norm.mp hy), ?_⟩
  · intro y hy
    rcases c3 y (mem_norm.mp hy) with hs | ⟨h0, z, hz, hzy⟩
    · exact Or.inr (hseed y hs)
    · exact Or.inl ⟨h0, succ_not_seed hT hW (hok z hz) hzy⟩
  · refine closure_justOrder hT.succLhs h ?_
    intro y hy h0
    obtain ⟨it, _, _, rfl⟩ := hseed y hy
    simp [Gen.advance] at h0

/-! ### the breadth-first construction -/

theorem push_some {α} {a : Array α} {k : Nat} {v w : α} (h : a[k]? = some v) : (a.push w)[k]? = some v := by
  have hk : k < a.size := (Array.getElem?_eq_some_iff.mp h).1
  rw [Array.getElem?_push, if_neg (Nat.ne_of_lt hk)]
  exact h

theorem of_push_some {α} {a : Array α} {k : Nat} {v w : α} (h : (a.push w)[k]? = some v) :
    a[k]? = some v ∨ (k = a.size ∧ v = w) := by
  rw [Array.getElem?_push] at h
  split at h
  · rename_i hk
    cases h
    exact Or.inr ⟨hk, rfl⟩
  · exact Or.inl h

theorem stateIndex_some {st : St} {J : List Item} {k : Nat} (h : stateIndex st J = some k) :
    st.states[k]? = some J := by
  unfold stateIndex at h
  obtain ⟨hk, hp, _⟩ := Array.findIdx?_eq_some_iff_getElem.mp h
  have : st.states[k] = J := by simpa using hp
  rw [Array.getElem?_eq_getElem hk, this]

structure Inv (G : Grammar) (C : Cert) (st : St) : Prop where
  size : st.just.size = st.states.size
  tsize : st.trans.size ≤ st.states.size
  mem : ∀ (i : Nat) (I L : List Item), st.states[i]? = some I → st.just[i]? = some L → ∀ it, it ∈ L ↔ it ∈ I
  closed : ∀ (i : Nat) (I : List Item), st.states[i]? = some I → Closed C I
  ok : ∀ (i : Nat) (I : List Item), st.states[i]? = some I → ∀ it ∈ I, ItemOK G C it
  order : ∀ (i : Nat) (L : List Item), st.just[i]? = some L → JustOrder C [] L
  edges : ∀ (s : Nat) (row : List (Nat × Nat)), st.trans[s]? = some row → ∀ e ∈ row,
    ∃ I J, st.states[s]? = some I ∧ st.states[e.2]? = some J ∧ EdgeOK C I e.1 J
  total : ∀ (s : Nat) (row : List (Nat × Nat)) (I : List Item), st.trans[s]? = some row → st.states[s]? = some I →
    ∀ it ∈ I, ∀ x ∈ C.nextSyms it, (row.lookup x).isSome = true

theorem Inv.push {st : St} {J : List Item} (hinv : Inv G C st) (e2 : Closed C (norm J))
    (e3 : ∀ y ∈ norm J, ItemOK G C y) (e4 : JustOrder C [] J.reverse) :
    Inv G C { st with states := st.states.push (norm J), just := st.just.push J.reverse } := by
  refine ⟨by simp [hinv.size], by simp; have := hinv.tsize; omega, ?_, ?_, ?_, ?_, ?_, ?_⟩
  · intro k K L hK hL it
    rcases of_push_some hK with hK | ⟨hk, rfl⟩
    · rcases of_push_some hL with hL | ⟨hk', _⟩
      · exact hinv.mem k K L hK hL it
      · have := (Array.getElem?_eq_some_iff.mp hK).1
        have := hinv.size
        omega
    · rcases of_push_some hL with hL | ⟨_, rfl⟩
      · have := (Array.getElem?_eq_some_iff.mp hL).1
        have := hinv.size
        omega
      · rw [List.mem_reverse, mem_norm]
  · intro k K hK
    rcases of_push_some hK with hK | ⟨_, rfl⟩
    · exact hinv.closed k K hK
    · exact e2
  · intro k K hK
    rcases of_push_some hK with hK | ⟨_, rfl⟩
    · exact hinv.ok k K hK
    · exact e3
  · intro k L hL
    rcases of_push_some hL with hL | ⟨_, rfl⟩
    · exact hinv.order k L hL
    · exact e4
  · intro s r hr e he
    obtain ⟨A, B, hA, hB, hE⟩ := hinv.edges s r hr e he
    exact ⟨A, B, push_some hA, push_some hB, hE⟩
  · intro s r K hr hK it hit y hy
    have hs : s < st.states.size := by
      have h1 : s < st.trans.size := (Array.getElem?_eq_some_iff.mp hr).1
      have := hinv.tsize
      omega
    rcases of_push_some hK with hK | ⟨hk, _⟩
    · exact hinv.total s r K hr hK it hit y hy
    · omega


theorem Inv.pushRow {st1 : St} {I : List Item} {i : Nat} {row : List (Nat × Nat)} (r1 : Inv G C st1)
    (hI1 : st1.states[i]? = some I) (hts : st1.trans.size = i)
    (r4 : ∀ e ∈ row, ∃ J, st1.states[e.2]? = some J ∧ EdgeOK C I e.1 J)
    (r5 : ∀ it ∈ I, ∀ y ∈ C.nextSyms it, (row.lookup y).isSome = true) :
    Inv G C { st1 with trans := st1.trans.push row } := by
  have hlt : i < st1.states.size := (Array.getElem?_eq_some_iff.mp hI1).1
  refine ⟨r1.size, by simp [hts]; omega, r1.mem, r1.closed, r1.ok, r1.order, ?_, ?_⟩
  · intro s rw' hr e hem
    rcases of_push_some hr with hr | ⟨hs, rfl⟩
    · exact r1.edges s rw' hr e hem
    · obtain ⟨B, hB, hE⟩ := r4 e hem
      rw [hts] at hs
      subst hs
      exact ⟨I, B, hI1, hB, hE⟩
  · intro s rw' K hr hK it hit y hy
    rcases of_push_some hr with hr | ⟨hs, rfl⟩
    · exact r1.total s rw' K hr hK it hit y hy
    · rw [hts] at hs
      subst hs
      have : K = I := by
        have h1 : st1.states[s]? = some K := hK
        rw [hI1] at h1
        cases h1; rfl
      subst this
      exact r5 it hit y hy

theorem lookup_snoc_isSome {x k : Nat} (row : List (Nat × Nat)) :
    ((row ++ [(x, k)]).lookup x).isSome = true := by
  rw [List.lookup_append]
  cases row.lookup x with
  | some _ => rfl
  | none => simp [List.lookup]

theorem lookup_append_isSome {x : Nat} {row r : List (Nat × Nat)} (h : (row.lookup x).isSome = true) :
    ((row ++ r).lookup x).isSome = true := by
  rw [List.lookup_append]
  cases hl : row.lookup x with
  | some _ => rfl
  | none => rw [hl] at h; cases h

theorem expand_inv (hT : TabOK G C) (hW : WfG G) {I : List Item} {i : Nat} :
    ∀ (xs : List Nat) (st : St) (row : List (Nat × Nat)) (st' : St) (row' : List (Nat × Nat)),
    expand C I xs st row = some (st', row') →
    Inv G C st → st.states[i]? = some I →
    (∀ x ∈ xs, ∃ it ∈ I, C.nextSyms it = [x]) →
    (∀ e ∈ row, ∃ J, st.states[e.2]? = some J ∧ EdgeOK C I e.1 J) →
    Inv G C st' ∧ st'.trans = st.trans ∧ (∀ (k : Nat) (K : List Item), st.states[k]? = some K → st'.states[k]? = some K) ∧
    (∀ (k : Nat) (L : List Item), st.just[k]? = some L → st'.just[k]? = some L) ∧
    (∀ e ∈ row', ∃ J, st'.states[e.2]? = some J ∧ EdgeOK C I e.1 J) ∧
    (∀ x, (row.lookup x).isSome = true ∨ x ∈ xs → (row'.lookup x).isSome = true)
  | [], st, row, st', row', h, hinv, _, _, hrow => by
    simp only [expand, Option.some.injEq, Prod.mk.injEq] at h
    obtain ⟨rfl, rfl⟩ := h
    refine ⟨hinv, rfl, fun _ _ h => h, fun _ _ h => h, hrow, ?_⟩
    intro x hx
    rcases hx with hx | hx
    · exact hx
    · cases hx
  | x :: xs, st, row, st', row', h, hinv, hI, hxs, hrow => by
    simp only [expand] at h
    cases hg : gotoSet C I x with
    | none => simp [hg] at h
    | some J =>
      simp only [hg] at h
      obtain ⟨e1, e2, e3, e4⟩ := gotoSet_edge hT hW hg (hinv.ok i I hI) (hxs x List.mem_cons_self)
      have hxs' : ∀ x ∈ xs, ∃ it ∈ I, C.nextSyms it = [x] := fun y hy => hxs y (List.mem_cons_of_mem _ hy)
      cases hi : stateIndex st (Gen.norm J) with
      | some k =>
        simp only [hi] at h
        have hk := stateIndex_some hi
        obtain ⟨r1, r2, r3, r3', r4, r5⟩ := expand_inv hT hW xs st _ st' row' h hinv hI hxs' (by
          intro e he
          rcases List.mem_append.mp he with he | he
          · exact hrow e he
          · simp only [List.mem_singleton] at he
            subst he
            exact ⟨_, hk, e1⟩)
        refine ⟨r1, r2, r3, r3', r4, ?_⟩
        intro y hy
        rcases hy with hy | hy
        · exact r5 y (Or.inl (lookup_append_isSome hy))
        · rcases List.mem_cons.mp hy with rfl | hy
          · exact r5 y (Or.inl (lookup_snoc_isSome row))
          · exact r5 y (Or.inr hy)
      | none =>
        simp only [hi] at h
        have hinv' := hinv.push e2 e3 e4
        obtain ⟨r1, r2, r3, r3', r4, r5⟩ := expand_inv hT hW xs _ _ st' row' h hinv' (push_some hI) hxs' (by
          intro e he
          rcases List.mem_append.mp he with he | he
          · obtain ⟨B, hB, hE⟩ := hrow e he
            exact ⟨B, push_some hB, hE⟩
          · simp only [List.mem_singleton] at he
            subst he
            exact ⟨_, Array.getElem?_push_size, e1⟩)
        refine ⟨r1, r2, fun k K hK => r3 k K (push_some hK), fun k L hL => r3' k L (push_some hL), r4, ?_⟩
        intro y hy
        rcases hy with hy | hy
        · exact r5 y (Or.inl (lookup_append_isSome hy))
        · rcases List.mem_cons.mp hy with rfl | hy
          · exact r5 y (Or.inl (lookup_snoc_isSome row))
          · exact r5 y (Or.inr hy)

theorem bfs_inv (hT : TabOK G C) (hW : WfG G) : ∀ (f i : Nat) (st st' : St), bfs C f i st = some st' →
    Inv G C st → st.trans.size = i →
    Inv G C st' ∧ st'.trans.size = st'.states.size ∧
      (∀ (k : Nat) (K : List Item), st.states[k]? = some K → st'.states[k]? = some K) ∧
      (∀ (k : Nat) (L : List Item), st.just[k]? = some L → st'.just[k]? = some L)
  | 0, _, _, _, h, _, _ => by simp [bfs] at h
  | f + 1, i, st, st', h, hinv, hi => by
    simp only [bfs] at h
    cases hI : st.states[i]? with
    | none =>
      simp only [hI, Option.some.injEq] at h
      subst h
      refine ⟨hinv, ?_, fun _ _ h => h, fun _ _ h => h⟩
      have := hinv.tsize
      have : st.states.size ≤ i := by
        by_cases hlt : i < st.states.size
        · rw [Array.getElem?_eq_getElem hlt] at hI; cases hI
        · omega
      omega
    | some I =>
      simp only [hI] at h
      cases he : expand C I (normN (I.flatMap C.nextSyms)) st [] with
      | none => simp [he] at h
      | some r =>
        obtain ⟨st1, row⟩ := r
        simp only [he] at h
        obtain ⟨r1, r2, r3, r3', r4, r5⟩ := expand_inv hT hW (i := i) _ _ _ _ _ he hinv hI (by
          intro x hx
          obtain ⟨it, hit, hx⟩ := List.mem_flatMap.mp (mem_normN.mp hx)
          exact ⟨it, hit, nextSyms_singleton.mp hx⟩) (by intro e he; cases he)
        have hI1 := r3 i I hI
        have hlt : i < st1.states.size := (Array.getElem?_eq_some_iff.mp hI1).1
        have hts : st1.trans.size = i := by rw [r2]; exact hi
        obtain ⟨b1, b2, b3, b3'⟩ := bfs_inv hT hW f (i + 1) _ st' h
          (r1.pushRow hI1 hts r4 (fun it hit y hy =>
            r5 y (Or.inr (mem_normN.mpr (List.mem_flatMap.mpr ⟨it, hit, hy⟩))))) (by simp [hts])
        exact ⟨b1, b2, fun k K hK => b3 k K (r3 k K hK), fun k L hL => b3' k L (r3' k L hL)⟩

end Gen
end Emboss.Lr1
