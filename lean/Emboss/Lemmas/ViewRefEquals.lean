/-
Pieces for C01's size statement over R and for C20 (`Equals` vs. logical equality): the
synthesised size is fold-free on the fragment; the per-field clause of the generated `Equals` for
scalar fields in terms of what the two views report.
-/
import Emboss.Lemmas.ViewRefComplete
namespace Emboss.ViewRef
open Emboss.View

/-- condition and location of a field carry no folding annotations -/
def locFoldFree (f : Field) : Bool :=
  foldFree f.cond &&
  match f.kind with
  | .phys start size _ _ => foldFree start && foldFree size
  | _ => true

theorem locFoldFree_of_ref {m : Module} {unit : Nat} {f : Field} (h : refField m unit f = true) :
    locFoldFree f = true := by
  unfold refField at h
  unfold locFoldFree
  simp only [Bool.and_eq_true] at h ⊢
  refine ⟨h.1, ?_⟩
  cases hk : f.kind with
  | alias t => rfl
  | virt a b => rfl
  | phys start size ty bo =>
    have h2 := h.2
    rw [hk] at h2
    cases ty with
    | scalar k bits req =>
      simp only [Bool.and_eq_true] at h2
      obtain ⟨z, hz, _⟩ := sizeIsBits_inv h2.2
      subst hz
      have hs := h2.1.1.2
      simp only [foldFree] at hs
      simp only [foldFree, closedFolds, hs, Bool.and_self]
    | struct name bits args =>
      simp only [Bool.and_eq_true] at h2
      simp only [h2.1.1.1, h2.1.1.2, Bool.and_self]
    | array el es =>
      cases el with
      | scalar k bits req =>
        simp only [Bool.and_eq_true] at h2
        simp only [h2.1.1.1.1.1.2, h2.1.1.1.1.2, Bool.and_self]
      | struct a b c => cases h2
      | array a b => cases h2

theorem foldFree_sizeClauses : ∀ fs : List Field, fs.all locFoldFree = true →
    foldFreeList (sizeClauses fs) = true
  | [], _ => rfl
  | f :: fs, h => by
    simp only [List.all_cons, Bool.and_eq_true] at h
    have ih := foldFree_sizeClauses fs h.2
    have hf := h.1
    unfold locFoldFree at hf
    simp only [Bool.and_eq_true] at hf
    unfold sizeClauses
    cases hk : f.kind with
    | alias t => simpa only using ih
    | virt a b => simpa only using ih
    | phys start size ty bo =>
      rw [hk] at hf
      simp only [Bool.and_eq_true, foldFree] at hf
      simp only [foldFreeList] at ih ⊢
      simp only [closedFoldsList, sizeClause, closedFolds, hf.1, hf.2.1, hf.2.2, ih, Bool.and_self]

theorem foldFree_synthSize (fs : List Field) (h : fs.all locFoldFree = true) :
    foldFree (synthSize fs) = true := by
  have := foldFree_sizeClauses fs h
  simp only [foldFreeList] at this
  simp only [synthSize, foldFree, closedFolds, closedFoldsList, this, Bool.and_self]

/-- The per-field clause of the generated `Equals`, for a scalar physical field, in terms of what
the two views report one level up. -/
theorem fieldEquals_scalar (m : Module) (n : Nat) (wa wb : SView) (hsd : wb.sd = wa.sd)
    (eqv : SView → SView → Bool) {f : Field} (hf : wa.sd.field f.name = some f)
    {start size : Expr} {k : ScalarKind} {bits : Nat} {req : Option Expr} {bo : ByteOrder}
    (hk : f.kind = .phys start size (.scalar k bits req) bo) :
    fieldEquals (G m n) m eqv wa wb f =
      match (G m (n + 1)).has wa [f.name], (G m (n + 1)).has wb [f.name] with
      | some ha, some hb =>
        ha == hb && (!ha ||
          (match (G m (n + 1)).read wa [f.name], (G m (n + 1)).read wb [f.name] with
           | some x, some y => x == y
           | _, _ => false))
      | _, _ => false := by
  have hfb : wb.sd.field f.name = some f := by rw [hsd]; exact hf
  simp only [G]
  rw [step_has_nil m _ wa hf, step_has_nil m _ wb hfb,
    step_read_scalar m _ wa hf hk, step_read_scalar m _ wb hfb hk]
  simp only [fieldEquals, hk, argsKnown, ↓reduceIte]
  cases hasField (G m n) wa f with
  | none => rfl
  | some ha =>
    cases hasField (G m n) wb f with
    | none => rfl
    | some hb =>
      simp only
      congr 2
      cases physStorage (G m n) wa f start size with
      | none => simp
      | some sa =>
        cases physStorage (G m n) wb f start size with
        | none => simp
        | some sb =>
          simp only [typeEquals]
          cases leafRead (G m n) wa k bits req (Storage.adaptFor wa.sd.unit 1 bo bits sa) <;>
            cases leafRead (G m n) wb k bits req (Storage.adaptFor wb.sd.unit 1 bo bits sb) <;> rfl

end Emboss.ViewRef
