/-
Representability, CouldWriteValue and TryToWrite assembled over `fieldView`.
-/
import Emboss.Lemmas.ScalarBcdWrite
namespace Emboss.Scalar
open Emboss.Bits Emboss.Scalar.Spec

variable {bb : BitBlock} {o w : Nat}

theorem twos_range {w d : Nat} (hw : 1 ≤ w) (hd : d < 2 ^ w) :
    -((2 ^ (w - 1) : Nat) : Int) ≤ twos w d ∧ twos w d < ((2 ^ (w - 1) : Nat) : Int) := by
  have := pow_pred_double (W := w) (by omega)
  unfold twos; split <;> omega

theorem representable_unsigned {ty : Ty}
    (hty : decodeSpec ty w = fun d : Nat => some ((d : Nat) : Int)) (x : Int) :
    Representable ty w x ↔ 0 ≤ x ∧ x < ((2 ^ w : Nat) : Int) := by
  unfold Representable; rw [hty]
  constructor
  · rintro ⟨d, hd, he⟩; simp only [Option.some.injEq] at he; omega
  · rintro ⟨h0, h1⟩; exact ⟨x.toNat, by omega, by simp only [Option.some.injEq]; omega⟩

theorem representable_signed {ty : Ty} (hty : decodeSpec ty w = fun d => some (twos w d)) (hw : 1 ≤ w)
    (x : Int) :
    Representable ty w x ↔ -((2 ^ (w - 1) : Nat) : Int) ≤ x ∧ x < ((2 ^ (w - 1) : Nat) : Int) := by
  unfold Representable; rw [hty]
  constructor
  · rintro ⟨d, hd, he⟩
    simp only [Option.some.injEq] at he; rw [← he]; exact twos_range hw hd
  · rintro ⟨h0, h1⟩
    obtain ⟨he, hlt⟩ := twos_ofInt (by omega) h0 h1
    exact ⟨ofInt w x, hlt, by simp only [he]⟩

/-! ### Successful TryToWrite -/

theorem tryToWrite_written (h : Placed bb o w) (direct : Bool)
    (hd : direct = true → o = 0 ∧ w = bb.c) (ty : Ty) (t : IntT) (x : Int)
    (hc : (fieldView ty direct bb o w).couldWrite t x = true)
    (henc : (fieldView ty direct bb o w).encode x < 2 ^ w) :
    ∃ bytes', (fieldView ty direct bb o w).tryToWrite t x =
        .written (fieldView ty direct { bb with bytes := bytes' } o w) ∧
      Placed { bb with bytes := bytes' } o w ∧
      Updated o w (containerValue bb.order bb.bytes) ((fieldView ty direct bb o w).encode x)
        (containerValue bb.order bytes') := by
  obtain ⟨bytes', hw, hp, hu⟩ := fieldBuf_writeUInt h direct hd henc
  refine ⟨bytes', ?_, hp, hu⟩
  unfold View.tryToWrite
  rw [if_neg (by simp [hc]), if_neg (by simp [fieldView_isComplete h direct hd ty])]
  have : (fieldView ty direct bb o w).buf = fieldBuf direct bb o w := rfl
  rw [this, hw]
  rfl

theorem tryToWrite_refused_of_not_could (v : View) (t : IntT) (x : Int)
    (hc : v.couldWrite t x = false) : v.tryToWrite t x = .refused := by
  unfold View.tryToWrite; rw [if_pos (by simp [hc])]

theorem tryToWrite_refused_of_incomplete (v : View) (t : IntT) (x : Int)
    (hc : v.isComplete = false) : v.tryToWrite t x = .refused := by
  unfold View.tryToWrite
  split
  · rfl
  · rw [if_pos (by simp [hc])]

/-! ### CouldWriteValue per view -/

theorem uint_could (k : Nat) (hk : 1 ≤ k) (hk64 : k ≤ 64) (buf : Buf) (t : IntT) (x : Int)
    (ht : t.holds x = true) (htw : t.width ≤ 64) :
    (View.mk .uint k buf).couldWrite t x = true ↔ 0 ≤ x ∧ x < ((2 ^ k : Nat) : Int) := by
  obtain ⟨h64, _⟩ := IntT.holds_lt64 ht htw
  simp only [View.couldWrite, View.VW, uint_bound_eq hk hk64, Bool.and_eq_true, decide_eq_true_eq]
  have hp := two_pow_pos' k
  constructor
  · rintro ⟨h0, hb⟩
    rw [ofInt_of_nonneg h0 h64] at hb
    omega
  · rintro ⟨h0, hb⟩
    refine ⟨h0, ?_⟩
    rw [ofInt_of_nonneg h0 h64]; omega

theorem int_could (k : Nat) (hk : 1 ≤ k) (hk64 : k ≤ 64) (buf : Buf) (t : IntT) (x : Int)
    (ht : t.holds x = true) :
    (View.mk .int k buf).couldWrite t x = true ↔
      -((2 ^ (k - 1) : Nat) : Int) ≤ x ∧ x < ((2 ^ (k - 1) : Nat) : Int) := by
  have hx0 : t.signed = false → 0 ≤ x := by
    intro hs; unfold IntT.holds at ht; rw [hs] at ht; simp at ht; omega
  simp only [View.couldWrite, View.VW]
  by_cases h1 : k = 1
  · subst h1
    simp only [if_true, Bool.and_eq_true, Bool.or_eq_true, Bool.not_eq_true', decide_eq_true_eq]
    constructor
    · rintro ⟨hlo, hhi⟩
      rcases hlo with hs | hlo
      · have := hx0 hs; simp; omega
      · simp; omega
    · rintro ⟨hlo, hhi⟩; simp at hlo hhi
      exact ⟨Or.inr (by omega), by omega⟩
  · have hb := int_bounds_eq (k := k) (by omega) hk64
    simp only [h1, if_false, hb, Bool.and_eq_true, Bool.or_eq_true, Bool.not_eq_true',
      decide_eq_true_eq]
    have hp : 2 ^ (k - 1) = 2 * 2 ^ (k - 2) := by
      rw [show k - 1 = (k - 2) + 1 by omega, Nat.pow_succ, Nat.mul_comm]
    have hpos := two_pow_pos' (k - 2)
    constructor
    · rintro ⟨hlo, hhi⟩
      rcases hlo with hs | hlo
      · have := hx0 hs; omega
      · omega
    · rintro ⟨hlo, hhi⟩
      exact ⟨Or.inr (by omega), by omega⟩

theorem ofInt_natCast_mod (W n : Nat) : ofInt W (n : Int) = n % 2 ^ W := by
  unfold ofInt
  have : ((n : Int) % ((2 ^ W : Nat) : Int)) = ((n % 2 ^ W : Nat) : Int) :=
    (Int.natCast_emod n (2 ^ W)).symm
  rw [this]; exact Int.toNat_natCast _

theorem double_shl_eq {A k : Nat} (hk : 1 ≤ k) (hkA : k < A) : shl A (shl A 1 (k - 1)) 1 = 2 ^ k := by
  have hpk : 2 ^ (k - 1) * 2 ^ 1 = 2 ^ k := by rw [← Nat.pow_add]; congr 1; omega
  rw [shl_one (by omega), shl_eq (by rw [hpk]; exact pow_lt_pow hkA), hpk]

theorem enum_unsigned_could (k uw : Nat) (hk : 1 ≤ k) (hkuw : k ≤ uw) (buf : Buf)
    (hkB : k ≤ buf.W) (t : IntT) (x : Int) (h0 : 0 ≤ x) (hx : x < ((2 ^ uw : Nat) : Int)) :
    (View.mk (.enum uw false) k buf).couldWrite t x = true ↔ x < ((2 ^ k : Nat) : Int) := by
  obtain ⟨n, rfl⟩ : ∃ n : Nat, x = n := ⟨x.toNat, by omega⟩
  simp only [View.couldWrite, Bool.and_eq_true, Bool.or_eq_true, decide_eq_true_eq,
    Bool.false_eq_true, if_false, ofInt_natCast_mod]
  generalize buf.W = BW at *
  have hA := le_arithW BW
  have hk2 : 2 ^ k ≤ 2 ^ uw := pow_le_pow hkuw
  have hkB2 : 2 ^ k ≤ 2 ^ BW := pow_le_pow hkB
  have hmod := Nat.mod_lt n (two_pow_pos' BW)
  have hmodle := Nat.mod_le n (2 ^ BW)
  have hn : n < 2 ^ uw := by omega
  rw [wrap_of_lt (show n % 2 ^ BW < 2 ^ uw by omega)]
  constructor
  · rintro ⟨hrt, hsz⟩
    have hrt' : n = n % 2 ^ BW := by omega
    rcases hsz with hkB' | hlt
    · subst hkB'; omega
    · by_cases hkk : k < arithW BW
      · rw [double_shl_eq hk hkk] at hlt; omega
      · have hkA : k = arithW BW := by omega
        have hpk : 2 ^ (k - 1) * 2 ^ 1 = 2 ^ k := by rw [← Nat.pow_add]; congr 1; omega
        rw [← hkA, shl_one (by omega)] at hlt
        unfold shl wrap at hlt
        rw [Nat.shiftLeft_eq, hpk, Nat.mod_self] at hlt; omega
  · intro hlt
    have hxk : n < 2 ^ k := by omega
    have hm : n % 2 ^ BW = n := Nat.mod_eq_of_lt (by omega)
    refine ⟨by rw [hm], ?_⟩
    by_cases hkB' : k = BW
    · exact Or.inl hkB'
    · right; rw [double_shl_eq hk (by omega), hm]; exact hxk

/-- What `TryToWrite` stores represents the value: for every accepted value the raw pattern
fits the field and decodes (per the documentation) to the value. -/
theorem encode_spec (h : Placed bb o w) (direct : Bool) (ty : Ty) (hty : TypeFits ty w)
    (hs : ∀ uw, ty = .enum uw true → w = bb.W) (t : IntT) (x : Int) (ha : ArgOk ty w t x)
    (hc : (fieldView ty direct bb o w).couldWrite t x = true) :
    (fieldView ty direct bb o w).encode x < 2 ^ w ∧
    decodeSpec ty w ((fieldView ty direct bb o w).encode x) = some x := by
  have hw64 := placed_w_le h
  have hVW := le_leastWidth hw64
  cases ty with
  | uint =>
    obtain ⟨h0, hlt⟩ := (uint_could w h.w_pos hw64 _ t x ha.1 ha.2).mp hc
    simp only [View.encode, fieldView, View.VW, decodeSpec]
    rw [ofInt_of_nonneg h0 (by have := pow_le_pow hVW; omega)]
    exact ⟨by omega, by congr 1; omega⟩
  | int =>
    obtain ⟨hlo, hhi⟩ := (int_could w h.w_pos hw64 _ t x ha.1).mp hc
    simp only [View.encode, fieldView, fieldBuf_W, decodeSpec]
    rw [maskToNBits_ofInt (placed_w_le_W h)]
    obtain ⟨he, hlt⟩ := twos_ofInt (by have := h.w_pos; omega) hlo hhi
    exact ⟨hlt, by rw [he]⟩
  | bcd =>
    obtain ⟨h0, hlt⟩ := ha
    obtain ⟨n, rfl⟩ : ∃ n : Nat, x = n := ⟨x.toNat, by omega⟩
    simp only [View.couldWrite, fieldView, View.VW, Bool.and_eq_true, decide_eq_true_eq,
      Int.toNat_natCast] at hc
    obtain ⟨hl, hok, hv⟩ := (bcd_could_write (v := n) h.w_pos hw64).2 (of_decide_eq_true hc.1)
    have he : ofInt (leastWidth w) (n : Int) = n := ofInt_natCast (by exact_mod_cast hlt)
    simp only [View.encode, fieldView, View.VW, decodeSpec, he]
    exact ⟨hl, by rw [if_pos hok, hv]⟩
  | flag =>
    simp only [TypeFits] at hty; subst hty
    rcases ha with rfl | rfl <;> simp [View.encode, decodeSpec, fieldView]
  | float =>
    have h0 : 0 ≤ x := ha.1
    have hlt : x < ((2 ^ w : Nat) : Int) := ha.2
    simp only [View.encode, fieldView, decodeSpec]
    rw [ofInt_of_nonneg h0 hlt]
    exact ⟨by omega, by congr 1; omega⟩
  | enum uw s =>
    cases s with
    | false =>
      have hlt := (enum_unsigned_could w uw h.w_pos hty (fieldBuf direct bb o w)
        (by rw [fieldBuf_W]; exact placed_w_le_W h) t x ha.1 ha.2).mp hc
      simp only [View.encode, fieldView, fieldBuf_W, decodeSpec]
      have hwW := pow_le_pow (placed_w_le_W h)
      have h0 : 0 ≤ x := ha.1
      rw [ofInt_of_nonneg h0 (by omega)]
      exact ⟨by omega, by congr 1; omega⟩
    | true =>
      simp only [TypeFits] at hty; subst hty
      have hW := hs uw rfl
      simp only [View.encode, fieldView, fieldBuf_W, decodeSpec, ← hW]
      obtain ⟨he, hlt⟩ := twos_ofInt (by have := h.w_pos; omega) ha.1 ha.2
      exact ⟨hlt, by rw [he]⟩

end Emboss.Scalar
