/-
Representability, CouldWriteValue and TryToWrite assembled over `fieldView`.
-/
import Emboss.Lemmas.ScalarBcdWrite
namespace Emboss.Scalar
open Emboss.Bits Emboss.Scalar.Spec

variable {bb : BitBlock} {o w : Nat}

theorem twos_range {w d : Nat} (hw : 1 ≤ w) (hd : d < 2 ^ w) :
    -((2 ^ (w - 1) : Nat) : Int) ≤ twos w d ∧ twos w d < ((2 ^ (w - 1) : Nat) : Int) := by
  have := pow_pred_double (W := w) (by omega)
  unfold twos; split <;> omega

theorem representable_unsigned {ty : Ty}
    (hty : decodeSpec ty w = fun d : Nat => some ((d : Nat) : Int)) (x : Int) :
    Representable ty w x ↔ 0 ≤ x ∧ x < ((2 ^ w : Nat) : Int) := by
  unfold Representable; rw [hty]
  constructor
  · rintro ⟨d, hd, he⟩; simp only [Option.some.injEq] at he; omega
  · rintro ⟨h0, h1⟩; exact ⟨x.toNat, by omega, by simp only [Option.some.injEq]; omega⟩

theorem representable_signed {ty : Ty} (hty : decodeSpec ty w = fun d => some (twos w d)) (hw : 1 ≤ w)
    (x : Int) :
    Representable ty w x ↔ -((2 ^ (w - 1) : Nat) : Int) ≤ x ∧ x < ((2 ^ (w - 1) : Nat) : Int) := by
  unfold Representable; rw [hty]
  constructor
  · rintro ⟨d, hd, he⟩
    simp only [Option.some.injEq] at he; rw [← he]; exact twos_range hw hd
  · rintro ⟨h0, h1⟩
    obtain ⟨he, hlt⟩ := twos_ofInt (by omega) h0 h1
    exact ⟨ofInt w x, hlt, by simp only [he]⟩

/-! ### Successful TryToWrite -/

theorem tryToWrite_written (h : Placed bb o w) (direct : Bool)
    (hd : direct = true → o = 0 ∧ w = bb.c) (ty : Ty) (t : IntT) (x : Int)
    (hc : (fieldView ty direct bb o w).couldWrite t x = true)
    (henc : (fieldView ty direct bb o w).encode x < 2 ^ w) :
    ∃ bytes', (fieldView ty direct bb o w).tryToWrite t x =
        .written (fieldView ty direct { bb with bytes := bytes' } o w) ∧
      Placed { bb with bytes := bytes' } o w ∧
      Updated o w (containerValue bb.order bb.bytes) ((fieldView ty direct bb o w).encode x)
        (containerValue bb.order bytes') := by
  obtain ⟨bytes', hw, hp, hu⟩ := fieldBuf_writeUInt h direct hd henc
  refine ⟨bytes', ?_, hp, hu⟩
  unfold View.tryToWrite
  rw [if_neg (by simp [hc]), if_neg (by simp [fieldView_isComplete h direct hd ty])]
  have : (fieldView ty direct bb o w).buf = fieldBuf direct bb o w := rfl
  rw [this, hw]
  rfl

theorem tryToWrite_refused_of_not_could (v : View) (t : IntT) (x : Int)
    (hc : v.couldWrite t x = false) : v.tryToWrite t x = .refused := by
  unfold View.tryToWrite; rw [if_pos (by simp [hc])]

theorem tryToWrite_refused_of_incomplete (v : View) (t : IntT) (x : Int)
    (hc : v.isComplete = false) : v.tryToWrite t x = .refused := by
  unfold View.tryToWrite
  split
  · rfl
  · rw [if_pos (by simp [hc])]

/-! ### CouldWriteValue per view -/

theorem uint_could (k : Nat) (hk : 1 ≤ k) (hk64 : k ≤ 64) (buf : Buf) (t : IntT) (x : Int)
    (ht : t.holds x = true) (htw : t.width ≤ 64) :
    (View.mk .uint k buf).couldWrite t x = true ↔ 0 ≤ x ∧ x < ((2 ^ k : Nat) : Int) := by
  obtain ⟨h64, _⟩ := IntT.holds_lt64 ht htw
  simp only [View.couldWrite, View.VW, uint_bound_eq hk hk64, Bool.and_eq_true, decide_eq_true_eq]
  have hp := two_pow_pos' k
  constructor
  · rintro ⟨h0, hb⟩
    rw [ofInt_of_nonneg h0 h64] at hb
    omega
  · rintro ⟨h0, hb⟩
    refine ⟨h0, ?_⟩
    rw [ofInt_of_nonneg h0 h64]; omega

theorem int_could (k : Nat) (hk : 1 ≤ k) (hk64 : k ≤ 64) (buf : Buf) (t : IntT) (x : Int)
    (ht : t.holds x = true) :
    (View.mk .int k buf).couldWrite t x = true ↔
      -((2 ^ (k - 1) : Nat) : Int) ≤ x ∧ x < ((2 ^ (k - 1) : Nat) : Int) := by
  have hx0 : t.signed = false → 0 ≤ x := by
    intro hs; unfold IntT.holds at ht; rw [hs] at ht; simp at ht; omega
  simp only [View.couldWrite, View.VW]
  by_cases h1 : k = 1
  · subst h1
    simp only [if_true, Bool.and_eq_true, Bool.or_eq_true, Bool.not_eq_true', decide_eq_true_eq]
    constructor
    · rintro ⟨hlo, hhi⟩
      rcases hlo with hs | hlo
      · have := hx0 hs; simp; omega
      · simp; omega
    · rintro ⟨hlo, hhi⟩; simp at hlo hhi
      exact ⟨Or.inr (by omega), by omega⟩
  · have hb := int_bounds_eq (k := k) (by omega) hk64
    simp only [h1, if_false, hb, Bool.and_eq_true, Bool.or_eq_true, Bool.not_eq_true',
      decide_eq_true_eq]
    have hp : 2 ^ (k - 1) = 2 * 2 ^ (k - 2) := by
      rw [show k - 1 = (k - 2) + 1 by omega, Nat.pow_succ, Nat.mul_comm]
    have hpos := two_pow_pos' (k - 2)
    constructor
    · rintro ⟨hlo, hhi⟩
      rcases hlo with hs | hlo
      · have := hx0 hs; omega
      · omega
    · rintro ⟨hlo, hhi⟩
      exact ⟨Or.inr (by omega), by omega⟩

theorem ofInt_natCast_mod (W n : Nat) : ofInt W (n : Int) = n % 2 ^ W := by
  unfold ofInt
  have : ((n : Int) % ((2 ^ W : Nat) : Int)) = ((n % 2 ^ W : Nat) : Int) :=
    (Int.natCast_emod n (2 ^ W)).symm
  rw [this]; exact Int.toNat_natCast _

theorem double_shl_eq {A k : Nat} (hk : 1 ≤ k) (hkA : k < A) : shl A (shl A 1 (k - 1)) 1 = 2 ^ k := by
  have hpk : 2 ^ (k - 1) * 2 ^ 1 = 2 ^ k := by rw [← Nat.pow_add]; congr 1; omega
  rw [shl_one (by omega), shl_eq (by rw [hpk]; exact pow_lt_pow hkA), hpk]

theorem enum_unsigned_could (k uw : Nat) (hk : 1 ≤ k) (hkuw : k ≤ uw) (buf : Buf)
    (hkB : k ≤ buf.W) (t : IntT) (x : Int) (h0 : 0 ≤ x) (hx : x < ((2 ^ uw : Nat) : Int)) :
    (View.mk (.enum uw false) k buf).couldWrite t x = true ↔ x < ((2 ^ k : Nat) : Int) := by
  obtain ⟨n, rfl⟩ : ∃ n : Nat, x = n := ⟨x.toNat, by omega⟩
  have hn : n < 2 ^ uw := by omega
  simp only [View.couldWrite, Bool.and_eq_true, Bool.or_eq_true, decide_eq_true_eq,
    Bool.false_eq_true, if_false, ofInt_natCast_mod, Nat.mod_eq_of_lt hn]
  generalize buf.W = BW at *
  have hA := le_arithW BW
  have hk2 : 2 ^ k ≤ 2 ^ uw := pow_le_pow hkuw
  have hkB2 : 2 ^ k ≤ 2 ^ BW := pow_le_pow hkB
  have hmod := Nat.mod_lt n (two_pow_pos' BW)
  have hmodle := Nat.mod_le n (2 ^ BW)
  have hwr : wrap BW n = n % 2 ^ BW := rfl
  rw [hwr, wrap_of_lt (show n % 2 ^ BW < 2 ^ uw by omega)]
  constructor
  · rintro ⟨hrt, hsz⟩
    have hrt' : n = n % 2 ^ BW := by omega
    rcases hsz with hkB' | hlt
    · subst hkB'; omega
    · by_cases hkk : k < arithW BW
      · rw [double_shl_eq hk hkk] at hlt; omega
      · have hkA : k = arithW BW := by omega
        have hpk : 2 ^ (k - 1) * 2 ^ 1 = 2 ^ k := by rw [← Nat.pow_add]; congr 1; omega
        rw [← hkA, shl_one (by omega)] at hlt
        unfold shl wrap at hlt
        rw [Nat.shiftLeft_eq, hpk, Nat.mod_self] at hlt; omega
  · intro hlt
    have hxk : n < 2 ^ k := by omega
    have hm : n % 2 ^ BW = n := Nat.mod_eq_of_lt (by omega)
    refine ⟨by rw [hm], ?_⟩
    by_cases hkB' : k = BW
    · exact Or.inl hkB'
    · right; rw [double_shl_eq hk (by omega), hm]; exact hxk

/-- `ofInt` of a value of the signed `uw`-bit type, split by sign. -/
theorem ofInt_signed_cases {uw : Nat} (huw : 1 ≤ uw) {x : Int}
    (hlo : -((2 ^ (uw - 1) : Nat) : Int) ≤ x) (hhi : x < ((2 ^ (uw - 1) : Nat) : Int)) :
    (0 ≤ x ∧ ofInt uw x = x.toNat ∧ x.toNat < 2 ^ (uw - 1)) ∨
    (x < 0 ∧ ((ofInt uw x : Nat) : Int) = x + ((2 ^ uw : Nat) : Int) ∧ 2 ^ (uw - 1) ≤ ofInt uw x) := by
  have hd := pow_pred_double (W := uw) (by omega)
  by_cases h0 : 0 ≤ x
  · left
    refine ⟨h0, ofInt_of_nonneg h0 (by omega), by omega⟩
  · right
    have hx : x < 0 := by omega
    have hmod : x % ((2 ^ uw : Nat) : Int) = x + ((2 ^ uw : Nat) : Int) := by
      rw [← Int.add_emod_right]
      exact Int.emod_eq_of_lt (by omega) (by omega)
    have hofi : ((ofInt uw x : Nat) : Int) = x + ((2 ^ uw : Nat) : Int) := by
      unfold ofInt; rw [hmod]; exact Int.toNat_of_nonneg (by omega)
    exact ⟨hx, hofi, by omega⟩

/-- **`EnumView::CouldWriteValue` of a signed enum as implemented** (after `fix: … negative
value of a signed enum … full-width field inside a wider bits`): a field as wide as the
underlying type accepts every value of the type, whatever the width of the buffer's value
type; a narrower field accepts exactly `0 ≤ x < 2^k` (the unsigned image of a negative value
is `≥ 2^(uw-1) ≥ 2^k`). -/
theorem enum_signed_could (k uw : Nat) (hk : 1 ≤ k) (hkuw : k ≤ uw) (buf : Buf)
    (hkB : k ≤ buf.W) (t : IntT) (x : Int) (hlo : -((2 ^ (uw - 1) : Nat) : Int) ≤ x)
    (hhi : x < ((2 ^ (uw - 1) : Nat) : Int)) :
    (View.mk (.enum uw true) k buf).couldWrite t x = true ↔
      (k = uw ∨ (0 ≤ x ∧ x < ((2 ^ k : Nat) : Int))) := by
  simp only [View.couldWrite, Bool.and_eq_true, Bool.or_eq_true, decide_eq_true_eq, if_true]
  generalize buf.W = BW at *
  have hA := le_arithW BW
  have hd := pow_pred_double (W := uw) (by omega)
  have hk2 : 2 ^ k ≤ 2 ^ uw := pow_le_pow hkuw
  have hkB2 : 2 ^ k ≤ 2 ^ BW := pow_le_pow hkB
  have hu := ofInt_lt uw x
  have hwr : wrap BW (ofInt uw x) = ofInt uw x % 2 ^ BW := rfl
  have hmod := Nat.mod_lt (ofInt uw x) (two_pow_pos' BW)
  have hmodle := Nat.mod_le (ofInt uw x) (2 ^ BW)
  -- the size clause, in arithmetic form
  have hsz : (k = BW ∨ ofInt uw x % 2 ^ BW < shl (arithW BW) (shl (arithW BW) 1 (k - 1)) 1) ↔
      (k = BW ∨ ofInt uw x % 2 ^ BW < 2 ^ k) := by
    by_cases hkB' : k = BW
    · simp [hkB']
    · rw [double_shl_eq hk (by omega)]
  rw [hwr, hsz]
  by_cases hfull : uw ≤ BW
  · -- the bit view's value type holds the whole unsigned image: the round trip is exact
    have hm : ofInt uw x % 2 ^ BW = ofInt uw x :=
      Nat.mod_eq_of_lt (by have := pow_le_pow hfull; omega)
    have hrt : x = toSigned uw (ofInt uw x) := (toSigned_ofInt (by omega) hlo hhi).symm
    rw [hm]
    constructor
    · rintro ⟨_, hs⟩
      by_cases hku : k = uw
      · exact Or.inl hku
      · right
        have hklt : ofInt uw x < 2 ^ k := by
          rcases hs with hkB' | hlt
          · omega
          · exact hlt
        have hkp : 2 ^ k ≤ 2 ^ (uw - 1) := pow_le_pow (by omega)
        rcases ofInt_signed_cases (by omega) hlo hhi with ⟨h0, he, _⟩ | ⟨_, _, hge⟩
        · exact ⟨h0, by omega⟩
        · omega
    · rintro (hku | ⟨h0, hlt⟩)
      · refine ⟨hrt, ?_⟩
        by_cases hkB' : k = BW
        · exact Or.inl hkB'
        · right; rw [hku]; exact hu
      · refine ⟨hrt, Or.inr ?_⟩
        rw [ofInt_of_nonneg h0 (by omega)]; omega
  · -- the bit view's value type is narrower than the enum: only `0 ≤ x < 2^BW` round-trips
    have hBlt : BW < uw := by omega
    have hBp : 2 ^ BW ≤ 2 ^ (uw - 1) := pow_le_pow (by omega)
    have hkne : k ≠ uw := by omega
    have hts : toSigned uw (ofInt uw x % 2 ^ BW) = ((ofInt uw x % 2 ^ BW : Nat) : Int) :=
      toSigned_of_lt (by omega) (by omega)
    rw [hts]
    constructor
    · rintro ⟨hrt, hs⟩
      right
      have h0 : 0 ≤ x := by omega
      have he := ofInt_of_nonneg h0 (show x < ((2 ^ uw : Nat) : Int) by omega)
      rw [he] at hrt hs
      have hxm : x.toNat % 2 ^ BW = x.toNat := by omega
      rw [hxm] at hs
      refine ⟨h0, ?_⟩
      rcases hs with hkB' | hlt
      · subst hkB'; omega
      · omega
    · rintro (hku | ⟨h0, hlt⟩)
      · exact absurd hku hkne
      · have he := ofInt_of_nonneg h0 (show x < ((2 ^ uw : Nat) : Int) by omega)
        have hxm : x.toNat % 2 ^ BW = x.toNat := Nat.mod_eq_of_lt (by omega)
        rw [he, hxm]
        exact ⟨by omega, Or.inr (by omega)⟩

/-- The raw pattern `EnumView::TryToWrite` hands to `WriteUInt`, for a value of the
underlying type that the field width can hold as an unsigned image. -/
theorem enum_encode_eq {BW uw k : Nat} (hkB : k ≤ BW) (x : Int)
    (hlt : ofInt uw x < 2 ^ k) : wrap BW (ofInt uw x) = ofInt uw x :=
  wrap_of_lt (by have := pow_le_pow hkB; omega)

/-- What `TryToWrite` stores represents the value: for every accepted value the raw pattern
fits the field and decodes (per the documentation) to the value. -/
theorem encode_spec (h : Placed bb o w) (direct : Bool) (ty : Ty) (hty : TypeFits ty w)
    (t : IntT) (x : Int) (ha : ArgOk ty w t x)
    (hc : (fieldView ty direct bb o w).couldWrite t x = true) :
    (fieldView ty direct bb o w).encode x < 2 ^ w ∧
    decodeSpec ty w ((fieldView ty direct bb o w).encode x) = some x := by
  have hw64 := placed_w_le h
  have hVW := le_leastWidth hw64
  cases ty with
  | uint =>
    obtain ⟨h0, hlt⟩ := (uint_could w h.w_pos hw64 _ t x ha.1 ha.2).mp hc
    simp only [View.encode, fieldView, View.VW, decodeSpec]
    rw [ofInt_of_nonneg h0 (by have := pow_le_pow hVW; omega)]
    exact ⟨by omega, by congr 1; omega⟩
  | int =>
    obtain ⟨hlo, hhi⟩ := (int_could w h.w_pos hw64 _ t x ha.1).mp hc
    simp only [View.encode, fieldView, fieldBuf_W, decodeSpec]
    rw [maskToNBits_ofInt (placed_w_le_W h)]
    obtain ⟨he, hlt⟩ := twos_ofInt (by have := h.w_pos; omega) hlo hhi
    exact ⟨hlt, by rw [he]⟩
  | bcd =>
    obtain ⟨h0, hlt⟩ := ha
    obtain ⟨n, rfl⟩ : ∃ n : Nat, x = n := ⟨x.toNat, by omega⟩
    simp only [View.couldWrite, fieldView, View.VW, Bool.and_eq_true, decide_eq_true_eq,
      Int.toNat_natCast] at hc
    obtain ⟨hl, hok, hv⟩ := (bcd_could_write (v := n) h.w_pos hw64).2 (of_decide_eq_true hc.1)
    have he : ofInt (leastWidth w) (n : Int) = n := ofInt_natCast (by exact_mod_cast hlt)
    simp only [View.encode, fieldView, View.VW, decodeSpec, he]
    exact ⟨hl, by rw [if_pos hok, hv]⟩
  | flag =>
    simp only [TypeFits] at hty; subst hty
    rcases ha with rfl | rfl <;> simp [View.encode, decodeSpec, fieldView]
  | float =>
    have h0 : 0 ≤ x := ha.1
    have hlt : x < ((2 ^ w : Nat) : Int) := ha.2
    simp only [View.encode, fieldView, decodeSpec]
    rw [ofInt_of_nonneg h0 hlt]
    exact ⟨by omega, by congr 1; omega⟩
  | enum uw s =>
    have hkB := placed_w_le_W h
    cases s with
    | false =>
      have hlt := (enum_unsigned_could w uw h.w_pos hty (fieldBuf direct bb o w)
        (by rw [fieldBuf_W]; exact hkB) t x ha.1 ha.2).mp hc
      simp only [View.encode, fieldView, fieldBuf_W, decodeSpec]
      have hwW := pow_le_pow hkB
      have hwu := pow_le_pow (show w ≤ uw from hty)
      have h0 : 0 ≤ x := ha.1
      rw [ofInt_of_nonneg h0 ha.2, wrap_of_lt (by omega)]
      exact ⟨by omega, by congr 1; omega⟩
    | true =>
      -- spec-conformant fragment: the field is as wide as the underlying type
      simp only [TypeFits] at hty; subst hty
      simp only [View.encode, fieldView, fieldBuf_W, decodeSpec]
      obtain ⟨he, hlt⟩ := twos_ofInt (by have := h.w_pos; omega) ha.1 ha.2
      rw [wrap_of_lt (by have := pow_le_pow hkB; omega)]
      exact ⟨hlt, by rw [he]⟩

end Emboss.Scalar
