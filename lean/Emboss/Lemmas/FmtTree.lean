/-
C11 helper lemmas, part 5: induction over parse trees (`fold_ok`).
-/
import Emboss.Lemmas.FmtFold
namespace Emboss.Fmt

theorem foldList_get (tbl : Table) (iw : Nat) : ∀ (cs : List Tree) (args : List Fmt),
    foldList tbl iw cs = some args → ∀ (i : Nat) v, args[i]? = some v →
      ∃ c, cs[i]? = some c ∧ fold tbl iw c = some v := by
  intro cs
  induction cs with
  | nil =>
    intro args h i v hv
    simp [foldList] at h; subst h; simp at hv
  | cons c rest ih =>
    intro args h i v hv
    simp only [foldList] at h
    split at h
    · cases h
    · rename_i v0 hv0
      split at h
      · cases h
      · rename_i vs hvs
        cases h
        cases i with
        | zero => simp at hv; subst hv; exact ⟨c, rfl, hv0⟩
        | succ j => simpa using ih vs hvs j v (by simpa using hv)

theorem wfList_get (tbl : Table) : ∀ (cs : List Tree), wfList tbl cs = true → ∀ (i : Nat) c, cs[i]? = some c →
    wf tbl c = true := by
  intro cs
  induction cs with
  | nil => intro _ i c h; simp at h
  | cons c0 rest ih =>
    intro h i c hc
    simp only [wfList, Bool.and_eq_true] at h
    cases i with
    | zero => simp at hc; subst hc; exact h.1
    | succ j => exact ih h.2 j c (by simpa using hc)

theorem layoutBlankList_get : ∀ (cs : List Tree), layoutBlankList cs = true → ∀ (i : Nat) c, cs[i]? = some c →
    layoutBlank c = true := by
  intro cs
  induction cs with
  | nil => intro _ i c h; simp at h
  | cons c0 rest ih =>
    intro h i c hc
    simp only [layoutBlankList, Bool.and_eq_true] at h
    cases i with
    | zero => simp at hc; subst hc; exact h.1
    | succ j => exact ih h.2 j c (by simpa using hc)

theorem tableTyped_entry {tbl : Table} (ht : tableTyped tbl = true) {p : Nat} {e} (he : tbl[p]? = some e) :
    checkEntry e = true ∧ dropOK e = true ∧ isLayoutSym e.1 = false := by
  have hm : e ∈ tbl := List.mem_of_getElem? he
  simp only [tableTyped, Bool.and_eq_true, List.all_eq_true] at ht
  exact ⟨ht.1.1 e hm, ht.1.2 e hm, by simpa using ht.2 e hm⟩

/-- A child whose root symbol is a layout terminal is a blank token. -/
theorem layout_child_blank {tbl : Table} (ht : tableTyped tbl = true) (iw : Nat) (c : Tree) (v : Fmt)
    (hl : layoutBlank c = true) (hs : isLayoutSym (rootSym tbl c) = true) (hw : wf tbl c = true)
    (hf : fold tbl iw c = some v) : content v = [] := by
  cases c with
  | tok sym text =>
    simp only [fold] at hf; cases hf
    simp only [rootSym] at hs
    simp only [layoutBlank, hs, Bool.not_true, Bool.false_or, List.isEmpty_iff] at hl
    simpa using hl
  | node p cs =>
    simp only [wf] at hw
    split at hw
    · cases hw
    · rename_i e he
      have := (tableTyped_entry ht he).2.2
      simp only [rootSym, he] at hs
      rw [this] at hs; cases hs

theorem hasKind_nil_of_hasEmpty {k : Kind} (h : k.hasEmpty = true) : HasKind .nil k := by
  cases k <;> simp [Kind.hasEmpty] at h
  · exact ⟨[], rfl, PlainRows.nil⟩
  · exact ⟨[], rfl, by simp⟩
  · exact ⟨[], rfl, by simp⟩
  · exact ⟨[], rfl, by simp⟩

theorem map_eq_nil_of {α β} {f : α → β} {l : List α} (h : l.map f = []) : l = [] := by
  cases l <;> simp at h ⊢

mutual
  theorem fold_ok (tbl : Table) (iw : Nat) (ht : tableTyped tbl = true) : ∀ (t : Tree),
      wf tbl t = true →
      ∃ v, fold tbl iw t = some v ∧ HasKind v (kindOf (rootSym tbl t)) ∧
        (layoutBlank t = true → content v = despace (leaves t).flatten)
    | .tok sym text, hw => by
      simp only [wf, beq_iff_eq] at hw
      refine ⟨.str text, rfl, ?_, fun _ => by simp [leaves]⟩
      simp only [rootSym, hw]; exact ⟨_, rfl⟩
    | .node p cs, hw => by
      simp only [wf] at hw
      split at hw
      · cases hw
      · rename_i e he
        simp only [Bool.and_eq_true, beq_iff_eq] at hw
        obtain ⟨⟨hrhs, hwl⟩, hdoc⟩ := hw
        obtain ⟨hce, hdo, _⟩ := tableTyped_entry ht he
        obtain ⟨args, hargs, hkinds, hcont⟩ := foldList_ok tbl iw ht cs hwl
        cases hres : resolve e with
        | none => simp [hres] at hdoc
        | some h =>
          simp only [hres] at hdoc
          have hfold : fold tbl iw (.node p cs) = h.run iw args := by
            simp only [fold, he, hres, hargs]
          have hroot : rootSym tbl (.node p cs) = e.1 := by simp only [rootSym, he]
          rw [hfold, hroot]
          simp only [leaves, layoutBlank]
          have hkinds' : HasKinds args (e.2.1.map kindOf) := by
            rw [← hrhs, List.map_map]; exact hkinds
          by_cases hel : h = .emptyList
          · subst hel
            simp only [checkEntry, checkCore, hres, Bool.and_eq_true, List.isEmpty_iff] at hce
            have hcs : cs = [] := map_eq_nil_of (hrhs.trans (map_eq_nil_of hce.1))
            subst hcs
            simp only [foldList] at hargs; cases hargs
            exact ⟨.nil, rfl, hasKind_nil_of_hasEmpty hce.2, fun _ => rfl⟩
          · have hce' : ∃ k, h.sig (e.2.1.map kindOf) = some k ∧ k.le (kindOf e.1) = true := by
              simp only [checkEntry, checkCore, hres] at hce
              cases h <;> first | exact absurd rfl hel | (
                split at hce
                · rename_i k hk; exact ⟨k, hk, hce⟩
                · cases hce)
            obtain ⟨k, hsig, hle⟩ := hce'
            by_cases hd : h = .docLine
            · subst hd
              simp only [docLineOK, if_true] at hdoc
              simp only [Handler.sig] at hsig
              obtain ⟨hks, rfl⟩ := ite_some_eq hsig
              rw [hks] at hkinds'
              obtain ⟨a, _, rfl, ha, hkinds'⟩ := hasKinds_cons hkinds'
              obtain ⟨b, _, rfl, hb, hkinds'⟩ := hasKinds_cons hkinds'
              obtain ⟨c, _, rfl, hc, hkinds'⟩ := hasKinds_cons hkinds'
              cases hasKinds_nil hkinds'
              -- the Comment? child is the empty production
              have hb' : b = .str [] := by
                split at hdoc
                · rename_i c0 q c2
                  obtain ⟨c', hc', hfc⟩ := foldList_get tbl iw _ _ hargs 1 b rfl
                  simp at hc'; subst hc'
                  simp only [beq_iff_eq] at hdoc
                  cases hq : tbl[q]? with
                  | none => simp [hq] at hdoc
                  | some eq =>
                    simp only [hq, Option.bind] at hdoc
                    simp only [fold, hq, hdoc, foldList, Handler.run, hEmptyString] at hfc
                    exact (Option.some.inj hfc).symm
                · cases hdoc
              subst hb'
              obtain ⟨v, hv, hkv, hcv⟩ := hDocLine_ok ha hc
              exact ⟨v, hv, hkv.weaken hle, fun hl => by rw [hcv, hcont hl]⟩
            · obtain ⟨v, hv, hkv, hcv⟩ := run_ok iw h args _ k hd hkinds' hsig
              refine ⟨v, hv, hkv.weaken hle, fun hl => ?_⟩
              have hdrop : DroppedBlank h args := by
                intro i hi v hv
                simp only [dropOK, dropCore, hres, List.all_eq_true, List.getElem?_map] at hdo
                have hsym := hdo i hi
                cases hs : e.2.1[i]? with
                | none => simp [hs] at hsym
                | some s =>
                  simp only [hs, Option.map_some] at hsym
                  obtain ⟨c, hc, hfc⟩ := foldList_get tbl iw _ _ hargs i v hv
                  have hrs : rootSym tbl c = s := by
                    have : (cs.map (rootSym tbl))[i]? = some s := by rw [hrhs]; exact hs
                    simp only [List.getElem?_map, hc, Option.map] at this
                    exact Option.some.inj this
                  exact layout_child_blank ht iw c v (layoutBlankList_get cs hl i c hc)
                    (by rw [hrs]; exact hsym) (wfList_get tbl cs hwl i c hc) hfc
              rw [hcv hdrop, hcont hl]
  theorem foldList_ok (tbl : Table) (iw : Nat) (ht : tableTyped tbl = true) : ∀ (ts : List Tree),
      wfList tbl ts = true →
      ∃ vs, foldList tbl iw ts = some vs ∧
        HasKinds vs (ts.map (fun t => kindOf (rootSym tbl t))) ∧
        (layoutBlankList ts = true → contents vs = despace (leavesList ts).flatten)
    | [], _ => ⟨[], rfl, trivial, fun _ => rfl⟩
    | t :: ts, hw => by
      simp only [wfList, Bool.and_eq_true] at hw
      obtain ⟨v, hv, hk, hc⟩ := fold_ok tbl iw ht t hw.1
      obtain ⟨vs, hvs, hks, hcs⟩ := foldList_ok tbl iw ht ts hw.2
      refine ⟨v :: vs, by simp only [foldList, hv, hvs], ⟨hk, hks⟩, fun hl => ?_⟩
      simp only [layoutBlankList, Bool.and_eq_true] at hl
      simp [leavesList, hc hl.1, hcs hl.2]
end

end Emboss.Fmt
